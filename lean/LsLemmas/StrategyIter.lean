import LsLemmas.Strategy
/-
  strategy.IterUpdate (iterBoth + callback) against its specification (helper lemmas for C19).
-/
namespace Ls.Strategy
open Ls Ls.Lmdb

variable {E ε : Type}

/-! ### one iteration of the loop, by shape of the state -/

theorem iuLoop_zero (ik : Bool) (it : Iter E ε) (prev itCur its dbCur dbs s) :
    iuLoop ik it 0 prev itCur its dbCur dbs s = .error .hang := rfl

/-- fetching the next stored entry -/
theorem iuLoop_dbfetch (ik : Bool) (it : Iter E ε) (fuel prev e its y ys s) :
    iuLoop ik it (fuel + 1) prev (some e) its none (y :: ys) s
      = iuLoop ik it (fuel + 1) prev (some e) its (some y) ys s := rfl

theorem iuLoop_dbfetch_nil (ik : Bool) (it : Iter E ε) (fuel prev y ys s) :
    iuLoop ik it (fuel + 1) prev none [] none (y :: ys) s
      = iuLoop ik it (fuel + 1) prev none [] (some y) ys s := rfl

theorem iuLoop_done (ik : Bool) (it : Iter E ε) (fuel prev s) :
    iuLoop ik it (fuel + 1) prev none [] none [] s = .ok s := rfl

theorem iuLoop_cleanonly (ik : Bool) (it : Iter E ε) (fuel prev dk dv dbs s) :
    iuLoop ik it (fuel + 1) prev none [] (some (dk, dv)) dbs s
      = (cbClean ik it s dk dv >>= fun s => iuLoop ik it fuel prev none [] none dbs s) := rfl

theorem iuLoop_insertonly (ik : Bool) (it : Iter E ε) (fuel prev e its s) :
    iuLoop ik it (fuel + 1) prev (some e) its none [] s
      = (cbInsert ik it s e >>= fun s => iuLoop ik it fuel prev none its none [] s) := rfl

theorem iuLoop_both (ik : Bool) (it : Iter E ε) (fuel prev e its dk dv dbs s) :
    iuLoop ik it (fuel + 1) prev (some e) its (some (dk, dv)) dbs s
      = if kcmp ik dk (it.key e) < 0 then
          (cbClean ik it s dk dv >>= fun s => iuLoop ik it fuel prev (some e) its none dbs s)
        else if kcmp ik dk (it.key e) = 0 then
          (cbBoth ik it s e dv >>= fun s => iuLoop ik it fuel prev none its none dbs s)
        else
          (cbInsert ik it s e >>= fun s => iuLoop ik it fuel prev none its (some (dk, dv)) dbs s) := rfl

/-- fetching the next input entry: sortedness and buffer checks -/
theorem iuLoop_itfetch (ik : Bool) (it : Iter E ε) (fuel prev x xs dbCur dbs s) :
    iuLoop ik it (fuel + 1) prev none (x :: xs) dbCur dbs s
      = if (prev.isSome ∨ (it.key x).length = 0) ∧ kcmp ik (prev.getD []) (it.key x) ≥ 0 then .error .notSorted
        else if (it.key x).length > Gen.strategyMaxKeySize then .error .panic
        else iuLoop ik it (fuel + 1) (some (it.key x)) (some x) xs dbCur dbs s := by
  rw [iuLoop.eq_def]
  by_cases h1 : (prev.isSome ∨ (it.key x).length = 0) ∧ kcmp ik (prev.getD []) (it.key x) ≥ 0
  · simp only [if_pos h1]
  · by_cases h2 : (it.key x).length > Gen.strategyMaxKeySize
    · simp only [if_neg h1, if_pos h2]
    · simp only [if_neg h1, if_neg h2]
      rfl

/-! ### the merge-join plan -/

/-- what `iterBoth` asks the callback to do -/
inductive Act (E : Type) where
  | clean (dk dv : Bytes)            -- stored entry without input
  | insert (e : E)                   -- input entry without stored counterpart
  | both (e : E) (dk dv : Bytes)     -- input entry with the stored entry of the same key

/-- the merge-join of the input and the stored entries, both in the DBI's order -/
def plan (ik : Bool) (it : Iter E ε) : List E → KVs → List (Act E)
  | [], [] => []
  | [], (dk, dv) :: ds => .clean dk dv :: plan ik it [] ds
  | e :: es, [] => .insert e :: plan ik it es []
  | e :: es, (dk, dv) :: ds =>
    if kcmp ik dk (it.key e) < 0 then .clean dk dv :: plan ik it (e :: es) ds
    else if kcmp ik dk (it.key e) = 0 then .both e dk dv :: plan ik it es ds
    else .insert e :: plan ik it es ((dk, dv) :: ds)
termination_by I D => I.length + D.length

def runAct (ik : Bool) (it : Iter E ε) (s : S) : Act E → Except (SErr ε) S
  | .clean dk dv => cbClean ik it s dk dv
  | .insert e => cbInsert ik it s e
  | .both e _ dv => cbBoth ik it s e dv

def runPlan (ik : Bool) (it : Iter E ε) (s : S) (acts : List (Act E)) : Except (SErr ε) S :=
  acts.foldlM (runAct ik it) s

theorem runPlan_nil (ik : Bool) (it : Iter E ε) (s : S) : runPlan ik it s [] = .ok s := rfl

theorem runPlan_cons (ik : Bool) (it : Iter E ε) (s : S) (a : Act E) (as : List (Act E)) :
    runPlan ik it s (a :: as) = (runAct ik it s a >>= fun s' => runPlan ik it s' as) := by
  unfold runPlan; rw [List.foldlM_cons]

theorem plan_nil_nil (ik : Bool) (it : Iter E ε) : plan ik it [] [] = [] := by rw [plan]

theorem plan_nil_cons (ik : Bool) (it : Iter E ε) (dk dv ds) :
    plan ik it [] ((dk, dv) :: ds) = .clean dk dv :: plan ik it [] ds := by rw [plan]

theorem plan_cons_nil (ik : Bool) (it : Iter E ε) (e es) :
    plan ik it (e :: es) [] = .insert e :: plan ik it es [] := by rw [plan]

theorem plan_cons_cons (ik : Bool) (it : Iter E ε) (e es dk dv ds) :
    plan ik it (e :: es) ((dk, dv) :: ds) =
      if kcmp ik dk (it.key e) < 0 then .clean dk dv :: plan ik it (e :: es) ds
      else if kcmp ik dk (it.key e) = 0 then .both e dk dv :: plan ik it es ds
      else .insert e :: plan ik it es ((dk, dv) :: ds) := by rw [plan]

/-- input keys strictly increasing in the DBI's order -/
def ISorted (ik : Bool) (it : Iter E ε) (I : List E) : Prop :=
  I.Pairwise (fun a b => kcmp ik (it.key a) (it.key b) < 0)

/-- input keys of 1..511 bytes -/
def KeysOK (it : Iter E ε) (I : List E) : Prop :=
  ∀ e ∈ I, (it.key e).length ≠ 0 ∧ (it.key e).length ≤ Gen.strategyMaxKeySize

theorem bind_congr_ok {α β : Type} {x : Except (SErr ε) α} {f g : α → Except (SErr ε) β}
    (h : ∀ a, f a = g a) : (x >>= f) = (x >>= g) := by
  have : f = g := funext h
  rw [this]

/-- `iterBoth` with the `IterUpdate` callback is the fold of the callbacks along the merge-join
    plan: with sorted input keys of valid size there is no `notSorted`, no `panic`, and the
    fuel `|input| + |stored| + 1` suffices. -/
theorem iuLoop_plan (ik : Bool) (it : Iter E ε) : ∀ (fuel : Nat) (prev : Option Bytes) (itCur : Option E)
    (its : List E) (dbCur : Option (Bytes × Bytes)) (dbs : KVs) (s : S),
    ISorted ik it (itCur.toList ++ its) → KeysOK it (itCur.toList ++ its) →
    (∀ e, itCur = some e → prev = some (it.key e)) →
    (itCur = none → ∀ p, prev = some p → ∀ x ∈ its, kcmp ik p (it.key x) < 0) →
    (itCur.toList ++ its).length + (dbCur.toList ++ dbs).length < fuel →
    iuLoop ik it fuel prev itCur its dbCur dbs s
      = runPlan ik it s (plan ik it (itCur.toList ++ its) (dbCur.toList ++ dbs)) := by
  intro fuel
  induction fuel with
  | zero => intro _ _ _ _ _ _ _ _ _ _ hf; omega
  | succ fuel ih =>
    -- current input entry and current stored entry both present
    have hss : ∀ (prev : Option Bytes) (e : E) (its : List E) (dk dv : Bytes) (dbs : KVs) (s : S),
        ISorted ik it (e :: its) → KeysOK it (e :: its) → prev = some (it.key e) →
        (e :: its).length + ((dk, dv) :: dbs).length < fuel + 1 →
        iuLoop ik it (fuel + 1) prev (some e) its (some (dk, dv)) dbs s
          = runPlan ik it s (plan ik it (e :: its) ((dk, dv) :: dbs)) := by
      intro prev e its dk dv dbs s hS hK hP hF
      simp only [List.length_cons] at hF
      rw [iuLoop_both, plan_cons_cons]
      have hS' := List.pairwise_cons.mp hS
      have hK' : KeysOK it its := fun x hx => hK x (List.mem_cons_of_mem _ hx)
      split
      · rw [runPlan_cons]
        refine bind_congr_ok (fun s' => ?_)
        exact ih prev (some e) its none dbs s' hS hK (fun e' he' => by cases he'; exact hP)
          (fun h => by cases h) (by simp only [Option.toList_some, Option.toList_none, List.nil_append,
            List.singleton_append, List.length_cons]; omega)
      · split
        · rw [runPlan_cons]
          refine bind_congr_ok (fun s' => ?_)
          exact ih prev none its none dbs s' hS'.2 hK' (fun e' he' => by cases he')
            (fun _ p hp x hx => by rw [hP] at hp; cases hp; exact hS'.1 x hx)
            (by simp only [Option.toList_none, List.nil_append]; omega)
        · rw [runPlan_cons]
          refine bind_congr_ok (fun s' => ?_)
          exact ih prev none its (some (dk, dv)) dbs s' hS'.2 hK' (fun e' he' => by cases he')
            (fun _ p hp x hx => by rw [hP] at hp; cases hp; exact hS'.1 x hx)
            (by simp only [Option.toList_none, Option.toList_some, List.nil_append, List.singleton_append,
              List.length_cons]; omega)
    -- current input entry present
    have hs : ∀ (prev : Option Bytes) (e : E) (its : List E) (dbCur : Option (Bytes × Bytes)) (dbs : KVs) (s : S),
        ISorted ik it (e :: its) → KeysOK it (e :: its) → prev = some (it.key e) →
        (e :: its).length + (dbCur.toList ++ dbs).length < fuel + 1 →
        iuLoop ik it (fuel + 1) prev (some e) its dbCur dbs s
          = runPlan ik it s (plan ik it (e :: its) (dbCur.toList ++ dbs)) := by
      intro prev e its dbCur dbs s hS hK hP hF
      have hS' := List.pairwise_cons.mp hS
      have hK' : KeysOK it its := fun x hx => hK x (List.mem_cons_of_mem _ hx)
      cases dbCur with
      | some d => obtain ⟨dk, dv⟩ := d; exact hss prev e its dk dv dbs s hS hK hP hF
      | none =>
        cases dbs with
        | cons y ys => obtain ⟨dk, dv⟩ := y; rw [iuLoop_dbfetch]; exact hss prev e its dk dv ys s hS hK hP hF
        | nil =>
          simp only [Option.toList_none, List.nil_append, List.length_cons, List.length_nil] at hF
          rw [iuLoop_insertonly]
          show _ = runPlan ik it s (plan ik it (e :: its) [])
          rw [plan_cons_nil, runPlan_cons]
          refine bind_congr_ok (fun s' => ?_)
          exact ih prev none its none [] s' hS'.2 hK' (fun e' he' => by cases he')
            (fun _ p hp x hx => by rw [hP] at hp; cases hp; exact hS'.1 x hx)
            (by simp only [Option.toList_none, List.nil_append, List.length_nil]; omega)
    intro prev itCur its dbCur dbs s hS hK hP1 hP2 hF
    cases itCur with
    | some e => exact hs prev e its dbCur dbs s hS hK (hP1 e rfl) hF
    | none =>
      cases its with
      | cons x xs =>
        have hkx := hK x (List.mem_cons_self ..)
        rw [iuLoop_itfetch]
        have h1 : ¬ ((prev.isSome ∨ (it.key x).length = 0) ∧ kcmp ik (prev.getD []) (it.key x) ≥ 0) := by
          intro ⟨ha, hb⟩
          cases prev with
          | none => simp at ha; exact hkx.1 (by rw [ha]; rfl)
          | some p =>
            have := hP2 rfl p rfl x (List.mem_cons_self ..)
            simp only [Option.getD_some] at hb
            omega
        have h2 : ¬ (it.key x).length > Gen.strategyMaxKeySize := by have := hkx.2; omega
        rw [if_neg h1, if_neg h2]
        exact hs (some (it.key x)) x xs dbCur dbs s hS hK rfl hF
      | nil =>
        simp only [Option.toList_none, List.nil_append, List.length_nil] at hF
        show _ = runPlan ik it s (plan ik it [] (dbCur.toList ++ dbs))
        have hc : ∀ dk dv dbs s, ((dk, dv) :: dbs).length < fuel + 1 →
            iuLoop ik it (fuel + 1) prev none [] (some (dk, dv)) dbs s
              = runPlan ik it s (plan ik it [] ((dk, dv) :: dbs)) := by
          intro dk dv dbs s hF
          simp only [List.length_cons] at hF
          rw [iuLoop_cleanonly, plan_nil_cons, runPlan_cons]
          refine bind_congr_ok (fun s' => ?_)
          exact ih prev none [] none dbs s' List.Pairwise.nil (fun x hx => by cases hx)
            (fun e' he' => by cases he') (fun _ _ _ x hx => by cases hx)
            (by simp only [Option.toList_none, List.nil_append, List.length_nil]; omega)
        cases dbCur with
        | some d => obtain ⟨dk, dv⟩ := d; exact hc dk dv dbs s (by simpa using hF)
        | none =>
          cases dbs with
          | cons y ys => obtain ⟨dk, dv⟩ := y; rw [iuLoop_dbfetch_nil]; exact hc dk dv ys s (by simpa using hF)
          | nil => rw [iuLoop_done]; show _ = runPlan ik it s (plan ik it [] []); rw [plan_nil_nil]; rfl

/-- `IterUpdate` is the fold of the callbacks along the merge-join plan -/
theorem iterUpdate_plan (ik : Bool) (it : Iter E ε) (s : S) (input : List E)
    (hS : ISorted ik it input) (hK : KeysOK it input) :
    iterUpdate ik it s input = runPlan ik it s (plan ik it input s.db) :=
  iuLoop_plan ik it _ none none input none s.db s hS hK (fun _ h => by cases h)
    (fun _ _ h => by cases h) (by simp only [Option.toList_none, List.nil_append]; omega)

theorem sortedKeys_iff (ik : Bool) (l : List Bytes) :
    sortedKeys ik l = true ↔ l.Pairwise (fun a b => kcmp ik a b < 0) := by
  induction l with
  | nil => simp [sortedKeys]
  | cons a rest ih =>
    cases rest with
    | nil => simp [sortedKeys]
    | cons b rest' =>
      simp only [sortedKeys, Bool.and_eq_true, decide_eq_true_eq, ih]
      constructor
      · intro ⟨h1, h2⟩
        refine List.pairwise_cons.mpr ⟨?_, h2⟩
        intro c hc
        rcases List.mem_cons.mp hc with h | h
        · rw [h]; exact h1
        · exact kcmp_lt_trans ik h1 ((List.pairwise_cons.mp h2).1 c h)
      · intro h
        have := List.pairwise_cons.mp h
        exact ⟨this.1 b (List.mem_cons_self ..), this.2⟩

theorem isorted_iff (ik : Bool) (it : Iter E ε) (I : List E) :
    ISorted ik it I ↔ sortedKeys ik (I.map it.key) = true := by
  rw [sortedKeys_iff, List.pairwise_map]; rfl

/-! ### decisions that do not fail; the output of a callback -/

/-- the iterator's decisions never fail: they are the total functions `mg` and `cl` -/
structure Total (it : Iter E ε) (mg : E → Bytes → Option Bytes) (cl : Bytes → Option Bytes) : Prop where
  merge : ∀ e o, it.merge e o = .ok (mg e o)
  clean : ∀ v, it.clean v = .ok (cl v)

/-- zero or one entry -/
def optOut (k : Bytes) (o : Option Bytes) : KVs :=
  match o with
  | none => []
  | some v => [(k, v)]

theorem optOut_key {k : Bytes} {o : Option Bytes} : ∀ p ∈ optOut k o, p.1 = k := by
  intro p hp
  cases o with
  | none => simp [optOut] at hp
  | some v => simp [optOut] at hp; rw [hp]

/-- what a callback leaves at its key: the stored key bytes are kept for a stored entry -/
def actOut (it : Iter E ε) (mg : E → Bytes → Option Bytes) (cl : Bytes → Option Bytes) : Act E → KVs
  | .clean dk dv => optOut dk (cl dv)
  | .insert e => optOut (it.key e) (setNew (mg e []))
  | .both e dk dv => optOut dk (setNew (mg e dv))

/-- the content `IterUpdate` produces, as a pure merge-join -/
def joinOut (ik : Bool) (it : Iter E ε) (mg : E → Bytes → Option Bytes) (cl : Bytes → Option Bytes)
    (I : List E) (D : KVs) : KVs :=
  (plan ik it I D).flatMap (actOut it mg cl)

variable {mg : E → Bytes → Option Bytes} {cl : Bytes → Option Bytes}

theorem cbClean_out {ik : Bool} {it : Iter E ε} (T : Total it mg cl) (done : KVs) (dk dv : Bytes)
    (ds : KVs) (d : Bool) (hd : ∀ p ∈ done, kcmp ik p.1 dk < 0) (hk : badKey dk = false) :
    ∃ d', cbClean ik it ⟨done ++ (dk, dv) :: ds, d⟩ dk dv = .ok ⟨done ++ optOut dk (cl dv) ++ ds, d'⟩ := by
  simp only [cbClean, T.clean, liftIter, bind, Except.bind]
  cases cl dv with
  | none =>
    simp only [pure, Except.pure, delS_eq, del_append_gt _ hd, del_head_eq dv ds (kcmp_refl ik dk), optOut,
      List.append_nil]
    exact ⟨_, rfl⟩
  | some v =>
    by_cases hv : v = dv
    · subst hv
      simp only [if_true, pure, Except.pure, optOut, List.append_assoc, List.singleton_append]
      exact ⟨_, rfl⟩
    · simp only [hv, if_false, putS, hk, Bool.false_eq_true, put_append_gt _ _ hd,
        put_head_eq dv ds v (kcmp_refl ik dk), optOut, List.append_assoc, List.singleton_append]
      exact ⟨_, rfl⟩

theorem cbInsert_out {ik : Bool} {it : Iter E ε} (T : Total it mg cl) (done X : KVs) (e : E) (d : Bool)
    (hd : ∀ p ∈ done, kcmp ik p.1 (it.key e) < 0) (hx : ∀ p ∈ X, kcmp ik (it.key e) p.1 < 0)
    (hk : badKey (it.key e) = false) :
    ∃ d', cbInsert ik it ⟨done ++ X, d⟩ e
      = .ok ⟨done ++ optOut (it.key e) (setNew (mg e [])) ++ X, d'⟩ := by
  simp only [cbInsert, T.merge, liftIter, bind, Except.bind]
  cases mg e [] with
  | none => simp only [pure, Except.pure, setNew, optOut, List.append_nil]; exact ⟨_, rfl⟩
  | some v =>
    by_cases hv : v.length = 0
    · simp only [hv, if_true, pure, Except.pure, setNew, optOut, List.append_nil]; exact ⟨_, rfl⟩
    · simp only [hv, if_false, putS, hk, Bool.false_eq_true, put_append_gt _ _ hd, put_before X v hx,
        setNew, optOut, List.append_assoc, List.singleton_append]
      exact ⟨_, rfl⟩

theorem cbBoth_out {ik : Bool} {it : Iter E ε} (T : Total it mg cl) (done : KVs) (e : E) (dk dv : Bytes)
    (ds : KVs) (d : Bool) (hd : ∀ p ∈ done, kcmp ik p.1 (it.key e) < 0) (he : kcmp ik (it.key e) dk = 0)
    (hk : badKey (it.key e) = false) :
    ∃ d', cbBoth ik it ⟨done ++ (dk, dv) :: ds, d⟩ e dv
      = .ok ⟨done ++ optOut dk (setNew (mg e dv)) ++ ds, d'⟩ := by
  simp only [cbBoth, T.merge, liftIter, bind, Except.bind]
  cases mg e dv with
  | none =>
    simp only [pure, Except.pure, delS_eq, del_append_gt _ hd, del_head_eq dv ds he, setNew, optOut,
      List.append_nil]
    exact ⟨_, rfl⟩
  | some v =>
    by_cases hv : v.length = 0
    · simp only [hv, if_true, pure, Except.pure, delS_eq, del_append_gt _ hd, del_head_eq dv ds he, setNew,
        optOut, List.append_nil]
      exact ⟨_, rfl⟩
    · by_cases hvd : v = dv
      · subst hvd
        simp only [hv, if_true, if_false, pure, Except.pure, setNew, optOut, List.append_assoc,
          List.singleton_append]
        exact ⟨_, rfl⟩
      · simp only [hv, hvd, if_false, putS, hk, Bool.false_eq_true, put_append_gt _ _ hd,
          put_head_eq dv ds v he, setNew, optOut, List.append_assoc, List.singleton_append]
        exact ⟨_, rfl⟩

/-- stored keys are keys LMDB accepts (1..511 bytes) -/
def DKeysOK (D : KVs) : Prop := ∀ p ∈ D, badKey p.1 = false

theorem keysOK_badKey {it : Iter E ε} {I : List E} (hK : KeysOK it I) {e : E} (he : e ∈ I) :
    badKey (it.key e) = false := by
  have := hK e he
  simp only [badKey, Bool.or_eq_false_iff, decide_eq_false_iff_not]
  exact ⟨this.1, by omega⟩

/-- the prefix already written is below everything still to come -/
def Below (ik : Bool) (it : Iter E ε) (done : KVs) (I : List E) (D : KVs) : Prop :=
  ∀ p ∈ done, (∀ e ∈ I, kcmp ik p.1 (it.key e) < 0) ∧ (∀ q ∈ D, kcmp ik p.1 q.1 < 0)

theorem below_append {ik : Bool} {it : Iter E ε} {done : KVs} {I I' : List E} {D D' : KVs} {k : Bytes}
    {o : Option Bytes} (hb : Below ik it done I D) (hI : ∀ e ∈ I', e ∈ I) (hD : ∀ q ∈ D', q ∈ D)
    (hkI : ∀ e ∈ I', kcmp ik k (it.key e) < 0) (hkD : ∀ q ∈ D', kcmp ik k q.1 < 0) :
    Below ik it (done ++ optOut k o) I' D' := by
  intro p hp
  rcases List.mem_append.mp hp with h | h
  · exact ⟨fun e he => (hb p h).1 e (hI e he), fun q hq => (hb p h).2 q (hD q hq)⟩
  · rw [optOut_key p h]; exact ⟨hkI, hkD⟩

/-- running the plan from a state `done ++ D` writes the merge-join output behind `done` -/
theorem runPlan_out {ik : Bool} {it : Iter E ε} (T : Total it mg cl) (I : List E) (D : KVs) :
    ISorted ik it I → Sorted ik D → KeysOK it I → DKeysOK D → ∀ (done : KVs) (d : Bool),
    Below ik it done I D →
    ∃ d', runPlan ik it ⟨done ++ D, d⟩ (plan ik it I D) = .ok ⟨done ++ joinOut ik it mg cl I D, d'⟩ := by
  unfold joinOut
  fun_induction plan ik it I D with
  | case1 => intro _ _ _ _ done d _; exact ⟨d, rfl⟩
  | case2 dk dv ds ih =>
    intro hS hD hK hDK done d hb
    have hD' := sorted_cons.mp hD
    obtain ⟨d1, h1⟩ := cbClean_out (ik := ik) T done dk dv ds d (fun p hp => (hb p hp).2 _ (List.mem_cons_self ..))
      (hDK _ (List.mem_cons_self ..))
    obtain ⟨d2, h2⟩ := ih hS hD'.2 hK (fun p hp => hDK p (List.mem_cons_of_mem _ hp))
      (done ++ optOut dk (cl dv)) d1
      (below_append hb (fun e he => he) (fun q hq => List.mem_cons_of_mem _ hq) (fun e he => by cases he) hD'.1)
    refine ⟨d2, ?_⟩
    rw [runPlan_cons, List.flatMap_cons]
    show (cbClean ik it _ dk dv >>= _) = _
    rw [h1]
    show runPlan ik it _ _ = _
    rw [h2, List.append_assoc]; rfl
  | case3 e es ih =>
    intro hS hD hK hDK done d hb
    have hS' := List.pairwise_cons.mp hS
    obtain ⟨d1, h1⟩ := cbInsert_out (ik := ik) T done [] e d (fun p hp => (hb p hp).1 _ (List.mem_cons_self ..))
      (fun p hp => by cases hp) (keysOK_badKey hK (List.mem_cons_self ..))
    obtain ⟨d2, h2⟩ := ih hS'.2 hD (fun x hx => hK x (List.mem_cons_of_mem _ hx)) hDK
      (done ++ optOut (it.key e) (setNew (mg e []))) d1
      (below_append hb (fun e he => List.mem_cons_of_mem _ he) (fun q hq => hq) hS'.1 (fun q hq => by cases hq))
    refine ⟨d2, ?_⟩
    rw [runPlan_cons, List.flatMap_cons]
    show (cbInsert ik it _ e >>= _) = _
    simp only [List.append_nil] at h1 h2 ⊢
    rw [h1]
    show runPlan ik it _ _ = _
    rw [h2, List.append_assoc]; rfl
  | case4 e es dk dv ds hlt ih =>
    intro hS hD hK hDK done d hb
    have hD' := sorted_cons.mp hD
    have hS' := List.pairwise_cons.mp hS
    obtain ⟨d1, h1⟩ := cbClean_out (ik := ik) T done dk dv ds d (fun p hp => (hb p hp).2 _ (List.mem_cons_self ..))
      (hDK _ (List.mem_cons_self ..))
    obtain ⟨d2, h2⟩ := ih hS hD'.2 hK (fun p hp => hDK p (List.mem_cons_of_mem _ hp))
      (done ++ optOut dk (cl dv)) d1
      (below_append hb (fun e he => he) (fun q hq => List.mem_cons_of_mem _ hq)
        (fun x hx => by
          rcases List.mem_cons.mp hx with h | h
          · rw [h]; exact hlt
          · exact kcmp_lt_trans ik hlt (hS'.1 x h)) hD'.1)
    refine ⟨d2, ?_⟩
    rw [runPlan_cons, List.flatMap_cons]
    show (cbClean ik it _ dk dv >>= _) = _
    rw [h1]
    show runPlan ik it _ _ = _
    rw [h2, List.append_assoc]; rfl
  | case5 e es dk dv ds hnlt heq ih =>
    intro hS hD hK hDK done d hb
    have hD' := sorted_cons.mp hD
    have hS' := List.pairwise_cons.mp hS
    have heq' : kcmp ik (it.key e) dk = 0 := (kcmp_eq_comm ik _ _).mp heq
    obtain ⟨d1, h1⟩ := cbBoth_out (ik := ik) T done e dk dv ds d (fun p hp => (hb p hp).1 _ (List.mem_cons_self ..))
      heq' (keysOK_badKey hK (List.mem_cons_self ..))
    obtain ⟨d2, h2⟩ := ih hS'.2 hD'.2 (fun x hx => hK x (List.mem_cons_of_mem _ hx))
      (fun p hp => hDK p (List.mem_cons_of_mem _ hp))
      (done ++ optOut dk (setNew (mg e dv))) d1
      (below_append hb (fun e he => List.mem_cons_of_mem _ he) (fun q hq => List.mem_cons_of_mem _ hq)
        (fun x hx => kcmp_lt_of_eq_of_lt ik heq (hS'.1 x hx)) hD'.1)
    refine ⟨d2, ?_⟩
    rw [runPlan_cons, List.flatMap_cons]
    show (cbBoth ik it _ e dv >>= _) = _
    rw [h1]
    show runPlan ik it _ _ = _
    rw [h2, List.append_assoc]; rfl
  | case6 e es dk dv ds hnlt hne ih =>
    intro hS hD hK hDK done d hb
    have hD' := sorted_cons.mp hD
    have hS' := List.pairwise_cons.mp hS
    have hgt : kcmp ik (it.key e) dk < 0 := kcmp_gt_of_not ik hnlt hne
    have hX : ∀ q ∈ (dk, dv) :: ds, kcmp ik (it.key e) q.1 < 0 := by
      intro q hq
      rcases List.mem_cons.mp hq with h | h
      · rw [h]; exact hgt
      · exact kcmp_lt_trans ik hgt (hD'.1 q h)
    obtain ⟨d1, h1⟩ := cbInsert_out (ik := ik) T done ((dk, dv) :: ds) e d
      (fun p hp => (hb p hp).1 _ (List.mem_cons_self ..)) hX (keysOK_badKey hK (List.mem_cons_self ..))
    obtain ⟨d2, h2⟩ := ih hS'.2 hD (fun x hx => hK x (List.mem_cons_of_mem _ hx)) hDK
      (done ++ optOut (it.key e) (setNew (mg e []))) d1
      (below_append hb (fun e he => List.mem_cons_of_mem _ he) (fun q hq => hq) hS'.1 hX)
    refine ⟨d2, ?_⟩
    rw [runPlan_cons, List.flatMap_cons]
    show (cbInsert ik it _ e >>= _) = _
    rw [h1]
    show runPlan ik it _ _ = _
    rw [h2, List.append_assoc]; rfl

/-! ### the merge-join output: keys, sortedness, pointwise reading -/

theorem get_optOut_append {ik : Bool} (k0 : Bytes) (o : Option Bytes) (rest : KVs) (k : Bytes)
    (h : ∀ p ∈ rest, kcmp ik k0 p.1 < 0) :
    get ik (optOut k0 o ++ rest) k = if kcmp ik k k0 = 0 then o else get ik rest k := by
  cases o with
  | none =>
    simp only [optOut, List.nil_append]
    split
    · rename_i hk; exact get_none_of_lt (fun p hp => kcmp_lt_of_eq_of_lt ik hk (h p hp))
    · rfl
  | some v => simp only [optOut, List.singleton_append, get_cons]

theorem sorted_optOut_append {ik : Bool} (k0 : Bytes) (o : Option Bytes) (rest : KVs)
    (h : ∀ p ∈ rest, kcmp ik k0 p.1 < 0) (hs : Sorted ik rest) : Sorted ik (optOut k0 o ++ rest) := by
  cases o with
  | none => exact hs
  | some v => exact sorted_cons.mpr ⟨h, hs⟩

/-- every output key is above a bound that is below all input and stored keys -/
theorem joinOut_gt {ik : Bool} {it : Iter E ε} (mg : E → Bytes → Option Bytes) (cl : Bytes → Option Bytes)
    (I : List E) (D : KVs) (k : Bytes) :
    (∀ e ∈ I, kcmp ik k (it.key e) < 0) → (∀ q ∈ D, kcmp ik k q.1 < 0) →
    ∀ p ∈ joinOut ik it mg cl I D, kcmp ik k p.1 < 0 := by
  unfold joinOut
  fun_induction plan ik it I D with
  | case1 => intro _ _ p hp; cases hp
  | case2 dk dv ds ih =>
    intro hI hD p hp
    rw [List.flatMap_cons] at hp
    rcases List.mem_append.mp hp with h | h
    · rw [optOut_key p h]; exact hD _ (List.mem_cons_self ..)
    · exact ih hI (fun q hq => hD q (List.mem_cons_of_mem _ hq)) p h
  | case3 e es ih =>
    intro hI hD p hp
    rw [List.flatMap_cons] at hp
    rcases List.mem_append.mp hp with h | h
    · rw [optOut_key p h]; exact hI _ (List.mem_cons_self ..)
    · exact ih (fun x hx => hI x (List.mem_cons_of_mem _ hx)) hD p h
  | case4 e es dk dv ds hlt ih =>
    intro hI hD p hp
    rw [List.flatMap_cons] at hp
    rcases List.mem_append.mp hp with h | h
    · rw [optOut_key p h]; exact hD _ (List.mem_cons_self ..)
    · exact ih hI (fun q hq => hD q (List.mem_cons_of_mem _ hq)) p h
  | case5 e es dk dv ds hnlt heq ih =>
    intro hI hD p hp
    rw [List.flatMap_cons] at hp
    rcases List.mem_append.mp hp with h | h
    · rw [optOut_key p h]; exact hD _ (List.mem_cons_self ..)
    · exact ih (fun x hx => hI x (List.mem_cons_of_mem _ hx)) (fun q hq => hD q (List.mem_cons_of_mem _ hq)) p h
  | case6 e es dk dv ds hnlt hne ih =>
    intro hI hD p hp
    rw [List.flatMap_cons] at hp
    rcases List.mem_append.mp hp with h | h
    · rw [optOut_key p h]; exact hI _ (List.mem_cons_self ..)
    · exact ih (fun x hx => hI x (List.mem_cons_of_mem _ hx)) hD p h

theorem joinOut_nil_nil (ik : Bool) (it : Iter E ε) (mg : E → Bytes → Option Bytes) (cl : Bytes → Option Bytes) :
    joinOut ik it mg cl [] [] = [] := by
  unfold joinOut; rw [plan_nil_nil]; rfl

theorem joinOut_nil_cons (ik : Bool) (it : Iter E ε) (mg : E → Bytes → Option Bytes) (cl : Bytes → Option Bytes)
    (dk dv : Bytes) (ds : KVs) :
    joinOut ik it mg cl [] ((dk, dv) :: ds) = optOut dk (cl dv) ++ joinOut ik it mg cl [] ds := by
  unfold joinOut; rw [plan_nil_cons, List.flatMap_cons]; rfl

theorem joinOut_cons_nil (ik : Bool) (it : Iter E ε) (mg : E → Bytes → Option Bytes) (cl : Bytes → Option Bytes)
    (e : E) (es : List E) :
    joinOut ik it mg cl (e :: es) [] = optOut (it.key e) (setNew (mg e [])) ++ joinOut ik it mg cl es [] := by
  unfold joinOut; rw [plan_cons_nil, List.flatMap_cons]; rfl

theorem joinOut_lt (ik : Bool) (it : Iter E ε) (mg : E → Bytes → Option Bytes) (cl : Bytes → Option Bytes)
    (e : E) (es : List E) (dk dv : Bytes) (ds : KVs) (h : kcmp ik dk (it.key e) < 0) :
    joinOut ik it mg cl (e :: es) ((dk, dv) :: ds)
      = optOut dk (cl dv) ++ joinOut ik it mg cl (e :: es) ds := by
  unfold joinOut; rw [plan_cons_cons, if_pos h, List.flatMap_cons]; rfl

theorem joinOut_eq (ik : Bool) (it : Iter E ε) (mg : E → Bytes → Option Bytes) (cl : Bytes → Option Bytes)
    (e : E) (es : List E) (dk dv : Bytes) (ds : KVs) (h : kcmp ik dk (it.key e) = 0) :
    joinOut ik it mg cl (e :: es) ((dk, dv) :: ds)
      = optOut dk (setNew (mg e dv)) ++ joinOut ik it mg cl es ds := by
  unfold joinOut; rw [plan_cons_cons, if_neg (by omega), if_pos h, List.flatMap_cons]; rfl

theorem joinOut_gt' (ik : Bool) (it : Iter E ε) (mg : E → Bytes → Option Bytes) (cl : Bytes → Option Bytes)
    (e : E) (es : List E) (dk dv : Bytes) (ds : KVs) (h : kcmp ik (it.key e) dk < 0) :
    joinOut ik it mg cl (e :: es) ((dk, dv) :: ds)
      = optOut (it.key e) (setNew (mg e [])) ++ joinOut ik it mg cl es ((dk, dv) :: ds) := by
  have h1 := kcmp_lt_asymm ik h
  have h2 := kcmp_ne_of_gt ik h
  unfold joinOut; rw [plan_cons_cons, if_neg h1, if_neg h2, List.flatMap_cons]; rfl

/-- the three ways the two sorted streams can meet -/
theorem join_cases {ik : Bool} {it : Iter E ε} {P : List E → KVs → Prop}
    (h1 : P [] [])
    (h2 : ∀ dk dv ds, P [] ds → P [] ((dk, dv) :: ds))
    (h3 : ∀ e es, P es [] → P (e :: es) [])
    (h4 : ∀ e es dk dv ds, kcmp ik dk (it.key e) < 0 → P (e :: es) ds → P (e :: es) ((dk, dv) :: ds))
    (h5 : ∀ e es dk dv ds, kcmp ik dk (it.key e) = 0 → P es ds → P (e :: es) ((dk, dv) :: ds))
    (h6 : ∀ e es dk dv ds, kcmp ik (it.key e) dk < 0 → P es ((dk, dv) :: ds) → P (e :: es) ((dk, dv) :: ds))
    (I : List E) (D : KVs) : P I D := by
  induction I generalizing D with
  | nil =>
    induction D with
    | nil => exact h1
    | cons q ds ih => exact h2 q.1 q.2 ds ih
  | cons e es ihI =>
    induction D with
    | nil => exact h3 e es (ihI [])
    | cons q ds ihD =>
      obtain ⟨dk, dv⟩ := q
      by_cases hlt : kcmp ik dk (it.key e) < 0
      · exact h4 e es dk dv ds hlt ihD
      · by_cases heq : kcmp ik dk (it.key e) = 0
        · exact h5 e es dk dv ds heq (ihI ds)
        · exact h6 e es dk dv ds (kcmp_gt_of_not ik hlt heq) (ihI _)

/-- facts about the order used in every case of the join -/
theorem isorted_tail_gt {ik : Bool} {it : Iter E ε} {e : E} {es : List E} (h : ISorted ik it (e :: es)) :
    (∀ x ∈ es, kcmp ik (it.key e) (it.key x) < 0) ∧ ISorted ik it es := List.pairwise_cons.mp h

theorem lt_all_of_lt_head {ik : Bool} {k dk dv : _} {ds : KVs} (hD : Sorted ik ((dk, dv) :: ds))
    (h : kcmp ik k dk < 0) : ∀ q ∈ (dk, dv) :: ds, kcmp ik k q.1 < 0 := by
  intro q hq
  rcases List.mem_cons.mp hq with h' | h'
  · rw [h']; exact h
  · exact kcmp_lt_trans ik h ((sorted_cons.mp hD).1 q h')

theorem lt_all_of_lt_headI {ik : Bool} {it : Iter E ε} {k : Bytes} {e : E} {es : List E}
    (hS : ISorted ik it (e :: es)) (h : kcmp ik k (it.key e) < 0) : ∀ x ∈ e :: es, kcmp ik k (it.key x) < 0 := by
  intro x hx
  rcases List.mem_cons.mp hx with h' | h'
  · rw [h']; exact h
  · exact kcmp_lt_trans ik h ((isorted_tail_gt hS).1 x h')

theorem sorted_joinOut {ik : Bool} {it : Iter E ε} (mg : E → Bytes → Option Bytes) (cl : Bytes → Option Bytes)
    (I : List E) (D : KVs) : ISorted ik it I → Sorted ik D → Sorted ik (joinOut ik it mg cl I D) := by
  refine join_cases (ik := ik) (it := it) (P := fun I D => ISorted ik it I → Sorted ik D →
    Sorted ik (joinOut ik it mg cl I D)) ?_ ?_ ?_ ?_ ?_ ?_ I D
  · intro _ _; rw [joinOut_nil_nil]; exact sorted_nil ik
  · intro dk dv ds ih hS hD
    rw [joinOut_nil_cons]
    exact sorted_optOut_append _ _ _ (joinOut_gt mg cl [] ds dk (fun e he => by cases he) (sorted_cons.mp hD).1)
      (ih hS hD.tail)
  · intro e es ih hS hD
    rw [joinOut_cons_nil]
    exact sorted_optOut_append _ _ _ (joinOut_gt mg cl es [] _ (isorted_tail_gt hS).1 (fun q hq => by cases hq))
      (ih (isorted_tail_gt hS).2 hD)
  · intro e es dk dv ds hlt ih hS hD
    rw [joinOut_lt _ _ _ _ _ _ _ _ _ hlt]
    exact sorted_optOut_append _ _ _ (joinOut_gt mg cl (e :: es) ds dk (lt_all_of_lt_headI hS hlt)
      (sorted_cons.mp hD).1) (ih hS hD.tail)
  · intro e es dk dv ds heq ih hS hD
    rw [joinOut_eq _ _ _ _ _ _ _ _ _ heq]
    exact sorted_optOut_append _ _ _ (joinOut_gt mg cl es ds dk
      (fun x hx => kcmp_lt_of_eq_of_lt ik heq ((isorted_tail_gt hS).1 x hx)) (sorted_cons.mp hD).1)
      (ih (isorted_tail_gt hS).2 hD.tail)
  · intro e es dk dv ds hgt ih hS hD
    rw [joinOut_gt' _ _ _ _ _ _ _ _ _ hgt]
    exact sorted_optOut_append _ _ _ (joinOut_gt mg cl es ((dk, dv) :: ds) _ (isorted_tail_gt hS).1
      (lt_all_of_lt_head hD hgt)) (ih (isorted_tail_gt hS).2 hD)

/-- the input entry whose key is (equivalent to) `k` -/
def lookupI (ik : Bool) (it : Iter E ε) (I : List E) (k : Bytes) : Option E :=
  I.find? (fun e => kcmp ik (it.key e) k = 0)

theorem lookupI_cons_pos {ik : Bool} {it : Iter E ε} {e : E} {es : List E} {k : Bytes}
    (h : kcmp ik (it.key e) k = 0) : lookupI ik it (e :: es) k = some e := by
  unfold lookupI; rw [List.find?_cons_of_pos]; simpa using h

theorem lookupI_cons_neg {ik : Bool} {it : Iter E ε} {e : E} {es : List E} {k : Bytes}
    (h : ¬ kcmp ik (it.key e) k = 0) : lookupI ik it (e :: es) k = lookupI ik it es k := by
  unfold lookupI; rw [List.find?_cons_of_neg]; simpa using h

theorem lookupI_none {ik : Bool} {it : Iter E ε} {I : List E} {k : Bytes}
    (h : ∀ e ∈ I, ¬ kcmp ik (it.key e) k = 0) : lookupI ik it I k = none := by
  unfold lookupI; rw [List.find?_eq_none]; intro e he; simpa using h e he

/-- pointwise reading of the merge-join output -/
theorem get_joinOut {ik : Bool} {it : Iter E ε} (mg : E → Bytes → Option Bytes) (cl : Bytes → Option Bytes)
    (k : Bytes) (I : List E) (D : KVs) : ISorted ik it I → Sorted ik D →
    get ik (joinOut ik it mg cl I D) k =
      match lookupI ik it I k with
      | some e => setNew (mg e ((get ik D k).getD []))
      | none => (get ik D k).bind cl := by
  refine join_cases (ik := ik) (it := it) (P := fun I D => ISorted ik it I → Sorted ik D →
    get ik (joinOut ik it mg cl I D) k =
      match lookupI ik it I k with
      | some e => setNew (mg e ((get ik D k).getD []))
      | none => (get ik D k).bind cl) ?_ ?_ ?_ ?_ ?_ ?_ I D
  · intro _ _; rw [joinOut_nil_nil]; rfl
  · intro dk dv ds ih hS hD
    rw [joinOut_nil_cons, get_optOut_append _ _ _ _
      (joinOut_gt mg cl [] ds dk (fun e he => by cases he) (sorted_cons.mp hD).1), ih hS hD.tail, get_cons]
    show _ = (if kcmp ik k dk = 0 then some dv else get ik ds k).bind cl
    split <;> rfl
  · intro e es ih hS hD
    rw [joinOut_cons_nil, get_optOut_append _ _ _ _
      (joinOut_gt mg cl es [] _ (isorted_tail_gt hS).1 (fun q hq => by cases hq)), ih (isorted_tail_gt hS).2 hD]
    by_cases hk : kcmp ik k (it.key e) = 0
    · rw [if_pos hk, lookupI_cons_pos ((kcmp_eq_comm ik _ _).mp hk)]; rfl
    · rw [if_neg hk, lookupI_cons_neg (fun h => hk ((kcmp_eq_comm ik _ _).mp h))]
  · intro e es dk dv ds hlt ih hS hD
    rw [joinOut_lt _ _ _ _ _ _ _ _ _ hlt, get_optOut_append _ _ _ _
      (joinOut_gt mg cl (e :: es) ds dk (lt_all_of_lt_headI hS hlt) (sorted_cons.mp hD).1), ih hS hD.tail, get_cons]
    by_cases hk : kcmp ik k dk = 0
    · rw [if_pos hk, if_pos hk, lookupI_none]
      · rfl
      · intro x hx
        exact kcmp_ne_of_gt ik (kcmp_lt_of_eq_of_lt ik hk (lt_all_of_lt_headI hS hlt x hx))
    · rw [if_neg hk, if_neg hk]
  · intro e es dk dv ds heq ih hS hD
    rw [joinOut_eq _ _ _ _ _ _ _ _ _ heq, get_optOut_append _ _ _ _
      (joinOut_gt mg cl es ds dk (fun x hx => kcmp_lt_of_eq_of_lt ik heq ((isorted_tail_gt hS).1 x hx))
        (sorted_cons.mp hD).1), ih (isorted_tail_gt hS).2 hD.tail, get_cons]
    by_cases hk : kcmp ik k dk = 0
    · have hke : kcmp ik (it.key e) k = 0 :=
        kcmp_eq_trans ik ((kcmp_eq_comm ik _ _).mp heq) ((kcmp_eq_comm ik _ _).mp hk)
      rw [if_pos hk, if_pos hk, lookupI_cons_pos hke]; rfl
    · have hke : ¬ kcmp ik (it.key e) k = 0 := fun h =>
        hk ((kcmp_eq_comm ik _ _).mp (kcmp_eq_trans ik heq h))
      rw [if_neg hk, if_neg hk, lookupI_cons_neg hke]
  · intro e es dk dv ds hgt ih hS hD
    rw [joinOut_gt' _ _ _ _ _ _ _ _ _ hgt, get_optOut_append _ _ _ _
      (joinOut_gt mg cl es ((dk, dv) :: ds) _ (isorted_tail_gt hS).1 (lt_all_of_lt_head hD hgt)),
      ih (isorted_tail_gt hS).2 hD]
    by_cases hk : kcmp ik k (it.key e) = 0
    · rw [if_pos hk, lookupI_cons_pos ((kcmp_eq_comm ik _ _).mp hk)]
      have : get ik ((dk, dv) :: ds) k = none :=
        get_none_of_lt (fun q hq => kcmp_lt_of_eq_of_lt ik hk (lt_all_of_lt_head hD hgt q hq))
      rw [this]; rfl
    · rw [if_neg hk, lookupI_cons_neg (fun h => hk ((kcmp_eq_comm ik _ _).mp h))]

/-! ### the specification `specIterUpdate` computes the merge-join output -/

theorem foldlM_ok {α β : Type} (f : β → α → Except ε β) (g : β → α → β) (h : ∀ b a, f b a = .ok (g b a))
    (l : List α) (b : β) : l.foldlM f b = .ok (l.foldl g b) := by
  induction l generalizing b with
  | nil => rfl
  | cons a as ih => rw [List.foldlM_cons, h, List.foldl_cons]; exact ih _

theorem applyOpt_mid_eq {ik : Bool} {done : KVs} {k dk : Bytes} (dv : Bytes) (ds : KVs) (o : Option Bytes)
    (hd : ∀ p ∈ done, kcmp ik p.1 k < 0) (he : kcmp ik k dk = 0) :
    applyOpt ik (done ++ (dk, dv) :: ds) k o = done ++ optOut dk o ++ ds := by
  cases o with
  | none => simp only [applyOpt, del_append_gt _ hd, del_head_eq dv ds he, optOut, List.append_nil]
  | some v =>
    simp only [applyOpt, put_append_gt _ _ hd, put_head_eq dv ds v he, optOut, List.append_assoc,
      List.singleton_append]

theorem applyOpt_mid_lt {ik : Bool} {done : KVs} {k : Bytes} (X : KVs) (o : Option Bytes)
    (hd : ∀ p ∈ done, kcmp ik p.1 k < 0) (hx : ∀ p ∈ X, kcmp ik k p.1 < 0) :
    applyOpt ik (done ++ X) k o = done ++ optOut k o ++ X := by
  cases o with
  | none => simp only [applyOpt, del_append_gt _ hd, del_before X hx, optOut, List.append_nil]
  | some v =>
    simp only [applyOpt, put_append_gt _ _ hd, put_before X v hx, optOut, List.append_assoc,
      List.singleton_append]

/-- the stored entries after the clean phase of the specification -/
def cleaned (cl : Bytes → Option Bytes) (inp : Bytes → Bool) (D : KVs) : KVs :=
  D.flatMap (fun kv => if inp kv.1 then [kv] else optOut kv.1 (cl kv.2))

theorem cleaned_cons (cl : Bytes → Option Bytes) (inp : Bytes → Bool) (dk dv : Bytes) (ds : KVs) :
    cleaned cl inp ((dk, dv) :: ds)
      = (if inp dk then [(dk, dv)] else optOut dk (cl dv)) ++ cleaned cl inp ds := by
  unfold cleaned; rw [List.flatMap_cons]

theorem cleaned_keys {cl : Bytes → Option Bytes} {inp : Bytes → Bool} {D : KVs} :
    ∀ p ∈ cleaned cl inp D, ∃ q ∈ D, p.1 = q.1 := by
  intro p hp
  unfold cleaned at hp
  obtain ⟨q, hq, hpq⟩ := List.mem_flatMap.mp hp
  refine ⟨q, hq, ?_⟩
  split at hpq
  · simp at hpq; rw [hpq]
  · exact optOut_key p hpq

def cleanStepP (ik : Bool) (cl : Bytes → Option Bytes) (inp : Bytes → Bool) (acc : KVs) (kv : Bytes × Bytes) : KVs :=
  if inp kv.1 then acc else applyOpt ik acc kv.1 (cl kv.2)

def mergeStepP (ik : Bool) (it : Iter E ε) (mg : E → Bytes → Option Bytes) (db : KVs) (acc : KVs) (e : E) : KVs :=
  applyOpt ik acc (it.key e) (setNew (mg e ((get ik db (it.key e)).getD [])))

theorem specIterUpdate_total {ik : Bool} {it : Iter E ε} (T : Total it mg cl) (db : KVs) (input : List E) :
    specIterUpdate ik it db input
      = .ok (input.foldl (mergeStepP ik it mg db) (db.foldl (cleanStepP ik cl (inInput ik it input)) db)) := by
  unfold specIterUpdate
  rw [foldlM_ok _ (cleanStepP ik cl (inInput ik it input))]
  · show List.foldlM _ _ input = _
    rw [foldlM_ok _ (mergeStepP ik it mg db)]
    intro b a
    simp only [T.merge, mergeStepP]; rfl
  · intro b a
    unfold cleanStepP
    split
    · rfl
    · simp only [T.clean]; rfl

theorem clean_phase {ik : Bool} (cl : Bytes → Option Bytes) (inp : Bytes → Bool) (D : KVs) :
    Sorted ik D → ∀ done : KVs, (∀ p ∈ done, ∀ q ∈ D, kcmp ik p.1 q.1 < 0) →
    D.foldl (cleanStepP ik cl inp) (done ++ D) = done ++ cleaned cl inp D := by
  induction D with
  | nil => intro _ done _; rfl
  | cons q ds ih =>
    obtain ⟨dk, dv⟩ := q
    intro hD done hb
    have hD' := sorted_cons.mp hD
    rw [List.foldl_cons, cleaned_cons]
    have hstep : cleanStepP ik cl inp (done ++ (dk, dv) :: ds) (dk, dv)
        = (done ++ (if inp dk then [(dk, dv)] else optOut dk (cl dv))) ++ ds := by
      unfold cleanStepP
      split
      · simp
      · exact applyOpt_mid_eq dv ds _ (fun p hp => hb p hp _ (List.mem_cons_self ..)) (kcmp_refl ik dk)
    rw [hstep, ih hD'.2, List.append_assoc]
    intro p hp q hq
    rcases List.mem_append.mp hp with h | h
    · exact hb p h q (List.mem_cons_of_mem _ hq)
    · have : p.1 = dk := by
        split at h
        · simp at h; rw [h]
        · exact optOut_key p h
      rw [this]; exact hD'.1 q hq

theorem inInput_cons (ik : Bool) (it : Iter E ε) (e : E) (es : List E) (k : Bytes) :
    inInput ik it (e :: es) k = (decide (kcmp ik (it.key e) k = 0) || inInput ik it es k) := rfl

theorem inInput_false {ik : Bool} {it : Iter E ε} {I : List E} {k : Bytes}
    (h : ∀ e ∈ I, ¬ kcmp ik (it.key e) k = 0) : inInput ik it I k = false := by
  unfold inInput
  rw [List.any_eq_false]
  intro e he; simpa using h e he

theorem merge_phase {ik : Bool} {it : Iter E ε} (mg : E → Bytes → Option Bytes) (cl : Bytes → Option Bytes)
    (inp : Bytes → Bool) (db0 : KVs) (I : List E) (D : KVs) :
    ISorted ik it I → Sorted ik D → ∀ done : KVs, Below ik it done I D →
    (∀ q ∈ D, inp q.1 = inInput ik it I q.1) → (∀ e ∈ I, get ik db0 (it.key e) = get ik D (it.key e)) →
    I.foldl (mergeStepP ik it mg db0) (done ++ cleaned cl inp D) = done ++ joinOut ik it mg cl I D := by
  refine join_cases (ik := ik) (it := it) (P := fun I D => ISorted ik it I → Sorted ik D →
    ∀ done : KVs, Below ik it done I D →
    (∀ q ∈ D, inp q.1 = inInput ik it I q.1) → (∀ e ∈ I, get ik db0 (it.key e) = get ik D (it.key e)) →
    I.foldl (mergeStepP ik it mg db0) (done ++ cleaned cl inp D) = done ++ joinOut ik it mg cl I D)
    ?_ ?_ ?_ ?_ ?_ ?_ I D
  · intro _ _ done _ _ _; rw [joinOut_nil_nil]; rfl
  · intro dk dv ds ih hS hD done hb hin hget
    have hD' := sorted_cons.mp hD
    have h0 : inp dk = false := by rw [hin _ (List.mem_cons_self ..)]; rfl
    have := ih hS hD'.2 (done ++ optOut dk (cl dv))
      (below_append hb (fun e he => he) (fun q hq => List.mem_cons_of_mem _ hq) (fun e he => by cases he) hD'.1)
      (fun q hq => by rw [hin q (List.mem_cons_of_mem _ hq)]) (fun e he => by cases he)
    rw [List.foldl_nil] at this ⊢
    rw [cleaned_cons, h0, joinOut_nil_cons, ← List.append_assoc, ← List.append_assoc, ← this]
    rfl
  · intro e es ih hS hD done hb hin hget
    have hS' := isorted_tail_gt hS
    have hg : get ik db0 (it.key e) = none := by rw [hget e (List.mem_cons_self ..)]; rfl
    rw [List.foldl_cons, joinOut_cons_nil]
    have hstep : mergeStepP ik it mg db0 (done ++ cleaned cl inp []) e
        = (done ++ optOut (it.key e) (setNew (mg e []))) ++ cleaned cl inp [] := by
      unfold mergeStepP
      rw [hg]
      exact applyOpt_mid_lt _ _ (fun p hp => (hb p hp).1 _ (List.mem_cons_self ..)) (fun p hp => by cases hp)
    rw [hstep, ih hS'.2 hD _
      (below_append hb (fun e he => List.mem_cons_of_mem _ he) (fun q hq => hq) hS'.1 (fun q hq => by cases hq))
      (fun q hq => by cases hq) (fun x hx => by rw [hget x (List.mem_cons_of_mem _ hx)]), List.append_assoc]
  · intro e es dk dv ds hlt ih hS hD done hb hin hget
    have hD' := sorted_cons.mp hD
    have hall := lt_all_of_lt_headI hS hlt
    have h0 : inp dk = false := by
      rw [hin _ (List.mem_cons_self ..)]
      exact inInput_false (fun x hx => kcmp_ne_of_gt ik (hall x hx))
    have := ih hS hD'.2 (done ++ optOut dk (cl dv))
      (below_append hb (fun e he => he) (fun q hq => List.mem_cons_of_mem _ hq) hall hD'.1)
      (fun q hq => hin q (List.mem_cons_of_mem _ hq))
      (fun x hx => by
        rw [hget x hx, get_cons, if_neg (kcmp_ne_of_gt ik (hall x hx))])
    rw [cleaned_cons, h0, joinOut_lt _ _ _ _ _ _ _ _ _ hlt, ← List.append_assoc, ← List.append_assoc, ← this]
    rfl
  · intro e es dk dv ds heq ih hS hD done hb hin hget
    have hD' := sorted_cons.mp hD
    have hS' := isorted_tail_gt hS
    have heq' : kcmp ik (it.key e) dk = 0 := (kcmp_eq_comm ik _ _).mp heq
    have h0 : inp dk = true := by
      rw [hin _ (List.mem_cons_self ..), inInput_cons]; simp [heq']
    have hg : get ik db0 (it.key e) = some dv := by
      rw [hget e (List.mem_cons_self ..), get_cons, if_pos heq']
    rw [List.foldl_cons, cleaned_cons, h0, joinOut_eq _ _ _ _ _ _ _ _ _ heq]
    have hstep : mergeStepP ik it mg db0 (done ++ ((if true = true then [(dk, dv)] else optOut dk (cl dv))
          ++ cleaned cl inp ds)) e
        = (done ++ optOut dk (setNew (mg e dv))) ++ cleaned cl inp ds := by
      unfold mergeStepP
      rw [hg]
      exact applyOpt_mid_eq dv _ _ (fun p hp => (hb p hp).1 _ (List.mem_cons_self ..)) heq'
    have hes : ∀ x ∈ es, kcmp ik dk (it.key x) < 0 := fun x hx => kcmp_lt_of_eq_of_lt ik heq (hS'.1 x hx)
    rw [hstep, ih hS'.2 hD'.2 _
      (below_append hb (fun e he => List.mem_cons_of_mem _ he) (fun q hq => List.mem_cons_of_mem _ hq) hes hD'.1)
      (fun q hq => by
        rw [hin q (List.mem_cons_of_mem _ hq), inInput_cons]
        have : ¬ kcmp ik (it.key e) q.1 = 0 := kcmp_ne_of_lt ik (kcmp_lt_of_eq_of_lt ik heq' (hD'.1 q hq))
        simp [this])
      (fun x hx => by
        rw [hget x (List.mem_cons_of_mem _ hx), get_cons, if_neg (kcmp_ne_of_gt ik (hes x hx))]),
      List.append_assoc]
  · intro e es dk dv ds hgt ih hS hD done hb hin hget
    have hS' := isorted_tail_gt hS
    have hX := lt_all_of_lt_head hD hgt
    have hg : get ik db0 (it.key e) = none := by
      rw [hget e (List.mem_cons_self ..)]; exact get_none_of_lt hX
    rw [List.foldl_cons, joinOut_gt' _ _ _ _ _ _ _ _ _ hgt]
    have hstep : mergeStepP ik it mg db0 (done ++ cleaned cl inp ((dk, dv) :: ds)) e
        = (done ++ optOut (it.key e) (setNew (mg e []))) ++ cleaned cl inp ((dk, dv) :: ds) := by
      unfold mergeStepP
      rw [hg]
      refine applyOpt_mid_lt _ _ (fun p hp => (hb p hp).1 _ (List.mem_cons_self ..)) ?_
      intro p hp
      obtain ⟨q, hq, hpq⟩ := cleaned_keys p hp
      rw [hpq]; exact hX q hq
    rw [hstep, ih hS'.2 hD _
      (below_append hb (fun e he => List.mem_cons_of_mem _ he) (fun q hq => hq) hS'.1 hX)
      (fun q hq => by
        rw [hin q hq, inInput_cons]
        have : ¬ kcmp ik (it.key e) q.1 = 0 := kcmp_ne_of_lt ik (hX q hq)
        simp [this])
      (fun x hx => hget x (List.mem_cons_of_mem _ hx)), List.append_assoc]

/-- on a sorted DBI and a sorted input the specification of IterUpdate is the merge-join output
    (both orders; a put on a stored key keeps the stored key bytes on both sides) -/
theorem specIterUpdate_eq {ik : Bool} {it : Iter E ε} (T : Total it mg cl) (db : KVs) (input : List E)
    (hS : ISorted ik it input) (hD : Sorted ik db) :
    specIterUpdate ik it db input = .ok (joinOut ik it mg cl input db) := by
  rw [specIterUpdate_total T]
  have h1 := clean_phase (ik := ik) cl (inInput ik it input) db hD [] (fun p hp => by cases hp)
  have h2 := merge_phase (ik := ik) (it := it) mg cl (inInput ik it input) db input db hS hD []
    (fun p hp => by cases hp) (fun _ _ => rfl) (fun _ _ => rfl)
  simp only [List.nil_append] at h1 h2
  rw [h1, h2]

end Ls.Strategy
