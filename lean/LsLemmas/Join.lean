import LsLemmas.Lww
namespace Ls

def OWF : Option Ver → Prop
  | none => True
  | some v => v.WF

theorem join_none_left (b : Option Ver) : join none b = b := by cases b <;> rfl
theorem join_none_right (a : Option Ver) : join a none = a := by cases a <;> rfl

theorem join_idem (a : Option Ver) : join a a = a := by
  cases a with
  | none => rfl
  | some a => simp [join, Ver.max_idem]

theorem join_comm {a b : Option Ver} (ha : OWF a) (hb : OWF b) : join a b = join b a := by
  cases a <;> cases b <;> simp [join]
  exact Ver.max_comm ha hb

theorem join_wf {a b : Option Ver} (ha : OWF a) (hb : OWF b) : OWF (join a b) := by
  cases a <;> cases b <;> simp [join, OWF] <;> first | assumption | exact Ver.max_wf ha hb

theorem join_assoc {a b c : Option Ver} (ha : OWF a) (hb : OWF b) (hc : OWF c) :
    join (join a b) c = join a (join b c) := by
  cases a <;> cases b <;> cases c <;> simp [join]
  exact Ver.max_assoc ha hb hc

/-- the join of a stored version with a list of versions, in list order -/
def joinAll (o : Option Ver) (l : List Ver) : Option Ver := l.foldl (fun acc v => join acc (some v)) o

theorem joinAll_wf {o : Option Ver} {l : List Ver} (ho : OWF o) (hl : ∀ v ∈ l, v.WF) : OWF (joinAll o l) := by
  induction l generalizing o with
  | nil => exact ho
  | cons x xs ih =>
    simp only [joinAll, List.foldl_cons]
    exact ih (join_wf ho (hl x (by simp))) (fun v hv => hl v (by simp [hv]))

theorem join_right_comm {o : Option Ver} {a b : Ver} (ho : OWF o) (ha : a.WF) (hb : b.WF) :
    join (join o (some a)) (some b) = join (join o (some b)) (some a) := by
  have ha' : OWF (some a) := ha
  have hb' : OWF (some b) := hb
  rw [join_assoc ho ha' hb', join_assoc ho hb' ha', join_comm ha' hb']

/-- the result of joining a list of versions does not depend on their order -/
theorem joinAll_perm {o : Option Ver} {l1 l2 : List Ver} (hp : l1.Perm l2) (ho : OWF o)
    (hl : ∀ v ∈ l1, v.WF) : joinAll o l1 = joinAll o l2 := by
  induction hp generalizing o with
  | nil => rfl
  | cons x _ ih =>
    simp only [joinAll, List.foldl_cons]
    exact ih (join_wf ho (hl x (by simp))) (fun v hv => hl v (by simp [hv]))
  | swap x y l =>
    simp only [joinAll, List.foldl_cons]
    rw [join_right_comm ho (hl y (by simp)) (hl x (by simp))]
  | trans h1 _ ih1 ih2 =>
    rw [ih1 ho hl, ih2 ho (fun v hv => hl v (h1.mem_iff.mpr hv))]

/-- … nor on multiplicity: merging a version that is already in is a no-op -/
theorem join_absorb {o : Option Ver} {a : Ver} (ho : OWF o) (ha : a.WF) :
    join (join o (some a)) (some a) = join o (some a) := by
  have ha' : OWF (some a) := ha
  rw [join_assoc ho ha' ha', join_idem]

end Ls
