import LsModel.Txn
import LsLemmas.TxnBase
import LsLemmas.Lww
import LsLemmas.Bytes
/-
  Frame lemmas for the DBI list of a transaction state (`findDbi`, `setKvs`, `insertDbi`,
  `openCreate`, `runOn`) and the well-formedness predicate `SortedNames` (C06, C18).
-/
namespace Ls.Txn
open Ls Ls.Lmdb Ls.Strategy

theorem findDbi_none {dbis : List Dbi} {n : Bytes} :
    findDbi dbis n = none ↔ ∀ d ∈ dbis, d.name ≠ n := by
  simp [findDbi]

/-- `setKvs` replaces the content of the named DBI and nothing else -/
theorem findDbi_setKvs (dbis : List Dbi) (n : Bytes) (kvs : KVs) (n' : Bytes) :
    findDbi (setKvs dbis n kvs) n' =
      (findDbi dbis n').map (fun d => if d.name = n then { d with kvs := kvs } else d) := by
  induction dbis with
  | nil => rfl
  | cons x rest ih =>
    simp only [setKvs, List.map_cons] at ih ⊢
    rw [findDbi_cons, findDbi_cons]
    by_cases hx : x.name = n
    · simp only [hx, if_true]
      by_cases hn : n = n'
      · subst hn; simp [hx]
      · simp only [hn, if_false]; exact ih
    · simp only [hx, if_false]
      by_cases hn : x.name = n'
      · subst hn; simp [hx]
      · simp only [hn, if_false]; exact ih

theorem names_setKvs (dbis : List Dbi) (n : Bytes) (kvs : KVs) :
    (setKvs dbis n kvs).map (·.name) = dbis.map (·.name) := by
  induction dbis with
  | nil => rfl
  | cons x rest ih =>
    simp only [setKvs, List.map_cons] at ih ⊢
    rw [ih]
    by_cases hx : x.name = n <;> simp [hx]

/-- a freshly inserted DBI is found under its name; all other names are unaffected -/
theorem findDbi_insertDbi (dbis : List Dbi) (d : Dbi) (n : Bytes) (hnew : findDbi dbis d.name = none) :
    findDbi (insertDbi dbis d) n = if n = d.name then some d else findDbi dbis n := by
  induction dbis with
  | nil =>
    simp only [insertDbi, findDbi_cons]
    by_cases h : d.name = n
    · simp [h]
    · have : ¬ n = d.name := fun h' => h h'.symm
      simp [h, this, findDbi]
  | cons x rest ih =>
    rw [findDbi_cons] at hnew
    by_cases hx : x.name = d.name
    · simp [hx] at hnew
    · simp only [hx, if_false] at hnew
      simp only [insertDbi]
      split
      · rw [findDbi_cons]
        by_cases h : d.name = n
        · simp [h]
        · have : ¬ n = d.name := fun h' => h h'.symm
          simp only [h, this, if_false]
      · rw [findDbi_cons, findDbi_cons, ih hnew]
        by_cases h : x.name = n
        · have : ¬ n = d.name := fun h' => hx (h.trans h')
          simp [h, this]
        · simp [h]

theorem names_insertDbi_mem (dbis : List Dbi) (d : Dbi) (n : Bytes) :
    n ∈ (insertDbi dbis d).map (·.name) ↔ n = d.name ∨ n ∈ dbis.map (·.name) := by
  induction dbis with
  | nil => simp [insertDbi]
  | cons x rest ih =>
    simp only [insertDbi]
    split
    · simp
    · simp only [List.map_cons, List.mem_cons, ih]
      constructor
      · rintro (h | h | h)
        · exact Or.inr (Or.inl h)
        · exact Or.inl h
        · exact Or.inr (Or.inr h)
      · rintro (h | h | h)
        · exact Or.inr (Or.inl h)
        · exact Or.inl h
        · exact Or.inr (Or.inr h)

/-! ### well-formed DBI lists: names strictly increasing (LMDB's root DBI is a sorted map) -/

/-- the DBI names are strictly increasing in byte order: what LMDB's root DBI guarantees -/
def SortedNames (dbis : List Dbi) : Prop :=
  (dbis.map (·.name)).Pairwise (fun a b => bcmp a b < 0)

instance (dbis : List Dbi) : Decidable (SortedNames dbis) := by
  unfold SortedNames; exact inferInstance

theorem sortedNames_setKvs {dbis : List Dbi} (n : Bytes) (kvs : KVs) (h : SortedNames dbis) :
    SortedNames (setKvs dbis n kvs) := by
  unfold SortedNames; rw [names_setKvs]; exact h

theorem sortedNames_insertDbi {dbis : List Dbi} (d : Dbi) (h : SortedNames dbis)
    (hnew : findDbi dbis d.name = none) : SortedNames (insertDbi dbis d) := by
  induction dbis with
  | nil => simp [insertDbi, SortedNames]
  | cons x rest ih =>
    rw [findDbi_cons] at hnew
    by_cases hx : x.name = d.name
    · simp [hx] at hnew
    · simp only [hx, if_false] at hnew
      unfold SortedNames at h ih ⊢
      simp only [List.map_cons, List.pairwise_cons] at h
      simp only [insertDbi]
      split
      · rename_i hlt
        simp only [List.map_cons, List.pairwise_cons]
        refine ⟨?_, h⟩
        intro b hb
        rcases List.mem_cons.mp hb with hb | hb
        · subst hb; exact hlt
        · exact bcmp_lt.mpr (bytes_lt_trans (bcmp_lt.mp hlt) (bcmp_lt.mp (h.1 b hb)))
      · rename_i hge
        simp only [List.map_cons, List.pairwise_cons]
        refine ⟨?_, ih h.2 hnew⟩
        intro b hb
        rcases (names_insertDbi_mem rest d b).mp hb with hb | hb
        · subst hb
          rcases bytes_trichotomy x.name d.name with h1 | h1 | h1
          · exact bcmp_lt.mpr h1
          · exact absurd h1 hx
          · exact absurd (bcmp_lt.mpr h1) hge
        · exact h.1 b hb

/-- in a well-formed list every DBI is the one found under its name -/
theorem findDbi_of_mem {dbis : List Dbi} (h : SortedNames dbis) {d : Dbi} (hd : d ∈ dbis) :
    findDbi dbis d.name = some d := by
  induction dbis with
  | nil => cases hd
  | cons x rest ih =>
    unfold SortedNames at h ih
    simp only [List.map_cons, List.pairwise_cons] at h
    rw [findDbi_cons]
    rcases List.mem_cons.mp hd with hd | hd
    · subst hd; simp
    · have hlt := h.1 d.name (List.mem_map_of_mem hd)
      have hne : ¬ x.name = d.name := by
        intro he; rw [he] at hlt
        exact bytes_lt_irrefl _ (bcmp_lt.mp hlt)
      simp only [hne, if_false]
      exact ih h.2 hd

theorem sortedNames_nodup {dbis : List Dbi} (h : SortedNames dbis) : (dbis.map (·.name)).Nodup := by
  unfold SortedNames at h
  exact h.imp (fun {a b} hab he => by subst he; exact bytes_lt_irrefl _ (bcmp_lt.mp hab))

/-! ### `openCreate`, `runOn` -/

theorem openCreate_of_some {w : W} {n : Bytes} {fl : Nat} {d : Dbi} (h : findDbi w.dbis n = some d) :
    openCreate w n fl = w := by
  unfold openCreate; rw [h]

theorem openCreate_of_none {w : W} {n : Bytes} {fl : Nat} (h : findDbi w.dbis n = none) :
    openCreate w n fl =
      { dbis := insertDbi w.dbis { name := n, flags := fl, kvs := [] }, dirty := true } := by
  unfold openCreate; rw [h]

/-- after `openCreate` the DBI exists: the old one untouched, or a new empty one with the
    requested flags; every other name is unaffected -/
theorem findDbi_openCreate (w : W) (n : Bytes) (fl : Nat) (n' : Bytes) :
    findDbi (openCreate w n fl).dbis n' =
      if n' = n then some ((findDbi w.dbis n).getD { name := n, flags := fl, kvs := [] })
      else findDbi w.dbis n' := by
  cases h : findDbi w.dbis n with
  | some d =>
    rw [openCreate_of_some h]
    by_cases hn : n' = n
    · subst hn; simp [h]
    · simp [hn]
  | none =>
    rw [openCreate_of_none h]
    simp only
    rw [findDbi_insertDbi _ _ _ (by simpa using h)]
    simp

theorem sortedNames_openCreate {w : W} (n : Bytes) (fl : Nat) (h : SortedNames w.dbis) :
    SortedNames (openCreate w n fl).dbis := by
  cases hf : findDbi w.dbis n with
  | some d => rw [openCreate_of_some hf]; exact h
  | none =>
    rw [openCreate_of_none hf]
    exact sortedNames_insertDbi _ h (by simpa using hf)

theorem sortedNames_runOn {w w' : W} {n : Bytes} {f : S → Except Err S} (h : runOn w n f = .ok w')
    (hs : SortedNames w.dbis) : SortedNames w'.dbis := by
  obtain ⟨d, s, _, _, rfl⟩ := runOn_ok h
  exact sortedNames_setKvs _ _ hs

/-- a monadic left fold preserves an invariant that every successful step preserves -/
theorem foldlM_invariant {ε α β} (P : β → Prop) (f : β → α → Except ε β)
    (hstep : ∀ b a b', P b → f b a = .ok b' → P b') :
    ∀ (l : List α) (b b' : β), P b → l.foldlM f b = .ok b' → P b' := by
  intro l
  induction l with
  | nil => intro b b' hb h; simp [List.foldlM, pure, Except.pure] at h; subst h; exact hb
  | cons a l ih =>
    intro b b' hb h
    rw [List.foldlM_cons] at h
    cases hfa : f b a with
    | error err => rw [hfa] at h; cases h
    | ok b1 =>
      rw [hfa] at h
      exact ih b1 b' (hstep b a b1 hb hfa) h


theorem except_bind_ok {ε α β} {x : Except ε α} {f : α → Except ε β} {b : β}
    (h : (x >>= f) = .ok b) : ∃ a, x = .ok a ∧ f a = .ok b := by
  cases x with
  | error e => cases h
  | ok a => exact ⟨a, rfl, h⟩

theorem mainToShadow_eq_fold (c : Cfg) (w : W) (txnID now cutoff : Nat) :
    mainToShadow c w txnID now cutoff = (dbiNames w).foldlM (m2sStep c txnID now cutoff) w := rfl

theorem m2sStep_sorted {c : Cfg} {txnID now cutoff : Nat} {w w' : W} {name : Bytes}
    (hs : SortedNames w.dbis) (h : m2sStep c txnID now cutoff w name = .ok w') :
    SortedNames w'.dbis := by
  unfold m2sStep at h
  split at h
  · injection h with h; subst h; exact hs
  · obtain ⟨msg, _, h⟩ := except_bind_ok h
    split at h
    · dsimp only at h
      split at h
      · cases h
      · split at h
        · obtain ⟨entries, _, h⟩ := except_bind_ok h
          split at h
          · exact sortedNames_runOn h (sortedNames_openCreate _ _ hs)
          · cases h
        · obtain ⟨entries, _, h⟩ := except_bind_ok h
          split at h
          · exact sortedNames_runOn h (sortedNames_openCreate _ _ hs)
          · cases h
    · cases h

/-- `mainToShadow` keeps the DBI list well-formed -/
theorem mainToShadow_sorted {c : Cfg} {txnID now cutoff : Nat} {w w' : W}
    (hs : SortedNames w.dbis) (h : mainToShadow c w txnID now cutoff = .ok w') :
    SortedNames w'.dbis :=
  foldlM_invariant (fun w => SortedNames w.dbis) _ (fun _ _ _ hb hf => m2sStep_sorted hb hf) _ _ _ hs h


theorem shadowToMain_eq_fold (c : Cfg) (w : W) :
    shadowToMain c w = (dbiNames w).foldlM (s2mStep c) w := rfl

theorem s2mStep_sorted {c : Cfg} {w w' : W} {name : Bytes}
    (hs : SortedNames w.dbis) (h : s2mStep c w name = .ok w') : SortedNames w'.dbis := by
  unfold s2mStep at h
  split at h
  · injection h with h; subst h; exact hs
  · split at h
    · dsimp only at h
      split at h
      · cases h
      · obtain ⟨msg, _, h⟩ := except_bind_ok h
        split at h
        · obtain ⟨entries, _, h⟩ := except_bind_ok h
          exact sortedNames_runOn h hs
        · obtain ⟨entries, _, h⟩ := except_bind_ok h
          exact sortedNames_runOn h hs
    · cases h

/-- `shadowToMain` keeps the DBI list well-formed -/
theorem shadowToMain_sorted {c : Cfg} {w w' : W}
    (hs : SortedNames w.dbis) (h : shadowToMain c w = .ok w') : SortedNames w'.dbis :=
  foldlM_invariant (fun w => SortedNames w.dbis) _ (fun _ _ _ hb hf => s2mStep_sorted hb hf) _ _ _ hs h

/-- an application write keeps the DBI list well-formed -/
theorem appStep_sorted {w : W} (op : AppOp) (hs : SortedNames w.dbis) :
    SortedNames (appStep w op).dbis := by
  cases op with
  | create name flags => exact sortedNames_openCreate _ _ hs
  | put name k v =>
    simp only [appStep]
    split
    · exact hs
    · split
      · exact hs
      · exact sortedNames_setKvs _ _ hs
  | del name k =>
    simp only [appStep]
    split
    · exact hs
    · split
      · exact sortedNames_setKvs _ _ hs
      · exact sortedNames_setKvs _ _ hs

/-- a committed application transaction keeps the environment well-formed -/
theorem appTxn_sorted {e e' : Env} {ops : List AppOp} (hs : SortedNames e.dbis)
    (h : appTxn e ops = some e') : SortedNames e'.dbis := by
  unfold appTxn at h
  simp only [Option.map_eq_some_iff] at h
  obtain ⟨w, hw, rfl⟩ := h
  simp only [commit]
  have : ∀ (l : List AppOp) (acc : Option W) (w : W), (∀ a, acc = some a → SortedNames a.dbis) →
      l.foldl (fun (acc : Option W) op =>
        match acc with
        | none => none
        | some w => if appRefused w op then none else some (appStep w op)) acc = some w →
      SortedNames w.dbis := by
    intro l
    induction l with
    | nil => intro acc w ha h; exact ha w h
    | cons op l ih =>
      intro acc w ha h
      rw [List.foldl_cons] at h
      refine ih _ w ?_ h
      intro a hacc
      cases acc with
      | none => simp at hacc
      | some w0 =>
        simp only at hacc
        split at hacc
        · cases hacc
        · injection hacc with hacc; subst hacc
          exact appStep_sorted op (ha w0 rfl)
  exact this ops _ w (fun a ha => by injection ha with ha; subst ha; exact hs) hw

end Ls.Txn
