import LsLemmas.TxnMirrorStep
/-
  Reading shadow values: the live application value, well-formed shadow values, keys the
  application did not change, "not beaten" ⇒ kept.
-/
namespace Ls.Txn
open Ls Ls.Lmdb Ls.Strategy Ls.Merge

/-- the live application value of a stored shadow value (none for a deletion marker) -/
def liveVal (stored : Bytes) : Option Bytes :=
  match Header.parse stored with
  | .ok (h, v) => if Header.isDeleted h.flags then none else some v
  | .error _ => none

/-- a well-formed shadow value: the header parses and a deleted entry carries no value -/
def ValWF (stored : Bytes) : Prop :=
  ∃ h v, Header.parse stored = .ok (h, v) ∧ (Header.isDeleted h.flags = true → v = [])

/-- the projection of a well-formed shadow value is its live value, unless that is empty (D7) -/
theorem projVal_of_wf {stored : Bytes} (h : ValWF stored) :
    projVal stored = (liveVal stored).bind (fun v => if v.length = 0 then none else some v) := by
  obtain ⟨hd, v, hp, hw⟩ := h
  unfold projVal liveVal
  rw [hp]
  simp only
  by_cases hdel : Header.isDeleted hd.flags = true
  · rw [if_pos hdel, hw hdel]; rfl
  · rw [if_neg hdel]; rfl

/-- … so with non-empty live values the projection is exactly the live value -/
theorem projVal_eq_liveVal {stored : Bytes} (h : ValWF stored)
    (hne : ∀ v, liveVal stored = some v → v ≠ []) : projVal stored = liveVal stored := by
  rw [projVal_of_wf h]
  cases hl : liveVal stored with
  | none => rfl
  | some v =>
    have := hne v hl
    simp only [Option.bind_some]
    rw [if_neg (fun h0 => this (List.length_eq_zero_iff.mp h0))]

/-- the application did not change key `k` since the last capture: it holds the value behind the
    stored header; or it does not have the key and the shadow has no entry or a deletion marker -/
def Unchanged (appv stored : Option Bytes) : Prop :=
  (∃ v old hd, appv = some v ∧ stored = some old ∧ Header.parse old = .ok (hd, v)) ∨
  (appv = none ∧ stored = none) ∨
  (∃ old hd a, appv = none ∧ stored = some old ∧ Header.parse old = .ok (hd, a) ∧
    Header.isDeleted hd.flags = true)

theorem captureSpec_unchanged (txnID now cutoff : Nat) {appv stored : Option Bytes}
    (h : Unchanged appv stored) : captureSpec (captureCfg txnID now cutoff) appv stored = .ok stored := by
  rcases h with ⟨v, old, hd, rfl, rfl, hp⟩ | ⟨rfl, rfl⟩ | ⟨old, hd, a, rfl, rfl, hp, hdel⟩
  · exact capture_unchanged txnID now cutoff v old hd hp
  · rfl
  · exact capture_marker_kept txnID now cutoff old a hd hp hdel

/-- an entry that does not beat the stored version is kept out (well-formed entries) -/
theorem keep_of_not_beats {c : Merge.Cfg} {e : KV} {h : Header.Hdr} {a : Bytes} (hw : EntryWF e)
    (hnb : ¬ (norm c e).beats { ts := h.ts, del := Header.isDeleted h.flags, val := a }) :
    keep c e h a := by
  by_cases hk : keep c e h a
  · exact hk
  · exact absurd (not_keep_beats hw hk) hnb

end Ls.Txn
