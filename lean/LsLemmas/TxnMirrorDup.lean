import LsLemmas.TxnMirrorNoop
import LsLemmas.DupSort
/-
  The mirror cycle on a duplicate-keys DBI under the dupsort hack (helper lemmas for C20_cycle):
  order of (key, value) pairs, `putDup`, `EmptyPut` on a duplicate-keys DBI, the encoded entries.
-/
set_option linter.unusedSimpArgs false
namespace Ls.Txn
open Ls Ls.Lmdb Ls.Strategy Ls.Merge Ls.DupSort

/-! ### the order of pairs -/

theorem pairLt_iff (a b : Bytes × Bytes) : pairLt a b = true ↔ a.1 < b.1 ∨ (a.1 = b.1 ∧ a.2 < b.2) := by
  unfold pairLt
  simp only [Bool.or_eq_true, Bool.and_eq_true, decide_eq_true_eq, bcmp_lt, bcmp_eq]

theorem pairLt_irrefl (a : Bytes × Bytes) : ¬ pairLt a a = true := by
  rw [pairLt_iff]
  rintro (h | ⟨_, h⟩) <;> exact bytes_lt_irrefl _ h

theorem pairLt_trans {a b c : Bytes × Bytes} (h1 : pairLt a b = true) (h2 : pairLt b c = true) :
    pairLt a c = true := by
  rw [pairLt_iff] at *
  rcases h1 with h1 | ⟨e1, h1⟩ <;> rcases h2 with h2 | ⟨e2, h2⟩
  · exact Or.inl (bytes_lt_trans h1 h2)
  · exact Or.inl (e2 ▸ h1)
  · exact Or.inl (e1 ▸ h2)
  · exact Or.inr ⟨e1.trans e2, bytes_lt_trans h1 h2⟩

theorem pairLt_tri (a b : Bytes × Bytes) : a = b ∨ pairLt a b = true ∨ pairLt b a = true := by
  rw [pairLt_iff, pairLt_iff]
  rcases bytes_trichotomy a.1 b.1 with h | h | h
  · exact Or.inr (Or.inl (Or.inl h))
  · rcases bytes_trichotomy a.2 b.2 with h' | h' | h'
    · exact Or.inr (Or.inl (Or.inr ⟨h, h'⟩))
    · exact Or.inl (Prod.ext h h')
    · exact Or.inr (Or.inr (Or.inr ⟨h.symm, h'⟩))
  · exact Or.inr (Or.inr (Or.inl h))

/-- a duplicate-keys DBI: strictly increasing (key, value) pairs -/
def PairSorted (db : KVs) : Prop := db.Pairwise (fun a b => pairLt a b = true)

instance (db : KVs) : Decidable (PairSorted db) := by unfold PairSorted; exact inferInstance

/-- two strictly sorted sets of pairs with the same members are the same list -/
theorem pairSorted_ext : ∀ {l1 l2 : KVs}, PairSorted l1 → PairSorted l2 → (∀ x, x ∈ l1 ↔ x ∈ l2) → l1 = l2
  | [], [], _, _, _ => rfl
  | [], b :: _, _, _, h => absurd ((h b).mpr (List.mem_cons_self ..)) (by simp)
  | a :: _, [], _, _, h => absurd ((h a).mp (List.mem_cons_self ..)) (by simp)
  | a :: r1, b :: r2, h1, h2, h => by
    obtain ⟨ha, hr1⟩ := List.pairwise_cons.mp h1
    obtain ⟨hb, hr2⟩ := List.pairwise_cons.mp h2
    have hab : a = b := by
      rcases List.mem_cons.mp ((h a).mp (List.mem_cons_self ..)) with e | ha2
      · exact e
      · rcases List.mem_cons.mp ((h b).mpr (List.mem_cons_self ..)) with e | hb1
        · exact e.symm
        · exact absurd (pairLt_trans (ha b hb1) (hb a ha2)) (pairLt_irrefl a)
    subst hab
    congr 1
    apply pairSorted_ext hr1 hr2
    intro x
    constructor
    · intro hx
      rcases List.mem_cons.mp ((h x).mp (List.mem_cons_of_mem _ hx)) with e | hx2
      · subst e; exact absurd (ha _ hx) (pairLt_irrefl _)
      · exact hx2
    · intro hx
      rcases List.mem_cons.mp ((h x).mpr (List.mem_cons_of_mem _ hx)) with e | hx1
      · subst e; exact absurd (hb _ hx) (pairLt_irrefl _)
      · exact hx1

theorem putDup_mem (db : KVs) (k v : Bytes) (x : Bytes × Bytes) :
    x ∈ putDup db k v ↔ x = (k, v) ∨ x ∈ db := by
  induction db with
  | nil => simp [putDup]
  | cons p rest ih =>
    unfold putDup
    split
    · simp
    · split
      · rename_i hp
        simp only [List.mem_cons]
        constructor
        · exact Or.inr
        · rintro (h | h)
          · left; rw [h, hp]
          · exact h
      · simp only [List.mem_cons, ih]
        constructor
        · rintro (h | h | h)
          · exact Or.inr (Or.inl h)
          · exact Or.inl h
          · exact Or.inr (Or.inr h)
        · rintro (h | h | h)
          · exact Or.inr (Or.inl h)
          · exact Or.inl h
          · exact Or.inr (Or.inr h)

theorem putDup_sorted {db : KVs} (h : PairSorted db) (k v : Bytes) : PairSorted (putDup db k v) := by
  induction db with
  | nil => exact List.pairwise_singleton _ _
  | cons p rest ih =>
    obtain ⟨hp, hr⟩ := List.pairwise_cons.mp h
    unfold putDup
    split
    · rename_i hlt
      refine List.pairwise_cons.mpr ⟨?_, h⟩
      intro y hy
      rcases List.mem_cons.mp hy with e | hy
      · rw [e]; exact hlt
      · exact pairLt_trans hlt (hp y hy)
    · rename_i hnlt
      split
      · exact h
      · rename_i hne
        refine List.pairwise_cons.mpr ⟨?_, ih hr⟩
        intro y hy
        rcases (putDup_mem rest k v y).mp hy with e | hy
        · rw [e]
          rcases pairLt_tri p (k, v) with h' | h' | h'
          · exact absurd h' hne
          · exact h'
          · exact absurd h' hnlt
        · exact hp y hy

/-! ### EmptyPut on a duplicate-keys DBI with the plain iterator -/

/-- the body of `doPut`'s loop on a duplicate-keys DBI with the plain iterator, in normal form -/
def dupStep (s : S) (e : KV) : Except (SErr Header.Err) S :=
  if e.val.length = 0 then .ok s
  else if badKey e.key = true then .error .badKey
  else .ok ⟨putDup s.db e.key e.val, true⟩

theorem doPutEmpty_dup_eq_fold (ik : Bool) (s : S) (input : List KV) :
    doPutEmpty ik true plainIter s input = input.foldlM dupStep s := by
  unfold doPutEmpty
  congr 1
  funext s e
  unfold dupStep
  by_cases hv : e.val.length = 0
  · simp only [plainIter, plainMerge, hv, if_true, liftIter, bind, Except.bind]; rfl
  · by_cases hb : badKey e.key = true
    · simp only [plainIter, plainMerge, hv, hb, if_true, if_false, liftIter, bind, Except.bind]; rfl
    · simp only [plainIter, plainMerge, hv, hb, if_true, if_false, liftIter, bind, Except.bind,
        Bool.false_eq_true]; rfl

theorem doPutEmpty_dup {ik : Bool} (input : List KV) :
    ∀ {s s' : S}, doPutEmpty ik true plainIter s input = .ok s' → PairSorted s.db →
      PairSorted s'.db ∧
      ∀ x, x ∈ s'.db ↔ x ∈ s.db ∨ ∃ e ∈ input, e.val ≠ [] ∧ x = (e.key, e.val) := by
  simp only [doPutEmpty_dup_eq_fold]
  induction input with
  | nil =>
    intro s s' h hs
    simp [List.foldlM_nil, pure, Except.pure] at h; subst h
    exact ⟨hs, fun x => by simp⟩
  | cons a rest ih =>
    intro s s' h hs
    rw [List.foldlM_cons] at h
    by_cases hv : a.val.length = 0
    · have hstep : dupStep s a = .ok s := by unfold dupStep; rw [if_pos hv]
      rw [hstep] at h
      simp only [bind, Except.bind] at h
      obtain ⟨h1, h2⟩ := ih (s := s) h hs
      refine ⟨h1, fun x => ?_⟩
      rw [h2 x]
      constructor
      · rintro (h | ⟨e, he, hne, hx⟩)
        · exact Or.inl h
        · exact Or.inr ⟨e, List.mem_cons_of_mem _ he, hne, hx⟩
      · rintro (h | ⟨e, he, hne, hx⟩)
        · exact Or.inl h
        · rcases List.mem_cons.mp he with he | he
          · subst he; exact absurd (List.length_eq_zero_iff.mp hv) hne
          · exact Or.inr ⟨e, he, hne, hx⟩
    · by_cases hb : badKey a.key = true
      · exfalso
        have hstep : dupStep s a = .error .badKey := by unfold dupStep; rw [if_neg hv, if_pos hb]
        rw [hstep] at h
        simp [bind, Except.bind] at h
      · have hstep : dupStep s a = .ok { db := putDup s.db a.key a.val, dirty := true } := by
          unfold dupStep; rw [if_neg hv, if_neg hb]
        rw [hstep] at h
        simp only [bind, Except.bind] at h
        obtain ⟨h1, h2⟩ := ih (s := { db := putDup s.db a.key a.val, dirty := true }) h (putDup_sorted hs _ _)
        refine ⟨h1, fun x => ?_⟩
        rw [h2 x]
        simp only [putDup_mem]
        have hne : a.val ≠ [] := fun h0 => hv (by rw [h0]; rfl)
        constructor
        · rintro ((h | h) | ⟨e, he, hne', hx⟩)
          · exact Or.inr ⟨a, List.mem_cons_self .., hne, h⟩
          · exact Or.inl h
          · exact Or.inr ⟨e, List.mem_cons_of_mem _ he, hne', hx⟩
        · rintro (h | ⟨e, he, hne', hx⟩)
          · exact Or.inl (Or.inr h)
          · rcases List.mem_cons.mp he with he | he
            · subst he; exact Or.inl (Or.inl hx)
            · exact Or.inr ⟨e, he, hne', hx⟩

theorem doPutEmpty_dup_dirty {ik : Bool} (input : List KV) :
    ∀ {s s' : S}, doPutEmpty ik true plainIter s input = .ok s' → s.dirty = true → s'.dirty = true := by
  simp only [doPutEmpty_dup_eq_fold]
  intro s s' h hd
  refine foldlM_preserves dupStep (fun s => s.dirty = true) input ?_ s s' hd h
  intro a _ b b1 hb hs
  unfold dupStep at hs
  split at hs
  · injection hs with hs; subst hs; exact hb
  · split at hs
    · cases hs
    · injection hs with hs; subst hs; rfl

/-! ### the encoded entries -/

/-- the shadow (key, value) pairs of a duplicate-keys content -/
def encKvs (kvs : KVs) : KVs := kvs.map (fun p => (encKey p.1 p.2, p.2))

theorem encodeAllAux_raw (kvs : KVs) : ∀ (prev : Bytes) (r : List KV),
    encodeAllAux prev (rawEntries kvs) = .ok r →
    r = rawEntries (encKvs kvs) ∧ (∀ p ∈ kvs, 1 ≤ p.1.length ∧ p.1.length ≤ 255) ∧
    (∀ p ∈ encKvs kvs, bcmp prev p.1 < 0) ∧ Sorted false (encKvs kvs) := by
  induction kvs with
  | nil =>
    intro prev r h
    simp only [rawEntries, List.map_nil, encodeAllAux] at h
    injection h with h; subst h
    exact ⟨rfl, (fun p hp => by cases hp), (fun p hp => by cases hp), sorted_nil _⟩
  | cons p rest ih =>
    intro prev r h
    obtain ⟨k, v⟩ := p
    have hraw : rawEntries ((k, v) :: rest) = { key := k, val := v, ts := 0, flags := 0 } :: rawEntries rest := rfl
    rw [hraw] at h
    simp only [encodeAllAux] at h
    have hk : 1 ≤ k.length ∧ k.length ≤ 255 := by
      by_cases hh : 1 ≤ k.length ∧ k.length ≤ 255
      · exact hh
      · obtain ⟨err, he⟩ := encodeOne_refuse { key := k, val := v, ts := 0, flags := 0 } (by simp only; omega)
        rw [he] at h; cases h
    rw [encodeOne_ok _ hk.1 hk.2] at h
    simp only at h
    split at h
    · cases h
    · split at h
      · cases h
      · rename_i hne hngt
        cases hr : encodeAllAux (encKey k v) (rawEntries rest) with
        | error e => rw [hr] at h; cases h
        | ok r' =>
          rw [hr] at h
          simp only at h
          injection h with h; subst h
          obtain ⟨h1, h2, h3, h4⟩ := ih (encKey k v) r' hr
          have hlt : bcmp prev (encKey k v) < 0 := by omega
          refine ⟨?_, ?_, ?_, ?_⟩
          · rw [h1]; rfl
          · intro p hp
            rcases List.mem_cons.mp hp with hp | hp
            · subst hp; exact hk
            · exact h2 p hp
          · intro p hp
            have : encKvs ((k, v) :: rest) = (encKey k v, v) :: encKvs rest := rfl
            rw [this] at hp
            rcases List.mem_cons.mp hp with hp | hp
            · subst hp; exact hlt
            · exact bcmp_lt.mpr (List.lt_trans (bcmp_lt.mp hlt) (bcmp_lt.mp (h3 p hp)))
          · have : encKvs ((k, v) :: rest) = (encKey k v, v) :: encKvs rest := rfl
            rw [this]
            exact List.pairwise_cons.mpr ⟨fun q hq => h3 q hq, h4⟩

theorem encodeAll_raw {kvs : KVs} {r : List KV} (h : encodeAll (rawEntries kvs) = .ok r) :
    r = rawEntries (encKvs kvs) ∧ (∀ p ∈ kvs, 1 ≤ p.1.length ∧ p.1.length ≤ 255) ∧
    Sorted false (encKvs kvs) ∧ DKeysOK (encKvs kvs) := by
  obtain ⟨h1, h2, _, h4⟩ := encodeAllAux_raw kvs [] r h
  refine ⟨h1, h2, h4, ?_⟩
  intro p hp
  obtain ⟨q, hq, rfl⟩ := List.mem_map.mp hp
  have := encKey_length q.1 q.2 (h2 q hq).1 (h2 q hq).2
  have hc : Gen.strategyMaxKeySize = 511 := rfl
  simp only [badKey, Bool.or_eq_false_iff, decide_eq_false_iff_not]
  exact ⟨by omega, by omega⟩

/-! ### the two steps on a duplicate-keys DBI -/

theorem mainToShadow_dup {c : Cfg} {txnID now cutoff : Nat} {w w' : W} (hdist : DistinctNames w.dbis)
    (h : mainToShadow c w txnID now cutoff = .ok w') {n : Bytes} {d : Dbi}
    (hp : isPrivate n = false) (hd : findDbi w.dbis n = some d) (hdup : isDupSort d.flags = true)
    (hh : c.hack = true) :
    ∃ d0 s, Sorted false (encKvs d.kvs) ∧ DKeysOK (encKvs d.kvs) ∧
      (∀ p ∈ d.kvs, 1 ≤ p.1.length ∧ p.1.length ≤ 255) ∧
      iterUpdate (isIntKey (shadowOf w n d).flags) (nativeIter (captureCfg txnID now cutoff))
        ⟨(shadowOf w n d).kvs, d0⟩ (rawEntries (encKvs d.kvs)) = .ok s ∧
      findDbi w'.dbis (shadowName n) = some { shadowOf w n d with kvs := s.db } := by
  obtain ⟨w1, w2, hs, hd1, hsd1, hfin⟩ := mainToShadow_dbi hdist h hp hd
  obtain ⟨d1, entries, s, hd1', _, hent, hiu, hw2⟩ := m2sStep_ok hp hs
  rw [hd1] at hd1'; injection hd1' with hd1'; subst hd1'
  rw [if_pos ⟨hh, hdup⟩] at hent
  obtain ⟨e1, e2, e3, e4⟩ := encodeAll_raw hent
  subst e1
  rw [shadowOf_congr d hsd1] at hiu
  refine ⟨_, s, e3, e4, e2, hiu, ?_⟩
  rw [hfin, hw2]
  simp only [findDbi_setKvsMirror, if_true, openCreate_find_self, Option.map_some]
  have := shadowOf_congr d hsd1
  unfold shadowOf at this
  rw [this]; rfl

theorem s2mStep_dup_ok {c : Cfg} {w w' : W} {name : Bytes} {d : Dbi}
    (hp : isPrivate name = false) (hd : findDbi w.dbis name = some d) (hdup : isDupSort d.flags = true)
    (h : s2mStep c w name = .ok w') :
    ∃ sd es dec s, findDbi w.dbis (shadowName name) = some sd ∧
      sd.kvs.mapM (entryOf false) = .ok es ∧ decodeAll es = .ok dec ∧
      emptyPut (isIntKey d.flags) true plainIter ⟨d.kvs, w.dirty⟩ dec = .ok s ∧
      w' = ⟨setKvs w.dbis name s.db, s.dirty⟩ := by
  unfold s2mStep at h
  simp only [hp, hd, hdup, Bool.false_eq_true, if_false, if_true, true_and, bind, Except.bind] at h
  by_cases hh : ¬ c.hack = true
  · simp [hh, throw, throwThe, MonadExceptOf.throw] at h
  · simp only [hh, if_false] at h
    cases hr : readDBI c w (shadowName name) name false with
    | error e => simp [hr] at h
    | ok msg =>
      obtain ⟨sd, fl, hsd, _, ht⟩ := readDBI_okMirror hr
      obtain ⟨_, hm, _⟩ := readTail_ok ht
      simp only [hr] at h
      cases hda : decodeAll msg.entries with
      | error e => simp [hda, throw, throwThe, MonadExceptOf.throw] at h
      | ok dec =>
        simp only [hda, pure, Except.pure] at h
        obtain ⟨d', s, hd', hs, hw⟩ := runOn_ok h
        rw [hd] at hd'; injection hd' with hd'; subst hd'
        exact ⟨sd, msg.entries, dec, s, hsd, hm, hda, mapStratErr_ok hs, hw⟩

/-! ### the cycle -/

theorem All2.mem_left {α β} {R : α → β → Prop} {l : List α} {r : List β} (h : All2 R l r) :
    ∀ a ∈ l, ∃ b ∈ r, R a b := by
  induction h with
  | nil => intro a ha; cases ha
  | cons hab _ ih =>
    intro a ha
    rcases List.mem_cons.mp ha with ha | ha
    · subst ha; exact ⟨_, List.mem_cons_self .., hab⟩
    · obtain ⟨b, hb, h⟩ := ih a ha; exact ⟨b, List.mem_cons_of_mem _ hb, h⟩

theorem All2.mem_right {α β} {R : α → β → Prop} {l : List α} {r : List β} (h : All2 R l r) :
    ∀ b ∈ r, ∃ a ∈ l, R a b := by
  induction h with
  | nil => intro a ha; cases ha
  | cons hab _ ih =>
    intro b hb
    rcases List.mem_cons.mp hb with hb | hb
    · subst hb; exact ⟨_, List.mem_cons_self .., hab⟩
    · obtain ⟨a, ha, h⟩ := ih b hb; exact ⟨a, List.mem_cons_of_mem _ ha, h⟩

/-- the capture of a present application value leaves an entry with that value behind its header -/
theorem capture_some_val {txnID now cutoff : Nat} {v : Bytes} {stored r : Option Bytes}
    (hn : now < two64) (ht : txnID < two64)
    (hclock : ∀ old, stored = some old → ∀ hd a, Header.parse old = .ok (hd, a) → hd.ts < now)
    (h : captureSpec (captureCfg txnID now cutoff) (some v) stored = .ok r) :
    ∃ X hd, r = some X ∧ Header.parse X = .ok (hd, v) := by
  by_cases hs : stored.getD [] = []
  · rw [capture_new txnID now cutoff v stored hs] at h
    injection h with h
    exact ⟨_, _, h.symm, parse_liveBytes now txnID v hn ht⟩
  · cases hst : stored with
    | none => rw [hst] at hs; exact absurd rfl hs
    | some old =>
      rw [hst] at hs h
      simp only [Option.getD_some] at hs
      cases hp : Header.parse old with
      | error x =>
        exfalso
        simp only [captureSpec, Option.getD_some] at h
        have hl : old.length ≠ 0 := fun h0 => hs (List.length_eq_zero_iff.mp h0)
        unfold merge at h
        rw [if_neg hl, hp] at h
        cases h
      | ok pr =>
        obtain ⟨hd, a⟩ := pr
        by_cases hav : a = v
        · subst hav
          rw [capture_unchanged txnID now cutoff a old hd hp] at h
          injection h with h
          exact ⟨old, hd, h.symm, hp⟩
        · rw [capture_changed txnID now cutoff v old a hd hp hav (hclock old hst hd a hp)] at h
          injection h with h
          exact ⟨_, _, h.symm, parse_liveBytes now txnID v hn ht⟩

/-- the capture of an absent key leaves nothing, or an entry with no value behind its header -/
theorem capture_none_val {txnID now cutoff : Nat} {stored r : Option Bytes}
    (hn : now < two64) (ht : txnID < two64)
    (hwf : ∀ old, stored = some old → ValWF old)
    (h : captureSpec (captureCfg txnID now cutoff) none stored = .ok r) :
    r = none ∨ ∃ X hd, r = some X ∧ Header.parse X = .ok (hd, []) := by
  cases hst : stored with
  | none => rw [hst] at h; injection h with h; exact Or.inl h.symm
  | some old =>
    rw [hst] at h
    obtain ⟨hd, a, hp, hw⟩ := hwf old hst
    right
    cases hdel : Header.isDeleted hd.flags with
    | true =>
      rw [capture_marker_kept txnID now cutoff old a hd hp hdel] at h
      injection h with h
      rw [hw hdel] at hp
      exact ⟨old, hd, h.symm, hp⟩
    | false =>
      rw [capture_deleted txnID now cutoff old a hd hp hdel] at h
      injection h with h
      exact ⟨_, _, h.symm, parse_markerBytes now txnID hn ht⟩

theorem decodeOne_eta (e : KV) :
    decodeOne e = decodeOne { key := e.key, val := e.val, ts := e.ts, flags := e.flags } := by
  cases e; rfl

theorem decodeOne_val {e e' : KV} (h : decodeOne e = .ok e') : e'.val = e.val := by
  unfold decodeOne at h
  split at h
  · cases h
  · simp only at h
    split at h
    · cases h
    · split at h
      · cases h
      · injection h with h; subst h; rfl


/-- the mirror cycle on a duplicate-keys content, at the level of the two DBI contents -/
theorem dup_cycle_core {txnID now cutoff : Nat} {app sh : KVs} {d0 : Bool} {s1 s0 s2 : S} {es dec : List KV}
    (hn : now < two64) (ht : txnID < two64)
    (hps : PairSorted app) (hne : ∀ p ∈ app, p.2 ≠ [])
    (hkl : ∀ p ∈ app, 1 ≤ p.1.length ∧ p.1.length ≤ 255)
    (hE : Sorted false (encKvs app)) (hEK : DKeysOK (encKvs app))
    (hS : Sorted false sh) (hSK : DKeysOK sh) (hwf : ∀ p ∈ sh, ValWF p.2)
    (hclock : ∀ p ∈ sh, ∀ hd v, Header.parse p.2 = .ok (hd, v) → hd.ts < now)
    (h1 : iterUpdate false (nativeIter (captureCfg txnID now cutoff)) ⟨sh, d0⟩ (rawEntries (encKvs app)) = .ok s1)
    (hm : s1.db.mapM (entryOf false) = .ok es) (hdec : decodeAll es = .ok dec)
    (h2 : emptyPut false true plainIter s0 dec = .ok s2) : s2.db = app := by
  obtain ⟨hS1, _, hcap⟩ := capture_get (captureCfg txnID now cutoff) hE hEK hS hSK h1
  have hrel := keyRel_read hm
  have hd2 := mapM_ok_all2 _ _ _ hdec
  unfold emptyPut at h2
  obtain ⟨hps2, hmem2⟩ := doPutEmpty_dup dec h2 (List.Pairwise.nil)
  have hclk : ∀ k old, get false sh k = some old → ∀ hd a, Header.parse old = .ok (hd, a) → hd.ts < now := by
    intro k old hg hd a hp
    obtain ⟨k', hmem, _⟩ := get_some_mem hg
    exact hclock (k', old) hmem hd a hp
  have hwfk : ∀ k old, get false sh k = some old → ValWF old := by
    intro k old hg
    obtain ⟨k', hmem, _⟩ := get_some_mem hg
    exact hwf (k', old) hmem
  apply pairSorted_ext hps2 hps
  intro x
  rw [hmem2 x]
  simp only [List.not_mem_nil, false_or]
  constructor
  · -- what the projection puts comes from the application content
    rintro ⟨e', he', hv', rfl⟩
    obtain ⟨e, he, hde⟩ := hd2.mem_right e' he'
    obtain ⟨kv, hkv, hke, hd, hp, _, _⟩ := hrel.mem e he
    have hval : e'.val = e.val := decodeOne_val hde
    have hg1 : get false s1.db kv.1 = some kv.2 := get_of_mem hS1 (by cases kv; exact hkv)
    have hc := hcap kv.1
    rw [hg1] at hc
    cases hga : get false (encKvs app) kv.1 with
    | none =>
      rw [hga] at hc
      rcases capture_none_val hn ht (fun old ho => hwfk kv.1 old ho) hc with h0 | ⟨X, hd', hX, hpX⟩
      · cases h0
      · injection hX with hX
        rw [← hX, hp] at hpX
        injection hpX with hpX; injection hpX with _ hpX
        exact absurd (hval.trans hpX) hv'
    | some v =>
      rw [hga] at hc
      obtain ⟨X, hd', hX, hpX⟩ := capture_some_val hn ht (fun old ho => hclk kv.1 old ho) hc
      injection hX with hX
      rw [← hX, hp] at hpX
      injection hpX with hpX; injection hpX with _ hpX
      obtain ⟨sk', hmem, hkk⟩ := get_some_mem hga
      have hsk : kv.1 = sk' := bcmp_eq.mp hkk
      obtain ⟨q, hq, hqe⟩ := List.mem_map.mp hmem
      injection hqe with hq1 hq2
      have hkey : e.key = encKey q.1 q.2 := by rw [hke, hsk, ← hq1]
      have hvq : e.val = q.2 := by rw [hpX, ← hq2]
      have hdq := decodeOne_encKey q.1 q.2 e.flags e.ts (hkl q hq).1 (hkl q hq).2
      have hee : e = { key := encKey q.1 q.2, val := q.2, ts := e.ts, flags := e.flags } := by
        cases e; simp only at hkey hvq; rw [hkey, hvq]
      rw [hee, hdq] at hde
      injection hde with hde
      subst hde
      exact hq
  · -- every pair of the application content is put back
    intro hx
    obtain ⟨k, v⟩ := x
    have hmemE : (encKey k v, v) ∈ encKvs app := List.mem_map.mpr ⟨(k, v), hx, rfl⟩
    have hga : get false (encKvs app) (encKey k v) = some v := get_of_mem hE hmemE
    have hc := hcap (encKey k v)
    rw [hga] at hc
    obtain ⟨X, hd', hX, hpX⟩ := capture_some_val hn ht (fun old ho => hclk _ old ho) hc
    obtain ⟨k', hmem1, hkk⟩ := get_some_mem hX
    have hk' : encKey k v = k' := bcmp_eq.mp hkk
    subst hk'
    obtain ⟨e, he, hke, hd, hp, _, _⟩ := hrel.mem' (encKey k v, X) hmem1
    simp only at hke hp
    rw [hpX] at hp
    injection hp with hp; injection hp with _ hp
    obtain ⟨e', he', hde⟩ := hd2.mem_left e he
    have hdq := decodeOne_encKey k v e.flags e.ts (hkl (k, v) hx).1 (hkl (k, v) hx).2
    have hee : e = { key := encKey k v, val := v, ts := e.ts, flags := e.flags } := by
      cases e; simp only at hke hp; rw [hke, hp]
    rw [hee, hdq] at hde
    injection hde with hde
    refine ⟨e', he', ?_, ?_⟩
    · rw [← hde]; exact hne (k, v) hx
    · rw [← hde]


/-- the mirror cycle on one duplicate-keys application DBI, at the level of environments -/
theorem dup_cycle_env {c : Cfg} {w w1 w2 : W} {txnID now cutoff : Nat} {n : Bytes} {d : Dbi}
    (hdist : DistinctNames w.dbis) (hh : c.hack = true)
    (h1 : mainToShadow c w txnID now cutoff = .ok w1) (h2 : shadowToMain c w1 = .ok w2)
    (hp : isPrivate n = false) (hd : findDbi w.dbis n = some d)
    (hdup : isDupSort d.flags = true) (hik : isIntKey d.flags = false)
    (hiks : isIntKey (shadowOf w n d).flags = false)
    (hps : PairSorted d.kvs) (hne : ∀ p ∈ d.kvs, p.2 ≠ [])
    (hS : Sorted false (shadowOf w n d).kvs) (hSK : DKeysOK (shadowOf w n d).kvs)
    (hwf : ∀ p ∈ (shadowOf w n d).kvs, ValWF p.2)
    (hclock : ∀ p ∈ (shadowOf w n d).kvs, ∀ hd v, Header.parse p.2 = .ok (hd, v) → hd.ts < now)
    (hn : now < two64) (ht : txnID < two64) :
    findDbi w2.dbis n = some d ∧ (∃ enc, encodeAll (rawEntries d.kvs) = .ok enc) ∧
    ∃ sd es dec, findDbi w2.dbis (shadowName n) = some sd ∧
      sd.kvs.mapM (entryOf false) = .ok es ∧ decodeAll es = .ok dec ∧
      emptyPut (isIntKey d.flags) true plainIter ⟨[], false⟩ dec = .ok ⟨d.kvs, true⟩ := by
  obtain ⟨d0, s, hE, hEK, hkl, hiu, hf⟩ := mainToShadow_dup hdist h1 hp hd hdup hh
  rw [hiks] at hiu
  have hd1 : findDbi w1.dbis n = some d := by rw [mainToShadow_app_unchanged h1 n hp]; exact hd
  have hdist1 := (mainToShadow_frame h1).1 hdist
  obtain ⟨w1', w2', hs, hd1', hsd1', hfin⟩ := shadowToMain_dbi hdist1 h2 hp hd1
  obtain ⟨sd, es, dec, s', hsd, hm, hdec, hput, hw2'⟩ := s2mStep_dup_ok hp hd1' hdup hs
  rw [hsd1', hf] at hsd
  injection hsd with hsd
  subst hsd
  rw [hik] at hput
  have hcore := dup_cycle_core hn ht hps hne hkl hE hEK hS hSK hwf hclock hiu hm hdec hput
  refine ⟨?_, ?_, ?_⟩
  · rw [hfin, hw2']
    simp only [findDbi_setKvsMirror, if_true, hd1', Option.map_some, hcore]
  rotate_left
  · refine ⟨_, es, dec, ?_, hm, hdec, ?_⟩
    · rw [(shadowToMain_frame h2).2.2 _ (isPrivate_shadowName n)]; exact hf
    · rw [hik]
      have hdirty : s'.dirty = true := by
        unfold emptyPut at hput
        exact doPutEmpty_dup_dirty dec hput rfl
      have : s' = ⟨d.kvs, true⟩ := by cases s'; simp only at hcore hdirty; rw [hcore, hdirty]
      rw [← this, emptyPut_irrel _ _ _ _ ⟨d.kvs, w1'.dirty⟩]; exact hput
  · -- the content was accepted by the encoder (the capture succeeded)
    obtain ⟨w1a, w2a, hsa, hd1a, _, _⟩ := mainToShadow_dbi hdist h1 hp hd
    obtain ⟨d1, entries, _, hd1b, _, hent, _, _⟩ := m2sStep_ok hp hsa
    rw [hd1a] at hd1b; injection hd1b with hd1b; subst hd1b
    rw [if_pos ⟨hh, hdup⟩] at hent
    exact ⟨entries, hent⟩

end Ls.Txn
