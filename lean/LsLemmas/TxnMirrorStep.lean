import LsLemmas.TxnMirrorLoad2
/-
  One non-native `LoadOnce` seen from one existing ordinary application DBI and its shadow:
  capture (if there was a local change), merge of the snapshot into the shadow, projection.
-/
set_option linter.unusedSimpArgs false
namespace Ls.Txn
open Ls Ls.Lmdb Ls.Strategy Ls.Merge

/-- the three phases of a successful non-native `LoadOnce` -/
theorem loadOnce_shadow_ok {c : Cfg} {e : Env} {snap : Snap} {lastSynced now cutoff : Nat} {r : LoadRes}
    (hn : c.native = false) (h : loadOnce c e snap lastSynced now cutoff = .ok r) :
    ∃ w1 w2 w3,
      (if lastSynced < e.lastTxn then mainToShadow c ⟨e.dbis, false⟩ (e.lastTxn + 1) now cutoff = .ok w1
       else w1 = ⟨e.dbis, false⟩) ∧
      snap.dbs.foldlM (loadDbi c snap (e.lastTxn + 1) cutoff) w1 = .ok w2 ∧
      shadowToMain c w2 = .ok w3 ∧
      r.env = commit e w3 ∧ r.localChanged = decide (lastSynced < e.lastTxn) ∧
      r.txnID = (if (commit e w3).lastTxn < e.lastTxn + 1 then (commit e w3).lastTxn else e.lastTxn + 1) := by
  unfold loadOnce at h
  simp only [hn, Bool.false_eq_true, not_false_eq_true, true_and, if_true, Nat.add_sub_cancel,
    bind, Except.bind, pure, Except.pure] at h
  by_cases hl : lastSynced < e.lastTxn
  · simp only [hl, decide_true, if_true] at h
    cases h1 : mainToShadow c ⟨e.dbis, false⟩ (e.lastTxn + 1) now cutoff with
    | error x => simp [h1] at h
    | ok w1 =>
      simp only [h1] at h
      cases h2 : snap.dbs.foldlM (loadDbi c snap (e.lastTxn + 1) cutoff) w1 with
      | error x => simp [h2] at h
      | ok w2 =>
        simp only [h2] at h
        cases h3 : shadowToMain c w2 with
        | error x => simp [h3] at h
        | ok w3 =>
          simp only [h3] at h
          injection h with h; subst h
          exact ⟨w1, w2, w3, by rw [if_pos hl], h2, h3, rfl, by simp [hl], rfl⟩
  · simp only [hl, decide_false, Bool.false_eq_true, if_false] at h
    cases h2 : snap.dbs.foldlM (loadDbi c snap (e.lastTxn + 1) cutoff) ⟨e.dbis, false⟩ with
    | error x => simp [h2] at h
    | ok w2 =>
      simp only [h2] at h
      cases h3 : shadowToMain c w2 with
      | error x => simp [h3] at h
      | ok w3 =>
        simp only [h3] at h
        injection h with h; subst h
        exact ⟨⟨e.dbis, false⟩, w2, w3, by rw [if_neg hl], h2, h3, rfl, by simp [hl], rfl⟩

theorem loadDbi_distinct_shadow {c : Cfg} {snap : Snap} {txnID cutoff : Nat} {w w' : W} {m : DbiMsg}
    (hn : c.native = false) (h : loadDbi c snap txnID cutoff w m = .ok w') (hd : DistinctNames w.dbis) :
    DistinctNames w'.dbis := by
  cases hpm : isPrivate m.name with
  | true => rw [loadDbi_private hpm] at h; injection h with h; subst h; exact hd
  | false =>
    obtain ⟨_, _, td, s, _, _, hw'⟩ := loadDbi_shadow_ok hn hpm h
    subst hw'
    exact distinct_setKvs (distinct_openCreate (distinct_openCreate hd _ _) _ _) _ _

theorem loadFold_distinct_shadow {c : Cfg} {snap : Snap} {txnID cutoff : Nat} {w w' : W} {msgs : List DbiMsg}
    (hn : c.native = false) (h : msgs.foldlM (loadDbi c snap txnID cutoff) w = .ok w')
    (hd : DistinctNames w.dbis) : DistinctNames w'.dbis :=
  foldlM_preserves _ (fun x => DistinctNames x.dbis) msgs
    (fun _ _ _ _ hb hs => loadDbi_distinct_shadow hn hs hb) w w' hd h

theorem shadowOf_isIntKey_new {w : W} {n : Bytes} {d : Dbi} (h : findDbi w.dbis (shadowName n) = none) :
    isIntKey (shadowOf w n d).flags = isIntKey d.flags ∧ (shadowOf w n d).kvs = [] := by
  unfold shadowOf; rw [h]; exact ⟨isIntKey_mask d.flags, rfl⟩

theorem shadowOf_of_some {w : W} {n : Bytes} {d sd : Dbi} (h : findDbi w.dbis (shadowName n) = some sd) :
    shadowOf w n d = sd := by
  unfold shadowOf; rw [h]; rfl

/-- what one ordinary application DBI `n` (content `d`) and its shadow look like after a successful
    non-native `LoadOnce`. `sd1` is the shadow after the capture phase. -/
theorem loadOnce_shadow_track {c : Cfg} {e : Env} {snap : Snap} {lastSynced now cutoff : Nat} {r : LoadRes}
    (hn : c.native = false) (hdist : DistinctNames e.dbis)
    (h : loadOnce c e snap lastSynced now cutoff = .ok r)
    {n : Bytes} {d : Dbi} (hp : isPrivate n = false) (hd : findDbi e.dbis n = some d)
    (hnd : isDupSort d.flags = false)
    (hA : Sorted (isIntKey d.flags) d.kvs) (hAK : DKeysOK d.kvs)
    (hsh : ∀ sd, findDbi e.dbis (shadowName n) = some sd →
      isIntKey sd.flags = isIntKey d.flags ∧ Sorted (isIntKey d.flags) sd.kvs ∧ DKeysOK sd.kvs)
    (hex : ¬ lastSynced < e.lastTxn → (findDbi e.dbis (shadowName n)).isSome = true) :
    ∃ sd1 kvs2 kvs3,
      sd1.flags = (shadowOf ⟨e.dbis, false⟩ n d).flags ∧ sd1.name = shadowName n ∧
      isIntKey sd1.flags = isIntKey d.flags ∧
      (if lastSynced < e.lastTxn then
        ∀ k, captureSpec (captureCfg (e.lastTxn + 1) now cutoff) (get (isIntKey d.flags) d.kvs k)
          (get (isIntKey d.flags) (shadowOf ⟨e.dbis, false⟩ n d).kvs k) = .ok (get (isIntKey d.flags) sd1.kvs k)
       else findDbi e.dbis (shadowName n) = some sd1) ∧
      findDbi r.env.dbis (shadowName n) = some { sd1 with kvs := kvs2 } ∧
      findDbi r.env.dbis n = some { d with kvs := kvs3 } ∧
      Sorted (isIntKey d.flags) kvs2 ∧ DKeysOK kvs2 ∧ Sorted (isIntKey d.flags) kvs3 ∧ DKeysOK kvs3 ∧
      (∀ k, get (isIntKey d.flags) kvs3 k = (get (isIntKey d.flags) kvs2 k).bind projVal) ∧
      (∀ p ∈ kvs2, ∃ hd v, Header.parse p.2 = .ok (hd, v)) ∧
      (∀ k, (∀ m ∈ snap.dbs, isPrivate m.name = false → m.name = n →
          KeepAll (loadCfg c snap (e.lastTxn + 1) cutoff) (isIntKey d.flags) k
            (get (isIntKey d.flags) sd1.kvs k) m.entries) →
        get (isIntKey d.flags) kvs2 k = get (isIntKey d.flags) sd1.kvs k) := by
  obtain ⟨w1, w2, w3, h1, h2, h3, henv, _, _⟩ := loadOnce_shadow_ok hn h
  -- phase 1: capture
  have ph1 : ∃ sd1, DistinctNames w1.dbis ∧ findDbi w1.dbis n = some d ∧
      findDbi w1.dbis (shadowName n) = some sd1 ∧
      sd1.flags = (shadowOf ⟨e.dbis, false⟩ n d).flags ∧ sd1.name = shadowName n ∧
      isIntKey sd1.flags = isIntKey d.flags ∧
      Sorted (isIntKey d.flags) sd1.kvs ∧ DKeysOK sd1.kvs ∧
      (if lastSynced < e.lastTxn then
        ∀ k, captureSpec (captureCfg (e.lastTxn + 1) now cutoff) (get (isIntKey d.flags) d.kvs k)
          (get (isIntKey d.flags) (shadowOf ⟨e.dbis, false⟩ n d).kvs k) = .ok (get (isIntKey d.flags) sd1.kvs k)
       else findDbi e.dbis (shadowName n) = some sd1) := by
    have hik : isIntKey (shadowOf ⟨e.dbis, false⟩ n d).flags = isIntKey d.flags ∧
        Sorted (isIntKey d.flags) (shadowOf ⟨e.dbis, false⟩ n d).kvs ∧ DKeysOK (shadowOf ⟨e.dbis, false⟩ n d).kvs := by
      cases hs : findDbi e.dbis (shadowName n) with
      | none =>
        obtain ⟨a, b⟩ := shadowOf_isIntKey_new (w := ⟨e.dbis, false⟩) (n := n) (d := d) hs
        rw [b]
        exact ⟨a, sorted_nil _, fun p hp => by cases hp⟩
      | some sd =>
        rw [shadowOf_of_some (w := ⟨e.dbis, false⟩) (d := d) hs]
        exact hsh sd hs
    by_cases hl : lastSynced < e.lastTxn
    · rw [if_pos hl] at h1
      obtain ⟨kvs', hf, hrest⟩ := mainToShadow_nondup (w := ⟨e.dbis, false⟩) hdist h1 hp hd hnd
      rw [hik.1] at hrest
      obtain ⟨hS', hK', hget⟩ := hrest hA hAK hik.2.1 hik.2.2
      refine ⟨_, (mainToShadow_frame h1).1 hdist, ?_, hf, rfl, ?_, hik.1, hS', hK', ?_⟩
      · rw [mainToShadow_app_unchanged h1 n hp]; exact hd
      · simp only
        unfold shadowOf
        cases hs : findDbi e.dbis (shadowName n) with
        | none => rfl
        | some sd => exact findDbi_name hs
      · rw [if_pos hl]; exact hget
    · rw [if_neg hl] at h1
      subst h1
      have := hex hl
      cases hs : findDbi e.dbis (shadowName n) with
      | none => rw [hs] at this; cases this
      | some sd =>
        have hsd := shadowOf_of_some (w := ⟨e.dbis, false⟩) (d := d) hs
        rw [hsd] at hik
        refine ⟨sd, hdist, hd, rfl, by rw [hsd], findDbi_name hs, hik.1, hik.2.1, hik.2.2, ?_⟩
        rw [if_neg hl]
  obtain ⟨sd1, hdist1, hd1, hsd1, hfl, hnm, hik, hS1, hK1, hcap⟩ := ph1
  -- phase 2: merge of the snapshot into the shadow
  obtain ⟨hd2, kvs2, hsd2, hS2, hK2, hkeep⟩ :=
    loadFold_shadow_track hn hp snap.dbs h2 hd1 hsd1 (by rw [hik]; exact hS1) hK1
  rw [hik] at hS2 hkeep
  have hdist2 := loadFold_distinct_shadow hn h2 hdist1
  -- phase 3: projection
  obtain ⟨sd2, kvs3, hsd2', hd3, hparse, hproj⟩ := shadowToMain_nondup hdist2 h3 hp hd2 hnd
  rw [hsd2] at hsd2'; injection hsd2' with hsd2'; subst hsd2'
  obtain ⟨hS3, hK3, hget3⟩ := hproj hA hAK hS2 hK2
  have hpriv := (shadowToMain_frame h3).2.2 (shadowName n) (isPrivate_shadowName n)
  refine ⟨sd1, kvs2, kvs3, hfl, hnm, hik, hcap, ?_, ?_, hS2, hK2, hS3, hK3, hget3, hparse, hkeep⟩
  · rw [henv]; simp only [commit]; rw [hpriv]; exact hsd2
  · rw [henv]; simp only [commit]; exact hd3

end Ls.Txn
