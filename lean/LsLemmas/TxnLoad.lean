import LsLemmas.TxnDbis
import LsLemmas.TxnSend
import LsLemmas.MergeRefine
import LsLemmas.Strategy
/-
  Lemmas about `Txn.loadDbi` / `Txn.loadOnce` (C18).
-/
namespace Ls.Txn
open Ls Ls.Lmdb Ls.Strategy Ls.Merge

/-! ### the version gate and the transform table -/

theorem versionOk_false_iff (fv cv : Nat) :
    versionOk fv cv = false ↔
      fv = 0 ∨ cv > Gen.currentFormatVersion ∨ fv < Gen.compatFormatVersion := by
  unfold versionOk
  simp only [Bool.and_eq_false_iff, decide_eq_false_iff_not, ne_eq, Decidable.not_not]
  omega

theorem versionOk_true_iff (fv cv : Nat) :
    versionOk fv cv = true ↔
      fv ≠ 0 ∧ cv ≤ Gen.currentFormatVersion ∧ Gen.compatFormatVersion ≤ fv := by
  unfold versionOk
  simp only [Bool.and_eq_true, decide_eq_true_eq, and_assoc]

/-- the duplicate-keys bit is below 2^64: the `uint` conversion does not affect it -/
theorem isDupSort_mod (n : Nat) : isDupSort (n % 2 ^ 64) = isDupSort n := by
  unfold isDupSort
  rw [← Nat.and_two_pow_sub_one_eq_mod, Nat.and_assoc]
  have : (2 ^ 64 - 1) &&& Gen.dbiDupSort = Gen.dbiDupSort := by decide
  rw [this]

theorem validateTransform_iff (m : DbiMsg) (fv : Nat) (native : Bool) :
    validateTransform m fv native = true ↔
      transformSupported m.transform = true ∧ (native = true → m.transform = []) ∧
      (fv ≥ 3 → (isDupSort m.flags = true ↔ m.transform = strBytes Gen.transformDupSortHackV1)) := by
  unfold validateTransform
  rw [isDupSort_mod]
  by_cases h1 : transformSupported m.transform = true
  · by_cases h2 : native = true ∧ m.transform ≠ []
    · simp [h1, h2]
    · by_cases h3 : fv ≥ 3
      · have h2' : native = true → m.transform = [] := by
          intro hn; exact Classical.not_not.mp (fun hne => h2 ⟨hn, hne⟩)
        simp only [h1, h2, h3, not_true_eq_false, if_false, if_true, true_and, true_implies]
        by_cases h4 : isDupSort m.flags = true <;>
          by_cases h5 : m.transform = strBytes Gen.transformDupSortHackV1 <;> simp [h4, h5] <;>
          first | exact h2' | (rw [← h5]; exact h2')
      · have h2' : native = true → m.transform = [] := by
          intro hn; exact Classical.not_not.mp (fun hne => h2 ⟨hn, hne⟩)
        simp [h1, h2, h3]
        exact h2'
  · simp [h1]

/-! ### `loadDbi` in phases -/

/-- the DBI a message is merged into -/
def targetName (c : Cfg) (m : DbiMsg) : Bytes := if c.native then m.name else shadowName m.name

/-- phase 1 of `loadDbi`: make sure the application DBI and the merge target exist -/
def createDbis (c : Cfg) (snap : Snap) (w : W) (m : DbiMsg) : Except Err W :=
  if c.native then .ok (openCreate w m.name (createFlags c m))
  else match findDbi w.dbis m.name with
    | some _ =>
      .ok (openCreate w (shadowName m.name) (createFlags c m &&& Gen.allowedShadowDBIFlagsMask))
    | none =>
      if snap.fv < 3 ∧ (ovrOf c m).isNone = true then .error .createUnsafe
      else .ok (openCreate (openCreate w m.name (createFlags c m)) (shadowName m.name)
                  (createFlags c m &&& Gen.allowedShadowDBIFlagsMask))

/-- phase 2 of `loadDbi`: the version gate of `NewNativeIterator`, then `strategy.Update` -/
def mergeDbi (c : Cfg) (snap : Snap) (txnID cutoff : Nat) (w : W) (m : DbiMsg) : Except Err W :=
  match findDbi w.dbis (targetName c m) with
  | none => .error .dbiMissing
  | some td =>
    if versionOk snap.fv snap.cv = false then .error .version
    else runOn w (targetName c m) fun s =>
      mapStratErr (update (isIntKey td.flags)
        (nativeIter { fv := snap.fv, defTs := 0, txn := txnID, cutoff := cutoff, pad := c.pad })
        s m.entries)

/-- `loadDbi` = private skip, transform check, DBI creation, version gate, merge -/
theorem loadDbi_eq (c : Cfg) (snap : Snap) (txnID cutoff : Nat) (w : W) (m : DbiMsg) :
    loadDbi c snap txnID cutoff w m =
      if isPrivate m.name = true then .ok w
      else if validateTransform m snap.fv c.native = false then .error .transform
      else match createDbis c snap w m with
        | .error err => .error err
        | .ok w1 => mergeDbi c snap txnID cutoff w1 m := by
  unfold loadDbi
  by_cases hp : isPrivate m.name = true
  · simp [hp]; rfl
  · by_cases hv : validateTransform m snap.fv c.native = true
    · simp only [hp, hv, if_false, not_true_eq_false, Bool.true_eq_false]
      unfold createDbis mergeDbi targetName createFlags ovrOf
      cases hn : c.native
      · simp only [Bool.false_eq_true, if_false, bind, Except.bind, pure, Except.pure]
        cases hf : findDbi w.dbis m.name with
        | some d =>
          simp only
          cases hs : findDbi w.dbis (shadowName m.name) with
          | some sd =>
            simp only [openCreate_of_some hs, hs]
            cases versionOk snap.fv snap.cv <;> rfl
          | none =>
            simp only
            generalize openCreate w (shadowName m.name) _ = w1
            cases findDbi w1.dbis (shadowName m.name) with
            | none => rfl
            | some td => cases versionOk snap.fv snap.cv <;> rfl
        | none =>
          simp only
          by_cases hcu : snap.fv < 3 ∧
              (Option.map (fun x => x.snd) (List.find? (fun x => decide (x.fst = m.name)) c.override)).isNone = true
          · simp only [hcu, and_self, if_true]; rfl
          · simp only [hcu, if_false]
            generalize openCreate w m.name _ = w0
            cases hs : findDbi w0.dbis (shadowName m.name) with
            | some sd =>
              simp only [openCreate_of_some hs, hs]
              cases versionOk snap.fv snap.cv <;> rfl
            | none =>
              simp only
              generalize openCreate w0 (shadowName m.name) _ = w1
              cases findDbi w1.dbis (shadowName m.name) with
              | none => rfl
              | some td => cases versionOk snap.fv snap.cv <;> rfl
      · simp only [if_true, bind, Except.bind, pure, Except.pure]
        cases hs : findDbi w.dbis m.name with
        | some sd =>
          simp only [openCreate_of_some hs, hs]
          cases versionOk snap.fv snap.cv <;> rfl
        | none =>
          simp only
          generalize openCreate w m.name _ = w1
          cases findDbi w1.dbis m.name with
          | none => rfl
          | some td => cases versionOk snap.fv snap.cv <;> rfl
    · simp only [Bool.not_eq_true] at hv
      simp [hp, hv]; rfl


/-! ### consequences of the phase decomposition -/

theorem mergeDbi_ok {c : Cfg} {snap : Snap} {txnID cutoff : Nat} {w w' : W} {m : DbiMsg}
    (h : mergeDbi c snap txnID cutoff w m = .ok w') :
    versionOk snap.fv snap.cv = true ∧
    ∃ td s, findDbi w.dbis (targetName c m) = some td ∧
      mapStratErr (update (isIntKey td.flags)
        (nativeIter { fv := snap.fv, defTs := 0, txn := txnID, cutoff := cutoff, pad := c.pad })
        { db := td.kvs, dirty := w.dirty } m.entries) = .ok s ∧
      w' = { dbis := setKvs w.dbis (targetName c m) s.db, dirty := s.dirty } := by
  unfold mergeDbi at h
  split at h
  · cases h
  · rename_i td htd
    split at h
    · cases h
    · rename_i hv
      obtain ⟨d, s, hd, hs, hw⟩ := runOn_ok h
      rw [htd] at hd; injection hd with hd; subst hd
      exact ⟨by simpa using hv, td, s, htd, hs, hw⟩

/-- a successful `loadDbi` of a non-private message went through all phases -/
theorem loadDbi_ok {c : Cfg} {snap : Snap} {txnID cutoff : Nat} {w w' : W} {m : DbiMsg}
    (hp : isPrivate m.name = false) (h : loadDbi c snap txnID cutoff w m = .ok w') :
    validateTransform m snap.fv c.native = true ∧
    ∃ w1, createDbis c snap w m = .ok w1 ∧ mergeDbi c snap txnID cutoff w1 m = .ok w' := by
  rw [loadDbi_eq] at h
  simp only [hp, Bool.false_eq_true, if_false] at h
  split at h
  · cases h
  · rename_i hv
    split at h
    · cases h
    · rename_i w1 hw1
      exact ⟨by simpa using hv, w1, hw1, h⟩

theorem createDbis_sorted {c : Cfg} {snap : Snap} {w w1 : W} {m : DbiMsg}
    (hs : SortedNames w.dbis) (h : createDbis c snap w m = .ok w1) : SortedNames w1.dbis := by
  unfold createDbis at h
  split at h
  · injection h with h; subst h; exact sortedNames_openCreate _ _ hs
  · split at h
    · injection h with h; subst h; exact sortedNames_openCreate _ _ hs
    · split at h
      · cases h
      · injection h with h; subst h
        exact sortedNames_openCreate _ _ (sortedNames_openCreate _ _ hs)

/-- `loadDbi` keeps the DBI list well-formed -/
theorem loadDbi_sorted {c : Cfg} {snap : Snap} {txnID cutoff : Nat} {w w' : W} {m : DbiMsg}
    (hs : SortedNames w.dbis) (h : loadDbi c snap txnID cutoff w m = .ok w') :
    SortedNames w'.dbis := by
  cases hp : isPrivate m.name with
  | true => rw [loadDbi_private hp] at h; injection h with h; subst h; exact hs
  | false =>
    obtain ⟨_, w1, h1, h2⟩ := loadDbi_ok hp h
    obtain ⟨_, td, s, _, _, rfl⟩ := mergeDbi_ok h2
    exact sortedNames_setKvs _ _ (createDbis_sorted hs h1)

/-! ### the loop over the snapshot's DBI messages -/

theorem foldlM_cons_ok {ε α β} {f : β → α → Except ε β} {a : α} {l : List α} {b b' : β}
    (h : (a :: l).foldlM f b = .ok b') : ∃ b1, f b a = .ok b1 ∧ l.foldlM f b1 = .ok b' := by
  rw [List.foldlM_cons] at h
  exact except_bind_ok h

/-- a successful loop means every non-private message passed both gates -/
theorem loadFold_gates {c : Cfg} {snap : Snap} {txnID cutoff : Nat} :
    ∀ (dbs : List DbiMsg) (w w' : W), dbs.foldlM (loadDbi c snap txnID cutoff) w = .ok w' →
      ∀ m ∈ dbs, isPrivate m.name = false →
        validateTransform m snap.fv c.native = true ∧ versionOk snap.fv snap.cv = true := by
  intro dbs
  induction dbs with
  | nil => intro _ _ _ m hm; cases hm
  | cons x rest ih =>
    intro w w' h m hm hp
    obtain ⟨w1, hx, hrest⟩ := foldlM_cons_ok h
    rcases List.mem_cons.mp hm with hm | hm
    · subst hm
      obtain ⟨hv, w2, _, h2⟩ := loadDbi_ok hp hx
      exact ⟨hv, (mergeDbi_ok h2).1⟩
    · exact ih w1 w' hrest m hm hp

/-- a loop over private messages only does nothing -/
theorem loadFold_private {c : Cfg} {snap : Snap} {txnID cutoff : Nat} :
    ∀ (dbs : List DbiMsg) (w : W), (∀ m ∈ dbs, isPrivate m.name = true) →
      dbs.foldlM (loadDbi c snap txnID cutoff) w = .ok w := by
  intro dbs
  induction dbs with
  | nil => intro w _; rfl
  | cons x rest ih =>
    intro w h
    rw [List.foldlM_cons, loadDbi_private (h x (by simp))]
    exact ih w (fun m hm => h m (by simp [hm]))

theorem loadFold_sorted {c : Cfg} {snap : Snap} {txnID cutoff : Nat} {dbs : List DbiMsg} {w w' : W}
    (hs : SortedNames w.dbis) (h : dbs.foldlM (loadDbi c snap txnID cutoff) w = .ok w') :
    SortedNames w'.dbis :=
  foldlM_invariant (fun w => SortedNames w.dbis) _ (fun _ _ _ hb hf => loadDbi_sorted hb hf) _ _ _ hs h

/-! ### `loadOnce` -/

/-- the state the snapshot is merged into: after `mainToShadow` when the schema is not native
    and the application has written since the last sync, else the environment as it is -/
def preLoad (c : Cfg) (e : Env) (lastSynced now cutoff : Nat) : Except Err W :=
  if c.native = false ∧ lastSynced < e.lastTxn then
    mainToShadow c { dbis := e.dbis, dirty := false } (e.lastTxn + 1) now cutoff
  else .ok { dbis := e.dbis, dirty := false }

/-- the step after the merge -/
def postLoad (c : Cfg) (w : W) : Except Err W := if c.native then .ok w else shadowToMain c w

/-- `loadOnce` in closed form -/
theorem loadOnce_eq (c : Cfg) (e : Env) (snap : Snap) (lastSynced now cutoff : Nat) :
    loadOnce c e snap lastSynced now cutoff =
      match preLoad c e lastSynced now cutoff with
      | .error err => .error err
      | .ok w0 =>
        match snap.dbs.foldlM (loadDbi c snap (e.lastTxn + 1) cutoff) w0 with
        | .error err => .error err
        | .ok w1 =>
          match postLoad c w1 with
          | .error err => .error err
          | .ok w2 =>
            .ok { env := commit e w2, txnID := (commit e w2).lastTxn,
                  localChanged := decide (lastSynced < e.lastTxn) } := by
  unfold loadOnce preLoad postLoad
  simp only [Nat.add_sub_cancel, commit_lastTxn_min, bind, Except.bind, pure, Except.pure]
  cases c.native
  · simp only [Bool.false_eq_true, not_false_eq_true, true_and, if_false]
    by_cases hl : lastSynced < e.lastTxn
    · simp only [hl, if_true]
      cases mainToShadow c { dbis := e.dbis, dirty := false } (e.lastTxn + 1) now cutoff with
      | error err => rfl
      | ok w0 =>
        simp only
        cases List.foldlM (loadDbi c snap (e.lastTxn + 1) cutoff) w0 snap.dbs with
        | error err => rfl
        | ok w1 => simp only; cases shadowToMain c w1 <;> rfl
    · simp only [hl, if_false]
      cases List.foldlM (loadDbi c snap (e.lastTxn + 1) cutoff) _ snap.dbs with
      | error err => rfl
      | ok w1 => simp only; cases shadowToMain c w1 <;> rfl
  · simp only [not_true_eq_false, false_and, if_false, Bool.true_eq_false]
    cases List.foldlM (loadDbi c snap (e.lastTxn + 1) cutoff) _ snap.dbs with
    | error err => rfl
    | ok w1 => rfl


/-! ### which DBIs exist, with which flags, after `loadDbi` -/

/-- a new, empty DBI -/
def newDbi (name : Bytes) (flags : Nat) : Dbi := { name := name, flags := flags, kvs := [] }

/-- the flags a missing shadow DBI is created with -/
def shadowCreateFlags (c : Cfg) (m : DbiMsg) : Nat := createFlags c m &&& Gen.allowedShadowDBIFlagsMask

/-- is creating the application DBI refused? (shadow mode, DBI missing, pre-v3 snapshot, no override) -/
def createRefused (c : Cfg) (snap : Snap) (w : W) (m : DbiMsg) : Prop :=
  c.native = false ∧ findDbi w.dbis m.name = none ∧ snap.fv < 3 ∧ ovrOf c m = none

/-- `createDbis` in one line per mode -/
theorem createDbis_eq (c : Cfg) (snap : Snap) (w : W) (m : DbiMsg) :
    createDbis c snap w m =
      if c.native = true then .ok (openCreate w m.name (createFlags c m))
      else if findDbi w.dbis m.name = none ∧ snap.fv < 3 ∧ ovrOf c m = none then .error .createUnsafe
      else .ok (openCreate (openCreate w m.name (createFlags c m)) (shadowName m.name)
                  (shadowCreateFlags c m)) := by
  unfold createDbis shadowCreateFlags
  cases hn : c.native
  · simp only [Bool.false_eq_true, if_false]
    cases hf : findDbi w.dbis m.name with
    | some d => simp only [openCreate_of_some hf]; simp
    | none =>
      simp only [true_and, Option.isNone_iff_eq_none]
  · simp

/-- the lookup table after phase 1 -/
theorem createDbis_lookup {c : Cfg} {snap : Snap} {w w1 : W} {m : DbiMsg}
    (h : createDbis c snap w m = .ok w1) (n : Bytes) :
    findDbi w1.dbis n =
      if c.native = true then
        (if n = m.name then some ((findDbi w.dbis m.name).getD (newDbi m.name (createFlags c m)))
         else findDbi w.dbis n)
      else
        (if n = shadowName m.name then
           some ((findDbi w.dbis (shadowName m.name)).getD
             (newDbi (shadowName m.name) (shadowCreateFlags c m)))
         else if n = m.name then some ((findDbi w.dbis m.name).getD (newDbi m.name (createFlags c m)))
         else findDbi w.dbis n) := by
  rw [createDbis_eq] at h
  cases hn : c.native
  · simp only [hn, Bool.false_eq_true, if_false] at h ⊢
    split at h
    · cases h
    · injection h with h; subst h
      rw [findDbi_openCreate]
      by_cases h1 : n = shadowName m.name
      · subst h1
        simp only [if_true]
        rw [findDbi_openCreate, if_neg (shadowName_ne m.name)]
        rfl
      · simp only [h1, if_false]
        rw [findDbi_openCreate]
        rfl
  · simp only [hn, if_true] at h ⊢
    injection h with h; subst h
    exact findDbi_openCreate _ _ _ _

/-- the lookup table after `loadDbi`: phase 1's table with the merge target's content replaced -/
theorem loadDbi_lookup {c : Cfg} {snap : Snap} {txnID cutoff : Nat} {w w' : W} {m : DbiMsg}
    (hp : isPrivate m.name = false) (h : loadDbi c snap txnID cutoff w m = .ok w') :
    ∃ w1 kvs, createDbis c snap w m = .ok w1 ∧
      ∀ n, findDbi w'.dbis n =
        (findDbi w1.dbis n).map (fun d => if d.name = targetName c m then { d with kvs := kvs } else d) := by
  obtain ⟨_, w1, h1, h2⟩ := loadDbi_ok hp h
  obtain ⟨_, td, s, _, _, rfl⟩ := mergeDbi_ok h2
  exact ⟨w1, s.db, h1, fun n => findDbi_setKvs _ _ _ _⟩

/-! ### one step of the merge loop on an absent key -/

/-- an entry whose key is not stored and which is not a stale deletion marker is written as
    `addHeader` builds it -/
theorem updStep_absent (ik : Bool) (mc : Merge.Cfg) (s : S) (e : KV)
    (hk : badKey e.key = false) (habs : get ik s.db e.key = none) (hst : ¬ stale mc e) :
    updStep ik (nativeIter mc) s e =
      .ok { db := put ik s.db e.key (addHeader mc e.val e.ts (maskedFlags e)), dirty := true } := by
  have hk0 : ¬ e.key.length = 0 := by
    intro h0; simp [badKey, h0] at hk
  unfold updStep
  simp only [nativeIter, hk0, if_false, habs, Option.getD_none, merge_absent]
  unfold stale at hst
  simp only [hst, if_false, liftIter, bind, Except.bind, setNewVal, addHeader_length_pos]
  have hne : ¬ addHeader mc e.val e.ts (maskedFlags e) = [] := by
    intro h0
    exact addHeader_length_pos mc e.val e.ts (maskedFlags e) (by rw [h0]; rfl)
  simp only [hne, if_false, putS, hk]
  rfl

/-- a stale deletion marker for an absent key is dropped -/
theorem updStep_absent_stale (ik : Bool) (mc : Merge.Cfg) (s : S) (e : KV)
    (hk : e.key.length ≠ 0) (habs : get ik s.db e.key = none) (hst : stale mc e) :
    updStep ik (nativeIter mc) s e = .ok s := by
  unfold updStep
  simp only [nativeIter, hk, if_false, habs, Option.getD_none, merge_absent]
  unfold stale at hst
  simp only [hst, and_self, if_true, liftIter, bind, Except.bind, setNewVal]
  rw [delS_eq]
  simp [del_of_get_none habs, del_snd, habs]

end Ls.Txn
