import LsLemmas.CivilTableDefs
/- civil-date table, rows 96000 … 103999 (kernel evaluation; see CivilTableDefs) -/
namespace Ls.Civil

theorem chunk12 : chunkOK 96000 8000 = true := by decide +kernel

end Ls.Civil
