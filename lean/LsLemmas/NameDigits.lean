import LsModel.Name
/- fixed-width decimal fields: length, reading back, byte order = numeric order; lexicographic
   order of concatenations of equal-length pieces. Core only. -/
namespace Ls.Name
open Ls

/-! ### lexicographic order on byte strings -/

theorem u8_lt_irrefl (a : UInt8) : ¬ a < a := by
  simp

theorem bytes_lt_irrefl (a : Bytes) : ¬ a < a := by
  induction a with
  | nil => simp
  | cons c a ih => simp [ih]

theorem bytes_lt_asymm (a b : Bytes) : a < b → ¬ b < a := by
  induction a generalizing b with
  | nil => cases b <;> simp
  | cons c a ih =>
    cases b with
    | nil => simp
    | cons d b =>
      simp only [List.cons_lt_cons_iff]
      rintro (h | ⟨rfl, h⟩) (h' | ⟨h', h''⟩)
      · simp [UInt8.lt_iff_toNat_lt] at h h'; omega
      · subst h'; exact u8_lt_irrefl _ h
      · exact u8_lt_irrefl _ h'
      · exact ih b h h''

/-- a common prefix does not matter -/
theorem prefix_lt_iff (p a b : Bytes) : p ++ a < p ++ b ↔ a < b := by
  induction p with
  | nil => simp
  | cons c p ih => simp [ih]

/-- pieces of equal length compare first -/
theorem append_lt_append_iff (a a' x y : Bytes) (h : a.length = a'.length) :
    a ++ x < a' ++ y ↔ a < a' ∨ (a = a' ∧ x < y) := by
  induction a generalizing a' with
  | nil =>
    cases a' with
    | nil => simp
    | cons _ _ => simp at h
  | cons c a ih =>
    cases a' with
    | nil => simp at h
    | cons c' a' =>
      have hl : a.length = a'.length := by simpa using h
      simp only [List.cons_append, List.cons_lt_cons_iff, ih a' hl, List.cons.injEq]
      clear h hl ih
      constructor
      · rintro (h1 | ⟨rfl, h1 | ⟨rfl, h1⟩⟩)
        · exact .inl (.inl h1)
        · exact .inl (.inr ⟨rfl, h1⟩)
        · exact .inr ⟨⟨rfl, rfl⟩, h1⟩
      · rintro ((h1 | ⟨rfl, h1⟩) | ⟨⟨rfl, rfl⟩, h1⟩)
        · exact .inl h1
        · exact .inr ⟨rfl, .inl h1⟩
        · exact .inr ⟨rfl, .inr ⟨rfl, h1⟩⟩

/-! ### decimal fields -/

/-- the ASCII digit of `r` -/
def dg (r : Nat) : UInt8 := UInt8.ofNat (48 + r % 10)

theorem decDigits_succ (k n : Nat) : decDigits (k + 1) n = decDigits k (n / 10) ++ [dg n] := rfl

@[simp] theorem decDigits_length (k n : Nat) : (decDigits k n).length = k := by
  induction k generalizing n with
  | zero => rfl
  | succ k ih => simp [decDigits, ih]

theorem dg_toNat (r : Nat) : (dg r).toNat = 48 + r % 10 := by
  unfold dg
  rw [UInt8.toNat_ofNat']
  have : r % 10 < 10 := Nat.mod_lt _ (by decide)
  omega

theorem isDigit_iff (c : UInt8) : isDigit c = true ↔ 48 ≤ c.toNat ∧ c.toNat ≤ 57 := by
  simp [isDigit, UInt8.le_iff_toNat_le]

theorem isDigit_dg (r : Nat) : isDigit (dg r) = true := by
  rw [isDigit_iff, dg_toNat]
  have : r % 10 < 10 := Nat.mod_lt _ (by decide)
  omega

theorem dg_lt_iff (a b : Nat) : dg a < dg b ↔ a % 10 < b % 10 := by
  rw [UInt8.lt_iff_toNat_lt, dg_toNat, dg_toNat]; omega

theorem dg_eq_iff (a b : Nat) : dg a = dg b ↔ a % 10 = b % 10 := by
  constructor
  · intro h
    have := congrArg UInt8.toNat h
    rw [dg_toNat, dg_toNat] at this; omega
  · intro h; unfold dg; rw [h]

theorem decDigits_all_digit (k n : Nat) : ∀ c ∈ decDigits k n, isDigit c = true := by
  induction k generalizing n with
  | zero => intro c h; simp [decDigits] at h
  | succ k ih =>
    intro c h
    rw [decDigits_succ, List.mem_append] at h
    rcases h with h | h
    · exact ih _ c h
    · simp at h; subst h; exact isDigit_dg n

theorem pow_split_mod (n k : Nat) : n % 10 ^ (k + 1) = n % 10 + 10 * (n / 10 % 10 ^ k) := by
  rw [Nat.pow_succ, Nat.mul_comm (10 ^ k) 10, Nat.mod_mul]

theorem pow_split_mul (a k : Nat) : a * 10 ^ (k + 1) = a * 10 ^ k * 10 := by
  rw [Nat.pow_succ, Nat.mul_assoc]

theorem digitsAux_append (acc : Nat) (a b : Bytes) :
    digitsAux acc (a ++ b) = (digitsAux acc a).bind (fun x => digitsAux x b) := by
  induction a generalizing acc with
  | nil => simp [digitsAux]
  | cons c a ih =>
    simp only [List.cons_append, digitsAux]
    split
    · exact ih _
    · rfl

theorem digitsAux_decDigits (k acc n : Nat) :
    digitsAux acc (decDigits k n) = some (acc * 10 ^ k + n % 10 ^ k) := by
  induction k generalizing n with
  | zero => simp [decDigits, digitsAux, Nat.mod_one]
  | succ k ih =>
    rw [decDigits_succ, digitsAux_append, ih]
    simp only [Option.bind_some, digitsAux, isDigit_dg, if_true, dg_toNat]
    congr 1
    rw [pow_split_mod n k, pow_split_mul acc k]
    generalize n / 10 % 10 ^ k = q
    generalize acc * 10 ^ k = p
    omega

theorem digits_decDigits (k n : Nat) (h : n < 10 ^ k) : digits (decDigits k n) = some n := by
  unfold digits; rw [digitsAux_decDigits, Nat.mod_eq_of_lt h]; simp

theorem takeDigits_succ' (k acc : Nat) (s : Bytes) :
    takeDigits (k + 1) acc s = (takeDigits k acc s).bind (fun p => takeDigits 1 p.1 p.2) := by
  induction k generalizing acc s with
  | zero => simp [takeDigits]
  | succ k ih =>
    cases s with
    | nil => simp [takeDigits]
    | cons c s =>
      rw [takeDigits]
      split
      · rw [ih]; simp [takeDigits, *]
      · simp [takeDigits, *]

theorem takeDigits_decDigits (k acc n : Nat) (rest : Bytes) :
    takeDigits k acc (decDigits k n ++ rest) = some (acc * 10 ^ k + n % 10 ^ k, rest) := by
  induction k generalizing n rest with
  | zero => simp [decDigits, takeDigits, Nat.mod_one]
  | succ k ih =>
    rw [takeDigits_succ', decDigits_succ, List.append_assoc, ih]
    simp only [Option.bind_some, List.singleton_append, takeDigits, isDigit_dg, if_true, dg_toNat]
    congr 2
    rw [pow_split_mod n k, pow_split_mul acc k]
    generalize n / 10 % 10 ^ k = q
    generalize acc * 10 ^ k = p
    omega

theorem takeDigits_field (k n : Nat) (rest : Bytes) (h : n < 10 ^ k) :
    takeDigits k 0 (decDigits k n ++ rest) = some (n, rest) := by
  rw [takeDigits_decDigits, Nat.mod_eq_of_lt h]; simp

/-- equal width: byte order is numeric order -/
theorem decDigits_lt_iff (k n m : Nat) (hn : n < 10 ^ k) (hm : m < 10 ^ k) :
    decDigits k n < decDigits k m ↔ n < m := by
  induction k generalizing n m with
  | zero => simp at hn hm; subst hn; subst hm; simp [decDigits]
  | succ k ih =>
    have hn' : n / 10 < 10 ^ k := by rw [Nat.pow_succ] at hn; omega
    have hm' : m / 10 < 10 ^ k := by rw [Nat.pow_succ] at hm; omega
    rw [decDigits_succ, decDigits_succ, append_lt_append_iff _ _ _ _ (by simp), ih _ _ hn' hm']
    have heq : decDigits k (n / 10) = decDigits k (m / 10) ↔ n / 10 = m / 10 := by
      constructor
      · intro h
        have h1 := digits_decDigits k _ hn'
        have h2 := digits_decDigits k _ hm'
        rw [h] at h1; rw [h1] at h2; exact Option.some.inj h2
      · intro h; rw [h]
    rw [heq]
    have hs : [dg n] < [dg m] ↔ n % 10 < m % 10 := by
      simp [List.cons_lt_cons_iff, dg_lt_iff]
    rw [hs]; omega

theorem decDigits_inj (k n m : Nat) (hn : n < 10 ^ k) (hm : m < 10 ^ k) :
    decDigits k n = decDigits k m ↔ n = m := by
  constructor
  · intro h
    have h1 := digits_decDigits k _ hn
    have h2 := digits_decDigits k _ hm
    rw [h] at h1; rw [h1] at h2; exact Option.some.inj h2
  · intro h; rw [h]

/-- adjacent fields read as one wider field -/
theorem decDigits_concat (a b x r : Nat) (hr : r < 10 ^ b) :
    decDigits a x ++ decDigits b r = decDigits (a + b) (x * 10 ^ b + r) := by
  induction b generalizing r with
  | zero => simp at hr; subst hr; simp [decDigits]
  | succ b ih =>
    have hr' : r / 10 < 10 ^ b := by rw [Nat.pow_succ] at hr; omega
    rw [decDigits_succ, ← List.append_assoc, ih _ hr', ← Nat.add_assoc, decDigits_succ]
    have h1 : (x * 10 ^ (b + 1) + r) / 10 = x * 10 ^ b + r / 10 := by
      rw [Nat.pow_succ, ← Nat.mul_assoc]; generalize x * 10 ^ b = q; omega
    have h2 : dg (x * 10 ^ (b + 1) + r) = dg r := by
      rw [dg_eq_iff, Nat.pow_succ, ← Nat.mul_assoc]; generalize x * 10 ^ b = q; omega
    rw [h1, h2]

end Ls.Name
