import LsLemmas.CivilTableDefs
/- civil-date table, rows 0 … 7999 (kernel evaluation; see CivilTableDefs) -/
namespace Ls.Civil

theorem chunk00 : chunkOK 0 8000 = true := by decide +kernel

end Ls.Civil
