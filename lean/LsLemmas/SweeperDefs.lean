import LsLemmas.Lmdb
import LsModel.Sweeper
/-
  Vocabulary of the C13 statements (tomb sweeper). Definitions only.
-/
namespace Ls.Sweeper
open Ls Ls.Lmdb Ls.Txn

/-- the stored value is a deletion marker older than the cut-off (what `sweep` deletes) -/
def IsExpired (cutoff : Nat) (v : Bytes) : Prop := expired cutoff v = .ok true

instance (cutoff : Nat) (v : Bytes) : Decidable (IsExpired cutoff v) :=
  match h : expired cutoff v with
  | .ok true => isTrue h
  | .ok false => isFalse (by unfold IsExpired; rw [h]; intro c; cases c)
  | .error _ => isFalse (by unfold IsExpired; rw [h]; intro c; cases c)

/-- the stored value has a header `header.Parse` accepts -/
def Parses (v : Bytes) : Prop := ∃ h rest, Header.parse v = .ok (h, rest)

/-- what the sweeper leaves in place: everything that is not an expired marker -/
def keep (cutoff : Nat) (kv : Bytes × Bytes) : Bool := !decide (IsExpired cutoff kv.2)

/-- how many entries of `todo` a slice with limit `n` examines (`none`: no limit) -/
def covered (n : Option Nat) (todo : KVs) : Nat :=
  match n with
  | none => todo.length
  | some m => min m todo.length

/-- content of the DBI `name` of an environment -/
def dbiKvs (e : Env) (name : Bytes) : Option KVs := (findDbi e.dbis name).map (·.kvs)

/-- the application's part of an environment: every DBI without the private prefix, in order -/
def appPart (e : Env) : List Dbi := e.dbis.filter (fun d => !isPrivate d.name)

/-- the slice boundaries of `passDbi … fuel e last bi`: `(i, e')` = at boundary number `i` the
    sweeper has committed `e'` and the application turns it into `app i e'` before the next slice
    starts. (Same recursion as `passDbi`, recording instead of returning.) -/
def boundaries (ik : Bool) (cutoff n : Nat) (app : Nat → Env → Env) (name : Bytes) :
    Nat → Env → Option (Bytes × Bytes) → Nat → List (Nat × Env)
  | 0, _, _, _ => []
  | fuel + 1, e, last, bi =>
    match findDbi e.dbis name with
    | none => []
    | some d =>
      match slice ik cutoff d.kvs last (some n) with
      | .error _ => []
      | .ok r =>
        let e' : Env := { dbis := setKvs e.dbis name r.db,
                          lastTxn := if r.cleaned > 0 then e.lastTxn + 1 else e.lastTxn }
        if r.limitReached then (bi, e') :: boundaries ik cutoff n app name fuel (app bi e') r.last (bi + 1)
        else []

/-- what the application does at the slice boundaries `bs` of a pass, as far as key `k` of the
    swept DBI `name` is concerned: whenever the sweeper's commit `e'` holds the (sorted) content
    `a` and the application's commit `app i e'` the content `b`, then `b` is sorted and binds `k`
    to what `a` binds it to — the application left that binding untouched -/
def Untouched (ik : Bool) (name k : Bytes) (app : Nat → Env → Env) (bs : List (Nat × Env)) : Prop :=
  ∀ i e', (i, e') ∈ bs → ∀ a b, dbiKvs e' name = some a → dbiKvs (app i e') name = some b →
    Sorted ik a → Sorted ik b ∧ get ik b k = get ik a k

/-- a condition on the application's commits as functions, for key `k` of DBI `name`: they keep
    the DBI and its flags, keep it sorted, and leave the binding of `k` untouched -/
def AppKeeps (ik : Bool) (name k : Bytes) (app : Nat → Env → Env) : Prop :=
  ∀ i e d, findDbi e.dbis name = some d →
    ∃ d', findDbi (app i e).dbis name = some d' ∧ d'.flags = d.flags ∧
      (Sorted ik d.kvs → Sorted ik d'.kvs ∧ get ik d'.kvs k = get ik d.kvs k)

end Ls.Sweeper
