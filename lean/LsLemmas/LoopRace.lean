import LsLemmas.LoopInv
/-
  The invariant that needs race-freedom (finding D9): outside the send window every application
  transaction that is not yet captured / not yet covered by a dump has an id above `lastSynced`;
  and when the loop idles, what is not covered by a dump was committed after the latest
  `beforeInfo` decision.
-/
namespace Ls.Loop
open Ls Ls.Txn Ls.SyncLoop

/-- everything not covered by a dump was committed since the latest `beforeInfo` step -/
def Fresh (gh : Gh) : Prop := ∀ p ∈ gh.unpub, p ∈ gh.sinceInfo

def PcInv1 (c : LoopCfg) (S : Nat) (w : List InstId) (gh : Gh) : Pc → Prop
  | .boot => AllGt S gh
  | .top => AllGt S gh
  | .beforeInfo => AllGt S gh
  | .sleep => AllGt S gh ∧ (c.own ∉ w → Fresh gh)
  | .loadAfterTxn t lc _ _ _ => AllGt S gh ∧ (lc = false → AllGt t gh)
  | .beforeSend => True
  | .sendAfterTxn who t _ _ => AllGt t gh ∧ (who = .loop → Fresh gh)
  | .sendStored who t => AllGt t gh ∧ (who = .loop → Fresh gh)
  | .exited _ => True

/-- **the invariant of race-free schedules** -/
def Inv1 (c : LoopCfg) (g : G) : Prop := PcInv1 c g.st.lastSynced g.st.waiting g.gh g.st.pc

theorem AllGt.mono {n n' : Nat} {gh : Gh} (h : AllGt n gh) (hn : n' ≤ n) : AllGt n' gh :=
  ⟨fun p hp => Nat.lt_of_le_of_lt hn (h.1 p hp), fun p hp => Nat.lt_of_le_of_lt hn (h.2 p hp)⟩

theorem AllGt.congr {n : Nat} {gh gh' : Gh} (h : AllGt n gh) (h1 : gh'.uncap = gh.uncap ∨ gh'.uncap = [])
    (h2 : gh'.unpub = gh.unpub ∨ gh'.unpub = []) : AllGt n gh' := by
  refine ⟨fun p hp => ?_, fun p hp => ?_⟩
  · rcases h1 with h1 | h1 <;> rw [h1] at hp
    · exact h.1 p hp
    · cases hp
  · rcases h2 with h2 | h2 <;> rw [h2] at hp
    · exact h.2 p hp
    · cases hp

/-- nothing is outstanding when `lastSynced` has caught up with `lastTxn` -/
theorem AllGt.empty {L S : Nat} {gh : Gh} (h : AllGt S gh) (hle : AllLe L gh) (hLS : L ≤ S) (n : Nat) :
    AllGt n gh ∧ Fresh gh ∧ gh.uncap = [] ∧ gh.unpub = [] := by
  have h1 : gh.uncap = [] := by
    cases hu : gh.uncap with
    | nil => rfl
    | cons a l =>
      have := h.1 a (by rw [hu]; exact List.mem_cons_self)
      have := hle.1 a (by rw [hu]; exact List.mem_cons_self)
      omega
  have h2 : gh.unpub = [] := by
    cases hu : gh.unpub with
    | nil => rfl
    | cons a l =>
      have := h.2 a (by rw [hu]; exact List.mem_cons_self)
      have := hle.2 a (by rw [hu]; exact List.mem_cons_self)
      omega
  refine ⟨⟨fun p hp => ?_, fun p hp => ?_⟩, fun p hp => ?_, h1, h2⟩
  · rw [h1] at hp; cases hp
  · rw [h2] at hp; cases hp
  · rw [h2] at hp; cases hp

theorem Inv1.init (c : LoopCfg) (env : Env) (b : Bucket) : Inv1 c (G.init env b) :=
  ⟨fun _ hp => (nomatch hp), fun _ hp => (nomatch hp)⟩

theorem allGt_app {n L : Nat} {gh : Gh} (h : AllGt n gh) (hn : n ≤ L) : AllGt n (gh.app (L + 1)) := by
  refine ⟨fun p hp => ?_, fun p hp => ?_⟩
  · rcases List.mem_cons.mp hp with rfl | hp
    · omega
    · exact h.1 p hp
  · rcases List.mem_cons.mp hp with rfl | hp
    · omega
    · exact h.2 p hp

theorem fresh_app {gh : Gh} (h : Fresh gh) (p : Nat) : Fresh (gh.app p) := by
  intro q hq
  rcases List.mem_cons.mp hq with rfl | hq
  · exact List.mem_cons_self
  · exact List.mem_cons_of_mem _ (h q hq)

/-- an application transaction outside the race window keeps the invariant -/
theorem Inv1.app {c : LoopCfg} {g : G} (h0 : Inv0 c g) (h : Inv1 c g) (ops : List AppOp)
    (hrf : ¬ (Racy g.st ∧ recorded g.st ops = true)) : Inv1 c (step c g (.app ops)) := by
  obtain ⟨hpc, hS, hw, _, _, hL⟩ := appCommit_facts g.st ops
  unfold Inv1 at h ⊢
  by_cases hr : recorded g.st ops = true
  · have hL' : (appCommit g.st ops).env.lastTxn = g.st.env.lastTxn + 1 := by
      unfold recorded at hr
      rcases hL with hL | hL
      · simp [hL] at hr
      · exact hL
    have hnr : ¬ Racy g.st := fun hh => hrf ⟨hh, hr⟩
    simp only [step, hr, if_true, hpc, hS, hw, hL']
    have hsl := h0.sync_le
    have hp0 := h0.pcinv
    unfold Racy at hnr
    revert h hp0 hnr
    cases g.st.pc <;> simp only [PcInv1, PcInv0] <;> intro h hnr hp0
    · exact allGt_app h hsl
    · exact allGt_app h hsl
    · refine ⟨allGt_app h.1 hsl, fun hlc => allGt_app (h.2 hlc) ?_⟩
      have : ¬ g.st.env.lastTxn < _ := fun hh => hnr ⟨hlc, hh⟩
      omega
    · exact allGt_app h hsl
    · trivial
    · exact ⟨allGt_app h.1 (by omega), fun hw => fresh_app (h.2 hw) _⟩
    · exact ⟨allGt_app h.1 hp0.1, fun hw => fresh_app (h.2 hw) _⟩
    · exact ⟨allGt_app h.1 hsl, fun hw => fresh_app (h.2 hw) _⟩
    · trivial
  · simp only [step, hr, hpc, hS, hw, Bool.false_eq_true, if_false]
    exact h

theorem Inv1.list {c : LoopCfg} {g : G} (h : Inv1 c g) : Inv1 c (step c g .list) := h

theorem Inv1.others {c : LoopCfg} {g : G} (h : Inv1 c g) (bs : List Blob) :
    Inv1 c (step c g (.others bs)) := h

theorem Inv1.of_raw {c : LoopCfg} {g : G} {i : In}
    (h : PcInv1 c (goRaw c g.bucket g.st i).1.lastSynced (goRaw c g.bucket g.st i).1.waiting
      (g.gh.afterGo g.bucket g.st i (goRaw c g.bucket g.st i).1.pc (goRaw c g.bucket g.st i).1.waiting)
      (goRaw c g.bucket g.st i).1.pc) :
    Inv1 c (step c g (.go i)) := by
  obtain ⟨h1, _, h3⟩ := step_go c g i
  obtain ⟨_, r2, r3, r4, _⟩ := relist_facts (goRaw c g.bucket g.st i).1 (goRaw c g.bucket g.st i).2
  unfold Inv1
  rw [h1, h3, r2, r3, r4]
  exact h

theorem loadPart_lists (gh : Gh) (b : Bucket) (s : St) (i : In) (pc' : Pc) :
    ((gh.loadPart b s i pc').uncap = gh.uncap ∨ (gh.loadPart b s i pc').uncap = []) ∧
    (gh.loadPart b s i pc').unpub = gh.unpub ∧ (gh.loadPart b s i pc').sinceInfo = gh.sinceInfo := by
  refine ⟨?_, rfl, rfl⟩
  simp only [Gh.loadPart]
  split
  · exact Or.inr rfl
  · exact Or.inl rfl

theorem load_part_inv1 {c : LoopCfg} {b : Bucket} {s s1 : St} {i : In} {gh : Gh} {n : Nat} {s' : St}
    (hgt : AllGt s1.lastSynced gh) (hle : AllLe s1.env.lastTxn gh)
    (hout : s' = afterLoads s1 ∨ PollOut c b s1 i n s') :
    PcInv1 c s'.lastSynced s'.waiting (gh.loadPart b s i s'.pc) s'.pc := by
  obtain ⟨l1, l2, l3⟩ := loadPart_lists gh b s i s'.pc
  have hgt' : ∀ k, AllGt k gh → AllGt k (gh.loadPart b s i s'.pc) :=
    fun k hk => hk.congr l1 (Or.inl l2)
  have hal : s' = afterLoads s1 → PcInv1 c s'.lastSynced s'.waiting (gh.loadPart b s i s'.pc) s'.pc := by
    intro hs
    have : s'.pc = .beforeInfo := by rw [hs]; rfl
    rw [this] at hgt' ⊢
    have : s'.lastSynced = s1.lastSynced := by rw [hs]; rfl
    rw [this]
    exact hgt' _ hgt
  rcases hout with hs | hp
  · exact hal hs
  · cases hp with
    | none hn => exact hal rfl
    | unknown inst ts hn hb => trivial
    | failed inst ts blob e hn hb hl => trivial
    | loaded inst ts blob r hn hb hl =>
      obtain ⟨hL, hlc⟩ := loadOnce_facts hl
      refine ⟨hgt' _ hgt, fun hf => hgt' _ ?_⟩
      rw [hlc] at hf
      have : s1.env.lastTxn ≤ s1.lastSynced := by simpa using hf
      exact (hgt.empty hle this _).1

theorem allGt_beginDump (n : Nat) (gh : Gh) : AllGt n gh.beginDump :=
  ⟨fun _ hp => (nomatch hp), fun _ hp => (nomatch hp)⟩

theorem fresh_beginDump (gh : Gh) : Fresh gh.beginDump := fun _ hp => (nomatch hp)

/-- back from `SendOnce` -/
theorem ret_inv1 {c : LoopCfg} {s : St} {gh : Gh} {who : Caller} {t : Nat}
    (hgt : AllGt t gh) (hfr : who = .loop → Fresh gh) :
    PcInv1 c (sendReturned c s who t).lastSynced (sendReturned c s who t).waiting gh
      (sendReturned c s who t).pc := by
  obtain ⟨_, f2, _, _, _, f6⟩ := sendReturned_facts c s who t
  rw [f2, f6]
  cases who with
  | initial => exact hgt
  | loop =>
    simp only
    split
    · trivial
    · exact ⟨hgt, fun _ => hfr rfl⟩

theorem goRaw_inv1 {c : LoopCfg} {b : Bucket} {s : St} {i : In} {gh : Gh}
    (h0 : Inv0c c s.env.lastTxn s.lastSynced s.waiting s.pc gh) (hu : s.forceArmed = false)
    (h : PcInv1 c s.lastSynced s.waiting gh s.pc) :
    PcInv1 c (goRaw c b s i).1.lastSynced (goRaw c b s i).1.waiting
      (gh.afterGo b s i (goRaw c b s i).1.pc (goRaw c b s i).1.waiting) (goRaw c b s i).1.pc := by
  obtain ⟨h1, h2, h3, _, _, _⟩ := h0
  cases hpc : s.pc with
  | exited e =>
    rw [goRaw_exited hpc, hpc]; trivial
  | sleep =>
    rw [hpc] at h
    rw [goRaw_sleep hpc]
    rw [afterGo_plain (by simp [hpc]) (by simp [hpc]) (by simp [hpc]) (by simp [hpc]) (by simp)
      (by simp)]
    exact h.1
  | sendStored who t =>
    rw [hpc] at h
    rw [goRaw_sendStored hpc]
    have f6 := sendReturned_pc c (stored s) who t
    simp only
    rw [afterGo_plain (by simp [hpc]) (by simp [hpc]) (by simp [hpc]) (by simp [hpc])
      (by rcases f6 with h | h | ⟨e, h⟩ <;> simp [h]) (by rcases f6 with h | h | ⟨e, h⟩ <;> simp [h])]
    exact ret_inv1 h.1 h.2
  | sendAfterTxn who t ts snap =>
    rw [hpc] at h
    rw [goRaw_sendAfterTxn hpc]
    have hmin : AllGt (if s.env.lastTxn < t then s.env.lastTxn else t) gh :=
      h.1.mono (by split <;> omega)
    by_cases hro : c.txn.receiveOnly = true
    · rw [if_pos hro]
      have f6 := sendReturned_pc c s who (if s.env.lastTxn < t then s.env.lastTxn else t)
      simp only
      rw [afterGo_plain (by simp [hpc]) (by simp [hpc]) (by simp [hpc]) (by simp [hpc])
        (by rcases f6 with h | h | ⟨e, h⟩ <;> simp [h]) (by rcases f6 with h | h | ⟨e, h⟩ <;> simp [h])]
      exact ret_inv1 hmin h.2
    · rw [if_neg hro]
      by_cases hf : i.fails ≥ c.retryCount
      · rw [if_pos hf]; trivial
      · rw [if_neg hf]
        simp only
        rw [afterGo_store hpc]
        exact ⟨hmin.congr (Or.inl rfl) (Or.inl rfl), h.2⟩
  | beforeSend =>
    rw [goRaw_beforeSend hpc]
    have hout := beginSend_out c s .loop i.now
    generalize beginSend c s .loop i.now = s' at hout ⊢
    cases hout with
    | failed e he => trivial
    | dumped r hr =>
      simp only
      rw [afterGo_dump hpc]
      exact ⟨allGt_beginDump _ _, fun _ => fresh_beginDump _⟩
  | beforeInfo =>
    rw [hpc] at h
    rw [goRaw_beforeInfo_unarmed hpc hu, afterGo_info hpc]
    have hgt : ∀ k, AllGt k gh → AllGt k { gh with sinceInfo := [] } := fun k hk => hk
    have hAS : (c.own ∉ s.waiting → Fresh { gh with sinceInfo := [] }) →
        PcInv1 c (afterSend c s).lastSynced (afterSend c s).waiting { gh with sinceInfo := [] }
          (afterSend c s).pc := by
      intro hfr
      obtain ⟨_, f2, f3, _, _, f6⟩ := afterSend_facts c s
      rw [f2, f3]
      rcases f6 with f6 | ⟨f6, _⟩ <;> rw [f6]
      · exact ⟨hgt _ h, hfr⟩
      · trivial
    by_cases hg : s.env.lastTxn > s.lastSynced
    · rw [if_pos hg]
      by_cases hown : s.waiting.contains c.own = true
      · rw [if_pos hown]
        exact hAS (fun hn => absurd (by simpa using hown) hn)
      · rw [if_neg hown, if_pos (Or.inr (by omega))]
        trivial
    · rw [if_neg hg]
      refine hAS (fun _ p hp => ?_)
      have := (h.empty h2 (by omega) 0).2.2.2
      rw [this] at hp; cases hp
  | top =>
    rw [hpc] at h
    rw [goRaw_top hpc, afterGo_top hpc]
    exact load_part_inv1 h h2 (Or.inr (poll_out c b s i 0))
  | loadAfterTxn t lc inst ts n =>
    rw [hpc] at h h3
    rw [goRaw_loadAfterTxn hpc]
    obtain ⟨d1, _, _, _, _, d6⟩ := loadDone_facts s t lc inst ts
    have hgt : AllGt (loadDone s t lc inst ts).lastSynced gh := by
      rw [d6]
      cases lc with
      | true => exact h.1
      | false =>
        simp only [Bool.false_eq_true, if_false]
        exact (h.2 rfl).mono (by split <;> omega)
    by_cases hbr : lc = true ∧ n > maxConsecutive
    · rw [if_pos hbr]
      simp only
      rw [afterGo_load hpc]
      exact load_part_inv1 (b := b) (n := n) hgt (d1 ▸ h2) (Or.inl rfl)
    · rw [if_neg hbr]
      simp only
      rw [afterGo_load hpc]
      exact load_part_inv1 hgt (d1 ▸ h2) (Or.inr (poll_out c b _ i n))
  | boot =>
    rw [hpc] at h
    obtain ⟨_, hb⟩ := goRaw_boot (c := c) (b := b) (i := i) hpc
    generalize (goRaw c b s i).1 = s' at hb ⊢
    cases hb with
    | captureFailed e s0 e1 e2 e3 => trivial
    | noSend s0 e1 e2 e3 e4 e5 e6 e7 =>
      simp only
      rw [afterGo_boot hpc (by simp), e1]
      exact (h.mono (Nat.zero_le _)).congr (Or.inl rfl) (Or.inl rfl)
    | send s0 e1 e2 e3 e4 e5 e6 e7 =>
      have hout := beginSend_out c s0 .initial i.now
      generalize beginSend c s0 .initial i.now = s'' at hout ⊢
      cases hout with
      | failed e he => trivial
      | dumped r hr =>
        simp only
        rw [afterGo_boot_send hpc]
        exact ⟨allGt_beginDump _ _, fun hc => (nomatch hc)⟩

/-- `Inv1` is kept by every event outside the race window -/
theorem Inv1.step {c : LoopCfg} {g : G} (h0 : Inv0 c g) (h : Inv1 c g) (e : Ev)
    (hrf : ∀ ops, e = .app ops → ¬ (Racy g.st ∧ recorded g.st ops = true)) : Inv1 c (step c g e) := by
  cases e with
  | go i => exact Inv1.of_raw (goRaw_inv1 h0.toInv0c h0.unarmed h)
  | app ops => exact h.app h0 ops (hrf ops rfl)
  | list => exact h.list
  | others bs => exact h.others bs

/-- both invariants along a race-free schedule continued from `g` -/
theorem inv1_runFrom {c : LoopCfg} (g : G) (evs : List Ev) (h0 : Inv0 c g) (h1 : Inv1 c g)
    (hrf : RaceFreeFrom c Racy g evs) : Inv0 c (runFrom c g evs) ∧ Inv1 c (runFrom c g evs) :=
  run_induct_rf (c := c) (R := Racy) (fun g => Inv0 c g ∧ Inv1 c g)
    (fun _ e h hr => ⟨h.1.step e, h.2.step h.1 e hr⟩) g evs ⟨h0, h1⟩ hrf

/-- `Inv1` holds after every race-free schedule -/
theorem inv1_run {c : LoopCfg} {env : Env} {b : Bucket} {evs : List Ev} (hrf : RaceFree c env b evs) :
    Inv1 c (run c env b evs) :=
  (inv1_runFrom (G.init env b) evs (Inv0.init c env b) (Inv1.init c env b) hrf).2

end Ls.Loop
