import LsModel.Conc
/- list facts shared by the invariants of the `Conc` models -/
namespace Ls.Conc

theorem lt_of_getElem?_some {α : Type} {l : List α} {i : Nat} {x : α} (h : l[i]? = some x) :
    i < l.length := by
  rcases Nat.lt_or_ge i l.length with h1 | h1
  · exact h1
  · rw [List.getElem?_eq_none h1] at h; cases h

theorem getElem?_set_some {α : Type} {l : List α} {i j : Nat} {x y : α} {x0 : α} (h0 : l[i]? = some x0)
    (h : (l.set i x)[j]? = some y) : (j = i ∧ y = x) ∨ (j ≠ i ∧ l[j]? = some y) := by
  rw [List.getElem?_set] at h
  by_cases hij : i = j
  · subst hij
    have : i < l.length := lt_of_getElem?_some h0
    simp [this] at h; exact Or.inl ⟨rfl, h.symm⟩
  · simp [hij] at h; exact Or.inr ⟨fun e => hij e.symm, h⟩

theorem getElem?_append_single {α : Type} {l : List α} {x y : α} {t : Nat}
    (h : (l ++ [x])[t]? = some y) : l[t]? = some y ∨ (t = l.length ∧ y = x) := by
  rw [List.getElem?_append] at h
  split at h
  · exact Or.inl h
  · rename_i hlt
    cases hn : t - l.length with
    | zero => rw [hn] at h; simp at h; exact Or.inr ⟨by omega, h.symm⟩
    | succ m => rw [hn] at h; simp at h

/-- replacing one element changes a count by the difference of the two indicator values -/
theorem countP_set {α : Type} (p : α → Bool) {l : List α} {i : Nat} {x y : α} (h : l[i]? = some x) :
    (l.set i y).countP p + (if p x then 1 else 0) = l.countP p + (if p y then 1 else 0) := by
  induction l generalizing i with
  | nil => simp at h
  | cons a t ih =>
    cases i with
    | zero =>
      simp at h; subst h
      simp only [List.set_cons_zero, List.countP_cons]; omega
    | succ n =>
      simp at h
      have := ih h
      simp only [List.set_cons_succ, List.countP_cons]; omega

end Ls.Conc
