import LsLemmas.Bytes
import LsModel.Lmdb
/-
  Algebra of the abstract LMDB DBI (sorted association list): get / put / del.
-/
namespace Ls.Lmdb
open Ls

/-! ### the key order -/

theorem kcmp_refl (ik : Bool) (a : Bytes) : kcmp ik a a = 0 := by
  unfold kcmp; cases ik <;> simp [bcmp_eq.mpr rfl]

theorem kcmp_lt_iff_gt (ik : Bool) (a b : Bytes) : kcmp ik a b < 0 ↔ 0 < kcmp ik b a := by
  unfold kcmp; cases ik
  · simp only [Bool.false_eq_true, if_false]; rw [bcmp_lt, bcmp_gt]
  · simp only [if_true]
    by_cases h1 : intVal a < intVal b <;> by_cases h2 : intVal b < intVal a <;> simp [h1, h2] <;> omega

theorem kcmp_eq_comm (ik : Bool) (a b : Bytes) : kcmp ik a b = 0 ↔ kcmp ik b a = 0 := by
  unfold kcmp; cases ik
  · simp only [Bool.false_eq_true, if_false]; rw [bcmp_eq, bcmp_eq]; exact eq_comm
  · simp only [if_true]
    by_cases h1 : intVal a < intVal b <;> by_cases h2 : intVal b < intVal a <;> simp [h1, h2] <;> omega

theorem kcmp_tri (ik : Bool) (a b : Bytes) : kcmp ik a b < 0 ∨ kcmp ik a b = 0 ∨ 0 < kcmp ik a b := by omega

theorem kcmp_lt_trans (ik : Bool) {a b c : Bytes} (h1 : kcmp ik a b < 0) (h2 : kcmp ik b c < 0) :
    kcmp ik a c < 0 := by
  unfold kcmp at *; cases ik
  · simp only [Bool.false_eq_true, if_false] at *
    rw [bcmp_lt] at *; exact bytes_lt_trans' h1 h2
  · simp only [if_true] at *
    by_cases x1 : intVal a < intVal b <;> by_cases x2 : intVal b < intVal c <;> simp_all <;> try omega
    all_goals (split at h1 <;> split at h2 <;> first | omega | simp_all)
where
  bytes_lt_trans' {a b c : Bytes} (h1 : a < b) (h2 : b < c) : a < c := List.lt_trans h1 h2

end Ls.Lmdb
