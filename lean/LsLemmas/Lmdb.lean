import LsLemmas.Bytes
import LsModel.Lmdb
/-
  Algebra of the abstract LMDB DBI (sorted association list): get / put / del.
-/
namespace Ls.Lmdb
open Ls

/-! ### the key order -/

theorem kcmp_refl (ik : Bool) (a : Bytes) : kcmp ik a a = 0 := by
  unfold kcmp; cases ik <;> simp [bcmp_eq.mpr rfl]

theorem kcmp_lt_iff_gt (ik : Bool) (a b : Bytes) : kcmp ik a b < 0 ↔ 0 < kcmp ik b a := by
  unfold kcmp; cases ik
  · simp only [Bool.false_eq_true, if_false]; rw [bcmp_lt, bcmp_gt]
  · simp only [if_true]
    by_cases h1 : intVal a < intVal b <;> by_cases h2 : intVal b < intVal a <;> simp [h1, h2] <;> omega

theorem kcmp_eq_comm (ik : Bool) (a b : Bytes) : kcmp ik a b = 0 ↔ kcmp ik b a = 0 := by
  unfold kcmp; cases ik
  · simp only [Bool.false_eq_true, if_false]; rw [bcmp_eq, bcmp_eq]; exact eq_comm
  · simp only [if_true]
    by_cases h1 : intVal a < intVal b <;> by_cases h2 : intVal b < intVal a <;> simp [h1, h2] <;> omega

theorem kcmp_tri (ik : Bool) (a b : Bytes) : kcmp ik a b < 0 ∨ kcmp ik a b = 0 ∨ 0 < kcmp ik a b := by omega

theorem kcmp_lt_trans (ik : Bool) {a b c : Bytes} (h1 : kcmp ik a b < 0) (h2 : kcmp ik b c < 0) :
    kcmp ik a c < 0 := by
  unfold kcmp at *; cases ik
  · simp only [Bool.false_eq_true, if_false] at *
    rw [bcmp_lt] at *; exact bytes_lt_trans' h1 h2
  · simp only [if_true] at *
    by_cases x1 : intVal a < intVal b <;> by_cases x2 : intVal b < intVal c <;> simp_all <;> try omega
    all_goals (split at h1 <;> split at h2 <;> first | omega | simp_all)
where
  bytes_lt_trans' {a b c : Bytes} (h1 : a < b) (h2 : b < c) : a < c := List.lt_trans h1 h2


/-! ### congruence, derived order facts -/

theorem kcmp_true_lt {a b : Bytes} : kcmp true a b < 0 ↔ intVal a < intVal b := by
  simp only [kcmp, if_true]; split
  · omega
  · split <;> omega

theorem kcmp_true_eq {a b : Bytes} : kcmp true a b = 0 ↔ intVal a = intVal b := by
  simp only [kcmp, if_true]; split
  · omega
  · split <;> omega

theorem kcmp_congr_left (ik : Bool) {a b : Bytes} (c : Bytes) (h : kcmp ik a b = 0) :
    kcmp ik a c = kcmp ik b c := by
  cases ik
  · have : a = b := by simpa [kcmp, bcmp_eq] using h
    rw [this]
  · have : intVal a = intVal b := kcmp_true_eq.mp h
    simp only [kcmp, if_true, this]

theorem kcmp_congr_right (ik : Bool) {a b : Bytes} (c : Bytes) (h : kcmp ik a b = 0) :
    kcmp ik c a = kcmp ik c b := by
  cases ik
  · have : a = b := by simpa [kcmp, bcmp_eq] using h
    rw [this]
  · have : intVal a = intVal b := kcmp_true_eq.mp h
    simp only [kcmp, if_true, this]

theorem kcmp_eq_trans (ik : Bool) {a b c : Bytes} (h1 : kcmp ik a b = 0) (h2 : kcmp ik b c = 0) :
    kcmp ik a c = 0 := by rw [kcmp_congr_left ik c h1]; exact h2

theorem kcmp_gt_iff_lt (ik : Bool) (a b : Bytes) : 0 < kcmp ik a b ↔ kcmp ik b a < 0 :=
  (kcmp_lt_iff_gt ik b a).symm

theorem kcmp_lt_asymm (ik : Bool) {a b : Bytes} (h : kcmp ik a b < 0) : ¬ kcmp ik b a < 0 := by
  have := (kcmp_lt_iff_gt ik a b).mp h; omega

theorem kcmp_ne_of_lt (ik : Bool) {a b : Bytes} (h : kcmp ik a b < 0) : kcmp ik a b ≠ 0 := by omega

theorem kcmp_ne_of_gt (ik : Bool) {a b : Bytes} (h : kcmp ik a b < 0) : kcmp ik b a ≠ 0 := by
  have := (kcmp_lt_iff_gt ik a b).mp h; omega

theorem kcmp_lt_of_lt_of_eq (ik : Bool) {a b c : Bytes} (h1 : kcmp ik a b < 0) (h2 : kcmp ik b c = 0) :
    kcmp ik a c < 0 := by rw [← kcmp_congr_right ik a h2]; exact h1

theorem kcmp_lt_of_eq_of_lt (ik : Bool) {a b c : Bytes} (h1 : kcmp ik a b = 0) (h2 : kcmp ik b c < 0) :
    kcmp ik a c < 0 := by rw [kcmp_congr_left ik c h1]; exact h2

/-- not below and not equivalent means above -/
theorem kcmp_gt_of_not (ik : Bool) {a b : Bytes} (h1 : ¬ kcmp ik a b < 0) (h2 : ¬ kcmp ik a b = 0) :
    kcmp ik b a < 0 := by
  rw [kcmp_lt_iff_gt]; omega

/-! ### unsigned little-endian integer keys -/

theorem leNat_inj : ∀ {a b : Bytes}, a.length = b.length → leNat a = leNat b → a = b
  | [], [], _, _ => rfl
  | [], _ :: _, h, _ => by simp at h
  | _ :: _, [], h, _ => by simp at h
  | x :: xs, y :: ys, hl, h => by
    simp only [leNat] at h
    have hx := x.toNat_lt; have hy := y.toNat_lt
    have h1 : x.toNat = y.toNat := by omega
    have h2 : leNat xs = leNat ys := by omega
    rw [UInt8.toNat_inj.mp h1, leNat_inj (by simpa using hl) h2]

theorem intVal_of_len {a : Bytes} (h : a.length = 4 ∨ a.length = 8 ∨ a.length = 2) : intVal a = leNat a := by
  simp [intVal, h]

/-- on keys of one length (2, 4 or 8 bytes) the integer-key comparison is the numeric order of the
    little-endian values, and equivalence is equality of keys -/
theorem kcmp_int_spec {a b : Bytes} (ha : a.length = 4 ∨ a.length = 8 ∨ a.length = 2)
    (hab : a.length = b.length) :
    (kcmp true a b < 0 ↔ leNat a < leNat b) ∧ (kcmp true a b = 0 ↔ a = b) ∧
    (0 < kcmp true a b ↔ leNat b < leNat a) := by
  have hb : b.length = 4 ∨ b.length = 8 ∨ b.length = 2 := by rw [← hab]; exact ha
  refine ⟨?_, ?_, ?_⟩
  · rw [kcmp_true_lt, intVal_of_len ha, intVal_of_len hb]
  · rw [kcmp_true_eq, intVal_of_len ha, intVal_of_len hb]
    exact ⟨leNat_inj hab, fun h => by rw [h]⟩
  · rw [kcmp_gt_iff_lt, kcmp_true_lt, intVal_of_len ha, intVal_of_len hb]

/-! ### sorted DBIs -/

/-- the DBI invariant: keys strictly increasing in the DBI's order -/
def Sorted (ik : Bool) (db : KVs) : Prop := db.Pairwise (fun a b => kcmp ik a.1 b.1 < 0)

instance (ik : Bool) (db : KVs) : Decidable (Sorted ik db) :=
  inferInstanceAs (Decidable (List.Pairwise _ db))

theorem sorted_nil (ik : Bool) : Sorted ik [] := List.Pairwise.nil

theorem sorted_cons {ik : Bool} {p : Bytes × Bytes} {db : KVs} :
    Sorted ik (p :: db) ↔ (∀ q ∈ db, kcmp ik p.1 q.1 < 0) ∧ Sorted ik db := List.pairwise_cons

theorem Sorted.tail {ik : Bool} {p : Bytes × Bytes} {db : KVs} (h : Sorted ik (p :: db)) : Sorted ik db :=
  (sorted_cons.mp h).2

@[simp] theorem get_nil (ik : Bool) (k : Bytes) : get ik [] k = none := rfl

theorem get_cons (ik : Bool) (k' v' : Bytes) (rest : KVs) (k : Bytes) :
    get ik ((k', v') :: rest) k = if kcmp ik k k' = 0 then some v' else get ik rest k := rfl

theorem del_cons (ik : Bool) (k' v' : Bytes) (rest : KVs) (k : Bytes) :
    del ik ((k', v') :: rest) k =
      if kcmp ik k k' = 0 then (rest, true) else ((k', v') :: (del ik rest k).1, (del ik rest k).2) := rfl

/-- a key equivalent to no stored key is not found -/
theorem get_none_of_ne {ik : Bool} {db : KVs} {k : Bytes} (h : ∀ p ∈ db, kcmp ik k p.1 ≠ 0) :
    get ik db k = none := by
  induction db with
  | nil => rfl
  | cons p rest ih =>
    obtain ⟨k', v'⟩ := p
    rw [get_cons, if_neg (h (k', v') (List.mem_cons_self ..))]
    exact ih (fun q hq => h q (List.mem_cons_of_mem _ hq))

theorem get_none_of_lt {ik : Bool} {db : KVs} {k : Bytes} (h : ∀ p ∈ db, kcmp ik k p.1 < 0) :
    get ik db k = none := get_none_of_ne (fun p hp => kcmp_ne_of_lt ik (h p hp))

theorem get_none_of_gt {ik : Bool} {db : KVs} {k : Bytes} (h : ∀ p ∈ db, kcmp ik p.1 k < 0) :
    get ik db k = none := get_none_of_ne (fun p hp => kcmp_ne_of_gt ik (h p hp))

/-- lookups only depend on the key's equivalence class -/
theorem get_congr (ik : Bool) (db : KVs) {a b : Bytes} (h : kcmp ik a b = 0) : get ik db a = get ik db b := by
  induction db with
  | nil => rfl
  | cons p rest ih =>
    obtain ⟨k', v'⟩ := p
    rw [get_cons, get_cons, kcmp_congr_left ik k' h, ih]

theorem get_some_mem {ik : Bool} {db : KVs} {k v : Bytes} (h : get ik db k = some v) :
    ∃ k', (k', v) ∈ db ∧ kcmp ik k k' = 0 := by
  induction db with
  | nil => simp at h
  | cons p rest ih =>
    obtain ⟨k', v'⟩ := p
    rw [get_cons] at h
    split at h
    · cases h; exact ⟨k', List.mem_cons_self .., ‹_›⟩
    · obtain ⟨k'', hm, hk⟩ := ih h; exact ⟨k'', List.mem_cons_of_mem _ hm, hk⟩

/-- in a sorted DBI a stored pair is what `get` returns for its key -/
theorem get_of_mem {ik : Bool} {db : KVs} (hs : Sorted ik db) {k v : Bytes} (h : (k, v) ∈ db) :
    get ik db k = some v := by
  induction db with
  | nil => simp at h
  | cons p rest ih =>
    obtain ⟨k', v'⟩ := p
    rw [get_cons]
    rcases List.mem_cons.mp h with h | h
    · cases h; rw [if_pos (kcmp_refl ik k)]
    · have := (sorted_cons.mp hs).1 _ h
      rw [if_neg (kcmp_ne_of_gt ik this)]
      exact ih hs.tail h

/-! ### put -/

theorem put_forall {ik : Bool} (P : Bytes → Prop) {db : KVs} {k v : Bytes}
    (hdb : ∀ p ∈ db, P p.1) (hk : P k) : ∀ p ∈ put ik db k v, P p.1 := by
  induction db with
  | nil => intro p hp; simp [put] at hp; rw [hp]; exact hk
  | cons q rest ih =>
    obtain ⟨k', v'⟩ := q
    intro p hp
    unfold put at hp
    split at hp
    · rcases List.mem_cons.mp hp with h | h
      · rw [h]; exact hk
      · exact hdb p h
    · split at hp
      · rcases List.mem_cons.mp hp with h | h
        · rw [h]; exact hdb (k', v') (List.mem_cons_self ..)
        · exact hdb p (List.mem_cons_of_mem _ h)
      · rcases List.mem_cons.mp hp with h | h
        · rw [h]; exact hdb (k', v') (List.mem_cons_self ..)
        · exact ih (fun q hq => hdb q (List.mem_cons_of_mem _ hq)) p h

theorem sorted_put {ik : Bool} {db : KVs} (hs : Sorted ik db) (k v : Bytes) : Sorted ik (put ik db k v) := by
  induction db with
  | nil => exact List.pairwise_singleton _ _
  | cons q rest ih =>
    obtain ⟨k', v'⟩ := q
    have ⟨h1, h2⟩ := sorted_cons.mp hs
    unfold put
    split
    · rename_i hlt
      refine sorted_cons.mpr ⟨?_, hs⟩
      intro q hq
      rcases List.mem_cons.mp hq with h | h
      · rw [h]; exact hlt
      · exact kcmp_lt_trans ik hlt (h1 q h)
    · split
      · exact sorted_cons.mpr ⟨h1, h2⟩
      · rename_i hnlt hne
        refine sorted_cons.mpr ⟨?_, ih h2⟩
        exact put_forall (fun x => kcmp ik k' x < 0) h1 (kcmp_gt_of_not ik hnlt hne)

/-- read-after-write (no sortedness needed) -/
theorem get_put (ik : Bool) (db : KVs) (k v k' : Bytes) :
    get ik (put ik db k v) k' = if kcmp ik k k' = 0 then some v else get ik db k' := by
  induction db with
  | nil => simp only [put, get_cons, get_nil, kcmp_eq_comm ik k' k]
  | cons q rest ih =>
    obtain ⟨k0, v0⟩ := q
    unfold put
    split
    · simp only [get_cons, kcmp_eq_comm ik k' k]
    · split
      · rename_i _ heq
        have e : (kcmp ik k' k0 = 0) = (kcmp ik k k' = 0) := by
          rw [kcmp_eq_comm ik k' k0, ← kcmp_congr_left ik k' heq]
        simp only [get_cons, e]
        split <;> rfl
      · rename_i _ hne
        simp only [get_cons, ih]
        by_cases h1 : kcmp ik k' k0 = 0
        · have : ¬ kcmp ik k k' = 0 := fun h => hne (kcmp_eq_trans ik h h1)
          simp only [if_pos h1, if_neg this]
        · simp only [if_neg h1]

/-- an identical put leaves the list unchanged -/
theorem put_of_get_some {ik : Bool} {db : KVs} (hs : Sorted ik db) {k v : Bytes}
    (h : get ik db k = some v) : put ik db k v = db := by
  induction db with
  | nil => simp at h
  | cons q rest ih =>
    obtain ⟨k0, v0⟩ := q
    have ⟨h1, h2⟩ := sorted_cons.mp hs
    rw [get_cons] at h
    unfold put
    split
    · rename_i hlt
      rw [if_neg (kcmp_ne_of_lt ik hlt)] at h
      rw [get_none_of_lt (fun p hp => kcmp_lt_trans ik hlt (h1 p hp))] at h
      cases h
    · split
      · rename_i _ heq
        rw [if_pos heq] at h; cases h; rfl
      · rename_i _ hne
        rw [if_neg hne] at h
        rw [ih h2 h]

theorem get_of_put_eq {ik : Bool} {db : KVs} {k v : Bytes} (h : put ik db k v = db) :
    get ik db k = some v := by
  have := get_put ik db k v k
  rw [h, if_pos (kcmp_refl ik k)] at this
  exact this

/-! ### del -/

theorem del_mem {ik : Bool} {db : KVs} {k : Bytes} : ∀ p ∈ (del ik db k).1, p ∈ db := by
  induction db with
  | nil => intro p hp; simp [del] at hp
  | cons q rest ih =>
    obtain ⟨k0, v0⟩ := q
    intro p hp
    rw [del_cons] at hp
    split at hp
    · exact List.mem_cons_of_mem _ hp
    · rcases List.mem_cons.mp hp with h | h
      · rw [h]; exact List.mem_cons_self ..
      · exact List.mem_cons_of_mem _ (ih p h)

theorem sorted_del {ik : Bool} {db : KVs} (hs : Sorted ik db) (k : Bytes) : Sorted ik (del ik db k).1 := by
  induction db with
  | nil => exact sorted_nil ik
  | cons q rest ih =>
    obtain ⟨k0, v0⟩ := q
    have ⟨h1, h2⟩ := sorted_cons.mp hs
    rw [del_cons]
    split
    · exact h2
    · exact sorted_cons.mpr ⟨fun p hp => h1 p (del_mem p hp), ih h2⟩

/-- the flag `del` returns says whether the key was present -/
theorem del_snd (ik : Bool) (db : KVs) (k : Bytes) : (del ik db k).2 = (get ik db k).isSome := by
  induction db with
  | nil => rfl
  | cons q rest ih =>
    obtain ⟨k0, v0⟩ := q
    rw [del_cons, get_cons]
    split
    · rfl
    · exact ih

theorem get_del {ik : Bool} {db : KVs} (hs : Sorted ik db) (k k' : Bytes) :
    get ik (del ik db k).1 k' = if kcmp ik k k' = 0 then none else get ik db k' := by
  induction db with
  | nil => simp [del]
  | cons q rest ih =>
    obtain ⟨k0, v0⟩ := q
    have ⟨h1, h2⟩ := sorted_cons.mp hs
    rw [del_cons]
    split
    · rename_i heq
      rw [get_cons]
      by_cases hk : kcmp ik k k' = 0
      · rw [if_pos hk]
        have hk0 : kcmp ik k' k0 = 0 := kcmp_eq_trans ik ((kcmp_eq_comm ik k k').mp hk) heq
        exact get_none_of_lt (fun p hp => kcmp_lt_of_eq_of_lt ik hk0 (h1 p hp))
      · rw [if_neg hk]
        have : ¬ kcmp ik k' k0 = 0 := fun h => hk (kcmp_eq_trans ik heq ((kcmp_eq_comm ik k' k0).mp h))
        rw [if_neg this]
    · rename_i hne
      simp only [get_cons, ih h2]
      by_cases h0 : kcmp ik k' k0 = 0
      · have : ¬ kcmp ik k k' = 0 := fun h => hne (kcmp_eq_trans ik h h0)
        simp only [if_pos h0, if_neg this]
      · simp only [if_neg h0]

theorem del_of_get_none {ik : Bool} {db : KVs} {k : Bytes} (h : get ik db k = none) :
    (del ik db k).1 = db := by
  induction db with
  | nil => rfl
  | cons q rest ih =>
    obtain ⟨k0, v0⟩ := q
    rw [get_cons] at h
    rw [del_cons]
    split at h
    · cases h
    · rename_i hne
      rw [if_neg hne, ih h]

theorem del_ne_of_get_some {ik : Bool} {db : KVs} {k : Bytes} (h : (get ik db k).isSome = true) :
    (del ik db k).1 ≠ db := by
  have hlen : ∀ (db : KVs), (get ik db k).isSome = true → (del ik db k).1.length < db.length := by
    intro db
    induction db with
    | nil => intro h; simp at h
    | cons q rest ih =>
      obtain ⟨k0, v0⟩ := q
      intro h
      rw [get_cons] at h
      rw [del_cons]
      split
      · simp
      · rename_i hne
        rw [if_neg hne] at h
        have := ih h
        simp only [List.length_cons]; omega
  intro he
  have := hlen db h
  rw [he] at this
  omega

/-! ### writing behind a prefix of smaller keys (the cursor position of a merge-join) -/

theorem put_cons (ik : Bool) (k' v' : Bytes) (rest : KVs) (k v : Bytes) :
    put ik ((k', v') :: rest) k v =
      if kcmp ik k k' < 0 then (k, v) :: (k', v') :: rest
      else if kcmp ik k k' = 0 then (k', v) :: rest
      else (k', v') :: put ik rest k v := rfl

theorem put_append_gt {ik : Bool} {done : KVs} (X : KVs) {k : Bytes} (v : Bytes)
    (h : ∀ p ∈ done, kcmp ik p.1 k < 0) : put ik (done ++ X) k v = done ++ put ik X k v := by
  induction done with
  | nil => rfl
  | cons q rest ih =>
    obtain ⟨k0, v0⟩ := q
    have h0 : kcmp ik k0 k < 0 := h (k0, v0) (List.mem_cons_self ..)
    have h1 : ¬ kcmp ik k k0 < 0 := kcmp_lt_asymm ik h0
    have h2 : ¬ kcmp ik k k0 = 0 := kcmp_ne_of_gt ik h0
    show put ik ((k0, v0) :: (rest ++ X)) k v = _
    rw [put_cons, if_neg h1, if_neg h2, ih (fun p hp => h p (List.mem_cons_of_mem _ hp))]
    rfl

theorem del_append_gt {ik : Bool} {done : KVs} (X : KVs) {k : Bytes}
    (h : ∀ p ∈ done, kcmp ik p.1 k < 0) :
    del ik (done ++ X) k = (done ++ (del ik X k).1, (del ik X k).2) := by
  induction done with
  | nil => rfl
  | cons q rest ih =>
    obtain ⟨k0, v0⟩ := q
    have h0 : kcmp ik k0 k < 0 := h (k0, v0) (List.mem_cons_self ..)
    have h2 : ¬ kcmp ik k k0 = 0 := kcmp_ne_of_gt ik h0
    show del ik ((k0, v0) :: (rest ++ X)) k = _
    rw [del_cons, if_neg h2, ih (fun p hp => h p (List.mem_cons_of_mem _ hp))]
    rfl

theorem put_head_eq {ik : Bool} {k dk : Bytes} (dv : Bytes) (ds : KVs) (v : Bytes) (h : kcmp ik k dk = 0) :
    put ik ((dk, dv) :: ds) k v = (dk, v) :: ds := by
  rw [put_cons, if_neg (by omega), if_pos h]

theorem put_before {ik : Bool} {k : Bytes} (X : KVs) (v : Bytes) (h : ∀ p ∈ X, kcmp ik k p.1 < 0) :
    put ik X k v = (k, v) :: X := by
  cases X with
  | nil => rfl
  | cons q rest =>
    obtain ⟨k0, v0⟩ := q
    rw [put_cons, if_pos (h (k0, v0) (List.mem_cons_self ..))]

theorem del_head_eq {ik : Bool} {k dk : Bytes} (dv : Bytes) (ds : KVs) (h : kcmp ik k dk = 0) :
    del ik ((dk, dv) :: ds) k = (ds, true) := by
  rw [del_cons, if_pos h]

theorem del_before {ik : Bool} {k : Bytes} (X : KVs) (h : ∀ p ∈ X, kcmp ik k p.1 < 0) :
    del ik X k = (X, false) := by
  have hg := get_none_of_lt h
  have h1 := del_of_get_none hg
  have h2 := del_snd ik X k
  rw [hg] at h2
  exact Prod.ext h1 h2

end Ls.Lmdb
