import LsLemmas.SweeperPass
/-
  The tomb sweeper, a whole pass over an environment (`pass`): one `passDbi` per swept DBI.
-/
namespace Ls.Sweeper
open Ls Ls.Lmdb Ls.Txn

/-- the body of the fold in `pass` -/
def passStep (cutoff n : Nat) (app : Nat → Env → Env) (acc : Env × Nat × Nat × Nat) (name : Bytes) :
    Except Err (Env × Nat × Nat × Nat) :=
  match findDbi acc.1.dbis name with
  | none => .error .dbiMissing
  | some d =>
    passDbi (isIntKey d.flags) cutoff n app name (d.kvs.length + 2 + 1000) acc.1 none acc.2.1 acc.2.2.1 acc.2.2.2

theorem pass_eq (native : Bool) (cutoff n : Nat) (app : Nat → Env → Env) (e : Env) :
    pass native cutoff n app e =
      ((((e.dbis.map (·.name)).filter (swept native)).foldlM (passStep cutoff n app) (e, 0, 0, 0)).map
        (fun (r : Env × Nat × Nat × Nat) => (r.1, r.2.2.1, r.2.2.2))) := rfl

theorem pass_ok_inv {native : Bool} {cutoff n : Nat} {app : Nat → Env → Env} {e ef : Env} {nt nc : Nat}
    (h : pass native cutoff n app e = .ok (ef, nt, nc)) :
    ∃ nb, ((e.dbis.map (·.name)).filter (swept native)).foldlM (passStep cutoff n app) (e, 0, 0, 0) =
      .ok (ef, nb, nt, nc) := by
  rw [pass_eq] at h
  cases hr : ((e.dbis.map (·.name)).filter (swept native)).foldlM (passStep cutoff n app) (e, 0, 0, 0) with
  | error err => rw [hr] at h; cases h
  | ok res =>
    rw [hr] at h
    obtain ⟨a, b, c, d⟩ := res
    simp only [Except.map] at h
    cases h
    exact ⟨b, rfl⟩

theorem foldlM_cons_ok {cutoff n : Nat} {app : Nat → Env → Env} {acc res : Env × Nat × Nat × Nat}
    {name : Bytes} {rest : List Bytes}
    (h : (name :: rest).foldlM (passStep cutoff n app) acc = .ok res) :
    ∃ acc', passStep cutoff n app acc name = .ok acc' ∧ rest.foldlM (passStep cutoff n app) acc' = .ok res := by
  rw [List.foldlM_cons] at h
  cases hs : passStep cutoff n app acc name with
  | error err => rw [hs] at h; cases h
  | ok acc' => rw [hs] at h; exact ⟨acc', rfl, h⟩

/-- sweeping private DBIs only: the application's DBIs are what the application's commits make
    of them -/
theorem fold_appPart {cutoff n : Nat} {app : Nat → Env → Env} (g : Nat → List Dbi → List Dbi)
    (happ : ∀ i e, appPart (app i e) = g i (appPart e)) :
    ∀ (names : List Bytes) (acc res : Env × Nat × Nat × Nat),
    (∀ name ∈ names, isPrivate name = true) →
    names.foldlM (passStep cutoff n app) acc = .ok res →
    acc.2.1 ≤ res.2.1 ∧
      appPart res.1 = (List.range' acc.2.1 (res.2.1 - acc.2.1)).foldl (fun s i => g i s) (appPart acc.1) := by
  intro names
  induction names with
  | nil =>
    intro acc res _ h
    cases h
    simp
  | cons name rest ih =>
    intro acc res hp h
    obtain ⟨acc', hs, hrest⟩ := foldlM_cons_ok h
    have ⟨h1, h2⟩ := ih acc' res (fun x hx => hp x (List.mem_cons_of_mem _ hx)) hrest
    unfold passStep at hs
    split at hs
    · cases hs
    · have ⟨h3, h4⟩ := passDbi_appPart (hp name (List.mem_cons_self ..)) g happ _ _ _ _ _ _ _ hs
      refine ⟨by omega, ?_⟩
      rw [h2, h4, ← List.foldl_append]
      congr 1
      have : res.2.1 - acc.2.1 = (acc'.2.1 - acc.2.1) + (res.2.1 - acc'.2.1) := by omega
      rw [this, ← List.range'_append_1]
      congr 2
      omega

/-! ### soundness of a whole pass with the application, function-level -/

/-- a property of environments kept by the application's commits and by the sweeper's commits
    on `name'` is kept by a pass over `name'` -/
theorem passDbi_keeps {ik : Bool} {cutoff n : Nat} {app : Nat → Env → Env} {name' : Bytes} (Q : Env → Prop)
    (ha : ∀ i e, Q e → Q (app i e)) (hc : ∀ e r, Q e → Q (commitSlice e name' r)) :
    ∀ (fuel : Nat) (e : Env) (last : Option (Bytes × Bytes)) (bi nt nc : Nat) (res : Env × Nat × Nat × Nat),
    passDbi ik cutoff n app name' fuel e last bi nt nc = .ok res → Q e → Q res.1 := by
  intro fuel
  induction fuel with
  | zero => intro e last bi nt nc res h hq; rw [passDbi_zero] at h; cases h; exact hq
  | succ fuel ih =>
    intro e last bi nt nc res h hq
    obtain ⟨d, r, hd, hr⟩ := passDbi_succ_inv h
    rw [passDbi_succ hd hr] at h
    by_cases hl : r.limitReached = true
    · rw [if_pos hl] at h; exact ih _ _ _ _ _ _ h (ha _ _ (hc _ _ hq))
    · rw [if_neg hl] at h; cases h; exact hc _ _ hq

/-- the binding `g` of a key relative to its binding `g0` at pass start: the same, or an expired
    marker removed -/
def Rel (cutoff : Nat) (g0 g : Option Bytes) : Prop :=
  g = g0 ∨ ∃ v, g0 = some v ∧ IsExpired cutoff v ∧ g = none

/-- the state of DBI `name`, key `k`, during a pass -/
def Keeps (ik : Bool) (cutoff : Nat) (name k : Bytes) (fl : Nat) (g0 : Option Bytes) (e : Env) : Prop :=
  ∃ d, findDbi e.dbis name = some d ∧ d.flags = fl ∧ Sorted ik d.kvs ∧ Rel cutoff g0 (get ik d.kvs k)

theorem keeps_app {ik : Bool} {cutoff : Nat} {name k : Bytes} {fl : Nat} {g0 : Option Bytes}
    {app : Nat → Env → Env} (happ : AppKeeps ik name k app) (i : Nat) (e : Env)
    (h : Keeps ik cutoff name k fl g0 e) : Keeps ik cutoff name k fl g0 (app i e) := by
  obtain ⟨d, hd, hf, hs, hr⟩ := h
  obtain ⟨d', hd', hf', hk⟩ := happ i e d hd
  have ⟨hs', hg⟩ := hk hs
  exact ⟨d', hd', hf'.trans hf, hs', by rw [hg]; exact hr⟩

theorem step_keeps {ik : Bool} {cutoff n : Nat} {app : Nat → Env → Env} {name k : Bytes} {fl : Nat}
    {g0 : Option Bytes} (hik : ik = isIntKey fl) (happ : AppKeeps ik name k app)
    (acc acc' : Env × Nat × Nat × Nat) (name' : Bytes)
    (hstep : passStep cutoff n app acc name' = .ok acc') (h : Keeps ik cutoff name k fl g0 acc.1) :
    Keeps ik cutoff name k fl g0 acc'.1 := by
  unfold passStep at hstep
  split at hstep
  · cases hstep
  · rename_i d' hd'
    by_cases hne : name' = name
    · subst hne
      obtain ⟨d, hd, hf, hs, hr⟩ := h
      have hdd : d' = d := by rw [hd] at hd'; exact (Option.some.inj hd').symm
      rw [hdd, hf, ← hik] at hstep
      -- the DBI and its flags survive
      have hex : ∃ df, findDbi acc'.1.dbis name' = some df ∧ df.flags = fl := by
        refine passDbi_keeps (fun e => ∃ df, findDbi e.dbis name' = some df ∧ df.flags = fl) ?_ ?_
          _ _ _ _ _ _ _ hstep ⟨d, hd, hf⟩
        · rintro i e ⟨df, h1, h2⟩
          obtain ⟨d2, h3, h4, _⟩ := happ i e df h1
          exact ⟨d2, h3, h4.trans h2⟩
        · rintro e r ⟨df, h1, h2⟩
          refine ⟨{ df with kvs := r.db }, ?_, h2⟩
          simp [commitSlice, findDbi_setKvs, h1, findDbi_name h1]
      obtain ⟨df, hdf, hff⟩ := hex
      have hu : Untouched ik name' k app
          (boundaries ik cutoff n app name' (d.kvs.length + 2 + 1000) acc.1 none acc.2.1) := by
        intro i e' _ a b ha hb hsa
        obtain ⟨da, hda, hdak⟩ := dbiKvs_some ha
        obtain ⟨d2, h3, _, h5⟩ := happ i e' da hda
        have : b = d2.kvs := by rw [dbiKvs_eq h3] at hb; simpa using hb.symm
        rw [this, ← hdak]; exact h5 (hdak ▸ hsa)
      have ⟨hsf, hgf⟩ := passDbi_sound _ _ _ _ _ _ _ d.kvs hstep (dbiKvs_eq hd) hs hu df.kvs (dbiKvs_eq hdf)
      refine ⟨df, hdf, hff, hsf, ?_⟩
      rcases hgf with hgf | ⟨v, h1, h2, h3⟩
      · unfold Rel at *; rw [hgf]; exact hr
      · right
        rcases hr with hr | ⟨v', _, _, h6⟩
        · exact ⟨v, by rw [← hr]; exact h1, h2, h3⟩
        · rw [h6] at h1; cases h1
    · refine passDbi_keeps (Keeps ik cutoff name k fl g0) (keeps_app happ) ?_ _ _ _ _ _ _ _ hstep h
      rintro e r ⟨d, hd, hf, hs, hr⟩
      refine ⟨d, ?_, hf, hs, hr⟩
      have hdn : d.name ≠ name' := by rw [findDbi_name hd]; exact fun h => hne h.symm
      simp [commitSlice, findDbi_setKvs, hd, hdn]

theorem fold_keeps {ik : Bool} {cutoff n : Nat} {app : Nat → Env → Env} {name k : Bytes} {fl : Nat}
    {g0 : Option Bytes} (hik : ik = isIntKey fl) (happ : AppKeeps ik name k app) :
    ∀ (names : List Bytes) (acc res : Env × Nat × Nat × Nat),
    names.foldlM (passStep cutoff n app) acc = .ok res →
    Keeps ik cutoff name k fl g0 acc.1 → Keeps ik cutoff name k fl g0 res.1 := by
  intro names
  induction names with
  | nil => intro acc res h hk; cases h; exact hk
  | cons x rest ih =>
    intro acc res h hk
    obtain ⟨acc', hs, hrest⟩ := foldlM_cons_ok h
    exact ih acc' res hrest (step_keeps hik happ acc acc' x hs hk)

/-! ### a whole pass without interference -/

/-- the result of sweeping the DBIs named in `done` -/
def sweepNamed (cutoff : Nat) (done : List Bytes) (dbis : List Dbi) : List Dbi :=
  dbis.map fun d => if d.name ∈ done then { d with kvs := d.kvs.filter (keep cutoff) } else d

theorem eq_of_nodup_names {dbis : List Dbi} (h : (dbis.map (·.name)).Nodup) {a b : Dbi}
    (ha : a ∈ dbis) (hb : b ∈ dbis) (hn : a.name = b.name) : a = b := by
  induction dbis with
  | nil => cases ha
  | cons x rest ih =>
    rw [List.map_cons, List.nodup_cons] at h
    rcases List.mem_cons.mp ha with rfl | ha' <;> rcases List.mem_cons.mp hb with rfl | hb'
    · rfl
    · exact absurd (List.mem_map.mpr ⟨b, hb', hn.symm⟩) h.1
    · exact absurd (List.mem_map.mpr ⟨a, ha', hn⟩) h.1
    · exact ih h.2 ha' hb'

theorem findDbi_sweepNamed_notin {cutoff : Nat} {done : List Bytes} {dbis : List Dbi} {name : Bytes}
    (h : name ∉ done) : findDbi (sweepNamed cutoff done dbis) name = findDbi dbis name := by
  unfold findDbi sweepNamed
  induction dbis with
  | nil => rfl
  | cons d rest ih =>
    rw [List.map_cons, List.find?_cons, List.find?_cons]
    have hn : (if d.name ∈ done then { d with kvs := d.kvs.filter (keep cutoff) } else d).name = d.name := by
      split <;> rfl
    rw [hn]
    by_cases hd : d.name = name
    · have : d.name ∉ done := by rw [hd]; exact h
      rw [if_neg this]; simp [hd]
    · simp only [hd, decide_false]; exact ih

theorem setKvs_sweepNamed {cutoff : Nat} {done : List Bytes} {dbis : List Dbi} {name : Bytes} {d : Dbi}
    (hnd : (dbis.map (·.name)).Nodup) (hd : findDbi dbis name = some d) :
    setKvs (sweepNamed cutoff done dbis) name (d.kvs.filter (keep cutoff)) =
      sweepNamed cutoff (name :: done) dbis := by
  unfold setKvs sweepNamed
  rw [List.map_map]
  apply List.map_congr_left
  intro x hx
  simp only [Function.comp]
  have hn : (if x.name ∈ done then { x with kvs := x.kvs.filter (keep cutoff) } else x).name = x.name := by
    split <;> rfl
  rw [hn]
  by_cases hxn : x.name = name
  · have hxd : x = d := by
      have hdm := findDbi_mem hd
      have hdn := findDbi_name hd
      exact eq_of_nodup_names hnd hx hdm (by rw [hxn, hdn])
    subst hxd
    simp [hxn]
    split <;> rfl
  · simp [hxn]

theorem fold_no_app {cutoff n : Nat} (hn : 1 ≤ n) (e0 : Env) (hnd : (e0.dbis.map (·.name)).Nodup)
    (P : Bytes → Prop)
    (hP : ∀ d ∈ e0.dbis, P d.name → Sorted (isIntKey d.flags) d.kvs ∧ ∀ kv ∈ d.kvs, Parses kv.2) :
    ∀ (names done : List Bytes) (acc : Env × Nat × Nat × Nat),
    (∀ x ∈ names, P x ∧ x ∈ e0.dbis.map (·.name)) → names.Nodup → (∀ x ∈ names, x ∉ done) →
    acc.1.dbis = sweepNamed cutoff done e0.dbis →
    ∃ res, names.foldlM (passStep cutoff n (fun _ e => e)) acc = .ok res ∧
      res.1.dbis = sweepNamed cutoff (names.reverse ++ done) e0.dbis := by
  intro names
  induction names with
  | nil => intro done acc _ _ _ hacc; exact ⟨acc, rfl, by simpa using hacc⟩
  | cons name rest ih =>
    intro done acc hnames hnod hdone hacc
    have ⟨hPn, hmem⟩ := hnames name (List.mem_cons_self ..)
    obtain ⟨d, hdm, hdn⟩ := List.mem_map.mp hmem
    have hfd0 : findDbi e0.dbis name = some d := by
      unfold findDbi
      cases hf : e0.dbis.find? (fun x => decide (x.name = name)) with
      | none =>
        have := List.find?_eq_none.mp hf d hdm
        simp [hdn] at this
      | some d' =>
        have h1 := List.mem_of_find?_eq_some hf
        have h2 : d'.name = name := by simpa using List.find?_some hf
        rw [eq_of_nodup_names hnd h1 hdm (by rw [h2, hdn])]
    have hfd : findDbi acc.1.dbis name = some d := by
      rw [hacc, findDbi_sweepNamed_notin (hdone name (List.mem_cons_self ..))]; exact hfd0
    have ⟨hsd, hpd⟩ := hP d hdm (hdn ▸ hPn)
    obtain ⟨ef, he1, he2, _, _⟩ := passDbi_no_app (ik := isIntKey d.flags) (cutoff := cutoff) (name := name) hn
      (d.kvs.length + 2 + 1000) acc.1 none acc.2.1 acc.2.2.1 acc.2.2.2 d [] d.kvs hfd rfl rfl hsd hpd
      (by have : d.kvs.length + 2 + 1000 ≤ (d.kvs.length + 2 + 1000) * n := Nat.le_mul_of_pos_right _ hn
          omega)
    rw [List.foldlM_cons]
    obtain ⟨acc', hstep, hacc'⟩ : ∃ acc', passStep cutoff n (fun _ e => e) acc name = .ok acc' ∧ acc'.1 = ef :=
      ⟨_, by unfold passStep; rw [hfd]; exact he1, rfl⟩
    rw [hstep]
    show ∃ res, rest.foldlM (passStep cutoff n (fun _ e => e)) acc' = .ok res ∧ _
    have hnod' := List.nodup_cons.mp hnod
    obtain ⟨res, hr1, hr2⟩ := ih (name :: done) acc'
      (fun x hx => hnames x (List.mem_cons_of_mem _ hx)) hnod'.2
      (by
        intro x hx hxd
        rcases List.mem_cons.mp hxd with rfl | hxd
        · exact hnod'.1 hx
        · exact hdone x (List.mem_cons_of_mem _ hx) hxd)
      (by
        rw [hacc', he2, hacc]
        simpa using setKvs_sweepNamed hnd hfd0)
    refine ⟨res, hr1, ?_⟩
    rw [hr2]; simp

end Ls.Sweeper
