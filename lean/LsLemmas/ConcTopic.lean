import LsLemmas.ConcUtil
/-
  Invariants of the Topic model (LsModel/Conc.lean) for any number of subscribers.
-/
namespace Ls.Conc.Topic

/-- the publisher holds the topic mutex exactly inside the loop of `Publish` -/
def pubHolds : PubPc → Bool
  | .loop _ | .sending _ _ => true
  | _ => false

/-- the subscriber program counters at which the topic mutex is held -/
def holdsT : SubPc → Bool
  | .subscribing | .cUnsub | .cUnlockT => true
  | _ => false

/-- subscribers the current `Publish` still has to serve, including the one it is blocked on -/
def pending : PubPc → List Nat
  | .loop todo => todo
  | .sending i todo => i :: todo
  | _ => []

def todoOf : PubPc → List Nat
  | .loop todo => todo
  | .sending _ todo => todo
  | _ => []

def phase (sb : Sub) (tn im cl cc : Bool) : Bool :=
  sb.topicNil == tn && sb.inMap == im && sb.closing == cl && sb.chClosed == cc

/-- what a subscription looks like at each program counter of its goroutine -/
def subOk (fixed : Bool) (sb : Sub) : Bool :=
  sb.nClosing == sb.closing.toNat && sb.nCh == sb.chClosed.toNat &&
  match sb.pc with
  | .start | .subscribing => !sb.smu && phase sb true false false false
  | .ready | .nextWait => !sb.smu && phase sb false true false false
  | .cLock => !sb.smu && (phase sb false true false false || phase sb true false fixed true)
  | .cCheck => sb.smu && (phase sb false true false false || phase sb true false fixed true)
  | .cClosing => sb.smu && fixed && phase sb false true false false
  | .cLockT | .cUnsub => sb.smu && phase sb false true fixed false
  | .cUnlockT | .cNil => sb.smu && phase sb false false fixed true
  | .cUnlockS => sb.smu && phase sb true false fixed true
  | .closedIdle | .done => !sb.smu && phase sb true false fixed true

theorem subOk_step {fixed : Bool} {tmu : Option Tid} {c : Bool} {sb : Sub} {a : SubAct}
    (hg : subGuard tmu c sb a = true) (h : subOk fixed sb = true) :
    subOk fixed (subLoc fixed sb a) = true := by
  obtain ⟨pc, smu, tn, im, cl, cc, n1, n2, got⟩ := sb
  cases a <;> cases pc <;> simp [subGuard] at hg <;> cases fixed <;> cases tn <;> cases im <;>
    simp_all [subOk, subLoc, phase]

/-- how a subscriber step changes the ownership of the topic mutex -/
theorem holds_step {fixed : Bool} {tmu : Option Tid} {c : Bool} {sb : Sub} {a : SubAct} (i : Nat)
    (hg : subGuard tmu c sb a = true) :
    (holdsT sb.pc = false ∧ tmu = none ∧ holdsT (subLoc fixed sb a).pc = true ∧
        subTmu i tmu a = some (.sub i)) ∨
    (holdsT sb.pc = true ∧ holdsT (subLoc fixed sb a).pc = false ∧ subTmu i tmu a = none) ∨
    (holdsT (subLoc fixed sb a).pc = holdsT sb.pc ∧ subTmu i tmu a = tmu) := by
  obtain ⟨pc, smu, tn, im, cl, cc, n1, n2, got⟩ := sb
  cases a <;> cases pc <;> simp [subGuard] at hg <;> cases fixed <;> cases tn <;> cases im <;>
    simp_all [subLoc, subTmu, holdsT]

/-- only the holder of the topic mutex removes a subscription from the map -/
theorem inMap_step {fixed : Bool} {tmu : Option Tid} {c : Bool} {sb : Sub} {a : SubAct}
    (hg : subGuard tmu c sb a = true) (him : sb.inMap = true) :
    (subLoc fixed sb a).inMap = true ∨ holdsT sb.pc = true := by
  obtain ⟨pc, smu, tn, im, cl, cc, n1, n2, got⟩ := sb
  cases a <;> cases pc <;> simp [subGuard] at hg <;> cases fixed <;> cases tn <;>
    simp_all [subLoc, holdsT]

structure Inv (k : Nat) (s : St) : Prop where
  len : s.subs.length = k
  pubT : pubHolds s.pub = true ↔ s.tmu = some .pub
  subT : ∀ (i : Nat) (sb : Sub), s.subs[i]? = some sb → (holdsT sb.pc = true ↔ s.tmu = some (.sub i))
  tmuSub : ∀ i : Nat, s.tmu = some (.sub i) → i < s.subs.length
  loc : ∀ (i : Nat) (sb : Sub), s.subs[i]? = some sb → subOk s.fixed sb = true
  pend : ∀ j ∈ pending s.pub, ∃ sb, s.subs[j]? = some sb ∧ sb.inMap = true
  sub : (todoOf s.pub).Sublist (List.range k)
  rem : pubRemaining s.pub ≤ k
  noPanic : s.pub ≠ .panic

/-- updating one subscriber by a step that respects the local discipline keeps the invariant -/
theorem inv_sub_update {k : Nat} {s : St} (h : Inv k s) {i : Nat} {sb sb' : Sub} {tmu' : Option Tid}
    (hi : s.subs[i]? = some sb) (hok : subOk s.fixed sb' = true)
    (hh : (holdsT sb.pc = false ∧ s.tmu = none ∧ holdsT sb'.pc = true ∧ tmu' = some (.sub i)) ∨
          (holdsT sb.pc = true ∧ holdsT sb'.pc = false ∧ tmu' = none) ∨
          (holdsT sb'.pc = holdsT sb.pc ∧ tmu' = s.tmu))
    (hm : sb.inMap = true → sb'.inMap = true ∨ holdsT sb.pc = true) :
    Inv k { s with tmu := tmu', subs := s.subs.set i sb' } := by
  have hil : i < s.subs.length := by
    rcases Nat.lt_or_ge i s.subs.length with h1 | h1
    · exact h1
    · rw [List.getElem?_eq_none h1] at hi; cases hi
  have hsi := h.subT i sb hi
  refine ⟨by simp [h.len], ?_, ?_, ?_, ?_, ?_, h.sub, h.rem, h.noPanic⟩
  · -- pubT
    show pubHolds s.pub = true ↔ tmu' = some .pub
    rw [h.pubT]
    rcases hh with ⟨_, h2, _, h4⟩ | ⟨h1, _, h3⟩ | ⟨_, h2⟩
    · rw [h2, h4]; simp
    · rw [h3, hsi.mp h1]; simp
    · rw [h2]
  · -- subT
    intro j y hj
    show holdsT y.pc = true ↔ tmu' = some (.sub j)
    rcases getElem?_set_some hi hj with ⟨rfl, rfl⟩ | ⟨hne, hj'⟩
    · rcases hh with ⟨_, _, h3, h4⟩ | ⟨h1, h2, h3⟩ | ⟨h1, h2⟩
      · simp [h3, h4]
      · simp [h2, h3]
      · rw [h1, h2]; exact hsi
    · have hsj := h.subT j y hj'
      rcases hh with ⟨_, h2, _, h4⟩ | ⟨h1, _, h3⟩ | ⟨_, h2⟩
      · rw [h4]; rw [h2] at hsj; simp at hsj; simp [hsj]; exact fun e => hne e.symm
      · rw [h3]; rw [hsi.mp h1] at hsj; simp at hsj ⊢
        cases hy : holdsT y.pc
        · rfl
        · exact absurd (hsj.mp hy).symm hne
      · rw [h2]; exact hsj
  · -- tmuSub
    intro j hj
    show j < (s.subs.set i sb').length
    have hj : tmu' = some (.sub j) := hj
    rw [List.length_set]
    rcases hh with ⟨_, _, _, h4⟩ | ⟨_, _, h3⟩ | ⟨_, h2⟩
    · rw [h4] at hj; cases hj; exact hil
    · rw [h3] at hj; cases hj
    · rw [h2] at hj; exact h.tmuSub j hj
  · -- loc
    intro j y hj
    rcases getElem?_set_some hi hj with ⟨rfl, rfl⟩ | ⟨_, hj'⟩
    · exact hok
    · exact h.loc j y hj'
  · -- pend
    intro j hj
    have := h.pend j hj
    obtain ⟨y, hy, hym⟩ := this
    show ∃ z, (s.subs.set i sb')[j]? = some z ∧ z.inMap = true
    by_cases hji : j = i
    · subst hji
      rw [hi] at hy; cases hy
      refine ⟨sb', by simp [hil], ?_⟩
      rcases hm hym with h1 | h1
      · exact h1
      · -- the subscriber holds the topic mutex, but the publisher does too
        have hp : pubHolds s.pub = true := by
          cases hpc : s.pub <;> simp [hpc, pending] at hj <;> rfl
        have := h.pubT.mp hp
        rw [hsi.mp h1] at this; cases this
    · exact ⟨y, by rw [List.getElem?_set_ne (fun e : i = j => hji e.symm)]; exact hy, hym⟩

/-- moving the publisher inside (or outside) `Publish` without touching the mutex -/
theorem inv_pub_update {k : Nat} {s : St} (h : Inv k s) {p' : PubPc}
    (hh : pubHolds p' = pubHolds s.pub) (hp : ∀ j ∈ pending p', j ∈ pending s.pub)
    (hs : (todoOf p').Sublist (List.range k)) (hr : pubRemaining p' ≤ k) (hn : p' ≠ .panic) :
    Inv k { s with pub := p' } :=
  ⟨h.len, by show pubHolds p' = true ↔ _; rw [hh]; exact h.pubT, h.subT, h.tmuSub, h.loc,
   fun j hj => h.pend j (hp j hj), hs, hr, hn⟩

/-- a subscription that is in the map has an open channel -/
theorem subOk_inMap {fixed : Bool} {sb : Sub} (h : subOk fixed sb = true) (hm : sb.inMap = true) :
    sb.chClosed = false ∧ sb.topicNil = false ∧
    (sb.pc = .ready ∨ sb.pc = .nextWait ∨ sb.pc = .cLock ∨ sb.pc = .cCheck ∨ sb.pc = .cClosing ∨
     sb.pc = .cLockT ∨ sb.pc = .cUnsub) := by
  obtain ⟨pc, smu, tn, im, cl, cc, n1, n2, got⟩ := sb
  cases pc <;> cases fixed <;> cases tn <;> cases cc <;> simp_all [subOk, phase]

theorem inMapIdx_mem {subs : List Sub} {j : Nat} (h : j ∈ inMapIdx subs) :
    ∃ sb, subs[j]? = some sb ∧ sb.inMap = true := by
  simp only [inMapIdx, List.mem_filter] at h
  cases hj : subs[j]? with
  | none => simp [hj] at h
  | some sb => simp [hj] at h; exact ⟨sb, rfl, h.2⟩

theorem inv_init (fixed : Bool) (k : Nat) : Inv k (init fixed k) := by
  refine ⟨by simp [init], by simp [init, pubHolds], ?_, by simp [init], ?_, by simp [init, pending],
    by simp [init, todoOf], by simp [init, pubRemaining], by simp [init]⟩
  · intro i sb hi
    simp [init, List.getElem?_replicate] at hi
    obtain ⟨_, rfl⟩ := hi
    simp [init, holdsT]
  · intro i sb hi
    simp [init, List.getElem?_replicate] at hi
    obtain ⟨_, rfl⟩ := hi
    cases fixed <;> simp [subOk, phase]

theorem inv_step {k : Nat} {s : St} (h : Inv k s) (a : Step) (he : enabled s a) : Inv k (next s a) := by
  unfold enabled at he
  cases a with
  | pubCall =>
    simp [guard] at he
    exact inv_pub_update h (by simp [he, pubHolds]) (by simp [pending]) (by simp [todoOf])
      (by simp [pubRemaining]) (by simp)
  | pubFinish =>
    simp [guard] at he
    exact inv_pub_update h (by simp [he, pubHolds]) (by simp [pending]) (by simp [todoOf])
      (by simp [pubRemaining]) (by simp)
  | pubLock =>
    simp [guard] at he
    obtain ⟨hp, ht⟩ := he
    have hsl : (inMapIdx s.subs).Sublist (List.range k) := by
      rw [← h.len]; exact List.filter_sublist
    refine ⟨h.len, by simp [next, pubHolds], ?_, ?_, h.loc, ?_, hsl, ?_, by simp [next]⟩
    · intro i sb hi
      have := h.subT i sb hi
      rw [ht] at this
      simp at this
      simp [next, this]
    · intro i hi; simp [next] at hi
    · intro j hj; exact inMapIdx_mem hj
    · have := hsl.length_le; simpa [next, pubRemaining] using this
  | pubPick i =>
    cases hp : s.pub <;> simp [guard, hp] at he
    rename_i todo
    have hsub : todo.Sublist (List.range k) := by have := h.sub; rwa [hp] at this
    have hlen : (todo.erase i).length + 1 = todo.length := by
      rw [List.length_erase_of_mem he]
      have : 0 < todo.length := List.length_pos_of_mem he
      omega
    simp only [next, hp]
    refine inv_pub_update h (by simp [hp, pubHolds]) ?_ ?_ ?_ (by simp)
    · intro j hj
      simp only [pending, List.mem_cons] at hj
      rw [hp]; simp only [pending]
      rcases hj with rfl | hj
      · exact he
      · exact List.mem_of_mem_erase hj
    · exact (List.erase_sublist).trans hsub
    · simp only [pubRemaining]; rw [hlen]; have := hsub.length_le; simpa using this
  | pubDeliver =>
    cases hp : s.pub <;> simp [guard, hp] at he
    rename_i i todo
    cases hi : s.subs[i]? with
    | none => simp [hi] at he
    | some sb =>
      simp [hi] at he
      have hok := h.loc i sb hi
      have h1 := inv_sub_update (tmu' := s.tmu) (sb' := { sb with pc := .ready, got := sb.got + 1 }) h hi
        (by
          obtain ⟨pc, smu, tn, im, cl, cc, n1, n2, got⟩ := sb
          simp at he; obtain ⟨rfl, rfl⟩ := he
          simpa [subOk, phase] using hok)
        (Or.inr (Or.inr ⟨by simp [he.1, holdsT], rfl⟩)) (fun hm => Or.inl hm)
      have h2 := inv_pub_update (p' := .loop todo) h1 (by simp [hp, pubHolds])
        (by intro j hj; simp only [hp, pending] at hj ⊢; exact List.mem_cons_of_mem _ hj)
        (by have := h.sub; rwa [hp] at this)
        (by have := h.rem; rw [hp] at this; simp only [pubRemaining] at this ⊢; omega) (by simp)
      simpa [next, hp, hi] using h2
  | pubSkip =>
    cases hp : s.pub <;> simp [guard, hp] at he
    rename_i i todo
    simp only [next, hp]
    exact inv_pub_update (p' := .loop todo) h (by simp [hp, pubHolds])
        (by intro j hj; simp only [hp, pending] at hj ⊢; exact List.mem_cons_of_mem _ hj)
        (by have := h.sub; rwa [hp] at this)
        (by have := h.rem; rw [hp] at this; simp only [pubRemaining] at this ⊢; omega) (by simp)
  | pubSendClosed =>
    cases hp : s.pub <;> simp [guard, hp] at he
    rename_i i todo
    cases hi : s.subs[i]? with
    | none => simp [hi] at he
    | some sb =>
      simp [hi] at he
      obtain ⟨sb', hi', hm⟩ := h.pend i (by simp [hp, pending])
      rw [hi] at hi'; cases hi'
      have := (subOk_inMap (h.loc i sb hi) hm).1
      rw [he] at this; cases this
  | pubUnlock =>
    simp [guard] at he
    have ht : s.tmu = some .pub := h.pubT.mp (by simp [he, pubHolds])
    refine ⟨h.len, by simp [next, pubHolds], ?_, ?_, h.loc, by simp [next, pending],
      by simp [next, todoOf], by simp [next, pubRemaining], by simp [next]⟩
    · intro i sb hi
      have := h.subT i sb hi
      rw [ht] at this
      simp at this
      simp [next, this]
    · intro i hi; simp [next] at hi
  | cancel =>
    exact ⟨h.len, h.pubT, h.subT, h.tmuSub, h.loc, h.pend, h.sub, h.rem, h.noPanic⟩
  | sub i a =>
    cases hi : s.subs[i]? with
    | none => simp [guard, hi] at he
    | some sb =>
      simp only [guard, hi] at he
      simp only [next, hi]
      exact inv_sub_update h hi (subOk_step he (h.loc i sb hi)) (holds_step i he) (inMap_step he)

theorem inv_reach {fixed : Bool} {k : Nat} {s : St} (h : Reach fixed k s) : Inv k s := by
  induction h with
  | init => exact inv_init fixed k
  | step a _ he ih => exact inv_step ih a he

theorem fixed_reach {fixed : Bool} {k : Nat} {s : St} (h : Reach fixed k s) : s.fixed = fixed := by
  induction h with
  | init => rfl
  | step a _ he ih =>
    rw [← ih]
    cases a <;> simp only [next] <;> (try rfl) <;> split <;> (try rfl) <;> split <;> rfl

end Ls.Conc.Topic
