import LsModel.Cleaner
import LsModel.CleanerSpec
/-
  Lemmas about one `RunOnce` of the cleaner model: map lookups, the two filters, the sort, and what
  ends up being passed to Delete. Core Lean only.
-/
namespace Ls.Cleaner

/-! ### association lists -/

@[simp] theorem look_nil (k : String) : look k [] = none := rfl

theorem look_cons (k a : String) (v : Int) (es : List (String × Int)) :
    look k ((a, v) :: es) = if k = a then some v else look k es := rfl

theorem look_filter (p : String → Bool) (k : String) (es : List (String × Int)) :
    look k (es.filter (fun q => p q.1)) = if p k then look k es else none := by
  induction es with
  | nil => simp
  | cons e es ih =>
    obtain ⟨a, v⟩ := e
    by_cases hpa : p a = true
    · have h1 : List.filter (fun q => p q.1) ((a, v) :: es) = (a, v) :: List.filter (fun q => p q.1) es := by
        simp [hpa]
      rw [h1, look_cons, look_cons, ih]
      by_cases hk : k = a
      · subst hk; simp [hpa]
      · simp [hk]
    · have h1 : List.filter (fun q => p q.1) ((a, v) :: es) = List.filter (fun q => p q.1) es := by
        simp [hpa]
      rw [h1, ih, look_cons]
      by_cases hk : k = a
      · subst hk; simp [hpa]
      · simp [hk]

theorem look_mem {k : String} {v : Int} {es : List (String × Int)} (h : look k es = some v) :
    (k, v) ∈ es := by
  induction es with
  | nil => simp at h
  | cons e es ih =>
    obtain ⟨a, w⟩ := e
    rw [look_cons] at h
    by_cases hk : k = a
    · rw [if_pos hk] at h; cases h; subst hk; simp
    · rw [if_neg hk] at h; exact List.mem_cons_of_mem _ (ih h)

/-! ### the first filter -/

section filters
variable (mk ro now : Int)

theorem filter1_sublist : ∀ (cs : List Cand) (fs : List (String × Int)) (seen : List String),
    (filter1 mk now cs fs seen).1.Sublist cs := by
  intro cs
  induction cs with
  | nil => intro fs seen; simp [filter1]
  | cons x xs ih =>
    intro fs seen
    unfold filter1
    split
    · exact (ih _ _).cons _
    · split
      · exact (ih _ _).cons _
      · exact (ih _ _).cons_cons _

/-- a candidate that survives the first filter was already in snapFirstSeen, longer ago than the
    keep interval -/
theorem filter1_kept : ∀ (cs : List Cand) (fs : List (String × Int)) (seen : List String) (c : Cand),
    (cs.map (·.name)).Nodup → c ∈ (filter1 mk now cs fs seen).1 →
    c ∈ cs ∧ ∃ t, look c.name fs = some t ∧ now - t > mk := by
  intro cs
  induction cs with
  | nil => intro fs seen c _ h; simp [filter1] at h
  | cons x xs ih =>
    intro fs seen c hnd h
    have hnd' : (xs.map (·.name)).Nodup := (List.nodup_cons.mp (by simpa using hnd)).2
    have hx : x.name ∉ xs.map (·.name) := (List.nodup_cons.mp (by simpa using hnd)).1
    unfold filter1 at h
    split at h
    · obtain ⟨hc, t, ht, hgt⟩ := ih _ _ c hnd' h
      refine ⟨List.mem_cons_of_mem _ hc, t, ?_, hgt⟩
      have hne : c.name ≠ x.name := fun e => hx (e ▸ List.mem_map_of_mem hc)
      rw [look_cons, if_neg hne] at ht
      exact ht
    · rename_i t ht
      split at h
      · obtain ⟨hc, r⟩ := ih _ _ c hnd' h
        exact ⟨List.mem_cons_of_mem _ hc, r⟩
      · rename_i hgt
        rcases List.mem_cons.mp h with rfl | h
        · exact ⟨List.mem_cons_self, t, ht, by omega⟩
        · obtain ⟨hc, r⟩ := ih _ _ c hnd' h
          exact ⟨List.mem_cons_of_mem _ hc, r⟩

/-- conversely: a candidate known for longer than the keep interval survives the first filter -/
theorem filter1_kept_of : ∀ (cs : List Cand) (fs : List (String × Int)) (seen : List String)
    (c : Cand) (t : Int), c ∈ cs → look c.name fs = some t → now - t > mk →
    c ∈ (filter1 mk now cs fs seen).1 := by
  intro cs
  induction cs with
  | nil => intro fs seen c t h; simp at h
  | cons x xs ih =>
    intro fs seen c t hc ht hgt
    unfold filter1
    split
    · rename_i hx
      rcases List.mem_cons.mp hc with rfl | hc
      · rw [hx] at ht; cases ht
      · refine ih _ _ c t hc ?_ hgt
        have hne : c.name ≠ x.name := fun e => by rw [e, hx] at ht; cases ht
        rw [look_cons, if_neg hne]; exact ht
    · rename_i u hu
      split
      · rename_i hle
        rcases List.mem_cons.mp hc with rfl | hc
        · rw [hu] at ht; cases ht; omega
        · exact ih _ _ c t hc ht hgt
      · rcases List.mem_cons.mp hc with rfl | hc
        · exact List.mem_cons_self
        · exact List.mem_cons_of_mem _ (ih _ _ c t hc ht hgt)

/-- an instance is marked by the first filter only on account of a snapshot already in
    snapFirstSeen and still inside the keep interval -/
theorem filter1_seen : ∀ (cs : List Cand) (fs : List (String × Int)) (seen : List String) (i : String),
    (cs.map (·.name)).Nodup → i ∈ (filter1 mk now cs fs seen).2.2 →
    i ∈ seen ∨ ∃ c ∈ cs, c.inst = i ∧ ∃ t, look c.name fs = some t ∧ now - t ≤ mk := by
  intro cs
  induction cs with
  | nil => intro fs seen i _ h; exact Or.inl (by simpa [filter1] using h)
  | cons x xs ih =>
    intro fs seen i hnd h
    have hnd' : (xs.map (·.name)).Nodup := (List.nodup_cons.mp (by simpa using hnd)).2
    have hx : x.name ∉ xs.map (·.name) := (List.nodup_cons.mp (by simpa using hnd)).1
    unfold filter1 at h
    split at h
    · rcases ih _ _ i hnd' h with h | ⟨c, hc, hi, t, ht, hle⟩
      · exact Or.inl h
      · refine Or.inr ⟨c, List.mem_cons_of_mem _ hc, hi, t, ?_, hle⟩
        have hne : c.name ≠ x.name := fun e => hx (e ▸ List.mem_map_of_mem hc)
        rw [look_cons, if_neg hne] at ht
        exact ht
    · rename_i t ht
      split at h
      · rename_i hle
        rcases ih _ _ i hnd' h with h | ⟨c, hc, r⟩
        · rcases List.mem_cons.mp h with rfl | h
          · exact Or.inr ⟨x, List.mem_cons_self, rfl, t, ht, hle⟩
          · exact Or.inl h
        · exact Or.inr ⟨c, List.mem_cons_of_mem _ hc, r⟩
      · rcases ih _ _ i hnd' h with h | ⟨c, hc, r⟩
        · exact Or.inl h
        · exact Or.inr ⟨c, List.mem_cons_of_mem _ hc, r⟩

/-- snapFirstSeen after the first filter: existing entries are kept, every candidate without one gets
    `now` -/
theorem filter1_fs : ∀ (cs : List Cand) (fs : List (String × Int)) (seen : List String) (n : String),
    look n (filter1 mk now cs fs seen).2.1 =
      match look n fs with
      | some t => some t
      | none => if n ∈ cs.map (·.name) then some now else none := by
  intro cs
  induction cs with
  | nil => intro fs seen n; simp [filter1]; split <;> simp_all
  | cons x xs ih =>
    intro fs seen n
    unfold filter1
    split
    · rename_i hx
      rw [ih, look_cons]
      by_cases hn : n = x.name
      · subst hn; simp [hx]
      · simp [hn]
    · rename_i t ht
      have key : look n (filter1 mk now xs fs seen).2.1 =
          match look n fs with
          | some t => some t
          | none => if n ∈ (x :: xs).map (·.name) then some now else none := by
        rw [ih]
        by_cases hn : n = x.name
        · subst hn; simp [ht]
        · simp only [List.map_cons, List.mem_cons, hn, false_or]
      split
      · rw [ih]
        by_cases hn : n = x.name
        · subst hn; simp [ht]
        · simp only [List.map_cons, List.mem_cons, hn, false_or]
      · exact key

/-! ### the second filter -/

theorem filter2_rem_sublist : ∀ (cs : List Cand) (seen : List String),
    (filter2 ro now cs seen).1.Sublist cs := by
  intro cs
  induction cs with
  | nil => intro seen; simp [filter2]
  | cons x xs ih =>
    intro seen
    unfold filter2
    split
    · exact (ih _).cons_cons _
    · exact (ih _).cons _

/-- whatever the second filter hands to the first delete loop belongs to an instance that was marked by
    the first filter or has an earlier candidate in the (sorted) list -/
theorem filter2_rem (R : Cand → Cand → Prop) : ∀ (cs : List Cand) (seen : List String) (c : Cand),
    cs.Pairwise R → c ∈ (filter2 ro now cs seen).1 →
    c.inst ∈ seen ∨ ∃ e ∈ cs, e.inst = c.inst ∧ R e c := by
  intro cs
  induction cs with
  | nil => intro seen c _ h; simp [filter2] at h
  | cons x xs ih =>
    intro seen c hp h
    obtain ⟨hx, hp'⟩ := List.pairwise_cons.mp hp
    unfold filter2 at h
    split at h
    · rename_i hin
      rcases List.mem_cons.mp h with rfl | h
      · exact Or.inl hin
      · rcases ih _ c hp' h with h | ⟨e, he, r⟩
        · exact Or.inl h
        · exact Or.inr ⟨e, List.mem_cons_of_mem _ he, r⟩
    · have hc : c ∈ xs := (filter2_rem_sublist ro now xs _).subset h
      rcases ih _ c hp' h with h | ⟨e, he, r⟩
      · rcases List.mem_cons.mp h with h | h
        · exact Or.inr ⟨x, List.mem_cons_self, h.symm, hx c hc⟩
        · exact Or.inl h
      · exact Or.inr ⟨e, List.mem_cons_of_mem _ he, r⟩

/-- conversely: a candidate of a marked instance, or with a strictly newer candidate of its instance in
    the list, is handed to the first delete loop -/
theorem filter2_rem_of : ∀ (cs : List Cand) (seen : List String) (c : Cand),
    cs.Pairwise (fun x y => ¬ y.ts > x.ts) → c ∈ cs →
    (c.inst ∈ seen ∨ ∃ e ∈ cs, e.inst = c.inst ∧ e.ts > c.ts) →
    c ∈ (filter2 ro now cs seen).1 := by
  intro cs
  induction cs with
  | nil => intro seen c _ h; simp at h
  | cons x xs ih =>
    intro seen c hp hc hor
    obtain ⟨hx, hp'⟩ := List.pairwise_cons.mp hp
    unfold filter2
    split
    · rename_i hin
      rcases List.mem_cons.mp hc with rfl | hc
      · exact List.mem_cons_self
      · refine List.mem_cons_of_mem _ (ih _ c hp' hc ?_)
        rcases hor with h | ⟨e, he, hi, hgt⟩
        · exact Or.inl h
        · rcases List.mem_cons.mp he with rfl | he
          · exact Or.inl (hi ▸ hin)
          · exact Or.inr ⟨e, he, hi, hgt⟩
    · rename_i hnin
      rcases List.mem_cons.mp hc with rfl | hc
      · exfalso
        rcases hor with h | ⟨e, he, hi, hgt⟩
        · exact hnin h
        · rcases List.mem_cons.mp he with rfl | he
          · omega
          · exact hx e he hgt
      · refine ih _ c hp' hc ?_
        rcases hor with h | ⟨e, he, hi, hgt⟩
        · exact Or.inl (List.mem_cons_of_mem _ h)
        · rcases List.mem_cons.mp he with rfl | he
          · exact Or.inl (hi ▸ List.mem_cons_self)
          · exact Or.inr ⟨e, he, hi, hgt⟩

theorem filter2_old : ∀ (cs : List Cand) (seen : List String) (c : Cand),
    c ∈ (filter2 ro now cs seen).2 → c ∈ cs ∧ now - c.ts > ro := by
  intro cs
  induction cs with
  | nil => intro seen c h; simp [filter2] at h
  | cons x xs ih =>
    intro seen c h
    unfold filter2 at h
    split at h
    · obtain ⟨hc, r⟩ := ih _ c h
      exact ⟨List.mem_cons_of_mem _ hc, r⟩
    · dsimp only at h
      split at h
      · rename_i hgt
        rcases List.mem_cons.mp h with rfl | h
        · exact ⟨List.mem_cons_self, hgt⟩
        · obtain ⟨hc, r⟩ := ih _ c h
          exact ⟨List.mem_cons_of_mem _ hc, r⟩
      · obtain ⟨hc, r⟩ := ih _ c h
        exact ⟨List.mem_cons_of_mem _ hc, r⟩

end filters

end Ls.Cleaner
