import LsLemmas.CleanerRun
/-
  Invariants of the cleaner over arbitrary histories (induction over the event list): the Worker's
  snapFirstSeen equals the `since` observer on snapshot names, ignored names are unparsable, first-seen
  times are ordered like snapshot timestamps under the property's assumptions, and `lastByInstance` only
  holds what SetCommitted was given.
-/
namespace Ls.Cleaner

variable {parse : Parse} {cfg : Cfg}

theorem rev_induction {α : Type} {P : List α → Prop} (nil : P [])
    (snoc : ∀ l a, P l → P (l ++ [a])) : ∀ l, P l := by
  intro l
  have h : ∀ l : List α, P l.reverse := by
    intro l
    induction l with
    | nil => simpa using nil
    | cons a l ih => rw [List.reverse_cons]; exact snoc _ _ ih
  simpa using h l.reverse

theorem exec_snoc (h : List Ev) (e : Ev) :
    exec parse cfg (h ++ [e]) = step parse cfg (exec parse cfg h) e := by
  simp [exec, List.foldl_append]

theorem exec_append (h h' : List Ev) :
    exec parse cfg (h ++ h') = h'.foldl (step parse cfg) (exec parse cfg h) := by
  simp [exec, List.foldl_append]

theorem since_snoc (h : List Ev) (e : Ev) : since (h ++ [e]) = sinceStep (since h) e := by
  simp [since, List.foldl_append]

theorem nows_append (h h' : List Ev) : nows (h ++ h') = nows h ++ nows h' := by
  induction h with
  | nil => rfl
  | cons e es ih => cases e <;> simp [nows, ih]

/-! ### the assumptions are closed under prefixes -/

theorem MonotoneClock.prefix {h : List Ev} {e : Ev} (hm : MonotoneClock (h ++ [e])) :
    MonotoneClock h := by
  unfold MonotoneClock at hm ⊢
  rw [nows_append] at hm
  exact (List.pairwise_append.mp hm).1

theorem MonotoneClock.last {h : List Ev} {now : Int} {l : Option (List String)} {df : String → Bool}
    (hm : MonotoneClock (h ++ [Ev.run now l df])) : ∀ t ∈ nows h, t ≤ now := by
  unfold MonotoneClock at hm
  rw [nows_append] at hm
  intro t ht
  exact (List.pairwise_append.mp hm).2.2 t ht now (by simp [nows])

theorem AppearInOrder.prefix {h : List Ev} {e : Ev} (ha : AppearInOrder parse (h ++ [e])) :
    AppearInOrder parse h := by
  intro h' now l df hp
  exact ha h' now l df (hp.trans (List.prefix_append _ _))

theorem AppearInOrder.last {h : List Ev} {now : Int} {l : List String} {df : String → Bool}
    (ha : AppearInOrder parse (h ++ [Ev.run now (some l) df])) :
    ∀ a b i j, a ∈ l → b ∈ l → IsSnap parse a i → IsSnap parse b j → i.inst = j.inst →
      since h a = none → since h b ≠ none → j.ts ≤ i.ts :=
  ha h now l df (List.prefix_refl _)

/-- building `AppearInOrder` event by event -/
theorem AppearInOrder.nil : AppearInOrder parse [] := by
  intro h' now l df hp
  have := List.prefix_nil.mp hp
  simp at this

theorem AppearInOrder.snoc_run {h : List Ev} {now : Int} {l : List String} {df : String → Bool}
    (ha : AppearInOrder parse h)
    (hl : ∀ a b i j, a ∈ l → b ∈ l → IsSnap parse a i → IsSnap parse b j → i.inst = j.inst →
      since h a = none → since h b ≠ none → j.ts ≤ i.ts) :
    AppearInOrder parse (h ++ [Ev.run now (some l) df]) := by
  intro h' now' l' df' hp
  rcases List.prefix_concat_iff.mp hp with heq | hp
  · obtain ⟨h1, h2⟩ := List.append_inj' heq rfl
    subst h1
    cases h2
    exact hl
  · exact ha h' now' l' df' hp

theorem AppearInOrder.snoc_other {h : List Ev} {e : Ev} (ha : AppearInOrder parse h)
    (he : ∀ now l df, e ≠ Ev.run now (some l) df) : AppearInOrder parse (h ++ [e]) := by
  intro h' now' l' df' hp
  rcases List.prefix_concat_iff.mp hp with heq | hp
  · obtain ⟨_, h2⟩ := List.append_inj' heq rfl
    cases h2
    exact absurd rfl (he now' l' df')
  · exact ha h' now' l' df' hp

/-! ### the `since` observer -/

theorem since_run (h : List Ev) (now : Int) (l : List String) (df : String → Bool) (n : String) :
    since (h ++ [Ev.run now (some l) df]) n =
      if n ∈ l then (match since h n with | some t => some t | none => some now) else none := by
  rw [since_snoc]; rfl

theorem since_listFails (h : List Ev) (now : Int) (df : String → Bool) :
    since (h ++ [Ev.run now none df]) = since h := by
  rw [since_snoc]; rfl

theorem since_commit (h : List Ev) (m : List (String × Int)) :
    since (h ++ [Ev.commit m]) = since h := by
  rw [since_snoc]; rfl

/-- a recorded first-seen time is the `now` of some earlier run -/
theorem since_mem_nows : ∀ (h : List Ev) (n : String) (t : Int), since h n = some t → t ∈ nows h := by
  intro h
  induction h using rev_induction with
  | nil => intro n t ht; simp [since] at ht
  | snoc h e ih =>
    intro n t ht
    rw [nows_append]
    cases e with
    | commit m => rw [since_commit] at ht; exact List.mem_append_left _ (ih n t ht)
    | run now l df =>
      cases l with
      | none => rw [since_listFails] at ht; exact List.mem_append_left _ (ih n t ht)
      | some l =>
        rw [since_run] at ht
        split at ht
        · cases hs : since h n with
          | some u =>
            rw [hs] at ht; cases ht
            exact List.mem_append_left _ (ih n _ hs)
          | none =>
            rw [hs] at ht; cases ht
            exact List.mem_append_right _ (by simp [nows])
        · cases ht

/-- under a clock that never goes backwards and snapshots appearing in timestamp order, first-seen times
    of the snapshots of one instance are ordered like their timestamps -/
theorem since_ordered : ∀ (h : List Ev), MonotoneClock h → AppearInOrder parse h →
    ∀ a b i j t u, IsSnap parse a i → IsSnap parse b j → i.inst = j.inst → i.ts < j.ts →
      since h a = some t → since h b = some u → t ≤ u := by
  intro h
  induction h using rev_induction with
  | nil => intro _ _ a b i j t u _ _ _ _ ht; simp [since] at ht
  | snoc h e ih =>
    intro hm ha a b i j t u hsa hsb hi hts hta htb
    have ih' := ih hm.prefix ha.prefix a b i j
    cases e with
    | commit m => rw [since_commit] at hta htb; exact ih' t u hsa hsb hi hts hta htb
    | run now l df =>
      cases l with
      | none => rw [since_listFails] at hta htb; exact ih' t u hsa hsb hi hts hta htb
      | some l =>
        rw [since_run] at hta htb
        split at hta
        · rename_i hal
          split at htb
          · rename_i hbl
            cases hsa' : since h a with
            | some t' =>
              rw [hsa'] at hta; cases hta
              cases hsb' : since h b with
              | some u' =>
                rw [hsb'] at htb; cases htb
                exact ih' _ _ hsa hsb hi hts hsa' hsb'
              | none =>
                rw [hsb'] at htb; cases htb
                exact hm.last _ (since_mem_nows h a _ hsa')
            | none =>
              rw [hsa'] at hta; cases hta
              cases hsb' : since h b with
              | some u' =>
                have := ha.last a b i j hal hbl hsa hsb hi hsa' (by rw [hsb']; simp)
                omega
              | none =>
                rw [hsb'] at htb; cases htb
                exact Int.le_refl _
          · cases htb
        · cases hta

/-! ### the Worker's bookkeeping against the observer -/

/-- what holds of the Worker's state after any history (enabled cleaner) -/
structure Inv (parse : Parse) (cfg : Cfg) (h : List Ev) : Prop where
  /-- `ignoredFilenames` only holds names ParseName rejects -/
  ignored : ∀ n ∈ (exec parse cfg h).ignored, parse n = none
  /-- on snapshot names `snapFirstSeen` is the `since` observer -/
  seen : ∀ n i, IsSnap parse n i → look n (exec parse cfg h).firstSeen = since h n
  /-- and it holds nothing else -/
  unseen : ∀ n, (∀ i, ¬ IsSnap parse n i) → look n (exec parse cfg h).firstSeen = none

theorem mem_candidates_names {st : St} (hig : ∀ n ∈ st.ignored, parse n = none) {l : List String}
    {n : String} :
    n ∈ (candidates parse st l).map (·.name) ↔ n ∈ l ∧ ∃ i, IsSnap parse n i := by
  rw [mem_names_iff]
  constructor
  · rintro ⟨c, hc, rfl⟩
    exact ⟨(candidates_isSnap hc).1, _, (candidates_isSnap hc).2⟩
  · rintro ⟨hn, i, hs⟩
    refine ⟨⟨n, i.inst, i.ts⟩, candidate_of_isSnap hn hs ?_, rfl⟩
    intro hin
    have := hig n hin
    rw [hs.1] at this; cases this

theorem inv (he : cfg.enabled = true) : ∀ h : List Ev, Inv parse cfg h := by
  intro h
  induction h using rev_induction with
  | nil =>
    refine ⟨?_, ?_, ?_⟩
    · intro n hn; simp [exec, St.init] at hn
    · intro n i _; simp [exec, St.init, since]
    · intro n _; simp [exec, St.init]
  | snoc h e ih =>
    cases e with
    | commit m =>
      refine ⟨?_, ?_, ?_⟩
      · intro n hn; rw [exec_snoc] at hn; exact ih.ignored n hn
      · intro n i hs; rw [exec_snoc, since_commit]; exact ih.seen n i hs
      · intro n hs; rw [exec_snoc]; exact ih.unseen n hs
    | run now l df =>
      cases l with
      | none =>
        have hst : exec parse cfg (h ++ [Ev.run now none df]) = exec parse cfg h := by
          rw [exec_snoc]; simp [step, runOnce_listFails he]
        refine ⟨?_, ?_, ?_⟩
        · intro n hn; rw [hst] at hn; exact ih.ignored n hn
        · intro n i hs; rw [hst, since_listFails]; exact ih.seen n i hs
        · intro n hs; rw [hst]; exact ih.unseen n hs
      | some l =>
        have hst : exec parse cfg (h ++ [Ev.run now (some l) df])
            = (runOnce parse cfg (exec parse cfg h) now (some l) df).1 := by
          rw [exec_snoc]; rfl
        refine ⟨?_, ?_, ?_⟩
        · intro n hn
          rw [hst] at hn
          rcases runOnce_ignored he l df hn with hn | hn
          · exact ih.ignored n hn
          · exact hn
        · intro n i hs
          rw [hst, runOnce_firstSeen he, since_run, ih.seen n i hs]
          by_cases hn : n ∈ l
          · rw [if_pos hn, if_pos ((mem_candidates_names ih.ignored).mpr ⟨hn, i, hs⟩)]
            cases since h n <;> rfl
          · rw [if_neg hn, if_neg (fun hc => hn ((mem_candidates_names ih.ignored).mp hc).1)]
        · intro n hs
          rw [hst, runOnce_firstSeen he, if_neg]
          intro hc
          obtain ⟨_, i, hi⟩ := (mem_candidates_names ih.ignored).mp hc
          exact hs i hi

/-! ### a disabled cleaner -/

theorem exec_disabled (he : cfg.enabled = false) : ∀ h : List Ev,
    (exec parse cfg h).ignored = [] ∧ (exec parse cfg h).firstSeen = [] := by
  intro h
  induction h using rev_induction with
  | nil => exact ⟨rfl, rfl⟩
  | snoc h e ih =>
    rw [exec_snoc]
    cases e with
    | commit m => exact ih
    | run now l df => simp only [step, runOnce_disabled he]; exact ih

/-! ### `lastByInstance` -/

theorem look_pushAll (k : String) (t : Int) : ∀ (m c : List (String × Int)),
    look k (m.foldl (fun acc kv => kv :: acc) c) = some t → (k, t) ∈ m ∨ look k c = some t := by
  intro m
  induction m with
  | nil => intro c h; exact Or.inr h
  | cons x xs ih =>
    intro c h
    rcases ih (x :: c) h with h | h
    · exact Or.inl (List.mem_cons_of_mem _ h)
    · obtain ⟨a, v⟩ := x
      rw [look_cons] at h
      by_cases hk : k = a
      · rw [if_pos hk] at h; cases h; subst hk; exact Or.inl List.mem_cons_self
      · rw [if_neg hk] at h; exact Or.inr h

theorem look_pushAll_isSome (k : String) : ∀ (m c : List (String × Int)),
    (look k c).isSome = true → (look k (m.foldl (fun acc kv => kv :: acc) c)).isSome = true := by
  intro m
  induction m with
  | nil => intro c h; exact h
  | cons x xs ih =>
    intro c h
    refine ih (x :: c) ?_
    obtain ⟨a, v⟩ := x
    rw [look_cons]
    by_cases hk : k = a
    · rw [if_pos hk]; rfl
    · rw [if_neg hk]; exact h

/-- the last pair of a SetCommitted argument that mentions the instance is what GetCommitted returns -/
theorem look_pushAll_last (k : String) (t : Int) : ∀ (m c : List (String × Int)),
    (k, t) ∈ m → (∀ u, (k, u) ∈ m → u = t) → look k (m.foldl (fun acc kv => kv :: acc) c) = some t := by
  intro m
  induction m with
  | nil => intro c h; simp at h
  | cons x xs ih =>
    intro c hm hu
    by_cases hx : (k, t) ∈ xs
    · exact ih (x :: c) hx (fun u h => hu u (List.mem_cons_of_mem _ h))
    · have hxe : x = (k, t) := by
        rcases List.mem_cons.mp hm with h | h
        · exact h.symm
        · exact absurd h hx
      subst hxe
      -- no later pair mentions k
      have hno : ∀ u, (k, u) ∉ xs := fun u h => hx (hu u (List.mem_cons_of_mem _ h) ▸ h)
      have key : ∀ (ys c' : List (String × Int)), (∀ u, (k, u) ∉ ys) →
          look k (ys.foldl (fun acc kv => kv :: acc) c') = look k c' := by
        intro ys
        induction ys with
        | nil => intro c' _; rfl
        | cons y ys ih' =>
          intro c' hy
          rw [List.foldl_cons, ih' (y :: c') (fun u h => hy u (List.mem_cons_of_mem _ h))]
          obtain ⟨a, v⟩ := y
          rw [look_cons, if_neg]
          intro hk; subst hk; exact hy v List.mem_cons_self
      rw [List.foldl_cons, key xs _ hno, look_cons, if_pos rfl]

theorem committed_provenance : ∀ (h : List Ev) (inst : String) (t : Int),
    look inst (exec parse cfg h).committed = some t → ∃ m, Ev.commit m ∈ h ∧ (inst, t) ∈ m := by
  intro h
  induction h using rev_induction with
  | nil => intro inst t ht; simp [exec, St.init] at ht
  | snoc h e ih =>
    intro inst t ht
    rw [exec_snoc] at ht
    cases e with
    | commit m =>
      rcases look_pushAll inst t m _ ht with hm | hc
      · exact ⟨m, by simp, hm⟩
      · obtain ⟨m', hm', r⟩ := ih inst t hc
        exact ⟨m', List.mem_append_left _ hm', r⟩
    | run now l df =>
      simp only [step, runOnce_committed] at ht
      obtain ⟨m', hm', r⟩ := ih inst t ht
      exact ⟨m', List.mem_append_left _ hm', r⟩

theorem committed_stays (inst : String) : ∀ (h' : List Ev) (st : St),
    (look inst st.committed).isSome = true →
    (look inst (h'.foldl (step parse cfg) st).committed).isSome = true := by
  intro h'
  induction h' with
  | nil => intro st h; exact h
  | cons e es ih =>
    intro st h
    refine ih _ ?_
    cases e with
    | commit m => exact look_pushAll_isSome inst m _ h
    | run now l df => simp only [step, runOnce_committed]; exact h

end Ls.Cleaner
