import LsLemmas.LoopBound
import LsLemmas.TxnAbsShadowRun
/-
  The sync-loop model (LsModel/SyncLoop.lean, product fleet of LsLemmas/LoopBound.lean) against
  the abstract last-writer-wins fleet (LsLemmas/AbsFleet.lean): what one segment does to the
  environment (at most one transaction of the byte-level fleet), and the simulation of whole
  fleet schedules, native mode and shadow mode (helper lemmas of LsProps/C01Loop.lean).
-/
set_option linter.unusedSimpArgs false
namespace Ls.Loop
open Ls Ls.Lmdb Ls.Txn Ls.SyncLoop

/-! ## 0. the shape of one segment -/

/-- the start-up capture (shadow mode, LMDB non-empty): `mainToShadow` with detection time 1 -/
def bootEnv (c : LoopCfg) (e : Env) : Except Txn.Err Env :=
  if e.lastTxn > 0 ∧ ¬ c.txn.native then
    (mainToShadow c.txn { dbis := e.dbis, dirty := false } (e.lastTxn + 1) 1 0).map (commit e)
  else .ok e

def notSendPc (pc : Pc) : Prop := ∀ who t ts sn, pc ≠ .sendAfterTxn who t ts sn
def notLoadPc (pc : Pc) : Prop := ∀ t lc inst ts n, pc ≠ .loadAfterTxn t lc inst ts n

/-- what one segment `go c b s i` does to the environment, and which transaction it was -/
inductive SegShape (c : LoopCfg) (b : Bucket) (s : St) (i : In) (s' : St) : Prop where
  /-- no transaction committed (nothing to do, a failed transaction, bookkeeping, the store) -/
  | quiet : s'.env = s.env → notSendPc s'.pc → notLoadPc s'.pc → SegShape c b s i s'
  /-- one successful `loadOnce` (cut-off 0) of a blob of the bucket, called with the `lastSynced`
      of the pre-poll state -/
  | load (s1 : St) (n : Nat) (inst : InstId) (ts : Nat) (blob : Blob) (r : LoadRes) :
      prePoll s = some (s1, n) → s1.env = s.env → i.next = some (inst, ts) →
      findBlob b inst ts = some blob → blob ∈ b →
      loadOnce c.txn s.env blob.snap s1.lastSynced i.now 0 = .ok r → s'.env = r.env →
      s'.pc = .loadAfterTxn (s.env.lastTxn + 1) r.localChanged inst ts (n + 1) → SegShape c b s i s'
  /-- one successful `sendOnce` (cut-off 0) from `beforeSend`; the snapshot is kept in the pc -/
  | send (r : SendRes) : s.pc = .beforeSend → sendOnce c.txn s.env i.now 0 = .ok r → s'.env = r.env →
      s'.pc = .sendAfterTxn .loop (if c.txn.native then s.env.lastTxn else s.env.lastTxn + 1) i.now r.snap →
      SegShape c b s i s'
  /-- start-up: the start-up capture (if any), no successful `sendOnce` -/
  | bootNoSend (env1 : Env) : s.pc = .boot → bootEnv c s.env = .ok env1 → s'.env = env1 →
      notSendPc s'.pc → notLoadPc s'.pc → SegShape c b s i s'
  /-- start-up: the start-up capture (if any), then a successful `sendOnce` -/
  | bootSend (env1 : Env) (r : SendRes) : s.pc = .boot → bootEnv c s.env = .ok env1 →
      sendOnce c.txn env1 i.now 0 = .ok r → s'.env = r.env →
      s'.pc = .sendAfterTxn .initial (if c.txn.native then env1.lastTxn else env1.lastTxn + 1) i.now r.snap →
      SegShape c b s i s'

theorem afterSend_pc_cases (c : LoopCfg) (s : St) :
    notSendPc (afterSend c s).pc ∧ notLoadPc (afterSend c s).pc := by
  rw [afterSend_pc]
  constructor
  · intro who t ts sn; split <;> simp
  · intro t lc inst ts n; split <;> simp

theorem sendReturned_pc_cases (c : LoopCfg) (s : St) (who : Caller) (t : Nat) :
    notSendPc (sendReturned c s who t).pc ∧ notLoadPc (sendReturned c s who t).pc := by
  rw [(sendReturned_facts c s who t).2.2.2.2.2]
  constructor
  · intro who' t' ts sn
    cases who
    · simp
    · simp only; split <;> simp
  · intro t' lc inst ts n
    cases who
    · simp
    · simp only; split <;> simp

/-- **one segment is at most one transaction** -/
theorem go_shape (c : LoopCfg) (b : Bucket) (s : St) (i : In) : SegShape c b s i (go c b s i).1 := by
  obtain ⟨gpc, _, genv, _⟩ := go_pc c b s i
  -- it suffices to look at `goRaw`
  suffices h : SegShape c b s i (goRaw c b s i).1 by
    cases h with
    | quiet h1 h2 h3 => exact .quiet (by rw [genv]; exact h1) (by rw [gpc]; exact h2) (by rw [gpc]; exact h3)
    | load s1 n inst ts blob r h1 h2 hx hy h3 h4 h5 h6 =>
      exact .load s1 n inst ts blob r h1 h2 hx hy h3 h4 (by rw [genv]; exact h5) (by rw [gpc]; exact h6)
    | send r h1 h2 h3 h4 => exact .send r h1 h2 (by rw [genv]; exact h3) (by rw [gpc]; exact h4)
    | bootNoSend env1 h1 h2 h3 h4 h5 =>
      exact .bootNoSend env1 h1 h2 (by rw [genv]; exact h3) (by rw [gpc]; exact h4) (by rw [gpc]; exact h5)
    | bootSend env1 r h1 h2 h3 h4 h5 =>
      exact .bootSend env1 r h1 h2 h3 (by rw [genv]; exact h4) (by rw [gpc]; exact h5)
  have hload : ∀ (s1 : St) (n : Nat) (s' : St), s1.env = s.env → prePoll s = some (s1, n) →
      PollOut c b s1 i n s' → SegShape c b s i s' := by
    intro s1 n s' he hpp hp
    cases hp with
    | none hn =>
      refine .quiet he ?_ ?_
      · intro who t ts sn; simp [afterLoads]
      · intro t lc inst ts n'; simp [afterLoads]
    | unknown inst ts hn hb =>
      exact .quiet he (fun _ _ _ _ => by simp) (fun _ _ _ _ _ => by simp)
    | failed inst ts blob e hn hb hl =>
      exact .quiet he (fun _ _ _ _ => by simp) (fun _ _ _ _ _ => by simp)
    | loaded inst ts blob r hn' hb hl =>
      refine .load s1 n inst ts blob r hpp he hn' hb ?_ (by rw [← he]; exact hl) rfl (by rw [← he])
      unfold findBlob at hb
      exact List.mem_of_find?_eq_some hb
  cases hpc : s.pc with
  | boot =>
    unfold goRaw; rw [hpc]
    simp only
    have hbe : bootEnv c s.env =
        (if s.env.lastTxn > 0 ∧ ¬ c.txn.native = true then
          (mainToShadow c.txn { dbis := s.env.dbis, dirty := false } (s.env.lastTxn + 1) 1 0).map (commit s.env)
        else Except.ok s.env) := rfl
    rw [← hbe]
    cases hr : bootEnv c s.env with
    | error e =>
      exact .quiet rfl (fun _ _ _ _ => by simp) (fun _ _ _ _ _ => by simp)
    | ok env1 =>
      simp only
      split
      · -- beginSend
        have hbs : ∀ s0 : St, s0.env = env1 → SegShape c b s i (beginSend c s0 .initial i.now) := by
          intro s0 he0
          have hout := beginSend_out c s0 .initial i.now
          generalize beginSend c s0 .initial i.now = s' at hout ⊢
          cases hout with
          | failed e h =>
            exact .bootNoSend env1 hpc hr he0 (fun _ _ _ _ => by simp) (fun _ _ _ _ _ => by simp)
          | dumped r hr' =>
            rw [he0] at hr'
            exact .bootSend env1 r hpc hr hr' rfl (by simp only; rw [he0])
        exact hbs _ rfl
      · exact .bootNoSend env1 hpc hr rfl (fun _ _ _ _ => by simp) (fun _ _ _ _ _ => by simp)
  | top =>
    rw [goRaw_top hpc]
    exact hload s 0 _ rfl (by unfold prePoll; rw [hpc]) (poll_out c b s i 0)
  | loadAfterTxn t lc inst ts n =>
    rw [goRaw_loadAfterTxn hpc]
    obtain ⟨d1, _⟩ := loadDone_facts s t lc inst ts
    by_cases hbr : lc = true ∧ n > maxConsecutive
    · rw [if_pos hbr]
      refine .quiet d1 ?_ ?_
      · intro who t ts sn; simp [afterLoads]
      · intro t lc inst ts n'; simp [afterLoads]
    · rw [if_neg hbr]
      exact hload _ n _ d1 (by unfold prePoll; rw [hpc]; simp only [if_neg hbr]) (poll_out c b _ i n)
  | beforeInfo =>
    rw [goRaw_beforeInfo hpc]
    split
    · split
      · exact .quiet (afterSend_facts c s).1 (afterSend_pc_cases c s).1 (afterSend_pc_cases c s).2
      · split
        · exact .quiet rfl (fun _ _ _ _ => by simp) (fun _ _ _ _ _ => by simp)
        · exact .quiet (afterSend_facts c _).1 (afterSend_pc_cases c _).1 (afterSend_pc_cases c _).2
    · exact .quiet (afterSend_facts c s).1 (afterSend_pc_cases c s).1 (afterSend_pc_cases c s).2
  | beforeSend =>
    rw [goRaw_beforeSend hpc]
    have hout := beginSend_out c s .loop i.now
    generalize beginSend c s .loop i.now = s' at hout ⊢
    cases hout with
    | failed e h => exact .quiet rfl (fun _ _ _ _ => by simp) (fun _ _ _ _ _ => by simp)
    | dumped r hr => exact .send r hpc hr rfl rfl
  | sendAfterTxn who t ts snap =>
    rw [goRaw_sendAfterTxn hpc]
    split
    · exact .quiet (sendReturned_facts c s who _).1 (sendReturned_pc_cases c s who _).1
        (sendReturned_pc_cases c s who _).2
    · split
      · exact .quiet rfl (fun _ _ _ _ => by simp) (fun _ _ _ _ _ => by simp)
      · exact .quiet rfl (fun _ _ _ _ => by simp) (fun _ _ _ _ _ => by simp)
  | sendStored who t =>
    rw [goRaw_sendStored hpc]
    exact .quiet (sendReturned_facts c _ who t).1 (sendReturned_pc_cases c _ who t).1
      (sendReturned_pc_cases c _ who t).2
  | sleep =>
    rw [goRaw_sleep hpc]
    exact .quiet rfl (fun _ _ _ _ => by simp) (fun _ _ _ _ _ => by simp)
  | exited e =>
    rw [goRaw_exited hpc]
    refine .quiet rfl ?_ ?_
    · intro who t ts sn; rw [hpc]; simp
    · intro t lc inst ts n; rw [hpc]; simp

/-! ## 1. the product fleet: what one global event does to each instance -/

theorem fleetStep_self (cs : Nat → LoopCfg) (F : Fleet) (ke : Nat × Ev) :
    fleetStep cs F ke ke.1 = step (cs ke.1) (F ke.1) ke.2 := by
  unfold fleetStep localEv; rw [if_pos rfl]

theorem fleetStep_other (cs : Nat → LoopCfg) (F : Fleet) (ke : Nat × Ev) {j : Nat} (hj : j ≠ ke.1) :
    (fleetStep cs F ke j).st = (F j).st ∧ (fleetStep cs F ke j).gh = (F j).gh ∧
    (fleetStep cs F ke j).bucket = (F j).bucket ++ delta (cs ke.1) (F ke.1) ke.2 := by
  unfold fleetStep localEv; rw [if_neg hj]; exact ⟨rfl, rfl, rfl⟩

/-- one shared bucket stays one shared bucket -/
theorem fleetStep_shared (cs : Nat → LoopCfg) (F : Fleet) (ke : Nat × Ev) (B : Bucket)
    (hB : ∀ j, (F j).bucket = B) (j : Nat) :
    (fleetStep cs F ke j).bucket = B ++ delta (cs ke.1) (F ke.1) ke.2 := by
  by_cases hjk : j = ke.1
  · rw [hjk, fleetStep_self, step_bucket_delta, hB]
  · rw [(fleetStep_other cs F ke hjk).2.2, hB]

/-- what a segment appends: the snapshot held in the program counter, if it stores -/
theorem delta_go (c : LoopCfg) (g : G) (i : In) :
    delta c g (.go i) = [] ∨
    ∃ who t ts sn, g.st.pc = .sendAfterTxn who t ts sn ∧ c.txn.receiveOnly = false ∧
      delta c g (.go i) = [{ inst := c.own, ts := ts, snap := sn }] := by
  cases hb : storesB c g.st i with
  | false => left; simp [delta, hb]
  | true =>
    right
    obtain ⟨⟨who, t, ts, sn, hpc⟩, hro, _⟩ := (storesB_iff c g.st i).mp hb
    refine ⟨who, t, ts, sn, hpc, hro, ?_⟩
    simp [delta, hb, dumpBlob, hpc]

theorem getElem?_append_old {α} {l : List α} {idx : Nat} {x : α} (y : List α) (h : l[idx]? = some x) :
    (l ++ y)[idx]? = some x := by
  have hlt : idx < l.length := by
    rcases Nat.lt_or_ge idx l.length with h1 | h1
    · exact h1
    · rw [List.getElem?_eq_none h1] at h; cases h
  rw [List.getElem?_append_left hlt]; exact h

/-! ## 2. native mode -/

open Ls.Abs in
/-- **the simulation relation, native mode**: every abstract database is the logical content of
    the instance's environment; the environments are well-formed; all instances see one bucket,
    every blob of which is `SnapOk` and has its logical content somewhere in the abstract bucket;
    the same for a snapshot in flight (dumped, not yet stored) of an instance that is not
    receive-only; the abstract bucket holds well-formed databases -/
structure RelN (cs : Nat → LoopCfg) (F : Fleet) (A : Abs.Fleet) : Prop where
  db : ∀ j, A.db j = absEnv (F j).st.env
  wf : ∀ j, EnvWF (F j).st.env
  bwf : ∀ p ∈ A.bucket, p.2.WF
  bucket : ∃ B, (∀ j, (F j).bucket = B) ∧
    ∀ blob ∈ B, SnapOk blob.snap ∧ ∃ (idx : Nat) (o : Nat), A.bucket[idx]? = some (o, absSnap blob.snap)
  pending : ∀ j who t ts sn, (F j).st.pc = .sendAfterTxn who t ts sn →
    (cs j).txn.receiveOnly = false → SnapOk sn ∧ ∃ (idx : Nat) (o : Nat), A.bucket[idx]? = some (o, absSnap sn)

/-- side conditions of a global event in native mode (nothing about success): a segment runs
    below transaction id 2^64, and the snapshot the receiver hands over (if any) has the key
    order of its target DBIs (`FlagsOk`); an application transaction is one put of a well-formed
    stored value into an existing non-private, byte-ordered, non-duplicate DBI whose version does
    not lose against what is stored; no blobs come from outside the fleet -/
def LoopOkN (cs : Nat → LoopCfg) (F : Fleet) (ke : Nat × Ev) : Prop :=
  match ke.2 with
  | .go i =>
    (F ke.1).st.env.lastTxn + 1 < two64 ∧
    ∀ inst ts blob, i.next = some (inst, ts) → findBlob (F ke.1).bucket inst ts = some blob →
      ∀ m ∈ blob.snap.dbs, isPrivate m.name = false → FlagsOk (cs ke.1).txn (F ke.1).st.env.dbis m
  | .app ops =>
    ∃ name key val, ops = [.put name key val] ∧ isPrivate name = false ∧ StoredWF val ∧
      (∃ d, findDbi (F ke.1).st.env.dbis name = some d ∧ isDupSort d.flags = false ∧
        isIntKey d.flags = false) ∧
      join (absEnv (F ke.1).st.env (name, key)) (some (verOf val)) = some (verOf val)
  | .list => True
  | .others bs => bs = []

/-- a sufficient, decidable form of the side condition of a segment: every blob of the bucket has
    the key order of the instance's DBIs -/
theorem loopOkN_go {cs : Nat → LoopCfg} {F : Fleet} {k : Nat} (i : In)
    (hT : (F k).st.env.lastTxn + 1 < two64)
    (hall : ∀ blob ∈ (F k).bucket, ∀ m ∈ blob.snap.dbs, isPrivate m.name = false →
      FlagsOk (cs k).txn (F k).st.env.dbis m) : LoopOkN cs F (k, .go i) :=
  ⟨hT, fun inst ts blob _ hb => hall blob (by unfold findBlob at hb; exact List.mem_of_find?_eq_some hb)⟩

def LoopRunOkN (cs : Nat → LoopCfg) : Fleet → List (Nat × Ev) → Prop
  | _, [] => True
  | F, ke :: es => LoopOkN cs F ke ∧ LoopRunOkN cs (fleetStep cs F ke) es

theorem appCommit_env (s : St) (ops : List AppOp) :
    (appCommit s ops).env = (match appTxn s.env ops with | some e => e | none => s.env) := by
  unfold appCommit; cases appTxn s.env ops <;> rfl

/-- **one global event of a native-mode fleet refines zero or one abstract step** -/
theorem loop_step_refines_native (cs : Nat → LoopCfg) (hn : ∀ j, (cs j).txn.native = true)
    (F : Fleet) (A : Abs.Fleet) (ke : Nat × Ev) (hrel : RelN cs F A) (hok : LoopOkN cs F ke) :
    ∃ steps, RelN cs (fleetStep cs F ke) (Abs.run A steps) ∧ Abs.StepsWF steps ∧
      Abs.MonotoneFrom A steps ∧ steps.length ≤ 1 := by
  obtain ⟨k, e⟩ := ke
  obtain ⟨B, hB, hblobs⟩ := hrel.bucket
  -- the relation after an event that changes neither an environment nor the abstract fleet
  have same : ∀ (hst : ∀ j, j ≠ k → (fleetStep cs F (k, e) j).st = (F j).st)
      (henv : (fleetStep cs F (k, e) k).st.env = (F k).st.env)
      (hpend : ∀ who t ts sn, (fleetStep cs F (k, e) k).st.pc = .sendAfterTxn who t ts sn →
        (cs k).txn.receiveOnly = false → SnapOk sn ∧ ∃ (idx : Nat) (o : Nat), A.bucket[idx]? = some (o, absSnap sn))
      (hdelta : ∀ blob ∈ delta (cs k) (F k) e,
        SnapOk blob.snap ∧ ∃ (idx : Nat) (o : Nat), A.bucket[idx]? = some (o, absSnap blob.snap)),
      RelN cs (fleetStep cs F (k, e)) A := by
    intro hst henv hpend hdelta
    have henvj : ∀ j, (fleetStep cs F (k, e) j).st.env = (F j).st.env := by
      intro j
      by_cases hj : j = k
      · rw [hj]; exact henv
      · rw [hst j hj]
    refine ⟨fun j => by rw [henvj]; exact hrel.db j, fun j => by rw [henvj]; exact hrel.wf j, hrel.bwf,
      ⟨B ++ delta (cs k) (F k) e, fun j => fleetStep_shared cs F (k, e) B hB j, ?_⟩, ?_⟩
    · intro blob hb
      rcases List.mem_append.mp hb with hb | hb
      · exact hblobs blob hb
      · exact hdelta blob hb
    · intro j who t ts sn hpc hro
      by_cases hj : j = k
      · subst hj; exact hpend who t ts sn hpc hro
      · rw [hst j hj] at hpc; exact hrel.pending j who t ts sn hpc hro
  have hother : ∀ j, j ≠ k → (fleetStep cs F (k, e) j).st = (F j).st :=
    fun j hj => (fleetStep_other cs F (k, e) hj).1
  have hself : fleetStep cs F (k, e) k = step (cs k) (F k) e := fleetStep_self cs F (k, e)
  cases e with
  | list =>
    refine ⟨[], ?_, fun _ h => (by cases h), trivial, Nat.zero_le _⟩
    refine same hother (by rw [hself]; rfl) ?_ (fun blob hb => by simp [delta] at hb)
    intro who t ts sn hpc hro
    rw [hself] at hpc
    exact hrel.pending k who t ts sn hpc hro
  | others bs =>
    have hbs : bs = [] := hok
    subst hbs
    refine ⟨[], ?_, fun _ h => (by cases h), trivial, Nat.zero_le _⟩
    refine same hother (by rw [hself]; rfl) ?_ (fun blob hb => by simp [delta] at hb)
    intro who t ts sn hpc hro
    rw [hself] at hpc
    exact hrel.pending k who t ts sn hpc hro
  | app ops =>
    obtain ⟨name, key, val, hops, hp, hv, ⟨d, hd, hdup, hik⟩, hmono⟩ := hok
    subst hops
    have hst' : (fleetStep cs F (k, .app [.put name key val]) k).st =
        appCommit (F k).st [.put name key val] := by rw [hself]; rfl
    have hpc' : ∀ who t ts sn,
        (fleetStep cs F (k, .app [.put name key val]) k).st.pc = .sendAfterTxn who t ts sn →
        (cs k).txn.receiveOnly = false → SnapOk sn ∧ ∃ (idx : Nat) (o : Nat), A.bucket[idx]? = some (o, absSnap sn) := by
      intro who t ts sn hpc hro
      rw [hst', (appCommit_facts _ _).1] at hpc
      exact hrel.pending k who t ts sn hpc hro
    cases hk : badKey key with
    | true =>
      have hnone : appTxn (F k).st.env [.put name key val] = none := by
        simp [appTxn, appRefused, hd, hk]
      refine ⟨[], ?_, fun _ h => (by cases h), trivial, Nat.zero_le _⟩
      refine same hother ?_ hpc' (fun blob hb => by simp [delta] at hb)
      rw [hst', appCommit_env, hnone]
    | false =>
      obtain ⟨e', he', hwf', habs⟩ :=
        appPut_abs (F k).st.env name key val d (hrel.wf k) hd hp hdup hik hk hv
      have henv' : (fleetStep cs F (k, .app [.put name key val]) k).st.env = e' := by
        rw [hst', appCommit_env, he']
      refine ⟨[.write k (name, key) (verOf val)], ?_, ?_, ⟨by show join (A.db k (name, key)) (some (verOf val)) = some (verOf val); rw [hrel.db k]; exact hmono, trivial⟩,
        Nat.le_refl _⟩
      · refine ⟨?_, ?_, hrel.bwf, ⟨B ++ delta (cs k) (F k) (.app [.put name key val]),
          fun j => fleetStep_shared cs F _ B hB j, ?_⟩, ?_⟩
        · intro j
          simp only [Abs.run, List.foldl_cons, List.foldl_nil, Abs.step]
          by_cases hj : j = k
          · subst hj; rw [if_pos rfl, henv', habs, hrel.db]
          · rw [if_neg hj, hother j hj]; exact hrel.db j
        · intro j
          by_cases hj : j = k
          · subst hj; rw [henv']; exact hwf'
          · rw [hother j hj]; exact hrel.wf j
        · intro blob hb
          simp only [delta, List.append_nil] at hb
          exact hblobs blob hb
        · intro j who t ts sn hpc hro
          by_cases hj : j = k
          · subst hj; exact hpc' who t ts sn hpc hro
          · rw [hother j hj] at hpc; exact hrel.pending j who t ts sn hpc hro
      · intro s hs
        simp only [List.mem_singleton] at hs; subst hs
        exact (verOf_spec hv).2
  | go i =>
    obtain ⟨hT, hflags⟩ := hok
    have hst' : (fleetStep cs F (k, .go i) k).st = (go (cs k) (F k).bucket (F k).st i).1 := by
      rw [hself]; rfl
    have hBk : (F k).bucket = B := hB k
    -- what is appended to the bucket is the snapshot in flight
    have hdelta : ∀ blob ∈ delta (cs k) (F k) (.go i),
        SnapOk blob.snap ∧ ∃ (idx : Nat) (o : Nat), A.bucket[idx]? = some (o, absSnap blob.snap) := by
      intro blob hb
      rcases delta_go (cs k) (F k) i with h0 | ⟨who, t, ts, sn, hpc, hro, h1⟩
      · rw [h0] at hb; cases hb
      · rw [h1] at hb
        simp only [List.mem_singleton] at hb; subst hb
        exact hrel.pending k who t ts sn hpc hro
    have hshape := go_shape (cs k) (F k).bucket (F k).st i
    rw [← hst'] at hshape
    have hbe : bootEnv (cs k) (F k).st.env = .ok (F k).st.env := by
      unfold bootEnv; simp [hn k]
    -- a successful `sendOnce`
    have hsend : ∀ (r : SendRes) who t,
        sendOnce (cs k).txn (F k).st.env i.now 0 = .ok r →
        (fleetStep cs F (k, .go i) k).st.env = r.env →
        (fleetStep cs F (k, .go i) k).st.pc = .sendAfterTxn who t i.now r.snap →
        delta (cs k) (F k) (.go i) = [] →
        ∃ steps, RelN cs (fleetStep cs F (k, .go i)) (Abs.run A steps) ∧ Abs.StepsWF steps ∧
          Abs.MonotoneFrom A steps ∧ steps.length ≤ 1 := by
      intro r who t hs henv hpc hd0
      have hre : r.env = (F k).st.env := (sendOnce_facts hs).1 (hn k)
      cases hro : (cs k).txn.receiveOnly with
      | true =>
        refine ⟨[], ?_, fun _ h => (by cases h), trivial, Nat.zero_le _⟩
        refine same hother (by rw [henv, hre]) ?_ hdelta
        intro who' t' ts' sn' _ hro'
        rw [hro] at hro'; cases hro'
      | false =>
        obtain ⟨_, habs, hnd, hms⟩ := sendOnce_abs (cs k).txn (F k).st.env i.now 0 r (hn k) hro
          (hrel.wf k) hs
        have hsnok : SnapOk r.snap := ⟨hnd, fun m hm _ => (hms m hm).2.1⟩
        have hsnabs : absSnap r.snap = A.db k := by rw [hrel.db k]; exact funext habs
        refine ⟨[.send k], ?_, fun s hs' => (by
          simp only [List.mem_singleton] at hs'; subst hs'; trivial), ⟨trivial, trivial⟩, Nat.le_refl _⟩
        simp only [Abs.run, List.foldl_cons, List.foldl_nil, Abs.step]
        refine ⟨?_, ?_, ?_, ⟨B ++ delta (cs k) (F k) (.go i),
          fun j => fleetStep_shared cs F _ B hB j, ?_⟩, ?_⟩
        · intro j
          by_cases hj : j = k
          · subst hj; rw [henv, hre]; exact hrel.db j
          · rw [hother j hj]; exact hrel.db j
        · intro j
          by_cases hj : j = k
          · subst hj; rw [henv, hre]; exact hrel.wf j
          · rw [hother j hj]; exact hrel.wf j
        · intro p hp
          rcases List.mem_append.mp hp with hp | hp
          · exact hrel.bwf p hp
          · simp only [List.mem_singleton] at hp; subst hp
            simp only; rw [hrel.db k]; exact absEnv_wf (hrel.wf k)
        · intro blob hb
          rw [hd0, List.append_nil] at hb
          obtain ⟨h1, idx, o, h2⟩ := hblobs blob hb
          exact ⟨h1, idx, o, getElem?_append_old _ h2⟩
        · intro j who' t' ts' sn' hpc' hro'
          by_cases hj : j = k
          · subst hj
            rw [hpc] at hpc'
            injection hpc' with _ _ _ e4
            subst e4
            refine ⟨hsnok, A.bucket.length, j, ?_⟩
            rw [List.getElem?_append_right (Nat.le_refl _), Nat.sub_self, hsnabs]
            rfl
          · rw [hother j hj] at hpc'
            obtain ⟨h1, idx, o, h2⟩ := hrel.pending j who' t' ts' sn' hpc' hro'
            exact ⟨h1, idx, o, getElem?_append_old _ h2⟩
    cases hshape with
    | quiet h1 h2 h3 =>
      refine ⟨[], ?_, fun _ h => (by cases h), trivial, Nat.zero_le _⟩
      exact same hother h1 (fun who t ts sn hpc _ => absurd hpc (h2 who t ts sn)) hdelta
    | bootNoSend env1 h1 h2 h3 h4 h5 =>
      rw [hbe] at h2; injection h2 with h2; subst h2
      refine ⟨[], ?_, fun _ h => (by cases h), trivial, Nat.zero_le _⟩
      exact same hother h3 (fun who t ts sn hpc _ => absurd hpc (h4 who t ts sn)) hdelta
    | send r h1 h2 h3 h4 =>
      refine hsend r _ _ h2 h3 h4 ?_
      rcases delta_go (cs k) (F k) i with h0 | ⟨who, t, ts, sn, hpc, _, _⟩
      · exact h0
      · rw [h1] at hpc; cases hpc
    | bootSend env1 r h1 h2 h3 h4 h5 =>
      rw [hbe] at h2; injection h2 with h2; subst h2
      refine hsend r _ _ h3 h4 h5 ?_
      rcases delta_go (cs k) (F k) i with h0 | ⟨who, t, ts, sn, hpc, _, _⟩
      · exact h0
      · rw [h1] at hpc; cases hpc
    | load s1 n inst ts blob r h1 h2 hx hy h3 h4 h5 h6 =>
      rw [hBk] at h3
      obtain ⟨hsok, idx, o, hidx⟩ := hblobs blob h3
      have hsw : SnapWF (cs k).txn (F k).st.env blob.snap :=
        ⟨hsok, fun m hm hp => hflags inst ts blob hx hy m hm hp⟩
      obtain ⟨hwf', habs⟩ := loadOnce_abs (cs k).txn (F k).st.env blob.snap s1.lastSynced i.now r
        (hn k) hT (hrel.wf k) hsw h4
      have hd0 : delta (cs k) (F k) (.go i) = [] := by
        rcases delta_go (cs k) (F k) i with h0 | ⟨who, t, ts', sn, hpc, _, _⟩
        · exact h0
        · unfold prePoll at h1; rw [hpc] at h1; cases h1
      refine ⟨[.load k idx], ?_, fun s hs' => (by
        simp only [List.mem_singleton] at hs'; subst hs'; trivial), ⟨trivial, trivial⟩, Nat.le_refl _⟩
      simp only [Abs.run, List.foldl_cons, List.foldl_nil, Abs.step, hidx]
      refine ⟨?_, ?_, hrel.bwf, ⟨B ++ delta (cs k) (F k) (.go i),
        fun j => fleetStep_shared cs F _ B hB j, ?_⟩, ?_⟩
      · intro j
        by_cases hj : j = k
        · subst hj
          simp only [if_true]
          rw [h5, hrel.db j]
          funext key; exact (habs key).symm
        · simp only [if_neg hj]; rw [hother j hj]; exact hrel.db j
      · intro j
        by_cases hj : j = k
        · subst hj; rw [h5]; exact hwf'
        · rw [hother j hj]; exact hrel.wf j
      · intro blob' hb
        rw [hd0, List.append_nil] at hb
        exact hblobs blob' hb
      · intro j who' t' ts' sn' hpc' hro'
        by_cases hj : j = k
        · subst hj; rw [h6] at hpc'; cases hpc'
        · rw [hother j hj] at hpc'
          exact hrel.pending j who' t' ts' sn' hpc' hro'

/-- **every schedule of a native-mode fleet refines a schedule of the abstract fleet** -/
theorem loop_run_refines_native (cs : Nat → LoopCfg) (hn : ∀ j, (cs j).txn.native = true) :
    ∀ (evs : List (Nat × Ev)) (F : Fleet) (A : Abs.Fleet), RelN cs F A → LoopRunOkN cs F evs →
      ∃ steps, RelN cs (fleetRun cs F evs) (Abs.run A steps) ∧ Abs.StepsWF steps ∧
        Abs.MonotoneFrom A steps ∧ steps.length ≤ evs.length := by
  intro evs
  induction evs with
  | nil =>
    intro F A hrel _
    exact ⟨[], hrel, fun _ h => (by cases h), trivial, Nat.le_refl _⟩
  | cons ke es ih =>
    intro F A hrel hok
    obtain ⟨hok1, hok2⟩ := hok
    obtain ⟨st1, hr1, hw1, hm1, hl1⟩ := loop_step_refines_native cs hn F A ke hrel hok1
    obtain ⟨st2, hr2, hw2, hm2, hl2⟩ := ih (fleetStep cs F ke) (Abs.run A st1) hr1 hok2
    refine ⟨st1 ++ st2, ?_, (Abs.stepsWF_append _ _).mpr ⟨hw1, hw2⟩,
      (Abs.monotoneFrom_append _ _ _).mpr ⟨hm1, hm2⟩, ?_⟩
    · rw [Abs.run_append]; exact hr2
    · rw [List.length_append, List.length_cons]; omega

/-- the start: every instance boots from its own well-formed environment, the bucket is empty -/
theorem relN_init (cs : Nat → LoopCfg) (n : Nat) (envs : Nat → Env) (hwf : ∀ j, EnvWF (envs j)) :
    RelN cs (fun j => G.init (envs j) [])
      { n := n, db := fun j => absEnv (envs j), bucket := [] } :=
  ⟨fun _ => rfl, hwf, fun _ h => (by cases h), ⟨[], fun _ => rfl, fun _ h => (by cases h)⟩,
   fun j who t ts sn h _ => (by simp [G.init, SyncLoop.init] at h)⟩

theorem relN_fleetWF {cs : Nat → LoopCfg} {F : Fleet} {A : Abs.Fleet} (h : RelN cs F A) :
    Abs.FleetWF A :=
  ⟨fun j => by rw [h.db j]; exact absEnv_wf (h.wf j), h.bwf⟩

/-! ## 3. shadow mode: honesty of the loop's `LoadOnce`, and the simulation -/

/-- the ghost effect of a segment on `uncap`: unchanged, or emptied by a segment that reaches the
    yield point after `SendOnce`'s transaction or after a `LoadOnce` that saw a local change -/
theorem afterGo_uncap (gh : Gh) (b : Bucket) (s : St) (i : In) (pc' : Pc) (w' : List InstId) :
    (gh.afterGo b s i pc' w').uncap = gh.uncap ∨
    ((gh.afterGo b s i pc' w').uncap = [] ∧
      ((∃ who t ts sn, pc' = .sendAfterTxn who t ts sn) ∨
       (∃ t inst ts n, pc' = .loadAfterTxn t true inst ts n))) := by
  unfold Gh.afterGo
  generalize s.pc = pc
  cases pc <;> cases pc' <;> simp [Gh.beginDump] <;>
    (rename_i lc _ _ _; cases lc <;> simp)

/-- **the key lemma: I1 and "nothing uncaptured ⇒ mirrored" make every `LoadOnce` of the loop
    honest.** Under the invariants of race-free schedules (`Inv0`, `Inv1`, which give I1), if the
    environment is `Mirrored` whenever no application transaction is uncaptured, then whenever
    the loop polls (`prePoll`), the `lastSynced` it hands to `LoadOnce` is below `lastTxn` — the
    capture will run — or the environment is `Mirrored` — there is nothing to capture -/
theorem honest_of_inv {c : LoopCfg} {g : G} (h0 : Inv0 c g) (h1 : Inv1 c g)
    (hcap : g.gh.uncap = [] → Mirrored g.st.env) {s1 : St} {n : Nat}
    (hp : prePoll g.st = some (s1, n)) (he : s1.env = g.st.env) :
    s1.lastSynced < s1.env.lastTxn ∨ Mirrored s1.env := by
  cases hu : g.gh.uncap with
  | nil => right; rw [he]; exact hcap hu
  | cons p rest =>
    left
    have := prePoll_local_change h0 h1 hp (p := p) (by rw [hu]; exact List.mem_cons_self)
    omega

/-- a capture on a `Mirrored` environment (at any time, e.g. the start-up capture) changes no
    logical content and keeps the invariants -/
theorem capture_commit_inv {c : Cfg} {e : Env} {w : W} {txnID now cutoff : Nat}
    (hinv : EnvInv e) (hm : Mirrored e) (hnow : now < two64) (ht : txnID < two64)
    (h : mainToShadow c { dbis := e.dbis, dirty := false } txnID now cutoff = .ok w) :
    EnvInv (commit e w) ∧ Mirrored (commit e w) ∧ absShadow (commit e w) = absShadow e ∧
    appView (commit e w) = appView e := by
  obtain ⟨a1, a2, a3, _, a5⟩ := mainToShadow_abs (w := ⟨e.dbis, false⟩) hinv.sorted hinv.ok hinv.nodup
    hnow ht hinv.appne (fun key o v ho hv hne => (mirrored_no_change hm key o v ho hv hne).elim) h
  have hsh : absShadow (commit e w) = absShadow e := by
    funext key
    show absShD w.dbis key = _
    rw [a5 key]
    show capture (absShadow e) (appView e) now key = _
    rw [capture_of_mirrored now hm.1]
  have happ : appView (commit e w) = appView e := appVD_congr a3
  refine ⟨⟨a1, a2, ?_, ?_, by rw [hsh]; exact hinv.live, by rw [happ]; exact hinv.appne⟩,
    ⟨fun key => by rw [happ, hsh]; exact hm.1 key, by rw [hsh]; exact hm.2⟩, hsh, happ⟩
  · intro n d hp hf; exact hinv.nodup n d hp (by rw [← a3 n hp]; exact hf)
  · intro n d hp hf; exact hinv.bytes n d hp (by rw [← a3 n hp]; exact hf)

/-- an application put / delete that LMDB does not record leaves the application's view as it was -/
theorem app_unrecorded_view {e e' : Env} (hinv : EnvInv e) {ops : List AppOp}
    (hops : (∃ name key val, ops = [.put name key val] ∧ isPrivate name = false) ∨
            (∃ name key, ops = [.del name key] ∧ isPrivate name = false))
    (h : appTxn e ops = some e') (hl : e'.lastTxn = e.lastTxn) : appView e' = appView e := by
  rcases hops with ⟨name, key, val, rfl, hp⟩ | ⟨name, key, rfl, hp⟩
  · cases hd : findDbi e.dbis name with
    | none =>
      have : e'.dbis = e.dbis := by
        simp [appTxn, appRefused, appStep, hd, commit] at h
        rw [← h]
      unfold appView; rw [this]
    | some d =>
      have hdup := hinv.nodup name d hp hd
      have hik := hinv.bytes name d hp hd
      cases hk : badKey key with
      | true => simp [appTxn, appRefused, hd, hk] at h
      | false =>
        simp [appTxn, appRefused, appStep, hd, hk, hdup, hik, commit] at h
        rw [← h] at hl
        simp at hl
  · cases hd : findDbi e.dbis name with
    | none =>
      have : e'.dbis = e.dbis := by
        simp [appTxn, appRefused, appStep, hd, commit] at h
        rw [← h]
      unfold appView; rw [this]
    | some d =>
      have hdup := hinv.nodup name d hp hd
      have hik := hinv.bytes name d hp hd
      simp [appTxn, appRefused, appStep, hd, hdup, hik, commit] at h
      have hfound : (Lmdb.del false d.kvs key).2 = false := by
        cases hf : (Lmdb.del false d.kvs key).2 with
        | false => rfl
        | true =>
          rw [← h] at hl
          simp [hf] at hl
      have hget : get false d.kvs key = none := by
        rw [del_snd] at hfound
        cases hg : get false d.kvs key with
        | none => rfl
        | some v => rw [hg] at hfound; cases hfound
      have hkvs : (Lmdb.del false d.kvs key).1 = d.kvs := del_of_get_none hget
      have hdb : e'.dbis = setKvs e.dbis name d.kvs := by rw [← h, hkvs]
      apply appVD_congr
      intro n _
      rw [hdb, findDbi_setKvs]
      cases hf : findDbi e.dbis n with
      | none => rfl
      | some d0 =>
        simp only [Option.map_some]
        by_cases hnm : d0.name = name
        · rw [if_pos hnm]
          have : d0 = d := by
            have h1 := findDbi_name hf
            rw [hnm] at h1; subst h1
            rw [hd] at hf; injection hf with hf; exact hf.symm
          subst this
          cases d0; rfl
        · rw [if_neg hnm]

/-- the start-up capture of a `Mirrored` environment changes no logical content -/
theorem bootEnv_ok {c : LoopCfg} {e env1 : Env} (hinv : EnvInv e) (hm : Mirrored e)
    (hT : e.lastTxn + 1 < two64) (h : bootEnv c e = .ok env1) :
    EnvInv env1 ∧ Mirrored env1 ∧ absShadow env1 = absShadow e ∧ env1.lastTxn ≤ e.lastTxn + 1 := by
  unfold bootEnv at h
  split at h
  · cases hm' : mainToShadow c.txn { dbis := e.dbis, dirty := false } (e.lastTxn + 1) 1 0 with
    | error x => rw [hm'] at h; cases h
    | ok w =>
      rw [hm'] at h
      injection h with h; subst h
      obtain ⟨a1, a2, a3, _⟩ := capture_commit_inv hinv hm (by decide) hT hm'
      refine ⟨a1, a2, a3, ?_⟩
      rcases commit_lastTxn e w with h1 | h1 <;> omega
  · injection h with h; subst h
    exact ⟨hinv, hm, rfl, Nat.le_succ _⟩

open Ls.Abs in
/-- **the simulation relation, shadow mode**: every abstract database is the logical content of
    the instance's shadows; every environment satisfies `EnvInv`; every instance satisfies the
    loop invariants `Inv0`, `Inv1` (hence I1) and "nothing uncaptured ⇒ `Mirrored`"; all instances
    see one bucket, every blob of which satisfies `SnapInv` and has its logical content somewhere
    in the abstract bucket; the same for a snapshot in flight -/
structure RelS (cs : Nat → LoopCfg) (F : Fleet) (A : Abs.Fleet) : Prop where
  db : ∀ j, A.db j = absShadow (F j).st.env
  inv : ∀ j, EnvInv (F j).st.env
  i0 : ∀ j, Inv0 (cs j) (F j)
  i1 : ∀ j, Inv1 (cs j) (F j)
  cap : ∀ j, (F j).gh.uncap = [] → Mirrored (F j).st.env
  bwf : ∀ p ∈ A.bucket, p.2.WF
  bucket : ∃ B, (∀ j, (F j).bucket = B) ∧
    ∀ blob ∈ B, SnapInv blob.snap ∧ ∃ (idx : Nat) (o : Nat), A.bucket[idx]? = some (o, absSnap blob.snap)
  pending : ∀ j who t ts sn, (F j).st.pc = .sendAfterTxn who t ts sn →
    SnapInv sn ∧ ∃ (idx : Nat) (o : Nat), A.bucket[idx]? = some (o, absSnap sn)

/-- the admissible application transactions in shadow mode: one put of a NON-EMPTY value (D7), or
    one delete, in a non-private DBI -/
def AppOkS (ops : List AppOp) : Prop :=
  (∃ name key val, ops = [.put name key val] ∧ isPrivate name = false ∧ val ≠ []) ∨
  (∃ name key, ops = [.del name key] ∧ isPrivate name = false)

/-- side conditions of a global event in shadow mode (nothing about success): a segment runs
    below transaction id 2^64 - 1, reads a time `now` < 2^64 that is above every timestamp stored
    in the instance's shadows (shared monotone clock), and the start-up segment finds the
    environment `Mirrored` (the start-up capture stamps with time 1, "in the past": pending offline
    changes would not be captured as the newest version); an application transaction is
    admissible (`AppOkS`) and does not commit a recorded transaction inside the race window
    `Racy` (finding D9); no blobs come from outside the fleet -/
def LoopOkS (F : Fleet) (ke : Nat × Ev) : Prop :=
  match ke.2 with
  | .go i =>
    (F ke.1).st.env.lastTxn + 2 < two64 ∧ i.now < two64 ∧ ClockBelow (F ke.1).st.env i.now ∧
    ((F ke.1).st.pc = .boot → Mirrored (F ke.1).st.env)
  | .app ops => AppOkS ops ∧ ¬ (Racy (F ke.1).st ∧ recorded (F ke.1).st ops = true)
  | .list => True
  | .others bs => bs = []

def LoopRunOkS (cs : Nat → LoopCfg) : Fleet → List (Nat × Ev) → Prop
  | _, [] => True
  | F, ke :: es => LoopOkS F ke ∧ LoopRunOkS cs (fleetStep cs F ke) es

/-- the abstract fleet after the abstract writes of a capture and one more step -/
theorem run_capWrites_then {e : Env} (hinv : EnvInv e) (k now : Nat)
    (hclk : ∀ key x, absShadow e key = some x → x.ts < now)
    (A : Abs.Fleet) (hA : A.db k = absShadow e) (last : Abs.Step) :
    Abs.run A (capWrites k e now ++ [last]) =
      Abs.step { A with db := fun j => if j = k then capture (absShadow e) (appView e) now else A.db j } last ∧
    Abs.StepsWF (capWrites k e now) ∧ Abs.MonotoneFrom A (capWrites k e now) := by
  obtain ⟨h1, h2, h3⟩ := capWrites_run hinv.ok hinv.bytes k now hclk A hA
  refine ⟨?_, h2, h3⟩
  rw [Abs.run_append, h1]
  rfl

/-- **one global event of a shadow-mode fleet refines the abstract writes of a capture followed
    by at most one abstract `send` / `load`** -/
theorem loop_step_refines_shadow (cs : Nat → LoopCfg) (hn : ∀ j, (cs j).txn.native = false)
    (hh : ∀ j, (cs j).txn.hack = false) (hro : ∀ j, (cs j).txn.receiveOnly = false)
    (hcb : ∀ j, CfgByte (cs j).txn)
    (F : Fleet) (A : Abs.Fleet) (ke : Nat × Ev) (hrel : RelS cs F A) (hok : LoopOkS F ke) :
    ∃ steps, RelS cs (fleetStep cs F ke) (Abs.run A steps) ∧ Abs.StepsWF steps ∧
      Abs.MonotoneFrom A steps := by
  obtain ⟨k, e⟩ := ke
  obtain ⟨B, hB, hblobs⟩ := hrel.bucket
  have hother : ∀ j, j ≠ k → (fleetStep cs F (k, e) j).st = (F j).st ∧
      (fleetStep cs F (k, e) j).gh = (F j).gh :=
    fun j hj => ⟨(fleetStep_other cs F (k, e) hj).1, (fleetStep_other cs F (k, e) hj).2.1⟩
  have hself : fleetStep cs F (k, e) k = step (cs k) (F k) e := fleetStep_self cs F (k, e)
  -- the loop invariants are kept by every instance
  have hi0 : ∀ j, Inv0 (cs j) (fleetStep cs F (k, e) j) := fun j => (hrel.i0 j).step _
  have hi1 : ∀ j, Inv1 (cs j) (fleetStep cs F (k, e) j) := by
    intro j
    refine (hrel.i1 j).step (hrel.i0 j) _ ?_
    intro ops hops
    unfold localEv at hops
    by_cases hj : j = k
    · rw [if_pos hj] at hops
      simp only at hops
      subst hops
      rw [hj]
      exact hok.2
    · rw [if_neg hj] at hops; cases hops
  -- assembling the relation from what happened at instance `k`
  have finish : ∀ (A' : Abs.Fleet) (X : List (Nat × Abs.DB)),
      A'.db k = absShadow (fleetStep cs F (k, e) k).st.env → (∀ j, j ≠ k → A'.db j = A.db j) →
      A'.bucket = A.bucket ++ X → (∀ p ∈ X, p.2.WF) →
      EnvInv (fleetStep cs F (k, e) k).st.env →
      ((fleetStep cs F (k, e) k).gh.uncap = [] → Mirrored (fleetStep cs F (k, e) k).st.env) →
      (∀ who t ts sn, (fleetStep cs F (k, e) k).st.pc = .sendAfterTxn who t ts sn →
        SnapInv sn ∧ ∃ (idx : Nat) (o : Nat), A'.bucket[idx]? = some (o, absSnap sn)) →
      (∀ blob ∈ delta (cs k) (F k) e,
        SnapInv blob.snap ∧ ∃ (idx : Nat) (o : Nat), A.bucket[idx]? = some (o, absSnap blob.snap)) →
      RelS cs (fleetStep cs F (k, e)) A' := by
    intro A' X hdbk hdbo hbk hX henv hcap hpend hdelta
    refine ⟨?_, ?_, hi0, hi1, ?_, ?_, ⟨B ++ delta (cs k) (F k) e,
      fun j => fleetStep_shared cs F (k, e) B hB j, ?_⟩, ?_⟩
    · intro j
      by_cases hj : j = k
      · rw [hj]; exact hdbk
      · rw [hdbo j hj, (hother j hj).1]; exact hrel.db j
    · intro j
      by_cases hj : j = k
      · rw [hj]; exact henv
      · rw [(hother j hj).1]; exact hrel.inv j
    · intro j
      by_cases hj : j = k
      · rw [hj]; exact hcap
      · rw [(hother j hj).1, (hother j hj).2]; exact hrel.cap j
    · intro p hp
      rw [hbk] at hp
      rcases List.mem_append.mp hp with hp | hp
      · exact hrel.bwf p hp
      · exact hX p hp
    · intro blob hb
      rcases List.mem_append.mp hb with hb | hb
      · obtain ⟨h1, idx, o, h2⟩ := hblobs blob hb
        exact ⟨h1, idx, o, by rw [hbk]; exact getElem?_append_old _ h2⟩
      · obtain ⟨h1, idx, o, h2⟩ := hdelta blob hb
        exact ⟨h1, idx, o, by rw [hbk]; exact getElem?_append_old _ h2⟩
    · intro j who t ts sn hpc
      by_cases hj : j = k
      · rw [hj] at hpc; exact hpend who t ts sn hpc
      · rw [(hother j hj).1] at hpc
        obtain ⟨h1, idx, o, h2⟩ := hrel.pending j who t ts sn hpc
        exact ⟨h1, idx, o, by rw [hbk]; exact getElem?_append_old _ h2⟩
  have nodelta : ∀ blob ∈ ([] : List Blob),
      SnapInv blob.snap ∧ ∃ (idx : Nat) (o : Nat), A.bucket[idx]? = some (o, absSnap blob.snap) :=
    fun _ h => (by cases h)
  cases e with
  | list =>
    refine ⟨[], ?_, fun _ h => (by cases h), trivial⟩
    refine finish A [] (by rw [hself]; exact hrel.db k) (fun _ _ => rfl) (List.append_nil _).symm
      (fun _ h => (by cases h)) (by rw [hself]; exact hrel.inv k) (by rw [hself]; exact hrel.cap k) ?_ nodelta
    intro who t ts sn hpc
    rw [hself] at hpc
    exact hrel.pending k who t ts sn hpc
  | others bs =>
    have hbs : bs = [] := hok
    subst hbs
    refine ⟨[], ?_, fun _ h => (by cases h), trivial⟩
    refine finish A [] (by rw [hself]; exact hrel.db k) (fun _ _ => rfl) (List.append_nil _).symm
      (fun _ h => (by cases h)) (by rw [hself]; exact hrel.inv k) (by rw [hself]; exact hrel.cap k) ?_ nodelta
    intro who t ts sn hpc
    rw [hself] at hpc
    exact hrel.pending k who t ts sn hpc
  | app ops =>
    obtain ⟨hops, _⟩ := hok
    have hst' : (fleetStep cs F (k, .app ops) k).st = appCommit (F k).st ops := by rw [hself]; rfl
    have hgh' : (fleetStep cs F (k, .app ops) k).gh =
        if recorded (F k).st ops then (F k).gh.app (appCommit (F k).st ops).env.lastTxn else (F k).gh := by
      rw [hself]; rfl
    -- the environment after the application transaction
    have henv : EnvInv (appCommit (F k).st ops).env ∧
        absShadow (appCommit (F k).st ops).env = absShadow (F k).st.env ∧
        (recorded (F k).st ops = false → appView (appCommit (F k).st ops).env = appView (F k).st.env) := by
      rw [appCommit_env]
      cases ht : appTxn (F k).st.env ops with
      | none => exact ⟨hrel.inv k, rfl, fun _ => rfl⟩
      | some e' =>
        simp only
        have hview : recorded (F k).st ops = false → appView e' = appView (F k).st.env := by
          intro hr
          have hl := recorded_false hr
          rw [appCommit_env, ht] at hl
          refine app_unrecorded_view (hrel.inv k) ?_ ht hl
          rcases hops with ⟨name, key, val, h1, h2, _⟩ | ⟨name, key, h1, h2⟩
          · exact Or.inl ⟨name, key, val, h1, h2⟩
          · exact Or.inr ⟨name, key, h1, h2⟩
        rcases hops with ⟨name, key, val, rfl, hp, hv⟩ | ⟨name, key, rfl, hp⟩
        · obtain ⟨a1, a2⟩ := appPut_env_inv (hrel.inv k) hp hv ht
          exact ⟨a1, a2, hview⟩
        · obtain ⟨a1, a2⟩ := appDel_env_inv (hrel.inv k) hp ht
          exact ⟨a1, a2, hview⟩
    refine ⟨[], ?_, fun _ h => (by cases h), trivial⟩
    refine finish A [] (by rw [hst', henv.2.1]; exact hrel.db k) (fun _ _ => rfl)
      (List.append_nil _).symm (fun _ h => (by cases h)) (by rw [hst']; exact henv.1) ?_ ?_ nodelta
    · rw [hst', hgh']
      cases hr : recorded (F k).st ops with
      | true => intro hu; simp [Gh.app] at hu
      | false =>
        intro hu
        simp only [Bool.false_eq_true, if_false] at hu
        have hm := hrel.cap k hu
        exact ⟨fun key => by rw [henv.2.2 hr, henv.2.1]; exact hm.1 key, by rw [henv.2.1]; exact hm.2⟩
    · intro who t ts sn hpc
      rw [hst', (appCommit_facts _ _).1] at hpc
      exact hrel.pending k who t ts sn hpc
  | go i =>
    obtain ⟨hT, hnow, hclk, hboot⟩ := hok
    have hT : (F k).st.env.lastTxn + 2 < two64 := hT
    have hclk : ClockBelow (F k).st.env i.now := hclk
    have hboot : (F k).st.pc = .boot → Mirrored (F k).st.env := hboot
    have hclk' : ∀ key x, absShadow (F k).st.env key = some x → x.ts < i.now :=
      fun key x hx => shadowAll_abs (hrel.inv k).ok hclk key x hx
    have hst' : (fleetStep cs F (k, .go i) k).st = (go (cs k) (F k).bucket (F k).st i).1 := by
      rw [hself]; rfl
    have hgh' : (fleetStep cs F (k, .go i) k).gh =
        (F k).gh.afterGo (F k).bucket (F k).st i (fleetStep cs F (k, .go i) k).st.pc
          (fleetStep cs F (k, .go i) k).st.waiting := by
      rw [hself]; rfl
    have hBk : (F k).bucket = B := hB k
    have hdelta : ∀ blob ∈ delta (cs k) (F k) (.go i),
        SnapInv blob.snap ∧ ∃ (idx : Nat) (o : Nat), A.bucket[idx]? = some (o, absSnap blob.snap) := by
      intro blob hb
      rcases delta_go (cs k) (F k) i with h0 | ⟨who, t, ts, sn, hpc, _, h1⟩
      · rw [h0] at hb; cases hb
      · rw [h1] at hb
        simp only [List.mem_singleton] at hb; subst hb
        exact hrel.pending k who t ts sn hpc
    have hshape := go_shape (cs k) (F k).bucket (F k).st i
    rw [← hst'] at hshape
    -- a successful `sendOnce` on an environment with the same shadow content
    have hsend : ∀ (env1 : Env) (r : SendRes) who t, EnvInv env1 →
        absShadow env1 = absShadow (F k).st.env → env1.lastTxn + 1 < two64 →
        sendOnce (cs k).txn env1 i.now 0 = .ok r →
        (fleetStep cs F (k, .go i) k).st.env = r.env →
        (fleetStep cs F (k, .go i) k).st.pc = .sendAfterTxn who t i.now r.snap →
        delta (cs k) (F k) (.go i) = [] →
        ∃ steps, RelS cs (fleetStep cs F (k, .go i)) (Abs.run A steps) ∧ Abs.StepsWF steps ∧
          Abs.MonotoneFrom A steps := by
      intro env1 r who t hinv1 hsh1 hT1 hs henv hpc hd0
      have hclk1 : ∀ key x, absShadow env1 key = some x → x.ts < i.now := by rw [hsh1]; exact hclk'
      obtain ⟨he, hsn, hmir, hsh, hsnap⟩ := send_env_inv (cs k).txn env1 i.now 0 r (hn k) (hro k) hT1 hnow
        hinv1 hclk1 hs
      obtain ⟨hrun, hwf, hmono⟩ := run_capWrites_then hinv1 k i.now hclk1 A
        (by rw [hrel.db k, hsh1]) (.send k)
      refine ⟨capWrites k env1 i.now ++ [.send k], ?_,
        (Abs.stepsWF_append _ _).mpr ⟨hwf, fun s hs' => (by
          simp only [List.mem_singleton] at hs'; subst hs'; trivial)⟩,
        (Abs.monotoneFrom_append _ _ _).mpr ⟨hmono, trivial, trivial⟩⟩
      rw [hrun]
      simp only [Abs.step, if_true]
      refine finish _ [(k, capture (absShadow env1) (appView env1) i.now)] ?_ ?_ rfl ?_
        (by rw [henv]; exact he) (fun _ => by rw [henv]; exact hmir) ?_ (by rw [hd0]; exact nodelta)
      · simp only [if_true]; rw [henv, hsh]
      · intro j hj; simp only [if_neg hj]
      · intro p hp
        simp only [List.mem_singleton] at hp; subst hp
        simp only
        rw [← hsh]; exact absShD_wf he.ok
      · intro who' t' ts' sn' hpc'
        rw [hpc] at hpc'
        injection hpc' with _ _ _ e4
        subst e4
        refine ⟨hsn, A.bucket.length, k, ?_⟩
        simp only
        rw [List.getElem?_append_right (Nat.le_refl _), Nat.sub_self, hsnap]
        rfl
    -- the ghost `uncap` after a segment without a transaction of its own
    have hcapq : notSendPc (fleetStep cs F (k, .go i) k).st.pc →
        notLoadPc (fleetStep cs F (k, .go i) k).st.pc →
        (fleetStep cs F (k, .go i) k).gh.uncap = (F k).gh.uncap := by
      intro h2 h3
      rw [hgh']
      rcases afterGo_uncap (F k).gh (F k).bucket (F k).st i (fleetStep cs F (k, .go i) k).st.pc
        (fleetStep cs F (k, .go i) k).st.waiting with h | ⟨_, ⟨who, t, ts, sn, h⟩ | ⟨t, inst, ts, n, h⟩⟩
      · exact h
      · exact absurd h (h2 who t ts sn)
      · exact absurd h (h3 t true inst ts n)
    cases hshape with
    | quiet h1 h2 h3 =>
      refine ⟨[], ?_, fun _ h => (by cases h), trivial⟩
      refine finish A [] (by rw [h1]; exact hrel.db k) (fun _ _ => rfl) (List.append_nil _).symm
        (fun _ h => (by cases h)) (by rw [h1]; exact hrel.inv k) ?_
        (fun who t ts sn hpc => absurd hpc (h2 who t ts sn)) hdelta
      rw [hcapq h2 h3, h1]; exact hrel.cap k
    | bootNoSend env1 h1 h2 h3 h4 h5 =>
      obtain ⟨b1, b2, b3, _⟩ := bootEnv_ok (hrel.inv k) (hboot h1) (by omega) h2
      refine ⟨[], ?_, fun _ h => (by cases h), trivial⟩
      exact finish A [] (by rw [h3, b3]; exact hrel.db k) (fun _ _ => rfl) (List.append_nil _).symm
        (fun _ h => (by cases h)) (by rw [h3]; exact b1) (fun _ => by rw [h3]; exact b2)
        (fun who t ts sn hpc => absurd hpc (h4 who t ts sn)) hdelta
    | send r h1 h2 h3 h4 =>
      refine hsend (F k).st.env r _ _ (hrel.inv k) rfl (by omega) h2 h3 h4 ?_
      rcases delta_go (cs k) (F k) i with h0 | ⟨who, t, ts, sn, hpc, _, _⟩
      · exact h0
      · rw [h1] at hpc; cases hpc
    | bootSend env1 r h1 h2 h3 h4 h5 =>
      obtain ⟨b1, b2, b3, b4⟩ := bootEnv_ok (hrel.inv k) (hboot h1) (by omega) h2
      refine hsend env1 r _ _ b1 b3 (by omega) h3 h4 h5 ?_
      rcases delta_go (cs k) (F k) i with h0 | ⟨who, t, ts, sn, hpc, _, _⟩
      · exact h0
      · rw [h1] at hpc; cases hpc
    | load s1 n inst ts blob r h1 h2 hx hy h3 h4 h5 h6 =>
      rw [hBk] at h3
      obtain ⟨hsi, idx, o, hidx⟩ := hblobs blob h3
      have hhon := honest_of_inv (hrel.i0 k) (hrel.i1 k) (hrel.cap k) h1 h2
      rw [h2] at hhon
      obtain ⟨he, hmir, heq⟩ := load_env_inv (cs k).txn (F k).st.env blob.snap s1.lastSynced i.now r
        (hn k) (hh k) (hcb k) (by omega) hnow (hrel.inv k) hsi hclk' hhon h4
      have hd0 : delta (cs k) (F k) (.go i) = [] := by
        rcases delta_go (cs k) (F k) i with h0 | ⟨who, t, ts', sn, hpc, _, _⟩
        · exact h0
        · unfold prePoll at h1; rw [hpc] at h1; cases h1
      obtain ⟨hrun, hwf, hmono⟩ := run_capWrites_then (hrel.inv k) k i.now hclk' A (hrel.db k)
        (.load k idx)
      refine ⟨capWrites k (F k).st.env i.now ++ [.load k idx], ?_,
        (Abs.stepsWF_append _ _).mpr ⟨hwf, fun s hs' => (by
          simp only [List.mem_singleton] at hs'; subst hs'; trivial)⟩,
        (Abs.monotoneFrom_append _ _ _).mpr ⟨hmono, trivial, trivial⟩⟩
      rw [hrun]
      simp only [Abs.step, hidx, if_true]
      refine finish _ [] ?_ ?_ (List.append_nil _).symm (fun _ h => (by cases h))
        (by rw [h5]; exact he) (fun _ => by rw [h5]; exact hmir) ?_ (by rw [hd0]; exact nodelta)
      · simp only [if_true]; rw [h5, heq]
      · intro j hj; simp only [if_neg hj]
      · intro who' t' ts' sn' hpc'
        rw [h6] at hpc'; cases hpc'

/-- **every admissible schedule of a shadow-mode fleet refines a schedule of the abstract fleet** -/
theorem loop_run_refines_shadow (cs : Nat → LoopCfg) (hn : ∀ j, (cs j).txn.native = false)
    (hh : ∀ j, (cs j).txn.hack = false) (hro : ∀ j, (cs j).txn.receiveOnly = false)
    (hcb : ∀ j, CfgByte (cs j).txn) :
    ∀ (evs : List (Nat × Ev)) (F : Fleet) (A : Abs.Fleet), RelS cs F A → LoopRunOkS cs F evs →
      ∃ steps, RelS cs (fleetRun cs F evs) (Abs.run A steps) ∧ Abs.StepsWF steps ∧
        Abs.MonotoneFrom A steps := by
  intro evs
  induction evs with
  | nil =>
    intro F A hrel _
    exact ⟨[], hrel, fun _ h => (by cases h), trivial⟩
  | cons ke es ih =>
    intro F A hrel hok
    obtain ⟨hok1, hok2⟩ := hok
    obtain ⟨st1, hr1, hw1, hm1⟩ := loop_step_refines_shadow cs hn hh hro hcb F A ke hrel hok1
    obtain ⟨st2, hr2, hw2, hm2⟩ := ih (fleetStep cs F ke) (Abs.run A st1) hr1 hok2
    refine ⟨st1 ++ st2, ?_, (Abs.stepsWF_append _ _).mpr ⟨hw1, hw2⟩,
      (Abs.monotoneFrom_append _ _ _).mpr ⟨hm1, hm2⟩⟩
    rw [Abs.run_append]; exact hr2

/-- the start: every instance boots from its own environment satisfying `EnvInv` and `Mirrored`,
    the bucket is empty -/
theorem relS_init (cs : Nat → LoopCfg) (n : Nat) (envs : Nat → Env) (hinv : ∀ j, EnvInv (envs j))
    (hm : ∀ j, Mirrored (envs j)) :
    RelS cs (fun j => G.init (envs j) [])
      { n := n, db := fun j => absShadow (envs j), bucket := [] } :=
  ⟨fun _ => rfl, hinv, fun j => Inv0.init (cs j) (envs j) [], fun j => Inv1.init (cs j) (envs j) [],
   fun j _ => hm j, fun _ h => (by cases h), ⟨[], fun _ => rfl, fun _ h => (by cases h)⟩,
   fun j who t ts sn h => (by simp [G.init, SyncLoop.init] at h)⟩

theorem relS_fleetWF {cs : Nat → LoopCfg} {F : Fleet} {A : Abs.Fleet} (h : RelS cs F A) :
    Abs.FleetWF A :=
  ⟨fun j => by rw [h.db j]; exact absShD_wf (h.inv j).ok, h.bwf⟩

end Ls.Loop
