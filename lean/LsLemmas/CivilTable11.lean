import LsLemmas.CivilTableDefs
/- civil-date table, rows 88000 … 95999 (kernel evaluation; see CivilTableDefs) -/
namespace Ls.Civil

theorem chunk11 : chunkOK 88000 8000 = true := by decide +kernel

end Ls.Civil
