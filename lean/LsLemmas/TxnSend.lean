import LsModel.Txn
import LsLemmas.Header
import LsLemmas.TxnDbis
/-
  Lemmas about `Txn.readDBI` / `Txn.sendOnce` (C06).
-/
namespace Ls.Txn
open Ls Ls.Lmdb Ls.Merge

/-! ### facts about the generated name constants -/

theorem dupsortTransform_ne_nil : strBytes Gen.transformDupSortHackV1 ≠ [] := by decide +kernel

theorem shadowName_ne (name : Bytes) : shadowName name ≠ name := by
  intro h
  have := congrArg List.length h
  simp [shadowName, shadowPrefix_eq, syncPrefix_eq] at this
  omega


/-! ### position-wise relation of two lists (core Lean has no `Forall₂`) -/

/-- `Pointwise R l r`: the lists have the same length and are related position by position -/
inductive Pointwise {α β : Type} (R : α → β → Prop) : List α → List β → Prop
  | nil : Pointwise R [] []
  | cons {a b as bs} : R a b → Pointwise R as bs → Pointwise R (a :: as) (b :: bs)

theorem Pointwise.length_eq {α β : Type} {R : α → β → Prop} {l : List α} {r : List β}
    (h : Pointwise R l r) : l.length = r.length := by
  induction h with
  | nil => rfl
  | cons _ _ ih => simp [ih]

/-- `Pointwise` spelled out with indices -/
theorem pointwise_iff_getElem {α β : Type} {R : α → β → Prop} {l : List α} {r : List β} :
    Pointwise R l r ↔
      ∃ hl : l.length = r.length, ∀ (i : Nat) (hi : i < l.length), R l[i] (r[i]'(hl ▸ hi)) := by
  constructor
  · intro h
    induction h with
    | nil => exact ⟨rfl, fun i hi => absurd hi (Nat.not_lt_zero i)⟩
    | cons hab _ ih =>
      obtain ⟨hl, hi⟩ := ih
      refine ⟨by simp [hl], ?_⟩
      intro i hi'
      cases i with
      | zero => exact hab
      | succ j => exact hi j (by simpa using hi')
  · intro ⟨hl, h⟩
    induction l generalizing r with
    | nil =>
      cases r with
      | nil => exact .nil
      | cons _ _ => simp at hl
    | cons a as ih =>
      cases r with
      | nil => simp at hl
      | cons b bs =>
        exact .cons (h 0 (by simp))
          (ih (by simpa using hl) (fun i hi => h (i + 1) (by simpa using hi)))

theorem Pointwise.imp {α β : Type} {R Q : α → β → Prop} {l : List α} {r : List β}
    (hq : ∀ a b, R a b → Q a b) (h : Pointwise R l r) : Pointwise Q l r := by
  induction h with
  | nil => exact .nil
  | cons hab _ ih => exact .cons (hq _ _ hab) ih

theorem Pointwise.imp_mem {α β : Type} {R Q : α → β → Prop} {l : List α} {r : List β}
    (h : Pointwise R l r) (hq : ∀ a ∈ l, ∀ b, R a b → Q a b) : Pointwise Q l r := by
  induction h with
  | nil => exact .nil
  | cons hab _ ih =>
    exact .cons (hq _ (by simp) _ hab) (ih (fun a ha b => hq a (by simp [ha]) b))

theorem pointwise_map_left {α γ β : Type} {R : γ → β → Prop} (f : α → γ) {l : List α} {r : List β} :
    Pointwise R (l.map f) r ↔ Pointwise (fun a b => R (f a) b) l r := by
  constructor
  · intro h
    induction l generalizing r with
    | nil => cases h; exact .nil
    | cons a as ih =>
      cases h with
      | cons hab ht => exact .cons hab (ih ht)
  · intro h
    induction h with
    | nil => exact .nil
    | cons hab _ ih => exact .cons hab ih

/-- every right-hand element is related to some left-hand element -/
theorem Pointwise.exists_left {α β : Type} {R : α → β → Prop} {l : List α} {r : List β}
    (h : Pointwise R l r) : ∀ b ∈ r, ∃ a ∈ l, R a b := by
  induction h with
  | nil => intro b hb; cases hb
  | cons hab _ ih =>
    intro b hb
    rcases List.mem_cons.mp hb with hb | hb
    · subst hb; exact ⟨_, by simp, hab⟩
    · obtain ⟨a, ha, hr⟩ := ih b hb
      exact ⟨a, by simp [ha], hr⟩

/-- a functional relation determines the right-hand list -/
theorem Pointwise.unique {α β : Type} {R : α → β → Prop} (hf : ∀ a b b', R a b → R a b' → b = b')
    {l : List α} {r r' : List β} (h : Pointwise R l r) (h' : Pointwise R l r') : r = r' := by
  induction h generalizing r' with
  | nil => cases h'; rfl
  | cons hab _ ih =>
    cases h' with
    | cons hab' ht => rw [hf _ _ _ hab hab', ih ht]

/-! ### `mapM` in `Except` -/

theorem mapM_ok_forall₂ {ε α β} (f : α → Except ε β) :
    ∀ (l : List α) (r : List β), l.mapM f = .ok r → Pointwise (fun a b => f a = .ok b) l r := by
  intro l
  induction l with
  | nil => intro r h; simp [List.mapM_nil, pure, Except.pure] at h; subst h; exact .nil
  | cons a l ih =>
    intro r h
    rw [List.mapM_cons] at h
    cases ha : f a with
    | error err => rw [ha] at h; cases h
    | ok b =>
      rw [ha] at h
      cases hl : l.mapM f with
      | error err => rw [hl] at h; cases h
      | ok bs =>
        rw [hl] at h
        injection h with h; subst h
        exact .cons ha (ih bs hl)

theorem forall₂_mapM_ok {ε α β} (f : α → Except ε β) :
    ∀ (l : List α) (r : List β), Pointwise (fun a b => f a = .ok b) l r → l.mapM f = .ok r := by
  intro l r h
  induction h with
  | nil => rfl
  | cons ha _ ih => rw [List.mapM_cons, ha, ih]; rfl

/-! ### `readDBI` -/

/-- what `readDBI` (not raw) does with one stored pair -/
def dumpEntry (kv : Bytes × Bytes) : Except Err KV :=
  match Header.parse kv.2 with
  | .error _ => .error Err.entry
  | .ok (h, app) =>
    .ok { key := kv.1, val := app, ts := h.ts, flags := (Header.masked h.flags).toNat }

/-- `x` is the snapshot image of the stored pair `kv`: same key, the application value the
    header parser returns (the bytes after the 24-byte header and all extension blocks), the
    header's timestamp and the header's flags restricted to the sync mask -/
def EntryImage (kv : Bytes × Bytes) (x : KV) : Prop :=
  ∃ h app, Header.parse kv.2 = .ok (h, app) ∧
    x = { key := kv.1, val := app, ts := h.ts, flags := (Header.masked h.flags).toNat }

theorem dumpEntry_ok {kv : Bytes × Bytes} {x : KV} : dumpEntry kv = .ok x ↔ EntryImage kv x := by
  unfold dumpEntry EntryImage
  constructor
  · intro h
    split at h
    · cases h
    · rename_i hd app hp
      injection h with h
      exact ⟨hd, app, hp, h.symm⟩
  · rintro ⟨hd, app, hp, rfl⟩
    rw [hp]

/-- the application value is the stored value without the header and its extension blocks -/
theorem parse_app {v : Bytes} {h : Header.Hdr} {app : Bytes} (hp : Header.parse v = .ok (h, app)) :
    h.numExtra = Header.getNumExtra v ∧
    Gen.minHeaderSize + Gen.blockSize * h.numExtra ≤ v.length ∧
    app = v.drop (Gen.minHeaderSize + Gen.blockSize * h.numExtra) ∧
    h.ts = beNat (slice v 0 8) ∧ h.flags = v.getD Gen.flagsOffset 0 := by
  unfold Header.parse at hp
  split at hp
  · cases hp
  · split at hp
    · cases hp
    · simp only at hp
      split at hp
      · cases hp
      · rename_i h1 _ h3
        injection hp with hp
        injection hp with hp1 hp2
        subst hp1 hp2
        refine ⟨rfl, ?_, rfl, rfl, rfl⟩
        simp only [Header.hsz, Header.bsz] at h1 h3 ⊢
        by_cases hn : Header.getNumExtra v > 0
        · simp only [hn, true_and] at h3; omega
        · have : Header.getNumExtra v = 0 := by omega
          rw [this]; omega

/-- `readDBI` with header splitting, as a specification -/
structure DbiImage (c : Cfg) (w : W) (dbiName origName : Bytes) (m : DbiMsg) : Prop where
  name : m.name = origName
  dumped : ∃ d, findDbi w.dbis dbiName = some d ∧ Pointwise EntryImage d.kvs m.entries
  orig : ∃ o, findDbi w.dbis origName = some o ∧ m.flags = o.flags ∧
    m.transform = (if isDupSort o.flags then strBytes Gen.transformDupSortHackV1 else []) ∧
    (isDupSort o.flags = true → c.hack = true)

/-- `readDBI` (not raw) in closed form -/
theorem readDBI_eq (c : Cfg) (w : W) (dn on : Bytes) :
    readDBI c w dn on false =
      match findDbi w.dbis dn with
      | none => .error .dbiMissing
      | some d =>
        match findDbi w.dbis on with
        | none => .error .dbiMissing
        | some o =>
          if isDupSort o.flags = true ∧ c.hack = false then .error .dupsortNoHack
          else match d.kvs.mapM dumpEntry with
            | .error err => .error err
            | .ok entries =>
              .ok { name := on, flags := o.flags,
                    transform := if isDupSort o.flags then strBytes Gen.transformDupSortHackV1 else [],
                    entries := entries } := by
  unfold readDBI
  cases hd : findDbi w.dbis dn with
  | none => rfl
  | some d =>
    by_cases hne : dn = on
    · subst hne
      simp only [hd, ne_eq, not_true_eq_false, if_false]
      by_cases hh : isDupSort d.flags = true ∧ c.hack = false
      · simp [hh, bind, Except.bind, pure, Except.pure, throw, throwThe, MonadExceptOf.throw]
      · have hh' : ¬ (isDupSort d.flags = true ∧ ¬ c.hack = true) := by simpa using hh
        simp only [hh, hh', if_false, bind, Except.bind, pure, Except.pure]
        generalize hfn : (List.mapM _ d.kvs : Except Err (List KV)) = r
        have : r = d.kvs.mapM dumpEntry := by
          rw [← hfn]; congr
        rw [← this]
        cases r <;> rfl
    · simp only [ne_eq, hne, not_false_eq_true, if_true]
      cases ho : findDbi w.dbis on with
      | none => rfl
      | some o =>
        by_cases hh : isDupSort o.flags = true ∧ c.hack = false
        · simp [hh, bind, Except.bind, pure, Except.pure, throw, throwThe, MonadExceptOf.throw]
        · have hh' : ¬ (isDupSort o.flags = true ∧ ¬ c.hack = true) := by simpa using hh
          simp only [hh, hh', if_false, bind, Except.bind, pure, Except.pure]
          generalize hfn : (List.mapM _ d.kvs : Except Err (List KV)) = r
          have : r = d.kvs.mapM dumpEntry := by
            rw [← hfn]; congr
          rw [← this]
          cases r <;> rfl

theorem readDBI_ok {c : Cfg} {w : W} {dn on : Bytes} {m : DbiMsg}
    (h : readDBI c w dn on false = .ok m) : DbiImage c w dn on m := by
  rw [readDBI_eq] at h
  split at h
  · cases h
  · rename_i d hd
    split at h
    · cases h
    · rename_i o ho
      split at h
      · cases h
      · rename_i hh
        split at h
        · cases h
        · rename_i entries he
          injection h with h; subst h
          refine ⟨rfl, ⟨d, hd, ?_⟩, ⟨o, ho, rfl, rfl, ?_⟩⟩
          · exact (mapM_ok_forall₂ _ _ _ he).imp (fun _ _ => dumpEntry_ok.mp)
          · intro hdup
            cases hc : c.hack with
            | true => rfl
            | false => exact absurd ⟨hdup, hc⟩ hh

/-- conversely, every image is what `readDBI` returns: `readDBI` succeeds exactly on the DBIs all
    of whose stored values carry a parsable header -/
theorem readDBI_of_image {c : Cfg} {w : W} {dn on : Bytes} {m : DbiMsg}
    (h : DbiImage c w dn on m) : readDBI c w dn on false = .ok m := by
  obtain ⟨hn, ⟨d, hd, he⟩, ⟨o, ho, hf, ht, hh⟩⟩ := h
  rw [readDBI_eq, hd, ho]
  simp only
  have hh' : ¬ (isDupSort o.flags = true ∧ c.hack = false) := by
    intro ⟨h1, h2⟩; rw [hh h1] at h2; cases h2
  rw [if_neg hh', forall₂_mapM_ok dumpEntry d.kvs m.entries (he.imp (fun _ _ => dumpEntry_ok.mpr))]
  cases m
  simp only at hn hf ht
  subst hn hf ht
  rfl


/-! ### `sendOnce` -/

/-- the state of `SendOnce`'s LMDB transaction at the moment the DBIs are dumped: the
    environment itself for a native schema (a read-only `View`), the environment after
    `mainToShadow` otherwise (inside the same `Update`) -/
def dumpState (c : Cfg) (e : Env) (now cutoff : Nat) : Except Err W :=
  if c.native then .ok { dbis := e.dbis, dirty := false }
  else mainToShadow c { dbis := e.dbis, dirty := false } (e.lastTxn + 1) now cutoff

/-- the DBI that is dumped for the application DBI `name` -/
def dumpName (c : Cfg) (name : Bytes) : Bytes := if c.native then name else shadowName name

/-- the environment after `SendOnce`'s transaction -/
def sendEnv (c : Cfg) (e : Env) (w : W) : Env := if c.native then e else commit e w

/-- the application (non-private) DBI names of a transaction state, in LMDB's order -/
def appNames (w : W) : List Bytes := (dbiNames w).filter (fun n => !isPrivate n)

theorem commit_lastTxn_min (e : Env) (w : W) :
    (if (commit e w).lastTxn < e.lastTxn + 1 then (commit e w).lastTxn else e.lastTxn + 1)
      = (commit e w).lastTxn := by
  unfold commit
  cases w.dirty <;> simp

/-- `sendOnce` in closed form -/
theorem sendOnce_eq (c : Cfg) (e : Env) (now cutoff : Nat) :
    sendOnce c e now cutoff =
      match dumpState c e now cutoff with
      | .error err => .error err
      | .ok w =>
        match (if c.receiveOnly then .ok []
               else (appNames w).mapM fun name => readDBI c w (dumpName c name) name false) with
        | .error err => .error err
        | .ok dbs =>
          .ok { env := sendEnv c e w, txnID := (sendEnv c e w).lastTxn,
                snap := { fv := Gen.currentFormatVersion, cv := Gen.writeCompatFormatVersion,
                          dbs := dbs } } := by
  unfold sendOnce dumpState sendEnv appNames dumpName
  cases hn : c.native
  · simp only [Bool.false_eq_true, if_false, bind, Except.bind, pure, Except.pure]
    cases mainToShadow c { dbis := e.dbis, dirty := false } (e.lastTxn + 1) now cutoff with
    | error err => rfl
    | ok w =>
      simp only [commit_lastTxn_min]
      cases c.receiveOnly
      · simp only [Bool.false_eq_true, if_false]
        generalize (List.mapM _ _ : Except Err (List DbiMsg)) = r
        cases r <;> rfl
      · rfl
  · simp only [if_true, bind, Except.bind, pure, Except.pure, Nat.lt_irrefl, if_false]
    cases c.receiveOnly
    · simp only [Bool.false_eq_true, if_false]
      generalize (List.mapM _ _ : Except Err (List DbiMsg)) = r
      cases r <;> rfl
    · rfl


/-- `sendOnce` succeeds with `r` exactly when the dump-time state exists and `r` is its image -/
theorem sendOnce_ok_iff (c : Cfg) (e : Env) (now cutoff : Nat) (r : SendRes)
    (hro : c.receiveOnly = false) :
    sendOnce c e now cutoff = .ok r ↔
      ∃ w, dumpState c e now cutoff = .ok w ∧ r.env = sendEnv c e w ∧
        r.txnID = (sendEnv c e w).lastTxn ∧ r.snap.fv = Gen.currentFormatVersion ∧
        r.snap.cv = Gen.writeCompatFormatVersion ∧
        Pointwise (fun name m => DbiImage c w (dumpName c name) name m) (appNames w) r.snap.dbs := by
  rw [sendOnce_eq]
  simp only [hro, Bool.false_eq_true, if_false]
  constructor
  · intro h
    split at h
    · cases h
    · rename_i w hw
      split at h
      · cases h
      · rename_i dbs hdbs
        injection h with h; subst h
        refine ⟨w, hw, rfl, rfl, rfl, rfl, ?_⟩
        exact (mapM_ok_forall₂ _ _ _ hdbs).imp (fun _ _ => readDBI_ok)
  · rintro ⟨w, hw, h1, h2, h3, h4, h5⟩
    rw [hw]
    simp only
    rw [forall₂_mapM_ok (fun name => readDBI c w (dumpName c name) name false) (appNames w)
      r.snap.dbs (h5.imp (fun _ _ => readDBI_of_image))]
    obtain ⟨env, txn, ⟨fv, cv, dbs⟩⟩ := r
    simp only at h1 h2 h3 h4
    subst h1 h2 h3 h4
    rfl

theorem sendOnce_receiveOnly (c : Cfg) (e : Env) (now cutoff : Nat) (r : SendRes)
    (hro : c.receiveOnly = true) (h : sendOnce c e now cutoff = .ok r) :
    ∃ w, dumpState c e now cutoff = .ok w ∧ r.env = sendEnv c e w ∧
      r.txnID = (sendEnv c e w).lastTxn ∧ r.snap.dbs = [] := by
  rw [sendOnce_eq] at h
  simp only [hro, if_true] at h
  split at h
  · cases h
  · rename_i w hw
    injection h with h; subst h
    exact ⟨w, hw, rfl, rfl, rfl⟩

theorem EntryImage.unique {kv : Bytes × Bytes} {x y : KV} (hx : EntryImage kv x) (hy : EntryImage kv y) :
    x = y := by
  obtain ⟨h, app, hp, rfl⟩ := hx
  obtain ⟨h', app', hp', rfl⟩ := hy
  rw [hp] at hp'
  injection hp' with hp'
  injection hp' with h1 h2
  subst h1 h2; rfl


theorem drop_prefix16 (p q rest : Bytes) (N : Nat) (hp : p.length = 16) (hq : q.length = 16)
    (hN : 16 ≤ N) : List.drop N (p ++ rest) = List.drop N (q ++ rest) := by
  rw [List.drop_append, List.drop_append, List.drop_of_length_le (l := p) (by omega),
    List.drop_of_length_le (l := q) (by omega), hp, hq]

theorem entryImage_txn_irrelevant (k ts txn txn' rest : Bytes) (x : KV)
    (h1 : ts.length = 8) (h2 : txn.length = 8) (h3 : txn'.length = 8)
    (h : EntryImage (k, ts ++ txn ++ rest) x) : EntryImage (k, ts ++ txn' ++ rest) x := by
  obtain ⟨a0, a1, a2, a3, a4, a5, a6, a7, rfl⟩ := Header.list_len8 ts h1
  obtain ⟨b0, b1, b2, b3, b4, b5, b6, b7, rfl⟩ := Header.list_len8 txn h2
  obtain ⟨c0, c1, c2, c3, c4, c5, c6, c7, rfl⟩ := Header.list_len8 txn' h3
  obtain ⟨hd, app, hp, rfl⟩ := h
  refine ⟨{ hd with txn := beNat [c0, c1, c2, c3, c4, c5, c6, c7] }, app, ?_, rfl⟩
  simp only [Header.parse, Header.getNumExtra, slice, Gen.versionOffset, Gen.flagsOffset,
    Gen.numExtraOffsetHigh, Gen.minHeaderSize, Gen.blockSize, Header.hsz, Header.bsz] at hp ⊢
  simp only [List.cons_append, List.nil_append, List.length_cons, List.getD_cons_succ,
    List.drop_succ_cons, List.drop_zero] at hp ⊢
  split at hp
  · cases hp
  · rename_i hl
    rw [if_neg hl]
    split at hp
    · cases hp
    · rename_i hv
      rw [if_neg hv]
      split at hp
      · cases hp
      · rename_i hn
        rw [if_neg hn]
        injection hp with hp
        injection hp with hp1 hp2
        subst hp1 hp2
        simp only [Header.Hdr.mk.injEq, Prod.mk.injEq, Except.ok.injEq, and_true]
        refine ⟨⟨?_, ?_⟩, ?_⟩
        · simp
        · simp [beNat]
        · exact drop_prefix16 [a0, a1, a2, a3, a4, a5, a6, a7, c0, c1, c2, c3, c4, c5, c6, c7]
            [a0, a1, a2, a3, a4, a5, a6, a7, b0, b1, b2, b3, b4, b5, b6, b7] rest _ rfl rfl (by omega)

end Ls.Txn
