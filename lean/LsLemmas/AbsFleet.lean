import LsLemmas.Join
/-
  Layer D: the abstract fleet. Every instance holds a map from keys to optional versions; the
  bucket holds published images of such maps; merging a snapshot is the pointwise join.
  The byte-level transactions refine these steps (LsProps/C02: merge = join; LsProps/C19: Update
  applies the decision per key; LsProps/C06: a snapshot is the complete image; LsProps/C11 for
  the non-native mirror); the trace-level correspondence ties the real sync loops to them.
-/
namespace Ls.Abs
open Ls

/-- (DBI name, key) -/
abbrev Key := Bytes × Bytes
abbrev DB := Key → Option Ver

def DB.join (a b : DB) : DB := fun k => Ls.join (a k) (b k)
/-- `a ≤ b`: b holds, for every key, a version at least as new as a's -/
def DB.le (a b : DB) : Prop := ∀ k, Ls.join (a k) (b k) = b k
def DB.WF (a : DB) : Prop := ∀ k, OWF (a k)
def DB.empty : DB := fun _ => none

theorem le_refl (a : DB) : a.le a := fun k => join_idem (a k)

theorem le_join_left {a b : DB} (ha : a.WF) (hb : b.WF) : a.le (a.join b) := by
  intro k; simp only [DB.join]
  rw [← join_assoc (ha k) (ha k) (hb k), join_idem]

theorem le_join_right {a b : DB} (ha : a.WF) (hb : b.WF) : b.le (a.join b) := by
  intro k; simp only [DB.join]
  rw [join_comm (ha k) (hb k), ← join_assoc (hb k) (hb k) (ha k), join_idem]

theorem le_trans {a b c : DB} (ha : a.WF) (hb : b.WF) (hc : c.WF) (h1 : a.le b) (h2 : b.le c) : a.le c := by
  intro k
  have e1 := h1 k; have e2 := h2 k
  rw [← e2, ← join_assoc (ha k) (hb k) (hc k), e1]

theorem le_antisymm {a b : DB} (ha : a.WF) (hb : b.WF) (h1 : a.le b) (h2 : b.le a) : a = b := by
  funext k
  have e1 := h1 k; have e2 := h2 k
  rw [join_comm (hb k) (ha k)] at e2
  rw [← e2, e1]

theorem join_wf' {a b : DB} (ha : a.WF) (hb : b.WF) : (a.join b).WF := fun k => join_wf (ha k) (hb k)

theorem join_le {a b c : DB} (ha : a.WF) (hb : b.WF) (hc : c.WF) (h1 : a.le c) (h2 : b.le c) :
    (a.join b).le c := by
  intro k; simp only [DB.join]
  rw [join_assoc (ha k) (hb k) (hc k), h2 k, h1 k]

/-- a fleet: instance databases and the bucket (instance id, published image), oldest first -/
structure Fleet where
  n : Nat
  db : Nat → DB
  bucket : List (Nat × DB)

/-- the newest snapshot of an instance -/
def newest (b : List (Nat × DB)) (j : Nat) : Option DB :=
  ((b.filter (·.1 = j)).getLast?).map (·.2)

inductive Step where
  | write (i : Nat) (k : Key) (v : Ver)     -- the application at i commits a version (any)
  | send (i : Nat)                           -- i uploads the image of its database
  | load (i : Nat) (idx : Nat)               -- i merges ANY snapshot of the bucket (not only newest)

/-- overwrite one key -/
def upd (d : DB) (k : Key) (v : Ver) : DB := fun k' => if k' = k then some v else d k'

theorem upd_same (d : DB) (k : Key) (v : Ver) : upd d k v k = some v := by simp [upd]
theorem upd_other (d : DB) (k k' : Key) (v : Ver) (h : k' ≠ k) : upd d k v k' = d k' := by simp [upd, h]

def step (f : Fleet) : Step → Fleet
  | .write i k v => { f with db := fun j => if j = i then upd (f.db i) k v else f.db j }
  | .send i => { f with bucket := f.bucket ++ [(i, f.db i)] }
  | .load i idx =>
    match f.bucket[idx]? with
    | none => f
    | some (_, s) => { f with db := fun j => if j = i then (f.db i).join s else f.db j }

def run (f : Fleet) (steps : List Step) : Fleet := steps.foldl step f

def init (n : Nat) : Fleet := { n := n, db := fun _ => DB.empty, bucket := [] }

/-- all versions the applications wrote are well-formed (deleted ⇒ no value) -/
def StepsWF (steps : List Step) : Prop :=
  ∀ s ∈ steps, match s with | .write _ _ v => v.WF | _ => True

def FleetWF (f : Fleet) : Prop := (∀ i, (f.db i).WF) ∧ ∀ p ∈ f.bucket, p.2.WF

theorem step_wf {f : Fleet} {s : Step} (hf : FleetWF f)
    (hs : match s with | .write _ _ v => v.WF | _ => True) : FleetWF (step f s) := by
  obtain ⟨h1, h2⟩ := hf
  cases s with
  | write i k v =>
    refine ⟨?_, h2⟩
    intro j k'
    simp only [step]
    split
    · by_cases hk : k' = k
      · subst hk; rw [upd_same]; exact hs
      · rw [upd_other _ _ _ _ hk]; exact h1 i k'
    · exact h1 j k'
  | send i =>
    refine ⟨h1, ?_⟩
    intro p hp
    simp only [step, List.mem_append, List.mem_singleton] at hp
    rcases hp with hp | hp
    · exact h2 p hp
    · subst hp; exact h1 i
  | load i idx =>
    simp only [step]
    split
    · exact ⟨h1, h2⟩
    · rename_i j s hget
      refine ⟨?_, h2⟩
      intro j' k
      simp only
      split
      · exact join_wf (h1 i k) (h2 _ (List.mem_of_getElem? hget) k)
      · exact h1 j' k

theorem run_wf {f : Fleet} {steps : List Step} (hf : FleetWF f) (hs : StepsWF steps) :
    FleetWF (run f steps) := by
  induction steps generalizing f with
  | nil => exact hf
  | cons s rest ih =>
    simp only [run, List.foldl_cons]
    exact ih (step_wf hf (hs s (by simp))) (fun s' h' => hs s' (by simp [h']))

theorem init_wf (n : Nat) : FleetWF (init n) :=
  ⟨fun _ _ => trivial, fun _ h => by simp [init] at h⟩

/-- quiescent: every instance's newest snapshot is exactly its database (nothing unpublished)
    and every instance has merged every other instance's newest snapshot -/
def Quiescent (f : Fleet) : Prop :=
  ∀ j, j < f.n → ∃ s, newest f.bucket j = some s ∧ s = f.db j ∧ ∀ i, i < f.n → s.le (f.db i)

end Ls.Abs
