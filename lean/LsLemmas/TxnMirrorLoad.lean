import LsLemmas.TxnMirror
/-
  Transaction-level model: the per-DBI part of LoadOnce (`loadDbi`) and the fold over the
  snapshot's DBI messages. Helper lemmas for C10 / C11.
-/
namespace Ls.Txn
open Ls Ls.Lmdb Ls.Strategy Ls.Merge

/-- DBI names are pairwise distinct -/
def DistinctNames (dbis : List Dbi) : Prop := dbis.Pairwise (fun a b => a.name ≠ b.name)

instance (dbis : List Dbi) : Decidable (DistinctNames dbis) := by
  unfold DistinctNames; exact inferInstance

theorem DistinctNames.unique {dbis : List Dbi} (h : DistinctNames dbis) {x y : Dbi}
    (hx : x ∈ dbis) (hy : y ∈ dbis) (hn : x.name = y.name) : x = y := by
  induction dbis with
  | nil => cases hx
  | cons a rest ih =>
    obtain ⟨h1, h2⟩ := List.pairwise_cons.mp h
    rcases List.mem_cons.mp hx with hx | hx <;> rcases List.mem_cons.mp hy with hy | hy
    · rw [hx, hy]
    · rw [hx] at hn; exact absurd hn (h1 y hy)
    · rw [hy] at hn; exact absurd hn.symm (h1 x hx)
    · exact ih h2 hx hy

theorem DistinctNames.find_unique {dbis : List Dbi} (h : DistinctNames dbis) {n : Bytes} {d : Dbi}
    (hd : findDbi dbis n = some d) : ∀ x ∈ dbis, x.name = n → x = d := by
  intro x hx hn
  exact h.unique hx (findDbi_mem hd) (by rw [hn, findDbi_name hd])

theorem DistinctNames.find_of_mem {dbis : List Dbi} (h : DistinctNames dbis) {d : Dbi} (hd : d ∈ dbis) :
    findDbi dbis d.name = some d := by
  cases hf : findDbi dbis d.name with
  | none => exact absurd rfl (findDbi_none_iff.mp hf d hd)
  | some x => rw [h.unique (findDbi_mem hf) hd (findDbi_name hf)]

theorem foldlM_noop {ε α β} (f : β → α → Except ε β) (l : List α) (b : β) (h : ∀ a ∈ l, f b a = .ok b) :
    l.foldlM f b = .ok b := by
  induction l with
  | nil => rfl
  | cons a rest ih =>
    rw [List.foldlM_cons, h a (List.mem_cons_self ..)]
    exact ih (fun a ha => h a (List.mem_cons_of_mem _ ha))

theorem parse_ok_length {old : Bytes} {h : Header.Hdr} {v : Bytes} (hp : Header.parse old = .ok (h, v)) :
    old.length ≠ 0 := by
  unfold Header.parse at hp
  split at hp
  · cases hp
  · rename_i hl; simp [Header.hsz, Gen.minHeaderSize] at hl; omega

/-- the iterator configuration `loadDbi` uses -/
def loadCfg (c : Cfg) (snap : Snap) (txnID cutoff : Nat) : Merge.Cfg :=
  { fv := snap.fv, defTs := 0, txn := txnID, cutoff := cutoff, pad := c.pad }

/-- the snapshot entry contains nothing newer than what the DBI stores for its key: the key is
    stored, with a parsable header, and `Merge` keeps the stored bytes (`Merge.keep`: the stored
    version is not beaten); or the key is absent and the entry is a deletion marker older than the
    cut-off, which `Merge` refuses (`Merge.stale`) -/
def EntryNotNewer (mc : Merge.Cfg) (ik : Bool) (db : KVs) (e : KV) : Prop :=
  e.key ≠ [] ∧
  match get ik db e.key with
  | some old => ∃ h appVal, Header.parse old = .ok (h, appVal) ∧ Merge.keep mc e h appVal
  | none => Merge.stale mc e

instance (mc : Merge.Cfg) (e : KV) : Decidable (Merge.stale mc e) := by
  unfold Merge.stale; exact inferInstance

theorem update_notNewer_noop (mc : Merge.Cfg) (ik : Bool) (db : KVs) (d : Bool) (entries : List KV)
    (hs : Sorted ik db) (h : ∀ e ∈ entries, EntryNotNewer mc ik db e) :
    update ik (nativeIter mc) ⟨db, d⟩ entries = .ok ⟨db, d⟩ := by
  rw [update_eq_spec (nativeIter mc) entries (s := ⟨db, d⟩) hs
    (fun e he => by
      have := (h e he).1
      simpa [nativeIter, List.length_eq_zero_iff] using this)]
  apply specUpdateS_noop (nativeIter mc) entries ⟨db, d⟩ hs
  intro e he
  obtain ⟨_, hm⟩ := h e he
  simp only [nativeIter]
  cases hg : get ik db e.key with
  | some old =>
    rw [hg] at hm
    obtain ⟨hd, appVal, hp, hk⟩ := hm
    have hl := parse_ok_length hp
    refine ⟨some old, (merge_present mc e old hd appVal hl hp).1 hk, ?_⟩
    simp [setNew, hl]
  | none =>
    rw [hg] at hm
    refine ⟨none, ?_, rfl⟩
    simp only [Option.getD_none]
    have hm' : entryDeleted mc e = true ∧ e.ts < mc.cutoff := hm
    rw [merge_absent, if_pos hm']

/-- the DBI message contains nothing newer (and passes the gates of `loadDbi`, and no DBI has to
    be created for it) -/
def MsgNotNewer (c : Cfg) (snap : Snap) (txnID cutoff : Nat) (dbis : List Dbi) (m : DbiMsg) : Prop :=
  isPrivate m.name = false →
    validateTransform m snap.fv c.native = true ∧ versionOk snap.fv snap.cv = true ∧
    (c.native = false → ∃ d, findDbi dbis m.name = some d) ∧
    ∃ td, findDbi dbis (if c.native then m.name else shadowName m.name) = some td ∧
      Sorted (isIntKey td.flags) td.kvs ∧
      ∀ e ∈ m.entries, EntryNotNewer (loadCfg c snap txnID cutoff) (isIntKey td.flags) td.kvs e

theorem loadDbi_noop (c : Cfg) (snap : Snap) (txnID cutoff : Nat) (w : W) (m : DbiMsg)
    (hdist : DistinctNames w.dbis) (h : MsgNotNewer c snap txnID cutoff w.dbis m) :
    loadDbi c snap txnID cutoff w m = .ok w := by
  unfold loadDbi
  by_cases hp : isPrivate m.name = true
  · simp [hp]; rfl
  · have hp' : isPrivate m.name = false := by simpa using hp
    obtain ⟨hv, hver, happ, td, htd, hsorted, hent⟩ := h hp'
    have hupd := update_notNewer_noop (loadCfg c snap txnID cutoff) (isIntKey td.flags) td.kvs w.dirty
      m.entries hsorted hent
    have hrun := runOn_noop (w := w) (f := fun s => mapStratErr
        (update (isIntKey td.flags) (nativeIter (loadCfg c snap txnID cutoff)) s m.entries))
      htd (hdist.find_unique htd) (mapStratErr_of_ok hupd)
    cases hn : c.native with
    | true =>
      simp only [hn, if_true] at htd
      rw [hn] at hv
      simp [hp', hv, hver, htd, bind, Except.bind, pure, Except.pure]
      simpa [loadCfg, hn] using hrun
    | false =>
      obtain ⟨d, hd⟩ := happ hn
      simp only [hn, Bool.false_eq_true, if_false] at htd
      rw [hn] at hv
      simp [hp', hv, hver, htd, hd, bind, Except.bind, pure, Except.pure]
      simpa [loadCfg, hn] using hrun

end Ls.Txn
