import LsLemmas.StrategyIter2
/-
  strategy.IterUpdate, continued: only the decisions actually consulted matter (so the results hold
  for iterators that may fail elsewhere); the user-facing pointwise reading (helper lemmas for C19).
-/
namespace Ls.Strategy
open Ls Ls.Lmdb

variable {E ε : Type} {mg : E → Bytes → Option Bytes} {cl : Bytes → Option Bytes}

/-- The decisions IterUpdate consults for this input and this stored content do not fail, and are
    given by `mg` / `cl`: `Merge(nil)` for every input entry, `Merge(stored)` for an input entry
    whose key is stored, `Clean(stored)` for every stored entry whose key is not in the input. -/
structure LocalTotal (ik : Bool) (it : Iter E ε) (mg : E → Bytes → Option Bytes) (cl : Bytes → Option Bytes)
    (input : List E) (db : KVs) : Prop where
  mergeNil : ∀ e ∈ input, it.merge e [] = .ok (mg e [])
  mergeStored : ∀ e ∈ input, ∀ dv, get ik db (it.key e) = some dv → it.merge e dv = .ok (mg e dv)
  clean : ∀ p ∈ db, inInput ik it input p.1 = false → it.clean p.2 = .ok (cl p.2)

theorem Total.local {ik : Bool} {it : Iter E ε} (T : Total it mg cl) (input : List E) (db : KVs) :
    LocalTotal ik it mg cl input db :=
  ⟨fun e _ => T.merge e [], fun e _ dv _ => T.merge e dv, fun p _ _ => T.clean p.2⟩

/-- the iterator with the same keys whose decisions are the total functions `mg`, `cl` -/
def pureIter (it : Iter E ε) (mg : E → Bytes → Option Bytes) (cl : Bytes → Option Bytes) : Iter E ε :=
  { key := it.key, merge := fun e o => .ok (mg e o), clean := fun v => .ok (cl v) }

theorem pureIter_total (it : Iter E ε) (mg : E → Bytes → Option Bytes) (cl : Bytes → Option Bytes) :
    Total (pureIter it mg cl) mg cl := ⟨fun _ _ => rfl, fun _ => rfl⟩

theorem plan_pureIter (ik : Bool) (it : Iter E ε) (mg : E → Bytes → Option Bytes) (cl : Bytes → Option Bytes)
    (I : List E) (D : KVs) : plan ik (pureIter it mg cl) I D = plan ik it I D := by
  refine join_cases (ik := ik) (it := it)
    (P := fun I D => plan ik (pureIter it mg cl) I D = plan ik it I D) ?_ ?_ ?_ ?_ ?_ ?_ I D
  · rw [plan_nil_nil, plan_nil_nil]
  · intro dk dv ds ih; rw [plan_nil_cons, plan_nil_cons, ih]
  · intro e es ih; rw [plan_cons_nil, plan_cons_nil, ih]
  · intro e es dk dv ds h ih
    rw [plan_lt _ it _ _ _ _ _ h, plan_lt _ (pureIter it mg cl) _ _ _ _ _ h, ih]
  · intro e es dk dv ds h ih
    rw [plan_eq _ it _ _ _ _ _ h, plan_eq _ (pureIter it mg cl) _ _ _ _ _ h, ih]
  · intro e es dk dv ds h ih
    rw [plan_gt _ it _ _ _ _ _ h, plan_gt _ (pureIter it mg cl) _ _ _ _ _ h, ih]

theorem foldlM_congr_mem {α β : Type} {m : Type → Type} [Monad m] (f g : β → α → m β) (l : List α)
    (h : ∀ a ∈ l, ∀ b, f b a = g b a) : ∀ b, l.foldlM f b = l.foldlM g b := by
  induction l with
  | nil => intro b; rfl
  | cons a as ih =>
    intro b
    rw [List.foldlM_cons, List.foldlM_cons, h a (List.mem_cons_self ..)]
    congr 1
    funext b'
    exact ih (fun a ha => h a (List.mem_cons_of_mem _ ha)) b'

theorem runAct_pureIter {ik : Bool} {it : Iter E ε} {input : List E} {db : KVs}
    (L : LocalTotal ik it mg cl input db) (hD : Sorted ik db) (a : Act E) (ha : ActSpec ik it input db a) (s : S) :
    runAct ik it s a = runAct ik (pureIter it mg cl) s a := by
  cases a with
  | clean dk dv =>
    have := L.clean (dk, dv) ha.1 ha.2
    simp only [runAct, cbClean, this, pureIter]
  | insert e =>
    have := L.mergeNil e ha.1
    simp only [runAct, cbInsert, this, pureIter]
  | both e dk dv =>
    have h1 := L.mergeNil e ha.1
    have hg : get ik db (it.key e) = some dv := by
      rw [get_congr ik db ha.2.2]; exact get_of_mem hD ha.2.1
    have h2 := L.mergeStored e ha.1 dv hg
    simp only [runAct, cbBoth, h1, h2, pureIter]

/-- IterUpdate only depends on the decisions it consults -/
theorem iterUpdate_pureIter {ik : Bool} {it : Iter E ε} (db : KVs) (d : Bool) (input : List E)
    (L : LocalTotal ik it mg cl input db) (hS : ISorted ik it input) (hK : KeysOK it input) (hD : Sorted ik db) :
    iterUpdate ik it ⟨db, d⟩ input = iterUpdate ik (pureIter it mg cl) ⟨db, d⟩ input := by
  rw [iterUpdate_plan ik it _ input hS hK, iterUpdate_plan ik (pureIter it mg cl) _ input hS hK,
    plan_pureIter]
  unfold runPlan
  exact foldlM_congr_mem _ _ _ (fun a ha s => runAct_pureIter L hD a (plan_mem input db hS hD a ha) s) _

/-- … and so does its specification -/
theorem specIterUpdate_pureIter {ik : Bool} {it : Iter E ε} (db : KVs) (input : List E)
    (L : LocalTotal ik it mg cl input db) :
    specIterUpdate ik it db input = specIterUpdate ik (pureIter it mg cl) db input := by
  unfold specIterUpdate
  have h1 : ∀ b, List.foldlM (fun acc (kv : Bytes × Bytes) =>
        if inInput ik it input kv.1 then pure acc
        else do let v ← it.clean kv.2; pure (applyOpt ik acc kv.1 v)) b db
      = List.foldlM (fun acc (kv : Bytes × Bytes) =>
        if inInput ik (pureIter it mg cl) input kv.1 then pure acc
        else do let v ← (pureIter it mg cl).clean kv.2; pure (applyOpt ik acc kv.1 v)) b db := by
    refine foldlM_congr_mem _ _ _ (fun p hp b => ?_)
    show (if inInput ik it input p.1 then _ else _) = (if inInput ik it input p.1 then _ else _)
    split
    · rfl
    · rename_i hin
      rw [L.clean p hp (by simpa using hin)]; rfl
  have h2 : ∀ b, List.foldlM (fun acc e => do
        let old := (get ik db (it.key e)).getD []
        let v ← it.merge e old
        pure (applyOpt ik acc (it.key e) (setNew v))) b input
      = List.foldlM (fun acc e => do
        let old := (get ik db ((pureIter it mg cl).key e)).getD []
        let v ← (pureIter it mg cl).merge e old
        pure (applyOpt ik acc ((pureIter it mg cl).key e) (setNew v))) b input := by
    refine foldlM_congr_mem _ _ _ (fun e he b => ?_)
    have : it.merge e ((get ik db (it.key e)).getD []) = .ok (mg e ((get ik db (it.key e)).getD [])) := by
      cases hg : get ik db (it.key e) with
      | none => exact L.mergeNil e he
      | some dv => exact L.mergeStored e he dv hg
    show (it.merge e ((get ik db (it.key e)).getD []) >>= _) = _
    rw [this]; rfl
  rw [h1 db]
  congr 1
  funext db1
  exact h2 db1

/-! ### looking up the input entry of a key -/

theorem lookupI_of_mem {ik : Bool} {it : Iter E ε} {I : List E} (hS : ISorted ik it I) {e : E} (he : e ∈ I) :
    lookupI ik it I (it.key e) = some e := by
  induction I with
  | nil => cases he
  | cons x xs ih =>
    have hS' := isorted_tail_gt hS
    by_cases hx : kcmp ik (it.key x) (it.key e) = 0
    · rcases List.mem_cons.mp he with h | h
      · rw [h]; exact lookupI_cons_pos (kcmp_refl ik _)
      · exact absurd hx (kcmp_ne_of_lt ik (hS'.1 e h))
    · rcases List.mem_cons.mp he with h | h
      · rw [h] at hx; exact absurd (kcmp_refl ik _) hx
      · rw [lookupI_cons_neg hx]; exact ih hS'.2 h

theorem lookupI_none_of_inInput {ik : Bool} {it : Iter E ε} {I : List E} {k : Bytes}
    (h : inInput ik it I k = false) : lookupI ik it I k = none := by
  unfold inInput at h
  rw [List.any_eq_false] at h
  exact lookupI_none (fun e he => by simpa using h e he)

/-- the total decisions extracted from an iterator (where it fails: nil) -/
def mgOf (it : Iter E ε) (e : E) (o : Bytes) : Option Bytes :=
  match it.merge e o with
  | .ok r => r
  | .error _ => none

def clOf (it : Iter E ε) (v : Bytes) : Option Bytes :=
  match it.clean v with
  | .ok r => r
  | .error _ => none

theorem total_of_nofail (it : Iter E ε) (hm : ∀ e o, ∃ r, it.merge e o = .ok r) (hc : ∀ v, ∃ r, it.clean v = .ok r) :
    Total it (mgOf it) (clOf it) := by
  constructor
  · intro e o; obtain ⟨r, hr⟩ := hm e o; simp only [mgOf, hr]
  · intro v; obtain ⟨r, hr⟩ := hc v; simp only [clOf, hr]

/-- IterUpdate, assembled: result content, agreement with the specification, sortedness and the
    pointwise reading -/
theorem iterUpdate_main {ik : Bool} {it : Iter E ε} (db : KVs) (d : Bool) (input : List E)
    (L : LocalTotal ik it mg cl input db) (hS : ISorted ik it input) (hK : KeysOK it input)
    (hD : Sorted ik db) (hDK : DKeysOK db) :
    ∃ d', iterUpdate ik it ⟨db, d⟩ input = .ok ⟨joinOut ik it mg cl input db, d'⟩ ∧
      specIterUpdate ik it db input = .ok (joinOut ik it mg cl input db) := by
  have T := pureIter_total it mg cl
  obtain ⟨d', h⟩ := runPlan_out (ik := ik) T input db hS hD hK hDK [] d (fun p hp => by cases hp)
  refine ⟨d', ?_, ?_⟩
  · rw [iterUpdate_pureIter db d input L hS hK hD, iterUpdate_plan ik (pureIter it mg cl) _ input hS hK]
    simp only [List.nil_append] at h
    rw [h]
    unfold joinOut; rw [plan_pureIter]; rfl
  · rw [specIterUpdate_pureIter db input L, specIterUpdate_eq T db input hS hD]
    unfold joinOut; rw [plan_pureIter]; rfl

/-! ### a successful run consulted only successful decisions -/

/-- every input entry and every stored entry is handled by some callback of the plan -/
theorem plan_complete (ik : Bool) (it : Iter E ε) (I : List E) (D : KVs) :
    (∀ e ∈ I, Act.insert e ∈ plan ik it I D ∨ ∃ dk dv, Act.both e dk dv ∈ plan ik it I D) ∧
    (∀ p ∈ D, Act.clean p.1 p.2 ∈ plan ik it I D ∨ ∃ e, Act.both e p.1 p.2 ∈ plan ik it I D) := by
  refine join_cases (ik := ik) (it := it) (P := fun I D =>
    (∀ e ∈ I, Act.insert e ∈ plan ik it I D ∨ ∃ dk dv, Act.both e dk dv ∈ plan ik it I D) ∧
    (∀ p ∈ D, Act.clean p.1 p.2 ∈ plan ik it I D ∨ ∃ e, Act.both e p.1 p.2 ∈ plan ik it I D))
    ?_ ?_ ?_ ?_ ?_ ?_ I D
  · exact ⟨fun e he => (by cases he), fun p hp => (by cases hp)⟩
  · intro dk dv ds ih
    rw [plan_nil_cons]
    refine ⟨fun e he => (by cases he), fun p hp => ?_⟩
    rcases List.mem_cons.mp hp with h | h
    · rw [h]; exact Or.inl (List.mem_cons_self ..)
    · rcases ih.2 p h with h' | ⟨e, h'⟩
      · exact Or.inl (List.mem_cons_of_mem _ h')
      · exact Or.inr ⟨e, List.mem_cons_of_mem _ h'⟩
  · intro e es ih
    rw [plan_cons_nil]
    refine ⟨fun x hx => ?_, fun p hp => (by cases hp)⟩
    rcases List.mem_cons.mp hx with h | h
    · rw [h]; exact Or.inl (List.mem_cons_self ..)
    · rcases ih.1 x h with h' | ⟨dk, dv, h'⟩
      · exact Or.inl (List.mem_cons_of_mem _ h')
      · exact Or.inr ⟨dk, dv, List.mem_cons_of_mem _ h'⟩
  · intro e es dk dv ds hlt ih
    rw [plan_lt _ _ _ _ _ _ _ hlt]
    refine ⟨fun x hx => ?_, fun p hp => ?_⟩
    · rcases ih.1 x hx with h' | ⟨dk', dv', h'⟩
      · exact Or.inl (List.mem_cons_of_mem _ h')
      · exact Or.inr ⟨dk', dv', List.mem_cons_of_mem _ h'⟩
    · rcases List.mem_cons.mp hp with h | h
      · rw [h]; exact Or.inl (List.mem_cons_self ..)
      · rcases ih.2 p h with h' | ⟨x, h'⟩
        · exact Or.inl (List.mem_cons_of_mem _ h')
        · exact Or.inr ⟨x, List.mem_cons_of_mem _ h'⟩
  · intro e es dk dv ds heq ih
    rw [plan_eq _ _ _ _ _ _ _ heq]
    refine ⟨fun x hx => ?_, fun p hp => ?_⟩
    · rcases List.mem_cons.mp hx with h | h
      · rw [h]; exact Or.inr ⟨dk, dv, List.mem_cons_self ..⟩
      · rcases ih.1 x h with h' | ⟨dk', dv', h'⟩
        · exact Or.inl (List.mem_cons_of_mem _ h')
        · exact Or.inr ⟨dk', dv', List.mem_cons_of_mem _ h'⟩
    · rcases List.mem_cons.mp hp with h | h
      · rw [h]; exact Or.inr ⟨e, List.mem_cons_self ..⟩
      · rcases ih.2 p h with h' | ⟨x, h'⟩
        · exact Or.inl (List.mem_cons_of_mem _ h')
        · exact Or.inr ⟨x, List.mem_cons_of_mem _ h'⟩
  · intro e es dk dv ds hgt ih
    rw [plan_gt _ _ _ _ _ _ _ hgt]
    refine ⟨fun x hx => ?_, fun p hp => ?_⟩
    · rcases List.mem_cons.mp hx with h | h
      · rw [h]; exact Or.inl (List.mem_cons_self ..)
      · rcases ih.1 x h with h' | ⟨dk', dv', h'⟩
        · exact Or.inl (List.mem_cons_of_mem _ h')
        · exact Or.inr ⟨dk', dv', List.mem_cons_of_mem _ h'⟩
    · rcases ih.2 p hp with h' | ⟨x, h'⟩
      · exact Or.inl (List.mem_cons_of_mem _ h')
      · exact Or.inr ⟨x, List.mem_cons_of_mem _ h'⟩

theorem runPlan_ok_all {ik : Bool} {it : Iter E ε} (acts : List (Act E)) :
    ∀ s s', runPlan ik it s acts = .ok s' → ∀ a ∈ acts, ∃ s1 s2, runAct ik it s1 a = .ok s2 := by
  induction acts with
  | nil => intro _ _ _ a ha; cases ha
  | cons b bs ih =>
    intro s s' h a ha
    rw [runPlan_cons] at h
    cases h1 : runAct ik it s b with
    | error x => rw [h1] at h; cases h
    | ok s1 =>
      rw [h1] at h
      rcases List.mem_cons.mp ha with h' | h'
      · rw [h']; exact ⟨s, s1, h1⟩
      · exact ih s1 s' h a h'

theorem cbClean_ok_inv {ik : Bool} {it : Iter E ε} {s s2 : S} {dk dv : Bytes}
    (h : cbClean ik it s dk dv = .ok s2) : ∃ r, it.clean dv = .ok r := by
  cases hc : it.clean dv with
  | ok r => exact ⟨r, rfl⟩
  | error x => simp only [cbClean, hc, liftIter, bind, Except.bind] at h; cases h

theorem cbInsert_ok_inv {ik : Bool} {it : Iter E ε} {s s2 : S} {e : E}
    (h : cbInsert ik it s e = .ok s2) : ∃ r, it.merge e [] = .ok r := by
  cases hc : it.merge e [] with
  | ok r => exact ⟨r, rfl⟩
  | error x => simp only [cbInsert, hc, liftIter, bind, Except.bind] at h; cases h

theorem cbBoth_ok_inv {ik : Bool} {it : Iter E ε} {s s2 : S} {e : E} {dv : Bytes}
    (h : cbBoth ik it s e dv = .ok s2) : (∃ r, it.merge e [] = .ok r) ∧ (∃ r, it.merge e dv = .ok r) := by
  cases hc0 : it.merge e [] with
  | error x => simp only [cbBoth, hc0, liftIter, bind, Except.bind] at h; cases h
  | ok r0 =>
    refine ⟨⟨r0, rfl⟩, ?_⟩
    cases hc : it.merge e dv with
    | ok r => exact ⟨r, rfl⟩
    | error x => simp only [cbBoth, hc0, hc, liftIter, bind, Except.bind] at h; cases h

theorem mgOf_ok {it : Iter E ε} {e : E} {o : Bytes} (h : ∃ r, it.merge e o = .ok r) :
    it.merge e o = .ok (mgOf it e o) := by
  obtain ⟨r, hr⟩ := h; simp only [mgOf, hr]

theorem clOf_ok {it : Iter E ε} {v : Bytes} (h : ∃ r, it.clean v = .ok r) :
    it.clean v = .ok (clOf it v) := by
  obtain ⟨r, hr⟩ := h; simp only [clOf, hr]

/-- if IterUpdate succeeds, every decision it consulted succeeded -/
theorem localTotal_of_ok {ik : Bool} {it : Iter E ε} (db : KVs) (d : Bool) (input : List E) (s' : S)
    (hS : ISorted ik it input) (hK : KeysOK it input) (hD : Sorted ik db)
    (h : iterUpdate ik it ⟨db, d⟩ input = .ok s') :
    LocalTotal ik it (mgOf it) (clOf it) input db := by
  rw [iterUpdate_plan ik it _ input hS hK] at h
  have hall := runPlan_ok_all _ _ _ h
  have hcomp := plan_complete ik it input db
  have hmem := plan_mem input db hS hD
  refine ⟨fun e he => ?_, fun e he dv hg => ?_, fun p hp hin => ?_⟩
  · rcases hcomp.1 e he with ha | ⟨dk, dv, ha⟩
    · obtain ⟨s1, s2, hr⟩ := hall _ ha
      exact mgOf_ok (cbInsert_ok_inv hr)
    · obtain ⟨s1, s2, hr⟩ := hall _ ha
      exact mgOf_ok (cbBoth_ok_inv hr).1
  · rcases hcomp.1 e he with ha | ⟨dk, dv', ha⟩
    · have := (hmem _ ha).2
      rw [hg] at this; cases this
    · have hsp := hmem _ ha
      have hg' : get ik db (it.key e) = some dv' := by
        rw [get_congr ik db hsp.2.2]; exact get_of_mem hD hsp.2.1
      rw [hg] at hg'; cases hg'
      obtain ⟨s1, s2, hr⟩ := hall _ ha
      exact mgOf_ok (cbBoth_ok_inv hr).2
  · rcases hcomp.2 p hp with ha | ⟨e, ha⟩
    · obtain ⟨s1, s2, hr⟩ := hall _ ha
      exact clOf_ok (cbClean_ok_inv hr)
    · have hsp := hmem _ ha
      have : inInput ik it input p.1 = true := by
        unfold inInput
        rw [List.any_eq_true]
        exact ⟨e, hsp.1, by simpa using hsp.2.2⟩
      rw [this] at hin; cases hin

/-! ### the dirty bit -/

/-- a callback leaves the state (content and dirty bit) alone or sets the dirty bit -/
theorem runAct_same_or_dirty {ik : Bool} {it : Iter E ε} {s s' : S} (a : Act E)
    (h : runAct ik it s a = .ok s') : s' = s ∨ s'.dirty = true := by
  cases a with
  | clean dk dv =>
    simp only [runAct, cbClean] at h
    cases hc : it.clean dv with
    | error x => simp only [hc, liftIter, bind, Except.bind] at h; cases h
    | ok r =>
      simp only [hc, liftIter, bind, Except.bind] at h
      cases r with
      | none => cases h; exact delS_same_or_dirty ik s dk
      | some v =>
        simp only at h
        split at h
        · cases h; exact Or.inl rfl
        · exact Or.inr (putS_dirty h)
  | insert e =>
    simp only [runAct, cbInsert] at h
    cases hc : it.merge e [] with
    | error x => simp only [hc, liftIter, bind, Except.bind] at h; cases h
    | ok r =>
      simp only [hc, liftIter, bind, Except.bind] at h
      cases r with
      | none => cases h; exact Or.inl rfl
      | some v =>
        simp only at h
        split at h
        · cases h; exact Or.inl rfl
        · exact Or.inr (putS_dirty h)
  | both e dk dv =>
    simp only [runAct, cbBoth] at h
    cases hc0 : it.merge e [] with
    | error x => simp only [hc0, liftIter, bind, Except.bind] at h; cases h
    | ok r0 =>
      cases hc : it.merge e dv with
      | error x => simp only [hc0, hc, liftIter, bind, Except.bind] at h; cases h
      | ok r =>
        simp only [hc0, hc, liftIter, bind, Except.bind] at h
        cases r with
        | none => cases h; exact delS_same_or_dirty ik s _
        | some v =>
          simp only at h
          split at h
          · cases h; exact delS_same_or_dirty ik s _
          · split at h
            · cases h; exact Or.inl rfl
            · exact Or.inr (putS_dirty h)

theorem runAct_dirty_mono {ik : Bool} {it : Iter E ε} {s s' : S} (a : Act E)
    (h : runAct ik it s a = .ok s') (hd : s.dirty = true) : s'.dirty = true := by
  rcases runAct_same_or_dirty a h with h' | h'
  · rw [h']; exact hd
  · exact h'

theorem runPlan_same_or_dirty {ik : Bool} {it : Iter E ε} (acts : List (Act E)) :
    ∀ s s', runPlan ik it s acts = .ok s' → s' = s ∨ s'.dirty = true := by
  induction acts with
  | nil => intro s s' h; cases h; exact Or.inl rfl
  | cons a as ih =>
    intro s s' h
    rw [runPlan_cons] at h
    cases h1 : runAct ik it s a with
    | error x => rw [h1] at h; cases h
    | ok s1 =>
      rw [h1] at h
      rcases ih s1 s' h with h2 | h2
      · rw [h2]; exact runAct_same_or_dirty a h1
      · exact Or.inr h2

end Ls.Strategy
