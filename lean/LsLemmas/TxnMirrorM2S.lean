import LsLemmas.TxnMirrorS2M
/-
  `mainToShadow`: the capture of application changes into the shadow DBI.
-/
namespace Ls.Txn
open Ls Ls.Lmdb Ls.Strategy Ls.Merge

theorem m2sStep_private {c : Cfg} {txnID now cutoff : Nat} {w : W} {name : Bytes} (h : isPrivate name = true) :
    m2sStep c txnID now cutoff w name = .ok w := by
  unfold m2sStep; simp [h]; rfl

/-- the iterator configuration of the capture pass -/
def captureCfg (txnID now cutoff : Nat) : Merge.Cfg :=
  { fv := Gen.currentFormatVersion, defTs := now, txn := txnID, cutoff := cutoff, pad := false }

/-- the shadow DBI the capture pass works on: the existing one, or a new empty one carrying only
    the flags allowed for shadow DBIs (MDB_INTEGERKEY) -/
def shadowOf (w : W) (name : Bytes) (d : Dbi) : Dbi :=
  (findDbi w.dbis (shadowName name)).getD
    { name := shadowName name, flags := d.flags &&& Gen.allowedShadowDBIFlagsMask, kvs := [] }

theorem readDBI_raw_self {c : Cfg} {w : W} {name : Bytes} {msg : DbiMsg}
    (h : readDBI c w name name true = .ok msg) :
    ∃ d, findDbi w.dbis name = some d ∧ ¬ (isDupSort d.flags = true ∧ ¬ c.hack = true) ∧
      msg.entries = rawEntries d.kvs := by
  obtain ⟨d, fl, hd, hfl, ht⟩ := readDBI_okMirror h
  rw [if_neg (by simp)] at hfl
  subst hfl
  obtain ⟨h1, h2, _⟩ := readTail_ok ht
  rw [mapM_entryOf_true] at h2
  injection h2 with h2
  exact ⟨d, hd, h1, h2.symm⟩

theorem m2sStep_ok {c : Cfg} {txnID now cutoff : Nat} {w w' : W} {name : Bytes}
    (hp : isPrivate name = false) (h : m2sStep c txnID now cutoff w name = .ok w') :
    ∃ d entries s, findDbi w.dbis name = some d ∧
      ¬ (isDupSort d.flags = true ∧ ¬ c.hack = true) ∧
      (if c.hack = true ∧ isDupSort d.flags = true
        then DupSort.encodeAll (rawEntries d.kvs) = .ok entries else entries = rawEntries d.kvs) ∧
      iterUpdate (isIntKey (shadowOf w name d).flags) (nativeIter (captureCfg txnID now cutoff))
        ⟨(shadowOf w name d).kvs,
         (openCreate w (shadowName name) (d.flags &&& Gen.allowedShadowDBIFlagsMask)).dirty⟩ entries = .ok s ∧
      w' = ⟨setKvs (openCreate w (shadowName name) (d.flags &&& Gen.allowedShadowDBIFlagsMask)).dbis
              (shadowName name) s.db, s.dirty⟩ := by
  unfold m2sStep at h
  simp only [hp, Bool.false_eq_true, if_false, bind, Except.bind] at h
  cases hr : readDBI c w name name true with
  | error e => simp [hr] at h
  | ok msg =>
    obtain ⟨d, hd, hnd, hent⟩ := readDBI_raw_self hr
    simp only [hr, hd, hnd, if_false] at h
    refine ⟨d, ?_⟩
    have hsd := openCreate_find_self w (shadowName name) (d.flags &&& Gen.allowedShadowDBIFlagsMask)
    by_cases hh : c.hack = true ∧ isDupSort d.flags = true
    · simp only [hh, and_self, if_true] at h
      simp only [if_pos hh]
      cases he : DupSort.encodeAll msg.entries with
      | error e => simp [he, throw, throwThe, MonadExceptOf.throw] at h
      | ok entries =>
        simp only [he, pure, Except.pure, hsd] at h
        obtain ⟨sd', s, hsd', hs, hw⟩ := runOn_ok h
        rw [hsd] at hsd'; injection hsd' with hsd'; subst hsd'
        exact ⟨entries, s, hd, hnd, by rw [← hent]; exact he, mapStratErr_ok hs, hw⟩
    · simp only [hh, if_false, pure, Except.pure, hsd] at h
      simp only [if_neg hh]
      obtain ⟨sd', s, hsd', hs, hw⟩ := runOn_ok h
      rw [hsd] at hsd'; injection hsd' with hsd'; subst hsd'
      exact ⟨msg.entries, s, hd, hnd, hent, mapStratErr_ok hs, hw⟩

/-! ### the capture pass on one ordinary DBI, pointwise -/

/-- the entry the capture pass presents for an application value -/
def rawEntry (k v : Bytes) : KV := { key := k, val := v, ts := 0, flags := 0 }

theorem merge_key_irrel (mc : Merge.Cfg) (e : KV) (k : Bytes) (old : Bytes) :
    merge mc { e with key := k } old = merge mc e old := rfl

/-- what the capture pass decides for one key: the application has the key (value `v`) — `Merge`
    of the raw entry (timestamp 0) with the stored shadow value; the application does not have it
    — `Clean` of the stored shadow value (nothing stored: nothing written) -/
def captureSpec (mc : Merge.Cfg) (appv stored : Option Bytes) : Except Header.Err (Option Bytes) :=
  match appv with
  | some v =>
    match merge mc (rawEntry [] v) (stored.getD []) with
    | .ok r => .ok (setNew r)
    | .error e => .error e
  | none =>
    match stored with
    | none => .ok none
    | some old => clean mc old

theorem rawRel_eq {stored : Bytes} {e : KV} (h : RawRel stored e) : e = rawEntry e.key stored := by
  obtain ⟨h1, h2, h3⟩ := h
  cases e; simp_all [rawEntry]

theorem capture_get {ik : Bool} {app sh : KVs} {d0 : Bool} {s : S} (mc : Merge.Cfg)
    (hA : Sorted ik app) (hAK : DKeysOK app) (hS : Sorted ik sh) (hSK : DKeysOK sh)
    (h : iterUpdate ik (nativeIter mc) ⟨sh, d0⟩ (rawEntries app) = .ok s) :
    Sorted ik s.db ∧ DKeysOK s.db ∧
    ∀ k, captureSpec mc (get ik app k) (get ik sh k) = .ok (get ik s.db k) := by
  have hk : ∀ e, (nativeIter mc).key e = e.key := fun _ => rfl
  have hr := keyRel_raw app
  have hIS := hr.isorted (nativeIter mc) hk hA
  have hKO := hr.keysOK (nativeIter mc) hk hAK
  have L := localTotal_of_ok sh d0 (rawEntries app) s hIS hKO hS h
  obtain ⟨d', h1, _⟩ := iterUpdate_main sh d0 (rawEntries app) L hIS hKO hS hSK
  rw [h1] at h
  injection h with h; subst h
  refine ⟨sorted_joinOut _ _ _ sh hIS hS, joinOut_dkeysOK _ _ _ sh hIS hS hKO hSK, ?_⟩
  intro k
  simp only
  rw [get_joinOut _ _ k _ sh hIS hS]
  rcases hr.lookup ik (nativeIter mc) hk k with ⟨h1, h2⟩ | ⟨e, v, h1, he, hek, h2, h3⟩
  · rw [h1, h2]
    simp only [captureSpec]
    cases hg : get ik sh k with
    | none => rfl
    | some dv =>
      obtain ⟨dk, hmem, hkk⟩ := get_some_mem hg
      have hin : inInput ik (nativeIter mc) (rawEntries app) dk = false := by
        rw [hr.inInput ik (nativeIter mc) hk dk, ← get_congr ik app hkk, h2]; rfl
      have := L.clean (dk, dv) hmem hin
      simp only [nativeIter] at this
      simp only [Option.bind_some]
      rw [this]; rfl
  · rw [h1, h2]
    simp only [captureSpec]
    have hsh : get ik sh (e.key) = get ik sh k := get_congr ik sh hek
    have he' := rawRel_eq h3
    have hm : (nativeIter mc).merge e ((get ik sh k).getD []) = .ok (mgOf (nativeIter mc) e ((get ik sh k).getD [])) := by
      cases hg : get ik sh k with
      | none => exact L.mergeNil e he
      | some dv => exact L.mergeStored e he dv (by rw [hk, hsh, hg])
    have hmk : ∀ x, merge mc (rawEntry [] v) x = merge mc e x := by
      intro x
      have : merge mc (rawEntry [] v) x = merge mc (rawEntry e.key v) x := rfl
      rw [this, ← he']
    rw [hmk]
    have hm' : merge mc e ((get ik sh k).getD []) = .ok (mgOf (nativeIter mc) e ((get ik sh k).getD [])) := hm
    rw [hm']

/-! ### the cases of the capture decision -/

/-- the bytes the capture pass writes for a new or changed application value -/
def liveBytes (now txnID : Nat) (v : Bytes) : Bytes := Header.putBasic now txnID 0 ++ v
/-- the bytes the capture pass writes for a key the application deleted -/
def markerBytes (now txnID : Nat) : Bytes := Header.putBasic now txnID (UInt8.ofNat Gen.flagDeleted)

theorem maskedFlags_raw (k v : Bytes) : maskedFlags (rawEntry k v) = 0 := by
  show Header.masked (UInt8.ofNat (0 % 256)) = 0
  decide

theorem entryDeleted_raw (txnID now cutoff : Nat) (k v : Bytes) :
    entryDeleted (captureCfg txnID now cutoff) (rawEntry k v) = false := by
  unfold entryDeleted
  rw [maskedFlags_raw]
  simp [captureCfg, Gen.currentFormatVersion, Header.isDeleted]

theorem addHeader_capture_live (txnID now cutoff : Nat) (k v : Bytes) :
    addHeader (captureCfg txnID now cutoff) (rawEntry k v).val (rawEntry k v).ts (maskedFlags (rawEntry k v))
      = liveBytes now txnID v := by
  rw [maskedFlags_raw]
  simp [addHeader, captureCfg, rawEntry, liveBytes, Gen.currentFormatVersion, Header.isDeleted]

theorem addHeader_capture_marker (txnID now cutoff : Nat) :
    addHeader (captureCfg txnID now cutoff) [] 0 (UInt8.ofNat Gen.flagDeleted) = markerBytes now txnID := by
  simp [addHeader, captureCfg, markerBytes, Gen.currentFormatVersion, Header.isDeleted, Gen.flagDeleted]

theorem liveBytes_length (now txnID : Nat) (v : Bytes) : (liveBytes now txnID v).length ≠ 0 := by
  simp [liveBytes, Header.putBasic_length]

theorem markerBytes_length (now txnID : Nat) : (markerBytes now txnID).length ≠ 0 := by
  simp [markerBytes, Header.putBasic_length]

/-- (a) the application value is the value behind the stored header: stored bytes untouched -/
theorem capture_unchanged (txnID now cutoff : Nat) (v old : Bytes) (hd : Header.Hdr)
    (hp : Header.parse old = .ok (hd, v)) :
    captureSpec (captureCfg txnID now cutoff) (some v) (some old) = .ok (some old) := by
  have hl := parse_ok_length hp
  have hk := (merge_present (captureCfg txnID now cutoff) (rawEntry [] v) old hd v hl hp).1
    (Or.inl ⟨rfl, rfl, by rw [entryDeleted_raw]; simp⟩)
  simp only [captureSpec, Option.getD_some, hk, setNew, hl, if_false]

/-- (b) nothing stored (or an empty stored value): new live version stamped `now` -/
theorem capture_new (txnID now cutoff : Nat) (v : Bytes) (stored : Option Bytes)
    (hs : stored.getD [] = []) :
    captureSpec (captureCfg txnID now cutoff) (some v) stored = .ok (some (liveBytes now txnID v)) := by
  simp only [captureSpec, hs]
  rw [merge_absent, maskedFlags_raw]
  have : ¬ (entryDeleted (captureCfg txnID now cutoff) (rawEntry [] v) = true ∧ (rawEntry [] v).ts < (captureCfg txnID now cutoff).cutoff) := by
    intro h; rw [entryDeleted_raw] at h; exact absurd h.1 (by decide)
  rw [if_neg this]
  have := addHeader_capture_live txnID now cutoff [] v
  rw [maskedFlags_raw] at this
  simp only [this, setNew, liveBytes_length, if_false]

/-- (b) a different value stored with an older timestamp: new live version stamped `now` -/
theorem capture_changed (txnID now cutoff : Nat) (v old a : Bytes) (hd : Header.Hdr)
    (hp : Header.parse old = .ok (hd, a)) (hne : a ≠ v) (hts : hd.ts < now) :
    captureSpec (captureCfg txnID now cutoff) (some v) (some old) = .ok (some (liveBytes now txnID v)) := by
  have hl := parse_ok_length hp
  have hnk : ¬ keep (captureCfg txnID now cutoff) (rawEntry [] v) hd a := by
    unfold keep
    simp only [rawEntry, captureCfg, if_true]
    rintro (⟨_, h, _⟩ | h | ⟨h, _⟩)
    · exact hne h
    · omega
    · omega
  have hk := (merge_present (captureCfg txnID now cutoff) (rawEntry [] v) old hd a hl hp).2 hnk
  simp only [captureSpec, Option.getD_some, hk, addHeader_capture_live, setNew, liveBytes_length, if_false]

/-- (c) key gone from the application, live entry stored: deletion marker stamped `now` -/
theorem capture_deleted (txnID now cutoff : Nat) (old a : Bytes) (hd : Header.Hdr)
    (hp : Header.parse old = .ok (hd, a)) (hlive : Header.isDeleted hd.flags = false) :
    captureSpec (captureCfg txnID now cutoff) none (some old) = .ok (some (markerBytes now txnID)) := by
  simp only [captureSpec, clean, hp, hlive, Bool.false_eq_true, if_false, addHeader_capture_marker]

/-- (d) key gone from the application, marker stored: untouched -/
theorem capture_marker_kept (txnID now cutoff : Nat) (old a : Bytes) (hd : Header.Hdr)
    (hp : Header.parse old = .ok (hd, a)) (hdel : Header.isDeleted hd.flags = true) :
    captureSpec (captureCfg txnID now cutoff) none (some old) = .ok (some old) := by
  simp only [captureSpec, clean, hp, hdel, if_true]

theorem decodeS_liveBytes (now txnID : Nat) (v : Bytes) (hn : now < two64) (ht : txnID < two64) :
    decodeS (liveBytes now txnID v) = .ok (some { ts := now, del := false, val := v }) := by
  unfold decodeS
  rw [if_neg (liveBytes_length now txnID v)]
  unfold liveBytes
  rw [Header.parse_putBasic now txnID 0 v hn ht]
  have h0 : Header.isDeleted (0 : UInt8) = false := by decide
  simp only [h0]

theorem decodeS_markerBytes (now txnID : Nat) (hn : now < two64) (ht : txnID < two64) :
    decodeS (markerBytes now txnID) = .ok (some { ts := now, del := true, val := [] }) := by
  unfold decodeS
  rw [if_neg (markerBytes_length now txnID)]
  have : markerBytes now txnID = Header.putBasic now txnID (UInt8.ofNat Gen.flagDeleted) ++ [] := by
    simp [markerBytes]
  rw [this, Header.parse_putBasic now txnID _ [] hn ht]
  have h0 : Header.isDeleted (UInt8.ofNat Gen.flagDeleted) = true := by decide
  simp only [h0]

theorem parse_liveBytes (now txnID : Nat) (v : Bytes) (hn : now < two64) (ht : txnID < two64) :
    Header.parse (liveBytes now txnID v) =
      .ok ({ ts := now, txn := txnID, version := 0, flags := 0, numExtra := 0, extra := [] }, v) :=
  Header.parse_putBasic now txnID 0 v hn ht


theorem parse_markerBytes (now txnID : Nat) (hn : now < two64) (ht : txnID < two64) :
    Header.parse (markerBytes now txnID) =
      .ok ({ ts := now, txn := txnID, version := 0, flags := UInt8.ofNat Gen.flagDeleted, numExtra := 0,
             extra := [] }, []) := by
  have : markerBytes now txnID = Header.putBasic now txnID (UInt8.ofNat Gen.flagDeleted) ++ [] := by
    simp [markerBytes]
  rw [this, Header.parse_putBasic now txnID _ [] hn ht]

/-! ### the whole pass -/

theorem m2sStep_frame {c : Cfg} {txnID now cutoff : Nat} {w w1 : W} {m : Bytes}
    (h : m2sStep c txnID now cutoff w m = .ok w1) (x : Bytes)
    (hx : ¬ (isPrivate m = false ∧ x = shadowName m)) : findDbi w1.dbis x = findDbi w.dbis x := by
  cases hp : isPrivate m with
  | true => rw [m2sStep_private hp] at h; injection h with h; subst h; rfl
  | false =>
    obtain ⟨d, entries, s, _, _, _, _, hw⟩ := m2sStep_ok hp h
    subst hw
    have hne : x ≠ shadowName m := fun he => hx ⟨hp, he⟩
    simp only [findDbi_setKvsMirror, if_neg hne]
    exact openCreate_find_ne _ _ _ _ hne

theorem m2sStep_distinct {c : Cfg} {txnID now cutoff : Nat} {w w1 : W} {m : Bytes}
    (h : m2sStep c txnID now cutoff w m = .ok w1) (hd : DistinctNames w.dbis) : DistinctNames w1.dbis := by
  cases hp : isPrivate m with
  | true => rw [m2sStep_private hp] at h; injection h with h; subst h; exact hd
  | false =>
    obtain ⟨d, entries, s, _, _, _, _, hw⟩ := m2sStep_ok hp h
    subst hw
    exact distinct_setKvs (distinct_openCreate hd _ _) _ _

/-- `mainToShadow` writes only shadow DBIs of existing application DBIs: every other name
    (application DBIs, private non-shadow DBIs, shadows of no present DBI) is looked up as before -/
theorem mainToShadow_frame {c : Cfg} {txnID now cutoff : Nat} {w w' : W}
    (h : mainToShadow c w txnID now cutoff = .ok w') :
    (DistinctNames w.dbis → DistinctNames w'.dbis) ∧
    ∀ x, (∀ m ∈ dbiNames w, isPrivate m = false → x ≠ shadowName m) →
      findDbi w'.dbis x = findDbi w.dbis x := by
  rw [mainToShadow_eq] at h
  refine ⟨?_, ?_⟩
  · intro hd
    exact foldlM_preserves (m2sStep c txnID now cutoff) (fun x => DistinctNames x.dbis) _
      (fun a _ b b1 hb hs => m2sStep_distinct hs hb) w w' hd h
  · intro x hx
    refine fold_frame (m2sStep c txnID now cutoff) (fun m x => isPrivate m = false ∧ x = shadowName m)
      (fun w m w1 hs x hx => m2sStep_frame hs x hx) _ w w' h x ?_
    rintro m hm ⟨hp, he⟩
    exact hx m hm hp he

theorem mainToShadow_app_unchanged {c : Cfg} {txnID now cutoff : Nat} {w w' : W}
    (h : mainToShadow c w txnID now cutoff = .ok w') (x : Bytes) (hx : isPrivate x = false) :
    findDbi w'.dbis x = findDbi w.dbis x :=
  (mainToShadow_frame h).2 x (fun m _ _ he => by rw [he, isPrivate_shadowName] at hx; cases hx)

/-- the shadow of one application name after `mainToShadow` is what that name's own step made of
    it, and that step saw the DBI and its shadow as they were at the start -/
theorem mainToShadow_dbi {c : Cfg} {txnID now cutoff : Nat} {w w' : W} (hdist : DistinctNames w.dbis)
    (h : mainToShadow c w txnID now cutoff = .ok w') {n : Bytes} {d : Dbi}
    (hp : isPrivate n = false) (hd : findDbi w.dbis n = some d) :
    ∃ w1 w2, m2sStep c txnID now cutoff w1 n = .ok w2 ∧ findDbi w1.dbis n = some d ∧
      findDbi w1.dbis (shadowName n) = findDbi w.dbis (shadowName n) ∧
      findDbi w'.dbis (shadowName n) = findDbi w2.dbis (shadowName n) := by
  rw [mainToShadow_eq] at h
  have hmem : n ∈ dbiNames w := by
    unfold dbiNames
    rw [← findDbi_isSome_iff, hd]; rfl
  obtain ⟨pre, post, hl, hpre, hpost⟩ := nodup_split (distinct_nodup hdist) hmem
  unfold dbiNames at h
  rw [hl] at h
  obtain ⟨w1, w2, h1, h2, h3⟩ := foldlM_split_ok _ _ _ _ _ _ h
  have hfr := fun l a b hh x hx => fold_frame (m2sStep c txnID now cutoff)
      (fun m x => isPrivate m = false ∧ x = shadowName m)
      (fun w m w1 hs x hx => m2sStep_frame hs x hx) l a b hh x hx
  refine ⟨w1, w2, h2, ?_, ?_, ?_⟩
  · rw [hfr pre w w1 h1 n (by
      rintro m _ ⟨_, he⟩
      rw [he, isPrivate_shadowName] at hp; cases hp)]
    exact hd
  · exact hfr pre w w1 h1 _ (by
      rintro m hm ⟨_, he⟩
      exact hpre (shadowName_inj he ▸ hm))
  · exact hfr post w2 w' h3 _ (by
      rintro m hm ⟨_, he⟩
      exact hpost (shadowName_inj he ▸ hm))

theorem shadowOf_congr {w w1 : W} {n : Bytes} (d : Dbi)
    (h : findDbi w1.dbis (shadowName n) = findDbi w.dbis (shadowName n)) : shadowOf w1 n d = shadowOf w n d := by
  unfold shadowOf; rw [h]

/-- the shadow of an ordinary application DBI after `mainToShadow`, pointwise -/
theorem mainToShadow_nondup {c : Cfg} {txnID now cutoff : Nat} {w w' : W} (hdist : DistinctNames w.dbis)
    (h : mainToShadow c w txnID now cutoff = .ok w') {n : Bytes} {d : Dbi}
    (hp : isPrivate n = false) (hd : findDbi w.dbis n = some d) (hnd : isDupSort d.flags = false) :
    ∃ kvs', findDbi w'.dbis (shadowName n) = some { shadowOf w n d with kvs := kvs' } ∧
      (Sorted (isIntKey (shadowOf w n d).flags) d.kvs → DKeysOK d.kvs →
       Sorted (isIntKey (shadowOf w n d).flags) (shadowOf w n d).kvs → DKeysOK (shadowOf w n d).kvs →
        Sorted (isIntKey (shadowOf w n d).flags) kvs' ∧ DKeysOK kvs' ∧
        ∀ k, captureSpec (captureCfg txnID now cutoff) (get (isIntKey (shadowOf w n d).flags) d.kvs k)
            (get (isIntKey (shadowOf w n d).flags) (shadowOf w n d).kvs k)
          = .ok (get (isIntKey (shadowOf w n d).flags) kvs' k)) := by
  obtain ⟨w1, w2, hs, hd1, hsd1, hfin⟩ := mainToShadow_dbi hdist h hp hd
  obtain ⟨d1, entries, s, hd1', _, hent, hiu, hw2⟩ := m2sStep_ok hp hs
  rw [hd1] at hd1'; injection hd1' with hd1'; subst hd1'
  rw [if_neg (by simp [hnd])] at hent
  subst hent
  rw [shadowOf_congr d hsd1] at hiu
  refine ⟨s.db, ?_, ?_⟩
  · rw [hfin, hw2]
    simp only [findDbi_setKvsMirror, if_true, openCreate_find_self, Option.map_some]
    have := shadowOf_congr d hsd1
    unfold shadowOf at this
    rw [this]; rfl
  · intro hA hAK hS hSK
    exact capture_get _ hA hAK hS hSK hiu

end Ls.Txn
