import LsLemmas.AbsFleet
/-
  The settle schedule on the abstract fleet: one round "everybody uploads, everybody merges every
  one of these uploads, everybody uploads again" brings ANY well-formed fleet (any prior content,
  any prior bucket) to a quiescent state in which every instance holds exactly the join (least
  upper bound) of all instances' prior databases.
  (Helper lemmas; the property theorems are in LsProps/C01.lean.)
-/
namespace Ls.Abs
open Ls

/-! ### `run` basics -/

theorem run_append (f : Fleet) (a b : List Step) : run f (a ++ b) = run (run f a) b := by
  simp [run, List.foldl_append]

theorem step_n (f : Fleet) (s : Step) : (step f s).n = f.n := by
  cases s with
  | write i k v => rfl
  | send i => rfl
  | load i idx => simp only [step]; split <;> rfl

/-- no step changes the number of instances -/
theorem run_n (f : Fleet) (steps : List Step) : (run f steps).n = f.n := by
  induction steps generalizing f with
  | nil => rfl
  | cons s rest ih =>
    simp only [run, List.foldl_cons]
    exact (ih (step f s)).trans (step_n f s)

/-! ### the schedule -/

/-- every instance `0..n-1` uploads, in this order -/
def sendAll (n : Nat) : List Step := (List.range n).map Step.send

/-- instance `i` loads the `n` snapshots at bucket indices `L..L+n-1`, in this order -/
def loadsOf (i n L : Nat) : List Step := (List.range n).map (fun j => Step.load i (L + j))

/-- every instance `0..m-1` loads the `n` snapshots at bucket indices `L..L+n-1` -/
def loadAll (m n L : Nat) : List Step := (List.range m).flatMap (fun i => loadsOf i n L)

/-- The settle schedule for `n` instances and a bucket that holds `L` snapshots before:
    every instance `0..n-1` uploads (the bucket gets the `n` snapshots at indices `L..L+n-1`);
    then every instance `i` loads every one of these `n` snapshots (`load i (L+j)` for all `j < n`);
    then every instance uploads again. -/
def settleSchedule (n L : Nat) : List Step := sendAll n ++ loadAll n n L ++ sendAll n

theorem sendAll_succ (n : Nat) : sendAll (n + 1) = sendAll n ++ [Step.send n] := by
  simp [sendAll, List.range_succ]

theorem loadsOf_succ (i n L : Nat) : loadsOf i (n + 1) L = loadsOf i n L ++ [Step.load i (L + n)] := by
  simp [loadsOf, List.range_succ]

theorem loadAll_succ (m n L : Nat) : loadAll (m + 1) n L = loadAll m n L ++ loadsOf m n L := by
  simp [loadAll, List.range_succ, List.flatMap_append]

/-! ### joining a range of databases -/

/-- `d ⊔ S 0 ⊔ … ⊔ S (n-1)` -/
def joinRange (S : Nat → DB) (d : DB) (n : Nat) : DB :=
  (List.range n).foldl (fun acc j => acc.join (S j)) d

theorem joinRange_zero (S : Nat → DB) (d : DB) : joinRange S d 0 = d := rfl

theorem joinRange_succ (S : Nat → DB) (d : DB) (n : Nat) :
    joinRange S d (n + 1) = (joinRange S d n).join (S n) := by
  simp [joinRange, List.range_succ, List.foldl_append]

theorem empty_wf : DB.empty.WF := fun _ => trivial

theorem empty_le (c : DB) : DB.empty.le c := fun k => join_none_left (c k)

theorem joinRange_wf {S : Nat → DB} {d : DB} {n : Nat} (hd : d.WF) (hS : ∀ j, j < n → (S j).WF) :
    (joinRange S d n).WF := by
  induction n with
  | zero => exact hd
  | succ n ih =>
    rw [joinRange_succ]
    exact join_wf' (ih (fun j hj => hS j (by omega))) (hS n (by omega))

theorem le_joinRange_init {S : Nat → DB} {d : DB} {n : Nat} (hd : d.WF) (hS : ∀ j, j < n → (S j).WF) :
    d.le (joinRange S d n) := by
  induction n with
  | zero => exact le_refl d
  | succ n ih =>
    have hS' : ∀ j, j < n → (S j).WF := fun j hj => hS j (by omega)
    have hw := joinRange_wf hd hS'
    rw [joinRange_succ]
    exact le_trans hd hw (join_wf' hw (hS n (by omega))) (ih hS') (le_join_left hw (hS n (by omega)))

theorem le_joinRange {S : Nat → DB} {d : DB} {n : Nat} (hd : d.WF) (hS : ∀ j, j < n → (S j).WF)
    (j : Nat) (hj : j < n) : (S j).le (joinRange S d n) := by
  induction n with
  | zero => omega
  | succ n ih =>
    have hS' : ∀ j, j < n → (S j).WF := fun j hj => hS j (by omega)
    have hw := joinRange_wf hd hS'
    have hn := hS n (by omega)
    rw [joinRange_succ]
    by_cases hjn : j = n
    · subst hjn; exact le_join_right hw hn
    · exact le_trans (hS j hj) hw (join_wf' hw hn) (ih hS' (by omega)) (le_join_left hw hn)

theorem joinRange_le {S : Nat → DB} {d c : DB} {n : Nat} (hd : d.WF) (hS : ∀ j, j < n → (S j).WF)
    (hc : c.WF) (h0 : d.le c) (h1 : ∀ j, j < n → (S j).le c) : (joinRange S d n).le c := by
  induction n with
  | zero => exact h0
  | succ n ih =>
    have hS' : ∀ j, j < n → (S j).WF := fun j hj => hS j (by omega)
    rw [joinRange_succ]
    exact join_le (joinRange_wf hd hS') (hS n (by omega)) hc
      (ih hS' (fun j hj => h1 j (by omega))) (h1 n (by omega))

/-- starting the join from one of the joined databases gives the same as starting from nothing -/
theorem joinRange_self {S : Nat → DB} {n : Nat} (hS : ∀ j, j < n → (S j).WF) (i : Nat) (hi : i < n) :
    joinRange S (S i) n = joinRange S DB.empty n := by
  have hi' := hS i hi
  apply le_antisymm (joinRange_wf hi' hS) (joinRange_wf empty_wf hS)
  · exact joinRange_le hi' hS (joinRange_wf empty_wf hS) (le_joinRange empty_wf hS i hi)
      (fun j hj => le_joinRange empty_wf hS j hj)
  · exact joinRange_le empty_wf hS (joinRange_wf hi' hS) (empty_le _)
      (fun j hj => le_joinRange hi' hS j hj)

/-- the join of all instances' databases -/
def allJoin (f : Fleet) : DB := (List.range f.n).foldl (fun acc j => acc.join (f.db j)) DB.empty

theorem allJoin_eq (f : Fleet) : allJoin f = joinRange f.db DB.empty f.n := rfl

theorem allJoin_wf {f : Fleet} (hwf : FleetWF f) : (allJoin f).WF :=
  joinRange_wf empty_wf (fun j _ => hwf.1 j)

theorem le_allJoin {f : Fleet} (hwf : FleetWF f) (j : Nat) (hj : j < f.n) : (f.db j).le (allJoin f) :=
  le_joinRange empty_wf (fun j _ => hwf.1 j) j hj

theorem allJoin_le {f : Fleet} (hwf : FleetWF f) (d : DB) (hd : d.WF)
    (h : ∀ j, j < f.n → (f.db j).le d) : (allJoin f).le d :=
  joinRange_le empty_wf (fun j _ => hwf.1 j) hd (empty_le d) h

/-! ### running the three phases -/

/-- after `sendAll n` the bucket has the `n` images appended; nothing else changed -/
theorem run_sendAll (f : Fleet) (n : Nat) :
    run f (sendAll n) =
      { f with bucket := f.bucket ++ (List.range n).map (fun i => (i, f.db i)) } := by
  induction n with
  | zero => simp [sendAll, run]
  | succ n ih =>
    rw [sendAll_succ, run_append, ih]
    simp [run, step, List.range_succ]

/-- the `j`-th of the appended images -/
theorem getElem?_sent (b : List (Nat × DB)) (D : Nat → DB) (n j : Nat) (hj : j < n) :
    (b ++ (List.range n).map (fun i => (i, D i)))[b.length + j]? = some (j, D j) := by
  rw [List.getElem?_append_right (by omega)]
  simp [hj]

/-- one instance's loads: it ends with its database joined with all the loaded snapshots;
    the other instances and the bucket are untouched -/
theorem run_loadsOf (f : Fleet) (S : Nat → DB) (i n L : Nat)
    (hb : ∀ j, j < n → ∃ id, f.bucket[L + j]? = some (id, S j)) :
    run f (loadsOf i n L) =
      { f with db := fun j => if j = i then joinRange S (f.db i) n else f.db j } := by
  induction n with
  | zero =>
    have : (fun j => if j = i then f.db i else f.db j) = f.db := by
      funext j; by_cases h : j = i <;> simp [h]
    simp [loadsOf, run, joinRange_zero, this]
  | succ n ih =>
    rw [loadsOf_succ, run_append, ih (fun j hj => hb j (by omega))]
    obtain ⟨id, hid⟩ := hb n (by omega)
    simp only [run, List.foldl_cons, List.foldl_nil, step, hid]
    congr 1
    funext j
    by_cases h : j = i <;> simp [h, joinRange_succ]

/-- all instances' loads -/
theorem run_loadAll (f : Fleet) (S : Nat → DB) (m n L : Nat)
    (hb : ∀ j, j < n → ∃ id, f.bucket[L + j]? = some (id, S j)) :
    run f (loadAll m n L) =
      { f with db := fun i => if i < m then joinRange S (f.db i) n else f.db i } := by
  induction m with
  | zero => simp [loadAll, run]
  | succ m ih =>
    rw [loadAll_succ, run_append, ih, run_loadsOf _ S m n L (by simpa using hb)]
    congr 1
    funext j
    by_cases h1 : j = m
    · subst h1; simp
    · by_cases h2 : j < m
      · have : j < m + 1 := by omega
        simp [h1, h2, this]
      · have : ¬ j < m + 1 := by omega
        simp [h1, h2, this]

/-! ### `newest` of a bucket ending in a round of uploads -/

theorem newest_snoc (b : List (Nat × DB)) (i j : Nat) (d : DB) :
    newest (b ++ [(i, d)]) j = if i = j then some d else newest b j := by
  by_cases h : i = j <;> simp [newest, List.filter_append, h]

theorem newest_sent (b : List (Nat × DB)) (D : Nat → DB) (n j : Nat) (hj : j < n) :
    newest (b ++ (List.range n).map (fun i => (i, D i))) j = some (D j) := by
  induction n with
  | zero => omega
  | succ n ih =>
    rw [List.range_succ, List.map_append, ← List.append_assoc, List.map_singleton, newest_snoc]
    by_cases h : n = j
    · subst h; simp
    · rw [if_neg h]; exact ih (by omega)

/-! ### the whole schedule -/

/-- what every instance holds after the merge phase -/
def settled (f : Fleet) : Nat → DB :=
  fun i => if i < f.n then joinRange f.db (f.db i) f.n else f.db i

/-- the state after the settle schedule, explicitly (no well-formedness needed) -/
theorem run_settle (f : Fleet) :
    run f (settleSchedule f.n f.bucket.length) =
      { n := f.n, db := settled f,
        bucket := (f.bucket ++ (List.range f.n).map (fun i => (i, f.db i))) ++
          (List.range f.n).map (fun i => (i, settled f i)) } := by
  unfold settleSchedule
  rw [run_append, run_append, run_sendAll f f.n]
  rw [run_loadAll _ f.db f.n f.n f.bucket.length
    (fun j hj => ⟨j, getElem?_sent f.bucket f.db f.n j hj⟩)]
  rw [run_sendAll]
  rfl

theorem settled_eq_allJoin {f : Fleet} (hwf : FleetWF f) (i : Nat) (hi : i < f.n) :
    settled f i = allJoin f := by
  simp only [settled, if_pos hi, allJoin_eq]
  exact joinRange_self (fun j _ => hwf.1 j) i hi

/-- after the settle schedule the fleet is quiescent -/
theorem settle_quiescent {f : Fleet} (hwf : FleetWF f) :
    Quiescent (run f (settleSchedule f.n f.bucket.length)) := by
  rw [run_settle]
  intro j hj
  have hj' : j < f.n := hj
  refine ⟨settled f j, newest_sent _ _ _ _ hj', rfl, ?_⟩
  intro i hi
  have hi' : i < f.n := hi
  show (settled f j).le (settled f i)
  rw [settled_eq_allJoin hwf j hj', settled_eq_allJoin hwf i hi']
  exact le_refl _

/-- after the settle schedule every instance holds the join of all prior databases -/
theorem settle_db {f : Fleet} (hwf : FleetWF f) (i : Nat) (hi : i < f.n) :
    (run f (settleSchedule f.n f.bucket.length)).db i = allJoin f := by
  rw [run_settle]
  exact settled_eq_allJoin hwf i hi

end Ls.Abs
