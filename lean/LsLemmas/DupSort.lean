import LsLemmas.Bytes
import LsModel.DupSort
namespace Ls.DupSort
open Ls Ls.Merge

theorem consts : maxKey = 511 ∧ hackMaxKey = 255 := by decide

/-- the encoded key, spelled out -/
def encKey (key val : Bytes) : Bytes :=
  key ++ [0, 0, 0, 0] ++ val.take (511 - (key.length + 4) - 1) ++ [UInt8.ofNat key.length]

theorem encodeOne_ok (e : KV) (h1 : 1 ≤ e.key.length) (h2 : e.key.length ≤ 255) :
    encodeOne e = .ok { key := encKey e.key e.val, val := e.val, ts := 0, flags := e.flags } := by
  unfold encodeOne
  have c := consts
  rw [if_neg (by omega), if_neg (by rw [c.2]; omega)]
  simp [encKey, c.1]

theorem encodeOne_refuse (e : KV) (h : e.key.length = 0 ∨ 255 < e.key.length) :
    ∃ err, encodeOne e = .error err := by
  unfold encodeOne
  have c := consts
  rcases h with h | h
  · exact ⟨_, by rw [if_pos h]⟩
  · by_cases h0 : e.key.length = 0
    · exact ⟨_, by rw [if_pos h0]⟩
    · exact ⟨_, by rw [if_neg h0, if_pos (by rw [c.2]; exact h)]⟩

theorem encKey_length (key val : Bytes) (h1 : 1 ≤ key.length) (h2 : key.length ≤ 255) :
    6 ≤ (encKey key val).length ∧ (encKey key val).length ≤ 511 := by
  simp only [encKey, List.length_append, List.length_take, List.length_cons, List.length_nil]
  omega

theorem getD_append_left' {α} (a b : List α) (i : Nat) (d : α) (h : i < a.length) :
    (a ++ b).getD i d = a.getD i d := by
  simp [List.getD, List.getElem?_append_left h]

theorem getD_append_right' {α} (a b : List α) (i : Nat) (d : α) (h : a.length ≤ i) :
    (a ++ b).getD i d = b.getD (i - a.length) d := by
  simp [List.getD, List.getElem?_append_right h]

theorem decodeOne_encKey (key val : Bytes) (flags ts : Nat) (h1 : 1 ≤ key.length) (h2 : key.length ≤ 255) :
    decodeOne { key := encKey key val, val := val, ts := ts, flags := flags }
      = .ok { key := key, val := val, ts := 0, flags := flags } := by
  have hl := encKey_length key val h1 h2
  unfold decodeOne
  simp only
  rw [if_neg (by omega)]
  have hlast : (encKey key val).getLast? = some (UInt8.ofNat key.length) := by
    unfold encKey
    rw [List.getLast?_append]
    simp
  have hkl : (UInt8.ofNat key.length).toNat = key.length := by
    simp [UInt8.toNat_ofNat']; omega
  simp only [hlast, Option.getD_some, hkl]
  have hlen : ¬ (encKey key val).length < key.length + 5 := by
    simp only [encKey, List.length_append, List.length_take, List.length_cons, List.length_nil]; omega
  rw [if_neg hlen]
  have sep : ∀ j, j < 4 → (encKey key val).getD (key.length + j) 1 = 0 := by
    intro j hj
    unfold encKey
    rw [List.append_assoc, List.append_assoc, getD_append_right' _ _ _ _ (by omega)]
    rw [getD_append_left' _ _ _ _ (by simp; omega)]
    have : key.length + j - key.length = j := by omega
    rw [this]
    match j, hj with
    | 0, _ => rfl
    | 1, _ => rfl
    | 2, _ => rfl
    | 3, _ => rfl
  have s0 := sep 0 (by omega); have s1 := sep 1 (by omega)
  have s2 := sep 2 (by omega); have s3 := sep 3 (by omega)
  simp only [Nat.add_zero] at s0
  rw [if_neg (by rw [s0, s1, s2, s3]; simp)]
  have : (encKey key val).take key.length = key := by
    unfold encKey
    rw [List.append_assoc, List.append_assoc, List.take_left']
    rfl
  rw [this]

/-- everything `encodeAllAux` guarantees when it accepts (helper of C20_encode_all) -/
theorem encodeAllAux_spec (prev : Bytes) (l r : List KV) (h : encodeAllAux prev l = .ok r) :
    r.length = l.length ∧
    (∀ x ∈ r, bcmp prev x.key < 0) ∧
    List.Pairwise (fun a b => bcmp a.key b.key < 0) r ∧
    decodeAll r = .ok (l.map fun e => { e with ts := 0 }) ∧
    (∀ e ∈ l, 1 ≤ e.key.length ∧ e.key.length ≤ 255) := by
  induction l generalizing prev r with
  | nil =>
    simp only [encodeAllAux] at h; injection h with h; subst h
    simp [decodeAll]
    rfl
  | cons e rest ih =>
    simp only [encodeAllAux] at h
    split at h
    · cases h
    · rename_i kv hkv
      split at h
      · cases h
      · split at h
        · cases h
        · split at h
          · cases h
          · rename_i hne hngt r' hr'
            injection h with h; subst h
            obtain ⟨hlen, hprev, hpw, hdec, hkeys⟩ := ih kv.key r' hr'
            have hlt : bcmp prev kv.key < 0 := by omega
            have hk : 1 ≤ e.key.length ∧ e.key.length ≤ 255 := by
              by_cases hh : 1 ≤ e.key.length ∧ e.key.length ≤ 255
              · exact hh
              · obtain ⟨err, he⟩ := encodeOne_refuse e (by omega)
                rw [he] at hkv; cases hkv
            have hkv' := encodeOne_ok e hk.1 hk.2
            rw [hkv'] at hkv; injection hkv with hkv
            refine ⟨by simp [hlen], ?_, ?_, ?_, ?_⟩
            · intro x hx
              rcases List.mem_cons.mp hx with hx | hx
              · subst hx; exact hlt
              · have := hprev x hx
                exact bcmp_lt.mpr (List.lt_trans (bcmp_lt.mp hlt) (bcmp_lt.mp this))
            · exact List.pairwise_cons.mpr ⟨hprev, hpw⟩
            · have hd := decodeOne_encKey e.key e.val e.flags 0 hk.1 hk.2
              rw [← hkv]
              simp only [decodeAll, List.mapM_cons, List.map_cons] at hdec ⊢
              rw [hd]
              rw [show (List.mapM decodeOne r') = _ from hdec]
              rfl
            · intro e' he'
              rcases List.mem_cons.mp he' with he' | he'
              · subst he'; exact hk
              · exact hkeys e' he'


end Ls.DupSort
