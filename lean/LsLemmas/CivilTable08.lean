import LsLemmas.CivilTableDefs
/- civil-date table, rows 64000 … 71999 (kernel evaluation; see CivilTableDefs) -/
namespace Ls.Civil

theorem chunk08 : chunkOK 64000 8000 = true := by decide +kernel

end Ls.Civil
