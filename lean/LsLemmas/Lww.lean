import LsModel.Ver
namespace Ls

theorem bytes_lt_irrefl (a : Bytes) : ¬ a < a := List.lt_irrefl a
theorem bytes_lt_trans {a b c : Bytes} (h1 : a < b) (h2 : b < c) : a < c := List.lt_trans h1 h2
theorem bytes_lt_asymm {a b : Bytes} (h : a < b) : ¬ b < a := List.lt_asymm h

theorem bytes_trichotomy (a b : Bytes) : a < b ∨ a = b ∨ b < a := by
  by_cases h1 : a < b
  · exact Or.inl h1
  · by_cases h2 : b < a
    · exact Or.inr (Or.inr h2)
    · have := List.le_antisymm (as := a) (bs := b) (List.not_lt.mp h2) (List.not_lt.mp h1)
      exact Or.inr (Or.inl this)

namespace Ver

theorem beats_irrefl (a : Ver) : ¬ a.beats a := by
  intro h
  rcases h with h | ⟨_, h | ⟨_, h1, h2⟩⟩
  · omega
  · exact bytes_lt_irrefl _ h
  · rw [h1] at h2; cases h2

theorem beats_asymm {a b : Ver} (h : a.beats b) : ¬ b.beats a := by
  intro h'
  rcases h with h | ⟨ht, h | ⟨hv, h1, h2⟩⟩ <;> rcases h' with h' | ⟨ht', h' | ⟨hv', h1', h2'⟩⟩
  all_goals first
    | omega
    | exact bytes_lt_asymm h h'
    | (rw [hv'] at h; exact bytes_lt_irrefl _ h)
    | (rw [hv] at h'; exact bytes_lt_irrefl _ h')
    | (rw [h1] at h2'; cases h2')

theorem beats_trans {a b c : Ver} (h1 : a.beats b) (h2 : b.beats c) : a.beats c := by
  rcases h1 with h1 | ⟨t1, h1⟩
  · rcases h2 with h2 | ⟨t2, _⟩
    · exact Or.inl (by omega)
    · exact Or.inl (by omega)
  · rcases h2 with h2 | ⟨t2, h2⟩
    · exact Or.inl (by omega)
    · refine Or.inr ⟨by omega, ?_⟩
      rcases h1 with h1 | ⟨v1, d1, d1'⟩ <;> rcases h2 with h2 | ⟨v2, d2, d2'⟩
      · exact Or.inl (bytes_lt_trans h1 h2)
      · exact Or.inl (v2 ▸ h1)
      · exact Or.inl (v1 ▸ h2)
      · rw [d1'] at d2; cases d2

/-- on well-formed versions the order is total: distinct versions are comparable -/
theorem beats_total {a b : Ver} (ha : a.WF) (hb : b.WF) : a = b ∨ a.beats b ∨ b.beats a := by
  rcases Nat.lt_trichotomy a.ts b.ts with h | h | h
  · exact Or.inr (Or.inr (Or.inl h))
  · rcases bytes_trichotomy a.val b.val with hv | hv | hv
    · exact Or.inr (Or.inl (Or.inr ⟨h, Or.inl hv⟩))
    · cases hda : a.del <;> cases hdb : b.del
      · left; cases a; cases b; simp_all
      · exact Or.inr (Or.inr (Or.inr ⟨h.symm, Or.inr ⟨hv.symm, hdb, hda⟩⟩))
      · exact Or.inr (Or.inl (Or.inr ⟨h, Or.inr ⟨hv, hda, hdb⟩⟩))
      · left; cases a; cases b; simp_all
    · exact Or.inr (Or.inr (Or.inr ⟨h.symm, Or.inl hv⟩))
  · exact Or.inr (Or.inl (Or.inl h))

theorem max_idem (a : Ver) : a.max a = a := by simp [Ver.max, beats_irrefl]

theorem max_comm {a b : Ver} (ha : a.WF) (hb : b.WF) : a.max b = b.max a := by
  unfold Ver.max
  rcases beats_total ha hb with h | h | h
  · subst h; rfl
  · simp [h, beats_asymm h]
  · simp [h, beats_asymm h]

theorem max_wf {a b : Ver} (ha : a.WF) (hb : b.WF) : (a.max b).WF := by
  unfold Ver.max; split <;> assumption

theorem max_eq_or (a b : Ver) : a.max b = a ∨ a.max b = b := by
  unfold Ver.max; split <;> simp

theorem max_assoc {a b c : Ver} (ha : a.WF) (hb : b.WF) (hc : c.WF) :
    (a.max b).max c = a.max (b.max c) := by
  unfold Ver.max
  by_cases h1 : b.beats a <;> by_cases h2 : c.beats b <;> by_cases h3 : c.beats a <;> simp [h1, h2, h3]
  · exact absurd (beats_trans h2 h1) h3
  · exfalso
    rcases beats_total ha hb with h | h | h
    · subst h; exact h2 h3
    · rcases beats_total hb hc with h' | h' | h'
      · subst h'; exact h1 h3
      · exact beats_asymm (beats_trans h h') h3
      · exact h2 h'
    · exact h1 h

end Ver
end Ls
