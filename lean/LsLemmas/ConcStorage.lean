import LsLemmas.ConcUtil
/-
  Invariants of the global-storage model (LsModel/Conc.lean): any number of `SetGlobal` and
  `GetGlobal` calls, both readings of the RWMutex (`wpref`), both versions of the check (`fixed`).
-/
namespace Ls.Conc.Storage

/-- what a `GetGlobal` call knows at each program counter -/
def gOk (s : St) : GPc → Prop
  | .lock2 | .read2 => s.ready = true
  | .unlock2 v | .test2 v => v = true ∧ s.ready = true
  | .done v => s.fixed = true → v = true
  | .panic => s.fixed = false
  | _ => True

/-- what a `SetGlobal` call knows at each program counter -/
def sOk (s : St) : SPc → Prop
  | .close => s.stored = false ∧ s.ready = false
  | .store => s.ready = true
  | .unlock | .done => s.stored = true
  | _ => True

structure Inv (s : St) : Prop where
  wr : ∀ (i : Nat) (pc : SPc), s.setters[i]? = some pc → (sHolds pc = true ↔ s.writer = some i)
  wrIdx : ∀ i : Nat, s.writer = some i → i < s.setters.length
  rd : s.readers = s.getters.countP gHolds
  excl : s.writer ≠ none → s.readers = 0
  ready1 : s.ready = true → s.stored = true ∨ ∃ w : Nat, s.writer = some w ∧ s.setters[w]? = some SPc.store
  stRd : s.stored = true → s.ready = true
  nclose : s.nClose = s.ready.toNat
  spc : ∀ (i : Nat) (pc : SPc), s.setters[i]? = some pc → sOk s pc
  gpc : ∀ (i : Nat) (pc : GPc), s.getters[i]? = some pc → gOk s pc

theorem inv_init (fixed wpref : Bool) (nSet nGet : Nat) : Inv (init fixed wpref nSet nGet) := by
  refine ⟨?_, by simp [init], ?_, by simp [init], by simp [init], by simp [init], by simp [init], ?_, ?_⟩
  · intro i pc hi
    simp [init, List.getElem?_replicate] at hi; obtain ⟨_, rfl⟩ := hi
    simp [init, sHolds]
  · simp only [init]
    rw [List.countP_replicate]; simp [gHolds]
  · intro i pc hi
    simp [init, List.getElem?_replicate] at hi; obtain ⟨_, rfl⟩ := hi
    simp [sOk]
  · intro i pc hi
    simp [init, List.getElem?_replicate] at hi; obtain ⟨_, rfl⟩ := hi
    simp [gOk]

/-- the facts a getter relies on do not depend on the reader count or the other getters -/
theorem gOk_congr {s s' : St} (h1 : s'.ready = s.ready) (h2 : s'.fixed = s.fixed) {pc : GPc}
    (h : gOk s pc) : gOk s' pc := by
  cases pc <;> simp only [gOk, h1, h2] at h ⊢ <;> exact h

theorem sOk_congr {s s' : St} (h1 : s'.ready = s.ready) (h2 : s'.stored = s.stored) {pc : SPc}
    (h : sOk s pc) : sOk s' pc := by
  cases pc <;> simp only [sOk, h1, h2] at h ⊢ <;> exact h

/-- a getter step: only the reader count and the getter's program counter change -/
theorem inv_get {s : St} (h : Inv s) {i : Nat} {pc pc' : GPc} {r' : Nat} (hi : s.getters[i]? = some pc)
    (hr : r' + (if gHolds pc then 1 else 0) = s.readers + (if gHolds pc' then 1 else 0))
    (hw : gHolds pc' = true → gHolds pc = false → s.writer = none)
    (hok : gOk s pc') :
    Inv { s with readers := r', getters := s.getters.set i pc' } := by
  refine ⟨h.wr, h.wrIdx, ?_, ?_, h.ready1, h.stRd, h.nclose, ?_, ?_⟩
  · show r' = (s.getters.set i pc').countP gHolds
    have := countP_set gHolds (y := pc') hi
    have := h.rd
    omega
  · intro hne
    show r' = 0
    have h0 := h.excl hne
    have h1 := h.rd
    cases h2 : gHolds pc' <;> cases h3 : gHolds pc <;> simp [h2, h3] at hr
    · omega
    · omega
    · exact absurd (hw h2 h3) hne
    · omega
  · intro j q hj; exact sOk_congr rfl rfl (h.spc j q hj)
  · intro j q hj
    rcases getElem?_set_some hi hj with ⟨rfl, rfl⟩ | ⟨_, hj'⟩
    · exact gOk_congr rfl rfl hok
    · exact gOk_congr rfl rfl (h.gpc j q hj')

/-- a reader that holds the lock is counted -/
theorem readers_pos {s : St} (h : Inv s) {i : Nat} {pc : GPc} (hi : s.getters[i]? = some pc)
    (hh : gHolds pc = true) : 0 < s.readers := by
  rw [h.rd, List.countP_pos_iff]
  exact ⟨pc, List.mem_of_getElem? hi, hh⟩

/-- while a reader holds the lock: no writer, and `ready` implies the storage is set -/
theorem stored_of_reader {s : St} (h : Inv s) {i : Nat} {pc : GPc} (hi : s.getters[i]? = some pc)
    (hh : gHolds pc = true) (hr : s.ready = true) : s.stored = true := by
  have hp := readers_pos h hi hh
  have hw : s.writer = none := by
    cases hw : s.writer with
    | none => rfl
    | some w => have := h.excl (by simp [hw]); omega
  rcases h.ready1 hr with h1 | ⟨w, h1, _⟩
  · exact h1
  · rw [hw] at h1; cases h1

/-- a setter step that changes neither the lock nor the data -/
theorem inv_set_move {s : St} (h : Inv s) {i : Nat} {pc pc' : SPc} (hi : s.setters[i]? = some pc)
    (hh : sHolds pc' = sHolds pc) (hs : pc ≠ .store) (hok : sOk s pc') :
    Inv { s with setters := s.setters.set i pc' } := by
  have hil := lt_of_getElem?_some hi
  refine ⟨?_, ?_, h.rd, h.excl, ?_, h.stRd, h.nclose, ?_, ?_⟩
  · intro j q hj
    rcases getElem?_set_some hi hj with ⟨rfl, rfl⟩ | ⟨_, hj'⟩
    · rw [hh]; exact h.wr j pc hi
    · exact h.wr j q hj'
  · intro j hj; show j < (s.setters.set i pc').length; rw [List.length_set]; exact h.wrIdx j hj
  · intro hr
    rcases h.ready1 hr with h1 | ⟨w, h1, h2⟩
    · exact Or.inl h1
    · refine Or.inr ⟨w, h1, ?_⟩
      show (s.setters.set i pc')[w]? = some SPc.store
      have : w ≠ i := by intro e; subst e; rw [hi] at h2; cases h2; exact hs rfl
      rw [List.getElem?_set_ne (fun e => this e.symm)]; exact h2
  · intro j q hj
    rcases getElem?_set_some hi hj with ⟨rfl, rfl⟩ | ⟨_, hj'⟩
    · exact sOk_congr rfl rfl hok
    · exact sOk_congr rfl rfl (h.spc j q hj')
  · intro j q hj; exact gOk_congr rfl rfl (h.gpc j q hj)

/-- two setters cannot both be inside the critical section -/
theorem holder_unique {s : St} (h : Inv s) {i j : Nat} {p q : SPc} (hi : s.setters[i]? = some p)
    (hj : s.setters[j]? = some q) (hp : sHolds p = true) (hq : sHolds q = true) : i = j := by
  have h1 := (h.wr i p hi).mp hp
  have h2 := (h.wr j q hj).mp hq
  rw [h1] at h2; cases h2; rfl

/-- a step of the setter inside the critical section that keeps the lock: `close(ready)`,
    `storage = st` -/
theorem inv_set_crit {s : St} (h : Inv s) {i : Nat} {pc pc' : SPc} {st' rd' : Bool} {n' : Nat}
    (hi : s.setters[i]? = some pc) (hp : sHolds pc = true) (hp' : sHolds pc' = true)
    (m1 : s.stored = true → st' = true) (m2 : s.ready = true → rd' = true)
    (c1 : rd' = true → st' = true ∨ pc' = .store) (c2 : st' = true → rd' = true)
    (c3 : n' = rd'.toNat)
    (hok : sOk { s with stored := st', ready := rd' } pc') :
    Inv { s with stored := st', ready := rd', nClose := n', setters := s.setters.set i pc' } := by
  have hil := lt_of_getElem?_some hi
  have hw := (h.wr i pc hi).mp hp
  refine ⟨?_, ?_, h.rd, h.excl, ?_, c2, c3, ?_, ?_⟩
  · intro j q hj
    rcases getElem?_set_some hi hj with ⟨rfl, rfl⟩ | ⟨_, hj'⟩
    · exact ⟨fun _ => hw, fun _ => hp'⟩
    · exact h.wr j q hj'
  · intro j hj; show j < (s.setters.set i pc').length; rw [List.length_set]; exact h.wrIdx j hj
  · intro hr
    rcases c1 hr with h1 | h1
    · exact Or.inl h1
    · exact Or.inr ⟨i, hw, by show (s.setters.set i pc')[i]? = _; simp [hil, h1]⟩
  · intro j q hj
    rcases getElem?_set_some hi hj with ⟨rfl, rfl⟩ | ⟨hne, hj'⟩
    · exact sOk_congr rfl rfl hok
    · have hq : sHolds q = false := by
        cases hq : sHolds q
        · rfl
        · exact absurd (holder_unique h hj' hi hq hp) hne
      have := h.spc j q hj'
      cases q <;> simp [sHolds] at hq <;> simp only [sOk] at this ⊢
      exact m1 this
  · intro j q hj
    have := h.gpc j q hj
    cases q <;> simp only [gOk] at this ⊢
    · exact m2 this
    · exact m2 this
    · exact ⟨this.1, m2 this.2⟩
    · exact ⟨this.1, m2 this.2⟩
    · exact this
    · exact this

theorem inv_step {s : St} (h : Inv s) (x : Step) (he : enabled s x) : Inv (next s x) := by
  unfold enabled at he
  cases x with
  | get i a =>
    cases hi : s.getters[i]? with
    | none => simp [guard, hi] at he
    | some pc =>
      simp only [guard, hi] at he
      simp only [next, hi]
      cases a with
      | rlock1 =>
        simp [gGuard, canRead] at he
        obtain ⟨rfl, hw, _⟩ := he
        exact inv_get h hi (by simp [gHolds]) (fun _ _ => hw) (by simp [gOk])
      | read1 =>
        simp [gGuard] at he; subst he
        exact inv_get h hi (by simp [gHolds]) (by simp [gHolds]) (by simp [gOk])
      | runlock1 =>
        cases pc <;> simp [gGuard] at he
        have := readers_pos h hi rfl
        exact inv_get h hi (by simp [gHolds]; omega) (by simp [gHolds]) (by simp [gOk])
      | test1 =>
        cases pc <;> simp [gGuard] at he
        rename_i v
        simp only [gNext]
        cases v
        · exact inv_get h hi (by simp [gHolds]) (by simp [gHolds]) (by simp [gOk])
        · exact inv_get h hi (by simp [gHolds]) (by simp [gHolds]) (by simp [gOk])
      | wake =>
        simp [gGuard] at he
        obtain ⟨rfl, hr⟩ := he
        exact inv_get h hi (by simp [gHolds]) (by simp [gHolds]) (by simp [gOk, hr])
      | rlock2 =>
        simp [gGuard, canRead] at he
        obtain ⟨rfl, hw, _⟩ := he
        exact inv_get h hi (by simp [gHolds]) (fun _ _ => hw)
          (by have := h.gpc i _ hi; simpa [gOk] using this)
      | read2 =>
        simp [gGuard] at he; subst he
        have hr : s.ready = true := h.gpc i _ hi
        exact inv_get h hi (by simp [gHolds]) (by simp [gHolds])
          (by simp only [gOk]; exact ⟨stored_of_reader h hi rfl hr, hr⟩)
      | runlock2 =>
        cases pc <;> simp [gGuard] at he
        have := readers_pos h hi rfl
        exact inv_get h hi (by simp [gHolds]; omega) (by simp [gHolds])
          (by have := h.gpc i _ hi; simpa [gOk] using this)
      | test2 =>
        cases pc <;> simp [gGuard] at he
        rename_i v
        have hv : v = true := (h.gpc i _ hi).1
        subst hv
        cases hf : s.fixed
        · have e : afterWait s.fixed true = .panic := by simp [afterWait, hf]
          simp only [gNext]; rw [e]
          exact inv_get (pc' := .panic) (r' := s.readers) h hi (by simp [gHolds]) (by simp [gHolds]) (by simp [gOk, hf])
        · have e : afterWait s.fixed true = .done true := by simp [afterWait, hf]
          simp only [gNext]; rw [e]
          exact inv_get (pc' := .done true) (r' := s.readers) h hi (by simp [gHolds]) (by simp [gHolds]) (by simp [gOk])
  | set i a =>
    cases hi : s.setters[i]? with
    | none => simp [guard, hi] at he
    | some pc =>
      simp only [guard, hi] at he
      simp only [next, hi]
      have hil := lt_of_getElem?_some hi
      cases a with
      | call =>
        simp [sGuard] at he; subst he
        exact inv_set_move h hi (by simp [sHolds]) (by simp) (by simp [sOk])
      | check =>
        simp [sGuard] at he; subst he
        cases hst : s.stored
        · have e : (if s.stored = true then SPc.store else SPc.close) = .close := by simp [hst]
          simp only [sNext]; rw [e]
          refine inv_set_move (pc' := .close) h hi (by simp [sHolds]) (by simp) ?_
          simp only [sOk]
          refine ⟨hst, ?_⟩
          cases hr : s.ready
          · rfl
          · rcases h.ready1 hr with h1 | ⟨w, h1, h2⟩
            · rw [hst] at h1; cases h1
            · have := (h.wr i _ hi).mp rfl
              rw [this] at h1; cases h1
              rw [hi] at h2; cases h2
        · have e : (if s.stored = true then SPc.store else SPc.close) = .store := by simp [hst]
          simp only [sNext]; rw [e]
          exact inv_set_move (pc' := .store) h hi (by simp [sHolds]) (by simp) (by simp [sOk]; exact h.stRd hst)
      | closeReady =>
        simp [sGuard] at he; subst he
        have := h.spc i _ hi
        simp only [sOk] at this
        have hn := h.nclose
        exact inv_set_crit (st' := s.stored) h hi rfl rfl (fun e => e) (fun _ => rfl) (fun _ => Or.inr rfl)
          (fun _ => rfl) (by rw [hn, this.2]; rfl) (by simp [sOk])
      | store =>
        simp [sGuard] at he; subst he
        have hr : s.ready = true := h.spc i _ hi
        have hn := h.nclose
        exact inv_set_crit (rd' := s.ready) (n' := s.nClose) h hi rfl rfl (fun _ => rfl) (fun e => e)
          (fun _ => Or.inl rfl) (fun _ => hr) hn (by simp [sOk])
      | lock =>
        simp [sGuard] at he
        obtain ⟨rfl, hw, hr0⟩ := he
        refine ⟨?_, ?_, h.rd, fun _ => hr0, ?_, h.stRd, h.nclose, ?_, ?_⟩
        · intro j q hj
          show sHolds q = true ↔ some i = some j
          rcases getElem?_set_some hi hj with ⟨rfl, rfl⟩ | ⟨hne, hj'⟩
          · simp [sHolds]
          · have := h.wr j q hj'
            rw [hw] at this
            simp at this
            simp [this]; exact fun e => hne e.symm
        · intro j hj
          show j < (s.setters.set i SPc.check).length
          have hj : some i = some j := hj
          cases hj; rw [List.length_set]; exact hil
        · intro hr
          rcases h.ready1 hr with h1 | ⟨w, h1, _⟩
          · exact Or.inl h1
          · rw [hw] at h1; cases h1
        · intro j q hj
          rcases getElem?_set_some hi hj with ⟨rfl, rfl⟩ | ⟨_, hj'⟩
          · simp [sOk]
          · exact sOk_congr rfl rfl (h.spc j q hj')
        · intro j q hj; exact gOk_congr rfl rfl (h.gpc j q hj)
      | unlock =>
        simp [sGuard] at he; subst he
        have hwi := (h.wr i _ hi).mp rfl
        have hst : s.stored = true := h.spc i _ hi
        refine ⟨?_, ?_, h.rd, fun hne => absurd rfl hne, fun _ => Or.inl hst, h.stRd, h.nclose, ?_, ?_⟩
        · intro j q hj
          show sHolds q = true ↔ none = some j
          rcases getElem?_set_some hi hj with ⟨rfl, rfl⟩ | ⟨hne, hj'⟩
          · simp [sHolds]
          · have := h.wr j q hj'
            rw [hwi] at this
            simp at this ⊢
            cases hq : sHolds q
            · rfl
            · exact absurd (this.mp hq).symm hne
        · intro j hj
          have hj : none = some j := hj
          cases hj
        · intro j q hj
          rcases getElem?_set_some hi hj with ⟨rfl, rfl⟩ | ⟨_, hj'⟩
          · exact hst
          · exact sOk_congr rfl rfl (h.spc j q hj')
        · intro j q hj; exact gOk_congr rfl rfl (h.gpc j q hj)

theorem inv_reach {fixed wpref : Bool} {nSet nGet : Nat} {s : St} (h : Reach fixed wpref nSet nGet s) :
    Inv s := by
  induction h with
  | init => exact inv_init fixed wpref nSet nGet
  | step x _ he ih => exact inv_step ih x he

/-! ### consequences -/

/-- the setter inside the critical section can always step -/
theorem writer_progress {s : St} (h : Inv s) {w : Nat} (hw : s.writer = some w) :
    ∃ a, guard s (.set w a) = true := by
  have hil := h.wrIdx w hw
  have hi : s.setters[w]? = some s.setters[w] := List.getElem?_eq_getElem hil
  have hh := (h.wr w _ hi).mpr hw
  cases hpc : s.setters[w] <;> rw [hpc] at hi hh <;> simp [sHolds] at hh
  · exact ⟨.check, by simp [guard, hi, sGuard]⟩
  · exact ⟨.closeReady, by simp [guard, hi, sGuard]⟩
  · exact ⟨.store, by simp [guard, hi, sGuard]⟩
  · exact ⟨.unlock, by simp [guard, hi, sGuard]⟩

/-- a getter that holds the read lock can always step -/
theorem reader_progress {s : St} (h : Inv s) (hr : 0 < s.readers) : ∃ i a, guard s (.get i a) = true := by
  rw [h.rd, List.countP_pos_iff] at hr
  obtain ⟨pc, hmem, hh⟩ := hr
  obtain ⟨i, hi⟩ := List.mem_iff_getElem?.mp hmem
  cases pc <;> simp [gHolds] at hh
  · exact ⟨i, .read1, by simp [guard, hi, gGuard]⟩
  · exact ⟨i, .runlock1, by simp [guard, hi, gGuard]⟩
  · exact ⟨i, .read2, by simp [guard, hi, gGuard]⟩
  · exact ⟨i, .runlock2, by simp [guard, hi, gGuard]⟩

theorem exists_of_not_forall_mem {α : Type} {l : List α} {p : α → Prop} (h : ¬ ∀ x ∈ l, p x) :
    ∃ x ∈ l, ¬ p x := by
  apply Classical.byContradiction; intro hno
  apply h; intro x hx
  apply Classical.byContradiction; intro hne; exact hno ⟨x, hx, hne⟩

/-- with the current check and at least one `SetGlobal` call there is always an enabled step while
    somebody is unfinished -/
theorem progress {s : St} (h : Inv s) (hfix : s.fixed = true) (hne : s.setters ≠ [])
    (hnd : ¬ allDone s) : ∃ x, guard s x = true := by
  cases hw : s.writer with
  | some w => obtain ⟨a, ha⟩ := writer_progress h hw; exact ⟨_, ha⟩
  | none =>
    cases hr : s.readers with
    | succ n => obtain ⟨i, a, ha⟩ := reader_progress h (by omega); exact ⟨_, ha⟩
    | zero =>
      by_cases hall : ∀ pc ∈ s.setters, pc = .done
      · -- every SetGlobal has returned: the storage is set and `ready` is closed
        obtain ⟨p0, hp0⟩ := List.exists_mem_of_ne_nil _ hne
        obtain ⟨i0, hi0⟩ := List.mem_iff_getElem?.mp hp0
        have hst : s.stored = true := by
          have := h.spc i0 p0 hi0; rw [hall p0 hp0] at this; exact this
        have hrd := h.stRd hst
        have hcr : canRead s = true := by
          simp only [canRead, hw, decide_true, Bool.true_and, Bool.or_eq_true, Bool.not_eq_true',
            List.all_eq_true, decide_eq_true_eq]
          exact Or.inr fun pc hpc => by rw [hall pc hpc]; simp
        have : ¬ ∀ pc ∈ s.getters, gFinished pc = true := fun hg => hnd ⟨hall, hg⟩
        obtain ⟨pc, hmem, hnf⟩ := exists_of_not_forall_mem this
        obtain ⟨i, hi⟩ := List.mem_iff_getElem?.mp hmem
        have hok := h.gpc i pc hi
        cases pc with
        | start => exact ⟨.get i .rlock1, by simp [guard, hi, gGuard, hcr]⟩
        | read1 => exact ⟨.get i .read1, by simp [guard, hi, gGuard]⟩
        | unlock1 v => exact ⟨.get i .runlock1, by simp [guard, hi, gGuard]⟩
        | test1 v => exact ⟨.get i .test1, by simp [guard, hi, gGuard]⟩
        | wait => exact ⟨.get i .wake, by simp [guard, hi, gGuard, hrd]⟩
        | lock2 => exact ⟨.get i .rlock2, by simp [guard, hi, gGuard, hcr]⟩
        | read2 => exact ⟨.get i .read2, by simp [guard, hi, gGuard]⟩
        | unlock2 v => exact ⟨.get i .runlock2, by simp [guard, hi, gGuard]⟩
        | test2 v => exact ⟨.get i .test2, by simp [guard, hi, gGuard]⟩
        | done v => simp [gFinished] at hnf
        | panic => simp only [gOk] at hok; rw [hfix] at hok; cases hok
      · obtain ⟨pc, hmem, hnd'⟩ := exists_of_not_forall_mem hall
        obtain ⟨i, hi⟩ := List.mem_iff_getElem?.mp hmem
        have hnh : sHolds pc = false := by
          cases hh : sHolds pc
          · rfl
          · have := (h.wr i pc hi).mp hh; rw [hw] at this; cases this
        cases pc <;> simp [sHolds] at hnh
        · exact ⟨.set i .call, by simp [guard, hi, sGuard]⟩
        · exact ⟨.set i .lock, by simp [guard, hi, sGuard, hw, hr]⟩
        · exact absurd rfl hnd'

theorem no_panic {s : St} (h : Inv s) (hfix : s.fixed = true) : ∀ pc ∈ s.getters, pc ≠ .panic := by
  intro pc hmem e
  obtain ⟨i, hi⟩ := List.mem_iff_getElem?.mp hmem
  have := h.gpc i pc hi
  rw [e] at this; simp only [gOk] at this; rw [hfix] at this; cases this

theorem done_handle {s : St} (h : Inv s) (hfix : s.fixed = true) {v : Bool}
    (hmem : GPc.done v ∈ s.getters) : v = true := by
  obtain ⟨i, hi⟩ := List.mem_iff_getElem?.mp hmem
  exact h.gpc i _ hi hfix

theorem close_once {s : St} (h : Inv s) : s.nClose ≤ 1 := by
  rw [h.nclose]; cases s.ready <;> simp

theorem fixed_reach {fixed wpref : Bool} {nSet nGet : Nat} {s : St} (h : Reach fixed wpref nSet nGet s) :
    s.fixed = fixed ∧ s.setters.length = nSet ∧ s.getters.length = nGet := by
  induction h with
  | init => simp [init]
  | step x _ he ih =>
    obtain ⟨h1, h2, h3⟩ := ih
    cases x with
    | set i a =>
      simp only [next]; split
      · cases a <;> simp [sNext, h1, h2, h3]
      · exact ⟨h1, h2, h3⟩
    | get i a =>
      simp only [next]; split
      · rename_i pc _
        cases a <;> simp only [gNext] <;> (try split) <;> simp [h1, h2, h3]
      · exact ⟨h1, h2, h3⟩

/-- the end of a schedule that `run` accepts is reachable -/
theorem reach_run {fixed wpref : Bool} {nSet nGet : Nat} {s s' : St} (h : Reach fixed wpref nSet nGet s) (l : List Step)
    (hr : run s l = some s') : Reach fixed wpref nSet nGet s' := by
  induction l generalizing s with
  | nil => simp [run] at hr; subst hr; exact h
  | cons a rest ih =>
    simp only [run] at hr
    split at hr
    · rename_i hg; exact ih (Reach.step a h hg) hr
    · cases hr

end Ls.Conc.Storage
