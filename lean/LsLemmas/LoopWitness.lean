import LsLemmas.LoopPoll
/-
  Concrete instances, environments and schedules: the race of finding D9 in its three shapes, and
  a race-free schedule in which an application commit is published (the hypotheses of the
  `_partial` theorems are satisfiable). Everything here is evaluated by the kernel.
-/
namespace Ls.Loop.Witness
open Ls Ls.Txn Ls.SyncLoop Ls.Loop

/-- shadow-mode instance "a" -/
def cfgS : LoopCfg :=
  { txn := { native := false, hack := false, pad := false, receiveOnly := false, override := [] },
    own := "a", onlyOnce := false, retryCount := 3 }

/-- native-mode instance "a" -/
def cfgN : LoopCfg :=
  { txn := { native := true, hack := false, pad := false, receiveOnly := false, override := [] },
    own := "a", onlyOnce := false, retryCount := 3 }

def app : Bytes := strBytes "app"

/-- instance "b"'s snapshot: DBI "app" with key [1] ↦ "A" written at time 5 -/
def snapB : Snap :=
  { fv := 3, cv := 3,
    dbs := [{ name := app, flags := 0, transform := [],
              entries := [{ key := [1], val := [65], ts := 5, flags := 0 }] }] }

def bkt : Bucket := [{ inst := "b", ts := 1, snap := snapB }]

def env0 : Env := { dbis := [], lastTxn := 0 }

def inp (n : Option (InstId × Nat)) : In := { next := n, fails := 0, now := 100 }

/-- the application DBI's content -/
def appKvs (g : G) : Option Lmdb.KVs := (findDbi g.st.env.dbis app).map (·.kvs)

/-- the keys in the application DBI of the newest blob of instance "a" in the bucket -/
def ownKeys (g : G) : Option (List (List Bytes)) :=
  ((g.bucket.filter (·.inst == "a")).getLast?).map fun x => x.snap.dbs.map (·.entries.map (·.key))

/-- **D9, destructive half** (shadow mode). Start empty; merge b's snapshot (transaction 1); merge it
    again — an EMPTY write transaction whose id 2 LMDB reuses; the application commits `[2] ↦ "B"`
    at the yield point right after it and gets id 2; the loop takes 2 for its own transaction and
    sets `lastSynced := 2`; one idle iteration; then the next merge sees no local change, skips the
    capture, and `shadowToMain` removes `[2]`. -/
def schedC03 : List Ev :=
  [.go (inp none), .go (inp (some ("b", 1))), .go (inp (some ("b", 1))),
   .app [.put app [2] [66]],
   .go (inp none), .go (inp none), .go (inp none), .go (inp (some ("b", 1)))]

/-- **D9, publishing half, after `SendOnce`** (shadow mode). An application write at the sleep
    point is captured by the next merge (`localChanged`), so the `SendOnce` that follows has an
    EMPTY write transaction with id 4; the application commits `[3] ↦ "C"` right after it and gets
    id 4; the loop stores the dump (without `[3]`) and sets `lastSynced := 4`; a whole further
    iteration finds nothing to do. -/
def schedC09 : List Ev :=
  [.go (inp none), .go (inp (some ("b", 1))), .go (inp none), .go (inp none),
   .app [.put app [2] [66]],
   .go (inp none), .go (inp (some ("b", 1))), .go (inp none), .go (inp none), .go (inp none),
   .app [.put app [3] [67]],
   .go (inp none), .go (inp none),
   .go (inp none), .go (inp none), .go (inp none)]

/-- **D9, publishing half, after `LoadOnce`** (native mode): `schedC03` on a native instance, then
    to the end of the iteration: nothing is destroyed, but `[2]` is never uploaded. -/
def schedC09n : List Ev := schedC03 ++ [.go (inp none), .go (inp none)]

/-- a race-free schedule: the application writes while the loop sleeps; the next iteration
    publishes it -/
def schedOk : List Ev :=
  [.go (inp none), .go (inp (some ("b", 1))), .go (inp none), .go (inp none),
   .app [.put app [2] [66]],
   .go (inp none), .go (inp none), .go (inp none), .go (inp none), .go (inp none), .go (inp none)]

end Ls.Loop.Witness
