import LsLemmas.Wire
/-
  csproto.SizeOfVarint ((bits.Len64(v|1)+6)/7) is the number of bytes EncodeVarint writes;
  tags of fields 1..15 take one byte.
-/
namespace Ls.Wire
open Ls

theorem log2_shift (x j : Nat) (h : 2 ^ j ≤ x) : Nat.log2 x = Nat.log2 (x / 2 ^ j) + j := by
  induction j generalizing x with
  | zero => simp
  | succ j ih =>
    have h2 : 2 ≤ x := by
      have : 2 ^ 1 ≤ 2 ^ (j + 1) := Nat.pow_le_pow_right (by decide) (by omega)
      omega
    rw [Nat.log2_def x, if_pos h2]
    have h3 : 2 ^ j ≤ x / 2 := by
      rw [Nat.le_div_iff_mul_le (by decide)]
      rw [Nat.pow_succ] at h; exact h
    rw [ih (x / 2) h3, Nat.div_div_eq_div_mul, Nat.pow_succ, Nat.mul_comm 2]
    omega

theorem log2_or_one (x : Nat) (h : 1 ≤ x) : Nat.log2 (x ||| 1) = Nat.log2 x := by
  have hx : x ≠ 0 := by omega
  have hx1 : x ||| 1 ≠ 0 := by
    have := @Nat.left_le_or x 1; omega
  apply Nat.le_antisymm
  · have h1 : x < 2 ^ (Nat.log2 x + 1) := Nat.lt_log2_self
    have h2 : 1 < 2 ^ (Nat.log2 x + 1) := by
      have : 2 ^ 0 < 2 ^ (Nat.log2 x + 1) := Nat.pow_lt_pow_right (by decide) (by omega)
      simpa using this
    have := Nat.or_lt_two_pow h1 h2
    have := (Nat.log2_lt hx1).mpr this
    omega
  · have h1 : 2 ^ Nat.log2 x ≤ x := Nat.log2_self_le hx
    have h2 : x ≤ x ||| 1 := Nat.left_le_or
    have h3 : ¬ (Nat.log2 (x ||| 1) < Nat.log2 x) := by
      intro hlt
      have := (Nat.log2_lt hx1).mp hlt
      omega
    omega

theorem or_one_div (v : Nat) : (v ||| 1) / 128 = v / 128 := by
  have : (v ||| 1) >>> 7 = v >>> 7 ||| 1 >>> 7 := Nat.shiftRight_or_distrib
  simp [Nat.shiftRight_eq_div_pow] at this
  exact this

theorem evLoop_length (k v : Nat) (hv : v < 128 ^ (k + 1)) :
    (evLoop k v).length = Nat.log2 (v ||| 1) / 7 + 1 := by
  induction k generalizing v with
  | zero =>
    have hv' : v < 128 := by simpa using hv
    have h1 : v ||| 1 < 2 ^ 7 := Nat.or_lt_two_pow (by omega) (by decide)
    have hne : v ||| 1 ≠ 0 := by have := @Nat.right_le_or v 1; omega
    have := (Nat.log2_lt hne).mpr h1
    simp [evLoop]; omega
  | succ k ih =>
    simp only [evLoop]
    split
    · rename_i hlt
      have h1 : v ||| 1 < 2 ^ 7 := Nat.or_lt_two_pow (by omega) (by decide)
      have hne : v ||| 1 ≠ 0 := by have := @Nat.right_le_or v 1; omega
      have := (Nat.log2_lt hne).mpr h1
      simp; omega
    · rename_i hge
      have hdiv : v / 128 < 128 ^ (k + 1) := by
        rw [Nat.div_lt_iff_lt_mul (by decide)]
        rw [Nat.pow_succ] at hv; exact hv
      have hge' : 2 ^ 7 ≤ v ||| 1 := by
        have := @Nat.left_le_or v 1; omega
      rw [List.length_cons, ih (v / 128) hdiv, log2_shift (v ||| 1) 7 hge']
      have : (v ||| 1) / 2 ^ 7 = v / 128 := or_one_div v
      rw [this, log2_or_one (v / 128) (by omega)]
      omega

theorem sizeOfVarint_eq (v : Nat) (hv : v < two64) : sizeOfVarint v = (encodeVarint v).length := by
  have h1 : v % two64 = v := Nat.mod_eq_of_lt hv
  have h2 : v < 128 ^ 10 := by simp [two64] at hv; omega
  unfold sizeOfVarint encodeVarint
  rw [h1, evLoop_length 9 v h2]
  omega

theorem encodeTag_small (f wt : Nat) (hf : f ≤ 15) (hw : wt ≤ 7) :
    encodeTag f wt = [UInt8.ofNat (f * 8 + wt)] := by
  have h1 : (f * 8 + wt) % two64 = f * 8 + wt := Nat.mod_eq_of_lt (by simp [two64]; omega)
  have h2 : f * 8 + wt < 128 := by omega
  simp [encodeTag, encodeVarint, h1, evLoop, h2]

theorem encodeTag_length_small (f wt : Nat) (hf : f ≤ 15) (hw : wt ≤ 7) : (encodeTag f wt).length = 1 := by
  rw [encodeTag_small f wt hf hw]; rfl

end Ls.Wire
