import LsLemmas.TxnMirrorM2S
/-
  `loadDbi` in shadow (non-native) mode: shape of a successful step, what it does to one tracked
  application DBI and its shadow, and the fold over the snapshot's messages.
-/
set_option linter.unusedSimpArgs false
namespace Ls.Txn
open Ls Ls.Lmdb Ls.Strategy Ls.Merge

variable {E ε : Type}

theorem delS_dkeysOK (ik : Bool) (s : S) (k : Bytes) (h : DKeysOK s.db) : DKeysOK (delS ik s k).db := by
  intro p hp
  unfold delS at hp
  exact h p (del_mem p hp)

theorem putS_dkeysOK {ik : Bool} {s s' : S} {k v : Bytes} (hp : (putS ik s k v : Except (SErr ε) S) = .ok s')
    (h : DKeysOK s.db) : DKeysOK s'.db := by
  unfold putS at hp
  split at hp
  · cases hp
  · rename_i hb
    injection hp with hp; subst hp
    exact put_forall (fun k => badKey k = false) h (by simpa using hb)

theorem setNewVal_dkeysOK {ik : Bool} {s s' : S} {k old : Bytes} {nv : Option Bytes}
    (hp : (setNewVal ik s k old nv : Except (SErr ε) S) = .ok s') (h : DKeysOK s.db) : DKeysOK s'.db := by
  unfold setNewVal at hp
  split at hp
  · injection hp with hp; subst hp; exact delS_dkeysOK ik s k h
  · split at hp
    · injection hp with hp; subst hp; exact delS_dkeysOK ik s k h
    · split at hp
      · injection hp with hp; subst hp; exact h
      · exact putS_dkeysOK hp h

theorem updStep_dkeysOK {ik : Bool} {it : Iter E ε} {s s' : S} {e : E}
    (hp : updStep ik it s e = .ok s') (h : DKeysOK s.db) : DKeysOK s'.db := by
  unfold updStep at hp
  by_cases hl : (it.key e).length = 0
  · simp [hl, bind, Except.bind, throw, throwThe, MonadExceptOf.throw] at hp
  · simp only [hl, if_false, bind, Except.bind] at hp
    cases hm : liftIter (it.merge e ((get ik s.db (it.key e)).getD [])) with
    | error x => simp [hm] at hp
    | ok nv => simp only [hm] at hp; exact setNewVal_dkeysOK hp h

theorem update_dkeysOK {ik : Bool} {it : Iter E ε} (input : List E) {s s' : S}
    (hp : update ik it s input = .ok s') (h : DKeysOK s.db) : DKeysOK s'.db := by
  rw [update_eq_fold] at hp
  exact foldlM_preserves (updStep ik it) (fun s => DKeysOK s.db) input
    (fun a _ b b1 hb hs => updStep_dkeysOK hs hb) s s' h hp


/-- the working state after `loadDbi` opened (creating when missing) the application DBI and its
    shadow (non-native mode) -/
def loadOpened (c : Cfg) (w : W) (m : DbiMsg) : W :=
  openCreate (openCreate w m.name (createFlags c m)) (shadowName m.name)
    (createFlags c m &&& Gen.allowedShadowDBIFlagsMask)

theorem openCreate_match (w : W) (n : Bytes) (fl : Nat) :
    (match findDbi w.dbis n with
      | some _ => w
      | none => openCreate w n fl) = openCreate w n fl := by
  cases h : findDbi w.dbis n with
  | some d => simp only []; exact (openCreate_of_someMirror fl h).symm
  | none => rfl

theorem loadOpened_find_shadow (c : Cfg) (w : W) (m : DbiMsg) :
    findDbi (loadOpened c w m).dbis (shadowName m.name) =
      some ((findDbi (openCreate w m.name (createFlags c m)).dbis (shadowName m.name)).getD
        { name := shadowName m.name, flags := createFlags c m &&& Gen.allowedShadowDBIFlagsMask, kvs := [] }) :=
  openCreate_find_self _ _ _

/-- shape of a successful `loadDbi` in shadow (non-native) mode -/
theorem loadDbi_shadow_ok {c : Cfg} {snap : Snap} {txnID cutoff : Nat} {w w' : W} {m : DbiMsg}
    (hn : c.native = false) (hp : isPrivate m.name = false)
    (h : loadDbi c snap txnID cutoff w m = .ok w') :
    validateTransform m snap.fv false = true ∧ versionOk snap.fv snap.cv = true ∧
    ∃ td s, findDbi (loadOpened c w m).dbis (shadowName m.name) = some td ∧
      update (isIntKey td.flags) (nativeIter (loadCfg c snap txnID cutoff))
        ⟨td.kvs, (loadOpened c w m).dirty⟩ m.entries = .ok s ∧
      w' = ⟨setKvs (loadOpened c w m).dbis (shadowName m.name) s.db, s.dirty⟩ := by
  unfold loadDbi at h
  simp only [hp, hn, Bool.false_eq_true, if_false, bind, Except.bind, pure, Except.pure] at h
  by_cases hv : ¬ validateTransform m snap.fv false = true
  · simp [hv, throw, throwThe, MonadExceptOf.throw] at h
  have hv' : validateTransform m snap.fv false = true := by simpa using hv
  by_cases hver : ¬ versionOk snap.fv snap.cv = true
  · exfalso
    have hver0 : versionOk snap.fv snap.cv = false := by simpa using hver
    simp only [hv, if_false, hver0, Bool.false_eq_true, not_false_eq_true, if_true] at h
    cases hd : findDbi w.dbis m.name with
    | some d =>
      simp only [hd] at h
      split at h <;> simp [throw, throwThe, MonadExceptOf.throw] at h
    | none =>
      simp only [hd] at h
      split at h
      · simp [throw, throwThe, MonadExceptOf.throw] at h
      · split at h <;> simp [throw, throwThe, MonadExceptOf.throw] at h
  have hver' : versionOk snap.fv snap.cv = true := by simpa using hver
  simp only [hv, hver, if_false] at h
  refine ⟨hv', hver', ?_⟩
  -- the common end: a `runOn` on the opened state
  have fin : ∀ (w2 : W) (td : Dbi), w2 = loadOpened c w m → findDbi w2.dbis (shadowName m.name) = some td →
      (runOn w2 (shadowName m.name) fun s => mapStratErr (update (isIntKey td.flags)
        (nativeIter { fv := snap.fv, defTs := 0, txn := txnID, cutoff := cutoff, pad := c.pad }) s m.entries)) = .ok w' →
      ∃ td s, findDbi (loadOpened c w m).dbis (shadowName m.name) = some td ∧
        update (isIntKey td.flags) (nativeIter (loadCfg c snap txnID cutoff))
          ⟨td.kvs, (loadOpened c w m).dirty⟩ m.entries = .ok s ∧
        w' = ⟨setKvs (loadOpened c w m).dbis (shadowName m.name) s.db, s.dirty⟩ := by
    intro w2 td hw2 htd hr
    subst hw2
    obtain ⟨td', s, htd', hs, hw'⟩ := runOn_ok hr
    rw [htd] at htd'; injection htd' with htd'; subst htd'
    exact ⟨td, s, htd, mapStratErr_ok hs, hw'⟩
  cases hd : findDbi w.dbis m.name with
  | some d =>
    have e1 : openCreate w m.name (createFlags c m) = w := openCreate_of_someMirror _ hd
    simp only [hd] at h
    cases hsd : findDbi w.dbis (shadowName m.name) with
    | some sd =>
      simp only [hsd] at h
      refine fin w sd ?_ hsd h
      unfold loadOpened; rw [e1, openCreate_of_someMirror _ hsd]
    | none =>
      simp only [hsd] at h
      have hf := openCreate_find_self w (shadowName m.name) (createFlags c m &&& Gen.allowedShadowDBIFlagsMask)
      unfold createFlags ovrOf at hf
      simp only [hf] at h
      refine fin _ _ ?_ hf h
      unfold loadOpened; rw [e1]; rfl
  | none =>
    simp only [hd] at h
    by_cases hu : snap.fv < 3 ∧ ((c.override.find? (·.1 = m.name)).map (·.2)).isNone = true
    · simp [hu, throw, throwThe, MonadExceptOf.throw] at h
    · simp only [hu, if_false] at h
      cases hsd : findDbi (openCreate w m.name (createFlags c m)).dbis (shadowName m.name) with
      | some sd =>
        unfold createFlags ovrOf at hsd
        simp only [hsd] at h
        refine fin _ sd ?_ hsd h
        unfold loadOpened createFlags ovrOf; rw [openCreate_of_someMirror _ hsd]
      | none =>
        unfold createFlags ovrOf at hsd
        simp only [hsd] at h
        have hf := openCreate_find_self (openCreate w m.name (createFlags c m)) (shadowName m.name)
          (createFlags c m &&& Gen.allowedShadowDBIFlagsMask)
        unfold createFlags ovrOf at hf
        simp only [hf] at h
        refine fin _ _ ?_ hf h
        unfold loadOpened createFlags ovrOf; rfl

/-! ### `update` facts used for the shadow DBI -/

theorem update_ok_keys {ik : Bool} {it : Iter E ε} (input : List E) :
    ∀ {s s' : S}, update ik it s input = .ok s' → ∀ e ∈ input, (it.key e).length ≠ 0 := by
  simp only [update_eq_fold]
  induction input with
  | nil => intro s s' _ e he; cases he
  | cons a rest ih =>
    intro s s' h e he
    rw [List.foldlM_cons] at h
    cases h1 : updStep ik it s a with
    | error x => simp [h1, bind, Except.bind] at h
    | ok s1 =>
      simp only [h1, bind, Except.bind] at h
      rcases List.mem_cons.mp he with he | he
      · subst he
        intro hl
        unfold updStep at h1
        simp [hl, bind, Except.bind, throw, throwThe, MonadExceptOf.throw] at h1
      · exact ih h e he

/-- a successful `Update` keeps the DBI sorted with valid keys, and is the specification fold -/
theorem update_ok_spec {ik : Bool} {it : Iter E ε} {db : KVs} {d : Bool} {input : List E} {s' : S}
    (hs : Sorted ik db) (hK : DKeysOK db) (h : update ik it ⟨db, d⟩ input = .ok s') :
    specUpdate ik it db input = .ok s'.db ∧ Sorted ik s'.db ∧ DKeysOK s'.db := by
  have hk := update_ok_keys input h
  have h2 := h
  rw [update_eq_spec it input (s := ⟨db, d⟩) hs hk] at h2
  have h3 := specUpdateS_ok it input h2
  exact ⟨h3, specUpdate_sorted it input hs h3, update_dkeysOK input h hK⟩

/-- every snapshot entry for key `k` is kept out by what is stored for `k` (`X`): the key is stored
    with a parsable header and `Merge.keep` holds -/
def KeepAll (mc : Merge.Cfg) (ik : Bool) (k : Bytes) (X : Option Bytes) (entries : List KV) : Prop :=
  ∀ e ∈ entries, kcmp ik e.key k = 0 →
    ∃ old h a, X = some old ∧ Header.parse old = .ok (h, a) ∧ Merge.keep mc e h a

theorem update_keepAll_get {ik : Bool} {mc : Merge.Cfg} {db : KVs} {d : Bool} {input : List KV} {s' : S}
    (hs : Sorted ik db) (hK : DKeysOK db) (h : update ik (nativeIter mc) ⟨db, d⟩ input = .ok s')
    (k : Bytes) (hkeep : KeepAll mc ik k (get ik db k) input) : get ik s'.db k = get ik db k := by
  obtain ⟨hspec, _, _⟩ := update_ok_spec hs hK h
  have hg := specUpdate_get (nativeIter mc) input k hs hspec
  have : (input.filter (fun e => kcmp ik ((nativeIter mc).key e) k = 0)).foldlM
        (fun cur e => do let v ← (nativeIter mc).merge e (cur.getD []); pure (setNew v)) (get ik db k)
        = .ok (get ik db k) := by
    apply foldlM_noop
    intro e he
    obtain ⟨he1, he2⟩ := List.mem_filter.mp he
    obtain ⟨old, hd, a, hX, hp, hkp⟩ := hkeep e he1 (of_decide_eq_true he2)
    have hl := parse_ok_length hp
    rw [hX]
    simp only [nativeIter, Option.getD_some, (merge_present mc e old hd a hl hp).1 hkp, bind, Except.bind,
      pure, Except.pure, setNew, hl, if_false]
  rw [this] at hg
  injection hg with hg
  exact hg.symm

/-! ### one tracked application DBI through a step -/

theorem loadOpened_of_both {c : Cfg} {w : W} {m : DbiMsg} {d sd : Dbi}
    (hd : findDbi w.dbis m.name = some d) (hsd : findDbi w.dbis (shadowName m.name) = some sd) :
    loadOpened c w m = w := by
  unfold loadOpened
  rw [openCreate_of_someMirror _ hd, openCreate_of_someMirror _ hsd]

theorem loadOpened_find_other (c : Cfg) (w : W) (m : DbiMsg) (x : Bytes) (h1 : x ≠ m.name)
    (h2 : x ≠ shadowName m.name) : findDbi (loadOpened c w m).dbis x = findDbi w.dbis x := by
  unfold loadOpened
  rw [openCreate_find_ne _ _ _ _ h2, openCreate_find_ne _ _ _ _ h1]

/-- a `loadDbi` step (non-native) seen from one existing application DBI `n` with shadow `sd`:
    the application DBI is not written; the shadow is written only by a message for `n`, through
    `strategy.Update` with the snapshot iterator -/
theorem loadDbi_shadow_track {c : Cfg} {snap : Snap} {txnID cutoff : Nat} {w w' : W} {m : DbiMsg}
    (hn : c.native = false) (h : loadDbi c snap txnID cutoff w m = .ok w') {n : Bytes} {d sd : Dbi}
    (hpn : isPrivate n = false) (hd : findDbi w.dbis n = some d)
    (hsd : findDbi w.dbis (shadowName n) = some sd) :
    findDbi w'.dbis n = some d ∧
    ((isPrivate m.name = true ∨ m.name ≠ n) → findDbi w'.dbis (shadowName n) = some sd) ∧
    (isPrivate m.name = false → m.name = n → ∃ s,
      update (isIntKey sd.flags) (nativeIter (loadCfg c snap txnID cutoff)) ⟨sd.kvs, w.dirty⟩ m.entries = .ok s ∧
      findDbi w'.dbis (shadowName n) = some { sd with kvs := s.db }) := by
  cases hpm : isPrivate m.name with
  | true =>
    rw [loadDbi_private hpm] at h
    injection h with h; subst h
    exact ⟨hd, fun _ => hsd, fun h => by cases h⟩
  | false =>
    obtain ⟨_, _, td, s, htd, hs, hw'⟩ := loadDbi_shadow_ok hn hpm h
    subst hw'
    have hne1 : n ≠ shadowName m.name := fun he => by rw [he, isPrivate_shadowName] at hpn; cases hpn
    by_cases hmn : m.name = n
    · subst hmn
      rw [loadOpened_of_both hd hsd] at htd hs ⊢
      rw [hsd] at htd; injection htd with htd; subst htd
      refine ⟨?_, fun h => ?_, fun _ _ => ⟨s, hs, ?_⟩⟩
      · simp only [findDbi_setKvsMirror, if_neg hne1, hd]
      · rcases h with h | h
        · cases h
        · exact absurd rfl h
      · simp only [findDbi_setKvsMirror, if_true, hsd, Option.map_some]
    · have hne2 : n ≠ m.name := fun he => hmn he.symm
      have hne3 : shadowName n ≠ shadowName m.name := fun he => hne2 (shadowName_inj he)
      have hne4 : shadowName n ≠ m.name := fun he => by rw [← he, isPrivate_shadowName] at hpm; cases hpm
      refine ⟨?_, fun _ => ?_, fun _ h => absurd h hmn⟩
      · simp only [findDbi_setKvsMirror, if_neg hne1]
        rw [loadOpened_find_other c w m n hne2 hne1]; exact hd
      · simp only [findDbi_setKvsMirror, if_neg hne3]
        rw [loadOpened_find_other c w m _ hne4 hne3]; exact hsd

/-- the fold of `loadDbi` over the snapshot's messages (non-native), seen from one existing
    application DBI `n` with shadow `sd`: the application DBI is not written, the shadow keeps its
    flags, stays sorted with valid keys, and a key for which every entry of every message for `n`
    is kept out by the stored bytes keeps exactly those bytes -/
theorem loadFold_shadow_track {c : Cfg} {snap : Snap} {txnID cutoff : Nat} (hn : c.native = false)
    {n : Bytes} {d : Dbi} (hpn : isPrivate n = false) (msgs : List DbiMsg) :
    ∀ {w w' : W} {sd : Dbi}, msgs.foldlM (loadDbi c snap txnID cutoff) w = .ok w' →
    findDbi w.dbis n = some d → findDbi w.dbis (shadowName n) = some sd →
    Sorted (isIntKey sd.flags) sd.kvs → DKeysOK sd.kvs →
    findDbi w'.dbis n = some d ∧
    ∃ kvs', findDbi w'.dbis (shadowName n) = some { sd with kvs := kvs' } ∧
      Sorted (isIntKey sd.flags) kvs' ∧ DKeysOK kvs' ∧
      ∀ k, (∀ m ∈ msgs, isPrivate m.name = false → m.name = n →
          KeepAll (loadCfg c snap txnID cutoff) (isIntKey sd.flags) k (get (isIntKey sd.flags) sd.kvs k) m.entries) →
        get (isIntKey sd.flags) kvs' k = get (isIntKey sd.flags) sd.kvs k := by
  induction msgs with
  | nil =>
    intro w w' sd h hd hsd hS hK
    simp [List.foldlM_nil, pure, Except.pure] at h; subst h
    exact ⟨hd, sd.kvs, by rw [hsd], hS, hK, fun _ _ => rfl⟩
  | cons m rest ih =>
    intro w w' sd h hd hsd hS hK
    rw [List.foldlM_cons] at h
    cases h1 : loadDbi c snap txnID cutoff w m with
    | error x => simp [h1, bind, Except.bind] at h
    | ok w1 =>
      simp only [h1, bind, Except.bind] at h
      obtain ⟨hd1, hother, hsame⟩ := loadDbi_shadow_track hn h1 hpn hd hsd
      by_cases hm : isPrivate m.name = false ∧ m.name = n
      · obtain ⟨s, hs, hsd1⟩ := hsame hm.1 hm.2
        obtain ⟨_, hS1, hK1⟩ := update_ok_spec hS hK hs
        obtain ⟨hdf, kvs', hf, hS', hK', hget⟩ := ih (sd := { sd with kvs := s.db }) h hd1 hsd1 hS1 hK1
        refine ⟨hdf, kvs', hf, hS', hK', ?_⟩
        intro k hk
        have h0 : get (isIntKey sd.flags) s.db k = get (isIntKey sd.flags) sd.kvs k :=
          update_keepAll_get hS hK hs k (hk m (List.mem_cons_self ..) hm.1 hm.2)
        have := hget k (fun m' hm' hp' hn' => by
          simp only
          rw [h0]
          exact hk m' (List.mem_cons_of_mem _ hm') hp' hn')
        simp only at this
        rw [this, h0]
      · have hsd1 := hother (by
          by_cases hp : isPrivate m.name = true
          · exact Or.inl hp
          · right; intro he; exact hm ⟨by simpa using hp, he⟩)
        obtain ⟨hdf, kvs', hf, hS', hK', hget⟩ := ih h hd1 hsd1 hS hK
        exact ⟨hdf, kvs', hf, hS', hK', fun k hk =>
          hget k (fun m' hm' hp' hn' => hk m' (List.mem_cons_of_mem _ hm') hp' hn')⟩

end Ls.Txn
