import LsModel.Config
namespace Ls.Config
open Ls

theorem wrapInt64_id (x : Int) (h1 : -9223372036854775808 ≤ x) (h2 : x < 9223372036854775808) :
    wrapInt64 x = x := by
  unfold wrapInt64 toInt64 toUInt64 two64 two63
  simp only
  by_cases hx : 0 ≤ x
  · have e1 : x % (18446744073709551616 : Int) = x := Int.emod_eq_of_lt hx (by omega)
    rw [show ((18446744073709551616 : Nat) : Int) = (18446744073709551616 : Int) from rfl, e1]
    have e2 : (x.toNat : Int) = x := Int.toNat_of_nonneg hx
    have e3 : x.toNat % 18446744073709551616 = x.toNat := Nat.mod_eq_of_lt (by omega)
    rw [e3]
    split <;> omega
  · have hx' : x < 0 := by omega
    have e1 : x % (18446744073709551616 : Int) = x + 18446744073709551616 := by
      rw [Int.emod_def]
      have : x / (18446744073709551616 : Int) = -1 := by omega
      rw [this]; omega
    rw [show ((18446744073709551616 : Nat) : Int) = (18446744073709551616 : Int) from rfl, e1]
    have e2 : ((x + 18446744073709551616).toNat : Int) = x + 18446744073709551616 :=
      Int.toNat_of_nonneg (by omega)
    have e3 : (x + 18446744073709551616).toNat % 18446744073709551616 = (x + 18446744073709551616).toNat :=
      Nat.mod_eq_of_lt (by omega)
    rw [e3]
    split <;> omega

theorem tdiv_nonneg_eq (a b : Int) (ha : 0 ≤ a) : tdiv a b = a / b := by
  unfold tdiv; exact Int.tdiv_eq_ediv_of_nonneg ha

end Ls.Config
