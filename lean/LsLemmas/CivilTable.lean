import LsLemmas.CivilTableDefs
import LsLemmas.CivilTable00
import LsLemmas.CivilTable01
import LsLemmas.CivilTable02
import LsLemmas.CivilTable03
import LsLemmas.CivilTable04
import LsLemmas.CivilTable05
import LsLemmas.CivilTable06
import LsLemmas.CivilTable07
import LsLemmas.CivilTable08
import LsLemmas.CivilTable09
import LsLemmas.CivilTable10
import LsLemmas.CivilTable11
import LsLemmas.CivilTable12
import LsLemmas.CivilTable13
/-
  The civil-date conversion over the whole range of snapshot timestamps: for every day
  0 ≤ d ≤ 106751 (1970-01-01 … 2262-04-11) `civilFromDays d` is a valid date of a four-digit
  year, `daysFromCivil` inverts it, and the dates are strictly increasing (as yyyymmdd numbers).
  Lifted from the kernel-evaluated chunks.
-/
namespace Ls.Civil

/-- number of days in the table: 2^63 ns = 106751 days + 23:47:16.854775808 -/
def tableDays : Nat := 106752

theorem rowOK_all (d : Nat) (h : d < tableDays) : rowOK d = true := by
  unfold tableDays at h
  by_cases h0 : d < 8000
  · exact chunkOK_row 0 8000 d chunk00 (by omega) (by omega)
  by_cases h1 : d < 16000
  · exact chunkOK_row 8000 8000 d chunk01 (by omega) (by omega)
  by_cases h2 : d < 24000
  · exact chunkOK_row 16000 8000 d chunk02 (by omega) (by omega)
  by_cases h3 : d < 32000
  · exact chunkOK_row 24000 8000 d chunk03 (by omega) (by omega)
  by_cases h4 : d < 40000
  · exact chunkOK_row 32000 8000 d chunk04 (by omega) (by omega)
  by_cases h5 : d < 48000
  · exact chunkOK_row 40000 8000 d chunk05 (by omega) (by omega)
  by_cases h6 : d < 56000
  · exact chunkOK_row 48000 8000 d chunk06 (by omega) (by omega)
  by_cases h7 : d < 64000
  · exact chunkOK_row 56000 8000 d chunk07 (by omega) (by omega)
  by_cases h8 : d < 72000
  · exact chunkOK_row 64000 8000 d chunk08 (by omega) (by omega)
  by_cases h9 : d < 80000
  · exact chunkOK_row 72000 8000 d chunk09 (by omega) (by omega)
  by_cases h10 : d < 88000
  · exact chunkOK_row 80000 8000 d chunk10 (by omega) (by omega)
  by_cases h11 : d < 96000
  · exact chunkOK_row 88000 8000 d chunk11 (by omega) (by omega)
  by_cases h12 : d < 104000
  · exact chunkOK_row 96000 8000 d chunk12 (by omega) (by omega)
  by_cases h13 : d < 106752
  · exact chunkOK_row 104000 2752 d chunk13 (by omega) (by omega)
  omega

theorem civil_row (d : Nat) (h : d < tableDays) :
    (1970 ≤ (civilFromDays d).1 ∧ (civilFromDays d).1 ≤ 2262) ∧
    (1 ≤ (civilFromDays d).2.1 ∧ (civilFromDays d).2.1 ≤ 12) ∧
    (1 ≤ (civilFromDays d).2.2 ∧ (civilFromDays d).2.2 ≤ daysIn (civilFromDays d).2.1 (civilFromDays d).1) ∧
    daysFromCivilShifted (civilFromDays d).1 (civilFromDays d).2.1 (civilFromDays d).2.2 = d + epochShift ∧
    dateNum (civilFromDays d) < dateNum (civilFromDays (d + 1)) := by
  have := rowOK_all d h
  simpa [rowOK, and_assoc] using this

/-- `daysFromCivil` inverts `civilFromDays` on the whole range -/
theorem daysFromCivil_civilFromDays (d : Nat) (h : d < tableDays) :
    daysFromCivil (civilFromDays d).1 (civilFromDays d).2.1 (civilFromDays d).2.2 = (d : Int) := by
  have := (civil_row d h).2.2.2.1
  unfold daysFromCivil
  rw [this]
  omega

/-- the dates of the range are strictly increasing as yyyymmdd numbers -/
theorem dateNum_strictMono : ∀ (d2 d1 : Nat), d1 < d2 → d2 < tableDays →
    dateNum (civilFromDays d1) < dateNum (civilFromDays d2)
  | 0, _, h, _ => by omega
  | d2 + 1, d1, h, h2 => by
    have hstep := (civil_row d2 (by omega)).2.2.2.2
    by_cases he : d1 = d2
    · subst he; exact hstep
    · exact Nat.lt_trans (dateNum_strictMono d2 d1 (by omega) (by omega)) hstep

theorem dateNum_lt_iff (d1 d2 : Nat) (h1 : d1 < tableDays) (h2 : d2 < tableDays) :
    dateNum (civilFromDays d1) < dateNum (civilFromDays d2) ↔ d1 < d2 := by
  constructor
  · intro h
    by_cases hlt : d1 < d2
    · exact hlt
    · by_cases he : d1 = d2
      · subst he; omega
      · have := dateNum_strictMono d1 d2 (by omega) h1; omega
  · intro h; exact dateNum_strictMono d2 d1 h h2

end Ls.Civil
