import LsLemmas.RecvLive
import LsLemmas.RecvQuiesce
/-
  Receiver model: monotonicity of the corrupt and ignore sets, constants along runs, the listing
  of one instance depends only on that instance's names. Core Lean only.
-/
namespace Ls.Recv
variable {ι : Type} [DecidableEq ι]

/-- `corrupt` and `ignored` only grow -/
theorem marks_mono_step {s s' : St ι} {x : Step ι} (h : step s x = some s') :
    (∀ n ∈ s.corrupt, n ∈ s'.corrupt) ∧ (∀ n ∈ s.ignored, n ∈ s'.ignored) := by
  cases x with
  | runOnce inc ok =>
    have e := step_runOnce h
    cases ok with
    | false => subst e; exact ⟨fun _ h => h, fun _ h => h⟩
    | true =>
      simp only [if_true] at e; subst e
      rw [runOnce_frame]
      exact ⟨fun _ h => h, fun n hn => mem_ignoredNow.mpr (Or.inl hn)⟩
  | wake d => obtain ⟨x, _, _, _, rfl⟩ := step_wake h; exact ⟨fun _ h => h, fun _ h => h⟩
  | check d =>
    obtain ⟨x, _, _, hc⟩ := step_check h
    rcases hc with ⟨_, rfl⟩ | ⟨t, _, _, rfl⟩ <;> exact ⟨fun _ h => h, fun _ h => h⟩
  | acqDl d => obtain ⟨x, t, _, _, _, rfl⟩ := step_acqDl h; exact ⟨fun _ h => h, fun _ h => h⟩
  | load d r =>
    obtain ⟨x, t, _, _, hc⟩ := step_load h
    rcases hc with ⟨_, b, _, rfl⟩ | ⟨_, rfl⟩ <;> exact ⟨fun _ h => h, fun _ h => h⟩
  | acqDc d => obtain ⟨x, t, bad, _, _, _, rfl⟩ := step_acqDc h; exact ⟨fun _ h => h, fun _ h => h⟩
  | decode d =>
    obtain ⟨x, t, bad, _, _, hc⟩ := step_decode h
    rcases hc with ⟨_, rfl⟩ | ⟨_, rfl⟩
    · exact ⟨fun n hn => mem_insertName.mpr (Or.inl hn), fun _ h => h⟩
    · exact ⟨fun _ h => h, fun _ h => h⟩
  | retry d => obtain ⟨x, _, _, rfl⟩ := step_retry h; exact ⟨fun _ h => h, fun _ h => h⟩
  | next d => obtain ⟨_, t, _, rfl⟩ := step_next h; exact ⟨fun _ h => h, fun _ h => h⟩
  | close => obtain ⟨n, _, rfl⟩ := step_close h; exact ⟨fun _ h => h, fun _ h => h⟩
  | put b => rw [step_put h]; exact ⟨fun _ h => h, fun _ h => h⟩
  | rm d t => rw [step_rm h]; exact ⟨fun _ h => h, fun _ h => h⟩

theorem marks_mono_run {s s' : St ι} (steps : List (Step ι)) (h : run s steps = some s') :
    (∀ n ∈ s.corrupt, n ∈ s'.corrupt) ∧ (∀ n ∈ s.ignored, n ∈ s'.ignored) :=
  run_induct (fun z => (∀ n ∈ s.corrupt, n ∈ z.corrupt) ∧ (∀ n ∈ s.ignored, n ∈ z.ignored)) (fun _ _ => True)
    (fun _ _ _ hp _ hs => ⟨fun n hn => (marks_mono_step hs).1 n (hp.1 n hn), fun n hn => (marks_mono_step hs).2 n (hp.2 n hn)⟩)
    steps s s' ⟨fun _ h => h, fun _ h => h⟩ (allOk_true s steps) h

theorem consts_run {s s' : St ι} (steps : List (Step ι)) (h : run s steps = some s') :
    s'.own = s.own ∧ s'.dlLimit = s.dlLimit ∧ s'.dcLimit = s.dcLimit :=
  run_induct (fun z => z.own = s.own ∧ z.dlLimit = s.dlLimit ∧ z.dcLimit = s.dcLimit) (fun _ _ => True)
    (fun a x b hp _ hs => by
      obtain ⟨h1, h2, h3⟩ := step_own hs
      exact ⟨h1.trans hp.1, h2.trans hp.2.1, h3.trans hp.2.2⟩)
    steps s s' ⟨rfl, rfl, rfl⟩ (allOk_true s steps) h

/-- the `lastSeen` entry of instance `d` after a listing depends only on the bucket and on which
    names of `d` are ignored -/
theorem seenOf_congr {s s2 : St ι} (d : ι) (hb : s.bucket = s2.bucket)
    (hig : ∀ t, (d, t) ∈ ignoredNow s ↔ (d, t) ∈ ignoredNow s2) :
    AL.get (seenOf s) d = AL.get (seenOf s2) d := by
  have key : ∀ t, NewestIn s.bucket (ignoredNow s) d t ↔ NewestIn s2.bucket (ignoredNow s2) d t := by
    intro t
    unfold NewestIn
    rw [hb]
    have hname : ∀ b : Blob ι, b.inst = d → b.name = (d, b.ts) := by
      intro b hbi; simp [Blob.name, hbi]
    constructor
    · intro ⟨a, b, c⟩
      refine ⟨a, fun hm => b ((hig t).mpr hm), fun x hx hxi hxn => c x hx hxi ?_⟩
      rw [hname x hxi] at hxn ⊢
      exact fun hm => hxn ((hig _).mp hm)
    · intro ⟨a, b, c⟩
      refine ⟨a, fun hm => b ((hig t).mp hm), fun x hx hxi hxn => c x hx hxi ?_⟩
      rw [hname x hxi] at hxn ⊢
      exact fun hm => hxn ((hig _).mpr hm)
  apply Option.ext
  intro t
  rw [seenOf_some, seenOf_some, key]

/-- reachable from the initial state of a receiver of instance `own` with the two limits -/
def RReach (own : ι) (dl dc : Nat) (s : St ι) : Prop := ∃ steps, run (init own dl dc) steps = some s

/-- reachable by a run whose steps satisfy an environment assumption -/
def RReachE (ok : St ι → Step ι → Prop) (own : ι) (dl dc : Nat) (s : St ι) : Prop :=
  ∃ steps, AllOk ok (init own dl dc) steps ∧ run (init own dl dc) steps = some s

theorem getDl_with {s1 s2 : St ι} (h : s1.dls = s2.dls) (d : ι) : getDl s1 d = getDl s2 d := by
  unfold getDl; rw [h]

theorem rreach_inv {own : ι} {dl dc : Nat} {s : St ι} (h : RReach own dl dc s) :
    Inv s ∧ InvL s ∧ InvK s ∧ InvD s ∧ s.own = own ∧ s.dlLimit = dl ∧ s.dcLimit = dc := by
  obtain ⟨steps, hr⟩ := h
  have a := inv_run steps (inv_init own dl dc) hr
  have b := run_induct InvL (fun _ _ => True) (fun _ _ _ hp _ hs => invL_step hp hs) steps _ _
    (invL_init own dl dc) (allOk_true _ steps) hr
  have c := run_induct InvK (fun _ _ => True) (fun _ _ _ hp _ hs => invK_step hp hs) steps _ _
    (invK_init own dl dc) (allOk_true _ steps) hr
  have d := run_induct InvD (fun _ _ => True) (fun _ _ _ hp _ hs => invD_step hp hs) steps _ _
    (invD_init own dl dc) (allOk_true _ steps) hr
  obtain ⟨e1, e2, e3⟩ := consts_run steps hr
  exact ⟨a, b, c, d, e1, e2, e3⟩


end Ls.Recv
