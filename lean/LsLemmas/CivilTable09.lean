import LsLemmas.CivilTableDefs
/- civil-date table, rows 72000 … 79999 (kernel evaluation; see CivilTableDefs) -/
namespace Ls.Civil

theorem chunk09 : chunkOK 72000 8000 = true := by decide +kernel

end Ls.Civil
