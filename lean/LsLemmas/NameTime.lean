import LsLemmas.NameDigits
import LsLemmas.CivilTable
/- NameTimestamp over 0 ≤ t < 2^63: field ranges, parse-back, length, separator positions,
   byte order = chronological order. -/
namespace Ls.Name
open Ls Ls.Civil

/-- the range of `header.Timestamp` values that `time.Unix(0, int64(ts))` maps to themselves -/
def tsBound : Nat := 9223372036854775808

theorem tsBound_eq : tsBound = 2 ^ 63 := by decide

theorem days_lt (t : Nat) (h : t < tsBound) : t / nsPerSec / secPerDay < tableDays := by
  unfold tsBound at h; unfold nsPerSec secPerDay tableDays; omega

/-- the three numbers the fixed-width layout prints -/
def dateKey (t : Nat) : Nat := dateNum (civilFromDays (t / nsPerSec / secPerDay))
def timeKey (t : Nat) : Nat :=
  let sod := t / nsPerSec % secPerDay
  sod / 3600 * 10000 + sod % 3600 / 60 * 100 + sod % 60

theorem ofNanos_fields (t : Nat) :
    (ofNanos t).year = (civilFromDays (t / nsPerSec / secPerDay)).1 ∧
    (ofNanos t).month = (civilFromDays (t / nsPerSec / secPerDay)).2.1 ∧
    (ofNanos t).day = (civilFromDays (t / nsPerSec / secPerDay)).2.2 ∧
    (ofNanos t).hour = t / nsPerSec % secPerDay / 3600 ∧
    (ofNanos t).min = t / nsPerSec % secPerDay % 3600 / 60 ∧
    (ofNanos t).sec = t / nsPerSec % secPerDay % 60 ∧
    (ofNanos t).nsec = t % nsPerSec := ⟨rfl, rfl, rfl, rfl, rfl, rfl, rfl⟩

theorem daysIn_le (m y : Nat) : daysIn m y ≤ 31 := by
  unfold daysIn; split <;> try omega
  split <;> omega

/-- ranges of the broken-down time of an in-range timestamp -/
theorem ofNanos_ranges (t : Nat) (h : t < tsBound) :
    (1970 ≤ (ofNanos t).year ∧ (ofNanos t).year ≤ 2262) ∧
    (1 ≤ (ofNanos t).month ∧ (ofNanos t).month ≤ 12) ∧
    (1 ≤ (ofNanos t).day ∧ (ofNanos t).day ≤ daysIn (ofNanos t).month (ofNanos t).year) ∧
    (ofNanos t).hour < 24 ∧ (ofNanos t).min < 60 ∧ (ofNanos t).sec < 60 ∧
    (ofNanos t).nsec < 1000000000 := by
  obtain ⟨hy, hm, hd, hh, hmi, hs, hn⟩ := ofNanos_fields t
  have hr := civil_row _ (days_lt t h)
  rw [hy, hm, hd, hh, hmi, hs, hn]
  refine ⟨hr.1, hr.2.1, hr.2.2.1, ?_, ?_, ?_, ?_⟩ <;> simp only [nsPerSec, secPerDay] <;> omega

/-- `time.Date(...)` of the broken-down time gives the timestamp back -/
theorem toNanos_ofNanos (t : Nat) (h : t < tsBound) : toNanos (ofNanos t) = (t : Int) := by
  obtain ⟨hy, hm, hd, hh, hmi, hs, hn⟩ := ofNanos_fields t
  unfold toNanos
  rw [hy, hm, hd, hh, hmi, hs, hn, daysFromCivil_civilFromDays _ (days_lt t h)]
  unfold nsPerSec secPerDay
  omega

theorem formatCivil_shape (c : Civil) :
    formatCivil c = decDigits 4 c.year ++ (decDigits 2 c.month ++ (decDigits 2 c.day ++ (dash ::
      (decDigits 2 c.hour ++ (decDigits 2 c.min ++ (decDigits 2 c.sec ++ (dash :: decDigits 9 c.nsec))))))) := by
  simp [formatCivil, List.append_assoc]

theorem three_concat (k a b c : Nat) (hb : b < 100) (hc : c < 100) :
    decDigits k a ++ (decDigits 2 b ++ decDigits 2 c) = decDigits (k + 4) (a * 10000 + b * 100 + c) := by
  have e1 : (10 : Nat) ^ 2 = 100 := by decide
  have e2 : (10 : Nat) ^ (2 + 2) = 10000 := by decide
  rw [decDigits_concat 2 2 b c (by rw [e1]; exact hc), decDigits_concat k (2 + 2) a _ (by rw [e1, e2]; omega)]
  rw [e1, e2]
  have e3 : a * 10000 + (b * 100 + c) = a * 10000 + b * 100 + c := by omega
  rw [e3]

theorem formatCivil_eq (c : Civil) (hm : c.month < 100) (hd : c.day < 100) (hmi : c.min < 100)
    (hs : c.sec < 100) :
    formatCivil c = decDigits 8 (c.year * 10000 + c.month * 100 + c.day) ++ (dash ::
      (decDigits 6 (c.hour * 10000 + c.min * 100 + c.sec) ++ (dash :: decDigits 9 c.nsec))) := by
  rw [formatCivil_shape, ← three_concat 4 c.year c.month c.day hm hd,
    ← three_concat 2 c.hour c.min c.sec hmi hs]
  simp [List.append_assoc]

theorem nameTimestamp_eq (t : Nat) (h : t < tsBound) :
    nameTimestamp t = decDigits 8 (dateKey t) ++ (dash ::
      (decDigits 6 (timeKey t) ++ (dash :: decDigits 9 (t % nsPerSec)))) := by
  obtain ⟨⟨_, _⟩, ⟨_, _⟩, ⟨_, hd⟩, _, _, _, _⟩ := ofNanos_ranges t h
  have := daysIn_le (ofNanos t).month (ofNanos t).year
  unfold nameTimestamp
  rw [formatCivil_eq _ (by omega) (by omega) (by omega) (by omega)]
  rfl

theorem dateKey_lt (t : Nat) (h : t < tsBound) : dateKey t < 10 ^ 8 := by
  obtain ⟨⟨_, _⟩, ⟨_, _⟩, ⟨_, hd⟩, _⟩ := ofNanos_ranges t h
  have := daysIn_le (ofNanos t).month (ofNanos t).year
  obtain ⟨hy, hm, hd', _⟩ := ofNanos_fields t
  unfold dateKey dateNum
  rw [← hy, ← hm, ← hd']
  omega

theorem timeKey_lt (t : Nat) : timeKey t < 10 ^ 6 := by
  unfold timeKey secPerDay; simp only; omega

@[simp] theorem nameTimestamp_length (t : Nat) : (nameTimestamp t).length = 25 := by
  simp [nameTimestamp, formatCivil]

theorem tsLen_eq : tsLen = 25 := by decide

theorem getD_at_len (X : Bytes) (c : UInt8) (Y : Bytes) (n : Nat) (h : X.length = n) :
    (X ++ c :: Y).getD n 0 = c := by
  subst h
  induction X with
  | nil => rfl
  | cons x X ih => simp

theorem nameTimestamp_dash (t : Nat) : (nameTimestamp t).getD Gen.dotIndex 0 = dash := by
  have hs : nameTimestamp t = (decDigits 4 (ofNanos t).year ++ (decDigits 2 (ofNanos t).month ++
      (decDigits 2 (ofNanos t).day ++ (dash :: (decDigits 2 (ofNanos t).hour ++
      (decDigits 2 (ofNanos t).min ++ decDigits 2 (ofNanos t).sec)))))) ++ dash :: decDigits 9 (ofNanos t).nsec := by
    simp [nameTimestamp, formatCivil, List.append_assoc]
  rw [hs]
  exact getD_at_len _ dash _ 15 (by simp)

/-- every byte of a name timestamp is a digit or '-' -/
theorem nameTimestamp_bytes (t : Nat) : ∀ c ∈ nameTimestamp t, isDigit c = true ∨ c = dash := by
  intro c hc
  simp only [nameTimestamp, formatCivil, List.mem_append, List.mem_singleton] at hc
  rcases hc with ((((((((h | h) | h) | h) | h) | h) | h) | h) | h) <;>
    first | exact .inl (decDigits_all_digit _ _ c h) | exact .inr h

theorem parseFrac_digits (f : Bytes) (h : ∀ c ∈ f, isDigit c = true) : parseFrac f = digits f := by
  cases f with
  | nil => rfl
  | cons c ds =>
    have hc := (isDigit_iff c).1 (h c (by simp))
    have h1 : c ≠ 43 := by intro he; subst he; simp at hc
    have h2 : c ≠ 45 := by intro he; subst he; simp at hc
    simp [parseFrac, h1, h2]

theorem expect_cons (b : UInt8) (s : Bytes) : expect b (b :: s) = some s := by simp [expect]

/-- `time.Parse` reads a name timestamp back as the broken-down time it was formatted from -/
theorem timeParse_nameTimestamp (t : Nat) (h : t < tsBound) :
    timeParse (nameTimestamp t) = some (ofNanos t) := by
  obtain ⟨⟨_, _⟩, ⟨hm1, hm2⟩, ⟨hd1, hd2⟩, hh, hmi, hs, hn⟩ := ofNanos_ranges t h
  have := daysIn_le (ofNanos t).month (ofNanos t).year
  unfold nameTimestamp
  rw [formatCivil_shape]
  unfold timeParse
  rw [takeDigits_field 4 _ _ (by omega), Option.bind_some]
  rw [takeDigits_field 2 _ _ (by omega), Option.bind_some]
  rw [takeDigits_field 2 _ _ (by omega), Option.bind_some]
  rw [expect_cons, Option.bind_some]
  rw [takeDigits_field 2 _ _ (by omega), Option.bind_some]
  rw [takeDigits_field 2 _ _ (by omega), Option.bind_some]
  rw [takeDigits_field 2 _ _ (by omega), Option.bind_some]
  rw [expect_cons, Option.bind_some]
  rw [if_neg (by rw [decDigits_length]; exact fun h => h rfl)]
  rw [parseFrac_digits _ (decDigits_all_digit _ _), digits_decDigits 9 _ (by omega), Option.bind_some]
  dsimp only
  rw [if_neg (by omega), if_neg (by omega), if_neg (by omega)]

theorem digitsAux_lt (b : Bytes) (acc v : Nat) (h : digitsAux acc b = some v) :
    v < (acc + 1) * 10 ^ b.length := by
  induction b generalizing acc with
  | nil => simp [digitsAux] at h; subst h; simp
  | cons c cs ih =>
    rw [digitsAux] at h
    split at h
    · rename_i hd
      have hc := (isDigit_iff c).1 hd
      have h1 := ih _ h
      have h2 : acc * 10 + (c.toNat - 48) + 1 ≤ (acc + 1) * 10 := by omega
      have h3 := Nat.mul_le_mul_right (10 ^ cs.length) h2
      rw [List.length_cons, Nat.pow_succ, Nat.mul_comm (10 ^ cs.length) 10, ← Nat.mul_assoc]
      omega
    · cases h

theorem parseFrac_lt (f : Bytes) (v : Nat) (hl : f.length = 9) (h : parseFrac f = some v) :
    v < 1000000000 := by
  have key : ∀ (b : Bytes) (w : Nat), b.length ≤ 9 → digits b = some w → w < 1000000000 := by
    intro b w hb hw
    have h1 := digitsAux_lt b 0 w hw
    have h2 : 10 ^ b.length ≤ 10 ^ 9 := Nat.pow_le_pow_right (by decide) hb
    have e : (10 : Nat) ^ 9 = 1000000000 := by decide
    omega
  cases f with
  | nil => simp at hl
  | cons c ds =>
    have hds : ds.length ≤ 9 := by simp at hl; omega
    simp only [parseFrac] at h
    split at h
    · exact key ds v hds h
    · split at h
      · split at h
        · cases h; decide
        · cases h
      · exact key (c :: ds) v (by omega) h

/-- what an accepted timestamp string denotes is an existing date and time of day -/
theorem timeParse_valid (s : Bytes) (c : Civil) (h : timeParse s = some c) :
    (1 ≤ c.month ∧ c.month ≤ 12) ∧ (1 ≤ c.day ∧ c.day ≤ daysIn c.month c.year) ∧
    c.hour < 24 ∧ c.min < 60 ∧ c.sec < 60 ∧ c.nsec < 1000000000 := by
  unfold timeParse at h
  simp only [Option.bind_eq_some_iff] at h
  obtain ⟨y, _, mo, _, d, _, s1, _, hh, _, mi, _, se, _, s2, _, h⟩ := h
  split at h
  · cases h
  · rename_i hlen
    simp only [Option.bind_eq_some_iff] at h
    obtain ⟨ns, hns, h⟩ := h
    have hlen' : s2.length = 9 := Classical.byContradiction hlen
    have hnsb := parseFrac_lt s2 ns hlen' hns
    split at h
    · cases h
    · split at h
      · cases h
      · split at h
        · cases h
        · cases h
          dsimp only
          omega

/-! ### order -/

theorem dateKey_lt_iff (t1 t2 : Nat) (h1 : t1 < tsBound) (h2 : t2 < tsBound) :
    dateKey t1 < dateKey t2 ↔ t1 / nsPerSec / secPerDay < t2 / nsPerSec / secPerDay :=
  dateNum_lt_iff _ _ (days_lt t1 h1) (days_lt t2 h2)

theorem dateKey_eq_iff (t1 t2 : Nat) (h1 : t1 < tsBound) (h2 : t2 < tsBound) :
    dateKey t1 = dateKey t2 ↔ t1 / nsPerSec / secPerDay = t2 / nsPerSec / secPerDay := by
  have a := dateKey_lt_iff t1 t2 h1 h2
  have b := dateKey_lt_iff t2 t1 h2 h1
  constructor
  · intro h; omega
  · intro h; unfold dateKey; rw [h]

theorem timeKey_lt_iff (t1 t2 : Nat) :
    timeKey t1 < timeKey t2 ↔ t1 / nsPerSec % secPerDay < t2 / nsPerSec % secPerDay := by
  unfold timeKey secPerDay; simp only; omega

theorem timeKey_eq_iff (t1 t2 : Nat) :
    timeKey t1 = timeKey t2 ↔ t1 / nsPerSec % secPerDay = t2 / nsPerSec % secPerDay := by
  unfold timeKey secPerDay; simp only; omega

/-- byte order of name timestamps is the order of the timestamps -/
theorem nameTimestamp_lt_iff (t1 t2 : Nat) (h1 : t1 < tsBound) (h2 : t2 < tsBound) :
    nameTimestamp t1 < nameTimestamp t2 ↔ t1 < t2 := by
  rw [nameTimestamp_eq t1 h1, nameTimestamp_eq t2 h2,
    append_lt_append_iff _ _ _ _ (by simp),
    decDigits_lt_iff 8 _ _ (dateKey_lt t1 h1) (dateKey_lt t2 h2),
    decDigits_inj 8 _ _ (dateKey_lt t1 h1) (dateKey_lt t2 h2),
    List.cons_lt_cons_iff, append_lt_append_iff _ _ _ _ (by simp),
    decDigits_lt_iff 6 _ _ (timeKey_lt t1) (timeKey_lt t2),
    decDigits_inj 6 _ _ (timeKey_lt t1) (timeKey_lt t2),
    List.cons_lt_cons_iff,
    decDigits_lt_iff 9 _ _ (by unfold nsPerSec; omega) (by unfold nsPerSec; omega),
    dateKey_lt_iff t1 t2 h1 h2, dateKey_eq_iff t1 t2 h1 h2, timeKey_lt_iff, timeKey_eq_iff]
  have hd : ¬ dash < dash := u8_lt_irrefl _
  simp only [hd, false_or, true_and]
  unfold tsBound at h1 h2
  simp only [nsPerSec, secPerDay]
  omega

theorem nameTimestamp_inj (t1 t2 : Nat) (h1 : t1 < tsBound) (h2 : t2 < tsBound)
    (h : nameTimestamp t1 = nameTimestamp t2) : t1 = t2 := by
  have a := nameTimestamp_lt_iff t1 t2 h1 h2
  have b := nameTimestamp_lt_iff t2 t1 h2 h1
  rw [h] at a b
  have hi := bytes_lt_irrefl (nameTimestamp t2)
  have h3 : ¬ t1 < t2 := fun hh => hi (a.2 hh)
  have h4 : ¬ t2 < t1 := fun hh => hi (b.2 hh)
  omega

end Ls.Name
