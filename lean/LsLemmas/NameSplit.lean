import LsModel.Name
/- strings.Cut / strings.Split / Join on "__", prefixes, the safe alphabet, the sanitiser. -/
namespace Ls.Name
open Ls

/-- every byte is an ASCII letter, a digit or '-' (decidable) -/
def Safe (b : Bytes) : Prop := ∀ c ∈ b, isSafe c = true

instance (b : Bytes) : Decidable (Safe b) := by unfold Safe; infer_instance

theorem isSafe_ne_us (c : UInt8) (h : isSafe c = true) : c ≠ us := by
  intro he; subst he; revert h; decide

theorem isSafe_ne_dot (c : UInt8) (h : isSafe c = true) : c ≠ dot := by
  intro he; subst he; revert h; decide

theorem Safe.no_us {b : Bytes} (h : Safe b) : us ∉ b := fun hm => isSafe_ne_us _ (h _ hm) rfl
theorem Safe.no_dot {b : Bytes} (h : Safe b) : dot ∉ b := fun hm => isSafe_ne_dot _ (h _ hm) rfl

/-! ### cutDot -/

theorem cutDot_append (base ext : Bytes) (h : dot ∉ base) :
    cutDot (base ++ dot :: ext) = some (base, ext) := by
  induction base with
  | nil => simp [cutDot]
  | cons c base ih =>
    have hc : c ≠ dot := fun he => h (by simp [he])
    have hb : dot ∉ base := fun hm => h (by simp [hm])
    simp [cutDot, hc, ih hb]

theorem cutDot_none (s : Bytes) : cutDot s = none ↔ dot ∉ s := by
  induction s with
  | nil => simp [cutDot]
  | cons c s ih =>
    unfold cutDot
    by_cases hc : c = dot
    · simp [hc]
    · have hc' : ¬ dot = c := fun h => hc h.symm
      simp only [hc, if_false, List.mem_cons, hc', false_or]
      cases hcut : cutDot s with
      | none => simpa [hcut] using ih
      | some p => obtain ⟨a, b⟩ := p; simp [hcut] at ih ⊢; exact ih

/-- what a successful cut means: the first '.' splits the string -/
theorem cutDot_some (s base ext : Bytes) (h : cutDot s = some (base, ext)) :
    s = base ++ dot :: ext ∧ dot ∉ base := by
  induction s generalizing base with
  | nil => simp [cutDot] at h
  | cons c s ih =>
    unfold cutDot at h
    by_cases hc : c = dot
    · simp [hc] at h; obtain ⟨rfl, rfl⟩ := h; simp [hc]
    · simp only [hc, if_false] at h
      cases hcut : cutDot s with
      | none => simp [hcut] at h
      | some p =>
        obtain ⟨a, b⟩ := p
        simp [hcut] at h
        obtain ⟨rfl, rfl⟩ := h
        obtain ⟨h1, h2⟩ := ih a hcut
        refine ⟨by simp [h1], ?_⟩
        simp only [List.mem_cons, not_or]
        exact ⟨fun he => hc he.symm, h2⟩

/-! ### splitUU / joinUU -/

theorem splitUU_ne_nil (s : Bytes) : splitUU s ≠ [] := by
  match s with
  | [] => simp [splitUU]
  | [c] => simp [splitUU]
  | c :: d :: rest =>
    rw [splitUU]
    split
    · simp
    · cases splitUU (d :: rest) <;> simp [consHead]

theorem joinUU_consHead (c : UInt8) (l : List Bytes) (h : l ≠ []) :
    joinUU (consHead c l) = c :: joinUU l := by
  match l with
  | [] => exact absurd rfl h
  | [p] => simp [consHead, joinUU]
  | p :: q :: ps => simp [consHead, joinUU]

/-- joining the split pieces with "__" gives the string back -/
theorem joinUU_splitUU (s : Bytes) : joinUU (splitUU s) = s := by
  match s with
  | [] => simp [splitUU, joinUU]
  | [c] => simp [splitUU, joinUU]
  | c :: d :: rest =>
    rw [splitUU]
    split
    · rename_i h
      have ih := joinUU_splitUU rest
      cases hs : splitUU rest with
      | nil => exact absurd hs (splitUU_ne_nil rest)
      | cons q ps =>
        rw [hs] at ih
        simp [joinUU, uu, ih, h.1, h.2]
    · rw [joinUU_consHead _ _ (splitUU_ne_nil _), joinUU_splitUU (d :: rest)]
termination_by s.length

theorem splitUU_single (p : Bytes) (h : us ∉ p) : splitUU p = [p] := by
  match p with
  | [] => simp [splitUU]
  | [c] => simp [splitUU]
  | c :: d :: rest =>
    have hc : c ≠ us := fun he => h (by simp [he])
    have hr : us ∉ d :: rest := fun hm => h (List.mem_cons_of_mem _ hm)
    rw [splitUU, if_neg (fun hh => hc hh.1), splitUU_single (d :: rest) hr]
    rfl
termination_by p.length

theorem splitUU_append (p rest : Bytes) (h : us ∉ p) :
    splitUU (p ++ us :: us :: rest) = p :: splitUU rest := by
  match p with
  | [] => simp [splitUU]
  | [c] =>
    have hc : c ≠ us := fun he => h (by simp [he])
    have : splitUU (us :: us :: rest) = [] :: splitUU rest := by simp [splitUU]
    simp only [List.cons_append, List.nil_append]
    rw [splitUU, if_neg (fun hh => hc hh.1), this]
    rfl
  | c :: d :: p' =>
    have hc : c ≠ us := fun he => h (by simp [he])
    have hr : us ∉ d :: p' := fun hm => h (List.mem_cons_of_mem _ hm)
    have ih := splitUU_append (d :: p') rest hr
    simp only [List.cons_append] at ih ⊢
    rw [splitUU, if_neg (fun hh => hc hh.1), ih]
    rfl
termination_by p.length

/-- splitting a join of separator-free fields gives the fields back -/
theorem splitUU_joinUU (fields : List Bytes) (hne : fields ≠ []) (h : ∀ f ∈ fields, us ∉ f) :
    splitUU (joinUU fields) = fields := by
  match fields with
  | [] => exact absurd rfl hne
  | [p] => simpa [joinUU] using splitUU_single p (h p (by simp))
  | p :: q :: ps =>
    have ih := splitUU_joinUU (q :: ps) (by simp) (fun f hf => h f (List.mem_cons_of_mem _ hf))
    simp only [joinUU, uu, List.append_assoc, List.cons_append, List.nil_append]
    rw [splitUU_append p _ (h p (by simp)), ih]

theorem not_mem_joinUU (c : UInt8) (hc : c ≠ us) (fields : List Bytes) (h : ∀ f ∈ fields, c ∉ f) :
    c ∉ joinUU fields := by
  match fields with
  | [] => simp [joinUU]
  | [p] => simpa [joinUU] using h p (by simp)
  | p :: q :: ps =>
    have ih := not_mem_joinUU c hc (q :: ps) (fun f hf => h f (List.mem_cons_of_mem _ hf))
    have hp := h p (by simp)
    have hc' : ¬ c = us := hc
    simp only [joinUU, uu, List.mem_append, List.mem_cons, List.not_mem_nil, or_false, not_or]
    exact ⟨⟨hp, hc', hc'⟩, ih⟩

/-! ### prefixes -/

/-- two separator-free strings followed by the separator: one is a prefix of the other only if
    the strings are equal -/
theorem prefix_sep_eq (d d' x y : Bytes) (h : us ∉ d) (h' : us ∉ d')
    (hp : (d ++ us :: x) <+: (d' ++ us :: y)) : d = d' := by
  induction d generalizing d' with
  | nil =>
    cases d' with
    | nil => rfl
    | cons c d' =>
      simp only [List.nil_append, List.cons_append, List.cons_prefix_cons] at hp
      exact absurd (by simp [hp.1]) h'
  | cons c d ih =>
    cases d' with
    | nil =>
      simp only [List.nil_append, List.cons_append, List.cons_prefix_cons] at hp
      exact absurd (by simp [hp.1]) h
    | cons c' d' =>
      simp only [List.cons_append, List.cons_prefix_cons] at hp
      rw [hp.1, ih d' (fun hm => h (List.mem_cons_of_mem _ hm)) (fun hm => h' (List.mem_cons_of_mem _ hm)) hp.2]

theorem pairwise_last {α} (R : α → α → Prop) (l : List α) (hne : l ≠ []) (h : l.Pairwise R) :
    ∀ a ∈ l, a = l.getLast hne ∨ R a (l.getLast hne) := by
  match l with
  | [] => exact absurd rfl hne
  | [x] => intro a ha; simp at ha; exact .inl (by simp [ha])
  | x :: y :: r =>
    intro a ha
    rw [List.pairwise_cons] at h
    rw [List.getLast_cons (by simp : y :: r ≠ [])]
    rcases List.mem_cons.1 ha with rfl | ha
    · exact .inr (h.1 _ (List.getLast_mem _))
    · exact pairwise_last R (y :: r) (by simp) h.2 a ha

/-- the name is: common prefix, 25-byte timestamp, the rest -/
theorem buildName_split (db inst gen : Bytes) (extras : List Bytes) (t : Nat) (ext : Bytes) :
    buildName db inst gen extras t ext
      = (db ++ uu ++ (inst ++ uu)) ++ (nameTimestamp t ++ (uu ++ joinUU (gen :: extras) ++ [dot] ++ ext)) := by
  simp [buildName, buildNameTs, joinUU, List.append_assoc]

/-! ### the sanitiser -/

theorem sanitizeAux_safe (k : Nat) (s : Bytes) : Safe (sanitizeAux k s) := by
  induction s generalizing k with
  | nil => intro c hc; simp [sanitizeAux] at hc
  | cons b rest ih =>
    cases k with
    | succ k => simpa [sanitizeAux] using ih k
    | zero =>
      intro c hc
      unfold sanitizeAux at hc
      split at hc
      · simp only [List.mem_cons] at hc
        rcases hc with rfl | hc
        · split
          · assumption
          · decide
        · exact ih 0 c hc
      · simp only [List.mem_cons] at hc
        rcases hc with rfl | hc
        · decide
        · exact ih _ c hc

theorem isSafe_lt_128 (b : UInt8) (h : isSafe b = true) : b < 0x80 := by
  simp only [isSafe, Bool.or_eq_true, Bool.and_eq_true, decide_eq_true_eq, beq_iff_eq, dash,
    UInt8.le_iff_toNat_le] at h
  rw [UInt8.lt_iff_toNat_lt]
  rcases h with ((h | h) | h) | h
  · have := h.2; simp at this ⊢; omega
  · have := h.2; simp at this ⊢; omega
  · have := h.2; simp at this ⊢; omega
  · subst h; decide

theorem sanitizeAux_id (s : Bytes) (h : Safe s) : sanitizeAux 0 s = s := by
  induction s with
  | nil => rfl
  | cons b rest ih =>
    have hb := h b (by simp)
    rw [sanitizeAux, if_pos (isSafe_lt_128 b hb), if_pos hb, ih (fun c hc => h c (List.mem_cons_of_mem _ hc))]

theorem sanitizeAux_ne_nil (b : UInt8) (rest : Bytes) : sanitizeAux 0 (b :: rest) ≠ [] := by
  rw [sanitizeAux]; split <;> simp

theorem sanitizeAux_length_le (k : Nat) (s : Bytes) : (sanitizeAux k s).length ≤ s.length := by
  induction s generalizing k with
  | nil => simp [sanitizeAux]
  | cons b rest ih =>
    cases k with
    | succ k => have := ih k; simp only [sanitizeAux, List.length_cons]; omega
    | zero =>
      rw [sanitizeAux]
      split
      · have := ih 0; simp only [List.length_cons]; omega
      · have := ih (runeLen b rest - 1); simp only [List.length_cons]; omega

end Ls.Name
