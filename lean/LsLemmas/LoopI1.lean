import LsLemmas.LoopWitness
import LsLemmas.LoopNative
/- the statement I1 of C03 and its derivation from the loop invariants (helper of C03_I1_partial) -/
namespace Ls.Loop
open Ls Ls.Lmdb Ls.Strategy Ls.Txn Ls.SyncLoop

/-- I1: every application transaction not yet captured has an id above `lastSynced` (and at most
    `lastTxn`) — except between `beforeInfo`'s decision to send and `SendOnce`'s capture
    (`pc = beforeSend`, where `lastSynced` has just been set to `lastTxn` and the capture follows
    in the next segment without a `LoadOnce` in between), and after the loop has ended. -/
def I1 (g : G) : Prop :=
  g.st.pc = .beforeSend ∨ (∃ e, g.st.pc = .exited e) ∨
    ∀ p ∈ g.gh.uncap, g.st.lastSynced < p ∧ p ≤ g.st.env.lastTxn

theorem i1_of_inv {c : LoopCfg} {g : G} (h0 : Inv0 c g) (h1 : Inv1 c g) : I1 g := by
  unfold I1
  unfold Inv1 at h1
  have hle := h0.all_le.1
  have hp0 := h0.pcinv
  revert h1 hp0
  cases hpc : g.st.pc <;> simp only [PcInv1, PcInv0] <;> intro h1 hp0
  · exact Or.inr (Or.inr fun p hp => ⟨h1.1 p hp, hle p hp⟩)
  · exact Or.inr (Or.inr fun p hp => ⟨h1.1 p hp, hle p hp⟩)
  · exact Or.inr (Or.inr fun p hp => ⟨h1.1.1 p hp, hle p hp⟩)
  · exact Or.inr (Or.inr fun p hp => ⟨h1.1 p hp, hle p hp⟩)
  · exact Or.inl trivial
  · exact Or.inr (Or.inr fun p hp => ⟨Nat.lt_of_le_of_lt hp0.2.1 (h1.1.1 p hp), hle p hp⟩)
  · exact Or.inr (Or.inr fun p hp => ⟨Nat.lt_of_le_of_lt hp0.2.1 (h1.1.1 p hp), hle p hp⟩)
  · exact Or.inr (Or.inr fun p hp => ⟨h1.1.1 p hp, hle p hp⟩)
  · exact Or.inr (Or.inl ⟨_, rfl⟩)

end Ls.Loop
