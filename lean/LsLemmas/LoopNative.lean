import LsLemmas.LoopPoll
/-
  Native schema: which segments of the loop write the LMDB at all.
-/
namespace Ls.Loop
open Ls Ls.Txn Ls.SyncLoop

/-- **Native schema: the only Lightning Stream transaction that writes is `LoadOnce`.** A segment
    of a native-schema instance leaves the environment as it is (the start-up capture does not
    exist, `SendOnce` uses a read transaction), or it polled (`prePoll`) and the environment is
    the result of one successful `loadOnce` (cut-off 0) of a blob of the bucket. -/
theorem go_env_native (c : LoopCfg) (hn : c.txn.native = true) (b : Bucket) (s : St) (i : In) :
    (go c b s i).1.env = s.env ∨
    ∃ s1 n blob r, prePoll s = some (s1, n) ∧ s1.env = s.env ∧ blob ∈ b ∧
      loadOnce c.txn s.env blob.snap s1.lastSynced i.now 0 = .ok r ∧ (go c b s i).1.env = r.env := by
  rw [(go_pc c b s i).2.2.1]
  have hsend : ∀ (s0 : St) who, s0.env = s.env → (beginSend c s0 who i.now).env = s.env := by
    intro s0 who he
    have hout := beginSend_out c s0 who i.now
    generalize beginSend c s0 who i.now = s' at hout ⊢
    cases hout with
    | failed e h => exact he
    | dumped r hr => simp only; rw [(sendOnce_facts hr).1 hn, he]
  have hload : ∀ (s1 : St) (n : Nat) (s' : St), s1.env = s.env → prePoll s = some (s1, n) →
      PollOut c b s1 i n s' →
      s'.env = s.env ∨ ∃ s1 n blob r, prePoll s = some (s1, n) ∧ s1.env = s.env ∧ blob ∈ b ∧
        loadOnce c.txn s.env blob.snap s1.lastSynced i.now 0 = .ok r ∧ s'.env = r.env := by
    intro s1 n s' he hpp hp
    cases hp with
    | none hn => exact Or.inl he
    | unknown inst ts hn hb => exact Or.inl he
    | failed inst ts blob e hn hb hl => exact Or.inl he
    | loaded inst ts blob r hn' hb hl =>
      right
      refine ⟨s1, n, blob, r, hpp, he, ?_, by rw [← he]; exact hl, rfl⟩
      unfold findBlob at hb
      exact List.mem_of_find?_eq_some hb
  cases hpc : s.pc with
  | boot =>
    left
    obtain ⟨_, hb⟩ := goRaw_boot (c := c) (b := b) (i := i) hpc
    generalize (goRaw c b s i).1 = s' at hb ⊢
    cases hb with
    | captureFailed e s0 e1 e2 e3 => exact e1
    | noSend s0 e1 e2 e3 e4 e5 e6 e7 => exact e6 hn
    | send s0 e1 e2 e3 e4 e5 e6 e7 => exact hsend s0 _ (e5 hn)
  | top =>
    rw [goRaw_top hpc]
    exact hload s 0 _ rfl (by unfold prePoll; rw [hpc]) (poll_out c b s i 0)
  | loadAfterTxn t lc inst ts n =>
    rw [goRaw_loadAfterTxn hpc]
    obtain ⟨d1, _⟩ := loadDone_facts s t lc inst ts
    by_cases hbr : lc = true ∧ n > maxConsecutive
    · rw [if_pos hbr]; exact Or.inl d1
    · rw [if_neg hbr]
      exact hload _ n _ d1 (by unfold prePoll; rw [hpc]; simp only [if_neg hbr]) (poll_out c b _ i n)
  | beforeInfo =>
    left
    rw [goRaw_beforeInfo hpc]
    split
    · split
      · exact (afterSend_facts c s).1
      · split
        · rfl
        · exact (afterSend_facts c _).1
    · exact (afterSend_facts c s).1
  | beforeSend => left; rw [goRaw_beforeSend hpc]; exact hsend s _ rfl
  | sendAfterTxn who t ts snap =>
    left
    rw [goRaw_sendAfterTxn hpc]
    split
    · exact (sendReturned_facts c s who _).1
    · split <;> rfl
  | sendStored who t =>
    left; rw [goRaw_sendStored hpc]; exact (sendReturned_facts c _ who t).1
  | sleep => left; rw [goRaw_sleep hpc]
  | exited e => left; rw [goRaw_exited hpc]

end Ls.Loop
