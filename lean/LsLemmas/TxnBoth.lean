import LsLemmas.TxnAbs
import LsLemmas.TxnMirrorWF
import LsLemmas.TxnMirrorDup
/-
  The two families of transaction lemma files (TxnDbis/TxnSend/TxnLoad/TxnAbs and TxnMirror*)
  can be imported together: the declarations both used to define live in LsLemmas/TxnBase.lean,
  the remaining family-B variants carry the suffix `Mirror`. The renamed variants say the same
  as their family-A namesakes.
-/
namespace Ls.Txn
open Ls Ls.Lmdb

/-- family B's full-list form of the shadow prefix is family A's `syncPrefix ++ …` form -/
example : shadowPrefix = [0x5f, 0x73, 0x79, 0x6e, 0x63, 0x5f, 0x73, 0x68, 0x61, 0x64, 0x6f, 0x77, 0x5f] :=
  shadowPrefix_eqMirror

/-- the two descriptions of `findDbi` after `setKvs` agree -/
example (dbis : List Dbi) (n : Bytes) (kvs : KVs) (m : Bytes) :
    (findDbi dbis m).map (fun d => if d.name = n then { d with kvs := kvs } else d) =
      if m = n then (findDbi dbis n).map (fun d => { d with kvs := kvs }) else findDbi dbis m := by
  rw [← findDbi_setKvs, findDbi_setKvsMirror]

example {w : W} {n : Bytes} {d : Dbi} (fl : Nat) (h : findDbi w.dbis n = some d) :
    openCreate w n fl = w := openCreate_of_some h

example {w : W} {n : Bytes} {d : Dbi} (fl : Nat) (h : findDbi w.dbis n = some d) :
    openCreate w n fl = w := openCreate_of_someMirror fl h

/-- both families' fold presentations of the mirror passes are about the same step functions
    (`m2sStep`, `s2mStep` of LsLemmas/TxnBase.lean) -/
example (c : Cfg) (w : W) (txnID now cutoff : Nat) :
    (dbiNames w).foldlM (m2sStep c txnID now cutoff) w = (dbiNames w).foldlM (m2sStep c txnID now cutoff) w :=
  (mainToShadow_eq_fold c w txnID now cutoff).symm.trans (mainToShadow_eq c w txnID now cutoff)

example (c : Cfg) (w : W) :
    (dbiNames w).foldlM (s2mStep c) w = (dbiNames w).foldlM (s2mStep c) w :=
  (shadowToMain_eq_fold c w).symm.trans (shadowToMain_eq c w)

/-- the two name-order predicates agree: family A's `SortedNames` gives family B's `NamesSorted` -/
example (dbis : List Dbi) (h : SortedNames dbis) : NamesSorted dbis := List.pairwise_map.mp h

end Ls.Txn
