import LsLemmas.Header
namespace Ls.Merge
open Ls Ls.Header

theorem addHeader_ts_norm (c : Cfg) (v : Bytes) (ts : Nat) (fl : UInt8) :
    addHeader c v (if ts = 0 then c.defTs else ts) fl = addHeader c v ts fl := by
  unfold addHeader
  by_cases h : ts = 0
  · subst h; by_cases h2 : c.defTs = 0 <;> simp [h2]
  · simp [h]

/-- what `Merge` can return: nothing new is invented — the stored bytes, or the entry with a header -/
theorem merge_result (c : Cfg) (e : KV) (old r : Bytes) (h : merge c e old = .ok (some r)) :
    r = old ∨ r = addHeader c e.val e.ts (maskedFlags e) := by
  unfold merge at h
  split at h
  · split at h
    · cases h
    · injection h with h; injection h with h; exact Or.inr h.symm
  · split at h
    · cases h
    · simp only at h
      rw [← addHeader_ts_norm]
      repeat' split at h
      all_goals (injection h with h; injection h with h; first | exact Or.inl h.symm | (right; subst h; simp [*]))

theorem clean_result (c : Cfg) (old r : Bytes) (h : clean c old = .ok (some r)) :
    r = old ∨ r = addHeader c [] 0 (UInt8.ofNat Gen.flagDeleted) := by
  unfold clean at h
  split at h
  · cases h
  · split at h
    all_goals (injection h with h; injection h with h; first | exact Or.inl h.symm | exact Or.inr h.symm)

/-- the flags `addHeader` actually writes -/
def effFlags (c : Cfg) (v : Bytes) (fl : UInt8) : UInt8 :=
  if v.length = 0 ∧ c.fv < 2 then fl ||| UInt8.ofNat Gen.flagDeleted else fl

/-- the bytes `addHeader` produces, spelled out -/
theorem addHeader_eq (c : Cfg) (v : Bytes) (ts : Nat) (fl : UInt8) :
    addHeader c v ts fl =
      be64 (if ts = 0 then c.defTs else ts) ++ be64 c.txn
        ++ [0, effFlags c v fl, 0, 0, 0, 0, 0, if c.pad then 1 else 0]
        ++ (if c.pad then [0, 0, 0, 0, 0, 0, 0, 0] else [])
        ++ (if isDeleted (effFlags c v fl) then [] else v) := by
  obtain ⟨a0, a1, a2, a3, a4, a5, a6, a7, ha⟩ :=
    list_len8 (be64 (if ts = 0 then c.defTs else ts)) (be64_length _)
  obtain ⟨b0, b1, b2, b3, b4, b5, b6, b7, hb⟩ := list_len8 (be64 c.txn) (be64_length _)
  simp only [addHeader, effFlags, putBasic, ha, hb, Gen.numExtraOffsetLow]
  cases c.pad <;> simp

theorem effFlags_in_mask (c : Cfg) (v : Bytes) (fl : UInt8)
    (hfl : fl &&& ~~~ (UInt8.ofNat Gen.flagSyncMask) = 0) :
    effFlags c v fl &&& ~~~ (UInt8.ofNat Gen.flagSyncMask) = 0 := by
  unfold effFlags; split
  · exact mask_or_deleted fl hfl
  · exact hfl

end Ls.Merge
