import LsLemmas.TxnMirrorCreate
import LsLemmas.TxnMirrorIdem
/-
  `SendOnce` as a capture; preservation of the root DBI's name order by every pass.
-/
set_option linter.unusedSimpArgs false
namespace Ls.Txn
open Ls Ls.Lmdb Ls.Strategy Ls.Merge

/-- `SendOnce` in shadow mode is the capture pass, committed; in native mode it writes nothing -/
theorem sendOnce_env {c : Cfg} {e : Env} {now cutoff : Nat} {r : SendRes}
    (h : sendOnce c e now cutoff = .ok r) :
    (c.native = true → r.env = e) ∧
    (c.native = false → ∃ w', mainToShadow c ⟨e.dbis, false⟩ (e.lastTxn + 1) now cutoff = .ok w' ∧
      r.env = commit e w') := by
  unfold sendOnce at h
  cases hn : c.native with
  | true =>
    refine ⟨fun _ => ?_, (fun h0 => by cases h0)⟩
    simp only [hn, if_true, bind, Except.bind, pure, Except.pure] at h
    cases hro : c.receiveOnly with
    | true =>
      simp only [hro, if_true] at h
      injection h with h; subst h; rfl
    | false =>
      simp only [hro, Bool.false_eq_true, if_false] at h
      split at h
      · cases h
      · injection h with h; subst h; rfl
  | false =>
    refine ⟨(fun h0 => by cases h0), fun _ => ?_⟩
    simp only [hn, Bool.false_eq_true, if_false, bind, Except.bind, pure, Except.pure] at h
    cases h1 : mainToShadow c ⟨e.dbis, false⟩ (e.lastTxn + 1) now cutoff with
    | error x => simp [h1] at h
    | ok w' =>
      simp only [h1] at h
      cases hro : c.receiveOnly with
      | true =>
        simp only [hro, if_true] at h
        injection h with h; subst h; exact ⟨w', rfl, rfl⟩
      | false =>
        simp only [hro, Bool.false_eq_true, if_false] at h
        split at h
        · cases h
        · injection h with h; subst h; exact ⟨w', rfl, rfl⟩

/-- DBI names strictly increasing in the root DBI's byte-wise order -/
def NamesSorted (dbis : List Dbi) : Prop := dbis.Pairwise (fun a b => bcmp a.name b.name < 0)

theorem NamesSorted.distinct {dbis : List Dbi} (h : NamesSorted dbis) : DistinctNames dbis := by
  unfold NamesSorted at h
  unfold DistinctNames
  exact h.imp (fun {a b} hab he => by rw [he] at hab; have := bcmp_eq.mpr (rfl : b.name = b.name); omega)

theorem namesSorted_setKvs {dbis : List Dbi} (h : NamesSorted dbis) (n : Bytes) (kvs : KVs) :
    NamesSorted (setKvs dbis n kvs) := by
  unfold NamesSorted at *
  have : (dbis.map (·.name)).Pairwise (fun a b => bcmp a b < 0) := List.pairwise_map.mpr h
  rw [← setKvs_names dbis n kvs] at this
  exact List.pairwise_map.mp this

theorem namesSorted_insertDbi {dbis : List Dbi} (h : NamesSorted dbis) (d : Dbi)
    (hn : findDbi dbis d.name = none) : NamesSorted (insertDbi dbis d) := by
  induction dbis with
  | nil => exact List.pairwise_singleton _ _
  | cons x rest ih =>
    obtain ⟨h1, h2⟩ := List.pairwise_cons.mp h
    rw [findDbi_cons] at hn
    split at hn
    · cases hn
    · rename_i hx
      unfold insertDbi
      split
      · rename_i hlt
        refine List.pairwise_cons.mpr ⟨?_, h⟩
        intro y hy
        rcases List.mem_cons.mp hy with hy | hy
        · subst hy; exact hlt
        · exact bcmp_lt.mpr (List.lt_trans (bcmp_lt.mp hlt) (bcmp_lt.mp (h1 y hy)))
      · rename_i hnlt
        refine List.pairwise_cons.mpr ⟨?_, ih h2 hn⟩
        intro y hy
        rcases (insertDbi_mem _ _ _).mp hy with hy | hy
        · subst hy
          rcases bytes_trichotomy x.name y.name with h' | h' | h'
          · exact bcmp_lt.mpr h'
          · exact absurd h' hx
          · exact absurd (bcmp_lt.mpr h') hnlt
        · exact h1 y hy

theorem namesSorted_openCreate {w : W} (h : NamesSorted w.dbis) (n : Bytes) (fl : Nat) :
    NamesSorted (openCreate w n fl).dbis := by
  unfold openCreate
  split
  · exact h
  · rename_i hn; exact namesSorted_insertDbi h _ hn

theorem m2sStep_namesSorted {c : Cfg} {txnID now cutoff : Nat} {w w1 : W} {m : Bytes}
    (h : m2sStep c txnID now cutoff w m = .ok w1) (hd : NamesSorted w.dbis) : NamesSorted w1.dbis := by
  cases hp : isPrivate m with
  | true => rw [m2sStep_private hp] at h; injection h with h; subst h; exact hd
  | false =>
    obtain ⟨d, entries, s, _, _, _, _, hw⟩ := m2sStep_ok hp h
    subst hw
    exact namesSorted_setKvs (namesSorted_openCreate hd _ _) _ _

theorem mainToShadow_namesSorted {c : Cfg} {txnID now cutoff : Nat} {w w' : W}
    (h : mainToShadow c w txnID now cutoff = .ok w') (hd : NamesSorted w.dbis) : NamesSorted w'.dbis := by
  rw [mainToShadow_eq] at h
  exact foldlM_preserves (m2sStep c txnID now cutoff) (fun x => NamesSorted x.dbis) _
    (fun a _ b b1 hb hs => m2sStep_namesSorted hs hb) w w' hd h

theorem shadowToMain_namesSorted {c : Cfg} {w w' : W}
    (h : shadowToMain c w = .ok w') (hd : NamesSorted w.dbis) : NamesSorted w'.dbis := by
  rw [shadowToMain_eq] at h
  refine foldlM_preserves (s2mStep c) (fun x => NamesSorted x.dbis) _ ?_ w w' hd h
  intro m _ b b1 hb hs
  cases hp : isPrivate m with
  | true => rw [s2mStep_private hp] at hs; injection hs with hs; subst hs; exact hb
  | false =>
    obtain ⟨kvs, dirty, hw⟩ := s2mStep_shape hs hp
    subst hw
    exact namesSorted_setKvs hb _ _

theorem loadDbi_namesSorted {c : Cfg} {snap : Snap} {txnID cutoff : Nat} {w w' : W} {m : DbiMsg}
    (h : loadDbi c snap txnID cutoff w m = .ok w') (hd : NamesSorted w.dbis) : NamesSorted w'.dbis := by
  cases hpm : isPrivate m.name with
  | true => rw [loadDbi_private hpm] at h; injection h with h; subst h; exact hd
  | false =>
    cases hn : c.native with
    | false =>
      obtain ⟨_, _, td, s, _, _, hw'⟩ := loadDbi_shadow_ok hn hpm h
      subst hw'
      exact namesSorted_setKvs (namesSorted_openCreate (namesSorted_openCreate hd _ _) _ _) _ _
    | true =>
      obtain ⟨_, _, td, s, _, _, hw'⟩ := loadDbi_native_ok hn hpm h
      subst hw'
      exact namesSorted_setKvs (namesSorted_openCreate hd _ _) _ _


theorem loadFold_namesSorted {c : Cfg} {snap : Snap} {txnID cutoff : Nat} {w w' : W} {msgs : List DbiMsg}
    (h : msgs.foldlM (loadDbi c snap txnID cutoff) w = .ok w') (hd : NamesSorted w.dbis) :
    NamesSorted w'.dbis :=
  foldlM_preserves _ (fun x => NamesSorted x.dbis) msgs
    (fun _ _ _ _ hb hs => loadDbi_namesSorted hs hb) w w' hd h

/-- every pass of a `LoadOnce` keeps the DBI names distinct and in root order -/
theorem loadOnce_namesSorted {c : Cfg} {e : Env} {snap : Snap} {lastSynced now cutoff : Nat} {r : LoadRes}
    (h : loadOnce c e snap lastSynced now cutoff = .ok r) (hd : NamesSorted e.dbis) :
    NamesSorted r.env.dbis := by
  cases hn : c.native with
  | true =>
    obtain ⟨w1, hf, henv, _, _⟩ := loadOnce_native_ok hn h
    rw [henv]; exact loadFold_namesSorted hf hd
  | false =>
    obtain ⟨w1, w2, w3, h1, h2, h3, henv, _, _⟩ := loadOnce_shadow_ok hn h
    rw [henv]
    refine shadowToMain_namesSorted h3 (loadFold_namesSorted h2 ?_)
    by_cases hl : lastSynced < e.lastTxn
    · rw [if_pos hl] at h1; exact mainToShadow_namesSorted h1 hd
    · rw [if_neg hl] at h1; subst h1; exact hd

end Ls.Txn
