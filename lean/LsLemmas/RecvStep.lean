import LsLemmas.RecvBase
/-
  Receiver model: the notification loop of `RunOnce` characterised per instance; inversion of
  `step` for every step kind; runs. Core Lean only.
-/
namespace Ls.Recv
variable {ι : Type} [DecidableEq ι]

/-! ### downloader table -/

theorem getDl_setDl (s : St ι) (d d' : ι) (x : Dl) :
    getDl (setDl s d x) d' = if d' = d then some x else getDl s d' := by
  simp [getDl, setDl, AL.get_set]

/-- the downloader after `getDownloader` + `NotifyNewSnapshot` -/
def sigDl : Option Dl → Dl
  | none => { last := none, signal := true, pc := .idle }
  | some x => { x with signal := true }

@[simp] theorem sigDl_pc_some (x : Dl) : (sigDl (some x)).pc = x.pc := rfl
@[simp] theorem sigDl_last_some (x : Dl) : (sigDl (some x)).last = x.last := rfl
@[simp] theorem sigDl_signal (o : Option Dl) : (sigDl o).signal = true := by cases o <;> rfl
@[simp] theorem sigDl_none : sigDl none = { last := none, signal := true, pc := .idle } := rfl

theorem signalDl_eq (dls : List (ι × Dl)) (d : ι) : signalDl dls d = AL.set dls d (sigDl (AL.get dls d)) := by
  unfold signalDl; cases AL.get dls d <;> rfl

theorem get_signalDl (dls : List (ι × Dl)) (d d' : ι) :
    AL.get (signalDl dls d) d' = if d' = d then some (sigDl (AL.get dls d)) else AL.get dls d' := by
  rw [signalDl_eq, AL.get_set]

theorem count_set_same {α : Type} (p : α → Bool) {l : List (ι × α)} {k : ι} {v v' : α}
    (h : AL.get l k = some v) (hp : p v' = p v) : AL.count p (AL.set l k v') = AL.count p l := by
  have := AL.count_set_some p v' h
  rw [hp] at this
  omega

theorem count_signalDl (p : Pc → Bool) (hp : p .idle = false) (dls : List (ι × Dl)) (d : ι) :
    AL.count (fun x => p x.pc) (signalDl dls d) = AL.count (fun x => p x.pc) dls := by
  rw [signalDl_eq]
  cases h : AL.get dls d with
  | none => rw [AL.count_set_none _ _ h]; simp [hp]
  | some x => exact count_set_same _ h rfl

theorem nodup_signalDl {dls : List (ι × Dl)} (h : (dls.map Prod.fst).Nodup) (d : ι) :
    ((signalDl dls d).map Prod.fst).Nodup := by
  rw [signalDl_eq]; exact AL.nodup_set h _ _

/-! ### the notification loop -/

/-- iteration `d` of the loop notifies -/
def Notif (inc : Bool) (s : St ι) (d : ι) : Prop :=
  ∃ t, AL.get s.lastSeen d = some t ∧ AL.get s.lastNotified d ≠ some t ∧ ¬(inc = false ∧ d = s.own)

theorem notifyOne_of_notif {inc : Bool} {s : St ι} {d : ι} {t : Nat} (h1 : AL.get s.lastSeen d = some t)
    (h2 : AL.get s.lastNotified d ≠ some t) (h3 : ¬(inc = false ∧ d = s.own)) :
    notifyOne inc s d = { s with dls := signalDl s.dls d, lastNotified := AL.set s.lastNotified d t } := by
  simp only [notifyOne, h1]
  rw [if_neg h2, if_neg h3]

theorem notifyOne_of_not {inc : Bool} {s : St ι} {d : ι} (h : ¬Notif inc s d) : notifyOne inc s d = s := by
  unfold notifyOne
  cases h1 : AL.get s.lastSeen d with
  | none => rfl
  | some t =>
    simp only
    by_cases h2 : AL.get s.lastNotified d = some t
    · rw [if_pos h2]
    · by_cases h3 : inc = false ∧ d = s.own
      · rw [if_neg h2, if_pos h3]
      · exact absurd ⟨t, h1, h2, h3⟩ h

theorem notifyOne_frame (inc : Bool) (s : St ι) (d : ι) :
    notifyOne inc s d = { s with dls := (notifyOne inc s d).dls, lastNotified := (notifyOne inc s d).lastNotified } := by
  by_cases h : Notif inc s d
  · obtain ⟨t, h1, h2, h3⟩ := h
    rw [notifyOne_of_notif h1 h2 h3]
  · rw [notifyOne_of_not h]

theorem notifyFold_frame (inc : Bool) (ks : List ι) (s : St ι) :
    ks.foldl (notifyOne inc) s =
      { s with dls := (ks.foldl (notifyOne inc) s).dls, lastNotified := (ks.foldl (notifyOne inc) s).lastNotified } := by
  induction ks generalizing s with
  | nil => rfl
  | cons k r ih =>
    simp only [List.foldl_cons]
    have h1 := ih (notifyOne inc s k)
    have h2 := notifyOne_frame inc s k
    generalize notifyOne inc s k = s2 at *
    generalize List.foldl (notifyOne inc) s2 r = s3 at *
    rw [h1, h2]

theorem notifyFold_spec (inc : Bool) (ks : List ι) (s : St ι) (d : ι) :
    (d ∈ ks ∧ Notif inc s d →
      AL.get (ks.foldl (notifyOne inc) s).lastNotified d = AL.get s.lastSeen d ∧
      getDl (ks.foldl (notifyOne inc) s) d = some (sigDl (getDl s d))) ∧
    (¬(d ∈ ks ∧ Notif inc s d) →
      AL.get (ks.foldl (notifyOne inc) s).lastNotified d = AL.get s.lastNotified d ∧
      getDl (ks.foldl (notifyOne inc) s) d = getDl s d) := by
  induction ks generalizing s with
  | nil => simp
  | cons k r ih =>
    simp only [List.foldl_cons]
    have ih' := ih (notifyOne inc s k)
    by_cases hk : Notif inc s k
    · obtain ⟨t, h1, h2, h3⟩ := hk
      have e := notifyOne_of_notif h1 h2 h3
      rw [e] at ih' ⊢
      by_cases hd : d = k
      · subst hd
        have hn : ¬Notif inc ({ s with dls := signalDl s.dls d, lastNotified := AL.set s.lastNotified d t } : St ι) d := by
          intro ⟨t', a, b, _⟩
          simp only at a b
          rw [h1] at a; cases a
          exact b (AL.get_set_self _ _ _)
        obtain ⟨a, b⟩ := ih'.2 (fun h => hn h.2)
        constructor
        · intro _
          refine ⟨?_, ?_⟩
          · rw [a]; simp only [AL.get_set_self, h1]
          · rw [b]; simp only [getDl, get_signalDl, if_true]
        · intro h; exact absurd ⟨List.mem_cons_self, t, h1, h2, h3⟩ h
      · have hN : Notif inc ({ s with dls := signalDl s.dls k, lastNotified := AL.set s.lastNotified k t } : St ι) d ↔ Notif inc s d := by
          simp only [Notif, AL.get_set_ne _ _ hd]
        have hm : d ∈ k :: r ↔ d ∈ r := by simp [hd]
        rw [hm, ← hN]
        simp only [getDl, AL.get_set_ne _ _ hd, get_signalDl, hd, if_false] at ih'
        exact ih'
    · rw [notifyOne_of_not hk] at ih' ⊢
      by_cases hd : d = k
      · subst hd
        constructor
        · intro h; exact absurd h.2 hk
        · intro _; exact ih'.2 (fun h => hk h.2)
      · have hm : d ∈ k :: r ↔ d ∈ r := by simp [hd]
        rw [hm]; exact ih'

theorem notifyFold_count (inc : Bool) (p : Pc → Bool) (hp : p .idle = false) (ks : List ι) (s : St ι) :
    AL.count (fun x => p x.pc) (ks.foldl (notifyOne inc) s).dls = AL.count (fun x => p x.pc) s.dls := by
  induction ks generalizing s with
  | nil => rfl
  | cons k r ih =>
    simp only [List.foldl_cons]
    rw [ih]
    by_cases hk : Notif inc s k
    · obtain ⟨t, h1, h2, h3⟩ := hk
      rw [notifyOne_of_notif h1 h2 h3]
      exact count_signalDl p hp _ _
    · rw [notifyOne_of_not hk]

theorem notifyFold_nodup (inc : Bool) (ks : List ι) (s : St ι) (h : (s.dls.map Prod.fst).Nodup) :
    ((ks.foldl (notifyOne inc) s).dls.map Prod.fst).Nodup := by
  induction ks generalizing s with
  | nil => exact h
  | cons k r ih =>
    simp only [List.foldl_cons]
    apply ih
    by_cases hk : Notif inc s k
    · obtain ⟨t, h1, h2, h3⟩ := hk
      rw [notifyOne_of_notif h1 h2 h3]
      exact nodup_signalDl h _
    · rw [notifyOne_of_not hk]; exact h

/-! ### `runOnce` -/

/-- the names a listing of `s` does not ignore -/
def listedNames (s : St ι) : List (ι × Nat) := (s.bucket.map Blob.name).filter (fun n => n ∉ ignoredNow s)

/-- `lastSeenByInstance` after a listing of `s` -/
def seenOf (s : St ι) : List (ι × Nat) := mkLastSeen (listedNames s)

theorem mem_ignoredNow {s : St ι} {n : ι × Nat} : n ∈ ignoredNow s ↔ n ∈ s.ignored ∨ n ∈ s.corrupt := by
  unfold ignoredNow
  simp only [List.mem_append, List.mem_filter, decide_eq_true_eq]
  constructor
  · rintro (h | h)
    · exact Or.inl h
    · exact Or.inr h.1
  · rintro (h | h)
    · exact Or.inl h
    · by_cases hi : n ∈ s.ignored
      · exact Or.inl hi
      · exact Or.inr ⟨h, hi⟩

theorem mem_listedNames {s : St ι} {n : ι × Nat} :
    n ∈ listedNames s ↔ (∃ b ∈ s.bucket, b.name = n) ∧ n ∉ ignoredNow s := by
  simp [listedNames]

/-- iteration `d` of the notification loop of a listing of `s` notifies -/
def NotifR (inc : Bool) (s : St ι) (d : ι) : Prop :=
  ∃ t, AL.get (seenOf s) d = some t ∧ AL.get s.lastNotified d ≠ some t ∧ ¬(inc = false ∧ d = s.own)

theorem runOnce_frame (inc : Bool) (s : St ι) :
    runOnce inc s = { s with ignored := ignoredNow s, lastSeen := seenOf s,
                             hist := (s.bucket, ignoredNow s) :: s.hist,
                             dls := (runOnce inc s).dls, lastNotified := (runOnce inc s).lastNotified } := by
  unfold runOnce
  simp only
  rw [notifyFold_frame]
  rfl

theorem runOnce_spec (inc : Bool) (s : St ι) (d : ι) :
    (NotifR inc s d →
      AL.get (runOnce inc s).lastNotified d = AL.get (seenOf s) d ∧
      getDl (runOnce inc s) d = some (sigDl (getDl s d))) ∧
    (¬NotifR inc s d →
      AL.get (runOnce inc s).lastNotified d = AL.get s.lastNotified d ∧
      getDl (runOnce inc s) d = getDl s d) := by
  have h := notifyFold_spec inc ((seenOf s).map Prod.fst)
    ({ s with ignored := ignoredNow s, lastSeen := seenOf s, hist := (s.bucket, ignoredNow s) :: s.hist } : St ι) d
  have hN : Notif inc ({ s with ignored := ignoredNow s, lastSeen := seenOf s, hist := (s.bucket, ignoredNow s) :: s.hist } : St ι) d
      ↔ NotifR inc s d := Iff.rfl
  constructor
  · intro hn
    have hm : d ∈ (seenOf s).map Prod.fst := by
      obtain ⟨t, h1, _⟩ := hn
      rw [← AL.get_isSome_iff, h1]; rfl
    exact h.1 ⟨hm, hN.mpr hn⟩
  · intro hn
    exact h.2 (fun hh => hn (hN.mp hh.2))

theorem runOnce_count (inc : Bool) (p : Pc → Bool) (hp : p .idle = false) (s : St ι) :
    AL.count (fun x => p x.pc) (runOnce inc s).dls = AL.count (fun x => p x.pc) s.dls := by
  unfold runOnce
  simp only
  rw [notifyFold_count inc p hp]

theorem runOnce_nodup (inc : Bool) (s : St ι) (h : (s.dls.map Prod.fst).Nodup) :
    ((runOnce inc s).dls.map Prod.fst).Nodup := by
  unfold runOnce
  exact notifyFold_nodup inc _ _ h

/-- what a listing does to one downloader: nothing, or set its signal (creating it idle) -/
theorem runOnce_dl (inc : Bool) (s : St ι) (d : ι) :
    getDl (runOnce inc s) d = getDl s d ∨ getDl (runOnce inc s) d = some (sigDl (getDl s d)) := by
  by_cases h : NotifR inc s d
  · exact Or.inr ((runOnce_spec inc s d).1 h).2
  · exact Or.inl ((runOnce_spec inc s d).2 h).2

/-! ### inversion of `step` -/

theorem step_wake {s s' : St ι} {d : ι} (h : step s (.wake d) = some s') :
    ∃ x, getDl s d = some x ∧ x.pc = .idle ∧ x.signal = true ∧
      s' = setDl s d { x with signal := false, pc := .check } := by
  simp only [step] at h
  split at h
  · rename_i x hx
    split at h
    · rename_i hc
      exact ⟨x, hx, hc.1, hc.2, (Option.some.inj h).symm⟩
    · cases h
  · cases h

theorem step_check {s s' : St ι} {d : ι} (h : step s (.check d) = some s') :
    ∃ x, getDl s d = some x ∧ x.pc = .check ∧
      (((AL.get s.lastSeen d = none ∨ ∃ t, AL.get s.lastSeen d = some t ∧ x.last = some t) ∧
          s' = setDl s d { x with pc := .idle }) ∨
       ∃ t, AL.get s.lastSeen d = some t ∧ x.last ≠ some t ∧ s' = setDl s d { x with pc := .wantDl t }) := by
  simp only [step] at h
  split at h
  · rename_i x hx
    split at h
    · rename_i hc
      refine ⟨x, hx, hc, ?_⟩
      split at h
      · rename_i hl
        exact Or.inl ⟨Or.inl hl, (Option.some.inj h).symm⟩
      · rename_i t hl
        split at h
        · rename_i hlast
          exact Or.inl ⟨Or.inr ⟨t, hl, hlast⟩, (Option.some.inj h).symm⟩
        · rename_i hlast
          exact Or.inr ⟨t, hl, hlast, (Option.some.inj h).symm⟩
    · cases h
  · cases h

theorem step_acqDl {s s' : St ι} {d : ι} (h : step s (.acqDl d) = some s') :
    ∃ x t, getDl s d = some x ∧ x.pc = .wantDl t ∧ 0 < s.dlFree ∧
      s' = { setDl s d { x with pc := .loading t } with dlFree := s.dlFree - 1 } := by
  simp only [step] at h
  split at h
  · rename_i x hx
    split at h
    · rename_i t hpc
      split at h
      · rename_i hf
        exact ⟨x, t, hx, hpc, hf, (Option.some.inj h).symm⟩
      · cases h
    · cases h
  · cases h

theorem step_load {s s' : St ι} {d : ι} {r : LoadRes} (h : step s (.load d r) = some s') :
    ∃ x t, getDl s d = some x ∧ x.pc = .loading t ∧
      ((r = .ok ∧ ∃ b, hasBlob s d t = some b ∧ s' = setDl s d { x with pc := .wantDc t b.bad }) ∨
       ((r = .fail ∨ (r = .notFound ∧ hasBlob s d t = none)) ∧
        s' = { setDl s d { x with pc := .backoff } with dlFree := s.dlFree + 1 })) := by
  simp only [step] at h
  split at h
  · rename_i x hx
    split at h
    · rename_i t hpc
      refine ⟨x, t, hx, hpc, ?_⟩
      split at h
      · split at h
        · rename_i b hb
          exact Or.inl ⟨rfl, b, hb, (Option.some.inj h).symm⟩
        · cases h
      · split at h
        · cases h
        · rename_i hb
          exact Or.inr ⟨Or.inr ⟨rfl, hb⟩, (Option.some.inj h).symm⟩
      · exact Or.inr ⟨Or.inl rfl, (Option.some.inj h).symm⟩
    · cases h
  · cases h

theorem step_acqDc {s s' : St ι} {d : ι} (h : step s (.acqDc d) = some s') :
    ∃ x t bad, getDl s d = some x ∧ x.pc = .wantDc t bad ∧ 0 < s.dcFree ∧
      s' = { setDl s d { x with pc := .decoding t bad } with dcFree := s.dcFree - 1 } := by
  simp only [step] at h
  split at h
  · rename_i x hx
    split at h
    · rename_i t bad hpc
      split at h
      · rename_i hf
        exact ⟨x, t, bad, hx, hpc, hf, (Option.some.inj h).symm⟩
      · cases h
    · cases h
  · cases h

theorem step_decode {s s' : St ι} {d : ι} (h : step s (.decode d) = some s') :
    ∃ x t bad, getDl s d = some x ∧ x.pc = .decoding t bad ∧
      ((bad = true ∧
        s' = { setDl s d { x with last := some t, pc := .backoff } with
               dlFree := s.dlFree + 1, dcFree := s.dcFree + 1, corrupt := insertName s.corrupt (d, t) }) ∨
       (bad = false ∧
        s' = { setDl s d { x with last := some t, pc := .idle } with
               dlFree := s.dlFree + 1,
               dcFree := s.dcFree + (if (AL.get s.pending d).isSome then 1 else 0),
               pending := AL.set s.pending d t })) := by
  simp only [step] at h
  split at h
  · rename_i x hx
    split at h
    · rename_i t bad hpc
      refine ⟨x, t, bad, hx, hpc, ?_⟩
      split at h
      · rename_i hb
        exact Or.inl ⟨hb, (Option.some.inj h).symm⟩
      · rename_i hb
        exact Or.inr ⟨by simpa using hb, (Option.some.inj h).symm⟩
    · cases h
  · cases h

theorem step_retry {s s' : St ι} {d : ι} (h : step s (.retry d) = some s') :
    ∃ x, getDl s d = some x ∧ x.pc = .backoff ∧ s' = setDl s d { x with pc := .check } := by
  simp only [step] at h
  split at h
  · rename_i x hx
    split at h
    · rename_i hc
      exact ⟨x, hx, hc, (Option.some.inj h).symm⟩
    · cases h
  · cases h

theorem step_next {s s' : St ι} {d : ι} (h : step s (.next d) = some s') :
    s.holding = none ∧ ∃ t, AL.get s.pending d = some t ∧
      s' = { s with holding := some (d, t), pending := AL.erase s.pending d, delivered := (d, t) :: s.delivered } := by
  simp only [step] at h
  split at h
  · rename_i t hh hp
    exact ⟨hh, t, hp, (Option.some.inj h).symm⟩
  · cases h

theorem step_close {s s' : St ι} (h : step s .close = some s') :
    ∃ n, s.holding = some n ∧ s' = { s with holding := none, dcFree := s.dcFree + 1 } := by
  simp only [step] at h
  split at h
  · rename_i n hh
    exact ⟨n, hh, (Option.some.inj h).symm⟩
  · cases h

theorem step_runOnce {s s' : St ι} {inc ok : Bool} (h : step s (.runOnce inc ok) = some s') :
    s' = if ok then runOnce inc s else s := (Option.some.inj h).symm

theorem step_put {s s' : St ι} {b : Blob ι} (h : step s (.put b) = some s') :
    s' = { s with bucket := b :: s.bucket.filter (fun x => x.name ≠ b.name) } := (Option.some.inj h).symm

theorem step_rm {s s' : St ι} {d : ι} {t : Nat} (h : step s (.rm d t) = some s') :
    s' = { s with bucket := s.bucket.filter (fun x => x.name ≠ (d, t)) } := (Option.some.inj h).symm

/-! ### runs -/

theorem run_append (s : St ι) (a b : List (Step ι)) :
    run s (a ++ b) = (run s a).bind (fun s' => run s' b) := by
  induction a generalizing s with
  | nil => rfl
  | cons x r ih =>
    simp only [List.cons_append, run]
    cases step s x with
    | none => rfl
    | some s1 => exact ih s1

/-- a step predicate holds along a run -/
def AllOk (ok : St ι → Step ι → Prop) : St ι → List (Step ι) → Prop
  | _, [] => True
  | s, x :: r => ok s x ∧ ∀ s', step s x = some s' → AllOk ok s' r

/-- invariants that hold along runs whose steps satisfy `ok` -/
theorem run_induct (P : St ι → Prop) (ok : St ι → Step ι → Prop)
    (hstep : ∀ s x s', P s → ok s x → step s x = some s' → P s') :
    ∀ (steps : List (Step ι)) (s s' : St ι), P s → AllOk ok s steps → run s steps = some s' → P s' := by
  intro steps
  induction steps with
  | nil => intro s s' hp _ hr; cases hr; exact hp
  | cons x r ih =>
    intro s s' hp hok hr
    simp only [run] at hr
    cases hs : step s x with
    | none => rw [hs] at hr; cases hr
    | some s1 =>
      rw [hs] at hr
      exact ih s1 s' (hstep s x s1 hp hok.1 hs) (hok.2 s1 hs) hr

theorem allOk_true (s : St ι) (steps : List (Step ι)) : AllOk (fun _ _ => True) s steps := by
  induction steps generalizing s with
  | nil => trivial
  | cons x r ih => exact ⟨trivial, fun s' _ => ih s'⟩

end Ls.Recv
