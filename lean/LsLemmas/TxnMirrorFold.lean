import LsLemmas.TxnMirrorProject
/-
  Folds of a per-DBI step over the DBI names: a step changes only the DBIs it `touch`es, so the
  DBIs of one name are determined by that name's step alone.
-/
namespace Ls.Txn
open Ls Ls.Lmdb Ls.Strategy Ls.Merge

theorem foldlM_append_ok {ε α β} (f : β → α → Except ε β) (pre post : List α) (b b' : β)
    (h : (pre ++ post).foldlM f b = .ok b') :
    ∃ b1, pre.foldlM f b = .ok b1 ∧ post.foldlM f b1 = .ok b' := by
  rw [List.foldlM_append] at h
  cases h1 : pre.foldlM f b with
  | error e => simp [h1, bind, Except.bind] at h
  | ok b1 => simp only [h1, bind, Except.bind] at h; exact ⟨b1, rfl, h⟩

theorem foldlM_split_ok {ε α β} (f : β → α → Except ε β) (pre : List α) (a : α) (post : List α) (b b' : β)
    (h : (pre ++ a :: post).foldlM f b = .ok b') :
    ∃ b1 b2, pre.foldlM f b = .ok b1 ∧ f b1 a = .ok b2 ∧ post.foldlM f b2 = .ok b' := by
  obtain ⟨b1, h1, h2⟩ := foldlM_append_ok f pre (a :: post) b b' h
  rw [List.foldlM_cons] at h2
  cases h3 : f b1 a with
  | error e => simp [h3, bind, Except.bind] at h2
  | ok b2 => simp only [h3, bind, Except.bind] at h2; exact ⟨b1, b2, h1, h3, h2⟩

/-- an invariant of every step is an invariant of the fold -/
theorem foldlM_preserves {ε α β} (f : β → α → Except ε β) (P : β → Prop) (l : List α)
    (hstep : ∀ a ∈ l, ∀ b b1, P b → f b a = .ok b1 → P b1) :
    ∀ b b', P b → l.foldlM f b = .ok b' → P b' := by
  induction l with
  | nil => intro b b' hb h; simp [List.foldlM_nil, pure, Except.pure] at h; subst h; exact hb
  | cons a rest ih =>
    intro b b' hb h
    rw [List.foldlM_cons] at h
    cases h1 : f b a with
    | error e => simp [h1, bind, Except.bind] at h
    | ok b1 =>
      simp only [h1, bind, Except.bind] at h
      exact ih (fun a ha => hstep a (List.mem_cons_of_mem _ ha)) b1 b'
        (hstep a (List.mem_cons_self ..) b b1 hb h1) h

/-- frame rule: a DBI name no step of the fold touches is looked up as before -/
theorem fold_frame (f : W → Bytes → Except Err W) (touch : Bytes → Bytes → Prop)
    (hframe : ∀ w m w1, f w m = .ok w1 → ∀ x, ¬ touch m x → findDbi w1.dbis x = findDbi w.dbis x)
    (l : List Bytes) (w w' : W) (h : l.foldlM f w = .ok w') (x : Bytes) (hx : ∀ m ∈ l, ¬ touch m x) :
    findDbi w'.dbis x = findDbi w.dbis x := by
  induction l generalizing w with
  | nil => simp [List.foldlM_nil, pure, Except.pure] at h; subst h; rfl
  | cons a rest ih =>
    rw [List.foldlM_cons] at h
    cases h1 : f w a with
    | error e => simp [h1, bind, Except.bind] at h
    | ok w1 =>
      simp only [h1, bind, Except.bind] at h
      rw [ih w1 h (fun m hm => hx m (List.mem_cons_of_mem _ hm))]
      exact hframe w a w1 h1 x (hx a (List.mem_cons_self ..))

theorem distinct_nodup {dbis : List Dbi} (h : DistinctNames dbis) : (dbis.map (·.name)).Nodup := by
  unfold DistinctNames at h
  exact List.pairwise_map.mpr h

theorem nodup_split {α} [DecidableEq α] {l : List α} (hn : l.Nodup) {a : α} (ha : a ∈ l) :
    ∃ pre post, l = pre ++ a :: post ∧ a ∉ pre ∧ a ∉ post := by
  obtain ⟨pre, post, hl⟩ := List.append_of_mem ha
  subst hl
  refine ⟨pre, post, rfl, ?_, ?_⟩
  · intro hp
    have := (List.nodup_append.mp hn).2.2 a hp a (List.mem_cons_self ..)
    exact this rfl
  · have := (List.nodup_append.mp hn).2.1
    exact (List.nodup_cons.mp this).1

theorem distinct_setKvs {dbis : List Dbi} (h : DistinctNames dbis) (n : Bytes) (kvs : KVs) :
    DistinctNames (setKvs dbis n kvs) := by
  have := distinct_nodup h
  rw [← setKvs_names dbis n kvs] at this
  exact List.pairwise_map.mp this

theorem distinct_insertDbi {dbis : List Dbi} (h : DistinctNames dbis) (d : Dbi)
    (hn : findDbi dbis d.name = none) : DistinctNames (insertDbi dbis d) := by
  induction dbis with
  | nil => exact List.pairwise_singleton _ _
  | cons x rest ih =>
    obtain ⟨h1, h2⟩ := List.pairwise_cons.mp h
    rw [findDbi_cons] at hn
    split at hn
    · cases hn
    · rename_i hx
      unfold insertDbi
      split
      · refine List.pairwise_cons.mpr ⟨?_, h⟩
        intro y hy
        rcases List.mem_cons.mp hy with hy | hy
        · subst hy; exact fun h' => hx h'.symm
        · exact fun h' => findDbi_none_iff.mp hn y hy h'.symm
      · refine List.pairwise_cons.mpr ⟨?_, ih h2 hn⟩
        intro y hy
        rcases (insertDbi_mem _ _ _).mp hy with hy | hy
        · subst hy; exact hx
        · exact h1 y hy

theorem distinct_openCreate {w : W} (h : DistinctNames w.dbis) (n : Bytes) (fl : Nat) :
    DistinctNames (openCreate w n fl).dbis := by
  unfold openCreate
  split
  · exact h
  · rename_i hn; exact distinct_insertDbi h _ hn

end Ls.Txn
