import LsLemmas.AbsFleet
/-
  Layer D for C05: the abstract fleet with a bucket from which snapshots can be deleted by
  cleaners, and instances that crash and restart with their LMDB kept or emptied.
  Steps correspond to what the concrete components are proved / validated to do:
   * send: SendOnce stores the complete image (C06); only when the instance is not waiting for
     its own snapshot (C05_no_upload_before_own on the sync-loop model);
   * load: LoadOnce merges = pointwise join (C02, C19);
   * cleanSuperseded / cleanStale: the two delete loops of the cleaner (C12_newest_protected,
     C12_superseded_removed): a snapshot that is not its instance's newest, or the newest of a
     silent instance that the cleaning instance merged BEFORE a successful upload of its own
     (C12_committed_provenance: lastByInstance is handed to the cleaner only after Store).
-/
namespace Ls.Abs

structure Blob where
  inst : Nat
  content : DB
  alive : Bool

structure BF where
  db : Nat → DB
  bucket : List Blob                     -- in upload order (names sort chronologically: C15)
  waitingOwn : Nat → Bool                -- must merge its own newest snapshot before uploading
  merged : Nat → List Nat                -- bucket indices instance i merged since its last restart
  committed : Nat → List Nat             -- indices merged before i's latest successful upload

/-- index of the newest alive snapshot of instance j -/
def newestIdx (b : List Blob) (j : Nat) : Option Nat :=
  ((List.range b.length).filter fun n => match b[n]? with
    | some x => x.inst = j && x.alive
    | none => false).getLast?

inductive BStep where
  | write (i : Nat) (k : Key) (v : Ver)
  | send (i : Nat)
  | sendFails (i : Nat)                  -- Store failed within the retry budget: nothing stored
  | load (i : Nat) (idx : Nat)
  | restart (i : Nat) (wipe : Bool)
  | cleanSuperseded (idx : Nat)
  | cleanStale (a : Nat) (idx : Nat)

def setAlive (b : List Blob) (idx : Nat) : List Blob :=
  b.mapIdx fun n x => if n = idx then { x with alive := false } else x

/-- the guard of each step (what the concrete code guarantees before taking it) -/
def enabled (f : BF) : BStep → Prop
  | .write i k v => v.WF ∧ join (f.db i k) (some v) = some v
  | .send i => f.waitingOwn i = false
  | .sendFails _ => True
  | .load _ idx => ∃ x, f.bucket[idx]? = some x ∧ x.alive = true
  | .restart _ _ => True
  | .cleanSuperseded idx => ∃ x, f.bucket[idx]? = some x ∧ newestIdx f.bucket x.inst ≠ some idx
  | .cleanStale a idx => idx ∈ f.committed a

def bstep (f : BF) : BStep → BF
  | .write i k v => { f with db := fun j => if j = i then upd (f.db i) k v else f.db j }
  | .send i =>
    { f with bucket := f.bucket ++ [{ inst := i, content := f.db i, alive := true }],
             committed := fun j => if j = i then f.merged i else f.committed j }
  | .sendFails _ => f
  | .load i idx =>
    match f.bucket[idx]? with
    | none => f
    | some x =>
      { f with db := fun j => if j = i then (f.db i).join x.content else f.db j,
               merged := fun j => if j = i then idx :: f.merged i else f.merged j,
               waitingOwn := fun j => if j = i ∧ x.inst = i ∧ newestIdx f.bucket i = some idx then false
                                      else f.waitingOwn j }
  | .restart i wipe =>
    { f with db := fun j => if j = i ∧ wipe then DB.empty else f.db j,
             merged := fun j => if j = i then [] else f.merged j,
             committed := fun j => if j = i then [] else f.committed j,
             waitingOwn := fun j => if j = i then (newestIdx f.bucket i).isSome else f.waitingOwn j }
  | .cleanSuperseded idx => { f with bucket := setAlive f.bucket idx }
  | .cleanStale _ idx => { f with bucket := setAlive f.bucket idx }

def binit : BF :=
  { db := fun _ => DB.empty, bucket := [], waitingOwn := fun _ => false, merged := fun _ => [],
    committed := fun _ => [] }

/-- reachable: every step taken was enabled -/
inductive Reach : BF → Prop where
  | init : Reach binit
  | step {f : BF} (s : BStep) : Reach f → enabled f s → Reach (bstep f s)

/-- the newest alive snapshot content of instance j -/
def newestContent (f : BF) (j : Nat) : Option DB :=
  (newestIdx f.bucket j).bind fun n => (f.bucket[n]?).map (·.content)

end Ls.Abs
