import LsModel.Txn
/-
  Declarations shared by the two families of transaction lemma files
    family A: TxnDbis / TxnSend / TxnLoad / TxnAbs           (C06, C18, C01Refine)
    family B: TxnMirror / TxnMirror* (M2S, S2M, Load, Idem…)  (C10, C11, C20, C03)
  Both families used to define these names themselves (with identical statements), which made
  them impossible to import together. They now both import this file.
-/
namespace Ls.Txn
open Ls Ls.Lmdb Ls.Strategy Ls.Merge

/-! ### facts about the generated name constants -/

theorem syncPrefix_eq : syncPrefix = [95, 115, 121, 110, 99] := by decide +kernel
theorem shadowPrefix_eq : shadowPrefix = syncPrefix ++ [95, 115, 104, 97, 100, 111, 119, 95] := by
  decide +kernel

/-- a shadow DBI name is a private name (it starts with `_sync`) -/
theorem isPrivate_shadowName (name : Bytes) : isPrivate (shadowName name) = true := by
  simp [isPrivate, shadowName, shadowPrefix_eq, syncPrefix_eq, List.isPrefixOf]

theorem shadowName_inj {a b : Bytes} (h : shadowName a = shadowName b) : a = b :=
  List.append_cancel_left h

/-! ### `findDbi`, `runOn` -/

theorem findDbi_name {dbis : List Dbi} {n : Bytes} {d : Dbi} (h : findDbi dbis n = some d) :
    d.name = n := by
  have := List.find?_some h
  simpa using this

theorem findDbi_mem {dbis : List Dbi} {n : Bytes} {d : Dbi} (h : findDbi dbis n = some d) :
    d ∈ dbis := List.mem_of_find?_eq_some h

theorem findDbi_cons (x : Dbi) (rest : List Dbi) (n : Bytes) :
    findDbi (x :: rest) n = if x.name = n then some x else findDbi rest n := by
  simp only [findDbi, List.find?_cons]
  by_cases h : x.name = n <;> simp [h]

theorem runOn_ok {w w' : W} {n : Bytes} {f : S → Except Err S} (h : runOn w n f = .ok w') :
    ∃ d s, findDbi w.dbis n = some d ∧ f { db := d.kvs, dirty := w.dirty } = .ok s ∧
      w' = { dbis := setKvs w.dbis n s.db, dirty := s.dirty } := by
  unfold runOn at h
  cases hd : findDbi w.dbis n with
  | none => simp [hd] at h
  | some d =>
    simp only [hd, bind, Except.bind] at h
    cases hs : f { db := d.kvs, dirty := w.dirty } with
    | error err => rw [hs] at h; cases h
    | ok s =>
      rw [hs] at h
      injection h with h
      exact ⟨d, s, rfl, hs, h.symm⟩

/-! ### the loop bodies of the two mirror passes -/

/-- the loop body of `mainToShadow` -/
def m2sStep (c : Cfg) (txnID now cutoff : Nat) (w : W) (name : Bytes) : Except Err W := do
    if isPrivate name then pure w else
    let msg ← readDBI c w name name true
    let some d := findDbi w.dbis name | throw .dbiMissing
    let dup := isDupSort d.flags
    if dup ∧ ¬ c.hack then throw .dupsortNoHack
    let targetFlags := d.flags &&& Gen.allowedShadowDBIFlagsMask
    let entries ← if c.hack ∧ dup then
        (match DupSort.encodeAll msg.entries with
         | .ok r => pure r
         | .error _ => throw Err.dupHack)
      else pure msg.entries
    let w := openCreate w (shadowName name) targetFlags
    let some sd := findDbi w.dbis (shadowName name) | throw .dbiMissing
    let mc : Merge.Cfg := { fv := Gen.currentFormatVersion, defTs := now, txn := txnID, cutoff := cutoff, pad := false }
    runOn w (shadowName name) fun s => mapStratErr (iterUpdate (isIntKey sd.flags) (nativeIter mc) s entries)

/-- the loop body of `shadowToMain` -/
def s2mStep (c : Cfg) (w : W) (name : Bytes) : Except Err W := do
    if isPrivate name then pure w else
    let some d := findDbi w.dbis name | throw .dbiMissing
    let dup := isDupSort d.flags
    if dup ∧ ¬ c.hack then throw .dupsortNoHack
    let msg ← readDBI c w (shadowName name) name false
    let entries ← if dup then
        (match DupSort.decodeAll msg.entries with
         | .ok r => pure r
         | .error _ => throw Err.dupHack)
      else pure msg.entries
    runOn w name fun s =>
      if dup then mapStratErr (emptyPut (isIntKey d.flags) true plainIter s entries)
      else mapStratErr (iterUpdate (isIntKey d.flags) plainIter s entries)

/-! ### `loadDbi`: creation flags, private messages -/

/-- `dbi_options.override_create_flags` of the message's DBI -/
def ovrOf (c : Cfg) (m : DbiMsg) : Option Nat := (c.override.find? (·.1 = m.name)).map (·.2)

/-- the flags a DBI is created with from a snapshot message: the override if there is one,
    else the message's flags, truncated to `dbiflags.Flags` (16 bits) -/
def createFlags (c : Cfg) (m : DbiMsg) : Nat := ((ovrOf c m).getD m.flags) % 2 ^ 16

theorem loadDbi_private {c : Cfg} {snap : Snap} {txnID cutoff : Nat} {w : W} {m : DbiMsg}
    (hp : isPrivate m.name = true) : loadDbi c snap txnID cutoff w m = .ok w := by
  unfold loadDbi; simp [hp]; rfl

end Ls.Txn
