import LsLemmas.AbsFleet
/-
  The invariant behind C01_content_is_written / C01_winner on the abstract fleet: along every
  monotone schedule the fleet stays well-formed, nothing is invented and nothing written is lost.
  (Helper lemmas; the property theorems are in LsProps/C01.lean.)
-/
namespace Ls.Abs
open Ls

/-- the writes of a schedule, with the state they were applied to -/
def writesOf : List Step → List (Nat × Key × Ver)
  | [] => []
  | .write i k v :: rest => (i, k, v) :: writesOf rest
  | _ :: rest => writesOf rest

/-- an application never overwrites a key with a version that loses against what its own
    instance holds (what a native application stamping the current time does, and what the
    non-native capture does under the shared monotone clock) -/
def MonotoneFrom (f : Fleet) : List Step → Prop
  | [] => True
  | s :: rest =>
    (match s with
     | .write i k v => join (f.db i k) (some v) = some v
     | _ => True) ∧ MonotoneFrom (step f s) rest

/-- the invariant carried along a schedule: well-formed, nothing invented, nothing written lost -/
structure Inv (f : Fleet) (W : List (Nat × Key × Ver)) : Prop where
  wf : FleetWF f
  dbFrom : ∀ i k v, f.db i k = some v → ∃ i', (i', k, v) ∈ W
  snapFrom : ∀ p ∈ f.bucket, ∀ k v, p.2 k = some v → ∃ i', (i', k, v) ∈ W
  kept : ∀ i k v, (i, k, v) ∈ W → join (some v) (f.db i k) = f.db i k
  wWF : ∀ i k v, (i, k, v) ∈ W → v.WF

theorem join_some_cases (a : Option Ver) (v : Ver) :
    join a (some v) = a ∨ join a (some v) = some v := by
  cases a with
  | none => right; rfl
  | some x =>
    simp only [join]
    rcases Ver.max_eq_or x v with h | h <;> simp [h]

theorem join_cases (a b : Option Ver) : join a b = a ∨ join a b = b := by
  cases b with
  | none => left; exact join_none_right a
  | some v => exact join_some_cases a v

theorem inv_write {f : Fleet} {W : List (Nat × Key × Ver)} (h : Inv f W) (i : Nat) (k : Key) (v : Ver)
    (hs : v.WF) (hm : join (f.db i k) (some v) = some v) :
    Inv (step f (.write i k v)) ((i, k, v) :: W) := by
  have hwf' : FleetWF (step f (.write i k v)) := step_wf h.wf hs
  refine ⟨hwf', ?_, ?_, ?_, ?_⟩
  · intro j k' v' hv'
    simp only [step] at hv'
    by_cases hj : j = i
    · rw [if_pos hj] at hv'
      by_cases hk : k' = k
      · subst hk; rw [upd_same] at hv'; injection hv' with hv'; subst hv'
        exact ⟨i, by simp⟩
      · rw [upd_other _ _ _ _ hk] at hv'
        obtain ⟨i', hi'⟩ := h.dbFrom i k' v' hv'; exact ⟨i', by simp [hi']⟩
    · rw [if_neg hj] at hv'
      obtain ⟨i', hi'⟩ := h.dbFrom j k' v' hv'; exact ⟨i', by simp [hi']⟩
  · intro p hp k' v' hv'
    obtain ⟨i', hi'⟩ := h.snapFrom p hp k' v' hv'; exact ⟨i', by simp [hi']⟩
  · intro j k' v' hmem
    simp only [step]
    rcases List.mem_cons.mp hmem with heq | hold
    · injection heq with h1 h2; injection h2 with h2 h3
      subst h1; subst h2; subst h3
      rw [if_pos rfl, upd_same, join_idem]
    · by_cases hj : j = i
      · subst hj
        rw [if_pos rfl]
        by_cases hk : k' = k
        · subst hk
          rw [upd_same]
          have hkept := h.kept j k' v' hold
          have hv'wf : OWF (some v') := h.wWF j k' v' hold
          have hvwf : OWF (some v) := hs
          rw [← hm, ← join_assoc hv'wf (h.wf.1 j k') hvwf, hkept]
        · rw [upd_other _ _ _ _ hk]; exact h.kept j k' v' hold
      · rw [if_neg hj]; exact h.kept j k' v' hold
  · intro j k' v' hmem
    rcases List.mem_cons.mp hmem with heq | hold
    · injection heq with h1 h2; injection h2 with h2 h3; subst h3; exact hs
    · exact h.wWF j k' v' hold

theorem inv_send {f : Fleet} {W : List (Nat × Key × Ver)} (h : Inv f W) (i : Nat) :
    Inv (step f (.send i)) W := by
  have hwf' : FleetWF (step f (.send i)) := step_wf h.wf trivial
  refine ⟨hwf', h.dbFrom, ?_, h.kept, h.wWF⟩
  intro p hp k v hv
  simp only [step, List.mem_append, List.mem_singleton] at hp
  rcases hp with hp | hp
  · exact h.snapFrom p hp k v hv
  · subst hp; exact h.dbFrom i k v hv

theorem inv_load {f : Fleet} {W : List (Nat × Key × Ver)} (h : Inv f W) (i idx : Nat) :
    Inv (step f (.load i idx)) W := by
  have hwf' : FleetWF (step f (.load i idx)) := step_wf h.wf trivial
  simp only [step] at hwf' ⊢
  split
  · exact h
  · rename_i j s hget
    rw [hget] at hwf'
    have hmemb := List.mem_of_getElem? hget
    refine ⟨hwf', ?_, h.snapFrom, ?_, h.wWF⟩
    · intro j' k v hv
      simp only at hv
      by_cases hj : j' = i
      · rw [if_pos hj] at hv
        simp only [DB.join] at hv
        rcases join_cases (f.db i k) (s k) with hc | hc
        · rw [hc] at hv; exact h.dbFrom i k v hv
        · rw [hc] at hv; exact h.snapFrom _ hmemb k v hv
      · rw [if_neg hj] at hv; exact h.dbFrom j' k v hv
    · intro j' k v hmem
      simp only
      by_cases hj : j' = i
      · subst hj
        rw [if_pos rfl]
        simp only [DB.join]
        have hvwf : OWF (some v) := h.wWF j' k v hmem
        rw [← join_assoc hvwf (h.wf.1 j' k) (h.wf.2 _ hmemb k), h.kept j' k v hmem]
      · rw [if_neg hj]; exact h.kept j' k v hmem

/-- the writes seen so far, newest first -/
def writesAcc (W : List (Nat × Key × Ver)) : List Step → List (Nat × Key × Ver)
  | [] => W
  | .write i k v :: rest => writesAcc ((i, k, v) :: W) rest
  | _ :: rest => writesAcc W rest

/-- the invariant holds along every monotone schedule of well-formed writes -/
theorem inv_run (f : Fleet) (W : List (Nat × Key × Ver)) (steps : List Step) (h : Inv f W)
    (hs : StepsWF steps) (hm : MonotoneFrom f steps) :
    Inv (run f steps) (writesAcc W steps) := by
  induction steps generalizing f W with
  | nil => simpa [run, writesAcc] using h
  | cons s rest ih =>
    have hs' : StepsWF rest := fun s' h' => hs s' (by simp [h'])
    have hs0 := hs s (by simp)
    cases s with
    | write i k v =>
      simp only [run, List.foldl_cons, writesAcc]
      exact ih _ _ (inv_write h i k v hs0 hm.1) hs' hm.2
    | send i =>
      simp only [run, List.foldl_cons, writesAcc]
      exact ih _ _ (inv_send h i) hs' hm.2
    | load i idx =>
      simp only [run, List.foldl_cons, writesAcc]
      exact ih _ _ (inv_load h i idx) hs' hm.2

theorem mem_writesAcc (W : List (Nat × Key × Ver)) (steps : List Step) (x : Nat × Key × Ver) :
    x ∈ writesAcc W steps ↔ x ∈ W ∨ x ∈ writesOf steps := by
  induction steps generalizing W with
  | nil => simp [writesAcc, writesOf]
  | cons s rest ih =>
    cases s <;> simp only [writesAcc, writesOf, ih, List.mem_cons]
    constructor
    · rintro ((h | h) | h)
      · exact Or.inr (Or.inl h)
      · exact Or.inl h
      · exact Or.inr (Or.inr h)
    · rintro (h | h | h)
      · exact Or.inl (Or.inr h)
      · exact Or.inl (Or.inl h)
      · exact Or.inr h

theorem init_inv (n : Nat) : Inv (init n) [] :=
  ⟨init_wf n, fun _ _ _ h => by simp [init, DB.empty] at h, fun _ h => by simp [init] at h,
   fun _ _ _ h => by simp at h, fun _ _ _ h => by simp at h⟩

end Ls.Abs
