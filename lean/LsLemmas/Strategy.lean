import LsLemmas.Lmdb
import LsModel.StrategySpec
/-
  strategy.Update and strategy.EmptyPut against their specifications (helper lemmas for C19).
-/
namespace Ls.Strategy
open Ls Ls.Lmdb

variable {E ε : Type}

/-! ### applyOpt: the map update of the specification -/

theorem sorted_applyOpt {ik : Bool} {db : KVs} (hs : Sorted ik db) (k : Bytes) (ov : Option Bytes) :
    Sorted ik (applyOpt ik db k ov) := by
  cases ov with
  | none => exact sorted_del hs k
  | some v => exact sorted_put hs k v

theorem get_applyOpt {ik : Bool} {db : KVs} (hs : Sorted ik db) (k : Bytes) (ov : Option Bytes) (k' : Bytes) :
    get ik (applyOpt ik db k ov) k' = if kcmp ik k k' = 0 then ov else get ik db k' := by
  cases ov with
  | none => exact get_del hs k k'
  | some v => exact get_put ik db k v k'

theorem applyOpt_self {ik : Bool} {db : KVs} (hs : Sorted ik db) (k : Bytes) :
    applyOpt ik db k (get ik db k) = db := by
  cases h : get ik db k with
  | none => exact del_of_get_none h
  | some v => exact put_of_get_some hs h

/-- writing a decision changes the content iff it differs from what is stored -/
theorem applyOpt_eq_iff {ik : Bool} {db : KVs} (hs : Sorted ik db) (k : Bytes) (ov : Option Bytes) :
    applyOpt ik db k ov = db ↔ ov = get ik db k := by
  constructor
  · intro h
    have := get_applyOpt hs k ov k
    rw [h, if_pos (kcmp_refl ik k)] at this
    exact this.symm
  · intro h; rw [h]; exact applyOpt_self hs k

theorem del_snd_eq_decide (ik : Bool) (db : KVs) (k : Bytes) :
    (del ik db k).2 = decide ((del ik db k).1 ≠ db) := by
  rw [del_snd]
  cases h : get ik db k with
  | none => simp [del_of_get_none h]
  | some v =>
    have := del_ne_of_get_some (ik := ik) (db := db) (k := k) (by rw [h]; rfl)
    simp [this]

theorem delS_eq (ik : Bool) (s : S) (k : Bytes) :
    delS ik s k = ⟨(del ik s.db k).1, s.dirty || (del ik s.db k).2⟩ := rfl

theorem setNew_none_iff (r : Option Bytes) : setNew r = none ↔ r = none ∨ r = some [] := by
  cases r with
  | none => simp [setNew]
  | some b =>
    cases b with
    | nil => simp [setNew]
    | cons x xs => simp [setNew]

/-! ### strategy.Update -/

/-- the body of `strategy.Update`'s loop -/
def updStep (ik : Bool) (it : Iter E ε) (s : S) (e : E) : Except (SErr ε) S := do
  let key := it.key e
  if key.length = 0 then throw .badKey
  let dbv := (get ik s.db key).getD []
  let val ← liftIter (it.merge e dbv)
  setNewVal ik s key dbv val

theorem update_eq_fold (ik : Bool) (it : Iter E ε) (s : S) (input : List E) :
    update ik it s input = input.foldlM (updStep ik it) s := rfl

/-- one step of the specification of Update, with the two things the Go code adds to the pure
    fold `specUpdate`: LMDB refuses to put a key longer than 511 bytes (a put only happens when
    the decision is a non-empty value that changes the content), and the "has written" bit,
    which is set exactly when the step changes the content. -/
def specUpdStep (ik : Bool) (it : Iter E ε) (s : S) (e : E) : Except (SErr ε) S :=
  match it.merge e ((get ik s.db (it.key e)).getD []) with
  | .error x => .error (.iter x)
  | .ok v =>
    if (it.key e).length > Gen.strategyMaxKeySize ∧ (setNew v).isSome = true
        ∧ applyOpt ik s.db (it.key e) (setNew v) ≠ s.db then .error .badKey
    else .ok ⟨applyOpt ik s.db (it.key e) (setNew v),
              s.dirty || decide (applyOpt ik s.db (it.key e) (setNew v) ≠ s.db)⟩

/-- `specUpdate` with the key-size failure and the dirty bit: see `specUpdStep` -/
def specUpdateS (ik : Bool) (it : Iter E ε) (s : S) (input : List E) : Except (SErr ε) S :=
  input.foldlM (specUpdStep ik it) s

/-- the step of `specUpdate` -/
def specStep (ik : Bool) (it : Iter E ε) (acc : KVs) (e : E) : Except ε KVs :=
  match it.merge e ((get ik acc (it.key e)).getD []) with
  | .error x => .error x
  | .ok v => .ok (applyOpt ik acc (it.key e) (setNew v))

theorem specUpdate_eq_fold (ik : Bool) (it : Iter E ε) (db : KVs) (input : List E) :
    specUpdate ik it db input = input.foldlM (specStep ik it) db := by
  unfold specUpdate
  congr 1
  funext acc e
  unfold specStep
  dsimp only
  cases it.merge e ((get ik acc (it.key e)).getD []) <;> rfl

theorem getD_eq_some_of_ne_nil {o : Option Bytes} {v : Bytes} (hv : v ≠ []) (h : o.getD [] = v) : o = some v := by
  cases o with
  | none => exact absurd h.symm hv
  | some w => simp at h; rw [h]

theorem updStep_eq {ik : Bool} (it : Iter E ε) {s : S} (hs : Sorted ik s.db) (e : E)
    (hk : (it.key e).length ≠ 0) : updStep ik it s e = specUpdStep ik it s e := by
  unfold updStep specUpdStep
  simp only [hk, if_false]
  cases hm : it.merge e ((get ik s.db (it.key e)).getD []) with
  | error x => rfl
  | ok r =>
    have hdel : (Except.ok (delS ik s (it.key e)) : Except (SErr ε) S) =
        .ok ⟨(del ik s.db (it.key e)).1, s.dirty || decide ((del ik s.db (it.key e)).1 ≠ s.db)⟩ := by
      rw [delS_eq, del_snd_eq_decide]
    cases r with
    | none =>
      simp only [liftIter, setNew, applyOpt, Option.isSome_none, Bool.false_eq_true, false_and, and_false,
        if_false]
      exact hdel
    | some v =>
      by_cases hv : v.length = 0
      · simp only [liftIter, setNew, hv, if_true, applyOpt, Option.isSome_none, Bool.false_eq_true,
          false_and, and_false, if_false]
        show setNewVal ik s (it.key e) _ (some v) = _
        simp only [setNewVal, hv, if_true]
        exact hdel
      · have hvne : v ≠ [] := fun h => hv (by rw [h]; rfl)
        simp only [liftIter, setNew, hv, if_false, applyOpt, Option.isSome_some, true_and]
        show setNewVal ik s (it.key e) _ (some v) = _
        simp only [setNewVal, hv, if_false]
        by_cases hold : v = (get ik s.db (it.key e)).getD []
        · have hg : get ik s.db (it.key e) = some v := getD_eq_some_of_ne_nil hvne hold.symm
          have hp := put_of_get_some hs hg
          rw [if_pos hold, hp]
          simp
        · have hp : put ik s.db (it.key e) v ≠ s.db := by
            intro h
            have := get_of_put_eq h
            rw [this] at hold
            exact hold rfl
          rw [if_neg hold]
          simp only [putS, badKey, hp, ne_eq, not_false_eq_true, and_true, decide_true, Bool.or_true]
          by_cases hl : (it.key e).length > Gen.strategyMaxKeySize
          · simp [hl]
          · simp [hl, hk]

theorem specUpdStep_sorted {ik : Bool} (it : Iter E ε) {s s' : S} (hs : Sorted ik s.db) (e : E)
    (h : specUpdStep ik it s e = .ok s') : Sorted ik s'.db := by
  unfold specUpdStep at h
  split at h
  · cases h
  · split at h
    · cases h
    · cases h; exact sorted_applyOpt hs _ _

/-- `strategy.Update` is the specification fold (with key-size failure and dirty bit) -/
theorem update_eq_spec {ik : Bool} (it : Iter E ε) (input : List E) :
    ∀ {s : S}, Sorted ik s.db → (∀ e ∈ input, (it.key e).length ≠ 0) →
    update ik it s input = specUpdateS ik it s input := by
  simp only [update_eq_fold]
  unfold specUpdateS
  induction input with
  | nil => intros; rfl
  | cons e es ih =>
    intro s hs hk
    rw [List.foldlM_cons, List.foldlM_cons, updStep_eq it hs e (hk e (List.mem_cons_self ..))]
    cases h : specUpdStep ik it s e with
    | error x => rfl
    | ok s' =>
      exact ih (specUpdStep_sorted it hs e h) (fun e he => hk e (List.mem_cons_of_mem _ he))

theorem specUpdStep_ok {ik : Bool} (it : Iter E ε) {s s' : S} (e : E)
    (h : specUpdStep ik it s e = .ok s') : specStep ik it s.db e = .ok s'.db := by
  unfold specUpdStep at h; unfold specStep
  cases hm : it.merge e ((get ik s.db (it.key e)).getD []) with
  | error x => rw [hm] at h; cases h
  | ok v =>
    rw [hm] at h
    simp only at h
    split at h
    · cases h
    · cases h; rfl

theorem specUpdStep_err {ik : Bool} (it : Iter E ε) {s : S} (e : E) {err : SErr ε}
    (h : specUpdStep ik it s e = .error err) :
    (∃ x, err = .iter x ∧ specStep ik it s.db e = .error x) ∨
    (err = .badKey ∧ (it.key e).length > Gen.strategyMaxKeySize) := by
  unfold specUpdStep at h; unfold specStep
  cases hm : it.merge e ((get ik s.db (it.key e)).getD []) with
  | error x => rw [hm] at h; cases h; exact Or.inl ⟨x, rfl, rfl⟩
  | ok v =>
    rw [hm] at h
    simp only at h
    split at h
    · rename_i hc; cases h; exact Or.inr ⟨rfl, hc.1⟩
    · cases h

theorem specUpdStep_short {ik : Bool} (it : Iter E ε) (s : S) (e : E)
    (hk : (it.key e).length ≤ Gen.strategyMaxKeySize) :
    specUpdStep ik it s e = match specStep ik it s.db e with
      | .ok db' => .ok ⟨db', s.dirty || decide (db' ≠ s.db)⟩
      | .error x => .error (.iter x) := by
  unfold specUpdStep specStep
  cases hm : it.merge e ((get ik s.db (it.key e)).getD []) with
  | error x => rfl
  | ok v =>
    have : ¬ (it.key e).length > Gen.strategyMaxKeySize := by omega
    simp only [this, false_and, if_false]

/-- a successful run of the refined specification is a successful run of `specUpdate` -/
theorem specUpdateS_ok {ik : Bool} (it : Iter E ε) (input : List E) :
    ∀ {s s' : S}, specUpdateS ik it s input = .ok s' → specUpdate ik it s.db input = .ok s'.db := by
  unfold specUpdateS; simp only [specUpdate_eq_fold]
  induction input with
  | nil => intro s s' h; cases h; rfl
  | cons e es ih =>
    intro s s' h
    rw [List.foldlM_cons] at h ⊢
    cases h1 : specUpdStep ik it s e with
    | error x => rw [h1] at h; cases h
    | ok s1 =>
      rw [h1] at h
      rw [specUpdStep_ok it e h1]
      exact ih h

/-- a failure of the refined specification is the iterator's failure in `specUpdate`, or the
    refusal of a key longer than 511 bytes -/
theorem specUpdateS_err {ik : Bool} (it : Iter E ε) (input : List E) :
    ∀ {s : S} {err : SErr ε}, specUpdateS ik it s input = .error err →
      (∃ x, err = .iter x ∧ specUpdate ik it s.db input = .error x) ∨
      (err = .badKey ∧ ∃ e ∈ input, (it.key e).length > Gen.strategyMaxKeySize) := by
  unfold specUpdateS; simp only [specUpdate_eq_fold]
  induction input with
  | nil => intro s err h; cases h
  | cons e es ih =>
    intro s err h
    rw [List.foldlM_cons] at h ⊢
    cases h1 : specUpdStep ik it s e with
    | error x =>
      rw [h1] at h; cases h
      rcases specUpdStep_err it e h1 with ⟨x, hx, hs⟩ | ⟨hb, hl⟩
      · exact Or.inl ⟨x, hx, by rw [hs]; rfl⟩
      · exact Or.inr ⟨hb, e, List.mem_cons_self .., hl⟩
    | ok s1 =>
      rw [h1] at h
      rw [specUpdStep_ok it e h1]
      rcases ih h with ⟨x, hx, hs⟩ | ⟨hb, e', he', hl⟩
      · exact Or.inl ⟨x, hx, hs⟩
      · exact Or.inr ⟨hb, e', List.mem_cons_of_mem _ he', hl⟩

/-- with keys of at most 511 bytes the refined specification succeeds/fails exactly as `specUpdate` -/
theorem specUpdateS_short {ik : Bool} (it : Iter E ε) (input : List E) :
    ∀ (s : S), (∀ e ∈ input, (it.key e).length ≤ Gen.strategyMaxKeySize) →
      match specUpdate ik it s.db input with
      | .ok db' => ∃ d', specUpdateS ik it s input = .ok ⟨db', d'⟩
      | .error x => specUpdateS ik it s input = .error (.iter x) := by
  unfold specUpdateS; simp only [specUpdate_eq_fold]
  induction input with
  | nil => intro s _; exact ⟨s.dirty, rfl⟩
  | cons e es ih =>
    intro s hk
    rw [List.foldlM_cons, List.foldlM_cons, specUpdStep_short it s e (hk e (List.mem_cons_self ..))]
    cases h1 : specStep ik it s.db e with
    | error x => exact rfl
    | ok db1 =>
      exact ih ⟨db1, _⟩ (fun e he => hk e (List.mem_cons_of_mem _ he))

theorem specStep_sorted {ik : Bool} (it : Iter E ε) {db db' : KVs} (hs : Sorted ik db) (e : E)
    (h : specStep ik it db e = .ok db') : Sorted ik db' := by
  unfold specStep at h
  cases hm : it.merge e ((get ik db (it.key e)).getD []) with
  | error x => rw [hm] at h; cases h
  | ok v => rw [hm] at h; cases h; exact sorted_applyOpt hs _ _

theorem specUpdate_sorted {ik : Bool} (it : Iter E ε) (input : List E) :
    ∀ {db db' : KVs}, Sorted ik db → specUpdate ik it db input = .ok db' → Sorted ik db' := by
  simp only [specUpdate_eq_fold]
  induction input with
  | nil => intro db db' hs h; cases h; exact hs
  | cons e es ih =>
    intro db db' hs h
    rw [List.foldlM_cons] at h
    cases h1 : specStep ik it db e with
    | error x => rw [h1] at h; cases h
    | ok db1 => rw [h1] at h; exact ih (specStep_sorted it hs e h1) h

/-- pointwise reading of `specUpdate`: the value of `k` is the fold of the decisions of the
    entries whose key is `k`, in input order -/
theorem specUpdate_get {ik : Bool} (it : Iter E ε) (input : List E) (k : Bytes) :
    ∀ {db db' : KVs}, Sorted ik db → specUpdate ik it db input = .ok db' →
      (input.filter (fun e => kcmp ik (it.key e) k = 0)).foldlM
        (fun cur e => do let v ← it.merge e (cur.getD []); pure (setNew v)) (get ik db k)
        = .ok (get ik db' k) := by
  simp only [specUpdate_eq_fold]
  induction input with
  | nil => intro db db' _ h; cases h; rfl
  | cons e es ih =>
    intro db db' hs h
    rw [List.foldlM_cons] at h
    cases h1 : specStep ik it db e with
    | error x => rw [h1] at h; cases h
    | ok db1 =>
      rw [h1] at h
      have hs1 := specStep_sorted it hs e h1
      have ih' := ih hs1 h
      unfold specStep at h1
      cases hm : it.merge e ((get ik db (it.key e)).getD []) with
      | error x => rw [hm] at h1; cases h1
      | ok v =>
        rw [hm] at h1
        have hdb1 : db1 = applyOpt ik db (it.key e) (setNew v) := by cases h1; rfl
        by_cases hk : kcmp ik (it.key e) k = 0
        · rw [List.filter_cons_of_pos (by simpa using hk), List.foldlM_cons]
          rw [← get_congr ik db hk, hm]
          have : get ik db1 k = setNew v := by rw [hdb1, get_applyOpt hs, if_pos hk]
          rw [this] at ih'
          exact ih'
        · rw [List.filter_cons_of_neg (by simpa using hk)]
          have : get ik db1 k = get ik db k := by rw [hdb1, get_applyOpt hs, if_neg hk]
          rw [this] at ih'
          exact ih'

/-- if every decision is what is stored (or removes an absent key) nothing is written -/
theorem specUpdateS_noop {ik : Bool} (it : Iter E ε) (input : List E) (s : S) (hs : Sorted ik s.db)
    (h : ∀ e ∈ input, ∃ r, it.merge e ((get ik s.db (it.key e)).getD []) = .ok r ∧
      setNew r = get ik s.db (it.key e)) :
    specUpdateS ik it s input = .ok s := by
  unfold specUpdateS
  induction input with
  | nil => rfl
  | cons e es ih =>
    rw [List.foldlM_cons]
    obtain ⟨r, hr, hsn⟩ := h e (List.mem_cons_self ..)
    have hstep : specUpdStep ik it s e = .ok s := by
      unfold specUpdStep
      rw [hr]
      have : applyOpt ik s.db (it.key e) (setNew r) = s.db := (applyOpt_eq_iff hs _ _).mpr hsn
      simp [this]
    rw [hstep]
    exact ih (fun e he => h e (List.mem_cons_of_mem _ he))

/-- once dirty, always dirty -/
theorem specUpdateS_dirty {ik : Bool} (it : Iter E ε) (input : List E) :
    ∀ {s s' : S}, specUpdateS ik it s input = .ok s' → s.dirty = true → s'.dirty = true := by
  unfold specUpdateS
  induction input with
  | nil => intro s s' h hd; cases h; exact hd
  | cons e es ih =>
    intro s s' h hd
    rw [List.foldlM_cons] at h
    cases h1 : specUpdStep ik it s e with
    | error x => rw [h1] at h; cases h
    | ok s1 =>
      rw [h1] at h
      refine ih h ?_
      unfold specUpdStep at h1
      split at h1
      · cases h1
      · split at h1
        · cases h1
        · cases h1; simp [hd]

theorem delS_same_or_dirty (ik : Bool) (s : S) (k : Bytes) : delS ik s k = s ∨ (delS ik s k).dirty = true := by
  rw [delS_eq]
  cases hf : (del ik s.db k).2 with
  | true => right; simp
  | false =>
    left
    have hg : get ik s.db k = none := by
      have := del_snd ik s.db k
      rw [hf] at this
      cases hgk : get ik s.db k with
      | none => rfl
      | some v => rw [hgk] at this; cases this
    rw [del_of_get_none hg]; simp

theorem putS_dirty {ik : Bool} {s s' : S} {k v : Bytes} (h : (putS ik s k v : Except (SErr ε) S) = .ok s') :
    s'.dirty = true := by
  unfold putS at h
  split at h
  · cases h
  · cases h; rfl

theorem updStep_same_or_dirty {ik : Bool} {it : Iter E ε} {s s' : S} {e : E}
    (h : updStep ik it s e = .ok s') : s' = s ∨ s'.dirty = true := by
  unfold updStep at h
  by_cases hk : (it.key e).length = 0
  · simp only [hk, if_true] at h; cases h
  · simp only [hk, if_false] at h
    cases hm : it.merge e ((get ik s.db (it.key e)).getD []) with
    | error x => simp only [hm, liftIter, bind, Except.bind] at h; cases h
    | ok r =>
      simp only [hm, liftIter, bind, Except.bind] at h
      unfold setNewVal at h
      cases r with
      | none => cases h; exact delS_same_or_dirty ik s _
      | some v =>
        simp only at h
        split at h
        · cases h; exact delS_same_or_dirty ik s _
        · split at h
          · cases h; exact Or.inl rfl
          · exact Or.inr (putS_dirty h)

/-- `Update` (any input, any content): either nothing at all was changed — content and dirty bit
    are the initial ones — or the dirty bit is set -/
theorem update_same_or_dirty {ik : Bool} {it : Iter E ε} (input : List E) :
    ∀ s s', update ik it s input = .ok s' → s' = s ∨ s'.dirty = true := by
  simp only [update_eq_fold]
  induction input with
  | nil => intro s s' h; cases h; exact Or.inl rfl
  | cons e es ih =>
    intro s s' h
    rw [List.foldlM_cons] at h
    cases h1 : updStep ik it s e with
    | error x => rw [h1] at h; cases h
    | ok s1 =>
      rw [h1] at h
      rcases ih s1 s' h with h2 | h2
      · rw [h2]; exact updStep_same_or_dirty h1
      · exact Or.inr h2

/-! ### strategy.EmptyPut -/

def specEmptyStep (ik : Bool) (it : Iter E ε) (acc : KVs) (e : E) : Except ε KVs :=
  match it.merge e [] with
  | .error x => .error x
  | .ok v => .ok (match setNew v with
    | none => acc
    | some b => put ik acc (it.key e) b)

theorem specEmptyPut_eq_fold (ik : Bool) (it : Iter E ε) (input : List E) :
    specEmptyPut ik it input = input.foldlM (specEmptyStep ik it) [] := by
  unfold specEmptyPut
  congr 1
  funext acc e
  unfold specEmptyStep
  cases it.merge e [] <;> rfl

/-- the body of `doPut`'s loop (ordinary DBI) in normal form -/
def emptyStep (ik : Bool) (it : Iter E ε) (s : S) (e : E) : Except (SErr ε) S :=
  match it.merge e [] with
  | .error x => .error (.iter x)
  | .ok r =>
    match setNew r with
    | none => .ok s
    | some b => if badKey (it.key e) = true then .error .badKey else .ok ⟨put ik s.db (it.key e) b, true⟩

theorem doPutEmpty_eq_fold (ik : Bool) (it : Iter E ε) (s : S) (input : List E) :
    doPutEmpty ik false it s input = input.foldlM (emptyStep ik it) s := by
  unfold doPutEmpty
  congr 1
  funext s e
  unfold emptyStep
  cases it.merge e [] with
  | error x => rfl
  | ok r =>
    cases r with
    | none => rfl
    | some v =>
      by_cases hv : v.length = 0
      · simp only [liftIter, setNew, bind, Except.bind, hv, if_true]; rfl
      · by_cases hb : badKey (it.key e) = true
        · simp only [liftIter, setNew, bind, Except.bind, hv, hb, if_true, if_false]; rfl
        · simp only [liftIter, setNew, bind, Except.bind, hv, hb, if_false, Bool.false_eq_true]; rfl

theorem emptyStep_spec (ik : Bool) (it : Iter E ε) (acc : KVs) (e : E) :
    (emptyStep ik it ⟨acc, true⟩ e = .error .badKey ∧ badKey (it.key e) = true) ∨
    emptyStep ik it ⟨acc, true⟩ e =
      match specEmptyStep ik it acc e with
      | .ok db' => .ok ⟨db', true⟩
      | .error x => .error (.iter x) := by
  unfold specEmptyStep emptyStep
  cases it.merge e [] with
  | error x => exact Or.inr rfl
  | ok r =>
    cases hr : setNew r with
    | none => exact Or.inr (by simp only [hr])
    | some v =>
      by_cases hb : badKey (it.key e) = true
      · exact Or.inl ⟨by simp only [hr, hb, if_true], hb⟩
      · exact Or.inr (by simp only [hr, hb, Bool.false_eq_true, if_false])

theorem doPutEmpty_spec {ik : Bool} (it : Iter E ε) (input : List E) :
    ∀ (acc : KVs),
      (doPutEmpty ik false it ⟨acc, true⟩ input = .error .badKey ∧ ∃ e ∈ input, badKey (it.key e) = true) ∨
      doPutEmpty ik false it ⟨acc, true⟩ input =
        match input.foldlM (specEmptyStep ik it) acc with
        | .ok db' => .ok ⟨db', true⟩
        | .error x => .error (.iter x) := by
  simp only [doPutEmpty_eq_fold]
  induction input with
  | nil => intro acc; exact Or.inr rfl
  | cons e es ih =>
    intro acc
    rw [List.foldlM_cons, List.foldlM_cons]
    rcases emptyStep_spec ik it acc e with ⟨h1, hb⟩ | h1
    · exact Or.inl ⟨by rw [h1]; rfl, e, List.mem_cons_self .., hb⟩
    · rw [h1]
      cases hs : specEmptyStep ik it acc e with
      | error x => exact Or.inr rfl
      | ok db1 =>
        rcases ih db1 with ⟨h2, e', he', hb⟩ | h2
        · exact Or.inl ⟨h2, e', List.mem_cons_of_mem _ he', hb⟩
        · exact Or.inr h2

end Ls.Strategy
