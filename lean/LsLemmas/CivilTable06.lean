import LsLemmas.CivilTableDefs
/- civil-date table, rows 48000 … 55999 (kernel evaluation; see CivilTableDefs) -/
namespace Ls.Civil

theorem chunk06 : chunkOK 48000 8000 = true := by decide +kernel

end Ls.Civil
