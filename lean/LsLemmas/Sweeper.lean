import LsLemmas.SweeperDefs
/-
  The tomb sweeper, one slice: `expired`, `startAt` (the resume rule of the LimitScanner) and
  `scan` / `slice` as an explicit function of the DBI content.
-/
namespace Ls.Sweeper
open Ls Ls.Lmdb Ls.Txn

/-! ### expired -/

theorem isExpired_iff (cutoff : Nat) (v : Bytes) :
    IsExpired cutoff v ↔
      ∃ h rest, Header.parse v = .ok (h, rest) ∧ Header.isDeleted h.flags = true ∧ h.ts < cutoff := by
  unfold IsExpired expired
  cases hp : Header.parse v with
  | error e =>
    constructor
    · intro h; cases h
    · rintro ⟨h, rest, hp', _⟩; cases hp'
  | ok x =>
    obtain ⟨h, rest⟩ := x
    constructor
    · intro hx
      refine ⟨h, rest, rfl, ?_⟩
      simpa using hx
    · rintro ⟨h', rest', hp', hd, ht⟩
      cases hp'
      simp [hd, ht]

theorem parses_of_expired_ok {cutoff : Nat} {v : Bytes} {b : Bool} (h : expired cutoff v = .ok b) :
    Parses v := by
  unfold expired at h
  split at h
  · cases h
  · rename_i hd rest he; exact ⟨hd, rest, he⟩

theorem expired_ok_of_parses {v : Bytes} (cutoff : Nat) (h : Parses v) : ∃ b, expired cutoff v = .ok b := by
  obtain ⟨hd, rest, hp⟩ := h
  unfold expired; rw [hp]; exact ⟨_, rfl⟩

theorem keep_eq_false {cutoff : Nat} {kv : Bytes × Bytes} : keep cutoff kv = false ↔ IsExpired cutoff kv.2 := by
  simp [keep]

theorem keep_eq_true {cutoff : Nat} {kv : Bytes × Bytes} : keep cutoff kv = true ↔ ¬ IsExpired cutoff kv.2 := by
  simp [keep]

/-! ### lookups in sorted lists, by membership -/

theorem get_eq_some_iff {ik : Bool} {db : KVs} (hs : Sorted ik db) {k v : Bytes} :
    get ik db k = some v ↔ ∃ k', (k', v) ∈ db ∧ kcmp ik k k' = 0 :=
  ⟨get_some_mem, fun ⟨_, hm, hk⟩ => by rw [get_congr ik db hk]; exact get_of_mem hs hm⟩

theorem get_eq_none_iff {ik : Bool} {db : KVs} {k : Bytes} :
    get ik db k = none ↔ ∀ p ∈ db, kcmp ik k p.1 ≠ 0 := by
  refine ⟨?_, get_none_of_ne⟩
  induction db with
  | nil => intro _ p hp; cases hp
  | cons q rest ih =>
    obtain ⟨k0, v0⟩ := q
    intro h p hp
    rw [get_cons] at h
    split at h
    · cases h
    · rename_i hne
      rcases List.mem_cons.mp hp with rfl | hp
      · exact hne
      · exact ih h p hp

theorem Sorted.sublist {ik : Bool} {l db : KVs} (hs : Sorted ik db) (h : l.Sublist db) : Sorted ik l :=
  List.Pairwise.sublist h hs

theorem get_none_of_sublist {ik : Bool} {l db : KVs} {k : Bytes} (h : l.Sublist db)
    (hn : get ik db k = none) : get ik l k = none :=
  get_eq_none_iff.mpr (fun p hp => get_eq_none_iff.mp hn p (h.subset hp))

theorem get_some_of_sublist {ik : Bool} {l db : KVs} {k v : Bytes} (hs : Sorted ik db) (h : l.Sublist db)
    (hg : get ik l k = some v) : get ik db k = some v := by
  obtain ⟨k', hm, hk⟩ := get_some_mem hg
  exact (get_eq_some_iff hs).mpr ⟨k', h.subset hm, hk⟩

/-- in a sorted list, two stored pairs with equivalent keys are the same pair -/
theorem mem_unique {ik : Bool} {db : KVs} (hs : Sorted ik db) {p q : Bytes × Bytes}
    (hp : p ∈ db) (hq : q ∈ db) (h : kcmp ik p.1 q.1 = 0) : p = q := by
  induction db with
  | nil => cases hp
  | cons x rest ih =>
    have ⟨h1, h2⟩ := sorted_cons.mp hs
    rcases List.mem_cons.mp hp with rfl | hp' <;> rcases List.mem_cons.mp hq with rfl | hq'
    · rfl
    · have := h1 q hq'; omega
    · have := h1 p hp'; have := (kcmp_eq_comm ik p.1 q.1).mp h; omega
    · exact ih h2 hp' hq'

theorem sorted_append {ik : Bool} {A B : KVs} :
    Sorted ik (A ++ B) ↔ Sorted ik A ∧ Sorted ik B ∧ ∀ a ∈ A, ∀ b ∈ B, kcmp ik a.1 b.1 < 0 :=
  List.pairwise_append

/-! ### the resume rule -/

theorem dropWhile_append_all {α} (p : α → Bool) (A X : List α) (h : ∀ a ∈ A, p a = true) :
    (A ++ X).dropWhile p = X.dropWhile p := by
  induction A with
  | nil => rfl
  | cons a A ih =>
    rw [List.cons_append, List.dropWhile_cons, if_pos (h a (List.mem_cons_self ..))]
    exact ih (fun b hb => h b (List.mem_cons_of_mem _ hb))

/-- a slice starts at a suffix of the DBI -/
theorem startAt_suffix (ik : Bool) (db : KVs) (last : Option (Bytes × Bytes)) :
    ∃ pre, db = pre ++ startAt ik db last := by
  cases last with
  | none => exact ⟨[], rfl⟩
  | some l =>
    obtain ⟨lk, lv⟩ := l
    simp only [startAt]
    have h := List.takeWhile_append_dropWhile (p := fun kv : Bytes × Bytes => decide (kcmp ik kv.1 lk < 0)) (l := db)
    generalize db.dropWhile (fun kv => decide (kcmp ik kv.1 lk < 0)) = rest at h
    generalize db.takeWhile (fun kv => decide (kcmp ik kv.1 lk < 0)) = tk at h
    cases rest with
    | nil => exact ⟨db, by simp⟩
    | cons p tl =>
      obtain ⟨k, v⟩ := p
      simp only
      split
      · exact ⟨tk ++ [(k, v)], by rw [← h]; simp⟩
      · exact ⟨tk, h.symm⟩

theorem startAt_sublist (ik : Bool) (db : KVs) (last : Option (Bytes × Bytes)) :
    (startAt ik db last).Sublist db := by
  obtain ⟨pre, h⟩ := startAt_suffix ik db last
  conv => rhs; rw [h]
  exact List.sublist_append_right _ _

theorem startAt_cons_lt {ik : Bool} {p : Bytes × Bytes} {db : KVs} {lk lv : Bytes}
    (h : kcmp ik p.1 lk < 0) : startAt ik (p :: db) (some (lk, lv)) = startAt ik db (some (lk, lv)) := by
  simp only [startAt, List.dropWhile_cons, h, decide_true, if_true]

theorem startAt_cons_ge {ik : Bool} {p : Bytes × Bytes} {db : KVs} {lk lv : Bytes}
    (h : ¬ kcmp ik p.1 lk < 0) :
    startAt ik (p :: db) (some (lk, lv)) = if p = (lk, lv) then db else p :: db := by
  obtain ⟨k, v⟩ := p
  simp only [startAt, List.dropWhile_cons, h, decide_false, Bool.false_eq_true, if_false, Prod.mk.injEq]

/-- where the next slice starts, as a filter: everything above the resume key, and the entry
    at the resume key unless it is byte-identical to what the previous slice saw last -/
theorem startAt_eq_filter {ik : Bool} {db : KVs} (hs : Sorted ik db) (lk lv : Bytes) :
    startAt ik db (some (lk, lv)) =
      db.filter (fun kv => decide (kcmp ik lk kv.1 < 0) || (decide (kcmp ik kv.1 lk = 0) && decide (kv ≠ (lk, lv)))) := by
  induction db with
  | nil => rfl
  | cons p rest ih =>
    have ⟨h1, h2⟩ := sorted_cons.mp hs
    by_cases hlt : kcmp ik p.1 lk < 0
    · rw [startAt_cons_lt hlt, ih h2, List.filter_cons]
      have : ¬ kcmp ik lk p.1 < 0 := kcmp_lt_asymm ik hlt
      have h0 : ¬ kcmp ik p.1 lk = 0 := by omega
      simp [this, h0]
    · rw [startAt_cons_ge hlt]
      have hrest : ∀ q ∈ rest, kcmp ik lk q.1 < 0 := by
        intro q hq
        have hq' := h1 q hq
        by_cases he : kcmp ik p.1 lk = 0
        · exact kcmp_lt_of_eq_of_lt ik ((kcmp_eq_comm ik _ _).mp he) hq'
        · exact kcmp_lt_trans ik (kcmp_gt_of_not ik hlt he) hq'
      have hf : rest.filter (fun kv => decide (kcmp ik lk kv.1 < 0) || (decide (kcmp ik kv.1 lk = 0) && decide (kv ≠ (lk, lv)))) = rest := by
        apply List.filter_eq_self.mpr
        intro q hq; simp [hrest q hq]
      rw [List.filter_cons, hf]
      by_cases hp : p = (lk, lv)
      · subst hp
        simp [kcmp_refl]
      · rw [if_neg hp]
        by_cases he : kcmp ik p.1 lk = 0
        · simp [he, hp]
        · have := kcmp_gt_of_not ik hlt he
          simp [this]

theorem mem_startAt {ik : Bool} {db : KVs} (hs : Sorted ik db) {lk lv : Bytes} {kv : Bytes × Bytes} :
    kv ∈ startAt ik db (some (lk, lv)) ↔
      kv ∈ db ∧ (kcmp ik lk kv.1 < 0 ∨ (kcmp ik kv.1 lk = 0 ∧ kv ≠ (lk, lv))) := by
  rw [startAt_eq_filter hs, List.mem_filter]
  simp

/-- resuming after the last examined entry `(lk, lv)`: whether that entry is still there (it is
    skipped) or was itself deleted, the scan continues with the entries above it -/
theorem startAt_resume {ik : Bool} {A B : KVs} {lk lv : Bytes}
    (hA : ∀ p ∈ A, kcmp ik p.1 lk < 0) (hB : ∀ p ∈ B, kcmp ik lk p.1 < 0) :
    startAt ik (A ++ (lk, lv) :: B) (some (lk, lv)) = B ∧ startAt ik (A ++ B) (some (lk, lv)) = B := by
  have hd : ∀ X : KVs, (A ++ X).dropWhile (fun kv => decide (kcmp ik kv.1 lk < 0)) =
      X.dropWhile (fun kv => decide (kcmp ik kv.1 lk < 0)) :=
    fun X => dropWhile_append_all _ A X (fun a ha => by simp [hA a ha])
  constructor
  · simp only [startAt, hd, List.dropWhile_cons, kcmp_refl ik lk]
    simp
  · simp only [startAt, hd]
    cases B with
    | nil => rfl
    | cons q tl =>
      obtain ⟨k, v⟩ := q
      have h1 : kcmp ik lk k < 0 := hB (k, v) (List.mem_cons_self ..)
      have h2 : ¬ kcmp ik k lk < 0 := kcmp_lt_asymm ik h1
      have h3 : k ≠ lk := by
        intro e; subst e; have := kcmp_refl ik k; omega
      simp [h2, h3]

/-! ### one slice as a function of the content -/

/-- the flag a slice with limit `lim` over `todo` returns -/
def hitLimit (lim : Option Nat) (todo : KVs) : Bool :=
  match lim with
  | none => false
  | some m => decide (m ≤ todo.length)

theorem scan_zero (ik : Bool) (cutoff : Nat) (todo db : KVs) (last : Option (Bytes × Bytes)) (c : Nat) :
    scan ik cutoff (some 0) todo db last c = .ok { db := db, last := last, limitReached := true, cleaned := c } := by
  cases todo <;> rfl

theorem scan_nil (ik : Bool) (cutoff : Nat) (lim : Option Nat) (db : KVs) (last : Option (Bytes × Bytes)) (c : Nat) :
    scan ik cutoff lim [] db last c = .ok { db := db, last := last, limitReached := hitLimit lim [], cleaned := c } := by
  cases lim with
  | none => rfl
  | some m => cases m <;> rfl

theorem scan_cons (ik : Bool) (cutoff : Nat) {lim : Option Nat} (hl : lim ≠ some 0) (k v : Bytes) (rest db : KVs)
    (last : Option (Bytes × Bytes)) (c : Nat) :
    scan ik cutoff lim ((k, v) :: rest) db last c =
      match expired cutoff v with
      | .error e => .error e
      | .ok true => scan ik cutoff (lim.map (· - 1)) rest (del ik db k).1 (some (k, v)) (c + 1)
      | .ok false => scan ik cutoff (lim.map (· - 1)) rest db (some (k, v)) c := by
  cases lim with
  | none => rfl
  | some m =>
    cases m with
    | zero => exact absurd rfl hl
    | succ m => rfl

theorem covered_zero (todo : KVs) : covered (some 0) todo = 0 := by simp [covered]

theorem covered_cons {lim : Option Nat} (hl : lim ≠ some 0) (p : Bytes × Bytes) (rest : KVs) :
    covered lim (p :: rest) = covered (lim.map (· - 1)) rest + 1 := by
  cases lim with
  | none => rfl
  | some m =>
    cases m with
    | zero => exact absurd rfl hl
    | succ m => simp only [covered, Option.map, List.length_cons]; omega

theorem hitLimit_cons {lim : Option Nat} (hl : lim ≠ some 0) (p : Bytes × Bytes) (rest : KVs) :
    hitLimit lim (p :: rest) = hitLimit (lim.map (· - 1)) rest := by
  cases lim with
  | none => rfl
  | some m =>
    cases m with
    | zero => exact absurd rfl hl
    | succ m => simp [hitLimit]

/-- what a scan does, in closed form -/
theorem scan_spec {ik : Bool} {cutoff : Nat} : ∀ (todo : KVs) (lim : Option Nat) (pre : KVs)
    (last : Option (Bytes × Bytes)) (c : Nat) (r : SliceRes),
    Sorted ik (pre ++ todo) → scan ik cutoff lim todo (pre ++ todo) last c = .ok r →
    r.db = pre ++ ((todo.take (covered lim todo)).filter (keep cutoff) ++ todo.drop (covered lim todo)) ∧
    r.cleaned = c + ((todo.take (covered lim todo)).filter (fun kv => decide (IsExpired cutoff kv.2))).length ∧
    r.last = ((todo.take (covered lim todo)).getLast?).or last ∧
    r.limitReached = hitLimit lim todo ∧
    (∀ kv ∈ todo.take (covered lim todo), Parses kv.2) := by
  intro todo
  induction todo with
  | nil =>
    intro lim pre last c r _ h
    rw [scan_nil] at h
    cases h
    simp
  | cons p rest ih =>
    obtain ⟨k, v⟩ := p
    intro lim pre last c r hs h
    by_cases hl : lim = some 0
    · subst hl
      rw [scan_zero] at h
      cases h
      simp [covered_zero, hitLimit]
    · rw [scan_cons ik cutoff hl] at h
      rw [covered_cons hl, hitLimit_cons hl]
      simp only [List.take_succ_cons, List.drop_succ_cons]
      have ⟨hsp, hsr, hcr⟩ := sorted_append.mp hs
      cases hx : expired cutoff v with
      | error e => rw [hx] at h; cases h
      | ok b =>
        have hpv : Parses v := parses_of_expired_ok hx
        cases b with
        | true =>
          rw [hx] at h
          simp only at h
          have hd : (del ik (pre ++ (k, v) :: rest) k).1 = pre ++ rest := by
            rw [del_append_gt _ (fun p hp => hcr p hp (k, v) (List.mem_cons_self ..)),
              del_head_eq _ _ (kcmp_refl ik k)]
          rw [hd] at h
          have hs' : Sorted ik (pre ++ rest) :=
            hs.sublist (List.Sublist.append_left (List.sublist_cons_self _ _) _)
          obtain ⟨h1, h2, h3, h4, h5⟩ := ih _ pre _ _ r hs' h
          have hk : keep cutoff (k, v) = false := keep_eq_false.mpr hx
          have he : decide (IsExpired cutoff v) = true := decide_eq_true hx
          refine ⟨?_, ?_, ?_, h4, ?_⟩
          · rw [h1, List.filter_cons, hk]; simp
          · rw [h2, List.filter_cons]; simp only [he, if_true, List.length_cons]; omega
          · rw [h3, List.getLast?_cons]
            cases (List.take (covered (Option.map (· - 1) lim) rest) rest).getLast? <;> rfl
          · intro kv hkv
            rcases List.mem_cons.mp hkv with rfl | hkv
            · exact hpv
            · exact h5 kv hkv
        | false =>
          rw [hx] at h
          simp only at h
          have happ : pre ++ (k, v) :: rest = (pre ++ [(k, v)]) ++ rest := by simp
          rw [happ] at h hs
          obtain ⟨h1, h2, h3, h4, h5⟩ := ih _ (pre ++ [(k, v)]) _ _ r hs h
          have hne : ¬ IsExpired cutoff v := by unfold IsExpired; rw [hx]; intro c; cases c
          have hk : keep cutoff (k, v) = true := keep_eq_true.mpr hne
          have he : decide (IsExpired cutoff v) = false := decide_eq_false hne
          refine ⟨?_, ?_, ?_, h4, ?_⟩
          · rw [h1, List.filter_cons, hk]; simp
          · rw [h2, List.filter_cons]; simp [he]
          · rw [h3, List.getLast?_cons]
            cases (List.take (covered (Option.map (· - 1) lim) rest) rest).getLast? <;> rfl
          · intro kv hkv
            rcases List.mem_cons.mp hkv with rfl | hkv
            · exact hpv
            · exact h5 kv hkv

/-- a scan only fails on a value that does not parse -/
theorem scan_ok {ik : Bool} {cutoff : Nat} : ∀ (todo : KVs) (lim : Option Nat) (db : KVs)
    (last : Option (Bytes × Bytes)) (c : Nat),
    (∀ kv ∈ todo.take (covered lim todo), Parses kv.2) → ∃ r, scan ik cutoff lim todo db last c = .ok r := by
  intro todo
  induction todo with
  | nil => intro lim db last c _; rw [scan_nil]; exact ⟨_, rfl⟩
  | cons p rest ih =>
    obtain ⟨k, v⟩ := p
    intro lim db last c hp
    by_cases hl : lim = some 0
    · subst hl; rw [scan_zero]; exact ⟨_, rfl⟩
    · rw [scan_cons ik cutoff hl]
      rw [covered_cons hl, List.take_succ_cons] at hp
      obtain ⟨b, hb⟩ := expired_ok_of_parses cutoff (hp (k, v) (List.mem_cons_self ..))
      rw [hb]
      have hp' : ∀ kv ∈ rest.take (covered (lim.map (· - 1)) rest), Parses kv.2 :=
        fun kv hkv => hp kv (List.mem_cons_of_mem _ hkv)
      cases b
      · exact ih _ _ _ _ hp'
      · exact ih _ _ _ _ hp'

/-- a scan that succeeds has parsed every value it covers (no sortedness needed) -/
theorem scan_parses {ik : Bool} {cutoff : Nat} {todo : KVs} {lim : Option Nat} {db : KVs}
    {last : Option (Bytes × Bytes)} {c : Nat} {r : SliceRes}
    (h : scan ik cutoff lim todo db last c = .ok r) :
    ∀ kv ∈ todo.take (covered lim todo), Parses kv.2 := by
  induction todo generalizing lim db last c with
  | nil => intro kv hkv; simp at hkv
  | cons p rest ih =>
    obtain ⟨k, v⟩ := p
    by_cases hl : lim = some 0
    · subst hl; intro kv hkv; simp [covered_zero] at hkv
    · rw [scan_cons ik cutoff hl] at h
      rw [covered_cons hl, List.take_succ_cons]
      cases hx : expired cutoff v with
      | error e => rw [hx] at h; cases h
      | ok b =>
        rw [hx] at h
        intro kv hkv
        rcases List.mem_cons.mp hkv with rfl | hkv
        · exact parses_of_expired_ok hx
        · cases b <;> exact ih h kv hkv

/-- a scan that fails met a value that does not parse among the entries it covers -/
theorem scan_error {ik : Bool} {cutoff : Nat} {todo : KVs} {lim : Option Nat} {db : KVs}
    {last : Option (Bytes × Bytes)} {c : Nat} {e : Err}
    (h : scan ik cutoff lim todo db last c = .error e) :
    e = .header ∧ ∃ kv ∈ todo.take (covered lim todo), ¬ Parses kv.2 := by
  constructor
  · induction todo generalizing lim db last c with
    | nil => rw [scan_nil] at h; cases h
    | cons p rest ih =>
      obtain ⟨k, v⟩ := p
      by_cases hl : lim = some 0
      · subst hl; rw [scan_zero] at h; cases h
      · rw [scan_cons ik cutoff hl] at h
        cases hx : expired cutoff v with
        | error e' =>
          rw [hx] at h; cases h
          unfold expired at hx; split at hx
          · cases hx; rfl
          · cases hx
        | ok b => rw [hx] at h; cases b <;> exact ih h
  · refine Classical.byContradiction fun hn => ?_
    have : ∀ kv ∈ todo.take (covered lim todo), Parses kv.2 := by
      intro kv hkv; exact Classical.byContradiction fun hp => hn ⟨kv, hkv, hp⟩
    obtain ⟨r, hr⟩ := scan_ok (ik := ik) (cutoff := cutoff) todo lim db last c this
    rw [hr] at h; cases h

/-- one slice in closed form: with `db = pre ++ todo` (`todo` where the slice starts), the first
    `covered n todo` entries of `todo` are examined, the expired ones among them removed -/
theorem slice_spec {ik : Bool} {cutoff : Nat} {db : KVs} {last : Option (Bytes × Bytes)} {n : Option Nat}
    {r : SliceRes} (hs : Sorted ik db) (h : slice ik cutoff db last n = .ok r) :
    ∃ pre, db = pre ++ startAt ik db last ∧
      r.db = pre ++ (((startAt ik db last).take (covered n (startAt ik db last))).filter (keep cutoff)
                ++ (startAt ik db last).drop (covered n (startAt ik db last))) ∧
      r.cleaned = (((startAt ik db last).take (covered n (startAt ik db last))).filter
                    (fun kv => decide (IsExpired cutoff kv.2))).length ∧
      r.last = (((startAt ik db last).take (covered n (startAt ik db last))).getLast?).or last ∧
      r.limitReached = hitLimit n (startAt ik db last) ∧
      (∀ kv ∈ (startAt ik db last).take (covered n (startAt ik db last)), Parses kv.2) := by
  obtain ⟨pre, hpre⟩ := startAt_suffix ik db last
  refine ⟨pre, hpre, ?_⟩
  unfold slice at h
  generalize startAt ik db last = todo at *
  subst hpre
  have := scan_spec todo n pre last 0 r hs h
  simpa using this

end Ls.Sweeper
