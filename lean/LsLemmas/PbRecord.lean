import LsLemmas.CodecTotal
/-
  What a record of the declarative semantics (PbSpec.record) means for the primitives the
  hand-written decoders use (csproto.DecodeVarint, skipTag / Decoder.Skip).
-/
namespace Ls.CodecS
open Ls Ls.Wire Ls.Codec Ls.PbSpec

/-- the shape of one record in terms of DecodeVarint and slices of the input -/
inductive RecShape (p1 : Bytes) (wt : Nat) (payload : Payload) (rest : Bytes) : Prop where
  | varint (v n2 : Nat) (hwt : wt = 0) (hd : decodeVarint p1 = .ok (v, n2)) (hn : n2 ≤ p1.length)
      (hp : payload = .varint v) (hr : rest = p1.drop n2)
  | i64 (hwt : wt = 1) (hl : 8 ≤ p1.length) (hp : payload = .i64 (p1.take 8)) (hr : rest = p1.drop 8)
  | len (l n2 : Nat) (hwt : wt = 2) (hd : decodeVarint p1 = .ok (l, n2)) (hn : 1 ≤ n2 ∧ n2 ≤ p1.length)
      (hl : l ≤ (p1.drop n2).length) (hp : payload = .len ((p1.drop n2).take l))
      (hr : rest = (p1.drop n2).drop l)
  | i32 (hwt : wt = 5) (hl : 4 ≤ p1.length) (hp : payload = .i32 (p1.take 4)) (hr : rest = p1.drop 4)

theorem takeN_some {n : Nat} {b x r : Bytes} (h : takeN n b = some (x, r)) :
    n ≤ b.length ∧ x = b.take n ∧ r = b.drop n := by
  unfold takeN at h
  split at h
  · injection h with h; injection h with h1 h2
    exact ⟨by assumption, h1.symm, h2.symm⟩
  · simp at h

theorem record_cases (p : Bytes) (r : Rec) (rest : Bytes) (h : record p = some (r, rest)) :
    ∃ key n, decodeVarint p = .ok (key, n) ∧ 1 ≤ n ∧ n ≤ p.length ∧ key < two64 ∧
      r.field = key / 8 ∧ r.field ≠ 0 ∧ r.field < 2 ^ 29 ∧
      RecShape (p.drop n) (key % 8) r.payload rest := by
  unfold record at h
  rcases hv : PbSpec.varint p with _ | ⟨key, r1⟩
  · simp [hv] at h
  obtain ⟨n, hd, hr1, hn1, hn2⟩ := decodeVarint_of_spec p key r1 hv
  obtain ⟨_, _, _, hk64⟩ := decodeVarint_bounds p key n hd
  simp only [hv] at h
  split at h
  · simp at h
  rename_i hf
  have hf0 : key / 8 ≠ 0 := fun h0 => hf (Or.inl h0)
  have hf29 : key / 8 < 2 ^ 29 := by
    rcases Nat.lt_or_ge (key / 8) (2 ^ 29) with h' | h'
    · exact h'
    · exact absurd (Or.inr h') hf
  subst hr1
  split at h
  · rename_i hw
    rcases hv2 : PbSpec.varint (p.drop n) with _ | ⟨v, r2⟩
    · simp [hv2] at h
    obtain ⟨n2, hd2, hr2, _, hn22⟩ := decodeVarint_of_spec _ v r2 hv2
    simp only [hv2] at h
    injection h with h; injection h with h1 h2
    subst h1 h2
    exact ⟨key, n, hd, hn1, hn2, hk64, rfl, hf0, hf29, .varint v n2 hw hd2 hn22 rfl hr2⟩
  split at h
  · rename_i hw
    rcases ht : takeN 8 (p.drop n) with _ | ⟨x, r2⟩
    · simp [ht] at h
    obtain ⟨t1, t2, t3⟩ := takeN_some ht
    simp only [ht] at h
    injection h with h; injection h with h1 h2
    subst h1 h2
    exact ⟨key, n, hd, hn1, hn2, hk64, rfl, hf0, hf29, .i64 hw t1 (by simp [t2]) t3⟩
  split at h
  · rename_i hw
    rcases hv2 : PbSpec.varint (p.drop n) with _ | ⟨l, r2⟩
    · simp [hv2] at h
    obtain ⟨n2, hd2, hr2, hn21, hn22⟩ := decodeVarint_of_spec _ l r2 hv2
    simp only [hv2] at h
    rcases ht : takeN l r2 with _ | ⟨x, r3⟩
    · simp [ht] at h
    obtain ⟨t1, t2, t3⟩ := takeN_some ht
    simp only [ht] at h
    injection h with h; injection h with h1 h2
    subst h1 h2 hr2
    exact ⟨key, n, hd, hn1, hn2, hk64, rfl, hf0, hf29, .len l n2 hw hd2 ⟨hn21, hn22⟩ t1 (by simp [t2]) t3⟩
  split at h
  · rename_i hw
    rcases ht : takeN 4 (p.drop n) with _ | ⟨x, r2⟩
    · simp [ht] at h
    obtain ⟨t1, t2, t3⟩ := takeN_some ht
    simp only [ht] at h
    injection h with h; injection h with h1 h2
    subst h1 h2
    exact ⟨key, n, hd, hn1, hn2, hk64, rfl, hf0, hf29, .i32 hw t1 (by simp [t2]) t3⟩
  · simp at h

/-- a record leaves a strictly shorter input -/
theorem record_adv (p : Bytes) (r : Rec) (rest : Bytes) (h : record p = some (r, rest)) : Adv p rest := by
  obtain ⟨key, n, hd, hn1, hn2, _, _, _, _, sh⟩ := record_cases p r rest h
  apply adv_trans_drop n hn2
  cases sh with
  | varint v n2 hwt hd2 hn hp hr =>
    obtain ⟨g1, _, _, _⟩ := decodeVarint_bounds _ v n2 hd2
    exact ⟨n2, g1, hn, hr⟩
  | i64 hwt hl hp hr => exact ⟨8, by omega, hl, hr⟩
  | len l n2 hwt hd2 hn hl hp hr =>
    simp only [List.length_drop] at hl hn
    exact ⟨n2 + l, by omega, by simp only [List.length_drop]; omega, by rw [hr, List.drop_drop]⟩
  | i32 hwt hl hp hr => exact ⟨4, by omega, hl, hr⟩

/-- skipTag skips exactly the payload of a record -/
theorem skipS_of_shape (p1 : Bytes) (wt : Nat) (payload : Payload) (rest : Bytes)
    (sh : RecShape p1 wt payload rest) : skipS p1 wt = .ok rest := by
  unfold skipS
  cases sh with
  | varint v n2 hwt hd2 hn hp hr => simp [hwt, wtVarint, hd2, hr]
  | i64 hwt hl hp hr =>
    simp [hwt, wtVarint, wtLen, wtFixed32, wtFixed64, hr]; omega
  | len l n2 hwt hd2 hn hl hp hr =>
    simp only [List.length_drop] at hl
    simp [hwt, wtVarint, wtLen, hd2, hr, List.drop_drop]; omega
  | i32 hwt hl hp hr =>
    simp [hwt, wtVarint, wtLen, wtFixed32, hr]; omega

/-- Decoder.Skip skips exactly the payload of a record whose length is within the limit -/
theorem decSkipS_of_shape (p1 : Bytes) (maxLen wt : Nat) (payload : Payload) (rest : Bytes)
    (sh : RecShape p1 wt payload rest) (hmax : ∀ x, payload = .len x → x.length ≤ maxLen) :
    decSkipS p1 maxLen wt = .ok rest := by
  unfold decSkipS
  cases sh with
  | varint v n2 hwt hd2 hn hp hr =>
    obtain ⟨g1, g2, _, _⟩ := decodeVarint_bounds _ v n2 hd2
    have hne : p1 ≠ [] := by intro h; subst h; simp at g2; omega
    simp [hne, hwt, wtVarint, hd2, hr]; omega
  | i64 hwt hl hp hr =>
    have hne : p1 ≠ [] := by intro h; subst h; simp at hl
    simp [hne, hwt, wtVarint, wtLen, wtFixed32, wtFixed64, hr]; omega
  | len l n2 hwt hd2 hn hl hp hr =>
    simp only [List.length_drop] at hl
    have hne : p1 ≠ [] := by intro h; subst h; simp at hn; omega
    have hlm : l ≤ maxLen := by
      have := hmax _ hp
      simp only [List.length_take, List.length_drop] at this
      omega
    have hn0 : n2 ≠ 0 := by omega
    have h1 : ¬ (maxLen < l) := by omega
    have h2 : ¬ (p1.length < n2 + l) := by omega
    simp [hne, hwt, wtVarint, wtLen, wtFixed64, hd2, hr, List.drop_drop, hn0, h1, h2]
  | i32 hwt hl hp hr =>
    have hne : p1 ≠ [] := by intro h; subst h; simp at hl
    simp [hne, hwt, wtVarint, wtLen, wtFixed32, wtFixed64, hr]; omega

/-! ### fuel of the record tokeniser -/

theorem recordsN_nil (f : Nat) : recordsN f [] = some [] := by
  cases f <;> rfl

theorem recordsN_cons (f : Nat) (b : UInt8) (tl : Bytes) :
    recordsN (f + 1) (b :: tl) = match record (b :: tl) with
      | none => none
      | some (r, rest) => match recordsN f rest with
        | none => none
        | some rs => some (r :: rs) := rfl

end Ls.CodecS
