import LsModel.Txn
import LsLemmas.TxnBase
import LsLemmas.StrategyIter3
import LsLemmas.MergeRefine
/-
  Transaction-level model (LsModel/Txn.lean): basic facts about the environment operations
  (findDbi / setKvs / insertDbi / openCreate / runOn), DBI names, readDBI.
  Helper lemmas for C10 / C11 / C20 (no property theorems here).
-/
namespace Ls.Txn
open Ls Ls.Lmdb Ls.Strategy Ls.Merge

/-! ## names -/

theorem shadowPrefix_eqMirror :
    shadowPrefix = [0x5f, 0x73, 0x79, 0x6e, 0x63, 0x5f, 0x73, 0x68, 0x61, 0x64, 0x6f, 0x77, 0x5f] := by
  decide +kernel
theorem hackName_ne : strBytes Gen.transformDupSortHackV1 ≠ [] := by decide +kernel

theorem shadowName_ne_of_not_private {a n : Bytes} (h : isPrivate n = false) : shadowName a ≠ n := by
  intro he; rw [← he, isPrivate_shadowName] at h; cases h

/-! ## flags -/

theorem isIntKey_mask (f : Nat) : isIntKey (f &&& Gen.allowedShadowDBIFlagsMask) = isIntKey f := by
  unfold isIntKey Gen.allowedShadowDBIFlagsMask Gen.lmdbIntegerKeyFlag
  rw [Nat.and_assoc, Nat.and_self]

theorem isDupSort_mask (f : Nat) : isDupSort (f &&& Gen.allowedShadowDBIFlagsMask) = false := by
  unfold isDupSort Gen.allowedShadowDBIFlagsMask Gen.dbiDupSort
  rw [Nat.and_assoc]
  simp

/-! ## findDbi / setKvs / insertDbi -/

theorem findDbi_nil (n : Bytes) : findDbi [] n = none := rfl

theorem findDbi_none_iff {dbis : List Dbi} {n : Bytes} : findDbi dbis n = none ↔ ∀ d ∈ dbis, d.name ≠ n := by
  unfold findDbi
  rw [List.find?_eq_none]
  simp

theorem findDbi_isSome_iff {dbis : List Dbi} {n : Bytes} :
    (findDbi dbis n).isSome = true ↔ n ∈ dbis.map (·.name) := by
  induction dbis with
  | nil => simp [findDbi_nil]
  | cons x rest ih =>
    rw [findDbi_cons]
    by_cases h : x.name = n
    · simp [h]
    · rw [if_neg h, ih]
      simp only [List.map_cons, List.mem_cons]
      constructor
      · exact Or.inr
      · rintro (h' | h')
        · exact absurd h'.symm h
        · exact h'

theorem findDbi_setKvsMirror (dbis : List Dbi) (n : Bytes) (kvs : KVs) (m : Bytes) :
    findDbi (setKvs dbis n kvs) m =
      if m = n then (findDbi dbis n).map (fun d => { d with kvs := kvs }) else findDbi dbis m := by
  induction dbis with
  | nil => simp [setKvs, findDbi_nil]
  | cons x rest ih =>
    have hc : setKvs (x :: rest) n kvs
        = (if x.name = n then { x with kvs := kvs } else x) :: setKvs rest n kvs := rfl
    rw [hc, findDbi_cons, findDbi_cons, findDbi_cons, ih]
    by_cases hx : x.name = n
    · by_cases hm : m = n
      · subst hm; simp [hx]
      · have : ¬ n = m := fun h => hm h.symm
        simp [hx, hm, this]
    · by_cases hm : m = n
      · subst hm; simp [hx]
      · simp [hx, hm]

/-- writing back the content a DBI already has changes nothing -/
theorem setKvs_same {dbis : List Dbi} {n : Bytes} (h : ∀ d ∈ dbis, d.name = n → d.kvs = kvs) :
    setKvs dbis n kvs = dbis := by
  unfold setKvs
  conv => rhs; rw [← List.map_id dbis]
  apply List.map_congr_left
  intro d hd
  by_cases hn : d.name = n
  · rw [if_pos hn]
    have := h d hd hn
    cases d; simp_all
  · rw [if_neg hn]; rfl

theorem setKvs_names (dbis : List Dbi) (n : Bytes) (kvs : KVs) :
    (setKvs dbis n kvs).map (·.name) = dbis.map (·.name) := by
  unfold setKvs
  rw [List.map_map]
  apply List.map_congr_left
  intro d _
  simp only [Function.comp]
  split <;> rfl

theorem findDbi_insertDbi_ne (dbis : List Dbi) (d : Dbi) (m : Bytes) (h : m ≠ d.name) :
    findDbi (insertDbi dbis d) m = findDbi dbis m := by
  induction dbis with
  | nil => simp [insertDbi, findDbi_cons, findDbi_nil, Ne.symm h]
  | cons x rest ih =>
    unfold insertDbi
    split
    · rw [findDbi_cons, if_neg (Ne.symm h)]
    · rw [findDbi_cons, findDbi_cons, ih]

theorem findDbi_insertDbi_self (dbis : List Dbi) (d : Dbi) (h : findDbi dbis d.name = none) :
    findDbi (insertDbi dbis d) d.name = some d := by
  induction dbis with
  | nil => simp [insertDbi, findDbi_cons]
  | cons x rest ih =>
    rw [findDbi_cons] at h
    split at h
    · cases h
    · rename_i hx
      unfold insertDbi
      split
      · rw [findDbi_cons, if_pos rfl]
      · rw [findDbi_cons, if_neg hx, ih h]

theorem insertDbi_mem (dbis : List Dbi) (d x : Dbi) : x ∈ insertDbi dbis d ↔ x = d ∨ x ∈ dbis := by
  induction dbis with
  | nil => simp [insertDbi]
  | cons y rest ih =>
    unfold insertDbi
    split
    · simp
    · simp only [List.mem_cons, ih]
      constructor
      · rintro (h | h | h)
        · exact Or.inr (Or.inl h)
        · exact Or.inl h
        · exact Or.inr (Or.inr h)
      · rintro (h | h | h)
        · exact Or.inr (Or.inl h)
        · exact Or.inl h
        · exact Or.inr (Or.inr h)

/-! ## openCreate / runOn -/

theorem openCreate_find_ne (w : W) (n : Bytes) (fl : Nat) (m : Bytes) (h : m ≠ n) :
    findDbi (openCreate w n fl).dbis m = findDbi w.dbis m := by
  unfold openCreate
  split
  · rfl
  · exact findDbi_insertDbi_ne _ _ _ h

theorem openCreate_find_self (w : W) (n : Bytes) (fl : Nat) :
    findDbi (openCreate w n fl).dbis n =
      some ((findDbi w.dbis n).getD { name := n, flags := fl, kvs := [] }) := by
  unfold openCreate
  split
  · rename_i d hd; simp [hd]
  · rename_i hd
    rw [hd]
    exact findDbi_insertDbi_self w.dbis { name := n, flags := fl, kvs := [] } hd

theorem openCreate_of_someMirror {w : W} {n : Bytes} {d : Dbi} (fl : Nat) (h : findDbi w.dbis n = some d) :
    openCreate w n fl = w := by
  unfold openCreate; rw [h]

theorem openCreate_mem (w : W) (n : Bytes) (fl : Nat) (x : Dbi) (hx : x ∈ (openCreate w n fl).dbis) :
    x ∈ w.dbis ∨ (x = { name := n, flags := fl, kvs := [] } ∧ findDbi w.dbis n = none) := by
  unfold openCreate at hx
  split at hx
  · exact Or.inl hx
  · rename_i hn
    rcases (insertDbi_mem _ _ _).mp hx with h | h
    · exact Or.inr ⟨h, hn⟩
    · exact Or.inl h

theorem runOn_eq {w : W} {n : Bytes} {d : Dbi} {f : S → Except Err S} {s : S}
    (hd : findDbi w.dbis n = some d) (hs : f { db := d.kvs, dirty := w.dirty } = .ok s) :
    runOn w n f = .ok { dbis := setKvs w.dbis n s.db, dirty := s.dirty } := by
  unfold runOn
  simp only [hd, hs, bind, Except.bind, pure, Except.pure]

/-- a run that returns the content and the dirty bit unchanged leaves the working state as it was -/
theorem runOn_noop {w : W} {n : Bytes} {d : Dbi} {f : S → Except Err S}
    (hd : findDbi w.dbis n = some d) (hdist : ∀ x ∈ w.dbis, x.name = n → x = d)
    (hs : f { db := d.kvs, dirty := w.dirty } = .ok { db := d.kvs, dirty := w.dirty }) :
    runOn w n f = .ok w := by
  rw [runOn_eq hd hs]
  simp only
  rw [setKvs_same (fun x hx hn => by rw [hdist x hx hn])]

/-- equality of results is decidable (for the concrete instances checked by kernel evaluation) -/
instance exceptDecEq {ε α} [DecidableEq ε] [DecidableEq α] : DecidableEq (Except ε α) := fun a b =>
  match a, b with
  | .ok x, .ok y => if h : x = y then isTrue (by rw [h]) else isFalse (fun h' => h (Except.ok.inj h'))
  | .error x, .error y => if h : x = y then isTrue (by rw [h]) else isFalse (fun h' => h (Except.error.inj h'))
  | .ok _, .error _ => isFalse (fun h => by cases h)
  | .error _, .ok _ => isFalse (fun h => by cases h)

instance (D : KVs) : Decidable (DKeysOK D) := by unfold DKeysOK; exact inferInstance

/-! ## mapStratErr -/

theorem mapStratErr_ok {ε α} {x : Except (SErr ε) α} {a : α} (h : mapStratErr x = .ok a) : x = .ok a := by
  cases x with
  | ok b => simpa [mapStratErr] using h
  | error e => cases e <;> simp [mapStratErr] at h

theorem mapStratErr_of_ok {ε α} {x : Except (SErr ε) α} {a : α} (h : x = .ok a) : mapStratErr x = .ok a := by
  subst h; rfl

/-! ## mapM in `Except` -/

theorem mapM_pure_eq {ε α β} (f : α → β) (l : List α) :
    (l.mapM (fun a => (pure (f a) : Except ε β))) = .ok (l.map f) := by
  induction l with
  | nil => rfl
  | cons a rest ih => simp only [List.mapM_cons, ih, List.map_cons]; rfl

/-- two lists related element by element -/
inductive All2 {α β} (R : α → β → Prop) : List α → List β → Prop where
  | nil : All2 R [] []
  | cons {a b l r} : R a b → All2 R l r → All2 R (a :: l) (b :: r)

theorem mapM_ok_all2 {ε α β} (f : α → Except ε β) : ∀ (l : List α) (r : List β),
    l.mapM f = .ok r → All2 (fun a b => f a = .ok b) l r := by
  intro l
  induction l with
  | nil => intro r h; simp [List.mapM_nil, pure, Except.pure] at h; subst h; exact All2.nil
  | cons a rest ih =>
    intro r h
    simp only [List.mapM_cons, bind, Except.bind] at h
    cases ha : f a with
    | error e => simp [ha] at h
    | ok b =>
      simp only [ha] at h
      cases hr : rest.mapM f with
      | error e => simp [hr] at h
      | ok r' =>
        simp only [hr, pure, Except.pure] at h
        injection h with h; subst h
        exact All2.cons ha (ih r' hr)

theorem mapM_of_all2 {ε α β} (f : α → Except ε β) : ∀ (l : List α) (r : List β),
    All2 (fun a b => f a = .ok b) l r → l.mapM f = .ok r := by
  intro l r h
  induction h with
  | nil => rfl
  | cons ha _ ih => simp only [List.mapM_cons, ha, ih, bind, Except.bind]; rfl

/-! ## the two mirror passes as folds of a named step; readDBI -/

def entryOf (raw : Bool) (kv : Bytes × Bytes) : Except Err KV :=
    if raw then pure ({ key := kv.1, val := kv.2, ts := 0, flags := 0 } : KV)
    else match Header.parse kv.2 with
      | .error _ => throw Err.entry
      | .ok (h, app) =>
        pure ({ key := kv.1, val := app, ts := h.ts, flags := (Header.masked h.flags).toNat } : KV)

theorem shadowToMain_eq (c : Cfg) (w : W) : shadowToMain c w = (dbiNames w).foldlM (s2mStep c) w := rfl

theorem mainToShadow_eq (c : Cfg) (w : W) (txnID now cutoff : Nat) :
    mainToShadow c w txnID now cutoff = (dbiNames w).foldlM (m2sStep c txnID now cutoff) w := rfl


def readTail (c : Cfg) (on : Bytes) (raw : Bool) (d : Dbi) (flags : Nat) : Except Err DbiMsg := do
  let dup := isDupSort flags
  if dup ∧ ¬ c.hack then throw .dupsortNoHack
  let entries ← d.kvs.mapM (entryOf raw)
  pure { name := on, flags := flags,
         transform := if dup then strBytes Gen.transformDupSortHackV1 else [],
         entries := entries }

theorem readDBI_eqMirror (c : Cfg) (w : W) (dn on : Bytes) (raw : Bool) :
    readDBI c w dn on raw =
      match findDbi w.dbis dn with
      | none => .error .dbiMissing
      | some d =>
        (if dn ≠ on then
          (match findDbi w.dbis on with
           | some o => pure o.flags
           | none => throw Err.dbiMissing)
         else pure d.flags) >>= readTail c on raw d := by
  unfold readDBI
  cases findDbi w.dbis dn with
  | none => rfl
  | some d =>
    by_cases hne : dn = on
    · simp only [ne_eq, hne, not_true_eq_false, if_false]; rfl
    · simp only [ne_eq, hne, not_false_eq_true, if_true]; rfl

theorem readTail_ok {c : Cfg} {on : Bytes} {raw : Bool} {d : Dbi} {fl : Nat} {msg : DbiMsg}
    (h : readTail c on raw d fl = .ok msg) :
    ¬ (isDupSort fl = true ∧ ¬ c.hack = true) ∧
      d.kvs.mapM (entryOf raw) = .ok msg.entries ∧
      msg.name = on ∧ msg.flags = fl ∧
      msg.transform = (if isDupSort fl then strBytes Gen.transformDupSortHackV1 else []) := by
  unfold readTail at h
  by_cases hd : isDupSort fl = true ∧ ¬ c.hack = true
  · simp [hd, bind, Except.bind, throw, throwThe, MonadExceptOf.throw] at h
  · refine ⟨hd, ?_⟩
    simp only [hd, if_false, bind, Except.bind, pure, Except.pure] at h
    cases hm : d.kvs.mapM (entryOf raw) with
    | error e => simp [hm] at h
    | ok es =>
      simp only [hm] at h
      injection h with h
      subst h
      exact ⟨rfl, rfl, rfl, rfl⟩

theorem readDBI_okMirror {c : Cfg} {w : W} {dn on : Bytes} {raw : Bool} {msg : DbiMsg}
    (h : readDBI c w dn on raw = .ok msg) :
    ∃ d fl, findDbi w.dbis dn = some d ∧
      (if dn ≠ on then ∃ o, findDbi w.dbis on = some o ∧ fl = o.flags else fl = d.flags) ∧
      readTail c on raw d fl = .ok msg := by
  rw [readDBI_eqMirror] at h
  cases hd : findDbi w.dbis dn with
  | none => simp [hd] at h
  | some d =>
    simp only [hd] at h
    by_cases hne : dn ≠ on
    · rw [if_pos hne] at h
      cases ho : findDbi w.dbis on with
      | none => simp [ho, bind, Except.bind, throw, throwThe, MonadExceptOf.throw] at h
      | some o =>
        simp only [ho, bind, Except.bind, pure, Except.pure] at h
        exact ⟨d, o.flags, rfl, by rw [if_pos hne]; exact ⟨o, rfl, rfl⟩, h⟩
    · rw [if_neg hne] at h
      simp only [bind, Except.bind, pure, Except.pure] at h
      exact ⟨d, d.flags, rfl, by rw [if_neg hne], h⟩
theorem s2mStep_private {c : Cfg} {w : W} {name : Bytes} (h : isPrivate name = true) :
    s2mStep c w name = .ok w := by
  unfold s2mStep; simp [h]; rfl

theorem readTail_eq {c : Cfg} {orig : Bytes} {raw : Bool} {d : Dbi} {fl : Nat} {es : List KV}
    (hd : ¬ (isDupSort fl = true ∧ ¬ c.hack = true)) (hm : d.kvs.mapM (entryOf raw) = .ok es) :
    readTail c orig raw d fl = .ok
      { name := orig, flags := fl,
        transform := if isDupSort fl then strBytes Gen.transformDupSortHackV1 else [], entries := es } := by
  unfold readTail
  simp only [hd, if_false, bind, Except.bind, pure, Except.pure, hm]

/-- the projection step on an ordinary (non-duplicate-keys) application DBI -/
theorem s2mStep_nondup_eq {c : Cfg} {w : W} {name : Bytes} {d sd : Dbi} {es : List KV}
    (hp : isPrivate name = false) (hd : findDbi w.dbis name = some d) (hnd : isDupSort d.flags = false)
    (hsd : findDbi w.dbis (shadowName name) = some sd) (hm : sd.kvs.mapM (entryOf false) = .ok es) :
    s2mStep c w name =
      runOn w name fun s => mapStratErr (iterUpdate (isIntKey d.flags) plainIter s es) := by
  have hne : shadowName name ≠ name := shadowName_ne_of_not_private hp
  have hr : readDBI c w (shadowName name) name false = .ok
      { name := name, flags := d.flags,
        transform := if isDupSort d.flags then strBytes Gen.transformDupSortHackV1 else [], entries := es } := by
    rw [readDBI_eqMirror, hsd]
    simp only [if_pos hne, hd, bind, Except.bind, pure, Except.pure]
    exact readTail_eq (by simp [hnd]) hm
  unfold s2mStep
  simp [hp, hd, hnd, hr, bind, Except.bind, pure, Except.pure]

theorem s2mStep_nondup_ok {c : Cfg} {w w' : W} {name : Bytes} {d : Dbi}
    (hp : isPrivate name = false) (hd : findDbi w.dbis name = some d) (hnd : isDupSort d.flags = false)
    (h : s2mStep c w name = .ok w') :
    ∃ sd es s, findDbi w.dbis (shadowName name) = some sd ∧
      sd.kvs.mapM (entryOf false) = .ok es ∧
      iterUpdate (isIntKey d.flags) plainIter ⟨d.kvs, w.dirty⟩ es = .ok s ∧
      w' = ⟨setKvs w.dbis name s.db, s.dirty⟩ := by
  have h0 := h
  unfold s2mStep at h
  simp only [hp, hd, hnd, Bool.false_eq_true, false_and, if_false, bind, Except.bind] at h
  cases hr : readDBI c w (shadowName name) name false with
  | error e => simp [hr] at h
  | ok msg =>
    obtain ⟨sd, fl, hsd, _, ht⟩ := readDBI_okMirror hr
    obtain ⟨_, hm, _⟩ := readTail_ok ht
    rw [s2mStep_nondup_eq hp hd hnd hsd hm] at h0
    obtain ⟨d', s, hd', hs, hw⟩ := runOn_ok h0
    rw [hd] at hd'; injection hd' with hd'; subst hd'
    exact ⟨sd, msg.entries, s, hsd, hm, mapStratErr_ok hs, hw⟩
end Ls.Txn
