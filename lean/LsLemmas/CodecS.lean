import LsLemmas.Wire
import LsModel.Codec
/-
  The decoders once more, as functions of the *remaining input* (no offsets, no slice
  expressions, no integer conversions).  `LsLemmas/CodecRefine.lean` proves that the
  offset-level model of `LsModel/Codec.lean` computes exactly these functions for every input of
  length < 2^63 (every Go slice); all further reasoning (totality, sizes, compatibility with the
  protobuf semantics) is done here.
-/
namespace Ls.CodecS
open Ls Ls.Wire Ls.Codec

def omap {α β : Type} (f : α → β) : Outcome α → Outcome β
  | .ok a => .ok (f a)
  | .err e => .err e
  | .panic => .panic
  | .hang => .hang

/-- `rest` is what is left of `p` after consuming at least one byte -/
def Adv (p rest : Bytes) : Prop := ∃ m, 1 ≤ m ∧ m ≤ p.length ∧ rest = p.drop m

def skipS (p : Bytes) (wt : Nat) : Outcome Bytes :=
  if wt = wtVarint then do
    let (_, n) ← decodeVarint p
    .ok (p.drop n)
  else if wt = wtLen then do
    let (size, n) ← decodeVarint p
    if size > p.length - n then .err .eof else .ok (p.drop (n + size))
  else if wt = wtFixed32 then (if 4 > p.length then .err .eof else .ok (p.drop 4))
  else if wt = wtFixed64 then (if 8 > p.length then .err .eof else .ok (p.drop 8))
  else .err .other

def kvStepS (p : Bytes) (kv : KV) : Outcome (KV × Bytes) := do
  let (v, n) ← decodeVarint p
  let p1 := p.drop n
  let tag := v / 8
  let wt := v % 8
  if tag = Gen.fieldKVKey ∨ tag = Gen.fieldKVValue then
    if wt ≠ wtLen then .err .wireType else do
      let (v, n) ← decodeVarint p1
      let p2 := p1.drop n
      if p2.length < v then .err .other
      else if tag = Gen.fieldKVKey then .ok ({ kv with key := p2.take v }, p2.drop v)
      else .ok ({ kv with val := p2.take v }, p2.drop v)
  else if tag = Gen.fieldKVFlags then
    if wt ≠ wtVarint then .err .wireType else do
      let (v, n) ← decodeVarint p1
      .ok ({ kv with flags := v % two32 }, p1.drop n)
  else if tag = Gen.fieldKVTimestampNano then
    if wt ≠ wtFixed64 then .err .wireType
    else if p1.length < 8 then .err .other
    else .ok ({ kv with ts := leNat (p1.take 8) }, p1.drop 8)
  else do
    let rest ← skipS p1 wt
    .ok (kv, rest)

def kvLoopS : Nat → Bytes → KV → Outcome KV
  | 0, _, _ => .hang
  | fuel + 1, p, kv =>
    match kvStepS p kv with
    | .ok (kv', rest) => if rest = [] then .ok kv' else kvLoopS fuel rest kv'
    | .err e => .err e
    | .panic => .panic
    | .hang => .hang

def kvUnmarshalS (data : Bytes) : Outcome KV := kvLoopS (data.length + 1) data kvZero

def idxStepS (p : Bytes) (h : DBIHdr) : Outcome (DBIHdr × Bytes) := do
  let (v, n) ← decodeVarint p
  let p1 := p.drop n
  let tag := v / 8
  let wt := v % 8
  if tag = Gen.fieldDBIEntries ∨ tag = Gen.fieldDBIName ∨ tag = Gen.fieldDBITransform then
    if wt ≠ wtLen then .err .wireType else do
      let (v, n) ← decodeVarint p1
      let p2 := p1.drop n
      if p2.length < v then .err .other
      else if tag = Gen.fieldDBIEntries then .ok (h, p2.drop v)
      else if tag = Gen.fieldDBIName then .ok ({ h with name := p2.take v }, p2.drop v)
      else .ok ({ h with transform := p2.take v }, p2.drop v)
  else if tag = Gen.fieldDBIFlags then
    if wt ≠ wtVarint then .err .wireType else do
      let (v, n) ← decodeVarint p1
      .ok ({ h with flags := v }, p1.drop n)
  else do
    let rest ← skipS p1 wt
    .ok (h, rest)

def idxLoopS : Nat → Bytes → DBIHdr → Outcome DBIHdr
  | 0, _, _ => .hang
  | fuel + 1, p, h =>
    if p = [] then .ok h
    else match idxStepS p h with
      | .ok (h', rest) => idxLoopS fuel rest h'
      | .err e => .err e
      | .panic => .panic
      | .hang => .hang

def indexDataS (data : Bytes) : Outcome DBIHdr := idxLoopS (data.length + 1) data hdrZero

/-- `Next` on the remaining data: `none` = io.EOF, else the entry and what remains behind it -/
def nextS : Nat → Bytes → Outcome (Option (KV × Bytes))
  | 0, _ => .hang
  | fuel + 1, p =>
    if p = [] then .ok none
    else
      match decodeVarint p with
      | .ok (v, n) =>
        let p1 := p.drop n
        let tag := v / 8
        let wt := v % 8
        if tag ≠ Gen.fieldDBIEntries then
          match skipS p1 wt with
          | .ok rest => nextS fuel rest
          | .err e => .err e
          | .panic => .panic
          | .hang => .hang
        else if wt ≠ wtLen then .err .wireType
        else
          match decodeVarint p1 with
          | .ok (v, n) =>
            let p2 := p1.drop n
            if p2.length < v then .err .other
            else
              match kvUnmarshalS (p2.take v) with
              | .ok kv => .ok (some (kv, p2.drop v))
              | .err e => .err e
              | .panic => .panic
              | .hang => .hang
          | .err e => .err e
          | .panic => .panic
          | .hang => .hang
      | .err e => .err e
      | .panic => .panic
      | .hang => .hang

def iterS : Nat → Nat → Bytes → List KV → List KV × Outcome Unit
  | _, 0, _, acc => (acc, .hang)
  | n, fuel + 1, p, acc =>
    match nextS n p with
    | .ok none => (acc, .ok ())
    | .ok (some (kv, rest)) => iterS n fuel rest (acc ++ [kv])
    | .err e => (acc, .err e)
    | .panic => (acc, .panic)
    | .hang => (acc, .hang)

def dbiEntriesS (data : Bytes) : Outcome (List KV) :=
  match iterS (data.length + 1) (data.length + 1) data [] with
  | (l, .ok _) => .ok l
  | (_, .err e) => .err e
  | (_, .panic) => .panic
  | (_, .hang) => .hang

/-! csproto.Decoder on the remaining input -/

def decTagS (p : Bytes) : Outcome (Nat × Nat × Bytes) :=
  if p = [] then .err .eof else do
    let (v, n) ← decodeVarint p
    if n < 1 ∨ v < 1 ∨ v > maxTagValue then .err .badTag
    else .ok (v / 8, v % 8, p.drop n)

def decVarintS (p : Bytes) : Outcome (Nat × Bytes) :=
  if p = [] then .err .eof else do
    let (v, n) ← decodeVarint p
    if n = 0 then .err .varintEmpty else .ok (v, p.drop n)

def getUInt32S (p : Bytes) (wt : Nat) : Outcome (Nat × Bytes) :=
  if wt ≠ wtVarint then .err .wireType else do
    let (v, rest) ← decVarintS p
    if v > 4294967295 then .err .overflow else .ok (v, rest)

def getInt64S (p : Bytes) (wt : Nat) : Outcome (Int × Bytes) :=
  if wt ≠ wtVarint then .err .wireType else do
    let (v, rest) ← decVarintS p
    .ok (toInt64 v, rest)

def getFixed64S (p : Bytes) (wt : Nat) : Outcome (Nat × Bytes) :=
  if wt ≠ wtFixed64 then .err .wireType
  else if p = [] then .err .eof
  else if p.length < 8 then .err .eof
  else .ok (leNat (p.take 8), p.drop 8)

def getBytesS (p : Bytes) (maxLen : Nat) (wt : Nat) : Outcome (Bytes × Bytes) :=
  if wt ≠ wtLen then .err .wireType
  else if p = [] then .err .eof else do
    let (l, n) ← decodeVarint p
    if n = 0 then .err .varintEmpty
    else if l > maxLen then .err .lenOverflow
    else if n + l > p.length then .err .eof
    else .ok ((p.drop n).take l, p.drop (n + l))

def decSkipS (p : Bytes) (maxLen : Nat) (wt : Nat) : Outcome Bytes :=
  if p = [] then .err .eof
  else if wt = wtVarint then do
    let (_, n) ← decodeVarint p
    if n > p.length then .err .eof else .ok (p.drop n)
  else if wt = wtFixed64 then (if 8 > p.length then .err .eof else .ok (p.drop 8))
  else if wt = wtLen then do
    let (l, n) ← decodeVarint p
    if n = 0 then .err .varintEmpty
    else if l > maxLen then .err .lenOverflow
    else if n + l > p.length then .err .eof else .ok (p.drop (n + l))
  else if wt = wtFixed32 then (if 4 > p.length then .err .eof else .ok (p.drop 4))
  else .err .other

def metaStepS (p : Bytes) (m : Meta) : Outcome (Meta × Bytes) := do
  let (tag, wt, p1) ← decTagS p
  if tag = Gen.fieldMetaGenerationID then do
    let (s, r) ← getBytesS p1 defaultMaxFieldLen wt
    .ok ({ m with generationID := s }, r)
  else if tag = Gen.fieldMetaInstanceID then do
    let (s, r) ← getBytesS p1 defaultMaxFieldLen wt
    .ok ({ m with instanceID := s }, r)
  else if tag = Gen.fieldMetaHostname then do
    let (s, r) ← getBytesS p1 defaultMaxFieldLen wt
    .ok ({ m with hostname := s }, r)
  else if tag = Gen.fieldMetaLMDBTxnID then do
    let (v, r) ← getInt64S p1 wt
    .ok ({ m with lmdbTxnID := v }, r)
  else if tag = Gen.fieldMetaTimestampNano then do
    let (v, r) ← getFixed64S p1 wt
    .ok ({ m with timestampNano := v }, r)
  else if tag = Gen.fieldMetaDatabaseName then do
    let (s, r) ← getBytesS p1 defaultMaxFieldLen wt
    .ok ({ m with databaseName := s }, r)
  else if tag = Gen.fieldMetaFromLMDBTxnID then do
    let (v, r) ← getInt64S p1 wt
    .ok ({ m with fromLmdbTxnID := v }, r)
  else do
    let r ← decSkipS p1 defaultMaxFieldLen wt
    .ok (m, r)

def metaLoopS : Nat → Bytes → Meta → Outcome Meta
  | 0, _, _ => .hang
  | fuel + 1, p, m =>
    if p = [] then .ok m
    else match metaStepS p m with
      | .ok (m', rest) => metaLoopS fuel rest m'
      | .err e => .err e
      | .panic => .panic
      | .hang => .hang

def metaUnmarshalS (data : Bytes) (m : Meta) : Outcome Meta := metaLoopS (data.length + 1) data m

def snapStepS (p : Bytes) (s : SnapRaw) : Outcome (SnapRaw × Bytes) := do
  let (tag, wt, p1) ← decTagS p
  if tag = Gen.fieldSnapshotFormatVersion then do
    let (v, r) ← getUInt32S p1 wt
    .ok ({ s with formatVersion := v }, r)
  else if tag = Gen.fieldSnapshotCompatVersion then do
    let (v, r) ← getUInt32S p1 wt
    .ok ({ s with compatVersion := v }, r)
  else if tag = Gen.fieldSnapshotMeta then do
    let (msg, r) ← getBytesS p1 snapshotMaxFieldLen wt
    let m ← metaUnmarshalS msg s.info
    .ok ({ s with info := m }, r)
  else if tag = Gen.fieldSnapshotDBI then do
    let (msg, r) ← getBytesS p1 snapshotMaxFieldLen wt
    let h ← indexDataS msg
    .ok ({ s with dbs := s.dbs ++ [{ hdr := h, data := msg }] }, r)
  else do
    let r ← decSkipS p1 snapshotMaxFieldLen wt
    .ok (s, r)

def snapLoopS : Nat → Bytes → SnapRaw → Outcome SnapRaw
  | 0, _, _ => .hang
  | fuel + 1, p, s =>
    if p = [] then .ok s
    else match snapStepS p s with
      | .ok (s', rest) => snapLoopS fuel rest s'
      | .err e => .err e
      | .panic => .panic
      | .hang => .hang

def snapshotUnmarshalS (data : Bytes) : Outcome SnapRaw := snapLoopS (data.length + 1) data snapZero

def dbisAllS : List DBIRaw → Outcome (List DBI')
  | [] => .ok []
  | d :: ds => do
    let es ← dbiEntriesS d.data
    let rest ← dbisAllS ds
    .ok ({ name := d.hdr.name, flags := d.hdr.flags, transform := d.hdr.transform, entries := es } :: rest)

def decodeAllS (b : Bytes) : Outcome Snapshot' := do
  let s ← snapshotUnmarshalS b
  let ds ← dbisAllS s.dbs
  .ok { formatVersion := s.formatVersion, compatVersion := s.compatVersion, info := s.info, dbis := ds }

end Ls.CodecS
