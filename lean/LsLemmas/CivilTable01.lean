import LsLemmas.CivilTableDefs
/- civil-date table, rows 8000 … 15999 (kernel evaluation; see CivilTableDefs) -/
namespace Ls.Civil

theorem chunk01 : chunkOK 8000 8000 = true := by decide +kernel

end Ls.Civil
