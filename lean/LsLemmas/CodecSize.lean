import LsLemmas.CodecTotal
/-
  Decoded keys and values are slices of the input: their total size never exceeds the input.
-/
namespace Ls.CodecS
open Ls Ls.Wire Ls.Codec

def kvSize (kv : KV) : Nat := kv.key.length + kv.val.length

def entriesSize : List KV → Nat
  | [] => 0
  | kv :: kvs => kvSize kv + entriesSize kvs

theorem entriesSize_append (a b : List KV) : entriesSize (a ++ b) = entriesSize a + entriesSize b := by
  induction a with
  | nil => simp [entriesSize]
  | cons x xs ih => simp [entriesSize, ih]; omega

theorem kvStepS_size (p : Bytes) (kv kv' : KV) (rest : Bytes) (h : kvStepS p kv = .ok (kv', rest)) :
    kvSize kv' + rest.length ≤ kvSize kv + p.length := by
  have hadv := adv_length (kvStepS_adv _ _ _ _ h)
  unfold kvStepS at h
  rcases hd : decodeVarint p with ⟨v, n⟩ | e | _ | _
  rotate_left
  · simp [hd] at h
  · simp [hd] at h
  · simp [hd] at h
  obtain ⟨h1, h2, h3, h4⟩ := decodeVarint_bounds _ v n hd
  simp only [hd, bind_ok] at h
  split at h
  · split at h
    · simp at h
    · rcases hd2 : decodeVarint (p.drop n) with ⟨v2, n2⟩ | e | _ | _
      rotate_left
      · simp [hd2] at h
      · simp [hd2] at h
      · simp [hd2] at h
      obtain ⟨g1, g2, g3, g4⟩ := decodeVarint_bounds _ v2 n2 hd2
      simp only [List.length_drop] at g2
      simp only [hd2, bind_ok, List.length_drop, List.drop_drop] at h
      split at h
      · simp at h
      · split at h <;>
        · injection h with h; injection h with hk hr
          subst hk hr
          simp only [kvSize, List.length_take, List.length_drop]
          omega
  · split at h
    · split at h
      · simp at h
      · rcases hd2 : decodeVarint (p.drop n) with ⟨v2, n2⟩ | e | _ | _
        rotate_left
        · simp [hd2] at h
        · simp [hd2] at h
        · simp [hd2] at h
        simp only [hd2, bind_ok] at h
        injection h with h; injection h with hk hr
        subst hk
        simp only [kvSize]; omega
    · split at h
      · split at h
        · simp at h
        · split at h
          · simp at h
          · injection h with h; injection h with hk hr
            subst hk
            simp only [kvSize]; omega
      · rcases hsk : skipS (p.drop n) (v % 8) with r | e | _ | _
        rotate_left
        · simp [hsk] at h
        · simp [hsk] at h
        · simp [hsk] at h
        simp only [hsk, bind_ok] at h
        injection h with h; injection h with hk hr
        subst hk
        omega

theorem kvLoopS_size : ∀ (fuel : Nat) (p : Bytes) (kv kv' : KV), kvLoopS fuel p kv = .ok kv' →
    kvSize kv' ≤ kvSize kv + p.length := by
  intro fuel
  induction fuel with
  | zero => intro p kv kv' h; simp [kvLoopS] at h
  | succ fuel ih =>
    intro p kv kv' h
    unfold kvLoopS at h
    rcases hs : kvStepS p kv with ⟨kv1, rest⟩ | e | _ | _
    rotate_left
    · simp [hs] at h
    · simp [hs] at h
    · simp [hs] at h
    have hsz := kvStepS_size _ _ _ _ hs
    simp only [hs] at h
    split at h
    · injection h with h; subst h; omega
    · have := ih _ _ _ h; omega

theorem kvUnmarshalS_size (b : Bytes) (kv : KV) (h : kvUnmarshalS b = .ok kv) : kvSize kv ≤ b.length := by
  have := kvLoopS_size _ _ _ _ h
  simpa [kvSize, kvZero] using this

theorem nextS_size : ∀ (fuel : Nat) (p : Bytes) (kv : KV) (rest : Bytes),
    nextS fuel p = .ok (some (kv, rest)) → kvSize kv + rest.length ≤ p.length := by
  intro fuel
  induction fuel with
  | zero => intro p kv rest h; simp [nextS] at h
  | succ fuel ih =>
    intro p kv rest h
    unfold nextS at h
    split at h
    · simp at h
    · rcases hd : decodeVarint p with ⟨v, n⟩ | e | _ | _
      rotate_left
      · simp [hd] at h
      · simp [hd] at h
      · simp [hd] at h
      obtain ⟨h1, h2, h3, h4⟩ := decodeVarint_bounds _ v n hd
      simp only [hd] at h
      split at h
      · rcases hsk : skipS (p.drop n) (v % 8) with r | e | _ | _
        rotate_left
        · simp [hsk] at h
        · simp [hsk] at h
        · simp [hsk] at h
        simp only [hsk] at h
        have := adv_length (adv_trans_drop n h2 (skipS_adv _ _ _ hsk))
        have := ih _ _ _ h
        omega
      · split at h
        · simp at h
        · rcases hd2 : decodeVarint (p.drop n) with ⟨v2, n2⟩ | e | _ | _
          rotate_left
          · simp [hd2] at h
          · simp [hd2] at h
          · simp [hd2] at h
          obtain ⟨g1, g2, g3, g4⟩ := decodeVarint_bounds _ v2 n2 hd2
          simp only [List.length_drop] at g2
          simp only [hd2, List.length_drop, List.drop_drop] at h
          split at h
          · simp at h
          · rcases hkv : kvUnmarshalS (List.take v2 (List.drop (n + n2) p)) with kv1 | e | _ | _
            rotate_left
            · simp [hkv] at h
            · simp [hkv] at h
            · simp [hkv] at h
            simp only [hkv] at h
            injection h with h; injection h with h; injection h with hk hr
            subst hk hr
            have := kvUnmarshalS_size _ _ hkv
            simp only [List.length_take, List.length_drop] at this ⊢
            omega

theorem iterS_size (n : Nat) : ∀ (fuel : Nat) (p : Bytes) (acc l : List KV) (u : Unit),
    iterS n fuel p acc = (l, .ok u) → entriesSize l ≤ entriesSize acc + p.length := by
  intro fuel
  induction fuel with
  | zero => intro p acc l u h; simp [iterS] at h
  | succ fuel ih =>
    intro p acc l u h
    unfold iterS at h
    rcases hx : nextS n p with r | e | _ | _
    rotate_left
    · simp [hx] at h
    · simp [hx] at h
    · simp [hx] at h
    cases r with
    | none =>
      simp only [hx] at h
      injection h with h1 _; subst h1; omega
    | some x =>
      obtain ⟨kv, rest⟩ := x
      simp only [hx] at h
      have h1 := nextS_size _ _ _ _ hx
      have h2 := ih _ _ _ _ h
      rw [entriesSize_append] at h2
      simp only [entriesSize] at h2
      omega

theorem dbiEntriesS_size (data : Bytes) (l : List KV) (h : dbiEntriesS data = .ok l) :
    entriesSize l ≤ data.length := by
  unfold dbiEntriesS at h
  rcases hi : iterS (data.length + 1) (data.length + 1) data [] with ⟨l', o⟩
  rw [hi] at h
  cases o with
  | ok u =>
    simp only at h
    injection h with h; subst h
    have := iterS_size _ _ _ _ _ _ hi
    simpa [entriesSize] using this
  | err e => simp at h
  | panic => simp at h
  | hang => simp at h

/-! the DBIs collected by Snapshot.Unmarshal are disjoint slices of the input -/

def dbsSize : List DBIRaw → Nat
  | [] => 0
  | d :: ds => d.data.length + dbsSize ds

theorem dbsSize_append (a b : List DBIRaw) : dbsSize (a ++ b) = dbsSize a + dbsSize b := by
  induction a with
  | nil => simp [dbsSize]
  | cons x xs ih => simp [dbsSize, ih]; omega

theorem getBytesS_size (p : Bytes) (maxLen wt : Nat) (b rest : Bytes)
    (h : getBytesS p maxLen wt = .ok (b, rest)) : b.length + rest.length ≤ p.length := by
  unfold getBytesS at h
  split at h
  · simp at h
  · split at h
    · simp at h
    · rcases hd : decodeVarint p with ⟨l, n⟩ | e | _ | _
      rotate_left
      · simp [hd] at h
      · simp [hd] at h
      · simp [hd] at h
      obtain ⟨h1, h2, h3, h4⟩ := decodeVarint_bounds _ l n hd
      simp only [hd, bind_ok] at h
      split at h
      · simp at h
      · split at h
        · simp at h
        · split at h
          · simp at h
          · injection h with h; injection h with hb hr
            subst hb hr
            simp only [List.length_take, List.length_drop]; omega

theorem snapStepS_size (p : Bytes) (s s' : SnapRaw) (rest : Bytes) (h : snapStepS p s = .ok (s', rest)) :
    dbsSize s'.dbs + rest.length ≤ dbsSize s.dbs + p.length := by
  have hadv := adv_length (snapStepS_adv _ _ _ _ h)
  unfold snapStepS at h
  rcases ht : decTagS p with ⟨tag, wt, p1⟩ | e | _ | _
  rotate_left
  · simp [ht] at h
  · simp [ht] at h
  · simp [ht] at h
  have hp1 := (adv_length (decTagS_adv _ _ _ _ ht)).2
  simp only [ht, bind_ok] at h
  split at h
  · rcases hg : getUInt32S p1 wt with ⟨v, r⟩ | e | _ | _ <;> simp [hg] at h
    obtain ⟨h, _⟩ := h; subst h; simp only; omega
  split at h
  · rcases hg : getUInt32S p1 wt with ⟨v, r⟩ | e | _ | _ <;> simp [hg] at h
    obtain ⟨h, _⟩ := h; subst h; simp only; omega
  split at h
  · rcases hg : getBytesS p1 snapshotMaxFieldLen wt with ⟨msg, r⟩ | e | _ | _ <;> simp [hg] at h
    rcases hm : metaUnmarshalS msg s.info with m | e | _ | _ <;> simp [hm] at h
    obtain ⟨h, _⟩ := h; subst h; simp only; omega
  split at h
  · rcases hg : getBytesS p1 snapshotMaxFieldLen wt with ⟨msg, r⟩ | e | _ | _ <;> simp [hg] at h
    rcases hm : indexDataS msg with m | e | _ | _ <;> simp [hm] at h
    obtain ⟨h, hr⟩ := h; subst h hr
    have := getBytesS_size _ _ _ _ _ hg
    simp only [dbsSize_append, dbsSize]
    omega
  · rcases hg : decSkipS p1 snapshotMaxFieldLen wt with r | e | _ | _ <;> simp [hg] at h
    obtain ⟨h, _⟩ := h; subst h; omega

theorem snapLoopS_size : ∀ (fuel : Nat) (p : Bytes) (s s' : SnapRaw), snapLoopS fuel p s = .ok s' →
    dbsSize s'.dbs ≤ dbsSize s.dbs + p.length := by
  intro fuel
  induction fuel with
  | zero => intro p s s' h; simp [snapLoopS] at h
  | succ fuel ih =>
    intro p s s' h
    unfold snapLoopS at h
    split at h
    · injection h with h; subst h; omega
    · rcases hs : snapStepS p s with ⟨s1, rest⟩ | e | _ | _ <;> simp [hs] at h
      have h1 := snapStepS_size _ _ _ _ hs
      have h2 := ih _ _ _ h
      omega

def allEntriesSize : List DBI' → Nat
  | [] => 0
  | d :: ds => entriesSize d.entries + allEntriesSize ds

theorem dbisAllS_size : ∀ (raws : List DBIRaw) (ds : List DBI'), dbisAllS raws = .ok ds →
    allEntriesSize ds ≤ dbsSize raws
  | [], ds, h => by
    simp [dbisAllS] at h; subst h; simp [allEntriesSize]
  | x :: raws, ds, h => by
    unfold dbisAllS at h
    rcases he : dbiEntriesS x.data with es | e | _ | _ <;> simp [he] at h
    rcases hr : dbisAllS raws with rest | e | _ | _ <;> simp [hr] at h
    subst h
    have h1 := dbiEntriesS_size _ _ he
    have h2 := dbisAllS_size raws rest hr
    simp only [allEntriesSize, dbsSize]
    omega

/-- all decoded keys and values together are no larger than the blob -/
theorem decodeAllS_size (b : Bytes) (s : Snapshot') (h : decodeAllS b = .ok s) :
    allEntriesSize s.dbis ≤ b.length := by
  unfold decodeAllS at h
  rcases hs : snapshotUnmarshalS b with raw | e | _ | _ <;> simp [hs] at h
  rcases hd : dbisAllS raw.dbs with ds | e | _ | _ <;> simp [hd] at h
  subst h
  have h1 := snapLoopS_size _ _ _ _ hs
  have h2 := dbisAllS_size _ _ hd
  simp only [snapZero, dbsSize] at h1
  simp only
  omega

end Ls.CodecS
