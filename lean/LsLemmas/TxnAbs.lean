import LsLemmas.TxnLoad
import LsLemmas.AbsFleetInv
/-
  The abstraction of the byte-level environments and snapshots (LsModel/Txn.lean) to the abstract
  databases of LsLemmas/AbsFleet.lean (`Abs.DB = (DBI name × key) → Option Ver`) and the
  per-transaction simulation lemmas for a native schema (helper lemmas of LsProps/C01Refine.lean).
-/
namespace Ls.Txn
open Ls Ls.Lmdb Ls.Strategy Ls.Merge

/-! ## 1. the abstraction functions -/

/-- logical content of an optional stored value: absent → `none`; an unparsable value → `none`
    (all theorems assume stored values parse) -/
def decodeO (o : Option Bytes) : Option Ver :=
  match o with
  | none => none
  | some b =>
    match decodeS b with
    | .ok v => v
    | .error _ => none

/-- logical content of one DBI at a key: `decodeS` of the value LMDB finds for the key in the
    DBI's own key order -/
def absDbi (d : Dbi) (k : Bytes) : Option Ver := decodeO (get (isIntKey d.flags) d.kvs k)

/-- logical content of a list of DBIs; private DBIs (`_sync…`) carry no logical content -/
def absDbis (dbis : List Dbi) : Abs.DB := fun key =>
  if isPrivate key.1 then none else
  match findDbi dbis key.1 with
  | none => none
  | some d => absDbi d key.2

/-- **the logical content of an environment** -/
def absEnv (e : Env) : Abs.DB := absDbis e.dbis

/-- the part of an iterator configuration `norm` reads when a snapshot is loaded: the snapshot's
    format version, no default timestamp -/
def normCfg (fv : Nat) : Merge.Cfg := { fv := fv, defTs := 0, txn := 0, cutoff := 0, pad := false }

/-- logical content of one DBI message at a key: the join of the normal forms of all entries with
    that key (in the order of the DBI the message describes) — with strictly increasing keys there
    is at most one such entry -/
def absMsg (fv : Nat) (m : DbiMsg) (k : Bytes) : Option Ver :=
  joinAll none ((m.entries.filter (fun e => kcmp (isIntKey m.flags) e.key k = 0)).map (norm (normCfg fv)))

/-- logical content of a list of DBI messages (the first message with the name counts; the
    theorems assume distinct names); messages for private names carry no logical content -/
def absMsgs (fv : Nat) (dbs : List DbiMsg) : Abs.DB := fun key =>
  if isPrivate key.1 then none else
  match dbs.find? (fun m => m.name = key.1) with
  | none => none
  | some m => absMsg fv m key.2

/-- **the logical content of a snapshot** -/
def absSnap (s : Snap) : Abs.DB := absMsgs s.fv s.dbs

/-- contribution of one message to the key `key` -/
def absMsgAt (fv : Nat) (m : DbiMsg) : Abs.DB := fun key =>
  if isPrivate key.1 then none else if m.name = key.1 then absMsg fv m key.2 else none

/-! ## 2. well-formedness predicates (all decidable) -/

/-- a stored value parses and its logical content is well-formed (deleted ⇒ no value) -/
def StoredWF (b : Bytes) : Prop :=
  match decodeS b with
  | .ok (some v) => v.WF
  | _ => False

instance (b : Bytes) : Decidable (StoredWF b) := by
  unfold StoredWF; split <;> exact inferInstance

theorem storedWF_iff {b : Bytes} : StoredWF b ↔ ∃ v, decodeS b = .ok (some v) ∧ v.WF := by
  unfold StoredWF
  constructor
  · intro h
    split at h
    · rename_i v hv; exact ⟨v, hv, h⟩
    · exact h.elim
  · rintro ⟨v, hv, hw⟩
    rw [hv]; exact hw

/-- the content of a DBI with key order `ik`: strictly sorted, keys acceptable to LMDB, every
    value parses to a well-formed version -/
def KvsWF (ik : Bool) (db : KVs) : Prop :=
  Sorted ik db ∧ ∀ p ∈ db, badKey p.1 = false ∧ StoredWF p.2

instance (ik : Bool) (db : KVs) : Decidable (KvsWF ik db) := by
  unfold KvsWF; exact inferInstance

/-- a DBI is well-formed: its content is, in its own key order -/
def DbiWF (d : Dbi) : Prop := KvsWF (isIntKey d.flags) d.kvs

instance (d : Dbi) : Decidable (DbiWF d) := by unfold DbiWF; exact inferInstance

/-- **well-formed environment** (native schema): DBI names strictly increasing (LMDB's root DBI),
    and every non-private DBI strictly sorted by its key order, with keys of 1..511 bytes and
    values that parse to a well-formed version -/
def EnvWF (e : Env) : Prop :=
  SortedNames e.dbis ∧ ∀ d ∈ e.dbis, isPrivate d.name = false → DbiWF d

instance (e : Env) : Decidable (EnvWF e) := by unfold EnvWF; exact inferInstance

/-- the same, phrased with lookups -/
def DbisOk (dbis : List Dbi) : Prop :=
  ∀ n d, findDbi dbis n = some d → isPrivate n = false → DbiWF d

theorem dbisOk_of_mem {dbis : List Dbi} (h : ∀ d ∈ dbis, isPrivate d.name = false → DbiWF d) :
    DbisOk dbis := by
  intro n d hf hp
  have hn := findDbi_name hf
  exact h d (findDbi_mem hf) (by rw [hn]; exact hp)

theorem mem_of_dbisOk {dbis : List Dbi} (hs : SortedNames dbis) (h : DbisOk dbis) :
    ∀ d ∈ dbis, isPrivate d.name = false → DbiWF d :=
  fun d hd hp => h d.name d (findDbi_of_mem hs hd) hp

/-- the entries of a DBI message are well-formed: a deleted entry carries no value (`EntryWF`),
    the timestamp is a uint64, the key is acceptable to LMDB (1..511 bytes) -/
def MsgWF (m : DbiMsg) : Prop := ∀ e ∈ m.entries, EntryWF e ∧ e.ts < two64 ∧ badKey e.key = false

instance (m : DbiMsg) : Decidable (MsgWF m) := by unfold MsgWF; exact inferInstance

/-- the DBI the message is merged into — the existing one, or the one created from the message
    (`createFlags`: override or the message's flags, mod 2^16) — has the key order the message
    says (the same integer-key flag), so that no key changes its meaning -/
def FlagsOk (c : Cfg) (dbis : List Dbi) (m : DbiMsg) : Prop :=
  isIntKey ((findDbi dbis m.name).getD (newDbi m.name (createFlags c m))).flags = isIntKey m.flags

instance (c : Cfg) (dbis : List Dbi) (m : DbiMsg) : Decidable (FlagsOk c dbis m) := by
  unfold FlagsOk; exact inferInstance

/-- a snapshot is well-formed by itself: the messages have distinct DBI names, and every message
    for a non-private name has well-formed entries (`MsgWF`) -/
def SnapOk (s : Snap) : Prop :=
  (s.dbs.map (·.name)).Nodup ∧ ∀ m ∈ s.dbs, isPrivate m.name = false → MsgWF m

instance (s : Snap) : Decidable (SnapOk s) := by unfold SnapOk; exact inferInstance

/-- **well-formed snapshot, relative to the environment it is loaded into**: `SnapOk`, and every
    message for a non-private name has the key order of its target DBI (`FlagsOk`) -/
def SnapWF (c : Cfg) (e : Env) (s : Snap) : Prop :=
  SnapOk s ∧ ∀ m ∈ s.dbs, isPrivate m.name = false → FlagsOk c e.dbis m

instance (c : Cfg) (e : Env) (s : Snap) : Decidable (SnapWF c e s) := by
  unfold SnapWF; exact inferInstance

/-! ## 3. small facts -/

theorem decodeS_nil : decodeS [] = .ok none := rfl

theorem decodeO_of_decodeS {o : Option Bytes} {v : Option Ver} (h : decodeS (o.getD []) = .ok v) :
    decodeO o = v := by
  cases o with
  | none =>
    simp only [Option.getD_none, decodeS_nil] at h
    injection h with h
  | some b =>
    simp only [Option.getD_some] at h
    simp only [decodeO, h]

/-- what is stored under a key decodes (and to a well-formed version) when all values do -/
theorem decodeS_get {ik : Bool} {db : KVs} (hv : ∀ p ∈ db, StoredWF p.2) (k : Bytes) :
    decodeS ((get ik db k).getD []) = .ok (decodeO (get ik db k)) ∧ OWF (decodeO (get ik db k)) := by
  cases hg : get ik db k with
  | none =>
    constructor
    · rfl
    · exact True.intro
  | some b =>
    obtain ⟨k', hm, _⟩ := get_some_mem hg
    obtain ⟨v, hd, hw⟩ := storedWF_iff.mp (hv _ hm)
    have hd' : decodeS b = .ok (some v) := hd
    have hdo : decodeO (some b) = some v := by simp only [decodeO, hd']
    rw [hdo]
    exact ⟨hd', hw⟩

theorem get_ne_some_nil {ik : Bool} {db : KVs} (hv : ∀ p ∈ db, StoredWF p.2) (k : Bytes) :
    get ik db k ≠ some [] := by
  intro hg
  obtain ⟨k', hm, _⟩ := get_some_mem hg
  obtain ⟨v, hd, _⟩ := storedWF_iff.mp (hv _ hm)
  simp only [decodeS_nil] at hd
  cases hd

theorem norm_congr {c c' : Merge.Cfg} (h1 : c.fv = c'.fv) (h2 : c.defTs = c'.defTs) (e : KV) :
    norm c e = norm c' e := by
  unfold norm entryDeleted
  rw [h1, h2]

/-- joining a list into a stored version = joining the stored version with the join of the list -/
theorem joinAll_eq_join {o : Option Ver} {l : List Ver} (ho : OWF o) (hl : ∀ v ∈ l, v.WF) :
    joinAll o l = join o (joinAll none l) := by
  induction l generalizing o with
  | nil => simp [joinAll, join_none_right]
  | cons x xs ih =>
    have hx : OWF (some x) := hl x (by simp)
    have hxs : ∀ v ∈ xs, v.WF := fun v hv => hl v (by simp [hv])
    have h1 : joinAll o (x :: xs) = joinAll (join o (some x)) xs := rfl
    have h2 : joinAll none (x :: xs) = joinAll (some x) xs := rfl
    rw [h1, h2, ih (join_wf ho hx) hxs, ih hx hxs,
      join_assoc ho hx (joinAll_wf (o := none) trivial hxs)]

theorem mapStratErr_eq_ok {ε α} {x : Except (SErr ε) α} {a : α} (h : mapStratErr x = .ok a) : x = .ok a := by
  cases x with
  | ok b => simpa [mapStratErr] using h
  | error err => cases err <;> simp [mapStratErr] at h

/-! ## 4. `strategy.Update` with a `NativeIterator`, at the level of logical content -/

/-- the per-key fold of `specUpdate_get` is `foldMerge` on the stored bytes (`[]` = absent) -/
theorem optFold_foldMerge (mc : Merge.Cfg) (es : List KV) :
    ∀ (o o' : Option Bytes),
      es.foldlM (fun cur e => do
        let v ← (nativeIter mc).merge e (cur.getD []); pure (setNew v)) o = .ok o' →
      foldMerge mc es (o.getD []) = .ok (o'.getD []) := by
  induction es with
  | nil => intro o o' h; cases h; rfl
  | cons e es ih =>
    intro o o' h
    rw [List.foldlM_cons] at h
    obtain ⟨o1, h1, h2⟩ := except_bind_ok h
    obtain ⟨v, hv, h3⟩ := except_bind_ok h1
    injection h3 with h3
    have hm : mergeStore mc e (o.getD []) = .ok (o1.getD []) := by
      have hv' : merge mc e (o.getD []) = .ok v := hv
      unfold mergeStore
      rw [hv', ← h3]
      cases v with
      | none => rfl
      | some b =>
        by_cases hb : b.length = 0
        · have : b = [] := List.length_eq_zero_iff.mp hb
          subst this; rfl
        · simp [setNew, hb]
    unfold foldMerge
    rw [List.foldlM_cons, hm]
    exact ih o1 o' h2

/-- that fold never leaves an empty value behind -/
theorem optFold_ne_nil (mc : Merge.Cfg) (es : List KV) (o o' : Option Bytes) (ho : o ≠ some [])
    (h : es.foldlM (fun cur e => do
        let v ← (nativeIter mc).merge e (cur.getD []); pure (setNew v)) o = .ok o') :
    o' ≠ some [] := by
  refine foldlM_invariant (fun o => o ≠ some []) _ ?_ es o o' ho h
  intro b a b' _ hstep
  obtain ⟨v, _, h3⟩ := except_bind_ok hstep
  injection h3 with h3
  rw [← h3]
  cases v with
  | none => simp [setNew]
  | some x =>
    by_cases hx : x.length = 0
    · simp [setNew, hx]
    · simp only [setNew, hx, if_false]
      intro h; injection h with h; subst h; exact hx rfl

/-- merging any list of entries, in list order, yields the join of the stored version with all of
    them (cut-off 0) — `C02_fold_is_joinAll`, restated here because lemma files do not import
    property files -/
theorem foldMerge_joinAll (c : Merge.Cfg) (es : List KV) (old : Bytes) (ov : Option Ver)
    (hc : c.cutoff = 0) (hd : c.defTs = 0)
    (hes : ∀ e ∈ es, EntryWF e ∧ Bounded c e) (hold : decodeS old = .ok ov) :
    ∃ r, foldMerge c es old = .ok r ∧ decodeS r = .ok (joinAll ov (es.map (norm c))) := by
  induction es generalizing old ov with
  | nil => exact ⟨old, rfl, hold⟩
  | cons e es ih =>
    obtain ⟨hw, hb⟩ := hes e (by simp)
    have hns : ov = none → ¬ stale c e := by
      intro _ hs; have := hs.2; rw [hc] at this; omega
    obtain ⟨r1, h1, h1d⟩ := mergeStore_join c e old ov hw hb hd hold hns
    obtain ⟨r, h2, h2d⟩ := ih r1 _ (fun e' he' => hes e' (by simp [he'])) h1d
    refine ⟨r, ?_, ?_⟩
    · simp only [foldMerge, List.foldlM_cons, h1] at h2 ⊢
      exact h2
    · simpa [joinAll] using h2d

/-- stored keys stay acceptable along `specUpdate` -/
theorem specUpdate_keys {ik : Bool} (it : Iter KV Header.Err) (input : List KV) (db db' : KVs)
    (hk : ∀ e ∈ input, badKey (it.key e) = false) (hdb : ∀ p ∈ db, badKey p.1 = false)
    (h : specUpdate ik it db input = .ok db') : ∀ p ∈ db', badKey p.1 = false := by
  rw [specUpdate_eq_fold] at h
  induction input generalizing db with
  | nil => cases h; exact hdb
  | cons e es ih =>
    rw [List.foldlM_cons] at h
    obtain ⟨db1, h1, h2⟩ := except_bind_ok h
    refine ih db1 (fun e' he' => hk e' (by simp [he'])) ?_ h2
    unfold specStep at h1
    split at h1
    · cases h1
    · rename_i v _
      injection h1 with h1; subst h1
      cases hsv : setNew v with
      | none =>
        intro p hp
        exact hdb p (del_mem p (by simpa [applyOpt] using hp))
      | some b =>
        simp only [applyOpt]
        exact put_forall (fun k => badKey k = false) hdb (hk e (by simp))

/-- **`strategy.Update` with a `NativeIterator` (cut-off 0, no default timestamp) is the pointwise
    join**: the result is again a well-formed DBI content, and the logical content of every key is
    the join of what was stored with the normal forms of the input entries for that key. -/
theorem update_abs (ik : Bool) (mc : Merge.Cfg) (db : KVs) (d : Bool) (es : List KV) (s' : S)
    (hc : mc.cutoff = 0) (hd : mc.defTs = 0) (ht : mc.txn < two64)
    (hwf : KvsWF ik db)
    (hes : ∀ e ∈ es, EntryWF e ∧ e.ts < two64 ∧ badKey e.key = false)
    (h : update ik (nativeIter mc) ⟨db, d⟩ es = .ok s') :
    KvsWF ik s'.db ∧
    ∀ k, decodeO (get ik s'.db k) =
      join (decodeO (get ik db k))
        (joinAll none ((es.filter (fun e => kcmp ik e.key k = 0)).map (norm mc))) := by
  obtain ⟨hs, hkv⟩ := hwf
  have hv : ∀ p ∈ db, StoredWF p.2 := fun p hp => (hkv p hp).2
  have hk0 : ∀ e ∈ es, ((nativeIter mc).key e).length ≠ 0 := by
    intro e he h0
    have := (hes e he).2.2
    have h0' : e.key.length = 0 := h0
    simp [badKey, h0'] at this
  rw [update_eq_spec (nativeIter mc) es (s := ⟨db, d⟩) hs hk0] at h
  have h2 : specUpdate ik (nativeIter mc) db es = .ok s'.db := specUpdateS_ok _ es h
  have hs' : Sorted ik s'.db := specUpdate_sorted _ es hs h2
  -- the content of one key
  have key : ∀ k, decodeS ((get ik s'.db k).getD []) =
      .ok (joinAll (decodeO (get ik db k))
        ((es.filter (fun e => kcmp ik e.key k = 0)).map (norm mc))) ∧ get ik s'.db k ≠ some [] := by
    intro k
    have hf := specUpdate_get (nativeIter mc) es k hs h2
    have hf' : (es.filter (fun e => kcmp ik e.key k = 0)).foldlM (fun cur e => do
        let v ← (nativeIter mc).merge e (cur.getD []); pure (setNew v)) (get ik db k)
        = .ok (get ik s'.db k) := hf
    refine ⟨?_, optFold_ne_nil mc _ _ _ (get_ne_some_nil hv k) hf'⟩
    have hfm := optFold_foldMerge mc _ _ _ hf'
    obtain ⟨r, hr, hrd⟩ := foldMerge_joinAll mc (es.filter (fun e => kcmp ik e.key k = 0))
      ((get ik db k).getD []) _ hc hd
      (fun e he => by
        have := hes e (List.mem_filter.mp he).1
        exact ⟨this.1, by rw [hd]; decide, ht, this.2.1⟩)
      (decodeS_get hv k).1
    rw [hfm] at hr
    injection hr with hr
    rw [hr]; exact hrd
  have hnwf : ∀ k, ∀ v ∈ (es.filter (fun e => kcmp ik e.key k = 0)).map (norm mc), v.WF := by
    intro k v hv'
    obtain ⟨e, _, rfl⟩ := List.mem_map.mp hv'
    exact norm_wf mc e
  refine ⟨⟨hs', ?_⟩, ?_⟩
  · intro p hp
    refine ⟨specUpdate_keys (nativeIter mc) es db s'.db (fun e he => (hes e he).2.2)
      (fun q hq => (hkv q hq).1) h2 p hp, ?_⟩
    obtain ⟨pk, pv⟩ := p
    have hg : get ik s'.db pk = some pv := get_of_mem hs' hp
    obtain ⟨hdec, hne⟩ := key pk
    rw [hg] at hdec hne
    simp only [Option.getD_some] at hdec
    have how := joinAll_wf (decodeS_get (ik := ik) hv pk).2 (hnwf pk)
    rw [storedWF_iff]
    cases hj : joinAll (decodeO (get ik db pk))
        ((es.filter (fun e => kcmp ik e.key pk = 0)).map (norm mc)) with
    | none =>
      rw [hj] at hdec
      exact absurd (congrArg some (decodeS_none hdec)) hne
    | some v =>
      rw [hj] at hdec how
      exact ⟨v, hdec, how⟩
  · intro k
    rw [decodeO_of_decodeS (key k).1]
    exact joinAll_eq_join (decodeS_get hv k).2 (hnwf k)

/-! ## 5. `loadDbi` / `loadOnce` for a native schema, at the level of logical content -/

theorem kvsWF_nil (ik : Bool) : KvsWF ik [] := ⟨sorted_nil ik, fun _ h => by cases h⟩

/-- **one DBI message** (native schema, cut-off 0): the DBIs stay well-formed, DBIs with another
    name are untouched, and the logical content is joined with the message's content -/
theorem loadDbi_abs (c : Cfg) (snap : Snap) (txnID : Nat) (w w' : W) (m : DbiMsg)
    (hn : c.native = true) (ht : txnID < two64) (hok : DbisOk w.dbis)
    (hm : isPrivate m.name = false → MsgWF m ∧ FlagsOk c w.dbis m)
    (h : loadDbi c snap txnID 0 w m = .ok w') :
    DbisOk w'.dbis ∧
    (∀ n, n ≠ m.name → findDbi w'.dbis n = findDbi w.dbis n) ∧
    ∀ key, absDbis w'.dbis key = join (absDbis w.dbis key) (absMsgAt snap.fv m key) := by
  cases hp : isPrivate m.name with
  | true =>
    rw [loadDbi_private hp] at h
    injection h with h; subst h
    refine ⟨hok, fun _ _ => rfl, ?_⟩
    intro key
    have : absMsgAt snap.fv m key = none := by
      unfold absMsgAt
      by_cases hk : isPrivate key.1 = true
      · simp [hk]
      · have hne : ¬ m.name = key.1 := fun he => hk (he ▸ hp)
        simp [hne]
    rw [this, join_none_right]
  | false =>
    obtain ⟨hmw, hfl⟩ := hm hp
    obtain ⟨_, w1, h1, h2⟩ := loadDbi_ok hp h
    obtain ⟨_, td, s, htd, hs, hw'⟩ := mergeDbi_ok h2
    have htn : targetName c m = m.name := by simp [targetName, hn]
    rw [htn] at htd hw'
    have hl1 : ∀ n, findDbi w1.dbis n =
        if n = m.name then some ((findDbi w.dbis m.name).getD (newDbi m.name (createFlags c m)))
        else findDbi w.dbis n := by
      intro n
      have := createDbis_lookup h1 n
      simpa only [hn, if_true] using this
    have htd' : td = (findDbi w.dbis m.name).getD (newDbi m.name (createFlags c m)) := by
      have := hl1 m.name
      rw [if_pos rfl, htd] at this
      injection this
    have htdn : td.name = m.name := findDbi_name htd
    have htdwf : DbiWF td := by
      rw [htd']
      cases hf : findDbi w.dbis m.name with
      | some d => exact hok _ _ hf hp
      | none => exact kvsWF_nil _
    have hflags : isIntKey td.flags = isIntKey m.flags := by rw [htd']; exact hfl
    obtain ⟨hwf', hpt⟩ := update_abs (isIntKey td.flags)
      { fv := snap.fv, defTs := 0, txn := txnID, cutoff := 0, pad := c.pad }
      td.kvs w1.dirty m.entries s rfl rfl ht htdwf hmw (mapStratErr_eq_ok hs)
    have hlook : ∀ n, findDbi w'.dbis n =
        if n = m.name then some { td with kvs := s.db } else findDbi w.dbis n := by
      intro n
      rw [hw']
      simp only
      rw [findDbi_setKvs, hl1]
      by_cases hnm : n = m.name
      · rw [if_pos hnm, if_pos hnm, ← htd']
        simp [htdn]
      · rw [if_neg hnm, if_neg hnm]
        cases hf : findDbi w.dbis n with
        | none => rfl
        | some d =>
          have : ¬ d.name = m.name := by rw [findDbi_name hf]; exact hnm
          simp [this]
    refine ⟨?_, ?_, ?_⟩
    · intro n d hf hpn
      rw [hlook] at hf
      split at hf
      · injection hf with hf; subst hf
        exact hwf'
      · exact hok n d hf hpn
    · intro n hnm
      rw [hlook, if_neg hnm]
    · intro key
      obtain ⟨n, k⟩ := key
      unfold absDbis absMsgAt
      simp only
      by_cases hpk : isPrivate n = true
      · simp [hpk, join]
      · simp only [hpk, Bool.false_eq_true, if_false]
        by_cases hnm : n = m.name
        · subst hnm
          rw [hlook, if_pos rfl, if_pos rfl]
          simp only [absDbi]
          rw [hpt k]
          have hnorm : norm { fv := snap.fv, defTs := 0, txn := txnID, cutoff := 0, pad := c.pad } =
              norm (normCfg snap.fv) := funext (norm_congr rfl rfl)
          have hold : decodeO (get (isIntKey td.flags) td.kvs k) =
              (match findDbi w.dbis m.name with
               | none => none
               | some d => decodeO (get (isIntKey d.flags) d.kvs k)) := by
            rw [htd']
            cases findDbi w.dbis m.name with
            | none => rfl
            | some d => rfl
          rw [hold, hnorm, hflags]
          rfl
        · have hnm' : ¬ m.name = n := fun he => hnm he.symm
          rw [hlook, if_neg hnm, if_neg hnm', join_none_right]

/-- a message list without a message for the name contributes nothing -/
theorem absMsgs_none {fv : Nat} {dbs : List DbiMsg} {key : Abs.Key}
    (h : ∀ m ∈ dbs, m.name ≠ key.1) : absMsgs fv dbs key = none := by
  unfold absMsgs
  have : dbs.find? (fun m => m.name = key.1) = none := by
    simp only [List.find?_eq_none, decide_eq_true_eq]
    exact h
  rw [this]
  split <;> rfl

theorem absMsgs_cons (fv : Nat) (m : DbiMsg) (rest : List DbiMsg) (key : Abs.Key) :
    absMsgs fv (m :: rest) key =
      if isPrivate key.1 = true then none
      else if m.name = key.1 then absMsg fv m key.2 else absMsgs fv rest key := by
  unfold absMsgs
  by_cases hp : isPrivate key.1 = true
  · simp [hp]
  · by_cases hm : m.name = key.1
    · simp [hp, hm]
    · simp [hp, hm]

/-- **the loop over the snapshot's messages** -/
theorem loadFold_abs (c : Cfg) (snap : Snap) (txnID : Nat) (hn : c.native = true) (ht : txnID < two64) :
    ∀ (dbs : List DbiMsg) (w w' : W), (dbs.map (·.name)).Nodup → DbisOk w.dbis →
      (∀ m ∈ dbs, isPrivate m.name = false → MsgWF m ∧ FlagsOk c w.dbis m) →
      dbs.foldlM (loadDbi c snap txnID 0) w = .ok w' →
      DbisOk w'.dbis ∧
      ∀ key, absDbis w'.dbis key = join (absDbis w.dbis key) (absMsgs snap.fv dbs key) := by
  intro dbs
  induction dbs with
  | nil =>
    intro w w' _ hok _ h
    cases h
    exact ⟨hok, fun key => by rw [absMsgs_none (fun _ hm => by cases hm), join_none_right]⟩
  | cons m rest ih =>
    intro w w' hnd hok hms h
    obtain ⟨w1, hx, hrest⟩ := foldlM_cons_ok h
    simp only [List.map_cons, List.nodup_cons] at hnd
    obtain ⟨hnotin, hnd'⟩ := hnd
    have hne : ∀ m' ∈ rest, m'.name ≠ m.name := by
      intro m' hm' he
      exact hnotin (he ▸ List.mem_map_of_mem hm')
    obtain ⟨hok1, hframe, habs1⟩ := loadDbi_abs c snap txnID w w1 m hn ht hok (hms m (by simp)) hx
    have hms' : ∀ m' ∈ rest, isPrivate m'.name = false → MsgWF m' ∧ FlagsOk c w1.dbis m' := by
      intro m' hm' hp'
      obtain ⟨h1, h2⟩ := hms m' (by simp [hm']) hp'
      refine ⟨h1, ?_⟩
      unfold FlagsOk at h2 ⊢
      rw [hframe _ (hne m' hm')]
      exact h2
    obtain ⟨hok', habs'⟩ := ih w1 w' hnd' hok1 hms' hrest
    refine ⟨hok', ?_⟩
    intro key
    rw [habs', habs1, absMsgs_cons]
    unfold absMsgAt
    by_cases hp : isPrivate key.1 = true
    · have hr : absMsgs snap.fv rest key = none := by unfold absMsgs; simp [hp]
      simp only [hp, if_true, join_none_right, hr]
    · simp only [hp, Bool.false_eq_true, if_false]
      by_cases hm : m.name = key.1
      · simp only [hm, if_true]
        rw [absMsgs_none, join_none_right]
        intro m' hm' he
        exact hne m' hm' (he.trans hm.symm)
      · simp only [hm, if_false, join_none_right]

/-- **`loadOnce`, native schema, cut-off 0**: the logical content of the new environment is the
    pointwise join of the old content with the snapshot's content, and the new environment is
    well-formed again -/
theorem loadOnce_abs (c : Cfg) (e : Env) (snap : Snap) (lastSynced now : Nat) (r : LoadRes)
    (hn : c.native = true) (ht : e.lastTxn + 1 < two64) (hwf : EnvWF e) (hsw : SnapWF c e snap)
    (h : loadOnce c e snap lastSynced now 0 = .ok r) :
    EnvWF r.env ∧ ∀ key, absEnv r.env key = join (absEnv e key) (absSnap snap key) := by
  have hpre : preLoad c e lastSynced now 0 = .ok { dbis := e.dbis, dirty := false } := by
    simp [preLoad, hn]
  rw [loadOnce_eq, hpre] at h
  simp only at h
  split at h
  · cases h
  · rename_i w1 h1
    have hpost : postLoad c w1 = .ok w1 := by simp [postLoad, hn]
    rw [hpost] at h
    simp only at h
    injection h with h
    subst h
    obtain ⟨hok', habs⟩ := loadFold_abs c snap (e.lastTxn + 1) hn ht snap.dbs _ w1 hsw.1.1
      (dbisOk_of_mem hwf.2) (fun m hm hp => ⟨hsw.1.2 m hm hp, hsw.2 m hm hp⟩) h1
    have hsn : SortedNames w1.dbis := loadFold_sorted (w := { dbis := e.dbis, dirty := false }) hwf.1 h1
    exact ⟨⟨hsn, mem_of_dbisOk hsn hok'⟩, habs⟩

/-! ## 6. `sendOnce` for a native schema, at the level of logical content -/

theorem isDeleted_image (f : UInt8) :
    Header.isDeleted (Header.masked (UInt8.ofNat ((Header.masked f).toNat % 256))) = Header.isDeleted f := by
  have h1 : (Header.masked f).toNat % 256 = (Header.masked f).toNat :=
    Nat.mod_eq_of_lt (Header.masked f).toNat_lt
  rw [h1, UInt8.ofNat_toNat]
  unfold Header.isDeleted Header.masked
  have : f &&& UInt8.ofNat Gen.flagSyncMask &&& UInt8.ofNat Gen.flagSyncMask &&& UInt8.ofNat Gen.flagDeleted
      = f &&& UInt8.ofNat Gen.flagDeleted := by
    apply UInt8.toBitVec_inj.mp
    simp only [Gen.flagDeleted, Gen.flagSyncMask, UInt8.toBitVec_and]
    generalize f.toBitVec = x
    decide +revert
  rw [this]

theorem pow256_8 : 256 ^ 8 = two64 := by decide

/-- the snapshot entry `readDBI` emits for a well-formed stored pair: its normal form (format
    version ≥ 2) is the logical content of the stored value, and it is a well-formed entry -/
theorem norm_image {fv : Nat} (hfv : 2 ≤ fv) {kv : Bytes × Bytes} {x : KV} (hi : EntryImage kv x)
    (hw : StoredWF kv.2) :
    decodeS kv.2 = .ok (some (norm (normCfg fv) x)) ∧ x.key = kv.1 ∧ EntryWF x ∧ x.ts < two64 := by
  obtain ⟨h, app, hp, rfl⟩ := hi
  obtain ⟨v, hd, hvw⟩ := storedWF_iff.mp hw
  obtain ⟨_, h', app', hp', hv⟩ := decodeS_some hd
  rw [hp] at hp'
  injection hp' with hp'
  injection hp' with e1 e2
  subst e1 e2
  have hmf : Header.isDeleted (maskedFlags
      { key := kv.1, val := app, ts := h.ts, flags := (Header.masked h.flags).toNat }) =
      Header.isDeleted h.flags := by
    unfold maskedFlags; exact isDeleted_image h.flags
  have hdel : entryDeleted (normCfg fv)
      { key := kv.1, val := app, ts := h.ts, flags := (Header.masked h.flags).toNat } =
      Header.isDeleted h.flags := by
    unfold entryDeleted
    rw [hmf]
    have : ¬ fv < 2 := by omega
    simp [normCfg, this]
  have hwf' : Header.isDeleted h.flags = true → app = [] := by
    intro hdl; have := hvw; rw [hv] at this; exact this hdl
  refine ⟨?_, rfl, ?_, ?_⟩
  · rw [hd, hv]
    unfold norm
    rw [hdel]
    simp only [normCfg]
    have hts : (if h.ts = 0 then 0 else h.ts) = h.ts := by split <;> simp_all
    rw [hts]
    cases hdl : Header.isDeleted h.flags with
    | false => simp
    | true => simp [hwf' hdl]
  · intro hdl
    rw [hmf] at hdl
    exact hwf' hdl
  · obtain ⟨_, hlen, _, hts, _⟩ := parse_app hp
    simp only
    rw [hts, ← pow256_8]
    refine Nat.lt_of_lt_of_le (beNat_lt _) (Nat.pow_le_pow_right (by decide) ?_)
    simp [slice]
    omega

/-- per key: the entries of the image with that key are the content of the DBI at that key -/
theorem image_filter {fv : Nat} (hfv : 2 ≤ fv) (ik : Bool) (kvs : KVs) (entries : List KV)
    (hp : Pointwise EntryImage kvs entries) :
    KvsWF ik kvs → ∀ k,
      (entries.filter (fun e => kcmp ik e.key k = 0)).map (norm (normCfg fv)) =
        (decodeO (get ik kvs k)).toList := by
  induction hp with
  | nil => intro _ k; rfl
  | @cons p x rest xs hpx _ ih =>
    intro hwf k
    obtain ⟨hs, hv⟩ := hwf
    obtain ⟨hdec, hkey, _, _⟩ := norm_image hfv hpx (hv p (by simp)).2
    have ih' := ih ⟨hs.tail, fun q hq => hv q (by simp [hq])⟩ k
    obtain ⟨pk, pv⟩ := p
    simp only at hkey hdec
    rw [get_cons]
    by_cases hk : kcmp ik x.key k = 0
    · have hk' : kcmp ik k pk = 0 := by rw [← hkey]; exact (kcmp_eq_comm ik _ _).mp hk
      have hnone : get ik rest k = none := by
        apply get_none_of_lt
        intro q hq
        exact kcmp_lt_of_eq_of_lt ik hk' ((sorted_cons.mp hs).1 q hq)
      rw [List.filter_cons_of_pos (by simpa using hk), List.map_cons, ih', hnone, if_pos hk']
      simp only [decodeO, hdec]
      rfl
    · have hk' : ¬ kcmp ik k pk = 0 := by
        rw [← hkey]; intro h0; exact hk ((kcmp_eq_comm ik _ _).mp h0)
      rw [List.filter_cons_of_neg (by simpa using hk), ih', if_neg hk']

theorem joinAll_toList (o : Option Ver) : joinAll none o.toList = o := by
  cases o <;> rfl

/-- looking up a name in two lists related position by position through the name -/
theorem pointwise_find {Q : Bytes → DbiMsg → Prop} {names : List Bytes} {dbs : List DbiMsg}
    (hp : Pointwise (fun name m => m.name = name ∧ Q name m) names dbs) (n : Bytes) :
    (n ∉ names ∧ dbs.find? (fun m => m.name = n) = none) ∨
    (n ∈ names ∧ ∃ m, dbs.find? (fun m => m.name = n) = some m ∧ Q n m) := by
  induction hp with
  | nil => left; exact ⟨by simp, rfl⟩
  | @cons name m names' dbs' hnm _ ih =>
    obtain ⟨h1, h2⟩ := hnm
    by_cases hn : name = n
    · right
      subst hn
      exact ⟨by simp, m, by simp [h1], h2⟩
    · have hmn : ¬ m.name = n := by rw [h1]; exact hn
      have hn' : ¬ n = name := fun h => hn h.symm
      rcases ih with ⟨h3, h4⟩ | ⟨h3, m', h4, h5⟩
      · left; exact ⟨by simp [hn', h3], by simp [hmn, h4]⟩
      · right; exact ⟨by simp [h3], m', by simp [hmn, h4], h5⟩

theorem pointwise_names {Q : Bytes → DbiMsg → Prop} {names : List Bytes} {dbs : List DbiMsg}
    (hp : Pointwise (fun name m => m.name = name ∧ Q name m) names dbs) :
    dbs.map (·.name) = names := by
  induction hp with
  | nil => rfl
  | cons hnm _ ih => simp [hnm.1, ih]

/-- **`sendOnce`, native schema, not receive-only**: the environment is unchanged, the snapshot
    has format version `Gen.currentFormatVersion`, its logical content is the environment's, and
    it is a well-formed snapshot: distinct non-private DBI names, entries `MsgWF`, flags = the
    flags of the DBI -/
theorem sendOnce_abs (c : Cfg) (e : Env) (now cutoff : Nat) (r : SendRes)
    (hn : c.native = true) (hro : c.receiveOnly = false) (hwf : EnvWF e)
    (h : sendOnce c e now cutoff = .ok r) :
    r.env = e ∧ (∀ key, absSnap r.snap key = absEnv e key) ∧
    (r.snap.dbs.map (·.name)).Nodup ∧
    ∀ m ∈ r.snap.dbs, isPrivate m.name = false ∧ MsgWF m ∧
      ∃ d, findDbi e.dbis m.name = some d ∧ m.flags = d.flags := by
  obtain ⟨w, hw, henv, _, hfv, _, hp⟩ := (sendOnce_ok_iff c e now cutoff r hro).mp h
  simp only [dumpState, hn, if_true] at hw
  injection hw with hw
  subst hw
  have henv' : r.env = e := by rw [henv]; simp [sendEnv, hn]
  have hok := dbisOk_of_mem hwf.2
  have hfv2 : 2 ≤ r.snap.fv := by rw [hfv]; decide
  have hp' : Pointwise (fun name m => m.name = name ∧
      DbiImage c { dbis := e.dbis, dirty := false } name name m)
      (appNames { dbis := e.dbis, dirty := false }) r.snap.dbs := by
    refine hp.imp ?_
    intro name m hi
    have : dumpName c name = name := by simp [dumpName, hn]
    rw [this] at hi
    exact ⟨hi.name, hi⟩
  have hmemnames : ∀ n, n ∈ appNames { dbis := e.dbis, dirty := false } ↔
      (n ∈ e.dbis.map (·.name) ∧ isPrivate n = false) := by
    intro n; simp [appNames, dbiNames]
  -- what a message looks like
  have hmsg : ∀ n m, isPrivate n = false →
      DbiImage c { dbis := e.dbis, dirty := false } n n m →
      ∃ d, findDbi e.dbis n = some d ∧ m.flags = d.flags ∧ DbiWF d ∧
        Pointwise EntryImage d.kvs m.entries := by
    intro n m hpn hi
    obtain ⟨d, hd, hents⟩ := hi.dumped
    obtain ⟨o, ho, hf, _, _⟩ := hi.orig
    simp only at hd ho
    rw [hd] at ho; injection ho with ho; subst ho
    exact ⟨d, hd, hf, hok n d hd hpn, hents⟩
  refine ⟨henv', ?_, ?_, ?_⟩
  · intro key
    obtain ⟨n, k⟩ := key
    unfold absSnap absMsgs absEnv absDbis
    simp only
    by_cases hpk : isPrivate n = true
    · simp [hpk]
    · simp only [hpk, Bool.false_eq_true, if_false]
      have hpk' : isPrivate n = false := by simpa using hpk
      rcases pointwise_find hp' n with ⟨h1, h2⟩ | ⟨h1, m, h2, h3⟩
      · rw [h2]
        have : findDbi e.dbis n = none := by
          rw [findDbi_none]
          intro d hd hdn
          exact h1 ((hmemnames n).mpr ⟨hdn ▸ List.mem_map_of_mem hd, hpk'⟩)
        rw [this]
      · rw [h2]
        obtain ⟨d, hd, hf, hdw, hents⟩ := hmsg n m hpk' h3
        rw [hd]
        simp only [absMsg, absDbi]
        rw [hf, image_filter hfv2 (isIntKey d.flags) d.kvs m.entries hents hdw k, joinAll_toList]
  · rw [pointwise_names hp']
    unfold appNames dbiNames
    exact (sortedNames_nodup hwf.1).filter _
  · intro m hm
    obtain ⟨n, hn', hnm, hi⟩ := hp'.exists_left m hm
    have hpn : isPrivate n = false := ((hmemnames n).mp hn').2
    obtain ⟨d, hd, hf, hdw, hents⟩ := hmsg n m hpn hi
    rw [hnm]
    refine ⟨hpn, ?_, d, hd, hf⟩
    intro x hx
    obtain ⟨kv, hkv, hix⟩ := hents.exists_left x hx
    obtain ⟨_, hkey, hew, hts⟩ := norm_image (fv := 2) (Nat.le_refl 2) hix (hdw.2 kv hkv).2
    exact ⟨hew, hts, by rw [hkey]; exact (hdw.2 kv hkv).1⟩

/-! ## 7. a message with strictly increasing keys -/

/-- the entries of a message are strictly increasing in the key order its flags announce -/
def MsgSorted (m : DbiMsg) : Prop :=
  m.entries.Pairwise (fun a b => kcmp (isIntKey m.flags) a.key b.key < 0)

instance (m : DbiMsg) : Decidable (MsgSorted m) := by unfold MsgSorted; exact inferInstance

theorem filter_sorted_mem (ik : Bool) (es : List KV)
    (hs : es.Pairwise (fun a b => kcmp ik a.key b.key < 0)) :
    ∀ e ∈ es, es.filter (fun x => kcmp ik x.key e.key = 0) = [e] := by
  induction es with
  | nil => intro e he; cases he
  | cons x xs ih =>
    intro e he
    obtain ⟨hx, hxs⟩ := List.pairwise_cons.mp hs
    rcases List.mem_cons.mp he with he | he
    · subst he
      rw [List.filter_cons_of_pos (by simpa using kcmp_refl ik e.key)]
      congr 1
      apply List.filter_eq_nil_iff.mpr
      intro y hy
      have := kcmp_ne_of_gt ik (hx y hy)
      simpa using this
    · have hlt := hx e he
      rw [List.filter_cons_of_neg (by simpa using kcmp_ne_of_lt ik hlt)]
      exact ih hxs e he

/-- with strictly increasing keys the content of a message at an entry's key is that entry's
    normal form, and a key without entry has no content -/
theorem absMsg_of_sorted (fv : Nat) (m : DbiMsg) (hs : MsgSorted m) :
    (∀ e ∈ m.entries, absMsg fv m e.key = some (norm (normCfg fv) e)) ∧
    (∀ k, (∀ e ∈ m.entries, kcmp (isIntKey m.flags) e.key k ≠ 0) → absMsg fv m k = none) := by
  constructor
  · intro e he
    unfold absMsg
    rw [filter_sorted_mem _ _ hs e he]
    rfl
  · intro k hk
    unfold absMsg
    rw [List.filter_eq_nil_iff.mpr (fun e he => by simpa using hk e he)]
    rfl

/-! ## 8. an application put; the byte-level fleet -/

theorem put_mem {ik : Bool} {db : KVs} {k v : Bytes} :
    ∀ p ∈ put ik db k v, p.2 = v ∨ p ∈ db := by
  induction db with
  | nil => intro p hp; simp [put] at hp; left; rw [hp]
  | cons q rest ih =>
    obtain ⟨k', v'⟩ := q
    intro p hp
    rw [put_cons] at hp
    split at hp
    · rcases List.mem_cons.mp hp with hp | hp
      · left; rw [hp]
      · right; exact hp
    · split at hp
      · rcases List.mem_cons.mp hp with hp | hp
        · left; rw [hp]
        · right; exact List.mem_cons_of_mem _ hp
      · rcases List.mem_cons.mp hp with hp | hp
        · right; rw [hp]; exact List.mem_cons_self ..
        · rcases ih p hp with h | h
          · left; exact h
          · right; exact List.mem_cons_of_mem _ h

/-- the version a stored value denotes (a default when it does not parse) -/
def verOf (val : Bytes) : Ver :=
  match decodeS val with
  | .ok (some v) => v
  | _ => default

theorem verOf_spec {val : Bytes} (h : StoredWF val) :
    decodeS val = .ok (some (verOf val)) ∧ (verOf val).WF := by
  obtain ⟨v, hd, hw⟩ := storedWF_iff.mp h
  have : verOf val = v := by simp only [verOf, hd]
  rw [this]; exact ⟨hd, hw⟩

/-- **an application transaction putting one stored value** (header + application value) under a
    valid key into an existing, non-private, byte-ordered, non-duplicate DBI overwrites exactly
    that key's logical content -/
theorem appPut_abs (e : Env) (name k val : Bytes) (d : Dbi)
    (hwf : EnvWF e) (hd : findDbi e.dbis name = some d) (hp : isPrivate name = false)
    (hdup : isDupSort d.flags = false) (hik : isIntKey d.flags = false)
    (hk : badKey k = false) (hv : StoredWF val) :
    ∃ e', appTxn e [.put name k val] = some e' ∧ EnvWF e' ∧
      absEnv e' = Abs.upd (absEnv e) (name, k) (verOf val) := by
  have hdn : d.name = name := findDbi_name hd
  refine ⟨commit e { dbis := setKvs e.dbis name (put false d.kvs k val), dirty := true }, ?_, ?_, ?_⟩
  · simp [appTxn, appRefused, appStep, hd, hk, hdup, hik]
  · have hsn : SortedNames (setKvs e.dbis name (put false d.kvs k val)) := sortedNames_setKvs _ _ hwf.1
    refine ⟨hsn, mem_of_dbisOk hsn ?_⟩
    intro n d' hf hpn
    simp only [commit] at hf
    rw [findDbi_setKvs] at hf
    cases hfn : findDbi e.dbis n with
    | none => rw [hfn] at hf; cases hf
    | some d0 =>
      rw [hfn] at hf
      simp only [Option.map_some] at hf
      injection hf with hf
      have hd0 : DbiWF d0 := dbisOk_of_mem hwf.2 n d0 hfn hpn
      by_cases hnm : d0.name = name
      · rw [if_pos hnm] at hf
        have : d0 = d := by
          have h1 := findDbi_name hfn
          rw [hnm] at h1; subst h1
          rw [hd] at hfn; injection hfn with hfn; exact hfn.symm
        subst this hf
        unfold DbiWF at hd0 ⊢
        simp only [hik] at hd0 ⊢
        refine ⟨sorted_put hd0.1 k val, ?_⟩
        intro p hpm
        refine ⟨put_forall (fun k => badKey k = false) (fun q hq => (hd0.2 q hq).1) hk p hpm, ?_⟩
        rcases put_mem p hpm with h | h
        · rw [h]; exact hv
        · exact (hd0.2 p h).2
      · rw [if_neg hnm] at hf
        subst hf; exact hd0
  · funext key
    obtain ⟨n, k'⟩ := key
    unfold absEnv absDbis Abs.upd
    simp only [commit]
    by_cases hpk : isPrivate n = true
    · have : ¬ (n, k') = (name, k) := by
        intro he; injection he with h1 _; rw [h1, hp] at hpk; cases hpk
      simp [hpk, this]
    · simp only [hpk, Bool.false_eq_true, if_false]
      rw [findDbi_setKvs]
      by_cases hnm : n = name
      · subst hnm
        rw [hd]
        simp only [Option.map_some, hdn, if_true, absDbi, hik]
        rw [get_put]
        by_cases hkk : k' = k
        · subst hkk
          simp only [kcmp, Bool.false_eq_true, if_false, bcmp_eq.mpr rfl, if_true, decodeO,
            (verOf_spec hv).1]
        · have h1 : ¬ kcmp false k k' = 0 := by
            simp only [kcmp, Bool.false_eq_true, if_false]
            intro h0; exact hkk (bcmp_eq.mp h0).symm
          have h2 : ¬ (n, k') = (n, k) := by intro he; injection he with _ h2; exact hkk h2
          rw [if_neg h1, if_neg h2]
      · have h2 : ¬ (n, k') = (name, k) := by intro he; injection he with h1 _; exact hnm h1
        rw [if_neg h2]
        cases hfn : findDbi e.dbis n with
        | none => rfl
        | some d0 =>
          have : ¬ d0.name = name := by rw [findDbi_name hfn]; exact hnm
          simp [this]

/-- logical content is well-formed -/
theorem absEnv_wf {e : Env} (hwf : EnvWF e) : (absEnv e).WF := by
  intro key
  show OWF (absDbis e.dbis key)
  unfold absDbis
  by_cases hp : isPrivate key.1 = true
  · rw [if_pos hp]; trivial
  · rw [if_neg hp]
    have hp' : isPrivate key.1 = false := by simpa using hp
    cases hd : findDbi e.dbis key.1 with
    | none => trivial
    | some d =>
      exact (decodeS_get (ik := isIntKey d.flags)
        (fun p hp'' => ((dbisOk_of_mem hwf.2 _ d hd hp').2 p hp'').2) key.2).2

theorem absSnap_wf (s : Snap) : (absSnap s).WF := by
  intro key
  show OWF (absMsgs s.fv s.dbs key)
  unfold absMsgs
  by_cases hp : isPrivate key.1 = true
  · rw [if_pos hp]; trivial
  · rw [if_neg hp]
    cases hd : s.dbs.find? (fun m => m.name = key.1) with
    | none => trivial
    | some m =>
      show OWF (absMsg s.fv m key.2)
      unfold absMsg
      refine joinAll_wf (o := none) trivial ?_
      intro v hv
      obtain ⟨e, _, rfl⟩ := List.mem_map.mp hv
      exact norm_wf _ e

/-- n environments and a bucket of snapshots (instance id, snapshot), oldest first -/
structure BFleet where
  n : Nat
  env : Nat → Env
  bucket : List (Nat × Snap)

/-- a byte-level step: an application transaction putting one stored value; `sendOnce` (the
    snapshot goes to the bucket); `loadOnce` of the bucket's snapshot number `idx`, cut-off 0 -/
inductive BStep where
  | write (i : Nat) (name key val : Bytes)
  | send (i : Nat) (now cutoff : Nat)
  | load (i : Nat) (idx : Nat) (lastSynced now : Nat)

def setEnv (f : BFleet) (i : Nat) (e : Env) : BFleet :=
  { f with env := fun j => if j = i then e else f.env j }

/-- one byte-level step; a failing transaction leaves everything as it was (all-or-nothing),
    `done` says whether it took place -/
def bstepD (c : Cfg) (f : BFleet) : BStep → BFleet × Bool
  | .write i name key val =>
    match appTxn (f.env i) [.put name key val] with
    | some e' => (setEnv f i e', true)
    | none => (f, false)
  | .send i now cutoff =>
    match sendOnce c (f.env i) now cutoff with
    | .ok r => ({ setEnv f i r.env with bucket := f.bucket ++ [(i, r.snap)] }, true)
    | .error _ => (f, false)
  | .load i idx lastSynced now =>
    match f.bucket[idx]? with
    | none => (f, false)
    | some p =>
      match loadOnce c (f.env i) p.2 lastSynced now 0 with
      | .ok r => (setEnv f i r.env, true)
      | .error _ => (f, false)

def bstep (c : Cfg) (f : BFleet) (s : BStep) : BFleet := (bstepD c f s).1

def brun (c : Cfg) (f : BFleet) (steps : List BStep) : BFleet := steps.foldl (bstep c) f

/-- the abstract fleet a byte-level fleet denotes -/
def absFleet (f : BFleet) : Abs.Fleet :=
  { n := f.n, db := fun i => absEnv (f.env i), bucket := f.bucket.map (fun p => (p.1, absSnap p.2)) }

/-- the abstract step a byte-level step denotes -/
def absStep : BStep → Abs.Step
  | .write i name key val => .write i (name, key) (verOf val)
  | .send i _ _ => .send i
  | .load i idx _ _ => .load i idx

/-- the abstract schedule of a byte-level run: the steps that took place, in order -/
def absRun (c : Cfg) : BFleet → List BStep → List Abs.Step
  | _, [] => []
  | f, s :: rest =>
    (if (bstepD c f s).2 then [absStep s] else []) ++ absRun c (bstep c f s) rest

/-- side conditions of a step (nothing about its success): a write is a put of a well-formed
    stored value into an existing non-private, byte-ordered, non-duplicate DBI and the version
    does not lose against what is stored; a load happens with a transaction id below 2^64 and the
    snapshot's messages have the key order of their target DBIs (`FlagsOk`) -/
def StepOk (c : Cfg) (f : BFleet) : BStep → Prop
  | .write i name key val =>
    isPrivate name = false ∧ StoredWF val ∧
    (∃ d, findDbi (f.env i).dbis name = some d ∧ isDupSort d.flags = false ∧ isIntKey d.flags = false) ∧
    join (absEnv (f.env i) (name, key)) (some (verOf val)) = some (verOf val)
  | .send _ _ _ => True
  | .load i idx _ _ =>
    (f.env i).lastTxn + 1 < two64 ∧
    ∀ p, f.bucket[idx]? = some p → ∀ m ∈ p.2.dbs, isPrivate m.name = false → FlagsOk c (f.env i).dbis m

def RunOk (c : Cfg) : BFleet → List BStep → Prop
  | _, [] => True
  | f, s :: rest => StepOk c f s ∧ RunOk c (bstep c f s) rest

/-- the invariant of a byte-level fleet: every environment and every stored snapshot well-formed -/
def BInv (f : BFleet) : Prop := (∀ i, EnvWF (f.env i)) ∧ ∀ p ∈ f.bucket, SnapOk p.2

theorem absFleet_setEnv (f : BFleet) (i : Nat) (e : Env) :
    absFleet (setEnv f i e) =
      { absFleet f with db := fun j => if j = i then absEnv e else (absFleet f).db j } := by
  unfold absFleet setEnv
  simp only [Abs.Fleet.mk.injEq, true_and, and_true]
  funext j
  by_cases hj : j = i <;> simp [hj]

/-- **one byte-level step refines the abstract step it denotes** (or no step, if it failed) -/
theorem bstep_refines (c : Cfg) (hn : c.native = true) (hro : c.receiveOnly = false)
    (f : BFleet) (s : BStep) (hinv : BInv f) (hok : StepOk c f s) :
    BInv (bstep c f s) ∧
    ((bstepD c f s).2 = false → bstep c f s = f) ∧
    ((bstepD c f s).2 = true →
      absFleet (bstep c f s) = Abs.step (absFleet f) (absStep s) ∧
      (match absStep s with
       | .write i k v => v.WF ∧ join ((absFleet f).db i k) (some v) = some v
       | _ => True)) := by
  cases s with
  | write i name key val =>
    obtain ⟨hp, hv, ⟨d, hd, hdup, hik⟩, hmono⟩ := hok
    cases hk : badKey key with
    | true =>
      have hnone : appTxn (f.env i) [.put name key val] = none := by
        simp [appTxn, appRefused, hd, hk]
      have hD : bstepD c f (.write i name key val) = (f, false) := by
        simp only [bstepD, hnone]
      unfold bstep
      rw [hD]
      exact ⟨hinv, fun _ => rfl, fun h => by cases h⟩
    | false =>
      obtain ⟨e', he', hwf', habs⟩ := appPut_abs (f.env i) name key val d (hinv.1 i) hd hp hdup hik hk hv
      have hD : bstepD c f (.write i name key val) = (setEnv f i e', true) := by
        simp only [bstepD, he']
      unfold bstep
      rw [hD]
      refine ⟨⟨?_, hinv.2⟩, (fun h => by cases h), fun _ => ⟨?_, (verOf_spec hv).2, hmono⟩⟩
      · intro j
        simp only [setEnv]
        by_cases hj : j = i
        · rw [if_pos hj]; exact hwf'
        · rw [if_neg hj]; exact hinv.1 j
      · simp only
        rw [absFleet_setEnv, habs]
        rfl
  | send i now cutoff =>
    cases hs : sendOnce c (f.env i) now cutoff with
    | error err =>
      have hD : bstepD c f (.send i now cutoff) = (f, false) := by simp only [bstepD, hs]
      unfold bstep
      rw [hD]
      exact ⟨hinv, fun _ => rfl, fun h => by cases h⟩
    | ok r =>
      obtain ⟨henv, habs, hnd, hms⟩ := sendOnce_abs c (f.env i) now cutoff r hn hro (hinv.1 i) hs
      have hset : setEnv f i r.env = f := by
        unfold setEnv
        cases f with
        | mk n env bucket =>
          simp only [BFleet.mk.injEq, true_and, and_true]
          funext j
          by_cases hj : j = i
          · rw [if_pos hj, henv, hj]
          · rw [if_neg hj]
      have hD : bstepD c f (.send i now cutoff) =
          ({ f with bucket := f.bucket ++ [(i, r.snap)] }, true) := by
        simp only [bstepD, hs, hset]
      unfold bstep
      rw [hD]
      refine ⟨⟨hinv.1, ?_⟩, (fun h => by cases h), fun _ => ⟨?_, trivial⟩⟩
      · intro p hp
        simp only [List.mem_append, List.mem_singleton] at hp
        rcases hp with hp | hp
        · exact hinv.2 p hp
        · subst hp
          exact ⟨hnd, fun m hm _ => (hms m hm).2.1⟩
      · unfold absFleet
        simp only [Abs.step, absStep, List.map_append, List.map_cons, List.map_nil]
        have : absSnap r.snap = absEnv (f.env i) := funext habs
        rw [this]
  | load i idx lastSynced now =>
    obtain ⟨hT, hfl⟩ := hok
    cases hb : f.bucket[idx]? with
    | none =>
      have hD : bstepD c f (.load i idx lastSynced now) = (f, false) := by simp only [bstepD, hb]
      unfold bstep
      rw [hD]
      exact ⟨hinv, fun _ => rfl, fun h => by cases h⟩
    | some p =>
      cases hl : loadOnce c (f.env i) p.2 lastSynced now 0 with
      | error err =>
        have hD : bstepD c f (.load i idx lastSynced now) = (f, false) := by
          simp only [bstepD, hb, hl]
        unfold bstep
        rw [hD]
        exact ⟨hinv, fun _ => rfl, fun h => by cases h⟩
      | ok r =>
        have hD : bstepD c f (.load i idx lastSynced now) = (setEnv f i r.env, true) := by
          simp only [bstepD, hb, hl]
        unfold bstep
        rw [hD]
        have hsok : SnapOk p.2 := hinv.2 p (List.mem_of_getElem? hb)
        obtain ⟨hwf', habs⟩ := loadOnce_abs c (f.env i) p.2 lastSynced now r hn hT (hinv.1 i)
          ⟨hsok, hfl p hb⟩ hl
        refine ⟨⟨?_, hinv.2⟩, (fun h => by cases h), fun _ => ⟨?_, trivial⟩⟩
        · intro j
          simp only [setEnv]
          by_cases hj : j = i
          · rw [if_pos hj]; exact hwf'
          · rw [if_neg hj]; exact hinv.1 j
        · simp only
          rw [absFleet_setEnv]
          have hb' : (absFleet f).bucket[idx]? = some (p.1, absSnap p.2) := by
            simp [absFleet, hb]
          simp only [Abs.step, absStep, hb']
          have : absEnv r.env = Abs.DB.join ((absFleet f).db i) (absSnap p.2) := by
            funext key; exact habs key
          rw [this]

theorem absFleet_wf {f : BFleet} (hinv : BInv f) : Abs.FleetWF (absFleet f) := by
  refine ⟨fun i => absEnv_wf (hinv.1 i), ?_⟩
  intro p hp
  simp only [absFleet, List.mem_map] at hp
  obtain ⟨q, _, rfl⟩ := hp
  exact absSnap_wf q.2

/-- **a byte-level run refines the abstract run of the steps that took place** -/
theorem brun_refines (c : Cfg) (hn : c.native = true) (hro : c.receiveOnly = false) :
    ∀ (steps : List BStep) (f : BFleet), BInv f → RunOk c f steps →
      absFleet (brun c f steps) = Abs.run (absFleet f) (absRun c f steps) ∧
      BInv (brun c f steps) ∧
      Abs.StepsWF (absRun c f steps) ∧ Abs.MonotoneFrom (absFleet f) (absRun c f steps) := by
  intro steps
  induction steps with
  | nil => intro f hinv _; exact ⟨rfl, hinv, (fun s hs => by cases hs), trivial⟩
  | cons s rest ih =>
    intro f hinv hok
    obtain ⟨hs, hrest⟩ := hok
    obtain ⟨hinv', hfalse, htrue⟩ := bstep_refines c hn hro f s hinv hs
    obtain ⟨ih1, ih2, ih3, ih4⟩ := ih (bstep c f s) hinv' hrest
    have hrun : brun c f (s :: rest) = brun c (bstep c f s) rest := rfl
    rw [hrun]
    cases hd : (bstepD c f s).2 with
    | false =>
      have habs : absRun c f (s :: rest) = absRun c (bstep c f s) rest := by simp [absRun, hd]
      rw [habs]
      have hf := hfalse hd
      rw [hf] at ih1 ih2 ih3 ih4 ⊢
      exact ⟨ih1, ih2, ih3, ih4⟩
    | true =>
      obtain ⟨hstep, hside⟩ := htrue hd
      have habs : absRun c f (s :: rest) = absStep s :: absRun c (bstep c f s) rest := by
        simp [absRun, hd]
      rw [habs]
      refine ⟨?_, ih2, ?_, ?_⟩
      · show _ = Abs.run (Abs.step (absFleet f) (absStep s)) _
        rw [← hstep]; exact ih1
      · intro x hx
        rcases List.mem_cons.mp hx with hx | hx
        · subst hx
          generalize absStep s = a at hside
          cases a with
          | write i k v => exact hside.1
          | send i => trivial
          | load i idx => trivial
        · exact ih3 x hx
      · refine ⟨?_, by rw [← hstep]; exact ih4⟩
        generalize absStep s = a at hside
        cases a with
        | write i k v => exact hside.2
        | send i => trivial
        | load i idx => trivial

end Ls.Txn
