import LsLemmas.CodecEnc
import LsLemmas.PbCompat
/-
  What the encoder writes is a valid message of the published schema whose value (PbSpec) is the
  snapshot that was encoded.
-/
namespace Ls.CodecS
open Ls Ls.Wire Ls.Codec Ls.PbSpec

/-! ### fuel of the tokeniser is irrelevant once it covers the input -/

theorem recordsN_succ : ∀ (f : Nat) (p : Bytes), p.length ≤ f → recordsN (f + 1) p = recordsN f p := by
  intro f
  induction f with
  | zero =>
    intro p h
    have : p = [] := List.eq_nil_of_length_eq_zero (by omega)
    subst this; rfl
  | succ f ih =>
    intro p h
    cases p with
    | nil => rfl
    | cons b tl =>
      rw [recordsN_cons, recordsN_cons]
      rcases hrec : record (b :: tl) with _ | ⟨r, rest⟩
      · rfl
      have := adv_length (record_adv _ _ _ hrec)
      simp only
      rw [ih rest (by simp only [List.length_cons] at h this; omega)]

theorem recordsN_ge (p : Bytes) : ∀ (k : Nat), recordsN (p.length + k) p = records p := by
  intro k
  induction k with
  | zero => rfl
  | succ k ih => rw [← Nat.add_assoc, recordsN_succ _ _ (by omega), ih]

theorem records_field (fb rest : Bytes) (r : Rec) (rs : List Rec)
    (hrec : record (fb ++ rest) = some (r, rest)) (h : records rest = some rs) :
    records (fb ++ rest) = some (r :: rs) := by
  have hadv := adv_length (record_adv _ _ _ hrec)
  have hne : fb ++ rest ≠ [] := by intro h0; rw [h0] at hadv; simp at hadv
  unfold records
  rcases hp : fb ++ rest with _ | ⟨b, tl⟩
  · exact absurd hp hne
  rw [hp] at hrec hadv
  obtain ⟨k, hk⟩ : ∃ k, (b :: tl).length = k + 1 := ⟨tl.length, by simp⟩
  rw [hk, recordsN_cons, hrec]
  simp only
  have : k = rest.length + (k - rest.length) := by omega
  rw [this, recordsN_ge, h]

theorem records_opt (c : Prop) [Decidable c] (fb : Bytes) (r : Rec)
    (hrec : ∀ rest, record (fb ++ rest) = some (r, rest)) (rest : Bytes) (rs : List Rec)
    (h : records rest = some rs) :
    records ((if c then fb else []) ++ rest) = some ((if c then [r] else []) ++ rs) := by
  split
  · exact records_field fb rest r rs (hrec rest) h
  · simpa using h

theorem records_nil : records [] = some [] := rfl

/-! ### the records of the encoder's fields -/

theorem takeN_append (x rest : Bytes) : takeN x.length (x ++ rest) = some (x, rest) := by
  simp [takeN]

theorem record_lenField (f : Nat) (x rest : Bytes) (hf1 : 1 ≤ f) (hf2 : f < 2 ^ 29) (hx : x.length < two64) :
    record (encodeTag f wtLen ++ encodeVarint x.length ++ x ++ rest) = some (⟨f, .len x⟩, rest) := by
  have e1 : (f * 8 + 2) / 8 = f := by omega
  have e2 : (f * 8 + 2) % 8 = 2 := by omega
  have hk : f * 8 + 2 < two64 := by simp [two64]; omega
  have hfn : ¬ (f = 0 ∨ f ≥ 2 ^ 29) := by omega
  simp only [List.append_assoc, encodeTag, wtLen]
  unfold record
  rw [varint_encodeVarint _ _ hk]
  simp only [e1, e2, hfn, if_false]
  rw [varint_encodeVarint _ _ hx]
  simp [takeN_append]

theorem record_varintField (f v : Nat) (rest : Bytes) (hf1 : 1 ≤ f) (hf2 : f < 2 ^ 29) (hv : v < two64) :
    record (encodeTag f wtVarint ++ encodeVarint v ++ rest) = some (⟨f, .varint v⟩, rest) := by
  have e1 : (f * 8 + 0) / 8 = f := by omega
  have e2 : (f * 8 + 0) % 8 = 0 := by omega
  have hk : f * 8 + 0 < two64 := by simp [two64]; omega
  have hfn : ¬ (f = 0 ∨ f ≥ 2 ^ 29) := by omega
  simp only [List.append_assoc, encodeTag, wtVarint]
  unfold record
  rw [varint_encodeVarint _ _ hk]
  simp only [e1, e2, hfn, if_false, if_true]
  rw [varint_encodeVarint _ _ hv]

theorem record_fixed64Field (f v : Nat) (rest : Bytes) (hf1 : 1 ≤ f) (hf2 : f < 2 ^ 29) :
    record (encodeTag f wtFixed64 ++ le64 v ++ rest) = some (⟨f, .i64 (le64 v)⟩, rest) := by
  have e1 : (f * 8 + 1) / 8 = f := by omega
  have e2 : (f * 8 + 1) % 8 = 1 := by omega
  have hk : f * 8 + 1 < two64 := by simp [two64]; omega
  have hfn : ¬ (f = 0 ∨ f ≥ 2 ^ 29) := by omega
  simp only [List.append_assoc, encodeTag, wtFixed64]
  unfold record
  rw [varint_encodeVarint _ _ hk]
  simp only [e1, e2, hfn, if_false, if_true]
  have h8 : (le64 v).length = 8 := le64_length v
  have := takeN_append (le64 v) rest
  rw [h8] at this
  simp [this]

theorem leNat_le64 (n : Nat) (h : n < two64) : leNat (le64 n) = n := by
  unfold le64; rw [leNat_leBytes]; exact Nat.mod_eq_of_lt (by simpa [two64] using h)

theorem foldRecs_append {α : Type} (f : α → Rec → Option α) (a : α) (l1 l2 : List Rec) :
    foldRecs f a (l1 ++ l2) = match foldRecs f a l1 with
      | none => none
      | some a' => foldRecs f a' l2 := by
  induction l1 generalizing a with
  | nil => rfl
  | cons r l1 ih =>
    simp only [List.cons_append, foldRecs_cons]
    cases f a r with
    | none => rfl
    | some a' => exact ih a'

theorem foldRecs_single {α : Type} (f : α → Rec → Option α) (a : α) (r : Rec) :
    foldRecs f a [r] = f a r := by
  rw [foldRecs_cons]; cases f a r <;> rfl

/-! ### KV -/

def kvRecs (kv : KV) : List Rec :=
  (if kv.key.length > 0 then [⟨1, .len kv.key⟩] else [])
  ++ ((if kv.val.length > 0 then [⟨2, .len kv.val⟩] else [])
  ++ ((if kv.flags > 0 then [⟨4, .varint kv.flags⟩] else [])
  ++ ((if kv.ts > 0 then [⟨3, .i64 (le64 kv.ts)⟩] else []) ++ [])))

theorem records_kvBytes (kv : KV) (hr : KVRange kv) : records (kvBytes kv) = some (kvRecs kv) := by
  obtain ⟨h1, h2, h3, h4⟩ := hr
  have h3' : kv.flags < two64 := by simp [two32, two64] at *; omega
  have e : kvBytes kv =
      (if kv.key.length > 0 then encodeTag Gen.fieldKVKey wtLen ++ encodeVarint kv.key.length ++ kv.key else [])
      ++ ((if kv.val.length > 0 then encodeTag Gen.fieldKVValue wtLen ++ encodeVarint kv.val.length ++ kv.val else [])
      ++ ((if kv.flags > 0 then encodeTag Gen.fieldKVFlags wtVarint ++ encodeVarint kv.flags else [])
      ++ ((if kv.ts > 0 then encodeTag Gen.fieldKVTimestampNano wtFixed64 ++ le64 kv.ts else []) ++ []))) := by
    simp [kvBytes, List.append_assoc]
  rw [e]
  unfold kvRecs
  apply records_opt _ _ _ (fun rest => record_lenField 1 kv.key rest (by decide) (by decide) h1)
  apply records_opt _ _ _ (fun rest => record_lenField 2 kv.val rest (by decide) (by decide) h2)
  apply records_opt _ _ _ (fun rest => record_varintField 4 kv.flags rest (by decide) (by decide) h3')
  apply records_opt _ _ _ (fun rest => record_fixed64Field 3 kv.ts rest (by decide) (by decide))
  exact records_nil

theorem length_pos_or_nil (x : Bytes) : x.length > 0 ∨ x = [] := by
  cases x <;> simp

theorem parseKV_kvBytes (kv : KV) (hr : KVRange kv) : parseKV (kvBytes kv) = some kv := by
  unfold parseKV
  rw [records_kvBytes kv hr]
  obtain ⟨h1, h2, h3, h4⟩ := hr
  simp only
  unfold kvRecs
  obtain ⟨k, v, ts, fl⟩ := kv
  simp only at h1 h2 h3 h4 ⊢
  have hfl : fl % 2 ^ 32 = fl := Nat.mod_eq_of_lt (by simpa [two32] using h3)
  have hts := leNat_le64 ts h4
  rcases length_pos_or_nil k with hk | hk <;> rcases length_pos_or_nil v with hv | hv <;>
    rcases Nat.eq_zero_or_pos fl with hf | hf <;> rcases Nat.eq_zero_or_pos ts with ht | ht <;>
    simp_all [foldRecs_cons, foldRecs_nil, kvField, kvZero]

theorem kvBytes_nonempty (kv : KV) (hk : kv.key ≠ []) : (kvBytes kv).length ≠ 0 := by
  have : kv.key.length > 0 := by cases h : kv.key with
    | nil => exact absurd h hk
    | cons _ _ => simp
  unfold kvBytes
  simp only [this, if_true, List.length_append]
  have := encodeVarint_length_pos kv.key.length
  omega

/-! ### DBI -/

def entryRecs : List KV → List Rec
  | [] => []
  | kv :: kvs => ⟨2, .len (kvBytes kv)⟩ :: entryRecs kvs

theorem records_entriesBytes : ∀ (kvs : List KV),
    (∀ kv ∈ kvs, kv.key ≠ [] ∧ (kvBytes kv).length < two64) →
    records (entriesBytes kvs) = some (entryRecs kvs)
  | [], _ => rfl
  | kv :: kvs, h => by
    have hkv := h kv (by simp)
    unfold entriesBytes entryRecs entryBytes
    rw [if_neg (kvBytes_nonempty kv hkv.1)]
    exact records_field _ _ _ _ (record_lenField 2 (kvBytes kv) _ (by decide) (by decide) hkv.2)
      (records_entriesBytes kvs (fun kv' hk' => h kv' (by simp [hk'])))

def hdrRecs (h : DBIHdr) : List Rec :=
  (if h.name.length > 0 then [⟨1, .len h.name⟩] else [])
  ++ ((if h.flags > 0 then [⟨3, .varint h.flags⟩] else [])
  ++ ((if h.transform.length > 0 then [⟨4, .len h.transform⟩] else []) ++ []))

theorem records_append_of (a b : Bytes) (ra rb : List Rec)
    (ha : ∀ rest rs, records rest = some rs → records (a ++ rest) = some (ra ++ rs))
    (hb : records b = some rb) : records (a ++ b) = some (ra ++ rb) := ha b rb hb

theorem records_dbiBytes (d : DBI') (hr : DBIRange d) (hk : ∀ kv ∈ d.entries, kv.key ≠ []) :
    records (dbiBytes d) = some (hdrRecs { name := d.name, flags := d.flags, transform := d.transform } ++ entryRecs d.entries) := by
  obtain ⟨h1, h2, h3, h4⟩ := hr
  have he := records_entriesBytes d.entries (fun kv hkv => ⟨hk kv hkv, (h4 kv hkv).2⟩)
  unfold dbiBytes hdrBytes hdrRecs
  simp only [List.append_assoc, List.append_nil]
  apply records_opt _ _ _ (fun rest => record_lenField 1 d.name rest (by decide) (by decide) (by simp [two64]; omega))
  apply records_opt _ _ _ (fun rest => record_varintField 3 d.flags rest (by decide) (by decide) h3)
  apply records_opt _ _ _ (fun rest => record_lenField 4 d.transform rest (by decide) (by decide) (by simp [two64]; omega))
  exact he

theorem fold_entryRecs : ∀ (kvs : List KV) (d : DBI'), (∀ kv ∈ kvs, KVRange kv) →
    foldRecs dbiField d (entryRecs kvs) = some { d with entries := d.entries ++ kvs }
  | [], d, _ => by simp [entryRecs, foldRecs_nil]
  | kv :: kvs, d, h => by
    unfold entryRecs
    rw [foldRecs_cons]
    have : dbiField d ⟨2, .len (kvBytes kv)⟩ = some { d with entries := d.entries ++ [kv] } := by
      simp [dbiField, parseKV_kvBytes kv (h kv (by simp))]
    rw [this]
    simp only
    rw [fold_entryRecs kvs _ (fun kv' hk' => h kv' (by simp [hk']))]
    simp [List.append_assoc]

theorem parseDBI_dbiBytes (d : DBI') (hr : DBIRange d) (hk : ∀ kv ∈ d.entries, kv.key ≠ []) :
    parseDBI (dbiBytes d) = some d := by
  unfold parseDBI
  rw [records_dbiBytes d hr hk]
  simp only
  rw [foldRecs_append]
  obtain ⟨n, fl, tr, es⟩ := d
  have hfold : foldRecs dbiField dbiZero (hdrRecs { name := n, flags := fl, transform := tr })
      = some { name := n, flags := fl, transform := tr, entries := [] } := by
    unfold hdrRecs
    rcases length_pos_or_nil n with hn | hn <;> rcases Nat.eq_zero_or_pos fl with hf | hf <;>
      rcases length_pos_or_nil tr with ht | ht <;>
      simp_all [foldRecs_cons, foldRecs_nil, dbiField, dbiZero]
  rw [hfold]
  simp only
  rw [fold_entryRecs es _ (fun kv hkv => (hr.2.2.2 kv hkv).1)]
  simp


/-! ### Meta -/

theorem fold_opt {α : Type} (f : α → Rec → Option α) (c : Prop) [Decidable c] (r : Rec) (a a' : α)
    (rest : List Rec) (h1 : c → f a r = some a') (h2 : ¬ c → a' = a) :
    foldRecs f a ((if c then [r] else []) ++ rest) = foldRecs f a' rest := by
  split
  · rename_i hc
    simp only [List.singleton_append, foldRecs_cons, h1 hc]
  · rename_i hc
    rw [h2 hc]; rfl

def metaRecs (m : Meta) : List Rec :=
  (if m.generationID.length > 0 then [⟨1, .len m.generationID⟩] else [])
  ++ ((if m.instanceID.length > 0 then [⟨2, .len m.instanceID⟩] else [])
  ++ ((if m.hostname.length > 0 then [⟨3, .len m.hostname⟩] else [])
  ++ ((if m.databaseName.length > 0 then [⟨7, .len m.databaseName⟩] else [])
  ++ ((if m.lmdbTxnID > 0 then [⟨4, .varint (toUInt64 m.lmdbTxnID)⟩] else [])
  ++ ((if m.timestampNano > 0 then [⟨5, .i64 (le64 m.timestampNano)⟩] else [])
  ++ ((if m.fromLmdbTxnID > 0 then [⟨8, .varint (toUInt64 m.fromLmdbTxnID)⟩] else []) ++ []))))))

theorem toUInt64_lt (i : Int) : toUInt64 i < two64 := by
  unfold toUInt64
  have h : (0 : Int) < ((two64 : Nat) : Int) := by decide
  have h1 := Int.emod_nonneg i (Int.ne_of_gt h)
  have h2 := Int.emod_lt_of_pos i h
  omega

/-- ranges of the Go types of Meta, non-negative transaction ids (as LMDB's are), strings within
    csproto's default field limit (math.MaxInt32) -/
def MetaWF (m : Meta) : Prop :=
  0 ≤ m.lmdbTxnID ∧ m.lmdbTxnID < (two63 : Nat) ∧ 0 ≤ m.fromLmdbTxnID ∧ m.fromLmdbTxnID < (two63 : Nat) ∧
  m.timestampNano < two64 ∧
  m.generationID.length ≤ defaultMaxFieldLen ∧ m.instanceID.length ≤ defaultMaxFieldLen ∧
  m.hostname.length ≤ defaultMaxFieldLen ∧ m.databaseName.length ≤ defaultMaxFieldLen

theorem records_metaMarshal (m : Meta) (hw : MetaWF m) : records (metaMarshal m) = some (metaRecs m) := by
  obtain ⟨_, _, _, _, _, l1, l2, l3, l4⟩ := hw
  have hd : defaultMaxFieldLen < two64 := by decide
  have e : metaMarshal m =
      (if m.generationID.length > 0 then encodeTag Gen.fieldMetaGenerationID wtLen ++ encodeVarint m.generationID.length ++ m.generationID else [])
      ++ ((if m.instanceID.length > 0 then encodeTag Gen.fieldMetaInstanceID wtLen ++ encodeVarint m.instanceID.length ++ m.instanceID else [])
      ++ ((if m.hostname.length > 0 then encodeTag Gen.fieldMetaHostname wtLen ++ encodeVarint m.hostname.length ++ m.hostname else [])
      ++ ((if m.databaseName.length > 0 then encodeTag Gen.fieldMetaDatabaseName wtLen ++ encodeVarint m.databaseName.length ++ m.databaseName else [])
      ++ ((if m.lmdbTxnID > 0 then encodeTag Gen.fieldMetaLMDBTxnID wtVarint ++ encodeVarint (toUInt64 m.lmdbTxnID) else [])
      ++ ((if m.timestampNano > 0 then encodeTag Gen.fieldMetaTimestampNano wtFixed64 ++ le64 m.timestampNano else [])
      ++ ((if m.fromLmdbTxnID > 0 then encodeTag Gen.fieldMetaFromLMDBTxnID wtVarint ++ encodeVarint (toUInt64 m.fromLmdbTxnID) else []) ++ [])))))) := by
    simp [metaMarshal, strField, List.append_assoc]
  rw [e]
  unfold metaRecs
  apply records_opt _ _ _ (fun rest => record_lenField 1 m.generationID rest (by decide) (by decide) (by omega))
  apply records_opt _ _ _ (fun rest => record_lenField 2 m.instanceID rest (by decide) (by decide) (by omega))
  apply records_opt _ _ _ (fun rest => record_lenField 3 m.hostname rest (by decide) (by decide) (by omega))
  apply records_opt _ _ _ (fun rest => record_lenField 7 m.databaseName rest (by decide) (by decide) (by omega))
  apply records_opt _ _ _ (fun rest => record_varintField 4 _ rest (by decide) (by decide) (toUInt64_lt _))
  apply records_opt _ _ _ (fun rest => record_fixed64Field 5 m.timestampNano rest (by decide) (by decide))
  apply records_opt _ _ _ (fun rest => record_varintField 8 _ rest (by decide) (by decide) (toUInt64_lt _))
  exact records_nil

theorem toInt64_toUInt64 (i : Int) (h0 : 0 ≤ i) (h1 : i < (two63 : Nat)) : toInt64 (toUInt64 i) = i := by
  have := wrapInt64_small i h0 h1
  exact this

theorem len_not_pos {x : Bytes} (h : ¬ x.length > 0) : x = [] := by
  cases x with
  | nil => rfl
  | cons _ _ => simp at h

theorem mergeMeta_metaMarshal (m : Meta) (hw : MetaWF m) : mergeMeta metaZero (metaMarshal m) = some m := by
  unfold mergeMeta
  rw [records_metaMarshal m hw]
  obtain ⟨t0, t1, f0, f1, hts, _, _, _, _⟩ := hw
  obtain ⟨g, i, h, txn, ts, dn, fr⟩ := m
  simp only at t0 t1 f0 f1 hts ⊢
  unfold metaRecs
  simp only
  rw [fold_opt metaField _ _ metaZero { metaZero with generationID := g } _
      (fun _ => by simp [metaField]) (fun hc => by simp [metaZero, len_not_pos hc])]
  rw [fold_opt metaField _ _ _ { metaZero with generationID := g, instanceID := i } _
      (fun _ => by simp [metaField]) (fun hc => by simp [metaZero, len_not_pos hc])]
  rw [fold_opt metaField _ _ _ { metaZero with generationID := g, instanceID := i, hostname := h } _
      (fun _ => by simp [metaField]) (fun hc => by simp [metaZero, len_not_pos hc])]
  rw [fold_opt metaField _ _ _ { metaZero with generationID := g, instanceID := i, hostname := h, databaseName := dn } _
      (fun _ => by simp [metaField]) (fun hc => by simp [metaZero, len_not_pos hc])]
  rw [fold_opt metaField _ _ _ { metaZero with generationID := g, instanceID := i, hostname := h, databaseName := dn, lmdbTxnID := txn } _
      (fun _ => by simp [metaField, toInt64_toUInt64 txn t0 t1]) (fun hc => by simp [metaZero]; omega)]
  rw [fold_opt metaField _ _ _ { metaZero with generationID := g, instanceID := i, hostname := h, databaseName := dn, lmdbTxnID := txn, timestampNano := ts } _
      (fun _ => by simp [metaField, leNat_le64 ts hts]) (fun hc => by simp [metaZero]; omega)]
  rw [fold_opt metaField _ _ _ { metaZero with generationID := g, instanceID := i, hostname := h, databaseName := dn, lmdbTxnID := txn, timestampNano := ts, fromLmdbTxnID := fr } _
      (fun _ => by simp [metaField, toInt64_toUInt64 fr f0 f1]) (fun hc => by simp [metaZero]; omega)]
  simp [foldRecs_nil, metaZero]

theorem metaMarshal_length_le (m : Meta) :
    (metaMarshal m).length ≤ m.generationID.length + m.instanceID.length + m.hostname.length + m.databaseName.length + 100 := by
  have := metaMarshal_fits m
  unfold metaMarshal
  have s1 := strField_length_le Gen.fieldMetaGenerationID m.generationID (by decide)
  have s2 := strField_length_le Gen.fieldMetaInstanceID m.instanceID (by decide)
  have s3 := strField_length_le Gen.fieldMetaHostname m.hostname (by decide)
  have s4 := strField_length_le Gen.fieldMetaDatabaseName m.databaseName (by decide)
  have t4 := encodeTag_length_small Gen.fieldMetaLMDBTxnID wtVarint (by decide) (by decide)
  have t5 := encodeTag_length_small Gen.fieldMetaTimestampNano wtFixed64 (by decide) (by decide)
  have t8 := encodeTag_length_small Gen.fieldMetaFromLMDBTxnID wtVarint (by decide) (by decide)
  have v4 := encodeVarint_length_le (toUInt64 m.lmdbTxnID)
  have v8 := encodeVarint_length_le (toUInt64 m.fromLmdbTxnID)
  simp only [List.length_append]
  split <;> split <;> split <;>
    simp only [List.length_append, List.length_nil, t4, t5, t8, le64_length] <;> omega

theorem metaOK_metaMarshal (m : Meta) (hw : MetaWF m) : MetaOK (metaMarshal m) := by
  intro rs hrs r hr
  rw [records_metaMarshal m hw] at hrs
  injection hrs with hrs; subst hrs
  obtain ⟨_, _, _, _, _, l1, l2, l3, l4⟩ := hw
  unfold metaRecs at hr
  simp only [List.mem_append, List.mem_ite_nil_right, List.mem_singleton, List.not_mem_nil, or_false] at hr
  rcases hr with ⟨_, rfl⟩ | ⟨_, rfl⟩ | ⟨_, rfl⟩ | ⟨_, rfl⟩ | ⟨_, rfl⟩ | ⟨_, rfl⟩ | ⟨_, rfl⟩ <;>
    refine ⟨by simp, ?_⟩ <;> intro x hx <;> simp at hx <;> subst hx <;> assumption

/-! ### Snapshot -/

def dbiRecs : List DBI' → List Rec
  | [] => []
  | d :: ds => ⟨3, .len (dbiBytes d)⟩ :: dbiRecs ds

def snapRecs (s : Snapshot') : List Rec :=
  (if s.formatVersion > 0 then [⟨1, .varint s.formatVersion⟩] else [])
  ++ ((if s.compatVersion > 0 then [⟨4, .varint s.compatVersion⟩] else [])
  ++ ((if (metaMarshal s.info).length = 0 then [] else [⟨2, .len (metaMarshal s.info)⟩])
  ++ dbiRecs s.dbis))

/-- one DBI of a well-formed snapshot: name 1..511 bytes (LMDB), transform ≤ 64 bytes, flags a
    uint64, keys non-empty, entry flags uint32 and timestamps uint64, and an encoded size within
    snapshot.MaxFieldLength (100 GB), beyond which Snapshot.Unmarshal refuses a DBI -/
def DBIWF (d : DBI') : Prop :=
  1 ≤ d.name.length ∧ d.name.length ≤ 511 ∧ d.transform.length ≤ 64 ∧ d.flags < two64 ∧
  (dbiBytes d).length ≤ snapshotMaxFieldLen ∧
  ∀ kv ∈ d.entries, kv.key ≠ [] ∧ kv.flags < two32 ∧ kv.ts < two64

theorem kvBytes_ge (kv : KV) : kv.key.length ≤ (kvBytes kv).length ∧ kv.val.length ≤ (kvBytes kv).length := by
  unfold kvBytes
  simp only [List.length_append]
  constructor <;> (split <;> split <;> simp only [List.length_append, List.length_nil] <;> omega)

theorem entryBytes_ge (kv : KV) : (kvBytes kv).length ≤ (entryBytes kv).length := by
  unfold entryBytes
  split
  · omega
  · simp only [List.length_append]; omega

theorem entriesBytes_ge : ∀ (kvs : List KV) (kv : KV), kv ∈ kvs → (kvBytes kv).length ≤ (entriesBytes kvs).length
  | [], _, h => by simp at h
  | k :: kvs, kv, h => by
    simp only [List.mem_cons] at h
    unfold entriesBytes
    simp only [List.length_append]
    rcases h with rfl | h
    · have := entryBytes_ge kv; omega
    · have := entriesBytes_ge kvs kv h; omega

theorem dbiRange_of_wf (d : DBI') (hw : DBIWF d) : DBIRange d := by
  obtain ⟨h1, h2, h3, h4, h5, h6⟩ := hw
  refine ⟨h2, h3, h4, ?_⟩
  intro kv hkv
  obtain ⟨_, k2, k3⟩ := h6 kv hkv
  have hs : snapshotMaxFieldLen < two64 := by decide
  have g1 := entriesBytes_ge d.entries kv hkv
  have g2 : (entriesBytes d.entries).length ≤ (dbiBytes d).length := by
    unfold dbiBytes; simp only [List.length_append]; omega
  have g3 := kvBytes_ge kv
  exact ⟨⟨by omega, by omega, k2, k3⟩, by omega⟩

theorem dbiBytes_nonempty (d : DBI') (h : 1 ≤ d.name.length) : (dbiBytes d).length ≠ 0 := by
  unfold dbiBytes hdrBytes
  have : d.name.length > 0 := h
  simp only [this, if_true, List.length_append]
  have := encodeVarint_length_pos d.name.length
  omega

theorem records_dbisBytes : ∀ (ds : List DBI'), (∀ d ∈ ds, DBIWF d) → records (dbisBytes ds) = some (dbiRecs ds)
  | [], _ => rfl
  | d :: ds, h => by
    have hd := h d (by simp)
    have hs : snapshotMaxFieldLen < two64 := by decide
    unfold dbisBytes dbiRecs lenField
    rw [if_neg (dbiBytes_nonempty d hd.1)]
    exact records_field _ _ _ _ (record_lenField 3 (dbiBytes d) _ (by decide) (by decide) (by have := hd.2.2.2.2.1; omega))
      (records_dbisBytes ds (fun d' hd' => h d' (by simp [hd'])))

/-- the well-formedness predicate of `C07_roundtrip` -/
def SnapWF (s : Snapshot') : Prop :=
  s.formatVersion < two32 ∧ s.compatVersion < two32 ∧ MetaWF s.info ∧ (∀ d ∈ s.dbis, DBIWF d) ∧
  (snapBytes s).length < two63

theorem metaMarshal_small (m : Meta) (hw : MetaWF m) : (metaMarshal m).length ≤ snapshotMaxFieldLen := by
  have := metaMarshal_length_le m
  obtain ⟨_, _, _, _, _, l1, l2, l3, l4⟩ := hw
  simp only [defaultMaxFieldLen, snapshotMaxFieldLen] at *
  omega

theorem records_snapBytes (s : Snapshot') (hw : SnapWF s) : records (snapBytes s) = some (snapRecs s) := by
  obtain ⟨h1, h2, h3, h4, _⟩ := hw
  have hs : snapshotMaxFieldLen < two64 := by decide
  have hm := metaMarshal_small s.info h3
  unfold snapBytes snapRecs varintField lenField
  simp only [List.append_assoc]
  apply records_opt _ _ _ (fun rest => record_varintField 1 _ rest (by decide) (by decide) (by simp [two32, two64] at *; omega))
  apply records_opt _ _ _ (fun rest => record_varintField 4 _ rest (by decide) (by decide) (by simp [two32, two64] at *; omega))
  have hd := records_dbisBytes s.dbis h4
  split
  · simpa using hd
  · have key := records_field (encodeTag 2 wtLen ++ encodeVarint (metaMarshal s.info).length ++ metaMarshal s.info)
      (dbisBytes s.dbis) _ _
      (record_lenField 2 (metaMarshal s.info) (dbisBytes s.dbis) (by decide) (by decide) (by omega)) hd
    have e2 : Gen.fieldSnapshotMeta = 2 := rfl
    rw [e2]
    simpa [List.append_assoc] using key

theorem fold_dbiRecs : ∀ (ds : List DBI') (s : Snapshot'), (∀ d ∈ ds, DBIWF d) →
    foldRecs snapField s (dbiRecs ds) = some { s with dbis := s.dbis ++ ds }
  | [], s, _ => by simp [dbiRecs, foldRecs_nil]
  | d :: ds, s, h => by
    have hd := h d (by simp)
    unfold dbiRecs
    rw [foldRecs_cons]
    have : snapField s ⟨3, .len (dbiBytes d)⟩ = some { s with dbis := s.dbis ++ [d] } := by
      simp [snapField, parseDBI_dbiBytes d (dbiRange_of_wf d hd) (fun kv hkv => (hd.2.2.2.2.2 kv hkv).1)]
    rw [this]
    simp only
    rw [fold_dbiRecs ds _ (fun d' hd' => h d' (by simp [hd']))]
    simp [List.append_assoc]

/-- the value of the encoder's bytes under the published schema is the encoded snapshot -/
theorem parse_snapBytes (s : Snapshot') (hw : SnapWF s) : parse (snapBytes s) = some s := by
  unfold parse
  rw [records_snapBytes s hw]
  obtain ⟨h1, h2, h3, h4, _⟩ := hw
  obtain ⟨fv, cv, info, dbis⟩ := s
  simp only at h1 h2 h3 h4 ⊢
  unfold snapRecs
  simp only
  have hfv : fv % 2 ^ 32 = fv := Nat.mod_eq_of_lt (by simpa [two32] using h1)
  have hcv : cv % 2 ^ 32 = cv := Nat.mod_eq_of_lt (by simpa [two32] using h2)
  rw [fold_opt snapField _ _ snapZero' { snapZero' with formatVersion := fv } _
      (fun _ => by simp [snapField, hfv]) (fun hc => by simp [snapZero']; omega)]
  rw [fold_opt snapField _ _ _ { snapZero' with formatVersion := fv, compatVersion := cv } _
      (fun _ => by simp [snapField, hcv]) (fun hc => by simp [snapZero']; omega)]
  have hmm := mergeMeta_metaMarshal info h3
  have hstep : foldRecs snapField { snapZero' with formatVersion := fv, compatVersion := cv }
      ((if (metaMarshal info).length = 0 then [] else [⟨2, .len (metaMarshal info)⟩]) ++ dbiRecs dbis)
      = foldRecs snapField { snapZero' with formatVersion := fv, compatVersion := cv, info := info } (dbiRecs dbis) := by
    split
    · rename_i h0
      have hnil : metaMarshal info = [] := List.eq_nil_of_length_eq_zero h0
      rw [hnil] at hmm
      simp [mergeMeta, records_nil, foldRecs_nil] at hmm
      simp [snapZero', hmm]
    · simp only [List.singleton_append, foldRecs_cons]
      have : snapField { snapZero' with formatVersion := fv, compatVersion := cv } ⟨2, .len (metaMarshal info)⟩
          = some { snapZero' with formatVersion := fv, compatVersion := cv, info := info } := by
        simp [snapField, snapZero', hmm]
      rw [this]
  rw [hstep, fold_dbiRecs dbis _ h4]
  simp [snapZero']

theorem conforming_snapBytes (s : Snapshot') (hw : SnapWF s) : Conforming (snapBytes s) := by
  intro rs hrs r hr
  rw [records_snapBytes s hw] at hrs
  injection hrs with hrs; subst hrs
  obtain ⟨h1, h2, h3, h4, _⟩ := hw
  unfold snapRecs at hr
  simp only [List.mem_append] at hr
  rcases hr with hr | hr | hr | hr
  · split at hr
    · simp only [List.mem_singleton] at hr; subst hr
      refine ⟨by simp, fun x hx => by simp at hx, fun _ v hv => ?_, fun hf => by simp at hf⟩
      simp at hv; subst hv; simpa [two32] using h1
    · simp at hr
  · split at hr
    · simp only [List.mem_singleton] at hr; subst hr
      refine ⟨by simp, fun x hx => by simp at hx, fun _ v hv => ?_, fun hf => by simp at hf⟩
      simp at hv; subst hv; simpa [two32] using h2
    · simp at hr
  · split at hr
    · simp at hr
    · simp only [List.mem_singleton] at hr; subst hr
      refine ⟨by simp, fun x hx => ?_, fun hf => by simp at hf, fun _ x hx => ?_⟩
      · simp at hx; subst hx; exact metaMarshal_small s.info h3
      · simp at hx; subst hx; exact metaOK_metaMarshal s.info h3
  · have : ∀ (ds : List DBI'), (∀ d ∈ ds, DBIWF d) → r ∈ dbiRecs ds → TopRecOK r := by
      intro ds
      induction ds with
      | nil => intro _ h; simp [dbiRecs] at h
      | cons d ds ih =>
        intro hd h
        simp only [dbiRecs, List.mem_cons] at h
        rcases h with rfl | h
        · refine ⟨by simp, fun x hx => ?_, fun hf => by simp at hf, fun hf => by simp at hf⟩
          simp at hx; subst hx; exact (hd d (by simp)).2.2.2.2.1
        · exact ih (fun d' hd' => hd d' (by simp [hd'])) h
    exact this s.dbis h4 hr

theorem lmdbContent_of_wf (s : Snapshot') (hw : SnapWF s) : LmdbContent s :=
  fun d hd e he => ((hw.2.2.2.1 d hd).2.2.2.2.2 e he).1

end Ls.CodecS
