import LsLemmas.Cleaner
/-
  Lemmas about a whole `RunOnce`: candidates, the sort, what is passed to Delete, and the new state.
-/
namespace Ls.Cleaner

variable {parse : Parse} {cfg : Cfg} {st : St} {now : Int}

theorem candOf_eq_some {ign : List String} {n : String} {c : Cand} :
    candOf parse ign n = some c ↔
      n ∉ ign ∧ ∃ i, parse n = some i ∧ i.kind = Gen.kindSnapshot ∧ c = ⟨n, i.inst, i.ts⟩ := by
  unfold candOf
  by_cases h : n ∈ ign
  · simp [h]
  · simp only [h, if_false, not_false_eq_true, true_and]
    cases hp : parse n with
    | none => simp
    | some i =>
      by_cases hk : i.kind = Gen.kindSnapshot
      · simp [hk, eq_comm]
      · simp [hk]

theorem mem_candidates {names : List String} {c : Cand} :
    c ∈ candidates parse st names ↔
      c.name ∈ names ∧ c.name ∉ st.ignored ∧
        ∃ i, parse c.name = some i ∧ i.kind = Gen.kindSnapshot ∧ c.inst = i.inst ∧ c.ts = i.ts := by
  unfold candidates
  rw [List.mem_filterMap]
  constructor
  · rintro ⟨n, hn, h⟩
    obtain ⟨h1, i, hp, hk, rfl⟩ := candOf_eq_some.mp h
    exact ⟨hn, h1, i, hp, hk, rfl, rfl⟩
  · rintro ⟨hn, h1, i, hp, hk, hi, ht⟩
    refine ⟨c.name, hn, candOf_eq_some.mpr ⟨h1, i, hp, hk, ?_⟩⟩
    cases c; simp_all

theorem candidates_isSnap {names : List String} {c : Cand} (h : c ∈ candidates parse st names) :
    c.name ∈ names ∧ IsSnap parse c.name ⟨Gen.kindSnapshot, c.inst, c.ts⟩ := by
  obtain ⟨hn, _, i, hp, hk, hi, ht⟩ := mem_candidates.mp h
  refine ⟨hn, ?_, rfl⟩
  rw [hp]; cases i; simp_all

/-- a listed snapshot name that is not ignored is a candidate -/
theorem candidate_of_isSnap {names : List String} {n : String} {i : Info}
    (hn : n ∈ names) (hs : IsSnap parse n i) (hig : n ∉ st.ignored) :
    (⟨n, i.inst, i.ts⟩ : Cand) ∈ candidates parse st names :=
  mem_candidates.mpr ⟨hn, hig, i, hs.1, hs.2, rfl, rfl⟩

theorem candidates_nodup {names : List String} (h : DistinctTimes parse names) :
    ((candidates parse st names).map (·.name)).Nodup := by
  unfold candidates
  rw [List.Nodup, List.pairwise_map]
  refine List.Pairwise.filterMap _ ?_ h
  intro a a' hr b hb b' hb' heq
  obtain ⟨_, i, hp, hk, rfl⟩ := candOf_eq_some.mp hb
  obtain ⟨_, j, hp', hk', rfl⟩ := candOf_eq_some.mp hb'
  dsimp only at heq
  subst heq
  rw [hp] at hp'; cases hp'
  exact hr i i ⟨hp, hk⟩ ⟨hp, hk⟩ rfl rfl

theorem candidates_nodup' {names : List String} (h : names.Nodup) :
    ((candidates parse st names).map (·.name)).Nodup := by
  unfold candidates
  rw [List.Nodup, List.pairwise_map]
  refine List.Pairwise.filterMap _ ?_ h
  intro a a' hr b hb b' hb'
  obtain ⟨_, i, _, _, rfl⟩ := candOf_eq_some.mp hb
  obtain ⟨_, j, _, _, rfl⟩ := candOf_eq_some.mp hb'
  exact hr

theorem candidates_distinct {names : List String} (h : DistinctTimes parse names) :
    (candidates parse st names).Pairwise (fun x y => x.inst = y.inst → x.ts ≠ y.ts) := by
  unfold candidates
  refine List.Pairwise.filterMap _ ?_ h
  intro a a' hr b hb b' hb'
  obtain ⟨_, i, hp, hk, rfl⟩ := candOf_eq_some.mp hb
  obtain ⟨_, j, hp', hk', rfl⟩ := candOf_eq_some.mp hb'
  exact hr i j ⟨hp, hk⟩ ⟨hp', hk'⟩

/-! ### the sort -/

theorem sortCands_perm (cs : List Cand) : (sortCands cs).Perm cs := List.mergeSort_perm _ _

theorem mem_sortCands {cs : List Cand} {c : Cand} : c ∈ sortCands cs ↔ c ∈ cs :=
  (sortCands_perm cs).mem_iff

theorem sortCands_sorted (cs : List Cand) : (sortCands cs).Pairwise (fun a b => a.ts ≥ b.ts) := by
  have h := List.pairwise_mergeSort (le := newerEq)
    (by intro a b c; simp only [newerEq, decide_eq_true_eq]; omega)
    (by intro a b; simp only [newerEq, Bool.or_eq_true, decide_eq_true_eq]; omega) cs
  exact h.imp (by intro a b; simp [newerEq])

theorem sortCands_names_nodup {cs : List Cand} (h : (cs.map (·.name)).Nodup) :
    ((sortCands cs).map (·.name)).Nodup :=
  ((sortCands_perm cs).map _).nodup_iff.mpr h

theorem sortCands_distinct {cs : List Cand}
    (h : cs.Pairwise (fun x y => x.inst = y.inst → x.ts ≠ y.ts)) :
    (sortCands cs).Pairwise (fun x y => x.inst = y.inst → x.ts ≠ y.ts) :=
  (sortCands_perm cs).symm.pairwise h (fun hxy e => (hxy e.symm).symm)

/-! ### what is deleted -/

theorem eq_of_nodup_map {α β : Type} (f : α → β) : ∀ {l : List α}, (l.map f).Nodup →
    ∀ {a b : α}, a ∈ l → b ∈ l → f a = f b → a = b := by
  intro l
  induction l with
  | nil => intro _ a b ha; simp at ha
  | cons x xs ih =>
    intro hnd a b ha hb hab
    rw [List.map_cons, List.nodup_cons] at hnd
    obtain ⟨hx, hnd'⟩ := hnd
    rcases List.mem_cons.mp ha with ha' | ha'
    · rcases List.mem_cons.mp hb with hb' | hb'
      · rw [ha', hb']
      · subst ha'; exact absurd (hab ▸ List.mem_map_of_mem hb') hx
    · rcases List.mem_cons.mp hb with hb' | hb'
      · subst hb'; exact absurd (hab ▸ List.mem_map_of_mem ha') hx
      · exact ih hnd' ha' hb' hab

theorem pairwise_or {α : Type} {R : α → α → Prop} : ∀ {l : List α}, l.Pairwise R →
    ∀ {a b : α}, a ∈ l → b ∈ l → a ≠ b → R a b ∨ R b a := by
  intro l
  induction l with
  | nil => intro _ a b ha; simp at ha
  | cons x xs ih =>
    intro hp a b ha hb hab
    obtain ⟨hx, hp'⟩ := List.pairwise_cons.mp hp
    rcases List.mem_cons.mp ha with ha' | ha'
    · rcases List.mem_cons.mp hb with hb' | hb'
      · exact absurd (ha'.trans hb'.symm) hab
      · subst ha'; exact Or.inl (hx b hb')
    · rcases List.mem_cons.mp hb with hb' | hb'
      · subst hb'; exact Or.inr (hx a ha')
      · exact ih hp' ha' hb' hab

theorem mem_names_iff {cs : List Cand} {n : String} : n ∈ cs.map (·.name) ↔ ∃ c ∈ cs, c.name = n := by
  simp [List.mem_map]

theorem look_gc {cs : List Cand} {n : String} :
    look n (gcFirstSeen st cs) = if n ∈ cs.map (·.name) then look n st.firstSeen else none := by
  unfold gcFirstSeen
  rw [look_filter (fun k => decide (k ∈ cs.map (·.name)))]
  simp

theorem stage1_sub {cs : List Cand} {c : Cand} (h : c ∈ (stage1 cfg st now cs).1) : c ∈ cs :=
  mem_sortCands.mp ((filter1_sublist _ _ _ _ _).subset h)

theorem mem_toDelete {cs : List Cand} {c : Cand} :
    c ∈ toDelete cfg st now cs ↔
      c ∈ (stage2 cfg st now cs).1 ∨
        (c ∈ (stage2 cfg st now cs).2 ∧ provenMerged st.committed c = true) := by
  simp [toDelete, List.mem_append, List.mem_filter]

theorem toDelete_stage1 {cs : List Cand} {c : Cand} (h : c ∈ toDelete cfg st now cs) :
    c ∈ (stage1 cfg st now cs).1 := by
  rcases mem_toDelete.mp h with h | ⟨h, _⟩
  · exact (filter2_rem_sublist _ _ _ _).subset h
  · exact (filter2_old _ _ _ _ _ h).1

theorem toDelete_sub {cs : List Cand} {c : Cand} (h : c ∈ toDelete cfg st now cs) : c ∈ cs :=
  stage1_sub (toDelete_stage1 h)

/-- whatever is passed to Delete was in snapFirstSeen before the run, longer ago than the keep interval -/
theorem toDelete_keep {cs : List Cand} {c : Cand} (hnd : (cs.map (·.name)).Nodup)
    (h : c ∈ toDelete cfg st now cs) :
    ∃ t, look c.name st.firstSeen = some t ∧ now - t > cfg.mustKeep := by
  obtain ⟨hc, t, ht, hgt⟩ := filter1_kept _ _ _ _ _ c (sortCands_names_nodup hnd) (toDelete_stage1 h)
  rw [look_gc] at ht
  split at ht
  · exact ⟨t, ht, hgt⟩
  · cases ht

/-- the newest candidate of an instance is passed to Delete only by the stale-instance rule -/
theorem toDelete_newest {cs : List Cand} {c : Cand}
    (hnd : (cs.map (·.name)).Nodup)
    (hdist : cs.Pairwise (fun x y => x.inst = y.inst → x.ts ≠ y.ts))
    (h : c ∈ toDelete cfg st now cs)
    (hnewest : ∀ e ∈ cs, e.name ≠ c.name → e.inst = c.inst → e.ts < c.ts)
    (hord : ∀ e ∈ cs, e.inst = c.inst → e.ts < c.ts → ∀ t u,
      look e.name st.firstSeen = some t → look c.name st.firstSeen = some u → t ≤ u) :
    now - c.ts > cfg.removeOld ∧ provenMerged st.committed c = true := by
  rcases mem_toDelete.mp h with h2 | ⟨h2, hp⟩
  · exfalso
    have hc1 : c ∈ (stage1 cfg st now cs).1 := (filter2_rem_sublist _ _ _ _).subset h2
    have hsorted : (stage1 cfg st now cs).1.Pairwise
        (fun x y => x.ts ≥ y.ts ∧ (x.inst = y.inst → x.ts ≠ y.ts)) :=
      ((sortCands_sorted cs).and (sortCands_distinct hdist)).sublist (filter1_sublist _ _ _ _ _)
    obtain ⟨_, u, hu, hgt⟩ := filter1_kept _ _ _ _ _ c (sortCands_names_nodup hnd) hc1
    rcases filter2_rem _ _ _ _ _ c hsorted h2 with hs | ⟨e, he, hi, hge, hne⟩
    · rcases filter1_seen _ _ _ _ _ _ (sortCands_names_nodup hnd) hs with hs | ⟨e, he, hi, t, ht, hle⟩
      · simp at hs
      · have hecs : e ∈ cs := mem_sortCands.mp he
        have hname : e.name ≠ c.name := by
          intro heq; rw [heq, hu] at ht; cases ht; omega
        have hlt := hnewest e hecs hname hi
        rw [look_gc] at ht hu
        have h1 : e.name ∈ cs.map (·.name) := List.mem_map_of_mem hecs
        have h2' : c.name ∈ cs.map (·.name) := List.mem_map_of_mem (stage1_sub hc1)
        rw [if_pos h1] at ht; rw [if_pos h2'] at hu
        have := hord e hecs hi hlt t u ht hu
        omega
    · have hecs : e ∈ cs := stage1_sub he
      have hname : e.name ≠ c.name := by
        intro heq
        -- two candidates with one name are one candidate
        have hcc : c ∈ cs := stage1_sub hc1
        have : e = c := by
          exact eq_of_nodup_map (·.name) hnd hecs hcc heq
        subst this
        exact hne hi rfl
      have := hnewest e hecs hname hi
      omega
  · exact ⟨(filter2_old _ _ _ _ _ h2).2, hp⟩

/-- a candidate with a strictly newer candidate of the same instance, both known for longer than the keep
    interval, is passed to Delete -/
theorem toDelete_superseded {cs : List Cand} {a b : Cand} {ta tb : Int}
    (ha : a ∈ cs) (hb : b ∈ cs) (hi : b.inst = a.inst) (hts : a.ts < b.ts)
    (hfa : look a.name st.firstSeen = some ta) (hga : now - ta > cfg.mustKeep)
    (hfb : look b.name st.firstSeen = some tb) (hgb : now - tb > cfg.mustKeep) :
    a ∈ toDelete cfg st now cs := by
  have key : ∀ c ∈ cs, ∀ t, look c.name st.firstSeen = some t → now - t > cfg.mustKeep →
      c ∈ (stage1 cfg st now cs).1 := by
    intro c hc t ht hgt
    refine filter1_kept_of _ _ _ _ _ c t (mem_sortCands.mpr hc) ?_ hgt
    rw [look_gc, if_pos (List.mem_map_of_mem hc)]; exact ht
  have ha1 := key a ha ta hfa hga
  have hb1 := key b hb tb hfb hgb
  refine mem_toDelete.mpr (Or.inl ?_)
  refine filter2_rem_of _ _ _ _ a ?_ ha1 (Or.inr ⟨b, hb1, hi, hts⟩)
  exact ((sortCands_sorted cs).imp (by intro x y h; omega)).sublist (filter1_sublist _ _ _ _ _)

/-! ### unfolding `runOnce` -/

theorem runOnce_disabled (h : cfg.enabled = false) (l : Option (List String)) (df : String → Bool) :
    runOnce parse cfg st now l df = (st, Out.none 0 false) := by
  simp [runOnce, h]

theorem runOnce_listFails (h : cfg.enabled = true) (df : String → Bool) :
    runOnce parse cfg st now none df = (st, Out.none 1 true) := by
  simp [runOnce, h]

theorem runOnce_some (h : cfg.enabled = true) (names : List String) (df : String → Bool) :
    runOnce parse cfg st now (some names) df =
      ({ ignored := st.ignored ++ newIgnored parse st.ignored names,
         firstSeen := (stage1 cfg st now (candidates parse st names)).2.1,
         committed := st.committed },
       { listCalls := 1, err := false,
         delCalls := (toDelete cfg st now (candidates parse st names)).map (·.name),
         deleted := ((toDelete cfg st now (candidates parse st names)).map (·.name)).filter
           (fun n => !df n) }) := by
  simp [runOnce, h]

/-- every Delete call comes from a successful listing of an enabled cleaner -/
theorem mem_delCalls {l : Option (List String)} {df : String → Bool} {n : String}
    (h : n ∈ (runOnce parse cfg st now l df).2.delCalls) :
    cfg.enabled = true ∧ ∃ names, l = some names ∧
      ∃ c ∈ toDelete cfg st now (candidates parse st names), c.name = n := by
  cases he : cfg.enabled with
  | false => rw [runOnce_disabled he] at h; simp [Out.none] at h
  | true =>
    cases l with
    | none => rw [runOnce_listFails he] at h; simp [Out.none] at h
    | some names =>
      rw [runOnce_some he] at h
      exact ⟨rfl, names, rfl, by simpa [List.mem_map] using h⟩

/-- snapFirstSeen after a run with a listing -/
theorem runOnce_firstSeen (h : cfg.enabled = true) (names : List String) (df : String → Bool)
    (n : String) :
    look n (runOnce parse cfg st now (some names) df).1.firstSeen =
      if n ∈ (candidates parse st names).map (·.name) then
        (match look n st.firstSeen with | some t => some t | none => some now)
      else none := by
  rw [runOnce_some h]
  dsimp only
  unfold stage1
  rw [filter1_fs, look_gc]
  have hm : n ∈ (sortCands (candidates parse st names)).map (·.name) ↔
      n ∈ (candidates parse st names).map (·.name) :=
    ((sortCands_perm _).map _).mem_iff
  by_cases hn : n ∈ (candidates parse st names).map (·.name)
  · rw [if_pos hn, if_pos hn]
    cases look n st.firstSeen with
    | none => simp [hm, hn]
    | some t => rfl
  · rw [if_neg hn, if_neg hn]
    simp [hm, hn]

theorem runOnce_ignored (h : cfg.enabled = true) (names : List String) (df : String → Bool)
    {n : String} (hn : n ∈ (runOnce parse cfg st now (some names) df).1.ignored) :
    n ∈ st.ignored ∨ parse n = none := by
  rw [runOnce_some h] at hn
  rcases List.mem_append.mp hn with hn | hn
  · exact Or.inl hn
  · right
    unfold newIgnored at hn
    have := (List.mem_filter.mp hn).2
    simp only [Bool.and_eq_true, Option.isNone_iff_eq_none] at this
    exact this.2

theorem runOnce_committed (l : Option (List String)) (df : String → Bool) :
    (runOnce parse cfg st now l df).1.committed = st.committed := by
  cases he : cfg.enabled with
  | false => rw [runOnce_disabled he]
  | true =>
    cases l with
    | none => rw [runOnce_listFails he]
    | some names => rw [runOnce_some he]

end Ls.Cleaner
