import LsLemmas.WireSize
import LsModel.Codec
/-
  The encoder writes exactly the concatenation of its fields: the size computation of
  DBI.Append is exact (no panic, no stale bytes), the 1000-byte field buffer of doFlushFields
  suffices for names ≤ 511 and transforms ≤ 64 bytes, Meta.Marshal's buffer estimate is safe.
-/
namespace Ls.Codec
open Ls Ls.Wire

/-- the fields of one KV message, as written -/
def kvBytes (kv : KV) : Bytes :=
  (if kv.key.length > 0 then encodeTag Gen.fieldKVKey wtLen ++ encodeVarint kv.key.length ++ kv.key else [])
  ++ (if kv.val.length > 0 then encodeTag Gen.fieldKVValue wtLen ++ encodeVarint kv.val.length ++ kv.val else [])
  ++ (if kv.flags > 0 then encodeTag Gen.fieldKVFlags wtVarint ++ encodeVarint kv.flags else [])
  ++ (if kv.ts > 0 then encodeTag Gen.fieldKVTimestampNano wtFixed64 ++ le64 kv.ts else [])

/-- one `entries` field of a DBI message (nothing at all for an entirely empty entry) -/
def entryBytes (kv : KV) : Bytes :=
  if (kvBytes kv).length = 0 then []
  else encodeTag Gen.fieldDBIEntries wtLen ++ encodeVarint (kvBytes kv).length ++ kvBytes kv

def hdrBytes (h : DBIHdr) : Bytes :=
  (if h.name.length > 0 then encodeTag Gen.fieldDBIName wtLen ++ encodeVarint h.name.length ++ h.name else [])
  ++ (if h.flags > 0 then encodeTag Gen.fieldDBIFlags wtVarint ++ encodeVarint h.flags else [])
  ++ (if h.transform.length > 0 then encodeTag Gen.fieldDBITransform wtLen ++ encodeVarint h.transform.length ++ h.transform else [])

def entriesBytes : List KV → Bytes
  | [] => []
  | kv :: kvs => entryBytes kv ++ entriesBytes kvs

def dbiBytes (d : DBI') : Bytes :=
  hdrBytes { name := d.name, flags := d.flags, transform := d.transform } ++ entriesBytes d.entries

def dbisBytes : List DBI' → Bytes
  | [] => []
  | d :: ds => lenField Gen.fieldSnapshotDBI (dbiBytes d) ++ dbisBytes ds

def snapBytes (s : Snapshot') : Bytes :=
  varintField Gen.fieldSnapshotFormatVersion s.formatVersion
  ++ varintField Gen.fieldSnapshotCompatVersion s.compatVersion
  ++ lenField Gen.fieldSnapshotMeta (metaMarshal s.info)
  ++ dbisBytes s.dbis

theorem putB_ok (cap : Nat) (buf bs : Bytes) (h : buf.length + bs.length ≤ cap) :
    putB cap buf bs = .ok (buf ++ bs) := by
  unfold putB; rw [if_neg (by omega)]

theorem putCopy_ok (cap : Nat) (buf s : Bytes) (h : buf.length + s.length ≤ cap) :
    putCopy cap buf s = buf ++ s := by
  unfold putCopy
  rw [List.take_of_length_le (by omega)]

theorem le64_length (n : Nat) : (le64 n).length = 8 := by simp [le64]

/-- value ranges of the Go types of an entry -/
def KVRange (kv : KV) : Prop :=
  kv.key.length < two64 ∧ kv.val.length < two64 ∧ kv.flags < two32 ∧ kv.ts < two64

theorem kvMsgSize_eq (kv : KV) (hr : KVRange kv) : kvMsgSize kv = (kvBytes kv).length := by
  obtain ⟨h1, h2, h3, h4⟩ := hr
  have h3' : kv.flags < two64 := by simp [two32, two64] at *; omega
  unfold kvMsgSize kvBytes
  simp only [List.length_append]
  rw [sizeOfVarint_eq _ h1, sizeOfVarint_eq _ h2, sizeOfVarint_eq _ h3']
  have t1 := encodeTag_length_small Gen.fieldKVKey wtLen (by decide) (by decide)
  have t2 := encodeTag_length_small Gen.fieldKVValue wtLen (by decide) (by decide)
  have t3 := encodeTag_length_small Gen.fieldKVFlags wtVarint (by decide) (by decide)
  have t4 := encodeTag_length_small Gen.fieldKVTimestampNano wtFixed64 (by decide) (by decide)
  have ts : Gen.tagSize0To15 = 1 := rfl
  split <;> split <;> split <;> split <;>
    simp only [List.length_append, List.length_nil, t1, t2, t3, t4, ts, le64_length] <;> omega

/-- `DBI.Append` writes exactly one `entries` field: the size computed in advance is the size
    written (no index out of range, no unwritten tail) -/
theorem dbiAppend_eq (data : Bytes) (kv : KV) (hr : KVRange kv) (hsz : (kvBytes kv).length < two64) :
    dbiAppend data kv = .ok (data ++ entryBytes kv) := by
  have hms := kvMsgSize_eq kv hr
  unfold dbiAppend entryBytes
  rw [hms]
  by_cases h0 : (kvBytes kv).length = 0
  · simp [h0]
  simp only [h0, if_false]
  have t0 := encodeTag_length_small Gen.fieldDBIEntries wtLen (by decide) (by decide)
  have t1 := encodeTag_length_small Gen.fieldKVKey wtLen (by decide) (by decide)
  have t2 := encodeTag_length_small Gen.fieldKVValue wtLen (by decide) (by decide)
  have t3 := encodeTag_length_small Gen.fieldKVFlags wtVarint (by decide) (by decide)
  have t4 := encodeTag_length_small Gen.fieldKVTimestampNano wtFixed64 (by decide) (by decide)
  have ts : Gen.tagSize0To15 = 1 := rfl
  rw [sizeOfVarint_eq _ hsz, ts]
  generalize hcap : 1 + (encodeVarint (kvBytes kv).length).length + (kvBytes kv).length = cap
  have hlen : (kvBytes kv).length =
      (if kv.key.length > 0 then 1 + (encodeVarint kv.key.length).length + kv.key.length else 0)
      + (if kv.val.length > 0 then 1 + (encodeVarint kv.val.length).length + kv.val.length else 0)
      + (if kv.flags > 0 then 1 + (encodeVarint kv.flags).length else 0)
      + (if kv.ts > 0 then 1 + 8 else 0) := by
    unfold kvBytes
    simp only [List.length_append]
    split <;> split <;> split <;> split <;>
      simp only [List.length_append, List.length_nil, t1, t2, t3, t4, le64_length] <;> omega
  generalize hL : (kvBytes kv).length = L at *
  rw [putB_ok _ _ _ (by simp [t0]; omega)]
  simp only [bind_ok, List.nil_append]
  rw [putB_ok _ _ _ (by simp [t0]; omega)]
  simp only [bind_ok]
  have hz : cap - (List.length (encodeTag Gen.fieldDBIEntries wtLen ++ encodeVarint L) + L) = 0 := by
    simp only [List.length_append, t0]; omega
  unfold kvBytes
  by_cases hk : kv.key.length > 0 <;> by_cases hv : kv.val.length > 0 <;>
    by_cases hf : kv.flags > 0 <;> by_cases hts : kv.ts > 0 <;>
    simp only [hk, hv, hf, hts, if_true, if_false] at hlen ⊢ <;>
    (repeat (first
      | rw [putB_ok _ _ _ (by simp only [List.length_append, t0, t1, t2, t3, t4, le64_length]; omega)]
      | rw [putCopy_ok _ _ _ (by simp only [List.length_append, t0, t1, t2, t3, t4, le64_length]; omega)]
      | simp only [bind_ok])) <;>
    (simp only [List.length_append, t0, t1, t2, t3, t4, le64_length, List.append_assoc, List.append_nil, List.length_nil] at hz ⊢
     try (rw [show cap - _ = 0 by omega])
     simp)


/-- `doFlushFields`: with a name of at most 511 bytes (LMDB's limit) and a transform of at most
    64 bytes the fixed 1000-byte buffer is never exceeded and nothing is truncated -/
theorem flushFields_eq (h : DBIHdr) (hn : h.name.length ≤ 511) (ht : h.transform.length ≤ 64) :
    flushFields h = .ok (hdrBytes h) := by
  have t1 := encodeTag_length_small Gen.fieldDBIName wtLen (by decide) (by decide)
  have t3 := encodeTag_length_small Gen.fieldDBIFlags wtVarint (by decide) (by decide)
  have t4 := encodeTag_length_small Gen.fieldDBITransform wtLen (by decide) (by decide)
  have v1 := encodeVarint_length_le h.name.length
  have v3 := encodeVarint_length_le h.flags
  have v4 := encodeVarint_length_le h.transform.length
  unfold flushFields hdrBytes
  by_cases hk : h.name.length > 0 <;> by_cases hf : h.flags > 0 <;> by_cases htr : h.transform.length > 0 <;>
    simp only [hk, hf, htr, if_true, if_false, bind_ok, pure_eq] <;>
    (repeat (first
      | rw [putB_ok _ _ _ (by simp only [List.length_append, List.length_nil, t1, t3, t4]; omega)]
      | rw [putCopy_ok _ _ _ (by simp only [List.length_append, List.length_nil, t1, t3, t4]; omega)]
      | simp only [bind_ok])) <;>
    simp [List.append_assoc]

theorem entryBytes_size (kv : KV) : (entryBytes kv).length ≤ 11 + (kvBytes kv).length := by
  unfold entryBytes
  split
  · simp
  · have := encodeVarint_length_le (kvBytes kv).length
    have t0 := encodeTag_length_small Gen.fieldDBIEntries wtLen (by decide) (by decide)
    simp only [List.length_append, t0]; omega

theorem appendAll_eq : ∀ (kvs : List KV) (data : Bytes),
    (∀ kv ∈ kvs, KVRange kv ∧ (kvBytes kv).length < two64) →
    appendAll data kvs = .ok (data ++ entriesBytes kvs)
  | [], data, _ => by simp [appendAll, entriesBytes]
  | kv :: kvs, data, h => by
    unfold appendAll
    have hkv := h kv (by simp)
    rw [dbiAppend_eq data kv hkv.1 hkv.2]
    simp only [bind_ok]
    rw [appendAll_eq kvs _ (fun kv' hk' => h kv' (by simp [hk']))]
    simp [entriesBytes, List.append_assoc]

/-- range and size conditions of one DBI (Go types; LMDB's name limit; transform ≤ 64) -/
def DBIRange (d : DBI') : Prop :=
  d.name.length ≤ 511 ∧ d.transform.length ≤ 64 ∧ d.flags < two64 ∧
  ∀ kv ∈ d.entries, KVRange kv ∧ (kvBytes kv).length < two64

theorem dbiMarshal_eq (d : DBI') (hr : DBIRange d) : dbiMarshal d = .ok (dbiBytes d) := by
  unfold dbiMarshal dbiBytes
  rw [flushFields_eq _ hr.1 hr.2.1]
  simp only [bind_ok]
  exact appendAll_eq d.entries _ hr.2.2.2

theorem writeDBIs_eq : ∀ (ds : List DBI'), (∀ d ∈ ds, DBIRange d) → writeDBIs ds = .ok (dbisBytes ds)
  | [], _ => rfl
  | d :: ds, h => by
    unfold writeDBIs
    rw [dbiMarshal_eq d (h d (by simp)), writeDBIs_eq ds (fun d' hd' => h d' (by simp [hd']))]
    rfl

/-- the encoder never panics on snapshots within the ranges and writes exactly `snapBytes` -/
theorem encode_eq (s : Snapshot') (h : ∀ d ∈ s.dbis, DBIRange d) : encode s = .ok (snapBytes s) := by
  unfold encode snapBytes
  rw [writeDBIs_eq s.dbis h]
  rfl

theorem strField_length_le (tag : Nat) (x : Bytes) (ht : tag ≤ 15) : (strField tag x).length ≤ x.length + 11 := by
  unfold strField
  split
  · have := encodeVarint_length_le x.length
    have t := encodeTag_length_small tag wtLen ht (by decide)
    simp only [List.length_append, t]; omega
  · simp

/-- Meta.Marshal's buffer (Σ(len+20) + 1000 bytes) is always large enough -/
theorem metaMarshal_fits (m : Meta) : (metaMarshal m).length ≤ metaBufSize m := by
  unfold metaMarshal metaBufSize
  have s1 := strField_length_le Gen.fieldMetaGenerationID m.generationID (by decide)
  have s2 := strField_length_le Gen.fieldMetaInstanceID m.instanceID (by decide)
  have s3 := strField_length_le Gen.fieldMetaHostname m.hostname (by decide)
  have s4 := strField_length_le Gen.fieldMetaDatabaseName m.databaseName (by decide)
  have t4 := encodeTag_length_small Gen.fieldMetaLMDBTxnID wtVarint (by decide) (by decide)
  have t5 := encodeTag_length_small Gen.fieldMetaTimestampNano wtFixed64 (by decide) (by decide)
  have t8 := encodeTag_length_small Gen.fieldMetaFromLMDBTxnID wtVarint (by decide) (by decide)
  have v4 := encodeVarint_length_le (toUInt64 m.lmdbTxnID)
  have v8 := encodeVarint_length_le (toUInt64 m.fromLmdbTxnID)
  simp only [List.length_append]
  split <;> split <;> split <;>
    simp only [List.length_append, List.length_nil, t4, t5, t8, le64_length] <;> omega

end Ls.Codec
