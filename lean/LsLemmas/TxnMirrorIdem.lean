import LsLemmas.TxnMirrorNoop
/-
  Loading a snapshot a second time changes nothing (native mode, cut-off 0): after the first load
  every entry of the snapshot is "not newer" than what is stored.
-/
set_option linter.unusedSimpArgs false
namespace Ls.Txn
open Ls Ls.Lmdb Ls.Strategy Ls.Merge

/-- `Merge.keep` does not look at the transaction id, the cut-off or the padding option -/
theorem keep_cfg_irrel {c1 c2 : Merge.Cfg} (hf : c1.fv = c2.fv) (hd : c1.defTs = c2.defTs)
    (e : KV) (h : Header.Hdr) (a : Bytes) : keep c1 e h a ↔ keep c2 e h a := by
  unfold keep entryDeleted
  rw [hf, hd]

/-- the stored value `X` of a key is present, parses, and is not beaten by version `v` -/
def GE (X : Option Bytes) (v : Ver) : Prop :=
  ∃ old h a, X = some old ∧ Header.parse old = .ok (h, a) ∧
    ¬ v.beats { ts := h.ts, del := Header.isDeleted h.flags, val := a }

/-- the per-key step of `strategy.Update` with the snapshot iterator -/
def keyStep (mc : Merge.Cfg) (cur : Option Bytes) (e : KV) : Except Header.Err (Option Bytes) := do
  let v ← merge mc e (cur.getD [])
  pure (setNew v)

theorem decodeS_parse {old : Bytes} {o : Ver} (h : decodeS old = .ok (some o)) :
    ∃ hd a, Header.parse old = .ok (hd, a) ∧ o = { ts := hd.ts, del := Header.isDeleted hd.flags, val := a } :=
  (decodeS_some h).2

/-- one merge step moves the stored version of a key upwards (never backwards) and leaves it not
    beaten by the merged entry -/
theorem keyStep_mono {mc : Merge.Cfg} {X X' : Option Bytes} {e : KV}
    (hc : mc.cutoff = 0) (hd : mc.defTs = 0) (hw : EntryWF e) (hb : Bounded mc e)
    (h : keyStep mc X e = .ok X') :
    (∀ v, GE X v → GE X' v) ∧ GE X' (norm mc e) := by
  unfold keyStep at h
  simp only [bind, Except.bind, pure, Except.pure] at h
  cases hm : merge mc e (X.getD []) with
  | error x => simp [hm] at h
  | ok r =>
    simp only [hm] at h
    injection h with h
    by_cases hl : (X.getD []).length = 0
    · -- absent (or empty): the entry is stored
      have hnil : X.getD [] = [] := List.length_eq_zero_iff.mp hl
      rw [hnil, merge_absent] at hm
      have hns : ¬ (entryDeleted mc e = true ∧ e.ts < mc.cutoff) := by
        rw [hc]; intro hh; exact absurd hh.2 (Nat.not_lt_zero _)
      rw [if_neg hns] at hm
      injection hm with hm
      subst hm
      have hX' : X' = some (addHeader mc e.val e.ts (maskedFlags e)) := by
        rw [← h]; unfold setNew; simp only [addHeader_length_pos, if_false]
      obtain ⟨hd', a, hp, ho⟩ := decodeS_parse (decodeS_addHeader mc e hb)
      constructor
      · rintro v ⟨old, h0, a0, hX, hp0, _⟩
        rw [hX] at hnil
        simp only [Option.getD_some] at hnil
        rw [hnil] at hp0
        exact absurd (parse_ok_length hp0) (by simp)
      · exact ⟨_, hd', a, hX', hp, by rw [← ho]; exact Ver.beats_irrefl _⟩
    · -- present
      cases hX : X with
      | none => rw [hX] at hl; simp at hl
      | some old =>
        rw [hX] at hl hm
        simp only [Option.getD_some] at hl hm
        cases hp : Header.parse old with
        | error x =>
          unfold merge at hm
          rw [if_neg hl, hp] at hm
          cases hm
        | ok pr =>
          obtain ⟨h0, a0⟩ := pr
          obtain ⟨hk1, hk2⟩ := merge_present mc e old h0 a0 hl hp
          by_cases hk : keep mc e h0 a0
          · rw [hk1 hk] at hm
            injection hm with hm; subst hm
            have hX' : X' = some old := by rw [← h]; simp [setNew, hl]
            rw [hX']
            exact ⟨fun v hv => hv, ⟨old, h0, a0, rfl, hp, keep_not_beats hw hd hk⟩⟩
          · rw [hk2 hk] at hm
            injection hm with hm; subst hm
            have hX' : X' = some (addHeader mc e.val e.ts (maskedFlags e)) := by
              rw [← h]; unfold setNew; simp only [addHeader_length_pos, if_false]
            obtain ⟨hd', a, hp', ho⟩ := decodeS_parse (decodeS_addHeader mc e hb)
            have hbeats := not_keep_beats hw hk
            constructor
            · rintro v ⟨old1, h1, a1, hX1, hp1, hnb⟩
              injection hX1 with hX1; subst hX1
              rw [hp] at hp1; injection hp1 with hp1; injection hp1 with e1 e2; subst e1; subst e2
              refine ⟨_, hd', a, hX', hp', ?_⟩
              rw [← ho]
              intro hvb
              exact hnb (Ver.beats_trans hvb hbeats)
            · exact ⟨_, hd', a, hX', hp', by rw [← ho]; exact Ver.beats_irrefl _⟩

theorem keyFold_mono {mc : Merge.Cfg} (hc : mc.cutoff = 0) (hd : mc.defTs = 0) (es : List KV) :
    ∀ {X X' : Option Bytes}, (∀ e ∈ es, EntryWF e ∧ Bounded mc e) →
      es.foldlM (keyStep mc) X = .ok X' →
      (∀ v, GE X v → GE X' v) ∧ ∀ e ∈ es, GE X' (norm mc e) := by
  induction es with
  | nil =>
    intro X X' _ h
    simp [List.foldlM_nil, pure, Except.pure] at h; subst h
    exact ⟨fun _ hv => hv, fun e he => by cases he⟩
  | cons a rest ih =>
    intro X X' hes h
    rw [List.foldlM_cons] at h
    cases h1 : keyStep mc X a with
    | error x => simp [h1, bind, Except.bind] at h
    | ok X1 =>
      simp only [h1, bind, Except.bind] at h
      obtain ⟨hwa, hba⟩ := hes a (List.mem_cons_self ..)
      obtain ⟨m1, g1⟩ := keyStep_mono hc hd hwa hba h1
      obtain ⟨m2, g2⟩ := ih (fun e he => hes e (List.mem_cons_of_mem _ he)) h
      refine ⟨fun v hv => m2 v (m1 v hv), ?_⟩
      intro e he
      rcases List.mem_cons.mp he with he | he
      · subst he; exact m2 _ g1
      · exact g2 e he

/-- `strategy.Update` with the snapshot iterator (cut-off 0) moves every key upwards and leaves
    every entry of the input not newer than what is stored for its key -/
theorem update_mono {ik : Bool} {mc : Merge.Cfg} {db : KVs} {d : Bool} {entries : List KV} {s' : S}
    (hc : mc.cutoff = 0) (hd : mc.defTs = 0) (hes : ∀ e ∈ entries, EntryWF e ∧ Bounded mc e)
    (hs : Sorted ik db) (h : update ik (nativeIter mc) ⟨db, d⟩ entries = .ok s') :
    Sorted ik s'.db ∧
    (∀ k v, GE (get ik db k) v → GE (get ik s'.db k) v) ∧
    (∀ e ∈ entries, e.key ≠ [] ∧ GE (get ik s'.db e.key) (norm mc e)) := by
  have hk := update_ok_keys entries h
  have h2 := h
  rw [update_eq_spec (nativeIter mc) entries (s := ⟨db, d⟩) hs hk] at h2
  have hspec := specUpdateS_ok (nativeIter mc) entries h2
  have hsorted := specUpdate_sorted (nativeIter mc) entries hs hspec
  have hget := fun k => specUpdate_get (nativeIter mc) entries k hs hspec
  have hfold : ∀ k, (entries.filter (fun e => kcmp ik e.key k = 0)).foldlM (keyStep mc) (get ik db k)
      = .ok (get ik s'.db k) := fun k => hget k
  refine ⟨hsorted, ?_, ?_⟩
  · intro k v hv
    exact (keyFold_mono hc hd _ (fun e he => hes e (List.mem_filter.mp he).1) (hfold k)).1 v hv
  · intro e he
    refine ⟨fun h0 => hk e he (by simp [nativeIter, h0]), ?_⟩
    exact (keyFold_mono hc hd _ (fun e he => hes e (List.mem_filter.mp he).1) (hfold e.key)).2 e
      (List.mem_filter.mpr ⟨he, by simp [kcmp_refl]⟩)

/-- shape of a successful `loadDbi` in native mode -/
theorem loadDbi_native_ok {c : Cfg} {snap : Snap} {txnID cutoff : Nat} {w w' : W} {m : DbiMsg}
    (hn : c.native = true) (hp : isPrivate m.name = false)
    (h : loadDbi c snap txnID cutoff w m = .ok w') :
    validateTransform m snap.fv true = true ∧ versionOk snap.fv snap.cv = true ∧
    ∃ td s, findDbi (openCreate w m.name (createFlags c m)).dbis m.name = some td ∧
      update (isIntKey td.flags) (nativeIter (loadCfg c snap txnID cutoff))
        ⟨td.kvs, (openCreate w m.name (createFlags c m)).dirty⟩ m.entries = .ok s ∧
      w' = ⟨setKvs (openCreate w m.name (createFlags c m)).dbis m.name s.db, s.dirty⟩ := by
  unfold loadDbi at h
  simp only [hp, hn, Bool.false_eq_true, if_false, if_true, bind, Except.bind, pure, Except.pure] at h
  by_cases hv : ¬ validateTransform m snap.fv true = true
  · simp [hv, throw, throwThe, MonadExceptOf.throw] at h
  have hv' : validateTransform m snap.fv true = true := by simpa using hv
  by_cases hver : ¬ versionOk snap.fv snap.cv = true
  · exfalso
    have hver0 : versionOk snap.fv snap.cv = false := by simpa using hver
    simp only [hv, if_false, hver0, Bool.false_eq_true, not_false_eq_true, if_true] at h
    split at h <;> simp [throw, throwThe, MonadExceptOf.throw] at h
  have hver' : versionOk snap.fv snap.cv = true := by simpa using hver
  simp only [hv, hver, if_false] at h
  refine ⟨hv', hver', ?_⟩
  have fin : ∀ (w2 : W) (td : Dbi), w2 = openCreate w m.name (createFlags c m) →
      findDbi w2.dbis m.name = some td →
      (runOn w2 m.name fun s => mapStratErr (update (isIntKey td.flags)
        (nativeIter { fv := snap.fv, defTs := 0, txn := txnID, cutoff := cutoff, pad := c.pad }) s m.entries)) = .ok w' →
      ∃ td s, findDbi (openCreate w m.name (createFlags c m)).dbis m.name = some td ∧
        update (isIntKey td.flags) (nativeIter (loadCfg c snap txnID cutoff))
          ⟨td.kvs, (openCreate w m.name (createFlags c m)).dirty⟩ m.entries = .ok s ∧
        w' = ⟨setKvs (openCreate w m.name (createFlags c m)).dbis m.name s.db, s.dirty⟩ := by
    intro w2 td hw2 htd hr
    subst hw2
    obtain ⟨td', s, htd', hs, hw'⟩ := runOn_ok hr
    rw [htd] at htd'; injection htd' with htd'; subst htd'
    exact ⟨td, s, htd, mapStratErr_ok hs, hw'⟩
  cases hd : findDbi w.dbis m.name with
  | some d =>
    simp only [hd] at h
    exact fin w d (openCreate_of_someMirror _ hd).symm hd h
  | none =>
    simp only [hd] at h
    have hf := openCreate_find_self w m.name (createFlags c m)
    unfold createFlags ovrOf at hf
    simp only [hf] at h
    exact fin _ _ (by unfold createFlags ovrOf; rfl) hf h

/-- the DBI `name` exists and what it stores for `key` is not beaten by `v` -/
def StoredGE (dbis : List Dbi) (name key : Bytes) (v : Ver) : Prop :=
  ∃ td, findDbi dbis name = some td ∧ GE (get (isIntKey td.flags) td.kvs key) v

/-- every DBI a message of the snapshot names is sorted in its own key order -/
def TargetsSorted (msgs : List DbiMsg) (dbis : List Dbi) : Prop :=
  ∀ m ∈ msgs, isPrivate m.name = false →
    ∀ d, findDbi dbis m.name = some d → Sorted (isIntKey d.flags) d.kvs

/-- snapshot entries are well-formed (a deleted entry carries no value) with 64-bit timestamps -/
def EntriesWF (msgs : List DbiMsg) : Prop :=
  ∀ m ∈ msgs, ∀ en ∈ m.entries, EntryWF en ∧ en.ts < two64

theorem loadDbi_native_mono {c : Cfg} {snap : Snap} {txnID : Nat} {w w' : W} {m : DbiMsg} {all : List DbiMsg}
    (hn : c.native = true) (hm : m ∈ all) (htx : txnID < two64) (hent : EntriesWF all)
    (h : loadDbi c snap txnID 0 w m = .ok w') (hdist : DistinctNames w.dbis)
    (hts : TargetsSorted all w.dbis) :
    DistinctNames w'.dbis ∧ TargetsSorted all w'.dbis ∧
    (∀ name key v, StoredGE w.dbis name key v → StoredGE w'.dbis name key v) ∧
    (∀ name, (findDbi w.dbis name).isSome = true → (findDbi w'.dbis name).isSome = true) ∧
    (isPrivate m.name = false →
      validateTransform m snap.fv c.native = true ∧ versionOk snap.fv snap.cv = true ∧
      (findDbi w'.dbis m.name).isSome = true ∧
      ∀ en ∈ m.entries,
        en.key ≠ [] ∧ StoredGE w'.dbis m.name en.key (norm (loadCfg c snap txnID 0) en)) := by
  cases hp : isPrivate m.name with
  | true =>
    rw [loadDbi_private hp] at h; injection h with h; subst h
    exact ⟨hdist, hts, fun _ _ _ hv => hv, fun _ hv => hv, fun h => by cases h⟩
  | false =>
    obtain ⟨hgv, hgver, td, s, htd, hs, hw'⟩ := loadDbi_native_ok hn hp h
    subst hw'
    have htd' := htd
    rw [openCreate_find_self] at htd'
    injection htd' with htd'
    have hsorted_td : Sorted (isIntKey td.flags) td.kvs := by
      cases hf : findDbi w.dbis m.name with
      | none => rw [hf] at htd'; rw [← htd']; exact sorted_nil _
      | some d0 =>
        rw [hf] at htd'; simp only [Option.getD_some] at htd'
        rw [← htd']; exact hts m hm hp d0 hf
    have hb : ∀ en ∈ m.entries, EntryWF en ∧ Bounded (loadCfg c snap txnID 0) en := fun en hen =>
      ⟨(hent m hm en hen).1, ⟨by show (0 : Nat) < two64; decide, htx, (hent m hm en hen).2⟩⟩
    obtain ⟨hS', hmono, hge⟩ := update_mono (mc := loadCfg c snap txnID 0) rfl rfl hb hsorted_td hs
    have hfind : ∀ x, findDbi (setKvs (openCreate w m.name (createFlags c m)).dbis m.name s.db) x =
        if x = m.name then some { td with kvs := s.db } else findDbi w.dbis x := by
      intro x
      rw [findDbi_setKvsMirror]
      by_cases hx : x = m.name
      · rw [if_pos hx, if_pos hx, htd]; rfl
      · rw [if_neg hx, if_neg hx, openCreate_find_ne _ _ _ _ hx]
    refine ⟨distinct_setKvs (distinct_openCreate hdist _ _) _ _, ?_, ?_, ?_, ?_⟩
    · intro m' hm' hp' d' hd'
      simp only at hd'
      rw [hfind] at hd'
      by_cases hx : m'.name = m.name
      · rw [if_pos hx] at hd'; injection hd' with hd'; subst hd'; exact hS'
      · rw [if_neg hx] at hd'; exact hts m' hm' hp' d' hd'
    · rintro name key v ⟨td0, hf0, hg0⟩
      simp only
      by_cases hx : name = m.name
      · subst hx
        rw [hf0] at htd'; simp only [Option.getD_some] at htd'; subst htd'
        exact ⟨_, by rw [hfind, if_pos rfl], hmono key v hg0⟩
      · exact ⟨td0, by rw [hfind, if_neg hx]; exact hf0, hg0⟩
    · intro name hsome
      simp only
      rw [hfind]
      by_cases hx : name = m.name
      · rw [if_pos hx]; rfl
      · rw [if_neg hx]; exact hsome
    · intro _
      refine ⟨by rw [hn]; exact hgv, hgver, by simp only; rw [hfind, if_pos rfl]; rfl, ?_⟩
      intro en hen
      obtain ⟨hk, hg⟩ := hge en hen
      exact ⟨hk, _, by rw [hfind, if_pos rfl], hg⟩

theorem loadFold_native_mono {c : Cfg} {snap : Snap} {txnID : Nat} {all : List DbiMsg}
    (hn : c.native = true) (htx : txnID < two64) (hent : EntriesWF all) (msgs : List DbiMsg) :
    ∀ {w w' : W}, (∀ m ∈ msgs, m ∈ all) → msgs.foldlM (loadDbi c snap txnID 0) w = .ok w' →
    DistinctNames w.dbis → TargetsSorted all w.dbis →
    DistinctNames w'.dbis ∧ TargetsSorted all w'.dbis ∧
    (∀ name key v, StoredGE w.dbis name key v → StoredGE w'.dbis name key v) ∧
    (∀ name, (findDbi w.dbis name).isSome = true → (findDbi w'.dbis name).isSome = true) ∧
    (∀ m ∈ msgs, isPrivate m.name = false →
      validateTransform m snap.fv c.native = true ∧ versionOk snap.fv snap.cv = true ∧
      (findDbi w'.dbis m.name).isSome = true ∧
      ∀ en ∈ m.entries,
        en.key ≠ [] ∧ StoredGE w'.dbis m.name en.key (norm (loadCfg c snap txnID 0) en)) := by
  induction msgs with
  | nil =>
    intro w w' _ h hd hts
    simp [List.foldlM_nil, pure, Except.pure] at h; subst h
    exact ⟨hd, hts, fun _ _ _ hv => hv, fun _ hv => hv, fun m hm => by cases hm⟩
  | cons m rest ih =>
    intro w w' hsub h hd hts
    rw [List.foldlM_cons] at h
    cases h1 : loadDbi c snap txnID 0 w m with
    | error x => simp [h1, bind, Except.bind] at h
    | ok w1 =>
      simp only [h1, bind, Except.bind] at h
      obtain ⟨hd1, hts1, hmono1, hex1, hge1⟩ :=
        loadDbi_native_mono hn (hsub m (List.mem_cons_self ..)) htx hent h1 hd hts
      obtain ⟨hd2, hts2, hmono2, hex2, hge2⟩ :=
        ih (fun m' hm' => hsub m' (List.mem_cons_of_mem _ hm')) h hd1 hts1
      refine ⟨hd2, hts2, fun name key v hv => hmono2 _ _ _ (hmono1 _ _ _ hv),
        fun name hv => hex2 _ (hex1 _ hv), ?_⟩
      intro m' hm' hp'
      rcases List.mem_cons.mp hm' with hm' | hm'
      · subst hm'
        obtain ⟨g1, g2, g3, g4⟩ := hge1 hp'
        refine ⟨g1, g2, hex2 _ g3, fun en hen => ?_⟩
        obtain ⟨hk, hg⟩ := g4 en hen
        exact ⟨hk, hmono2 _ _ _ hg⟩
      · exact hge2 m' hm' hp'

/-- a successful native `LoadOnce` is the fold of `loadDbi` over the messages, committed -/
theorem loadOnce_native_ok {c : Cfg} {e : Env} {snap : Snap} {lastSynced now cutoff : Nat} {r : LoadRes}
    (hn : c.native = true) (h : loadOnce c e snap lastSynced now cutoff = .ok r) :
    ∃ w1, snap.dbs.foldlM (loadDbi c snap (e.lastTxn + 1) cutoff) ⟨e.dbis, false⟩ = .ok w1 ∧
      r.env = commit e w1 ∧ r.localChanged = decide (lastSynced < e.lastTxn) ∧
      r.txnID = (if (commit e w1).lastTxn < e.lastTxn + 1 then (commit e w1).lastTxn else e.lastTxn + 1) := by
  unfold loadOnce at h
  simp only [hn, not_true_eq_false, false_and, if_false, Nat.add_sub_cancel,
    bind, Except.bind, pure, Except.pure] at h
  cases h2 : snap.dbs.foldlM (loadDbi c snap (e.lastTxn + 1) cutoff) ⟨e.dbis, false⟩ with
  | error x => simp [h2] at h
  | ok w1 =>
    simp only [h2] at h
    injection h with h; subst h
    exact ⟨w1, rfl, rfl, rfl, rfl⟩

/-- loading the same snapshot a second time (native mode, cut-off 0) changes nothing -/
theorem loadOnce_twice_native {c : Cfg} {e : Env} {snap : Snap} {lastSynced now now' : Nat} {r1 : LoadRes}
    (hn : c.native = true) (hdist : DistinctNames e.dbis) (hts : TargetsSorted snap.dbs e.dbis)
    (hent : EntriesWF snap.dbs) (htx : e.lastTxn + 1 < two64)
    (h : loadOnce c e snap lastSynced now 0 = .ok r1) :
    r1.txnID = r1.env.lastTxn ∧
    loadOnce c r1.env snap r1.txnID now' 0 =
      .ok { env := r1.env, txnID := r1.env.lastTxn, localChanged := false } := by
  obtain ⟨w1, hf, henv, _, htid⟩ := loadOnce_native_ok hn h
  obtain ⟨hd1, hts1, _, _, hge⟩ :=
    loadFold_native_mono hn htx hent snap.dbs (fun _ hm => hm) hf hdist hts
  have hlt : (commit e w1).lastTxn = e.lastTxn ∨ (commit e w1).lastTxn = e.lastTxn + 1 := by
    unfold commit; simp only; split
    · exact Or.inr rfl
    · exact Or.inl rfl
  have hid : r1.txnID = r1.env.lastTxn := by
    rw [htid, henv]
    rcases hlt with h' | h' <;> rw [h'] <;> simp
  refine ⟨hid, ?_⟩
  have hdbis : r1.env.dbis = w1.dbis := by rw [henv]; rfl
  rw [loadOnce_native_noop c r1.env snap r1.txnID now' 0 hn (by rw [hdbis]; exact hd1)]
  · rw [hid]; simp
  · intro m hm hp
    obtain ⟨hv, hver, hsome, hen⟩ := hge m hm hp
    refine ⟨hv, hver, ?_, ?_⟩
    · intro h0; rw [hn] at h0; cases h0
    rw [if_pos hn, hdbis]
    cases hfd : findDbi w1.dbis m.name with
    | none => rw [hfd] at hsome; cases hsome
    | some td =>
      refine ⟨td, rfl, hts1 m hm hp td hfd, ?_⟩
      intro en hen'
      obtain ⟨hk, td', hfd', old, h0, a, hg, hpr, hnb⟩ := hen en hen'
      rw [hfd] at hfd'; injection hfd' with hfd'; subst hfd'
      refine ⟨hk, ?_⟩
      rw [hg]
      refine ⟨h0, a, hpr, ?_⟩
      exact (keep_cfg_irrel rfl rfl en h0 a).mp (keep_of_not_beats (hent m hm en hen').1 hnb)

end Ls.Txn
