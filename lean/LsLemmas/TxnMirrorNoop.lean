import LsLemmas.TxnMirrorLive
/-
  No-op transactions (C10): a load that contains nothing newer writes nothing; in shadow mode the
  projection writes nothing when the application DBIs already are the projection of their shadows;
  with the dupsort hack the projection rewrites the same content (and the transaction is recorded).
-/
set_option linter.unusedSimpArgs false
namespace Ls.Txn
open Ls Ls.Lmdb Ls.Strategy Ls.Merge

theorem loadOnce_native_noop (c : Cfg) (e : Env) (snap : Snap) (lastSynced now cutoff : Nat)
    (hn : c.native = true) (hdist : DistinctNames e.dbis)
    (h : ∀ m ∈ snap.dbs, MsgNotNewer c snap (e.lastTxn + 1) cutoff e.dbis m) :
    loadOnce c e snap lastSynced now cutoff =
      .ok { env := e, txnID := e.lastTxn, localChanged := decide (lastSynced < e.lastTxn) } := by
  have hf : snap.dbs.foldlM (loadDbi c snap (e.lastTxn + 1) cutoff) ⟨e.dbis, false⟩ = .ok ⟨e.dbis, false⟩ :=
    foldlM_noop _ _ _ (fun m hm => loadDbi_noop c snap _ cutoff ⟨e.dbis, false⟩ m hdist (h m hm))
  unfold loadOnce
  simp [hn, hf, bind, Except.bind, pure, Except.pure, commit]

theorem mapM_entryOf_false_ok (kvs : KVs) (h : ∀ p ∈ kvs, ∃ hd v, Header.parse p.2 = .ok (hd, v)) :
    ∃ es, kvs.mapM (entryOf false) = .ok es := by
  induction kvs with
  | nil => exact ⟨[], rfl⟩
  | cons p rest ih =>
    obtain ⟨hd, v, hp⟩ := h p (List.mem_cons_self ..)
    obtain ⟨es, hes⟩ := ih (fun q hq => h q (List.mem_cons_of_mem _ hq))
    refine ⟨{ key := p.1, val := v, ts := hd.ts, flags := (Header.masked hd.flags).toNat } :: es, ?_⟩
    simp only [List.mapM_cons, entryOf_false_of_parse hp, hes, bind, Except.bind, pure, Except.pure]

/-- the mirror invariant of one ordinary application DBI: it is the projection of its shadow (and
    both are well-formed: same key order, sorted, valid shadow keys, parsable shadow values) -/
def MirrorOK (dbis : List Dbi) (d : Dbi) : Prop :=
  Sorted (isIntKey d.flags) d.kvs ∧
  ∃ sd, findDbi dbis (shadowName d.name) = some sd ∧
    Sorted (isIntKey d.flags) sd.kvs ∧ DKeysOK sd.kvs ∧
    (∀ p ∈ sd.kvs, ∃ hd v, Header.parse p.2 = .ok (hd, v)) ∧
    ∀ k, get (isIntKey d.flags) d.kvs k = (get (isIntKey d.flags) sd.kvs k).bind projVal

/-- the projection step writes nothing on a DBI that satisfies the mirror invariant -/
theorem s2mStep_noop {c : Cfg} {w : W} {name : Bytes} {d : Dbi} (hdist : DistinctNames w.dbis)
    (hp : isPrivate name = false) (hd : findDbi w.dbis name = some d) (hnd : isDupSort d.flags = false)
    (hm : MirrorOK w.dbis d) : s2mStep c w name = .ok w := by
  obtain ⟨hA, sd, hsd, hS, hSK, hparse, hinv⟩ := hm
  rw [findDbi_name hd] at hsd
  obtain ⟨es, hes⟩ := mapM_entryOf_false_ok sd.kvs hparse
  rw [s2mStep_nondup_eq hp hd hnd hsd hes]
  exact runOn_noop hd (hdist.find_unique hd)
    (mapStratErr_of_ok (project_noop w.dirty (keyRel_read hes) hA hS hSK hinv))

/-- the mirror invariant of a duplicate-keys application DBI under the dupsort hack: the
    projection of its shadow (`decodeAll` of the shadow entries put into an empty DBI by
    `EmptyPut`) is its content (established by a mirror cycle: C20_cycle) -/
def DupMirrorOK (dbis : List Dbi) (d : Dbi) : Prop :=
  ∃ sd es dec, findDbi dbis (shadowName d.name) = some sd ∧
    sd.kvs.mapM (entryOf false) = .ok es ∧ DupSort.decodeAll es = .ok dec ∧
    emptyPut (isIntKey d.flags) true plainIter ⟨[], false⟩ dec = .ok ⟨d.kvs, true⟩

theorem emptyPut_irrel {E ε : Type} (ik dup : Bool) (it : Iter E ε) (s s' : S) (input : List E) :
    emptyPut ik dup it s input = emptyPut ik dup it s' input := rfl

/-- the projection step on a duplicate-keys DBI satisfying the invariant: same content, but the
    transaction has written (EmptyPut drops the DBI first) -/
theorem s2mStep_dup_same {c : Cfg} {w : W} {name : Bytes} {d : Dbi} (hdist : DistinctNames w.dbis)
    (hp : isPrivate name = false) (hd : findDbi w.dbis name = some d) (hdup : isDupSort d.flags = true)
    (hh : c.hack = true) (hm : DupMirrorOK w.dbis d) : s2mStep c w name = .ok ⟨w.dbis, true⟩ := by
  obtain ⟨sd, es, dec, hsd, hes, hdec, hput⟩ := hm
  rw [findDbi_name hd] at hsd
  have hne : shadowName name ≠ name := shadowName_ne_of_not_private hp
  have hr : readDBI c w (shadowName name) name false = .ok
      { name := name, flags := d.flags,
        transform := if isDupSort d.flags then strBytes Gen.transformDupSortHackV1 else [], entries := es } := by
    rw [readDBI_eqMirror, hsd]
    simp only [if_pos hne, hd, bind, Except.bind, pure, Except.pure]
    exact readTail_eq (by simp [hh]) hes
  unfold s2mStep
  simp only [hp, hd, hdup, hh, hr, hdec, Bool.false_eq_true, if_false, if_true, not_true_eq_false, and_false,
    bind, Except.bind, pure, Except.pure]
  have hput' : emptyPut (isIntKey d.flags) true plainIter ⟨d.kvs, w.dirty⟩ dec = .ok ⟨d.kvs, true⟩ := by
    rw [emptyPut_irrel _ _ _ _ ⟨[], false⟩]; exact hput
  rw [runOn_eq hd (mapStratErr_of_ok hput')]
  simp only
  rw [setKvs_same (fun x hx hn => by rw [hdist.find_unique hd x hx hn])]

/-- a fold whose every step keeps the DBIs and may set the dirty bit -/
theorem fold_dbis_fixed (f : W → Bytes → Except Err W) (D : List Dbi) (g : Bytes → Bool) (names : List Bytes)
    (h : ∀ name ∈ names, ∀ b, f ⟨D, b⟩ name = .ok ⟨D, b || g name⟩) (b : Bool) :
    names.foldlM f ⟨D, b⟩ = .ok ⟨D, b || names.any g⟩ := by
  induction names generalizing b with
  | nil => simp [List.foldlM_nil, pure, Except.pure]
  | cons a rest ih =>
    rw [List.foldlM_cons, h a (List.mem_cons_self ..) b]
    simp only [bind, Except.bind]
    rw [ih (fun n hn => h n (List.mem_cons_of_mem _ hn))]
    simp [Bool.or_assoc]

theorem any_congr_mem {α} (l : List α) (p q : α → Bool) (h : ∀ a ∈ l, p a = q a) : l.any p = l.any q := by
  induction l with
  | nil => rfl
  | cons a rest ih =>
    simp only [List.any_cons, h a (List.mem_cons_self ..), ih (fun x hx => h x (List.mem_cons_of_mem _ hx))]

/-- every application DBI satisfies its mirror invariant (ordinary or dupsort-hack) -/
def AllMirrorOK (c : Cfg) (dbis : List Dbi) : Prop :=
  ∀ d ∈ dbis, isPrivate d.name = false →
    (isDupSort d.flags = false ∧ MirrorOK dbis d) ∨
    (isDupSort d.flags = true ∧ c.hack = true ∧ DupMirrorOK dbis d)

/-- under the mirror invariants the projection pass leaves every DBI as it is; the transaction has
    written iff it was already dirty or there is a duplicate-keys application DBI -/
theorem shadowToMain_same (c : Cfg) (D : List Dbi) (b : Bool) (hdist : DistinctNames D)
    (hall : AllMirrorOK c D) :
    shadowToMain c ⟨D, b⟩ = .ok ⟨D, b || D.any (fun d => !isPrivate d.name && isDupSort d.flags)⟩ := by
  rw [shadowToMain_eq]
  have := fold_dbis_fixed (s2mStep c) D
    (fun name => !isPrivate name && ((findDbi D name).map (fun d => isDupSort d.flags)).getD false)
    (dbiNames ⟨D, b⟩) ?_ b
  · rw [this]
    congr 2
    simp only [dbiNames, List.any_map]
    congr 1
    apply any_congr_mem
    intro d hd
    simp only [Function.comp, hdist.find_of_mem hd, Option.map_some, Option.getD_some]
  · intro name hname b'
    cases hp : isPrivate name with
    | true => rw [s2mStep_private hp]; simp
    | false =>
      simp only [dbiNames] at hname
      obtain ⟨d, hd, hdn⟩ := List.mem_map.mp hname
      have hf : findDbi D name = some d := by rw [← hdn]; exact hdist.find_of_mem hd
      rcases hall d hd (by rw [hdn]; exact hp) with ⟨hnd, hm⟩ | ⟨hdup, hh, hm⟩
      · rw [s2mStep_noop (w := ⟨D, b'⟩) hdist hp hf hnd hm]
        simp [hf, hnd]
      · rw [s2mStep_dup_same (w := ⟨D, b'⟩) hdist hp hf hdup hh hm]
        simp [hf, hdup]

end Ls.Txn

namespace Ls.Txn
open Ls Ls.Lmdb Ls.Strategy Ls.Merge

/-- is there a duplicate-keys application DBI? -/
def anyDupApp (dbis : List Dbi) : Bool := dbis.any (fun d => !isPrivate d.name && isDupSort d.flags)

/-- non-native `LoadOnce` with nothing newer in the snapshot, no local change, and the mirror
    invariants: every DBI is left as it is; the transaction is recorded iff there is a
    duplicate-keys application DBI (EmptyPut drops and rewrites it) -/
theorem loadOnce_shadow_noop (c : Cfg) (e : Env) (snap : Snap) (lastSynced now cutoff : Nat)
    (hn : c.native = false) (hdist : DistinctNames e.dbis) (hloc : ¬ lastSynced < e.lastTxn)
    (h : ∀ m ∈ snap.dbs, MsgNotNewer c snap (e.lastTxn + 1) cutoff e.dbis m)
    (hall : AllMirrorOK c e.dbis) :
    loadOnce c e snap lastSynced now cutoff =
      .ok { env := { dbis := e.dbis, lastTxn := if anyDupApp e.dbis then e.lastTxn + 1 else e.lastTxn },
            txnID := if anyDupApp e.dbis then e.lastTxn + 1 else e.lastTxn,
            localChanged := false } := by
  have hf : snap.dbs.foldlM (loadDbi c snap (e.lastTxn + 1) cutoff) ⟨e.dbis, false⟩ = .ok ⟨e.dbis, false⟩ :=
    foldlM_noop _ _ _ (fun m hm => loadDbi_noop c snap _ cutoff ⟨e.dbis, false⟩ m hdist (h m hm))
  have hs := shadowToMain_same c e.dbis false hdist hall
  unfold loadOnce
  simp only [hn, Bool.false_eq_true, not_false_eq_true, true_and, if_true, Nat.add_sub_cancel, hloc,
    decide_false, if_false, bind, Except.bind, pure, Except.pure, hf, hs, commit, Bool.false_or]
  unfold anyDupApp
  cases List.any e.dbis (fun d => !isPrivate d.name && isDupSort d.flags) <;> simp

end Ls.Txn
