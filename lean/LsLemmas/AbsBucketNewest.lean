import LsLemmas.AbsBucket
/-
  Specification of `newestIdx` (AbsBucket.lean) as a predicate, and its behaviour under the two
  bucket mutations (append an alive blob, mark one blob as deleted).
-/
namespace Ls.Abs

/-- blob `w` at index `q` is alive and no later blob of the same instance is alive -/
def Newest (b : List Blob) (q : Nat) (w : Blob) : Prop :=
  b[q]? = some w ∧ w.alive = true ∧
    ∀ p y, q < p → b[p]? = some y → y.inst = w.inst → y.alive = false

/-- the filter predicate of `newestIdx` -/
def aliveOwn (b : List Blob) (j : Nat) (n : Nat) : Bool :=
  match b[n]? with
  | some x => x.inst = j && x.alive
  | none => false

theorem newestIdx_eq (b : List Blob) (j : Nat) :
    newestIdx b j = ((List.range b.length).filter (aliveOwn b j)).getLast? := rfl

theorem aliveOwn_iff {b : List Blob} {j n : Nat} :
    aliveOwn b j n = true ↔ ∃ x, b[n]? = some x ∧ x.inst = j ∧ x.alive = true := by
  unfold aliveOwn
  cases h : b[n]? with
  | none => simp
  | some x => simp

theorem mem_filter_aliveOwn {b : List Blob} {j n : Nat} :
    n ∈ (List.range b.length).filter (aliveOwn b j) ↔
      ∃ x, b[n]? = some x ∧ x.inst = j ∧ x.alive = true := by
  rw [List.mem_filter, aliveOwn_iff, List.mem_range]
  constructor
  · exact fun h => h.2
  · rintro ⟨x, hx, h1, h2⟩
    refine ⟨?_, x, hx, h1, h2⟩
    obtain ⟨hlt, _⟩ := List.getElem?_eq_some_iff.mp hx
    exact hlt

theorem newestIdx_some {b : List Blob} {j q : Nat} (h : newestIdx b j = some q) :
    ∃ w, Newest b q w ∧ w.inst = j := by
  rw [newestIdx_eq, List.getLast?_eq_some_iff] at h
  obtain ⟨ys, hys⟩ := h
  have hq : q ∈ (List.range b.length).filter (aliveOwn b j) := by rw [hys]; simp
  obtain ⟨w, hw, hj, ha⟩ := mem_filter_aliveOwn.mp hq
  refine ⟨w, ⟨hw, ha, ?_⟩, hj⟩
  intro p y hqp hy hyj
  cases hya : y.alive with
  | false => rfl
  | true =>
    exfalso
    have hp : p ∈ (List.range b.length).filter (aliveOwn b j) :=
      mem_filter_aliveOwn.mpr ⟨y, hy, hyj.trans hj, hya⟩
    have hpw : List.Pairwise (· < ·) ((List.range b.length).filter (aliveOwn b j)) :=
      List.Pairwise.filter _ List.pairwise_lt_range
    rw [hys] at hp hpw
    rcases List.mem_append.mp hp with hp | hp
    · have := (List.pairwise_append.mp hpw).2.2 p hp q (by simp)
      omega
    · simp at hp; omega

theorem newestIdx_none {b : List Blob} {j : Nat} (h : newestIdx b j = none) :
    ∀ (p : Nat) (y : Blob), b[p]? = some y → y.inst = j → y.alive = false := by
  intro p y hy hj
  rw [newestIdx_eq, List.getLast?_eq_none_iff] at h
  cases hya : y.alive with
  | false => rfl
  | true =>
    have hp : p ∈ (List.range b.length).filter (aliveOwn b j) :=
      mem_filter_aliveOwn.mpr ⟨y, hy, hj, hya⟩
    rw [h] at hp; simp at hp

theorem Newest.unique {b : List Blob} {q q' : Nat} {w w' : Blob} (h : Newest b q w)
    (h' : Newest b q' w') (hi : w.inst = w'.inst) : q = q' := by
  obtain ⟨h1, h2, h3⟩ := h
  obtain ⟨h1', h2', h3'⟩ := h'
  rcases Nat.lt_trichotomy q q' with hlt | heq | hgt
  · have := h3 q' w' hlt h1' hi.symm; rw [this] at h2'; cases h2'
  · exact heq
  · have := h3' q w hgt h1 hi; rw [this] at h2; cases h2

theorem Newest.toIdx {b : List Blob} {q : Nat} {w : Blob} (h : Newest b q w) :
    Abs.newestIdx b w.inst = some q := by
  cases hn : Abs.newestIdx b w.inst with
  | none =>
    have := newestIdx_none hn q w h.1 rfl
    rw [h.2.1] at this; cases this
  | some q' =>
    obtain ⟨w', hw', hj⟩ := newestIdx_some hn
    rw [Newest.unique h hw' hj.symm]

theorem newestIdx_some_iff {b : List Blob} {j q : Nat} :
    newestIdx b j = some q ↔ ∃ w, Newest b q w ∧ w.inst = j := by
  constructor
  · exact newestIdx_some
  · rintro ⟨w, hw, rfl⟩; exact hw.toIdx

theorem Newest.content {f : BF} {q : Nat} {w : Blob} (h : Newest f.bucket q w) :
    newestContent f w.inst = some w.content := by
  simp [newestContent, h.toIdx, h.1]

theorem newestContent_some {f : BF} {j : Nat} {c : DB} (h : newestContent f j = some c) :
    ∃ q w, Newest f.bucket q w ∧ w.inst = j ∧ w.content = c := by
  unfold newestContent at h
  cases hn : newestIdx f.bucket j with
  | none => rw [hn] at h; cases h
  | some q =>
    obtain ⟨w, hw, hj⟩ := newestIdx_some hn
    rw [hn] at h
    simp only [Option.bind_some, hw.1, Option.map_some] at h
    injection h with h
    exact ⟨q, w, hw, hj, h⟩

/-! ### appending an alive blob -/

theorem getElem?_append_one {b : List Blob} {z : Blob} {p : Nat} {x : Blob}
    (h : (b ++ [z])[p]? = some x) : b[p]? = some x ∨ (p = b.length ∧ x = z) := by
  by_cases hp : p < b.length
  · rw [List.getElem?_append_left hp] at h; exact Or.inl h
  · rw [List.getElem?_append_right (Nat.le_of_not_lt hp)] at h
    right
    cases hd : p - b.length with
    | zero => rw [hd] at h; simp at h; exact ⟨by omega, h.symm⟩
    | succ n => rw [hd] at h; simp at h

theorem getElem?_append_old {b : List Blob} {z : Blob} {p : Nat} {x : Blob}
    (h : b[p]? = some x) : (b ++ [z])[p]? = some x := by
  obtain ⟨hlt, _⟩ := List.getElem?_eq_some_iff.mp h
  rw [List.getElem?_append_left hlt]; exact h

theorem getElem?_append_new (b : List Blob) (z : Blob) : (b ++ [z])[b.length]? = some z := by
  simp

theorem getElem?_lt {b : List Blob} {p : Nat} {x : Blob} (h : b[p]? = some x) : p < b.length :=
  (List.getElem?_eq_some_iff.mp h).1

/-- the appended alive blob is the newest of its instance -/
theorem Newest.append_new (b : List Blob) (z : Blob) (hz : z.alive = true) :
    Newest (b ++ [z]) b.length z := by
  refine ⟨getElem?_append_new b z, hz, ?_⟩
  intro p y hp hy _
  have := getElem?_lt hy
  simp at this; omega

/-- the newest of any other instance stays the newest -/
theorem Newest.append_other {b : List Blob} {q : Nat} {w : Blob} (h : Newest b q w) (z : Blob)
    (hz : z.inst ≠ w.inst) : Newest (b ++ [z]) q w := by
  refine ⟨getElem?_append_old h.1, h.2.1, ?_⟩
  intro p y hp hy hi
  rcases getElem?_append_one hy with hy | ⟨_, rfl⟩
  · exact h.2.2 p y hp hy hi
  · exact absurd hi hz

/-! ### marking a blob as deleted -/

theorem getElem?_setAlive (b : List Blob) (idx p : Nat) :
    (setAlive b idx)[p]? = (b[p]?).map fun x => if p = idx then { x with alive := false } else x := by
  simp [setAlive, List.getElem?_mapIdx]

/-- every blob of the bucket after a deletion is a blob of the bucket before, same instance and
    content, alive only if it was and it is not the deleted one -/
theorem getElem?_setAlive_some {b : List Blob} {idx p : Nat} {x : Blob}
    (h : (setAlive b idx)[p]? = some x) :
    ∃ x0, b[p]? = some x0 ∧ x.inst = x0.inst ∧ x.content = x0.content ∧
      (x.alive = true → x0.alive = true ∧ p ≠ idx ∧ x = x0) := by
  rw [getElem?_setAlive] at h
  cases hb : b[p]? with
  | none => rw [hb] at h; cases h
  | some x0 =>
    rw [hb] at h
    simp only [Option.map_some] at h
    injection h with h
    refine ⟨x0, rfl, ?_⟩
    by_cases hp : p = idx
    · rw [if_pos hp] at h; subst h; simp
    · rw [if_neg hp] at h; subst h; simp [hp]

theorem getElem?_setAlive_old {b : List Blob} {idx p : Nat} {x0 : Blob} (h : b[p]? = some x0) :
    ∃ x, (setAlive b idx)[p]? = some x ∧ x.inst = x0.inst ∧ x.content = x0.content ∧
      (p ≠ idx → x = x0) := by
  rw [getElem?_setAlive, h]
  by_cases hp : p = idx
  · exact ⟨{ x0 with alive := false }, by simp [hp], rfl, rfl, fun h' => absurd hp h'⟩
  · exact ⟨x0, by simp [hp], rfl, rfl, fun _ => rfl⟩

/-- a newest blob other than the deleted one stays the newest of its instance -/
theorem Newest.setAlive {b : List Blob} {q : Nat} {w : Blob} (h : Newest b q w) {idx : Nat}
    (hq : q ≠ idx) : Newest (setAlive b idx) q w := by
  obtain ⟨x, hx, _, _, hxe⟩ := getElem?_setAlive_old (idx := idx) h.1
  rw [hxe hq] at hx
  refine ⟨hx, h.2.1, ?_⟩
  intro p y hp hy hi
  obtain ⟨y0, hy0, hi0, _, hal⟩ := getElem?_setAlive_some hy
  cases hya : y.alive with
  | false => rfl
  | true =>
    have := h.2.2 p y0 hp hy0 (hi0 ▸ hi)
    rw [(hal hya).1] at this; cases this

end Ls.Abs
