import LsLemmas.LoopBucket
/-
  Content-level readings of the transaction-id bookkeeping of the sync loop, on the product
  fleet of native-mode loops (LsLemmas/LoopAbs.lean): the logical content of an instance only
  grows (so a committed application write is never destroyed), and which application writes
  the newest own snapshot covers at an idle point (helper lemmas of LsProps/C09Fleet.lean).
-/
set_option linter.unusedSimpArgs false
namespace Ls.Abs
open Ls

/-! ## 0. along a monotone abstract schedule every database only grows -/

theorem step_db_mono {f : Fleet} {s : Step} (hf : FleetWF f)
    (hm : match s with | .write i k v => join (f.db i k) (some v) = some v | _ => True) (j : Nat) :
    (f.db j).le ((step f s).db j) := by
  cases s with
  | write i k v =>
    simp only [step]
    by_cases hj : j = i
    · rw [if_pos hj, hj]
      intro k'
      by_cases hk : k' = k
      · subst hk; rw [upd_same]; exact hm
      · rw [upd_other _ _ _ _ hk]; exact join_idem _
    · rw [if_neg hj]; exact le_refl _
  | send i => exact le_refl _
  | load i idx =>
    simp only [step]
    split
    · exact le_refl _
    · rename_i o s' hget
      simp only
      by_cases hj : j = i
      · rw [if_pos hj, hj]
        exact le_join_left (hf.1 i) (hf.2 _ (List.mem_of_getElem? hget))
      · rw [if_neg hj]; exact le_refl _

theorem run_db_mono : ∀ (steps : List Step) (f : Fleet), FleetWF f → StepsWF steps → MonotoneFrom f steps →
    ∀ j, (f.db j).le ((run f steps).db j) := by
  intro steps
  induction steps with
  | nil => intro f _ _ _ j; exact le_refl _
  | cons s rest ih =>
    intro f hf hw hm j
    have hs := hw s (List.mem_cons_self ..)
    have hf' : FleetWF (step f s) := step_wf hf hs
    have h1 := step_db_mono hf hm.1 j
    have h2 := ih (step f s) hf' (fun s' h' => hw s' (List.mem_cons_of_mem _ h')) hm.2 j
    exact le_trans (hf.1 j) (hf'.1 j) ((run_wf hf' (fun s' h' => hw s' (List.mem_cons_of_mem _ h'))).1 j) h1 h2

end Ls.Abs

namespace Ls.Loop
open Ls Ls.Lmdb Ls.Txn Ls.SyncLoop

/-! ## 1. the logical content of a native-mode instance only grows -/

theorem loopRunOkN_append {cs : Nat → LoopCfg} : ∀ (a b : List (Nat × Ev)) (F : Fleet),
    LoopRunOkN cs F (a ++ b) → LoopRunOkN cs F a ∧ LoopRunOkN cs (fleetRun cs F a) b := by
  intro a
  induction a with
  | nil => intro b F h; exact ⟨trivial, h⟩
  | cons e es ih =>
    intro b F h
    obtain ⟨h1, h2⟩ := h
    obtain ⟨h3, h4⟩ := ih b _ h2
    exact ⟨⟨h1, h3⟩, h4⟩

/-- **monotonicity**: along every admissible schedule of the native-mode fleet — any events,
    the D9 windows included — `absEnv` of every instance at the end is, for every key, at least
    as new as at the start (every event leaves it unchanged, joins a snapshot into it, or applies
    a non-losing write) -/
theorem absEnv_mono_run (cs : Nat → LoopCfg) (hn : ∀ j, (cs j).txn.native = true)
    (evs : List (Nat × Ev)) (F : Fleet) (A : Abs.Fleet) (hrel : RelN cs F A)
    (hok : LoopRunOkN cs F evs) (j : Nat) :
    (absEnv (F j).st.env).le (absEnv (fleetRun cs F evs j).st.env) := by
  obtain ⟨steps, h1, h2, h3, _⟩ := loop_run_refines_native cs hn evs F A hrel hok
  rw [← hrel.db j, ← h1.db j]
  exact Abs.run_db_mono steps A (relN_fleetWF hrel) h2 h3 j

/-- **a committed application write is never destroyed** (native mode): after the event that
    commits the put of version `verOf val` under `(name, key)` at instance `j` (the key is
    acceptable to LMDB, so the transaction is committed), at every later moment instance `j`
    holds that version or one that wins last-writer-wins against it -/
theorem write_survives_native (cs : Nat → LoopCfg) (hn : ∀ j, (cs j).txn.native = true)
    (F : Fleet) (A : Abs.Fleet) (hrel : RelN cs F A) (pre post : List (Nat × Ev)) (j : Nat)
    (name key val : Bytes) (hbk : badKey key = false)
    (hok : LoopRunOkN cs F (pre ++ (j, .app [.put name key val]) :: post)) :
    join (some (verOf val))
        (absEnv (fleetRun cs F (pre ++ (j, .app [.put name key val]) :: post) j).st.env (name, key)) =
      absEnv (fleetRun cs F (pre ++ (j, .app [.put name key val]) :: post) j).st.env (name, key) := by
  obtain ⟨hok1, hok2⟩ := loopRunOkN_append pre _ F hok
  obtain ⟨hokE, hok3⟩ := hok2
  obtain ⟨st1, hr1, _, _, _⟩ := loop_run_refines_native cs hn pre F A hrel hok1
  generalize hF1 : fleetRun cs F pre = F1 at hr1 hokE hok3
  obtain ⟨st2, hr2, _, _, _⟩ := loop_step_refines_native cs hn F1 _ (j, .app [.put name key val]) hr1 hokE
  -- the content right after the write
  have hafter : absEnv (fleetStep cs F1 (j, .app [.put name key val]) j).st.env (name, key) =
      some (verOf val) := by
    obtain ⟨name', key', val', hops, hp, hv, ⟨d, hd, hdup, hik⟩, _⟩ := hokE
    injection hops with hops _
    injection hops with e1 e2 e3
    subst e1 e2 e3
    have hst : (fleetStep cs F1 (j, .app [.put name key val]) j).st =
        appCommit (F1 j).st [.put name key val] := by
      rw [fleetStep_self]; rfl
    obtain ⟨e', he', _, habs⟩ := appPut_abs (F1 j).st.env name key val d (hr1.wf j) hd hp hdup hik hbk hv
    rw [hst, appCommit_env, he']
    simp only
    rw [habs, Abs.upd_same]
  have hmono := absEnv_mono_run cs hn post _ _ hr2 hok3 j
  have hfin : fleetRun cs F (pre ++ (j, .app [.put name key val]) :: post) =
      fleetRun cs (fleetStep cs F1 (j, .app [.put name key val])) post := by
    rw [fleetRun_append, hF1]; rfl
  rw [hfin]
  have := hmono (name, key)
  rw [hafter] at this
  exact this

/-! ## 2. which application writes a dump covers: ghost bookkeeping with content -/

def isStoredPc : Pc → Bool
  | .sendStored .. => true
  | _ => false

/-- the segment began a dump (`SendOnce`'s transaction committed) -/
def isDumpTr (pc pc' : Pc) : Bool := isSendAfterTxn pc' && !isSendAfterTxn pc
/-- the segment stored the dump -/
def isStoreTr (pc pc' : Pc) : Bool := isSendAfterTxn pc && isStoredPc pc'

/-- the ghost lists of `LoopGhost.lean` along a segment, by the kind of the segment -/
theorem afterGo_lists (gh : Gh) (b : Bucket) (s : St) (i : In) (pc' : Pc) (w' : List InstId) :
    (gh.afterGo b s i pc' w').allApp = gh.allApp ∧
    ((s.pc = .boot ∨ s.pc = .beforeSend) → isSendAfterTxn pc' = true →
      (gh.afterGo b s i pc' w').unpub = [] ∧
      (gh.afterGo b s i pc' w').inflight = gh.inflight ++ gh.unpub ∧
      (gh.afterGo b s i pc' w').published = gh.published) ∧
    (isStoreTr s.pc pc' = true →
      (gh.afterGo b s i pc' w').unpub = gh.unpub ∧ (gh.afterGo b s i pc' w').inflight = [] ∧
      (gh.afterGo b s i pc' w').published = gh.published ++ gh.inflight) ∧
    (isSendAfterTxn pc' = false → isStoreTr s.pc pc' = false →
      (gh.afterGo b s i pc' w').unpub = gh.unpub ∧ (gh.afterGo b s i pc' w').inflight = gh.inflight ∧
      (gh.afterGo b s i pc' w').published = gh.published) := by
  unfold Gh.afterGo isStoreTr
  generalize s.pc = pc
  cases pc <;> cases pc' <;> simp [Gh.beginDump, isSendAfterTxn, isStoredPc] <;>
    (rename_i lc _ _ _; cases lc <;> simp)

/-- a recorded application write: its transaction id, its key, its version -/
abbrev WriteRec := Nat × Abs.Key × Ver

/-- ghost bookkeeping WITH CONTENT, parallel to `Gh.allApp / unpub / inflight / published`: the
    recorded application writes, those no dump covers yet, those covered by the dump in flight,
    those covered by a stored dump; the environment at the moment the latest dump began, and at
    the moment the dump of the latest STORED blob began -/
structure PG where
  allW : List WriteRec
  unpubW : List WriteRec
  inflightW : List WriteRec
  publishedW : List WriteRec
  dumpEnv : Option Env
  storedEnv : Option Env

def PG.init : PG :=
  { allW := [], unpubW := [], inflightW := [], publishedW := [], dumpEnv := none, storedEnv := none }

/-- ghost effect of a segment from `s` to `s'` -/
def pgGo (pg : PG) (s s' : St) : PG :=
  if isDumpTr s.pc s'.pc then
    { pg with inflightW := pg.inflightW ++ pg.unpubW, unpubW := [], dumpEnv := some s.env }
  else if isStoreTr s.pc s'.pc then
    { pg with publishedW := pg.publishedW ++ pg.inflightW, inflightW := [], storedEnv := pg.dumpEnv }
  else pg

/-- ghost effect of an application transaction (a single put) if LMDB records it -/
def pgApp (pg : PG) (s : St) (ops : List AppOp) : PG :=
  match ops with
  | [.put name key val] =>
    if recorded s ops then
      { pg with allW := ((appCommit s ops).env.lastTxn, (name, key), verOf val) :: pg.allW,
                unpubW := ((appCommit s ops).env.lastTxn, (name, key), verOf val) :: pg.unpubW }
    else pg
  | _ => pg

/-- the loop fleet with the content ghosts -/
structure PS where
  F : Fleet
  pg : Nat → PG

def pgEv (cs : Nat → LoopCfg) (P : PS) (ke : Nat × Ev) : PG :=
  match ke.2 with
  | .go _ => pgGo (P.pg ke.1) (P.F ke.1).st (fleetStep cs P.F ke ke.1).st
  | .app ops => pgApp (P.pg ke.1) (P.F ke.1).st ops
  | _ => P.pg ke.1

def pstep (cs : Nat → LoopCfg) (P : PS) (ke : Nat × Ev) : PS :=
  { F := fleetStep cs P.F ke, pg := fun j => if j = ke.1 then pgEv cs P ke else P.pg j }

def prun (cs : Nat → LoopCfg) (P : PS) (evs : List (Nat × Ev)) : PS := evs.foldl (pstep cs) P

def pinit (envs : Nat → Env) : PS := { F := fun j => G.init (envs j) [], pg := fun _ => PG.init }

theorem prun_F (cs : Nat → LoopCfg) : ∀ (evs : List (Nat × Ev)) (P : PS),
    (prun cs P evs).F = fleetRun cs P.F evs := by
  intro evs
  induction evs with
  | nil => intro P; rfl
  | cons e es ih => intro P; exact ih (pstep cs P e)

/-- the last (most recently stored) blob of an instance in the bucket -/
def lastOwn (B : Bucket) (own : InstId) : Option Blob := (B.filter fun x => x.inst == own).getLast?

theorem lastOwn_append_other {B : Bucket} {own : InstId} {Y : List Blob} (h : ∀ x ∈ Y, x.inst ≠ own) :
    lastOwn (B ++ Y) own = lastOwn B own := by
  unfold lastOwn
  rw [List.filter_append]
  have : Y.filter (fun x => x.inst == own) = [] := by
    apply List.filter_eq_nil_iff.mpr
    intro x hx; simpa using h x hx
  rw [this, List.append_nil]

theorem lastOwn_append_own {B : Bucket} {own : InstId} {x : Blob} (h : x.inst = own) :
    lastOwn (B ++ [x]) own = some x := by
  unfold lastOwn
  rw [List.filter_append]
  have : [x].filter (fun y => y.inst == own) = [x] := by simp [h]
  rw [this, List.getLast?_append]
  simp

theorem lastOwn_mem {B : Bucket} {own : InstId} {w : Blob} (h : lastOwn B own = some w) :
    w ∈ B ∧ w.inst = own := by
  unfold lastOwn at h
  have := List.mem_of_getLast? h
  have := List.mem_filter.mp this
  exact ⟨this.1, by simpa using this.2⟩

/-- version `v` is below what `D` holds for key `k` -/
def Below (v : Ver) (k : Abs.Key) (D : Abs.DB) : Prop := join (some v) (D k) = D k

theorem below_mono {v : Ver} {k : Abs.Key} {D D' : Abs.DB} (hv : v.WF) (hD : D.WF) (hD' : D'.WF)
    (hle : D.le D') (h : Below v k D) : Below v k D' := by
  unfold Below at h ⊢
  have h1 := hle k
  rw [← h1, ← join_assoc (show OWF (some v) from hv) (hD k) (hD' k), h]

/-- **the content invariant of one instance**: the content ghosts are the `Gh` lists with content;
    ids are distinct and at most `lastTxn`; every recorded write is below the instance's content;
    own blobs are below the instance's content; a dump in flight is the content at the moment the
    dump began and covers the in-flight writes and the own blobs; the last own blob of the bucket
    is the content at the moment ITS dump began and covers all published writes -/
structure PInvJ (me : InstId) (gh : Gh) (env : Env) (pc : Pc) (pg : PG) (B : Bucket) : Prop where
  allApp : gh.allApp = pg.allW.map (·.1)
  unpub : gh.unpub = pg.unpubW.map (·.1)
  inflight : gh.inflight = pg.inflightW.map (·.1)
  published : gh.published = pg.publishedW.map (·.1)
  subU : ∀ t ∈ pg.unpubW, t ∈ pg.allW
  subI : ∀ t ∈ pg.inflightW, t ∈ pg.allW
  subP : ∀ t ∈ pg.publishedW, t ∈ pg.allW
  nodup : (pg.allW.map (·.1)).Nodup
  idle : ∀ t ∈ pg.allW, t.1 ≤ env.lastTxn
  cur : ∀ t ∈ pg.allW, t.2.2.WF ∧ Below t.2.2 t.2.1 (absEnv env)
  own : ∀ x ∈ B, x.inst = me → (blobDB x).le (absEnv env)
  pend : ∀ who t ts sn, pc = .sendAfterTxn who t ts sn →
    ∃ e, pg.dumpEnv = some e ∧ absSnap sn = absEnv e ∧ (absSnap sn).le (absEnv env) ∧
      (∀ x ∈ B, x.inst = me → (blobDB x).le (absSnap sn)) ∧
      ∀ t ∈ pg.inflightW, Below t.2.2 t.2.1 (absSnap sn)
  last : (lastOwn B me = none ∧ pg.publishedW = []) ∨
    ∃ w e, lastOwn B me = some w ∧ pg.storedEnv = some e ∧ blobDB w = absEnv e ∧
      ∀ t ∈ pg.publishedW, Below t.2.2 t.2.1 (blobDB w)

/-- the invariant of the fleet with content ghosts -/
def PInv (cs : Nat → LoopCfg) (n : Nat) (P : PS) : Prop :=
  (∃ A, RelN cs P.F A) ∧
  ∀ j, j < n → PInvJ (cs j).own (P.F j).gh (P.F j).st.env (P.F j).st.pc (P.pg j) (P.F 0).bucket

theorem pinvJ_other {own : InstId} {gh : Gh} {env : Env} {pc : Pc} {pg : PG} {B : Bucket} (Y : List Blob)
    (h : PInvJ own gh env pc pg B) (hY : ∀ x ∈ Y, x.inst ≠ own) : PInvJ own gh env pc pg (B ++ Y) := by
  refine { h with own := ?_, pend := ?_, last := ?_ }
  · intro x hx hi
    rcases List.mem_append.mp hx with hx | hx
    · exact h.own x hx hi
    · exact absurd hi (hY x hx)
  · intro who t ts sn hpc
    obtain ⟨e, h1, h2, h3, h4, h5⟩ := h.pend who t ts sn hpc
    refine ⟨e, h1, h2, h3, ?_, h5⟩
    intro x hx hi
    rcases List.mem_append.mp hx with hx | hx
    · exact h4 x hx hi
    · exact absurd hi (hY x hx)
  · rw [lastOwn_append_other hY]; exact h.last

theorem go_lastTxn_le (c : LoopCfg) (hn : c.txn.native = true) (b : Bucket) (s : St) (i : In) :
    s.env.lastTxn ≤ (go c b s i).1.env.lastTxn := by
  have hbe : bootEnv c s.env = .ok s.env := by unfold bootEnv; simp [hn]
  cases go_shape c b s i with
  | quiet h1 _ _ => rw [h1]; exact Nat.le_refl _
  | load s1 n inst ts blob r _ _ _ _ _ h4 h5 _ =>
    rw [h5]; rcases (loadOnce_facts h4).1 with h | h <;> omega
  | send r _ h2 h3 _ => rw [h3, (sendOnce_facts h2).1 hn]; exact Nat.le_refl _
  | bootNoSend env1 _ h2 h3 _ _ => rw [hbe] at h2; injection h2 with h2; rw [h3, h2]; exact Nat.le_refl _
  | bootSend env1 r _ h2 h3 h4 _ =>
    rw [hbe] at h2; injection h2 with h2; subst h2
    rw [h4, (sendOnce_facts h3).1 hn]; exact Nat.le_refl _

theorem delta_inst {cs : Nat → LoopCfg} {F : Fleet} {k : Nat} {e : Ev} (hok : LoopOkN cs F (k, e)) :
    ∀ x ∈ delta (cs k) (F k) e, x.inst = (cs k).own := by
  intro x hx
  cases e with
  | go i =>
    rcases delta_go (cs k) (F k) i with h0 | ⟨who, t, ts, sn, _, _, h1⟩
    · rw [h0] at hx; cases hx
    · rw [h1] at hx; simp only [List.mem_singleton] at hx; rw [hx]
  | app ops => simp [delta] at hx
  | list => simp [delta] at hx
  | others bs =>
    have hbs : bs = [] := hok
    subst hbs; simp [delta] at hx

/-- the invariant of an instance survives an event that leaves the ghost lists, the bucket and
    the content ghosts alone, does not begin a dump, and lets the content and `lastTxn` grow -/
theorem pinvJ_env {me : InstId} {gh gh' : Gh} {env env' : Env} {pc pc' : Pc} {pg : PG} {B : Bucket}
    (h : PInvJ me gh env pc pg B) (hwf : EnvWF env) (hwf' : EnvWF env')
    (hle : (absEnv env).le (absEnv env')) (hlt : env.lastTxn ≤ env'.lastTxn)
    (h1 : gh'.allApp = gh.allApp) (h2 : gh'.unpub = gh.unpub) (h3 : gh'.inflight = gh.inflight)
    (h4 : gh'.published = gh.published)
    (hpc : ∀ who t ts sn, pc' = .sendAfterTxn who t ts sn → pc = .sendAfterTxn who t ts sn) :
    PInvJ me gh' env' pc' pg B := by
  have hD := absEnv_wf hwf
  have hD' := absEnv_wf hwf'
  refine
    { allApp := by rw [h1]; exact h.allApp, unpub := by rw [h2]; exact h.unpub,
      inflight := by rw [h3]; exact h.inflight, published := by rw [h4]; exact h.published,
      subU := h.subU, subI := h.subI, subP := h.subP, nodup := h.nodup,
      idle := fun t ht => Nat.le_trans (h.idle t ht) hlt,
      cur := fun t ht => ⟨(h.cur t ht).1, below_mono (h.cur t ht).1 hD hD' hle (h.cur t ht).2⟩,
      own := fun x hx hi => Abs.le_trans (blobDB_wf x) hD hD' (h.own x hx hi) hle,
      pend := ?_, last := h.last }
  intro who t ts sn hpc'
  obtain ⟨e, a1, a2, a3, a4, a5⟩ := h.pend who t ts sn (hpc who t ts sn hpc')
  exact ⟨e, a1, a2, Abs.le_trans (absSnap_wf sn) hD hD' a3 hle, a4, a5⟩

/-- **an event of the fleet keeps the content invariant** -/
theorem pinv_step (cs : Nat → LoopCfg) (n : Nat) (hn : ∀ j, (cs j).txn.native = true)
    (hro : ∀ j, (cs j).txn.receiveOnly = false)
    (hown : ∀ i j, i < n → j < n → (cs i).own = (cs j).own → i = j)
    (P : PS) (ke : Nat × Ev) (hk : ke.1 < n) (hinv : PInv cs n P) (hok : LoopOkN cs P.F ke) :
    PInv cs n (pstep cs P ke) := by
  obtain ⟨k, e⟩ := ke
  have hk : k < n := hk
  obtain ⟨⟨A, hrel⟩, hJ⟩ := hinv
  obtain ⟨steps, hrel', hswf, hsmono, _⟩ := loop_step_refines_native cs hn P.F A (k, e) hrel hok
  refine ⟨⟨_, hrel'⟩, ?_⟩
  obtain ⟨B0, hB0, _⟩ := hrel.bucket
  have hB : ∀ j, (P.F j).bucket = (P.F 0).bucket := fun j => by rw [hB0 j, hB0 0]
  have hB' : (fleetStep cs P.F (k, e) 0).bucket = (P.F 0).bucket ++ delta (cs k) (P.F k) e :=
    fleetStep_shared cs P.F (k, e) _ hB 0
  have hmono : ∀ j, (absEnv (P.F j).st.env).le (absEnv (fleetStep cs P.F (k, e) j).st.env) := by
    intro j
    rw [← hrel.db j, ← hrel'.db j]
    exact Abs.run_db_mono steps A (relN_fleetWF hrel) hswf hsmono j
  intro j hj
  show PInvJ (cs j).own (fleetStep cs P.F (k, e) j).gh (fleetStep cs P.F (k, e) j).st.env
    (fleetStep cs P.F (k, e) j).st.pc (if j = k then pgEv cs P (k, e) else P.pg j)
    (fleetStep cs P.F (k, e) 0).bucket
  rw [hB']
  by_cases hjk' : j ≠ k
  · -- another instance
    have hjk : ¬ j = k := hjk'
    rw [if_neg hjk]
    obtain ⟨h1, h2, _⟩ := fleetStep_other cs P.F (k, e) hjk
    rw [h1, h2]
    refine pinvJ_other _ (hJ j hj) ?_
    intro x hx hi
    rw [delta_inst hok x hx] at hi
    exact hjk (hown j k hj hk hi.symm)
  have hjk : j = k := Classical.not_not.mp hjk'
  subst hjk
  rw [if_pos rfl]
  have hself : fleetStep cs P.F (j, e) j = step (cs j) (P.F j) e := fleetStep_self cs P.F (j, e)
  have hJj := hJ j hj
  have hwfj := hrel.wf j
  have hwfj' := hrel'.wf j
  have hmj := hmono j
  rw [hself] at hwfj' hmj ⊢
  cases e with
  | list =>
    have hd : delta (cs j) (P.F j) .list = [] := rfl
    rw [hd, List.append_nil]
    exact pinvJ_env hJj hwfj hwfj' hmj (Nat.le_refl _) rfl rfl rfl rfl (fun _ _ _ _ h => h)
  | others bs =>
    have hbs : bs = [] := hok
    subst hbs
    have hd : delta (cs j) (P.F j) (.others []) = [] := rfl
    rw [hd, List.append_nil]
    exact pinvJ_env hJj hwfj hwfj' hmj (Nat.le_refl _) rfl rfl rfl rfl (fun _ _ _ _ h => h)
  | app ops =>
    obtain ⟨name, key, val, hops, hp, hv, ⟨d, hd, hdup, hik⟩, _⟩ := hok
    subst hops
    have hd0 : delta (cs j) (P.F j) (.app [.put name key val]) = [] := rfl
    rw [hd0, List.append_nil]
    have hst : (step (cs j) (P.F j) (.app [.put name key val])).st =
        appCommit (P.F j).st [.put name key val] := rfl
    have hgh : (step (cs j) (P.F j) (.app [.put name key val])).gh =
        if recorded (P.F j).st [.put name key val] then
          (P.F j).gh.app (appCommit (P.F j).st [.put name key val]).env.lastTxn
        else (P.F j).gh := rfl
    have hpcs : (appCommit (P.F j).st [.put name key val]).pc = (P.F j).st.pc :=
      (appCommit_facts _ _).1
    have hlt := (appCommit_facts (P.F j).st [.put name key val]).2.2.2.2.2
    show PInvJ (cs j).own _ _ _ (pgApp (P.pg j) (P.F j).st [.put name key val]) _
    rw [hst] at hwfj' hmj ⊢
    rw [hgh, hpcs]
    unfold pgApp
    cases hrec : recorded (P.F j).st [.put name key val] with
    | false =>
      simp only [Bool.false_eq_true, if_false]
      exact pinvJ_env hJj hwfj hwfj' hmj (by rcases hlt with h | h <;> omega) rfl rfl rfl rfl
        (fun _ _ _ _ h => h)
    | true =>
      simp only [if_true]
      have hl' : (appCommit (P.F j).st [.put name key val]).env.lastTxn = (P.F j).st.env.lastTxn + 1 := by
        unfold recorded at hrec
        rcases hlt with h | h
        · simp [h] at hrec
        · exact h
      -- the content after the write holds the written version
      have hnew : absEnv (appCommit (P.F j).st [.put name key val]).env (name, key) = some (verOf val) := by
        cases hk' : badKey key with
        | true =>
          exfalso
          have hnone : appTxn (P.F j).st.env [.put name key val] = none := by
            simp [appTxn, appRefused, hd, hk']
          rw [appCommit_env, hnone] at hl'
          simp at hl'
        | false =>
          obtain ⟨e', he', _, habs⟩ := appPut_abs (P.F j).st.env name key val d hwfj hd hp hdup hik hk' hv
          rw [appCommit_env, he']
          simp only
          rw [habs, Abs.upd_same]
      have base := pinvJ_env hJj hwfj hwfj' hmj (by omega)
        (gh' := (P.F j).gh) rfl rfl rfl rfl (fun _ _ _ _ h => h)
      refine
        { allApp := by simp [Gh.app, base.allApp], unpub := by simp [Gh.app, base.unpub],
          inflight := by simp [Gh.app, base.inflight], published := by simp [Gh.app, base.published],
          subU := ?_, subI := fun t ht => List.mem_cons_of_mem _ (base.subI t ht),
          subP := fun t ht => List.mem_cons_of_mem _ (base.subP t ht), nodup := ?_, idle := ?_,
          cur := ?_, own := base.own, pend := base.pend, last := base.last }
      · intro t ht
        rcases List.mem_cons.mp ht with h | h
        · rw [h]; exact List.mem_cons_self ..
        · exact List.mem_cons_of_mem _ (base.subU t h)
      · simp only [List.map_cons, List.nodup_cons]
        refine ⟨?_, base.nodup⟩
        intro hin
        obtain ⟨t, ht, hte⟩ := List.mem_map.mp hin
        have := hJj.idle t ht
        omega
      · intro t ht
        rcases List.mem_cons.mp ht with h | h
        · rw [h]; exact Nat.le_refl _
        · exact base.idle t h
      · intro t ht
        rcases List.mem_cons.mp ht with h | h
        · rw [h]
          refine ⟨(verOf_spec hv).2, ?_⟩
          unfold Below
          simp only
          rw [hnew]; exact join_idem _
        · exact base.cur t h
  | go i =>
    have hst : (step (cs j) (P.F j) (.go i)).st = (go (cs j) (P.F j).bucket (P.F j).st i).1 := rfl
    have hgh : (step (cs j) (P.F j) (.go i)).gh =
        (P.F j).gh.afterGo (P.F j).bucket (P.F j).st i (go (cs j) (P.F j).bucket (P.F j).st i).1.pc
          (go (cs j) (P.F j).bucket (P.F j).st i).1.waiting := rfl
    obtain ⟨l1, l2, l3, l4⟩ := afterGo_lists (P.F j).gh (P.F j).bucket (P.F j).st i
      (go (cs j) (P.F j).bucket (P.F j).st i).1.pc (go (cs j) (P.F j).bucket (P.F j).st i).1.waiting
    rw [← hgh] at l1 l2 l3 l4
    have hshape := go_shape (cs j) (P.F j).bucket (P.F j).st i
    obtain ⟨_, _, hstored⟩ := go_books (cs j) (P.F j).bucket (P.F j).st i
    have hlt := go_lastTxn_le (cs j) (hn j) (P.F j).bucket (P.F j).st i
    have hgob : (go (cs j) (P.F j).bucket (P.F j).st i).2 =
        (P.F j).bucket ++ delta (cs j) (P.F j) (.go i) := step_bucket_delta (cs j) (P.F j) (.go i)
    have hbe : bootEnv (cs j) (P.F j).st.env = .ok (P.F j).st.env := by
      unfold bootEnv; simp [hn j]
    show PInvJ (cs j).own _ _ _ (pgGo (P.pg j) (P.F j).st (fleetStep cs P.F (j, .go i) j).st) _
    rw [hself]
    rw [← hst] at hshape hstored hlt l2 l3 l4
    obtain ⟨s', hs'⟩ : ∃ s', (step (cs j) (P.F j) (.go i)).st = s' := ⟨_, rfl⟩
    obtain ⟨g', hg'⟩ : ∃ g', (step (cs j) (P.F j) (.go i)).gh = g' := ⟨_, rfl⟩
    rw [hs'] at hshape hstored hlt l2 l3 l4 hwfj' hmj
    rw [hg'] at l1 l2 l3 l4
    rw [hs', hg']
    unfold pgGo
    cases hdump : isDumpTr (P.F j).st.pc s'.pc with
    | true =>
      -- a dump begins
      simp only [if_true]
      have hsend : isSendAfterTxn s'.pc = true ∧ isSendAfterTxn (P.F j).st.pc = false := by
        unfold isDumpTr at hdump
        simpa using hdump
      -- the shape is `send` or `bootSend`
      have key : ∃ (r : SendRes) (who : Caller) (t : Nat), ((P.F j).st.pc = .boot ∨ (P.F j).st.pc = .beforeSend) ∧
          sendOnce (cs j).txn (P.F j).st.env i.now 0 = .ok r ∧ s'.env = r.env ∧
          s'.pc = .sendAfterTxn who t i.now r.snap := by
        cases hshape with
        | quiet _ h2 _ =>
          exfalso
          cases hpc : s'.pc with
          | sendAfterTxn who t ts sn => exact h2 who t ts sn hpc
          | _ => rw [hpc] at hsend; simp [isSendAfterTxn] at hsend
        | load s1 m inst ts blob r _ _ _ _ _ _ _ h6 => rw [h6] at hsend; simp [isSendAfterTxn] at hsend
        | send r h1 h2 h3 h4 => exact ⟨r, _, _, Or.inr h1, h2, h3, h4⟩
        | bootNoSend env1 _ _ _ h4 _ =>
          exfalso
          cases hpc : s'.pc with
          | sendAfterTxn who t ts sn => exact h4 who t ts sn hpc
          | _ => rw [hpc] at hsend; simp [isSendAfterTxn] at hsend
        | bootSend env1 r h1 h2 h3 h4 h5 =>
          rw [hbe] at h2; injection h2 with h2; subst h2
          exact ⟨r, _, _, Or.inl h1, h3, h4, h5⟩
      obtain ⟨r, who, t, hpcold, hs, henv, hpc'⟩ := key
      obtain ⟨hre, habs, _, _⟩ := sendOnce_abs (cs j).txn (P.F j).st.env i.now 0 r (hn j) (hro j) hwfj hs
      have hd0 : delta (cs j) (P.F j) (.go i) = [] := by
        rcases delta_go (cs j) (P.F j) i with h0 | ⟨who', t', ts', sn', hpc0, _, _⟩
        · exact h0
        · rw [hpc0] at hsend; simp [isSendAfterTxn] at hsend
      rw [hd0, List.append_nil]
      obtain ⟨m1, m2, m3⟩ := l2 hpcold hsend.1
      have henv' : s'.env = (P.F j).st.env := by rw [henv, hre]
      rw [henv']
      have hsn : absSnap r.snap = absEnv (P.F j).st.env := funext habs
      refine
        { allApp := by rw [l1]; exact hJj.allApp, unpub := by rw [m1]; rfl,
          inflight := by rw [m2, hJj.inflight, hJj.unpub, List.map_append],
          published := by rw [m3]; exact hJj.published,
          subU := fun _ h => (by cases h), subI := ?_, subP := hJj.subP, nodup := hJj.nodup,
          idle := hJj.idle, cur := hJj.cur, own := hJj.own, pend := ?_, last := hJj.last }
      · intro t' ht'
        rcases List.mem_append.mp ht' with h | h
        · exact hJj.subI t' h
        · exact hJj.subU t' h
      · intro who' t' ts' sn' hpc''
        rw [hpc'] at hpc''
        injection hpc'' with _ _ _ e4
        subst e4
        refine ⟨(P.F j).st.env, rfl, hsn, by rw [hsn]; exact Abs.le_refl _, ?_, ?_⟩
        · intro x hx hi; rw [hsn]; exact hJj.own x hx hi
        · intro t' ht'
          rw [hsn]
          rcases List.mem_append.mp ht' with h | h
          · exact (hJj.cur t' (hJj.subI t' h)).2
          · exact (hJj.cur t' (hJj.subU t' h)).2
    | false =>
      simp only [Bool.false_eq_true, if_false]
      cases hstore : isStoreTr (P.F j).st.pc s'.pc with
      | true =>
        -- the dump is stored
        simp only [if_true]
        have hpcs : isSendAfterTxn (P.F j).st.pc = true ∧ isStoredPc s'.pc = true := by
          unfold isStoreTr at hstore; simpa using hstore
        obtain ⟨who', t', hpc'⟩ : ∃ who' t', s'.pc = .sendStored who' t' := by
          cases hpc : s'.pc with
          | sendStored who' t' => exact ⟨who', t', rfl⟩
          | _ => rw [hpc] at hpcs; simp [isStoredPc] at hpcs
        obtain ⟨who, t, ts, sn, hpcold, _, hbk⟩ := hstored who' t' hpc'
        have hd1 : delta (cs j) (P.F j) (.go i) = [{ inst := (cs j).own, ts := ts, snap := sn }] := by
          rw [hgob] at hbk
          exact List.append_cancel_left hbk
        rw [hd1]
        obtain ⟨m1, m2, m3⟩ := l3 hstore
        have henv' : s'.env = (P.F j).st.env := by
          cases hshape with
          | quiet h1 _ _ => exact h1
          | load s1 m inst ts' blob r h1 _ _ _ _ _ _ _ =>
            unfold prePoll at h1; rw [hpcold] at h1; cases h1
          | send r h1 _ _ _ => rw [hpcold] at h1; cases h1
          | bootNoSend env1 h1 _ _ _ _ => rw [hpcold] at h1; cases h1
          | bootSend env1 r h1 _ _ _ _ => rw [hpcold] at h1; cases h1
        rw [henv']
        obtain ⟨e0, a1, a2, a3, a4, a5⟩ := hJj.pend who t ts sn hpcold
        generalize hx' : ({ inst := (cs j).own, ts := ts, snap := sn } : Blob) = x'
        have hx'i : x'.inst = (cs j).own := by rw [← hx']
        have hx'c : blobDB x' = absSnap sn := by rw [← hx']; rfl
        refine
          { allApp := by rw [l1]; exact hJj.allApp, unpub := by rw [m1]; exact hJj.unpub,
            inflight := by rw [m2]; rfl,
            published := by rw [m3, hJj.published, hJj.inflight, List.map_append],
            subU := hJj.subU, subI := fun _ h => (by cases h), subP := ?_, nodup := hJj.nodup,
            idle := hJj.idle, cur := hJj.cur, own := ?_, pend := ?_, last := ?_ }
        · intro t'' ht''
          rcases List.mem_append.mp ht'' with h | h
          · exact hJj.subP t'' h
          · exact hJj.subI t'' h
        · intro x hx hi
          rcases List.mem_append.mp hx with hx | hx
          · exact hJj.own x hx hi
          · simp only [List.mem_singleton] at hx
            rw [hx, hx'c]; exact a3
        · intro who'' t'' ts'' sn'' hpc''
          rw [hpc'] at hpc''; cases hpc''
        · right
          refine ⟨x', e0, lastOwn_append_own hx'i, a1, by rw [hx'c]; exact a2, ?_⟩
          intro t'' ht''
          rw [hx'c]
          rcases List.mem_append.mp ht'' with h | h
          · rcases hJj.last with ⟨_, hnone⟩ | ⟨w, e1, hw, _, _, hcov⟩
            · rw [hnone] at h; cases h
            · obtain ⟨hwB, hwi⟩ := lastOwn_mem hw
              exact below_mono (hJj.cur t'' (hJj.subP t'' h)).1 (blobDB_wf w) (absSnap_wf sn)
                (a4 w hwB hwi) (hcov t'' h)
          · exact a5 t'' h
      | false =>
        -- any other segment
        simp only [Bool.false_eq_true, if_false]
        have hnotsend : isSendAfterTxn s'.pc = false := by
          cases hp : isSendAfterTxn s'.pc with
          | false => rfl
          | true =>
            -- then the old pc is sendAfterTxn too (no dump began), but no segment goes from
            -- sendAfterTxn to sendAfterTxn
            exfalso
            have hold : isSendAfterTxn (P.F j).st.pc = true := by
              unfold isDumpTr at hdump; simpa [hp] using hdump
            cases hshape with
            | quiet _ h2 _ =>
              cases hpc : s'.pc with
              | sendAfterTxn who t ts sn => exact h2 who t ts sn hpc
              | _ => rw [hpc] at hp; simp [isSendAfterTxn] at hp
            | load s1 m inst ts blob r _ _ _ _ _ _ _ h6 => rw [h6] at hp; simp [isSendAfterTxn] at hp
            | send r h1 _ _ _ => rw [h1] at hold; simp [isSendAfterTxn] at hold
            | bootNoSend env1 h1 _ _ _ _ => rw [h1] at hold; simp [isSendAfterTxn] at hold
            | bootSend env1 r h1 _ _ _ _ => rw [h1] at hold; simp [isSendAfterTxn] at hold
        have hd0 : delta (cs j) (P.F j) (.go i) = [] := by
          rcases delta_go (cs j) (P.F j) i with h0 | ⟨who, t, ts, sn, hpc0, _, hd1⟩
          · exact h0
          · exfalso
            -- a storing segment ends at `sendStored`
            have hstores : storesB (cs j) (P.F j).st i = true := by
              cases hb : storesB (cs j) (P.F j).st i with
              | true => rfl
              | false => simp [delta, hb] at hd1
            obtain ⟨_, _, hfails⟩ := (storesB_iff (cs j) (P.F j).st i).mp hstores
            have hraw := goRaw_sendAfterTxn (c := cs j) (b := (P.F j).bucket) (i := i) hpc0
            rw [if_neg (by rw [hro j]; simp), if_neg (by omega)] at hraw
            have gpc := (go_pc (cs j) (P.F j).bucket (P.F j).st i).1
            have : s'.pc = .sendStored who (if (P.F j).st.env.lastTxn < t then (P.F j).st.env.lastTxn else t) := by
              rw [← hs', hst, gpc, hraw]
            unfold isStoreTr at hstore
            rw [hpc0, this] at hstore
            simp [isSendAfterTxn, isStoredPc] at hstore
        rw [hd0, List.append_nil]
        obtain ⟨m1, m2, m3⟩ := l4 hnotsend hstore
        refine pinvJ_env hJj hwfj hwfj' hmj hlt l1 m1 m2 m3 ?_
        intro who t ts sn hpc
        rw [hpc] at hnotsend; simp [isSendAfterTxn] at hnotsend

/-! ## 3. schedules -/

/-- side conditions of a schedule: every event is an event of an instance of the fleet and
    satisfies `LoopOkN` in the state it is applied to -/
def PRunOk (cs : Nat → LoopCfg) (n : Nat) : Fleet → List (Nat × Ev) → Prop
  | _, [] => True
  | F, ke :: es => (ke.1 < n ∧ LoopOkN cs F ke) ∧ PRunOk cs n (fleetStep cs F ke) es

theorem pRunOk_loopRunOkN {cs : Nat → LoopCfg} {n : Nat} : ∀ (evs : List (Nat × Ev)) (F : Fleet),
    PRunOk cs n F evs → LoopRunOkN cs F evs := by
  intro evs
  induction evs with
  | nil => intro _ _; trivial
  | cons e es ih => intro F h; exact ⟨h.1.2, ih _ h.2⟩

theorem pinv_init (cs : Nat → LoopCfg) (n : Nat) (envs : Nat → Env) (hwf : ∀ j, EnvWF (envs j)) :
    PInv cs n (pinit envs) := by
  refine ⟨⟨_, relN_init cs n envs hwf⟩, ?_⟩
  intro j _
  exact
    { allApp := rfl, unpub := rfl, inflight := rfl, published := rfl,
      subU := fun _ h => (by cases h), subI := fun _ h => (by cases h), subP := fun _ h => (by cases h),
      nodup := List.nodup_nil, idle := fun _ h => (by cases h), cur := fun _ h => (by cases h),
      own := fun _ h => (by cases h),
      pend := fun who t ts sn h => (by simp [pinit, G.init, SyncLoop.init] at h),
      last := Or.inl ⟨rfl, rfl⟩ }

theorem pinv_run (cs : Nat → LoopCfg) (n : Nat) (hn : ∀ j, (cs j).txn.native = true)
    (hro : ∀ j, (cs j).txn.receiveOnly = false)
    (hown : ∀ i j, i < n → j < n → (cs i).own = (cs j).own → i = j) :
    ∀ (evs : List (Nat × Ev)) (P : PS), PInv cs n P → PRunOk cs n P.F evs → PInv cs n (prun cs P evs) := by
  intro evs
  induction evs with
  | nil => intro P h _; exact h
  | cons e es ih =>
    intro P h hok
    exact ih (pstep cs P e) (pinv_step cs n hn hro hown P e hok.1.1 h hok.1.2) hok.2

/-- **the newest own blob is a complete dump** (every admissible schedule, races included): the
    last blob of instance `j` in the bucket has exactly the logical content `j`'s environment had
    at the moment its dump began (`storedEnv`), lies below `j`'s present content, and covers
    every application write recorded before that dump began (`publishedW`) -/
theorem lastOwn_is_dump {cs : Nat → LoopCfg} {n : Nat} {P : PS} (h : PInv cs n P) {j : Nat} (hj : j < n)
    {w : Blob} (hw : lastOwn (P.F 0).bucket (cs j).own = some w) :
    ∃ e, (P.pg j).storedEnv = some e ∧ blobDB w = absEnv e ∧
      (blobDB w).le (absEnv (P.F j).st.env) ∧
      ∀ t ∈ (P.pg j).publishedW, Below t.2.2 t.2.1 (blobDB w) := by
  have hJ := h.2 j hj
  rcases hJ.last with ⟨hnone, _⟩ | ⟨w', e, hw', he, hc, hcov⟩
  · rw [hnone] at hw; cases hw
  · rw [hw] at hw'; injection hw' with hw'; subst hw'
    obtain ⟨hwB, hwi⟩ := lastOwn_mem hw
    exact ⟨e, he, hc, hJ.own w hwB hwi, hcov⟩

/-- **at an idle point of a race-free schedule every recorded write is published, or recent**:
    instance `j` idles (`pc = sleep`), is not in its start-up waiting set, and no recorded
    application transaction of `j` fell into the race window. Then every application write `j`
    ever recorded was recorded before the dump of the newest own blob began (`publishedW`) — and
    is therefore covered by that blob — or was recorded after the `beforeInfo` step of the
    iteration that just ended (`sinceInfo`: the next iteration uploads it). The invariant behind
    it is I2 (`Inv0.cover`, `Inv0.inflight`, `Inv1` at `sleep`: `Fresh`), not `Calm` alone. -/
theorem idle_covers (cs : Nat → LoopCfg) (n : Nat) (hn : ∀ j, (cs j).txn.native = true)
    (hro : ∀ j, (cs j).txn.receiveOnly = false)
    (hown : ∀ i j, i < n → j < n → (cs i).own = (cs j).own → i = j)
    (envs : Nat → Env) (hwf : ∀ j, EnvWF (envs j)) (evs : List (Nat × Ev))
    (hok : PRunOk cs n (fun j => G.init (envs j) []) evs) (j : Nat) (hj : j < n)
    (hrf : RaceFree (cs j) (envs j) [] (localEvs cs (fun j => G.init (envs j) []) evs j))
    (hidle : ((prun cs (pinit envs) evs).F j).st.pc = .sleep)
    (hwait : (cs j).own ∉ ((prun cs (pinit envs) evs).F j).st.waiting) :
    ∀ t ∈ ((prun cs (pinit envs) evs).pg j).allW,
      t.1 ∈ ((prun cs (pinit envs) evs).F j).gh.sinceInfo ∨
      (t ∈ ((prun cs (pinit envs) evs).pg j).publishedW ∧
        ∃ w e, lastOwn ((prun cs (pinit envs) evs).F 0).bucket (cs j).own = some w ∧
          ((prun cs (pinit envs) evs).pg j).storedEnv = some e ∧ blobDB w = absEnv e ∧
          Below t.2.2 t.2.1 (blobDB w)) := by
  have hinv := pinv_run cs n hn hro hown evs (pinit envs) (pinv_init cs n envs hwf) hok
  generalize hP : prun cs (pinit envs) evs = P at hinv hidle hwait ⊢
  have hF : P.F j = run (cs j) (envs j) [] (localEvs cs (fun j => G.init (envs j) []) evs j) := by
    rw [← hP, prun_F]
    exact fleetRun_local cs _ evs j
  have h0 : Inv0 (cs j) (P.F j) := by rw [hF]; exact inv0_run _ _ _ _
  have h1 : Inv1 (cs j) (P.F j) := by rw [hF]; exact inv1_run hrf
  have hJ := hinv.2 j hj
  intro t ht
  have hid : t.1 ∈ (P.F j).gh.allApp := by
    rw [hJ.allApp]; exact List.mem_map_of_mem ht
  have hI2 : t.1 ∈ (P.F j).gh.published ∨ t.1 ∈ (P.F j).gh.sinceInfo := by
    unfold Inv1 at h1
    rw [hidle] at h1
    have hin := h0.inflight (hro j) (by rw [hidle]; rfl)
    rcases h0.cover t.1 hid with h | h | h
    · exact Or.inr (h1.2 hwait t.1 h)
    · rw [hin] at h; cases h
    · exact Or.inl h
  rcases hI2 with hpub | hsince
  · right
    rw [hJ.published] at hpub
    obtain ⟨t', ht', hte⟩ := List.mem_map.mp hpub
    have : t' = t := Cleaner.eq_of_nodup_map (·.1) hJ.nodup (hJ.subP t' ht') ht hte
    subst this
    refine ⟨ht', ?_⟩
    rcases hJ.last with ⟨_, hnone⟩ | ⟨w, e, hw, he, hc, hcov⟩
    · rw [hnone] at ht'; cases ht'
    · exact ⟨w, e, hw, he, hc, hcov t' ht'⟩
  · exact Or.inl hsince

end Ls.Loop
