import LsModel.Receiver
/-
  Receiver model, basic lemmas: association lists, `mkLastSeen`, the notification loop of
  `RunOnce`, inversion of `step`. Core Lean only.
-/
namespace Ls.Recv

namespace AL
variable {κ : Type} [DecidableEq κ] {α : Type}

@[simp] theorem get_nil (k : κ) : get ([] : List (κ × α)) k = none := rfl

theorem get_cons (k' : κ) (v : α) (r : List (κ × α)) (k : κ) :
    get ((k', v) :: r) k = if k' = k then some v else get r k := rfl

theorem get_set_self (l : List (κ × α)) (k : κ) (v : α) : get (set l k v) k = some v := by
  induction l with
  | nil => simp [set, get]
  | cons e r ih =>
    obtain ⟨k', v'⟩ := e
    by_cases h : k' = k <;> simp [set, get, h, ih]

theorem get_set_ne (l : List (κ × α)) {k k' : κ} (v : α) (h : k' ≠ k) : get (set l k v) k' = get l k' := by
  induction l with
  | nil => simp [set, get, Ne.symm h]
  | cons e r ih =>
    obtain ⟨k0, v0⟩ := e
    by_cases h0 : k0 = k
    · subst h0; simp [set, get, Ne.symm h]
    · by_cases h1 : k0 = k'
      · subst h1; simp [set, get, h0]
      · simp [set, get, h0, h1, ih]

theorem get_set (l : List (κ × α)) (k k' : κ) (v : α) :
    get (set l k v) k' = if k' = k then some v else get l k' := by
  by_cases h : k' = k
  · subst h; simp [get_set_self]
  · simp [h, get_set_ne]

theorem get_erase_ne (l : List (κ × α)) {k k' : κ} (h : k' ≠ k) : get (erase l k) k' = get l k' := by
  induction l with
  | nil => rfl
  | cons e r ih =>
    obtain ⟨k0, v0⟩ := e
    by_cases h0 : k0 = k
    · subst h0; simp [erase, get, Ne.symm h]
    · by_cases h1 : k0 = k'
      · subst h1; simp [erase, get, h0]
      · simp [erase, get, h0, h1, ih]

theorem get_some_mem {l : List (κ × α)} {k : κ} {v : α} (h : get l k = some v) : (k, v) ∈ l := by
  induction l with
  | nil => simp at h
  | cons e r ih =>
    obtain ⟨k0, v0⟩ := e
    by_cases h0 : k0 = k
    · subst h0; simp [get] at h; simp [h]
    · simp [get, h0] at h; exact List.mem_cons_of_mem _ (ih h)

theorem get_none_iff {l : List (κ × α)} {k : κ} : get l k = none ↔ k ∉ l.map Prod.fst := by
  induction l with
  | nil => simp
  | cons e r ih =>
    obtain ⟨k0, v0⟩ := e
    by_cases h0 : k0 = k
    · subst h0; simp [get]
    · simp [get, h0, ih, Ne.symm h0]

theorem get_isSome_iff {l : List (κ × α)} {k : κ} : (get l k).isSome ↔ k ∈ l.map Prod.fst := by
  have := get_none_iff (l := l) (k := k)
  cases h : get l k <;> simp_all

theorem mem_get_of_nodup {l : List (κ × α)} (hn : (l.map Prod.fst).Nodup) {k : κ} {v : α}
    (h : (k, v) ∈ l) : get l k = some v := by
  induction l with
  | nil => simp at h
  | cons e r ih =>
    obtain ⟨k0, v0⟩ := e
    simp only [List.map_cons, List.nodup_cons] at hn
    rcases List.mem_cons.mp h with h | h
    · cases h; simp [get]
    · have : k0 ≠ k := by
        intro hk; subst hk
        exact hn.1 (List.mem_map.mpr ⟨_, h, rfl⟩)
      simp [get, this, ih hn.2 h]

theorem mem_set {l : List (κ × α)} {k : κ} {v : α} {e : κ × α} (h : e ∈ set l k v) : e = (k, v) ∨ e ∈ l := by
  induction l with
  | nil => simp [set] at h; exact Or.inl h
  | cons e0 r ih =>
    obtain ⟨k0, v0⟩ := e0
    by_cases h0 : k0 = k
    · simp [set, h0] at h
      rcases h with h | h
      · exact Or.inl h
      · exact Or.inr (List.mem_cons_of_mem _ h)
    · simp only [set, h0, if_false, List.mem_cons] at h
      rcases h with h | h
      · exact Or.inr (h ▸ List.mem_cons_self)
      · rcases ih h with h | h
        · exact Or.inl h
        · exact Or.inr (List.mem_cons_of_mem _ h)

theorem mem_erase {l : List (κ × α)} {k : κ} {e : κ × α} (h : e ∈ erase l k) : e ∈ l := by
  induction l with
  | nil => simp [erase] at h
  | cons e0 r ih =>
    obtain ⟨k0, v0⟩ := e0
    by_cases h0 : k0 = k
    · simp [erase, h0] at h; exact List.mem_cons_of_mem _ h
    · simp only [erase, h0, if_false, List.mem_cons] at h
      rcases h with h | h
      · exact h ▸ List.mem_cons_self
      · exact List.mem_cons_of_mem _ (ih h)

theorem keys_set (l : List (κ × α)) (k : κ) (v : α) :
    (set l k v).map Prod.fst = if (get l k).isSome then l.map Prod.fst else l.map Prod.fst ++ [k] := by
  induction l with
  | nil => simp [set, get]
  | cons e r ih =>
    obtain ⟨k0, v0⟩ := e
    by_cases h0 : k0 = k
    · subst h0; simp [set, get]
    · simp only [set, h0, if_false, List.map_cons, get, ih]
      split <;> simp

theorem nodup_set {l : List (κ × α)} (hn : (l.map Prod.fst).Nodup) (k : κ) (v : α) :
    ((set l k v).map Prod.fst).Nodup := by
  rw [keys_set]
  split
  · exact hn
  · rename_i h
    have hk : k ∉ l.map Prod.fst := by
      rw [← get_isSome_iff]; exact h
    rw [List.nodup_append]
    refine ⟨hn, by simp, ?_⟩
    intro a ha b hb
    simp at hb; subst hb
    intro hab; subst hab; exact hk ha

theorem length_set (l : List (κ × α)) (k : κ) (v : α) :
    (set l k v).length = l.length + (if (get l k).isSome then 0 else 1) := by
  induction l with
  | nil => simp [set, get]
  | cons e r ih =>
    obtain ⟨k0, v0⟩ := e
    by_cases h0 : k0 = k
    · subst h0; simp [set, get]
    · simp only [set, h0, if_false, List.length_cons, get, ih]; omega

theorem length_erase {l : List (κ × α)} {k : κ} {v : α} (h : get l k = some v) :
    (erase l k).length + 1 = l.length := by
  induction l with
  | nil => simp at h
  | cons e r ih =>
    obtain ⟨k0, v0⟩ := e
    by_cases h0 : k0 = k
    · subst h0; simp [erase]
    · simp only [get, h0, if_false] at h
      simp [erase, h0, ih h]

theorem count_set_some (p : α → Bool) {l : List (κ × α)} {k : κ} {v : α} (v' : α) (h : get l k = some v) :
    count p (set l k v') + (if p v then 1 else 0) = count p l + (if p v' then 1 else 0) := by
  induction l with
  | nil => simp at h
  | cons e r ih =>
    obtain ⟨k0, v0⟩ := e
    by_cases h0 : k0 = k
    · subst h0
      simp only [get, if_true, Option.some.injEq] at h; subst h
      simp only [set, if_true, count]; omega
    · simp only [get, h0, if_false] at h
      have := ih h
      simp only [set, h0, if_false, count]; omega

theorem count_set_none (p : α → Bool) {l : List (κ × α)} {k : κ} (v' : α) (h : get l k = none) :
    count p (set l k v') = count p l + (if p v' then 1 else 0) := by
  induction l with
  | nil => simp [set, count]
  | cons e r ih =>
    obtain ⟨k0, v0⟩ := e
    by_cases h0 : k0 = k
    · subst h0; simp [get] at h
    · simp only [get, h0, if_false] at h
      have := ih h
      simp only [set, h0, if_false, count]; omega

omit [DecidableEq κ] in
theorem count_pos {p : α → Bool} {l : List (κ × α)} (h : 0 < count p l) : ∃ k v, (k, v) ∈ l ∧ p v = true := by
  induction l with
  | nil => simp [count] at h
  | cons e r ih =>
    obtain ⟨k0, v0⟩ := e
    by_cases hp : p v0 = true
    · exact ⟨k0, v0, List.mem_cons_self, hp⟩
    · simp only [count, hp, Bool.false_eq_true, if_false, Nat.zero_add] at h
      obtain ⟨k, v, hm, hv⟩ := ih h
      exact ⟨k, v, List.mem_cons_of_mem _ hm, hv⟩

omit [DecidableEq κ] in
theorem count_zero {p : α → Bool} {l : List (κ × α)} (h : ∀ e ∈ l, p e.2 = false) : count p l = 0 := by
  induction l with
  | nil => rfl
  | cons e r ih =>
    obtain ⟨k0, v0⟩ := e
    have h0 := h (k0, v0) List.mem_cons_self
    simp only at h0
    simp [count, h0, ih (fun e he => h e (List.mem_cons_of_mem _ he))]

end AL

variable {ι : Type} [DecidableEq ι]

/-! ### `mkLastSeen` -/

theorem get_upsertMax (l : List (ι × Nat)) (d : ι) (t : Nat) (d' : ι) :
    AL.get (upsertMax l d t) d' =
      if d' = d then (match AL.get l d with | none => some t | some t0 => some (max t0 t)) else AL.get l d' := by
  unfold upsertMax
  by_cases h : d' = d
  · subst h
    cases h0 : AL.get l d' with
    | none => simp [AL.get_set_self]
    | some t0 =>
      simp only [if_true]
      by_cases hle : t0 ≤ t
      · simp [hle, AL.get_set_self, Nat.max_eq_right hle]
      · simp [hle, h0, Nat.max_eq_left (Nat.le_of_not_le hle)]
  · cases h0 : AL.get l d with
    | none => simp [h, AL.get_set_ne]
    | some t0 =>
      simp only [h, if_false]
      by_cases hle : t0 ≤ t <;> simp [hle, h, AL.get_set_ne]

/-- `t` is the largest timestamp of instance `d` among `names` -/
def MaxOf (names : List (ι × Nat)) (d : ι) (t : Nat) : Prop :=
  (d, t) ∈ names ∧ ∀ t', (d, t') ∈ names → t' ≤ t

theorem foldl_upsertMax_spec (names : List (ι × Nat)) (acc : List (ι × Nat)) (d : ι) :
    (AL.get (names.foldl (fun acc n => upsertMax acc n.1 n.2) acc) d = none ↔
      AL.get acc d = none ∧ ∀ t, (d, t) ∉ names) ∧
    (∀ t, AL.get (names.foldl (fun acc n => upsertMax acc n.1 n.2) acc) d = some t →
      (AL.get acc d = some t ∨ (d, t) ∈ names) ∧
      (∀ t0, AL.get acc d = some t0 → t0 ≤ t) ∧ ∀ t', (d, t') ∈ names → t' ≤ t) := by
  induction names generalizing acc with
  | nil =>
    constructor
    · simp
    · intro t ht
      simp only [List.foldl_nil] at ht
      exact ⟨Or.inl ht, fun t0 h0 => by rw [ht] at h0; cases h0; exact Nat.le_refl _, by simp⟩
  | cons n r ih =>
    obtain ⟨d0, t0⟩ := n
    simp only [List.foldl_cons]
    have ih' := ih (upsertMax acc d0 t0)
    rw [get_upsertMax] at ih'
    by_cases hd : d = d0
    · subst hd
      simp only [if_true] at ih'
      constructor
      · rw [ih'.1]
        constructor
        · intro ⟨h1, _⟩; cases h : AL.get acc d <;> simp [h] at h1
        · intro ⟨_, h2⟩; exact absurd List.mem_cons_self (h2 t0)
      · intro t ht
        obtain ⟨h1, h2, h3⟩ := ih'.2 t ht
        cases h : AL.get acc d with
        | none =>
          simp only [h] at h1 h2
          refine ⟨?_, by simp, ?_⟩
          · rcases h1 with h1 | h1
            · simp at h1; subst h1; exact Or.inr List.mem_cons_self
            · exact Or.inr (List.mem_cons_of_mem _ h1)
          · intro t' ht'
            rcases List.mem_cons.mp ht' with h' | h'
            · cases h'; exact h2 _ rfl
            · exact h3 _ h'
        | some ta =>
          simp only [h] at h1 h2
          have hm := h2 _ rfl
          refine ⟨?_, ?_, ?_⟩
          · rcases h1 with h1 | h1
            · simp only [Option.some.injEq] at h1
              by_cases hle : ta ≤ t0
              · rw [Nat.max_eq_right hle] at h1; subst h1; exact Or.inr List.mem_cons_self
              · rw [Nat.max_eq_left (Nat.le_of_not_le hle)] at h1; subst h1; exact Or.inl rfl
            · exact Or.inr (List.mem_cons_of_mem _ h1)
          · intro tb hb; simp only [Option.some.injEq] at hb; subst hb
            exact Nat.le_trans (Nat.le_max_left _ _) hm
          · intro t' ht'
            rcases List.mem_cons.mp ht' with h' | h'
            · cases h'; exact Nat.le_trans (Nat.le_max_right _ _) hm
            · exact h3 _ h'
    · simp only [hd, if_false] at ih'
      have hne : ∀ t, (d, t) ∈ (d0, t0) :: r ↔ (d, t) ∈ r := by
        intro t; simp [hd]
      constructor
      · rw [ih'.1]; simp [hne]
      · intro t ht
        obtain ⟨h1, h2, h3⟩ := ih'.2 t ht
        refine ⟨?_, h2, ?_⟩
        · rcases h1 with h1 | h1
          · exact Or.inl h1
          · exact Or.inr ((hne t).mpr h1)
        · intro t' ht'; exact h3 _ ((hne t').mp ht')

theorem mkLastSeen_some {names : List (ι × Nat)} {d : ι} {t : Nat} :
    AL.get (mkLastSeen names) d = some t ↔ MaxOf names d t := by
  have h := foldl_upsertMax_spec names [] d
  constructor
  · intro ht
    obtain ⟨h1, _, h3⟩ := h.2 t ht
    simp at h1
    exact ⟨h1, h3⟩
  · intro ⟨hm, hmax⟩
    cases hg : AL.get (mkLastSeen names) d with
    | none =>
      have := (h.1.mp hg).2 t
      exact absurd hm this
    | some t1 =>
      obtain ⟨h1, _, h3⟩ := h.2 t1 hg
      simp at h1
      have a := hmax _ h1
      have b := h3 _ hm
      have : t1 = t := Nat.le_antisymm a b
      rw [this]

theorem mkLastSeen_none {names : List (ι × Nat)} {d : ι} :
    AL.get (mkLastSeen names) d = none ↔ ∀ t, (d, t) ∉ names := by
  have h := (foldl_upsertMax_spec names [] d).1
  simp at h
  exact h

omit [DecidableEq ι] in
theorem MaxOf.unique {names : List (ι × Nat)} {d : ι} {t t' : Nat} (h : MaxOf names d t) (h' : MaxOf names d t') :
    t = t' := Nat.le_antisymm (h'.2 _ h.1) (h.2 _ h'.1)

end Ls.Recv
