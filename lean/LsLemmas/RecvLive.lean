import LsLemmas.RecvProgress
/-
  Receiver model: notification bookkeeping (`InvM`: a foreign instance whose `lastSeen` differs
  from what its downloader processed has a busy downloader), what `last` means (`InvD`), and the
  construction of a fault-free continuation that delivers every foreign instance's newest
  decodable snapshot. Core Lean only.
-/
namespace Ls.Recv
variable {ι : Type} [DecidableEq ι]

/-- Environment assumption for the liveness results: a `put` never re-creates the name that was
    last notified for its instance (implied by: an instance publishes with increasing
    timestamps and names are never reused). -/
def NoResurrect : St ι → Step ι → Prop
  | s, .put b => AL.get s.lastNotified b.inst ≠ some b.ts
  | _, _ => True

theorem step_own {s s' : St ι} {x : Step ι} (h : step s x = some s') :
    s'.own = s.own ∧ s'.dlLimit = s.dlLimit ∧ s'.dcLimit = s.dcLimit := by
  by_cases hf : x.fair = true
  · obtain ⟨_, _, _, _, h1, h2, h3, _⟩ := fair_frame hf h
    exact ⟨h1, h2, h3⟩
  · cases x with
    | runOnce inc ok =>
      have e := step_runOnce h
      cases ok with
      | false => subst e; exact ⟨rfl, rfl, rfl⟩
      | true => simp only [if_true] at e; subst e; rw [runOnce_frame]; exact ⟨rfl, rfl, rfl⟩
    | put b => rw [step_put h]; exact ⟨rfl, rfl, rfl⟩
    | rm d t => rw [step_rm h]; exact ⟨rfl, rfl, rfl⟩
    | load d r =>
      obtain ⟨x, t, _, _, hc⟩ := step_load h
      rcases hc with ⟨_, b, _, rfl⟩ | ⟨_, rfl⟩ <;> exact ⟨rfl, rfl, rfl⟩
    | _ => simp [Step.fair] at hf

/-! ### notification bookkeeping -/

structure InvM (s : St ι) : Prop where
  /-- what a foreign instance's `lastSeen` is has been notified -/
  n : ∀ d t, d ≠ s.own → AL.get s.lastSeen d = some t → AL.get s.lastNotified d = some t
  /-- a foreign instance without listed names: the name last notified is gone or ignored -/
  k : ∀ d t, d ≠ s.own → AL.get s.lastSeen d = none → AL.get s.lastNotified d = some t →
        (∀ b ∈ s.bucket, b.name ≠ (d, t)) ∨ (d, t) ∈ s.ignored
  /-- an unsignalled downloader works on the current `lastSeen` (or the instance has none) -/
  p : ∀ d x t, d ≠ s.own → getDl s d = some x → x.pc.ts? = some t → x.signal = false →
        AL.get s.lastSeen d = some t ∨ AL.get s.lastSeen d = none
  /-- the downloader of a foreign instance has processed `lastSeen` or is busy -/
  m : ∀ d t, d ≠ s.own → AL.get s.lastSeen d = some t →
        ∃ x, getDl s d = some x ∧ (x.last = some t ∨ x.busy = true)

theorem invM_init (own : ι) (a b : Nat) : InvM (init own a b) := by
  constructor <;> simp [init, getDl]

theorem invM_dl {s s' : St ι} {d : ι} {x x' : Dl} (hi : InvM s) (hx : getDl s d = some x)
    (ho : s'.own = s.own) (hs : s'.lastSeen = s.lastSeen) (hn : s'.lastNotified = s.lastNotified)
    (hb : s'.bucket = s.bucket) (hig : s'.ignored = s.ignored)
    (hg : ∀ d0, getDl s' d0 = if d0 = d then some x' else getDl s d0)
    (hp : x'.pc.ts? = none ∨ (x'.pc.ts? = x.pc.ts? ∧ x'.signal = x.signal) ∨
          (∃ t, x'.pc.ts? = some t ∧ AL.get s.lastSeen d = some t))
    (hm : d ≠ s.own → x'.busy = true ∨ ∀ t, AL.get s.lastSeen d = some t → x'.last = some t) : InvM s' := by
  refine ⟨?_, ?_, ?_, ?_⟩
  · intro d0 t hd0 h; rw [ho] at hd0; rw [hs] at h; rw [hn]; exact hi.n d0 t hd0 h
  · intro d0 t hd0 h1 h2; rw [ho] at hd0; rw [hs] at h1; rw [hn] at h2; rw [hb, hig]; exact hi.k d0 t hd0 h1 h2
  · intro d0 y t hd0 hy hyt hys
    rw [ho] at hd0; rw [hs]; rw [hg] at hy
    by_cases e : d0 = d
    · subst e
      simp only [if_true, Option.some.injEq] at hy
      subst hy
      rcases hp with hp | ⟨hp1, hp2⟩ | ⟨t', hp1, hp2⟩
      · rw [hp] at hyt; cases hyt
      · rw [hp1] at hyt; rw [hp2] at hys; exact hi.p d0 x t hd0 hx hyt hys
      · rw [hp1] at hyt; cases hyt; exact Or.inl hp2
    · simp only [e, if_false] at hy
      exact hi.p d0 y t hd0 hy hyt hys
  · intro d0 t hd0 h
    rw [ho] at hd0; rw [hs] at h; rw [hg]
    by_cases e : d0 = d
    · subst e
      refine ⟨x', by simp, ?_⟩
      rcases hm hd0 with hm | hm
      · exact Or.inr hm
      · exact Or.inl (hm t h)
    · obtain ⟨y, hy, hyp⟩ := hi.m d0 t hd0 h
      exact ⟨y, by simp [e, hy], hyp⟩

theorem busy_of_pc {x : Dl} (h : x.pc ≠ .idle) : x.busy = true := by
  simp [Dl.busy, h]

theorem invM_step {s s' : St ι} {x : Step ι} (hi : InvM s) (hok : NoResurrect s x)
    (h : step s x = some s') : InvM s' := by
  cases x with
  | runOnce inc ok =>
    have e := step_runOnce h
    cases ok with
    | false => subst e; exact hi
    | true =>
      simp only [if_true] at e
      subst e
      have hf := runOnce_frame inc s
      have hown : (runOnce inc s).own = s.own := by rw [hf]
      have hseen : (runOnce inc s).lastSeen = seenOf s := by rw [hf]
      -- for a foreign instance: notified iff the listing differs from what was notified
      have hN : ∀ d, d ≠ s.own → ∀ t, AL.get (seenOf s) d = some t → ¬NotifR inc s d →
          AL.get s.lastNotified d = some t := by
        intro d hd t ht hnn
        by_cases e : AL.get s.lastNotified d = some t
        · exact e
        · exact absurd ⟨t, ht, e, fun hh => hd hh.2⟩ hnn
      -- an un-notified foreign instance with a listed name had the same `lastSeen` before
      have hSame : ∀ d, d ≠ s.own → ∀ t, AL.get (seenOf s) d = some t → ¬NotifR inc s d →
          AL.get s.lastSeen d = some t := by
        intro d hd t ht hnn
        have hln := hN d hd t ht hnn
        cases hold : AL.get s.lastSeen d with
        | some t0 =>
          have := hi.n d t0 hd hold
          rw [hln] at this; rw [this]
        | none =>
          obtain ⟨⟨b, hb, hbn⟩, hni, _⟩ := seenOf_some.mp ht
          rcases hi.k d t hd hold hln with hk | hk
          · exact absurd hbn (hk b hb)
          · exact absurd (mem_ignoredNow.mpr (Or.inl hk)) hni
      refine ⟨?_, ?_, ?_, ?_⟩
      · intro d t hd ht
        rw [hown] at hd; rw [hseen] at ht
        by_cases hnn : NotifR inc s d
        · rw [((runOnce_spec inc s d).1 hnn).1]; exact ht
        · rw [((runOnce_spec inc s d).2 hnn).1]; exact hN d hd t ht hnn
      · intro d t hd h1 h2
        rw [hown] at hd; rw [hseen] at h1
        have hb : (runOnce inc s).bucket = s.bucket := by rw [hf]
        have hig : (runOnce inc s).ignored = ignoredNow s := by rw [hf]
        rw [hb, hig]
        by_cases hm : (d, t) ∈ ignoredNow s
        · exact Or.inr hm
        · left
          intro b hbm hbn
          have h1' := seenOf_none.mp h1 b hbm (by simp [Blob.name] at hbn; exact hbn.1)
          rw [hbn] at h1'; exact hm h1'
      · intro d y t hd hy hyt hys
        rw [hown] at hd; rw [hseen]
        by_cases hnn : NotifR inc s d
        · rw [((runOnce_spec inc s d).1 hnn).2] at hy
          cases hy; simp at hys
        · rw [((runOnce_spec inc s d).2 hnn).2] at hy
          cases hnew : AL.get (seenOf s) d with
          | none => exact Or.inr rfl
          | some t' =>
            left
            have hold := hSame d hd t' hnew hnn
            rcases hi.p d y t hd hy hyt hys with hp | hp
            · rw [hold] at hp; exact hp
            · rw [hold] at hp; cases hp
      · intro d t hd ht
        rw [hown] at hd; rw [hseen] at ht
        by_cases hnn : NotifR inc s d
        · rw [((runOnce_spec inc s d).1 hnn).2]
          exact ⟨_, rfl, Or.inr (by simp [Dl.busy])⟩
        · rw [((runOnce_spec inc s d).2 hnn).2]
          exact hi.m d t hd (hSame d hd t ht hnn)
  | wake d =>
    obtain ⟨x, hx, hpc, _, rfl⟩ := step_wake h
    exact invM_dl hi hx rfl rfl rfl rfl rfl (fun d0 => getDl_setDl s d d0 _) (Or.inl rfl)
      (fun _ => Or.inl (busy_of_pc (by simp)))
  | check d =>
    obtain ⟨x, hx, hpc, hc⟩ := step_check h
    rcases hc with ⟨hc, rfl⟩ | ⟨t, hs, _, rfl⟩
    · refine invM_dl hi hx rfl rfl rfl rfl rfl (fun d0 => getDl_setDl s d d0 _) (Or.inl rfl) (fun _ => Or.inr ?_)
      intro t ht
      rcases hc with hc | ⟨t0, h1, h2⟩
      · rw [hc] at ht; cases ht
      · rw [h1] at ht; cases ht; exact h2
    · exact invM_dl hi hx rfl rfl rfl rfl rfl (fun d0 => getDl_setDl s d d0 _) (Or.inr (Or.inr ⟨t, rfl, hs⟩))
        (fun _ => Or.inl (busy_of_pc (by simp)))
  | acqDl d =>
    obtain ⟨x, t, hx, hpc, _, rfl⟩ := step_acqDl h
    exact invM_dl hi hx rfl rfl rfl rfl rfl (fun d0 => getDl_setDl s d d0 _)
      (Or.inr (Or.inl ⟨by rw [hpc]; rfl, rfl⟩)) (fun _ => Or.inl (busy_of_pc (by simp)))
  | load d r =>
    obtain ⟨x, t, hx, hpc, hc⟩ := step_load h
    rcases hc with ⟨_, b, _, rfl⟩ | ⟨_, rfl⟩
    · exact invM_dl hi hx rfl rfl rfl rfl rfl (fun d0 => getDl_setDl s d d0 _)
        (Or.inr (Or.inl ⟨by rw [hpc]; rfl, rfl⟩)) (fun _ => Or.inl (busy_of_pc (by simp)))
    · exact invM_dl hi hx rfl rfl rfl rfl rfl (fun d0 => getDl_setDl s d d0 _) (Or.inl rfl)
        (fun _ => Or.inl (busy_of_pc (by simp)))
  | acqDc d =>
    obtain ⟨x, t, bad, hx, hpc, _, rfl⟩ := step_acqDc h
    exact invM_dl hi hx rfl rfl rfl rfl rfl (fun d0 => getDl_setDl s d d0 _)
      (Or.inr (Or.inl ⟨by rw [hpc]; rfl, rfl⟩)) (fun _ => Or.inl (busy_of_pc (by simp)))
  | decode d =>
    obtain ⟨x, t, bad, hx, hpc, hc⟩ := step_decode h
    rcases hc with ⟨_, rfl⟩ | ⟨_, rfl⟩
    · exact invM_dl hi hx rfl rfl rfl rfl rfl (fun d0 => getDl_setDl s d d0 _) (Or.inl rfl)
        (fun _ => Or.inl (busy_of_pc (by simp)))
    · refine invM_dl hi hx rfl rfl rfl rfl rfl (fun d0 => getDl_setDl s d d0 _) (Or.inl rfl) ?_
      intro hd
      cases hsig : x.signal with
      | true => exact Or.inl (by simp [Dl.busy])
      | false =>
        right
        intro t' ht'
        rcases hi.p d x t hd hx (by rw [hpc]; rfl) hsig with hp | hp
        · rw [hp] at ht'; cases ht'; rfl
        · rw [hp] at ht'; cases ht'
  | retry d =>
    obtain ⟨x, hx, hpc, rfl⟩ := step_retry h
    exact invM_dl hi hx rfl rfl rfl rfl rfl (fun d0 => getDl_setDl s d d0 _) (Or.inl rfl)
      (fun _ => Or.inl (busy_of_pc (by simp)))
  | next d =>
    obtain ⟨_, t, _, rfl⟩ := step_next h
    exact ⟨hi.n, hi.k, hi.p, hi.m⟩
  | close =>
    obtain ⟨n, _, rfl⟩ := step_close h
    exact ⟨hi.n, hi.k, hi.p, hi.m⟩
  | put b =>
    rw [step_put h]
    refine ⟨hi.n, ?_, hi.p, hi.m⟩
    intro d t hd h1 h2
    rcases hi.k d t hd h1 h2 with hk | hk
    · left
      intro b0 hb0
      rcases List.mem_cons.mp hb0 with e | hm
      · subst e
        intro hbn
        have e1 : b0.inst = d := by simp [Blob.name] at hbn; exact hbn.1
        have e2 : b0.ts = t := by simp [Blob.name] at hbn; exact hbn.2
        apply hok
        show AL.get s.lastNotified b0.inst = some b0.ts
        rw [e1, e2]; exact h2
      · exact hk b0 (List.mem_filter.mp hm).1
    · exact Or.inr hk
  | rm d t =>
    rw [step_rm h]
    refine ⟨hi.n, ?_, hi.p, hi.m⟩
    intro d0 t0 hd h1 h2
    rcases hi.k d0 t0 hd h1 h2 with hk | hk
    · exact Or.inl (fun b0 hb0 => hk b0 (List.mem_filter.mp hb0).1)
    · exact Or.inr hk

/-! ### what `last` means -/

/-- the name a downloader processed last was marked corrupt, is pending, or was delivered -/
def InvD (s : St ι) : Prop :=
  ∀ d x t, getDl s d = some x → x.last = some t →
    (d, t) ∈ s.corrupt ∨ AL.get s.pending d = some t ∨ (d, t) ∈ s.delivered

theorem invD_init (own : ι) (a b : Nat) : InvD (init own a b) := by
  intro d x t hx; simp [init, getDl] at hx

theorem invD_dl {s s' : St ι} {d : ι} {x x' : Dl} (hi : InvD s) (hx : getDl s d = some x)
    (hc : s'.corrupt = s.corrupt) (hp : s'.pending = s.pending) (hd : s'.delivered = s.delivered)
    (hg : ∀ d0, getDl s' d0 = if d0 = d then some x' else getDl s d0) (hl : x'.last = x.last) : InvD s' := by
  intro d0 y t hy hyl
  rw [hc, hp, hd]; rw [hg] at hy
  by_cases e : d0 = d
  · subst e
    simp only [if_true, Option.some.injEq] at hy
    subst hy; rw [hl] at hyl
    exact hi d0 x t hx hyl
  · simp only [e, if_false] at hy
    exact hi d0 y t hy hyl

theorem invD_step {s s' : St ι} {x : Step ι} (hi : InvD s) (h : step s x = some s') : InvD s' := by
  cases x with
  | runOnce inc ok =>
    have e := step_runOnce h
    cases ok with
    | false => subst e; exact hi
    | true =>
      simp only [if_true] at e
      subst e
      have hf := runOnce_frame inc s
      intro d y t hy hyl
      have h1 : (runOnce inc s).corrupt = s.corrupt := by rw [hf]
      have h2 : (runOnce inc s).pending = s.pending := by rw [hf]
      have h3 : (runOnce inc s).delivered = s.delivered := by rw [hf]
      rw [h1, h2, h3]
      rcases runOnce_dl inc s d with hd | hd
      · rw [hd] at hy; exact hi d y t hy hyl
      · rw [hd] at hy
        cases hg : getDl s d with
        | none => rw [hg] at hy; cases hy; simp at hyl
        | some z => rw [hg] at hy; cases hy; exact hi d z t hg hyl
  | wake d =>
    obtain ⟨x, hx, _, _, rfl⟩ := step_wake h
    exact invD_dl hi hx rfl rfl rfl (fun d0 => getDl_setDl s d d0 _) rfl
  | check d =>
    obtain ⟨x, hx, _, hc⟩ := step_check h
    rcases hc with ⟨_, rfl⟩ | ⟨t, _, _, rfl⟩
    · exact invD_dl hi hx rfl rfl rfl (fun d0 => getDl_setDl s d d0 _) rfl
    · exact invD_dl hi hx rfl rfl rfl (fun d0 => getDl_setDl s d d0 _) rfl
  | acqDl d =>
    obtain ⟨x, t, hx, _, _, rfl⟩ := step_acqDl h
    exact invD_dl hi hx rfl rfl rfl (fun d0 => getDl_setDl s d d0 _) rfl
  | load d r =>
    obtain ⟨x, t, hx, _, hc⟩ := step_load h
    rcases hc with ⟨_, b, _, rfl⟩ | ⟨_, rfl⟩
    · exact invD_dl hi hx rfl rfl rfl (fun d0 => getDl_setDl s d d0 _) rfl
    · exact invD_dl hi hx rfl rfl rfl (fun d0 => getDl_setDl s d d0 _) rfl
  | acqDc d =>
    obtain ⟨x, t, bad, hx, _, _, rfl⟩ := step_acqDc h
    exact invD_dl hi hx rfl rfl rfl (fun d0 => getDl_setDl s d d0 _) rfl
  | decode d =>
    obtain ⟨x, t, bad, hx, hpc, hc⟩ := step_decode h
    rcases hc with ⟨_, hs'⟩ | ⟨_, hs'⟩
    · have hg : ∀ d0, getDl s' d0 = if d0 = d then some { x with last := some t, pc := .backoff } else getDl s d0 := by
        intro d0; rw [hs']; exact getDl_setDl s d d0 _
      have hcor : s'.corrupt = insertName s.corrupt (d, t) := by subst hs'; rfl
      have hp : s'.pending = s.pending := by subst hs'; rfl
      have hdl : s'.delivered = s.delivered := by subst hs'; rfl
      intro d0 y t0 hy hyl
      rw [hcor, hp, hdl]; rw [hg] at hy
      by_cases e : d0 = d
      · subst e
        simp only [if_true, Option.some.injEq] at hy
        subst hy
        simp only [Option.some.injEq] at hyl; subst hyl
        exact Or.inl (mem_insertName.mpr (Or.inr rfl))
      · simp only [e, if_false] at hy
        rcases hi d0 y t0 hy hyl with h1 | h1 | h1
        · exact Or.inl (mem_insertName.mpr (Or.inl h1))
        · exact Or.inr (Or.inl h1)
        · exact Or.inr (Or.inr h1)
    · have hg : ∀ d0, getDl s' d0 = if d0 = d then some { x with last := some t, pc := .idle } else getDl s d0 := by
        intro d0; rw [hs']; exact getDl_setDl s d d0 _
      have hcor : s'.corrupt = s.corrupt := by subst hs'; rfl
      have hp : s'.pending = AL.set s.pending d t := by subst hs'; rfl
      have hdl : s'.delivered = s.delivered := by subst hs'; rfl
      intro d0 y t0 hy hyl
      rw [hcor, hp, hdl]; rw [hg] at hy
      by_cases e : d0 = d
      · subst e
        simp only [if_true, Option.some.injEq] at hy
        subst hy
        simp only [Option.some.injEq] at hyl; subst hyl
        exact Or.inr (Or.inl (AL.get_set_self _ _ _))
      · simp only [e, if_false] at hy
        rw [AL.get_set_ne _ _ e]
        exact hi d0 y t0 hy hyl
  | retry d =>
    obtain ⟨x, hx, _, rfl⟩ := step_retry h
    exact invD_dl hi hx rfl rfl rfl (fun d0 => getDl_setDl s d d0 _) rfl
  | next d =>
    obtain ⟨_, t, hp, rfl⟩ := step_next h
    intro d0 y t0 hy hyl
    rcases hi d0 y t0 hy hyl with h1 | h1 | h1
    · exact Or.inl h1
    · by_cases e : d0 = d
      · subst e
        rw [hp] at h1; cases h1
        exact Or.inr (Or.inr List.mem_cons_self)
      · exact Or.inr (Or.inl (by simp only [AL.get_erase_ne _ e]; exact h1))
    · exact Or.inr (Or.inr (List.mem_cons_of_mem _ h1))
  | close =>
    obtain ⟨n, _, rfl⟩ := step_close h
    exact hi
  | put b => rw [step_put h]; exact hi
  | rm d t => rw [step_rm h]; exact hi

/-! ### all invariants together -/

structure AllInv (f : ι × Nat → Bool) (s : St ι) : Prop where
  tok : Inv s
  cor : InvK s
  lst : InvL s
  ntf : InvM s
  lastD : InvD s
  flag : InvF f s
  ign : ∀ n ∈ s.ignored, f n = true
  lim1 : 1 ≤ s.dlLimit
  lim2 : 1 ≤ s.dcLimit

/-- the environment assumptions of the liveness results -/
def EnvOk (f : ι × Nat → Bool) (s : St ι) (x : Step ι) : Prop := NoResurrect s x ∧ PutsAgree f s x

theorem allInv_init (f : ι × Nat → Bool) (own : ι) (a b : Nat) (ha : 1 ≤ a) (hb : 1 ≤ b) : AllInv f (init own a b) :=
  ⟨inv_init own a b, invK_init own a b, invL_init own a b, invM_init own a b, invD_init own a b,
   invF_init f own a b, by simp [init], ha, hb⟩

theorem ignored_step {f : ι × Nat → Bool} {s s' : St ι} {x : Step ι} (hc : ∀ n ∈ s.corrupt, f n = true)
    (hi : ∀ n ∈ s.ignored, f n = true) (h : step s x = some s') : ∀ n ∈ s'.ignored, f n = true := by
  by_cases hf : x.fair = true
  · obtain ⟨_, _, h1, _⟩ := fair_frame hf h
    rw [h1]; exact hi
  · cases x with
    | runOnce inc ok =>
      have e := step_runOnce h
      cases ok with
      | false => subst e; exact hi
      | true =>
        simp only [if_true] at e; subst e
        rw [runOnce_frame]
        intro n hn
        rcases mem_ignoredNow.mp hn with hn | hn
        · exact hi n hn
        · exact hc n hn
    | put b => rw [step_put h]; exact hi
    | rm d t => rw [step_rm h]; exact hi
    | load d r =>
      obtain ⟨x, t, _, _, hc'⟩ := step_load h
      rcases hc' with ⟨_, b, _, rfl⟩ | ⟨_, rfl⟩ <;> exact hi
    | _ => simp [Step.fair] at hf

theorem allInv_step {f : ι × Nat → Bool} {s s' : St ι} {x : Step ι} (hi : AllInv f s) (hok : EnvOk f s x)
    (h : step s x = some s') : AllInv f s' := by
  obtain ⟨_, h2, h3⟩ := step_own h
  exact ⟨inv_step hi.tok h, invK_step hi.cor h, invL_step hi.lst h, invM_step hi.ntf hok.1 h, invD_step hi.lastD h,
    invF_step hi.flag hok.2 h, ignored_step hi.flag.cor hi.ign h, by rw [h2]; exact hi.lim1, by rw [h3]; exact hi.lim2⟩

theorem allInv_run {f : ι × Nat → Bool} {s s' : St ι} (steps : List (Step ι)) (hi : AllInv f s)
    (hok : AllOk (EnvOk f) s steps) (h : run s steps = some s') : AllInv f s' :=
  run_induct (AllInv f) (EnvOk f) (fun _ _ _ hp ho hs => allInv_step hp ho hs) steps s s' hi hok h

/-- steps of the continuation: successful listings and fault-free downloader/consumer steps -/
def Step.quiet : Step ι → Bool
  | .runOnce _ ok => ok
  | x => x.fair

theorem envOk_of_quiet {f : ι × Nat → Bool} {s : St ι} {x : Step ι} (h : x.quiet = true) : EnvOk f s x := by
  cases x <;> simp [Step.quiet, Step.fair] at h <;> exact ⟨trivial, trivial⟩

theorem allOk_of_quiet {f : ι × Nat → Bool} (steps : List (Step ι)) (s : St ι) (h : ∀ x ∈ steps, x.quiet = true) :
    AllOk (EnvOk f) s steps := by
  induction steps generalizing s with
  | nil => trivial
  | cons x r ih =>
    exact ⟨envOk_of_quiet (h x List.mem_cons_self), fun s' _ => ih s' (fun y hy => h y (List.mem_cons_of_mem _ hy))⟩

omit [DecidableEq ι] in
theorem quiet_of_fair {x : Step ι} (h : x.fair = true) : x.quiet = true := by
  cases x <;> simp [Step.quiet, Step.fair] at h ⊢ <;> exact h

/-! ### rounds: listing, then to rest -/

/-- no downloader works on a name that is not in the bucket -/
def PcInBucket (s : St ι) : Prop :=
  ∀ d x t, getDl s d = some x → x.pc.ts? = some t → (hasBlob s d t).isSome = true

/-- corrupt names not yet ignored name blobs of the bucket -/
def CorruptInBucket (s : St ι) : Prop :=
  ∀ n ∈ s.corrupt, n ∉ s.ignored → ∃ b ∈ s.bucket, b.name = n

structure RoundInv (s : St ι) : Prop where
  sb : SeenInBucket s
  pb : PcInBucket s
  cb : CorruptInBucket s

theorem roundInv_fair {s s' : St ι} {x : Step ι} (hi : RoundInv s) (hf : x.fair = true)
    (h : step s x = some s') : RoundInv s' := by
  have hsb' := seenInBucket_fair hi.sb hf h
  obtain ⟨hb, hs, hig, _⟩ := fair_frame hf h
  have hhb : ∀ d t, hasBlob s' d t = hasBlob s d t := by
    intro d t; unfold hasBlob; rw [hb]
  -- generic: a downloader step that keeps or drops the name, and does not touch `corrupt`
  have gen : ∀ d x', (∀ d0, getDl s' d0 = if d0 = d then some x' else getDl s d0) →
      (∀ t, x'.pc.ts? = some t → (hasBlob s d t).isSome = true) → PcInBucket s' := by
    intro d x' hg hx' d0 y t hy hyt
    rw [hhb]; rw [hg] at hy
    by_cases e : d0 = d
    · subst e
      simp only [if_true, Option.some.injEq] at hy
      subst hy; exact hx' t hyt
    · simp only [e, if_false] at hy
      exact hi.pb d0 y t hy hyt
  have cbSame : s'.corrupt = s.corrupt → CorruptInBucket s' := by
    intro hc n hn hni
    rw [hc] at hn; rw [hig] at hni; rw [hb]
    exact hi.cb n hn hni
  cases x with
  | runOnce inc ok => simp [Step.fair] at hf
  | put b => simp [Step.fair] at hf
  | rm d t => simp [Step.fair] at hf
  | wake d =>
    obtain ⟨x, hx, _, _, rfl⟩ := step_wake h
    exact ⟨hsb', gen d _ (fun d0 => getDl_setDl s d d0 _) (by simp [Pc.ts?]), cbSame rfl⟩
  | check d =>
    obtain ⟨x, hx, _, hc⟩ := step_check h
    rcases hc with ⟨_, rfl⟩ | ⟨t, hs1, _, rfl⟩
    · exact ⟨hsb', gen d _ (fun d0 => getDl_setDl s d d0 _) (by simp [Pc.ts?]), cbSame rfl⟩
    · refine ⟨hsb', gen d _ (fun d0 => getDl_setDl s d d0 _) ?_, cbSame rfl⟩
      intro t0 ht0
      simp only [Pc.ts?, Option.some.injEq] at ht0
      subst ht0; exact hi.sb d t hs1
  | acqDl d =>
    obtain ⟨x, t, hx, hpc, _, rfl⟩ := step_acqDl h
    refine ⟨hsb', gen d _ (fun d0 => getDl_setDl s d d0 _) ?_, cbSame rfl⟩
    intro t0 ht0
    exact hi.pb d x t0 hx (by rw [hpc]; exact ht0)
  | load d r =>
    obtain ⟨x, t, hx, hpc, hc⟩ := step_load h
    rcases hc with ⟨_, b, _, rfl⟩ | ⟨_, rfl⟩
    · refine ⟨hsb', gen d _ (fun d0 => getDl_setDl s d d0 _) ?_, cbSame rfl⟩
      intro t0 ht0
      exact hi.pb d x t0 hx (by rw [hpc]; exact ht0)
    · exact ⟨hsb', gen d _ (fun d0 => getDl_setDl s d d0 _) (by simp [Pc.ts?]), cbSame rfl⟩
  | acqDc d =>
    obtain ⟨x, t, bad, hx, hpc, _, rfl⟩ := step_acqDc h
    refine ⟨hsb', gen d _ (fun d0 => getDl_setDl s d d0 _) ?_, cbSame rfl⟩
    intro t0 ht0
    exact hi.pb d x t0 hx (by rw [hpc]; exact ht0)
  | decode d =>
    obtain ⟨x, t, bad, hx, hpc, hc⟩ := step_decode h
    rcases hc with ⟨_, hs'⟩ | ⟨_, hs'⟩
    · have hg : ∀ d0, getDl s' d0 = if d0 = d then some { x with last := some t, pc := .backoff } else getDl s d0 := by
        intro d0; rw [hs']; exact getDl_setDl s d d0 _
      refine ⟨hsb', gen d _ hg (by simp [Pc.ts?]), ?_⟩
      have hcor : s'.corrupt = insertName s.corrupt (d, t) := by subst hs'; rfl
      intro n hn hni
      rw [hcor] at hn; rw [hig] at hni; rw [hb]
      rcases mem_insertName.mp hn with hn | hn
      · exact hi.cb n hn hni
      · subst hn
        have := hi.pb d x t hx (by rw [hpc]; rfl)
        obtain ⟨b, hbs⟩ := Option.isSome_iff_exists.mp this
        obtain ⟨hbm, hbn⟩ := hasBlob_some hbs
        exact ⟨b, hbm, hbn⟩
    · have hg : ∀ d0, getDl s' d0 = if d0 = d then some { x with last := some t, pc := .idle } else getDl s d0 := by
        intro d0; rw [hs']; exact getDl_setDl s d d0 _
      exact ⟨hsb', gen d _ hg (by simp [Pc.ts?]), cbSame (by subst hs'; rfl)⟩
  | retry d =>
    obtain ⟨x, hx, _, rfl⟩ := step_retry h
    exact ⟨hsb', gen d _ (fun d0 => getDl_setDl s d d0 _) (by simp [Pc.ts?]), cbSame rfl⟩
  | next d =>
    obtain ⟨_, t, _, rfl⟩ := step_next h
    exact ⟨hsb', hi.pb, hi.cb⟩
  | close =>
    obtain ⟨n, _, rfl⟩ := step_close h
    exact ⟨hsb', hi.pb, hi.cb⟩

/-- a predicate preserved by fair steps holds after a run of fair steps; the frame too -/
theorem run_fair {P : St ι → Prop} (hstep : ∀ s x s', P s → x.fair = true → step s x = some s' → P s') :
    ∀ (steps : List (Step ι)) (s s' : St ι), (∀ x ∈ steps, x.fair = true) → P s → run s steps = some s' → P s' := by
  intro steps
  induction steps with
  | nil => intro s s' _ hp hr; cases hr; exact hp
  | cons x r ih =>
    intro s s' hf hp hr
    simp only [run] at hr
    cases hs : step s x with
    | none => rw [hs] at hr; cases hr
    | some s1 =>
      rw [hs] at hr
      exact ih s1 s' (fun y hy => hf y (List.mem_cons_of_mem _ hy))
        (hstep s x s1 hp (hf x List.mem_cons_self) hs) hr

theorem run_fair_frame (steps : List (Step ι)) (s s' : St ι) (hf : ∀ x ∈ steps, x.fair = true)
    (hr : run s steps = some s') :
    s'.bucket = s.bucket ∧ s'.lastSeen = s.lastSeen ∧ s'.ignored = s.ignored := by
  have := run_fair (P := fun z => z.bucket = s.bucket ∧ z.lastSeen = s.lastSeen ∧ z.ignored = s.ignored)
    (by
      intro a x b hp hx hs
      obtain ⟨h1, h2, h3, _⟩ := fair_frame hx hs
      exact ⟨h1.trans hp.1, h2.trans hp.2.1, h3.trans hp.2.2⟩) steps s s' hf ⟨rfl, rfl, rfl⟩ hr
  exact this

/-- at rest no downloader works on a name -/
theorem atRest_pc {s : St ι} (h : AtRest s) {d : ι} {x : Dl} (hx : getDl s d = some x) :
    x.pc = .idle ∧ x.signal = false := by
  have := h.1 d x hx
  simp only [Dl.busy, Bool.or_eq_false_iff, bne_eq_false_iff_eq] at this
  exact ⟨by simpa using this.2, this.1⟩

theorem roundInv_runOnce {s : St ι} (h : AtRest s) (inc : Bool) : RoundInv (runOnce inc s) := by
  refine ⟨seenInBucket_runOnce inc s, ?_, ?_⟩
  · intro d y t hy hyt
    rcases runOnce_dl inc s d with hd | hd
    · rw [hd] at hy
      rw [(atRest_pc h hy).1] at hyt; cases hyt
    · rw [hd] at hy
      cases hg : getDl s d with
      | none => rw [hg] at hy; cases hy; simp [Pc.ts?] at hyt
      | some z =>
        rw [hg] at hy; cases hy
        simp only [sigDl_pc_some] at hyt
        rw [(atRest_pc h hg).1] at hyt; cases hyt
  · intro n hn hni
    have e1 : (runOnce inc s).corrupt = s.corrupt := by rw [runOnce_frame]
    have e2 : (runOnce inc s).ignored = ignoredNow s := by rw [runOnce_frame]
    rw [e1] at hn; rw [e2] at hni
    exact absurd (mem_ignoredNow.mpr (Or.inr hn)) hni

/-- the listing of the current bucket with the current ignore set is `lastSeen`, every corrupt
    name is ignored, and nothing is in flight -/
structure Settled (s : St ι) : Prop where
  rest : AtRest s
  seen : ∀ d t, AL.get s.lastSeen d = some t ↔ NewestIn s.bucket s.ignored d t
  cor : ∀ n ∈ s.corrupt, n ∈ s.ignored

theorem freshCount_lt {bk : List (Blob ι)} {ig ig' : List (ι × Nat)} {b : Blob ι} (hb : b ∈ bk)
    (h1 : b.name ∉ ig) (h2 : b.name ∈ ig') (hsub : ∀ n, n ∈ ig → n ∈ ig') : freshCount bk ig' < freshCount bk ig := by
  apply filter_length_lt hb
  · simp [h1]
  · simp [h2]
  · intro y hy
    simp only [decide_eq_true_eq] at hy ⊢
    exact fun hm => hy (hsub _ hm)

/-- one round from a state at rest: a successful listing, then fault-free steps to rest -/
theorem round {f : ι × Nat → Bool} {s : St ι} (hi : AllInv f s) (hr : AtRest s) :
    ∃ steps s', (∀ x ∈ steps, x.quiet = true) ∧ run s steps = some s' ∧ AtRest s' ∧ AllInv f s' ∧
      s'.bucket = s.bucket ∧ s'.ignored = ignoredNow s ∧ s'.lastSeen = seenOf s ∧ CorruptInBucket s' := by
  let s1 := runOnce false s
  have hs1 : step s (.runOnce false true) = some s1 := rfl
  have hi1 : AllInv f s1 := allInv_step hi (envOk_of_quiet rfl) hs1
  have hr1 : RoundInv s1 := roundInv_runOnce hr false
  obtain ⟨steps, s2, hfs, hrun, hrest⟩ := reach_rest (mu s1) s1 (Nat.le_refl _) hi1.tok hi1.cor hr1.sb hi1.lim1 hi1.lim2
  have hq : ∀ x ∈ steps, x.quiet = true := fun x hx => quiet_of_fair (hfs x hx)
  have hi2 : AllInv f s2 := allInv_run steps hi1 (allOk_of_quiet steps s1 hq) hrun
  have hr2 : RoundInv s2 := run_fair (P := RoundInv) (fun a x b hp hx hs => roundInv_fair hp hx hs) steps s1 s2 hfs hr1 hrun
  obtain ⟨hb, hs, hig⟩ := run_fair_frame steps s1 s2 hfs hrun
  have e1 : s1.bucket = s.bucket := by show (runOnce false s).bucket = _; rw [runOnce_frame]
  have e2 : s1.ignored = ignoredNow s := by show (runOnce false s).ignored = _; rw [runOnce_frame]
  have e3 : s1.lastSeen = seenOf s := by show (runOnce false s).lastSeen = _; rw [runOnce_frame]
  refine ⟨.runOnce false true :: steps, s2, ?_, ?_, hrest, hi2, hb.trans e1, hig.trans e2, hs.trans e3, hr2.cb⟩
  · intro x hx
    rcases List.mem_cons.mp hx with e | hm
    · subst e; rfl
    · exact hq x hm
  · simp only [run, hs1]; exact hrun

theorem ignoredNow_of_sub {s : St ι} (h : ∀ n ∈ s.corrupt, n ∈ s.ignored) (n : ι × Nat) :
    n ∈ ignoredNow s ↔ n ∈ s.ignored := by
  rw [mem_ignoredNow]
  constructor
  · rintro (h' | h')
    · exact h'
    · exact h n h'
  · exact Or.inl

omit [DecidableEq ι] in
theorem newestIn_congr {bk : List (Blob ι)} {ig ig' : List (ι × Nat)} (h : ∀ n, n ∈ ig ↔ n ∈ ig') (d : ι) (t : Nat) :
    NewestIn bk ig d t ↔ NewestIn bk ig' d t := by
  unfold NewestIn
  constructor
  · intro ⟨a, b, c⟩
    exact ⟨a, fun hm => b ((h _).mpr hm), fun x hx hxi hxn => c x hx hxi (fun hm => hxn ((h _).mp hm))⟩
  · intro ⟨a, b, c⟩
    exact ⟨a, fun hm => b ((h _).mp hm), fun x hx hxi hxn => c x hx hxi (fun hm => hxn ((h _).mpr hm))⟩

/-- rounds until every corrupt name is ignored: each further round ignores one more blob of the
    bucket -/
theorem settle {f : ι × Nat → Bool} : ∀ (n : Nat) (s : St ι), freshCount s.bucket (ignoredNow s) ≤ n →
    AllInv f s → AtRest s →
    ∃ steps s', (∀ x ∈ steps, x.quiet = true) ∧ run s steps = some s' ∧ Settled s' ∧ AllInv f s' ∧
      s'.bucket = s.bucket := by
  intro n
  induction n with
  | zero =>
    intro s hn hi hr
    obtain ⟨steps, s2, hq, hrun, hrest, hi2, hb, hig, hseen, hcb⟩ := round hi hr
    by_cases hc : ∀ n ∈ s2.corrupt, n ∈ s2.ignored
    · refine ⟨steps, s2, hq, hrun, ⟨hrest, ?_, hc⟩, hi2, hb⟩
      intro d t
      rw [hseen, seenOf_some, hb, hig]
    · exfalso
      have : ∃ n, n ∈ s2.corrupt ∧ n ∉ s2.ignored := by
        apply Classical.byContradiction
        intro hne
        apply hc
        intro n hn
        apply Classical.byContradiction
        intro hni
        exact hne ⟨n, hn, hni⟩
      obtain ⟨m, hm1, hm2⟩ := this
      obtain ⟨b, hbm, hbn⟩ := hcb m hm1 hm2
      have hlt : freshCount s2.bucket (ignoredNow s2) < freshCount s2.bucket s2.ignored :=
        freshCount_lt hbm (hbn ▸ hm2) (hbn ▸ mem_ignoredNow.mpr (Or.inr hm1))
          (fun n hn => mem_ignoredNow.mpr (Or.inl hn))
      rw [hb, hig] at hlt
      omega
  | succ n ih =>
    intro s hn hi hr
    obtain ⟨steps, s2, hq, hrun, hrest, hi2, hb, hig, hseen, hcb⟩ := round hi hr
    by_cases hc : ∀ n ∈ s2.corrupt, n ∈ s2.ignored
    · refine ⟨steps, s2, hq, hrun, ⟨hrest, ?_, hc⟩, hi2, hb⟩
      intro d t
      rw [hseen, seenOf_some, hb, hig]
    · have : ∃ n, n ∈ s2.corrupt ∧ n ∉ s2.ignored := by
        apply Classical.byContradiction
        intro hne
        apply hc
        intro n hn
        apply Classical.byContradiction
        intro hni
        exact hne ⟨n, hn, hni⟩
      obtain ⟨m, hm1, hm2⟩ := this
      obtain ⟨b, hbm, hbn⟩ := hcb m hm1 hm2
      have hlt : freshCount s2.bucket (ignoredNow s2) < freshCount s2.bucket s2.ignored :=
        freshCount_lt hbm (hbn ▸ hm2) (hbn ▸ mem_ignoredNow.mpr (Or.inr hm1))
          (fun n hn => mem_ignoredNow.mpr (Or.inl hn))
      have hle : freshCount s2.bucket (ignoredNow s2) ≤ n := by
        rw [hb, hig] at hlt
        rw [hb]; omega
      obtain ⟨steps', s3, hq', hrun', hset, hi3, hb'⟩ := ih s2 hle hi2 hrest
      refine ⟨steps ++ steps', s3, ?_, ?_, hset, hi3, hb'.trans hb⟩
      · intro x hx
        rcases List.mem_append.mp hx with h | h
        · exact hq x h
        · exact hq' x h
      · rw [run_append, hrun]; exact hrun'

/-- in a settled state every foreign instance's newest non-ignored name has been delivered -/
theorem settled_delivered {f : ι × Nat → Bool} {s : St ι} (hi : AllInv f s) (hs : Settled s) {d : ι} {t : Nat}
    (hd : d ≠ s.own) (hn : NewestIn s.bucket s.ignored d t) : (d, t) ∈ s.delivered := by
  have hseen := (hs.seen d t).mpr hn
  obtain ⟨x, hx, hl⟩ := hi.ntf.m d t hd hseen
  rcases hl with hl | hl
  · rcases hi.lastD d x t hx hl with h | h | h
    · exact absurd (hs.cor _ h) hn.2.1
    · rw [hs.rest.2.1] at h; simp at h
    · exact h
  · rw [hs.rest.1 d x hx] at hl; cases hl

/-- the newest decodable blob of `d` in the bucket -/
def NewestGood (bk : List (Blob ι)) (d : ι) (t : Nat) : Prop :=
  (∃ b ∈ bk, b.name = (d, t) ∧ b.bad = false) ∧ ∀ b ∈ bk, b.inst = d → b.bad = false → b.ts ≤ t

theorem settled_newest_good {f : ι × Nat → Bool} {s : St ι} (hi : AllInv f s) (hs : Settled s) {d : ι} {g : Nat}
    (hd : d ≠ s.own) (hg : NewestGood s.bucket d g) : (d, g) ∈ s.delivered := by
  obtain ⟨⟨b, hbm, hbn, hbb⟩, hmax⟩ := hg
  have hfg : f (d, g) = false := by rw [← hbn, ← hi.flag.bk b hbm]; exact hbb
  have hgi : (d, g) ∉ s.ignored := by
    intro hm
    have := hi.ign _ hm
    rw [hfg] at this; cases this
  -- the listing has some newest non-ignored name `t ≥ g` of `d`
  cases hseen : AL.get s.lastSeen d with
  | none =>
    exfalso
    -- then every name of `d` would be ignored
    have hall : ∀ t, ¬NewestIn s.bucket s.ignored d t := by
      intro t ht
      rw [← hs.seen, hseen] at ht; cases ht
    -- use `seenOf` of a state with the same bucket and ignore set
    have hcong : ∀ n, n ∈ ignoredNow s ↔ n ∈ s.ignored := ignoredNow_of_sub hs.cor
    cases hso : AL.get (seenOf s) d with
    | none =>
      have := seenOf_none.mp hso b hbm (by simp [Blob.name] at hbn; exact hbn.1)
      rw [hbn] at this
      exact hgi ((hcong _).mp this)
    | some t =>
      exact hall t ((newestIn_congr hcong d t).mp (seenOf_some.mp hso))
  | some t =>
    have hn : NewestIn s.bucket s.ignored d t := (hs.seen d t).mp hseen
    have hdel := settled_delivered hi hs hd hn
    have hft : f (d, t) = false := hi.flag.deliv _ hdel
    obtain ⟨⟨b', hbm', hbn'⟩, _, hmaxn⟩ := hn
    have hb'bad : b'.bad = false := by rw [hi.flag.bk b' hbm', hbn']; exact hft
    have h1 : b'.ts ≤ g := hmax b' hbm' (by simp [Blob.name] at hbn'; exact hbn'.1) hb'bad
    have h2 : b.ts ≤ t := hmaxn b hbm (by simp [Blob.name] at hbn; exact hbn.1) (hbn ▸ hgi)
    have e1 : b'.ts = t := by simp [Blob.name] at hbn'; exact hbn'.2
    have e2 : b.ts = g := by simp [Blob.name] at hbn; exact hbn.2
    have : t = g := by omega
    rw [← this]; exact hdel

end Ls.Recv
