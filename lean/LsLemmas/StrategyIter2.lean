import LsLemmas.StrategyIter
/-
  strategy.IterUpdate, continued: which callbacks the merge-join issues; no-op runs; the kinds of
  failure; unsorted input (helper lemmas for C19).
-/
namespace Ls.Strategy
open Ls Ls.Lmdb

variable {E ε : Type} {mg : E → Bytes → Option Bytes} {cl : Bytes → Option Bytes}

/-! ### which callbacks are issued -/

theorem plan_lt (ik : Bool) (it : Iter E ε) (e : E) (es : List E) (dk dv : Bytes) (ds : KVs)
    (h : kcmp ik dk (it.key e) < 0) :
    plan ik it (e :: es) ((dk, dv) :: ds) = .clean dk dv :: plan ik it (e :: es) ds := by
  rw [plan_cons_cons, if_pos h]

theorem plan_eq (ik : Bool) (it : Iter E ε) (e : E) (es : List E) (dk dv : Bytes) (ds : KVs)
    (h : kcmp ik dk (it.key e) = 0) :
    plan ik it (e :: es) ((dk, dv) :: ds) = .both e dk dv :: plan ik it es ds := by
  rw [plan_cons_cons, if_neg (by omega), if_pos h]

theorem plan_gt (ik : Bool) (it : Iter E ε) (e : E) (es : List E) (dk dv : Bytes) (ds : KVs)
    (h : kcmp ik (it.key e) dk < 0) :
    plan ik it (e :: es) ((dk, dv) :: ds) = .insert e :: plan ik it es ((dk, dv) :: ds) := by
  rw [plan_cons_cons, if_neg (kcmp_lt_asymm ik h), if_neg (kcmp_ne_of_gt ik h)]

/-- what a callback of the plan is about: `clean` for a stored entry whose key is not in the input,
    `insert` for an input entry whose key is not stored, `both` for an input entry and the stored
    entry of the same key -/
def ActSpec (ik : Bool) (it : Iter E ε) (I : List E) (D : KVs) : Act E → Prop
  | .clean dk dv => (dk, dv) ∈ D ∧ inInput ik it I dk = false
  | .insert e => e ∈ I ∧ get ik D (it.key e) = none
  | .both e dk dv => e ∈ I ∧ (dk, dv) ∈ D ∧ kcmp ik (it.key e) dk = 0

theorem plan_mem {ik : Bool} {it : Iter E ε} (I : List E) (D : KVs) :
    ISorted ik it I → Sorted ik D → ∀ a ∈ plan ik it I D, ActSpec ik it I D a := by
  refine join_cases (ik := ik) (it := it) (P := fun I D => ISorted ik it I → Sorted ik D →
    ∀ a ∈ plan ik it I D, ActSpec ik it I D a) ?_ ?_ ?_ ?_ ?_ ?_ I D
  · intro _ _ a ha; rw [plan_nil_nil] at ha; cases ha
  · intro dk dv ds ih hS hD a ha
    rw [plan_nil_cons] at ha
    rcases List.mem_cons.mp ha with h | h
    · rw [h]; exact ⟨List.mem_cons_self .., rfl⟩
    · have := ih hS hD.tail a h
      cases a with
      | clean dk' dv' => exact ⟨List.mem_cons_of_mem _ this.1, rfl⟩
      | insert x => cases this.1
      | both x dk' dv' => cases this.1
  · intro e es ih hS hD a ha
    rw [plan_cons_nil] at ha
    rcases List.mem_cons.mp ha with h | h
    · rw [h]; exact ⟨List.mem_cons_self .., rfl⟩
    · have := ih (isorted_tail_gt hS).2 hD a h
      cases a with
      | clean dk' dv' => cases this.1
      | insert x => exact ⟨List.mem_cons_of_mem _ this.1, rfl⟩
      | both x dk' dv' => cases this.2.1
  · intro e es dk dv ds hlt ih hS hD a ha
    have hall := lt_all_of_lt_headI hS hlt
    rw [plan_lt _ _ _ _ _ _ _ hlt] at ha
    rcases List.mem_cons.mp ha with h | h
    · rw [h]
      exact ⟨List.mem_cons_self .., inInput_false (fun x hx => kcmp_ne_of_gt ik (hall x hx))⟩
    · have := ih hS hD.tail a h
      cases a with
      | clean dk' dv' => exact ⟨List.mem_cons_of_mem _ this.1, this.2⟩
      | insert x =>
        refine ⟨this.1, ?_⟩
        rw [get_cons, if_neg (kcmp_ne_of_gt ik (hall x this.1))]; exact this.2
      | both x dk' dv' => exact ⟨this.1, List.mem_cons_of_mem _ this.2.1, this.2.2⟩
  · intro e es dk dv ds heq ih hS hD a ha
    have hS' := isorted_tail_gt hS
    have hD' := sorted_cons.mp hD
    have heq' : kcmp ik (it.key e) dk = 0 := (kcmp_eq_comm ik _ _).mp heq
    rw [plan_eq _ _ _ _ _ _ _ heq] at ha
    rcases List.mem_cons.mp ha with h | h
    · rw [h]; exact ⟨List.mem_cons_self .., List.mem_cons_self .., heq'⟩
    · have := ih hS'.2 hD'.2 a h
      cases a with
      | clean dk' dv' =>
        refine ⟨List.mem_cons_of_mem _ this.1, ?_⟩
        rw [inInput_cons, this.2]
        have : ¬ kcmp ik (it.key e) dk' = 0 :=
          kcmp_ne_of_lt ik (kcmp_lt_of_eq_of_lt ik heq' (hD'.1 _ this.1))
        simp [this]
      | insert x =>
        refine ⟨List.mem_cons_of_mem _ this.1, ?_⟩
        have : kcmp ik dk (it.key x) < 0 := kcmp_lt_of_eq_of_lt ik heq (hS'.1 x this.1)
        rw [get_cons, if_neg (kcmp_ne_of_gt ik this)]; exact ‹ActSpec ik it es ds (Act.insert x)›.2
      | both x dk' dv' => exact ⟨List.mem_cons_of_mem _ this.1, List.mem_cons_of_mem _ this.2.1, this.2.2⟩
  · intro e es dk dv ds hgt ih hS hD a ha
    have hS' := isorted_tail_gt hS
    have hX := lt_all_of_lt_head hD hgt
    rw [plan_gt _ _ _ _ _ _ _ hgt] at ha
    rcases List.mem_cons.mp ha with h | h
    · rw [h]; exact ⟨List.mem_cons_self .., get_none_of_lt hX⟩
    · have := ih hS'.2 hD a h
      cases a with
      | clean dk' dv' =>
        refine ⟨this.1, ?_⟩
        rw [inInput_cons, this.2]
        have : ¬ kcmp ik (it.key e) dk' = 0 := kcmp_ne_of_lt ik (hX _ this.1)
        simp [this]
      | insert x => exact ⟨List.mem_cons_of_mem _ this.1, this.2⟩
      | both x dk' dv' => exact ⟨List.mem_cons_of_mem _ this.1, this.2.1, this.2.2⟩

/-! ### a run in which every decision is what is stored writes nothing -/

theorem runPlan_noop {ik : Bool} {it : Iter E ε} (acts : List (Act E)) (s : S)
    (h : ∀ a ∈ acts, runAct ik it s a = .ok s) : runPlan ik it s acts = .ok s := by
  induction acts with
  | nil => rfl
  | cons a as ih =>
    rw [runPlan_cons, h a (List.mem_cons_self ..)]
    exact ih (fun a ha => h a (List.mem_cons_of_mem _ ha))

/-- the no-op hypothesis on merge decisions: for a stored key the decision is the stored (non-empty)
    value and the preliminary `Merge(nil)` call does not fail; for an absent key the decision is
    nil or empty -/
def MergeNoop (ik : Bool) (it : Iter E ε) (db : KVs) (e : E) : Prop :=
  match get ik db (it.key e) with
  | some dv => dv ≠ [] ∧ it.merge e dv = .ok (some dv) ∧ ∃ r, it.merge e [] = .ok r
  | none => ∃ r, it.merge e [] = .ok r ∧ setNew r = none

theorem iterUpdate_noop {ik : Bool} {it : Iter E ε} (db : KVs) (d : Bool) (input : List E)
    (hS : ISorted ik it input) (hK : KeysOK it input) (hD : Sorted ik db)
    (hM : ∀ e ∈ input, MergeNoop ik it db e)
    (hC : ∀ p ∈ db, inInput ik it input p.1 = false → it.clean p.2 = .ok (some p.2)) :
    iterUpdate ik it ⟨db, d⟩ input = .ok ⟨db, d⟩ := by
  rw [iterUpdate_plan ik it _ input hS hK]
  refine runPlan_noop _ _ (fun a ha => ?_)
  have hspec := plan_mem input db hS hD a ha
  cases a with
  | clean dk dv =>
    have := hC (dk, dv) hspec.1 hspec.2
    simp only [runAct, cbClean, this, liftIter, bind, Except.bind, if_true]; rfl
  | insert e =>
    have hm := hM e hspec.1
    unfold MergeNoop at hm
    rw [hspec.2] at hm
    obtain ⟨r, hr, hn⟩ := hm
    simp only [runAct, cbInsert, hr, liftIter, bind, Except.bind]
    rcases (setNew_none_iff r).mp hn with h | h
    · rw [h]; rfl
    · rw [h]; rfl
  | both e dk dv =>
    have hm := hM e hspec.1
    unfold MergeNoop at hm
    have hg : get ik db (it.key e) = some dv := by
      rw [get_congr ik db hspec.2.2]; exact get_of_mem hD hspec.2.1
    rw [hg] at hm
    obtain ⟨hne, h1, r, h2⟩ := hm
    have hl : ¬ dv.length = 0 := fun h => hne (List.length_eq_zero_iff.mp h)
    simp only [runAct, cbBoth, h1, h2, liftIter, bind, Except.bind, hl, if_false, if_true]; rfl

/-! ### failures -/

theorem liftIter_err {α : Type} {x : Except ε α} {err : SErr ε} (h : liftIter x = .error err) :
    ∃ y, err = .iter y := by
  cases x with
  | ok a => cases h
  | error y => cases h; exact ⟨y, rfl⟩

theorem putS_ok {ik : Bool} (s : S) {k : Bytes} (v : Bytes) (hk : badKey k = false) :
    (putS ik s k v : Except (SErr ε) S) = .ok ⟨put ik s.db k v, true⟩ := by
  simp [putS, hk]

theorem cbClean_err {ik : Bool} {it : Iter E ε} (s : S) (dk dv : Bytes) (hk : badKey dk = false) :
    ∀ err, cbClean ik it s dk dv = .error err → ∃ y, err = .iter y := by
  intro err h
  unfold cbClean at h
  cases hc : liftIter (ε := ε) (it.clean dv) with
  | error y => rw [hc] at h; cases h; exact liftIter_err hc
  | ok r =>
    rw [hc] at h
    cases r with
    | none => cases h
    | some v =>
      simp only [bind, Except.bind] at h
      split at h
      · cases h
      · rw [putS_ok s v hk] at h; cases h

theorem cbInsert_err {ik : Bool} {it : Iter E ε} (s : S) (e : E) (hk : badKey (it.key e) = false) :
    ∀ err, cbInsert ik it s e = .error err → ∃ y, err = .iter y := by
  intro err h
  unfold cbInsert at h
  cases hc : liftIter (ε := ε) (it.merge e []) with
  | error y => rw [hc] at h; cases h; exact liftIter_err hc
  | ok r =>
    rw [hc] at h
    cases r with
    | none => cases h
    | some v =>
      simp only [bind, Except.bind] at h
      split at h
      · cases h
      · rw [putS_ok s v hk] at h; cases h

theorem cbBoth_err {ik : Bool} {it : Iter E ε} (s : S) (e : E) (dv : Bytes) (hk : badKey (it.key e) = false) :
    ∀ err, cbBoth ik it s e dv = .error err → ∃ y, err = .iter y := by
  intro err h
  unfold cbBoth at h
  cases hc0 : liftIter (ε := ε) (it.merge e []) with
  | error y => rw [hc0] at h; cases h; exact liftIter_err hc0
  | ok r0 =>
    rw [hc0] at h
    cases hc : liftIter (ε := ε) (it.merge e dv) with
    | error y => simp only [bind, Except.bind, hc] at h; cases h; exact liftIter_err hc
    | ok r =>
      simp only [bind, Except.bind, hc] at h
      cases r with
      | none => cases h
      | some v =>
        simp only at h
        split at h
        · cases h
        · split at h
          · cases h
          · rw [putS_ok s v hk] at h; cases h

theorem runPlan_err {ik : Bool} {it : Iter E ε} (P : SErr ε → Prop) (acts : List (Act E))
    (h : ∀ a ∈ acts, ∀ s err, runAct ik it s a = .error err → P err) :
    ∀ s err, runPlan ik it s acts = .error err → P err := by
  induction acts with
  | nil => intro s err he; cases he
  | cons a as ih =>
    intro s err he
    rw [runPlan_cons] at he
    cases h1 : runAct ik it s a with
    | error x => rw [h1] at he; cases he; exact h a (List.mem_cons_self ..) s _ h1
    | ok s1 => rw [h1] at he; exact ih (fun a ha => h a (List.mem_cons_of_mem _ ha)) s1 err he

/-- with sorted input and valid keys (input and stored) the only failure of IterUpdate is an
    error returned by the iterator: never `notSorted`, `badKey`, `hang` or `panic` -/
theorem iterUpdate_err {ik : Bool} {it : Iter E ε} (s : S) (input : List E)
    (hS : ISorted ik it input) (hK : KeysOK it input) (hD : Sorted ik s.db) (hDK : DKeysOK s.db) :
    ∀ err, iterUpdate ik it s input = .error err → ∃ y, err = .iter y := by
  rw [iterUpdate_plan ik it s input hS hK]
  refine runPlan_err _ _ (fun a ha s' err he => ?_) s
  have hspec := plan_mem input s.db hS hD a ha
  cases a with
  | clean dk dv => exact cbClean_err s' dk dv (hDK _ hspec.1) err he
  | insert e => exact cbInsert_err s' e (keysOK_badKey hK hspec.1) err he
  | both e dk dv => exact cbBoth_err s' e dv (keysOK_badKey hK hspec.1) err he

/-! ### unsorted input -/

theorem cbClean_ok {ik : Bool} {it : Iter E ε} (T : Total it mg cl) (s : S) (dk dv : Bytes)
    (hk : badKey dk = false) : ∃ s', cbClean ik it s dk dv = .ok s' := by
  cases h : cbClean ik it s dk dv with
  | ok s' => exact ⟨s', rfl⟩
  | error err =>
    obtain ⟨y, hy⟩ := cbClean_err s dk dv hk err h
    subst hy
    simp only [cbClean, T.clean, liftIter, bind, Except.bind] at h
    cases hc : cl dv with
    | none => rw [hc] at h; cases h
    | some v =>
      rw [hc] at h
      simp only at h
      split at h
      · cases h
      · rw [putS_ok s v hk] at h; cases h

theorem cbInsert_ok {ik : Bool} {it : Iter E ε} (T : Total it mg cl) (s : S) (e : E)
    (hk : badKey (it.key e) = false) : ∃ s', cbInsert ik it s e = .ok s' := by
  cases h : cbInsert ik it s e with
  | ok s' => exact ⟨s', rfl⟩
  | error err =>
    simp only [cbInsert, T.merge, liftIter, bind, Except.bind] at h
    cases hc : mg e [] with
    | none => rw [hc] at h; cases h
    | some v =>
      rw [hc] at h
      simp only at h
      split at h
      · cases h
      · rw [putS_ok s v hk] at h; cases h

theorem cbBoth_ok {ik : Bool} {it : Iter E ε} (T : Total it mg cl) (s : S) (e : E) (dv : Bytes)
    (hk : badKey (it.key e) = false) : ∃ s', cbBoth ik it s e dv = .ok s' := by
  cases h : cbBoth ik it s e dv with
  | ok s' => exact ⟨s', rfl⟩
  | error err =>
    simp only [cbBoth, T.merge, liftIter, bind, Except.bind] at h
    cases hc : mg e dv with
    | none => rw [hc] at h; cases h
    | some v =>
      rw [hc] at h
      simp only at h
      split at h
      · cases h
      · split at h
        · cases h
        · rw [putS_ok s v hk] at h; cases h

/-- the key sequence whose sortedness `iterBoth` still has to check -/
def pendingKeys (it : Iter E ε) (prev : Option Bytes) (itCur : Option E) (its : List E) : List Bytes :=
  (if itCur.isSome then [] else prev.toList) ++ (itCur.toList ++ its).map it.key

/-- if the (remaining) input keys are not strictly increasing, `iterBoth` reports it: none of the
    callbacks run before fails (decisions total, keys valid) -/
theorem iuLoop_unsorted {ik : Bool} {it : Iter E ε} (T : Total it mg cl) : ∀ (fuel : Nat) (prev : Option Bytes)
    (itCur : Option E) (its : List E) (dbCur : Option (Bytes × Bytes)) (dbs : KVs) (s : S),
    KeysOK it (itCur.toList ++ its) → DKeysOK (dbCur.toList ++ dbs) →
    (∀ e, itCur = some e → prev = some (it.key e)) →
    ¬ (pendingKeys it prev itCur its).Pairwise (fun a b => kcmp ik a b < 0) →
    (itCur.toList ++ its).length + (dbCur.toList ++ dbs).length < fuel →
    iuLoop ik it fuel prev itCur its dbCur dbs s = .error .notSorted := by
  intro fuel
  induction fuel with
  | zero => intro _ _ _ _ _ _ _ _ _ _ hf; omega
  | succ fuel ih =>
    have hss : ∀ (prev : Option Bytes) (e : E) (its : List E) (dk dv : Bytes) (dbs : KVs) (s : S),
        KeysOK it (e :: its) → DKeysOK ((dk, dv) :: dbs) → prev = some (it.key e) →
        ¬ (it.key e :: its.map it.key).Pairwise (fun a b => kcmp ik a b < 0) →
        (e :: its).length + ((dk, dv) :: dbs).length < fuel + 1 →
        iuLoop ik it (fuel + 1) prev (some e) its (some (dk, dv)) dbs s = .error .notSorted := by
      intro prev e its dk dv dbs s hK hDK hP hU hF
      simp only [List.length_cons] at hF
      have hK' : KeysOK it its := fun x hx => hK x (List.mem_cons_of_mem _ hx)
      have hDK' : DKeysOK dbs := fun x hx => hDK x (List.mem_cons_of_mem _ hx)
      have hke := keysOK_badKey hK (List.mem_cons_self ..)
      rw [iuLoop_both]
      split
      · obtain ⟨s', hs'⟩ := cbClean_ok (ik := ik) T s dk dv (hDK _ (List.mem_cons_self ..))
        rw [hs']
        exact ih prev (some e) its none dbs s' hK hDK' (fun e' he' => by cases he'; exact hP)
          (by simpa [pendingKeys] using hU)
          (by simp only [Option.toList_some, Option.toList_none, List.nil_append,
            List.singleton_append, List.length_cons]; omega)
      · split
        · obtain ⟨s', hs'⟩ := cbBoth_ok (ik := ik) T s e dv hke
          rw [hs']
          exact ih prev none its none dbs s' hK' hDK' (fun e' he' => by cases he')
            (by rw [hP]; simpa [pendingKeys] using hU)
            (by simp only [Option.toList_none, List.nil_append]; omega)
        · obtain ⟨s', hs'⟩ := cbInsert_ok (ik := ik) T s e hke
          rw [hs']
          exact ih prev none its (some (dk, dv)) dbs s' hK' hDK (fun e' he' => by cases he')
            (by rw [hP]; simpa [pendingKeys] using hU)
            (by simp only [Option.toList_none, Option.toList_some, List.nil_append, List.singleton_append,
              List.length_cons]; omega)
    have hs : ∀ (prev : Option Bytes) (e : E) (its : List E) (dbCur : Option (Bytes × Bytes)) (dbs : KVs) (s : S),
        KeysOK it (e :: its) → DKeysOK (dbCur.toList ++ dbs) → prev = some (it.key e) →
        ¬ (it.key e :: its.map it.key).Pairwise (fun a b => kcmp ik a b < 0) →
        (e :: its).length + (dbCur.toList ++ dbs).length < fuel + 1 →
        iuLoop ik it (fuel + 1) prev (some e) its dbCur dbs s = .error .notSorted := by
      intro prev e its dbCur dbs s hK hDK hP hU hF
      have hK' : KeysOK it its := fun x hx => hK x (List.mem_cons_of_mem _ hx)
      cases dbCur with
      | some d => obtain ⟨dk, dv⟩ := d; exact hss prev e its dk dv dbs s hK hDK hP hU hF
      | none =>
        cases dbs with
        | cons y ys =>
          obtain ⟨dk, dv⟩ := y; rw [iuLoop_dbfetch]; exact hss prev e its dk dv ys s hK hDK hP hU hF
        | nil =>
          simp only [Option.toList_none, List.nil_append, List.length_cons, List.length_nil] at hF
          rw [iuLoop_insertonly]
          obtain ⟨s', hs'⟩ := cbInsert_ok (ik := ik) T s e (keysOK_badKey hK (List.mem_cons_self ..))
          rw [hs']
          exact ih prev none its none [] s' hK' (fun x hx => by cases hx) (fun e' he' => by cases he')
            (by rw [hP]; simpa [pendingKeys] using hU)
            (by simp only [Option.toList_none, List.nil_append, List.length_nil]; omega)
    intro prev itCur its dbCur dbs s hK hDK hP1 hU hF
    cases itCur with
    | some e =>
      exact hs prev e its dbCur dbs s hK hDK (hP1 e rfl) (by simpa [pendingKeys] using hU) hF
    | none =>
      cases its with
      | cons x xs =>
        have hkx := hK x (List.mem_cons_self ..)
        rw [iuLoop_itfetch]
        split
        · rfl
        · rename_i h1
          have h2 : ¬ (it.key x).length > Gen.strategyMaxKeySize := by have := hkx.2; omega
          rw [if_neg h2]
          refine hs (some (it.key x)) x xs dbCur dbs s hK hDK rfl ?_ hF
          intro hsorted
          apply hU
          cases prev with
          | none => simpa [pendingKeys] using hsorted
          | some p =>
            have hlt : kcmp ik p (it.key x) < 0 := by
              have : ¬ kcmp ik p (it.key x) ≥ 0 := fun hge => h1 ⟨Or.inl rfl, hge⟩
              omega
            have hp := List.pairwise_cons.mp hsorted
            simp only [pendingKeys, Option.isSome_none, Bool.false_eq_true, if_false, Option.toList_some,
              Option.toList_none, List.nil_append, List.map_cons, List.singleton_append]
            refine List.pairwise_cons.mpr ⟨?_, hsorted⟩
            intro c hc
            rcases List.mem_cons.mp hc with h | h
            · rw [h]; exact hlt
            · exact kcmp_lt_trans ik hlt (hp.1 c h)
      | nil =>
        exfalso; apply hU
        cases prev with
        | none => simp [pendingKeys]
        | some p => simp [pendingKeys]

/-- IterUpdate on an input whose keys are not strictly increasing -/
theorem iterUpdate_unsorted {ik : Bool} {it : Iter E ε} (T : Total it mg cl) (s : S) (input : List E)
    (hK : KeysOK it input) (hDK : DKeysOK s.db) (hU : ¬ ISorted ik it input) :
    iterUpdate ik it s input = .error .notSorted :=
  iuLoop_unsorted T _ none none input none s.db s hK hDK (fun _ h => by cases h)
    (by
      intro h; apply hU
      simpa [pendingKeys, ISorted, List.pairwise_map] using h)
    (by simp only [Option.toList_none, List.nil_append]; omega)

end Ls.Strategy
