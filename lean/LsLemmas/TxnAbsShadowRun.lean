import LsLemmas.TxnAbsShadow
import LsLemmas.AbsFleetSettle
/-
  Run-level refinement for shadow (non-native) mode: a byte-level fleet of shadow-mode
  environments (application writes / deletes, `sendOnce`, `loadOnce`) refines the abstract
  last-writer-wins fleet of LsLemmas/AbsFleet.lean, the application's writes being materialised
  as abstract `write` steps at the moment the capture detects them (helper lemmas of
  `C01_shadow_run_refines` in LsProps/C01RefineShadow.lean).
-/
set_option linter.unusedSimpArgs false
namespace Ls.Abs
open Ls

/-! ## 1. schedules: concatenation, lists of writes of one instance -/

theorem monotoneFrom_append (f : Fleet) (a b : List Step) :
    MonotoneFrom f (a ++ b) ↔ MonotoneFrom f a ∧ MonotoneFrom (run f a) b := by
  induction a generalizing f with
  | nil => simp [MonotoneFrom, run]
  | cons s rest ih =>
    simp only [List.cons_append, MonotoneFrom, ih, run, List.foldl_cons]
    exact ⟨fun ⟨h1, h2, h3⟩ => ⟨⟨h1, h2⟩, h3⟩, fun ⟨⟨h1, h2⟩, h3⟩ => ⟨h1, h2, h3⟩⟩

theorem stepsWF_append (a b : List Step) : StepsWF (a ++ b) ↔ StepsWF a ∧ StepsWF b := by
  unfold StepsWF
  constructor
  · intro h
    exact ⟨fun s hs => h s (List.mem_append_left _ hs), fun s hs => h s (List.mem_append_right _ hs)⟩
  · rintro ⟨h1, h2⟩ s hs
    rcases List.mem_append.mp hs with hs | hs
    · exact h1 s hs
    · exact h2 s hs

/-- the schedule "instance `i` writes these (key, version) pairs, in order" -/
def writesBy (i : Nat) (l : List (Key × Ver)) : List Step := l.map fun p => Step.write i p.1 p.2

/-- the database after such a schedule, when the version written under a key is a function `G`
    of the key: `G` on the written keys, the old content elsewhere; nothing else changes -/
theorem run_writesBy (i : Nat) (G : Key → Option Ver) (l : List (Key × Ver)) :
    ∀ (f : Fleet), (∀ p ∈ l, G p.1 = some p.2) →
      run f (writesBy i l) =
        { f with db := fun j => if j = i then
            (fun key => if key ∈ l.map (·.1) then G key else f.db i key) else f.db j } := by
  induction l with
  | nil =>
    intro f _
    cases f with
    | mk n db bucket =>
      simp only [writesBy, List.map_nil, run, List.foldl_nil, List.not_mem_nil, if_false]
      congr 1
      funext j
      by_cases hj : j = i
      · rw [if_pos hj, hj]
      · rw [if_neg hj]
  | cons p rest ih =>
    intro f hG
    have h1 : run f (writesBy i (p :: rest)) = run (step f (.write i p.1 p.2)) (writesBy i rest) := rfl
    rw [h1, ih _ (fun q hq => hG q (List.mem_cons_of_mem _ hq))]
    cases f with
    | mk n db bucket =>
      simp only [step, Fleet.mk.injEq, true_and, and_true]
      funext j
      by_cases hj : j = i
      · simp only [hj, if_true]
        funext key
        by_cases hk : key ∈ rest.map (·.1)
        · simp [hk]
        · by_cases hkp : key = p.1
          · subst hkp
            simp [hk, upd_same, hG p (List.mem_cons_self ..)]
          · simp [hk, hkp, upd_other _ _ _ _ hkp]
      · simp only [hj, if_false]

theorem writesBy_stepsWF (i : Nat) (l : List (Key × Ver)) (h : ∀ p ∈ l, p.2.WF) :
    StepsWF (writesBy i l) := by
  intro s hs
  obtain ⟨p, hp, rfl⟩ := List.mem_map.mp hs
  exact h p hp

/-- such a schedule is monotone when every written version does not lose against what the
    instance held before the schedule (a key written twice is written with the same version) -/
theorem writesBy_monotone (i : Nat) (G : Key → Option Ver) (l : List (Key × Ver)) :
    ∀ (f : Fleet), (∀ p ∈ l, G p.1 = some p.2) →
      (∀ p ∈ l, join (f.db i p.1) (some p.2) = some p.2) → MonotoneFrom f (writesBy i l) := by
  induction l with
  | nil => intro _ _ _; trivial
  | cons p rest ih =>
    intro f hG hb
    refine ⟨hb p (List.mem_cons_self ..), ?_⟩
    apply ih _ (fun q hq => hG q (List.mem_cons_of_mem _ hq))
    intro q hq
    simp only [step, if_true]
    by_cases hk : q.1 = p.1
    · have : q.2 = p.2 := by
        have h1 := hG q (List.mem_cons_of_mem _ hq)
        have h2 := hG p (List.mem_cons_self ..)
        rw [hk, h2] at h1
        injection h1 with h1; exact h1.symm
      rw [hk, upd_same, this, join_idem]
    · rw [upd_other _ _ _ _ hk]
      exact hb q (List.mem_cons_of_mem _ hq)

end Ls.Abs

namespace Ls.Txn
open Ls Ls.Lmdb Ls.Strategy Ls.Merge

/-! ## 2. the capture as a list of abstract writes -/

theorem captureO_none {o : Option Ver} {appv : Option Bytes} {now : Nat}
    (h : captureO o appv now = none) : o = none := by
  unfold captureO at h
  cases appv with
  | some a =>
    simp only at h
    split at h
    · rename_i hl
      rw [h] at hl; cases hl
    · cases h
  | none =>
    cases o with
    | none => rfl
    | some x => simp only at h; split at h <;> cases h

/-- a captured change is a well-formed version that beats what was stored, under the clock -/
theorem captureO_beats {o : Option Ver} {appv : Option Bytes} {now : Nat} {v : Ver}
    (hclk : ∀ x, o = some x → x.ts < now) (h : captureO o appv now = some v) (hne : some v ≠ o) :
    v.WF ∧ join o (some v) = some v := by
  have key : ∀ (w : Ver), w.ts = now → join o (some w) = some w := by
    intro w hw
    cases o with
    | none => rfl
    | some x =>
      have hx := hclk x rfl
      have hb : w.beats x := Or.inl (by rw [hw]; exact hx)
      simp only [join, Ver.max, hb, if_true]
  unfold captureO at h
  cases appv with
  | some a =>
    simp only at h
    split at h
    · exact absurd h.symm hne
    · have h' := Option.some.inj h; subst h'
      exact ⟨fun hd => (by cases hd), key _ rfl⟩
  | none =>
    cases o with
    | none => cases h
    | some x =>
      simp only at h
      split at h
      · exact absurd h.symm hne
      · have h' := Option.some.inj h; subst h'
        exact ⟨fun _ => rfl, key _ rfl⟩

/-- the keys the capture can touch: the keys of the application DBIs and of their shadows -/
def capKeys (e : Env) : List Abs.Key :=
  e.dbis.flatMap fun d =>
    if isPrivate d.name then [] else
      (d.kvs.map fun p => (d.name, p.1)) ++
      (match findDbi e.dbis (shadowName d.name) with
       | none => []
       | some sd => sd.kvs.map fun p => (d.name, p.1))

/-- the changes of the capture at time `now`: the keys whose captured version differs from the
    stored one, with the captured version -/
def capPairs (e : Env) (now : Nat) : List (Abs.Key × Ver) :=
  (capKeys e).filterMap fun key =>
    match capture (absShadow e) (appView e) now key with
    | some v => if some v ≠ absShadow e key then some (key, v) else none
    | none => none

/-- **the abstract writes of a capture**: instance `i` writes, for exactly the captured keys,
    `(now, live, value)` resp. `(now, deleted, ∅)` -/
def capWrites (i : Nat) (e : Env) (now : Nat) : List Abs.Step := Abs.writesBy i (capPairs e now)

/-- all application DBIs (hence their shadows) are byte-ordered -/
def ByteOrd (dbis : List Dbi) : Prop :=
  ∀ n d, isPrivate n = false → findDbi dbis n = some d → isIntKey d.flags = false

theorem kcmp_false_eq {a b : Bytes} : kcmp false a b = 0 ↔ a = b := by
  simp only [kcmp, Bool.false_eq_true, if_false]; exact bcmp_eq

theorem get_false_none {db : KVs} {k : Bytes} (h : k ∉ db.map (·.1)) : get false db k = none := by
  apply get_none_of_ne
  intro p hp h0
  exact h (kcmp_false_eq.mp h0 ▸ List.mem_map_of_mem hp)

theorem mem_capKeys_app {e : Env} {n : Bytes} {d : Dbi} (hp : isPrivate n = false)
    (hd : findDbi e.dbis n = some d) {k : Bytes} (hk : k ∈ d.kvs.map (·.1)) : (n, k) ∈ capKeys e := by
  unfold capKeys
  rw [List.mem_flatMap]
  have hn := findDbi_name hd
  refine ⟨d, findDbi_mem hd, ?_⟩
  rw [hn, hp]
  simp only [Bool.false_eq_true, if_false, List.mem_append]
  left
  obtain ⟨p, hpm, rfl⟩ := List.mem_map.mp hk
  exact List.mem_map.mpr ⟨p, hpm, rfl⟩

theorem mem_capKeys_shadow {e : Env} {n : Bytes} {d sd : Dbi} (hp : isPrivate n = false)
    (hd : findDbi e.dbis n = some d) (hsd : findDbi e.dbis (shadowName n) = some sd)
    {k : Bytes} (hk : k ∈ sd.kvs.map (·.1)) : (n, k) ∈ capKeys e := by
  unfold capKeys
  rw [List.mem_flatMap]
  have hn := findDbi_name hd
  refine ⟨d, findDbi_mem hd, ?_⟩
  rw [hn, hp, hsd]
  simp only [Bool.false_eq_true, if_false, List.mem_append]
  right
  obtain ⟨p, hpm, rfl⟩ := List.mem_map.mp hk
  exact List.mem_map.mpr ⟨p, hpm, rfl⟩

/-- off the candidate keys neither the application nor the shadow holds anything -/
theorem off_capKeys {e : Env} (hok : ShOk e.dbis) (hb : ByteOrd e.dbis) {key : Abs.Key}
    (h : key ∉ capKeys e) : appView e key = none ∧ absShadow e key = none := by
  obtain ⟨n, k⟩ := key
  cases hp : isPrivate n with
  | true => exact ⟨appVD_private hp k, absShD_private hp k⟩
  | false =>
    cases hd : findDbi e.dbis n with
    | none =>
      have h0 : findDbi e.dbis (shadowName n) = none := by
        cases hsn : findDbi e.dbis (shadowName n) with
        | none => rfl
        | some sd =>
          obtain ⟨_, d, hd', _⟩ := hok.sh n sd hp hsn
          rw [hd] at hd'; cases hd'
      exact ⟨appVD_of_none hd k, absShD_of_none h0 k⟩
    | some d =>
      have hik := hb n d hp hd
      constructor
      · rw [appView, appVD_of_find hp hd, hik]
        exact get_false_none (fun hk => h (mem_capKeys_app hp hd hk))
      · cases hsn : findDbi e.dbis (shadowName n) with
        | none => exact absShD_of_none hsn k
        | some sd =>
          obtain ⟨_, d', hd', hik'⟩ := hok.sh n sd hp hsn
          rw [hd] at hd'; injection hd' with hd'; subst hd'
          rw [absShadow, absShD_of_find hp hsn, hik', hik, get_false_none
            (fun hk => h (mem_capKeys_shadow hp hd hsn hk))]
          rfl

theorem mem_capPairs {e : Env} {now : Nat} {p : Abs.Key × Ver} (h : p ∈ capPairs e now) :
    capture (absShadow e) (appView e) now p.1 = some p.2 ∧ some p.2 ≠ absShadow e p.1 := by
  unfold capPairs at h
  obtain ⟨key, _, hk⟩ := List.mem_filterMap.mp h
  split at hk
  · rename_i v hv
    split at hk
    · rename_i hne
      injection hk with hk; subst hk
      exact ⟨hv, hne⟩
    · cases hk
  · cases hk

theorem mem_capPairs_keys {e : Env} {now : Nat} {key : Abs.Key} {v : Ver} (hk : key ∈ capKeys e)
    (hv : capture (absShadow e) (appView e) now key = some v) (hne : some v ≠ absShadow e key) :
    key ∈ (capPairs e now).map (·.1) := by
  refine List.mem_map.mpr ⟨(key, v), ?_, rfl⟩
  unfold capPairs
  refine List.mem_filterMap.mpr ⟨key, hk, ?_⟩
  rw [hv]
  simp only [hne, ne_eq, not_false_eq_true, if_true]

/-- **the capture is its list of abstract writes**: run on an abstract fleet whose instance `i`
    holds `absShadow e`, the writes `capWrites i e now` turn exactly that database into
    `capture (absShadow e) (appView e) now`; the written versions are well-formed and — under the
    clock — none loses against what the instance holds -/
theorem capWrites_run {e : Env} (hok : ShOk e.dbis) (hb : ByteOrd e.dbis) (i now : Nat)
    (hclk : ∀ key x, absShadow e key = some x → x.ts < now)
    (F : Abs.Fleet) (hF : F.db i = absShadow e) :
    Abs.run F (capWrites i e now) =
      { F with db := fun j => if j = i then capture (absShadow e) (appView e) now else F.db j } ∧
    Abs.StepsWF (capWrites i e now) ∧ Abs.MonotoneFrom F (capWrites i e now) := by
  have hG : ∀ p ∈ capPairs e now, capture (absShadow e) (appView e) now p.1 = some p.2 :=
    fun p hp => (mem_capPairs hp).1
  have hbeat : ∀ p ∈ capPairs e now, p.2.WF ∧ join (F.db i p.1) (some p.2) = some p.2 := by
    intro p hp
    obtain ⟨h1, h2⟩ := mem_capPairs hp
    rw [hF]
    exact captureO_beats (fun x hx => hclk p.1 x hx) h1 h2
  refine ⟨?_, Abs.writesBy_stepsWF i _ (fun p hp => (hbeat p hp).1),
    Abs.writesBy_monotone i _ _ F hG (fun p hp => (hbeat p hp).2)⟩
  unfold capWrites
  rw [Abs.run_writesBy i (capture (absShadow e) (appView e) now) _ F hG]
  congr 1
  funext j
  by_cases hj : j = i
  · simp only [hj, if_true]
    funext key
    by_cases hm : key ∈ (capPairs e now).map (·.1)
    · rw [if_pos hm]
    · rw [if_neg hm, hF]
      by_cases hk : key ∈ capKeys e
      · cases hv : capture (absShadow e) (appView e) now key with
        | none => exact (captureO_none hv)
        | some v =>
          by_cases hne : some v = absShadow e key
          · exact hne.symm
          · exact absurd (mem_capPairs_keys hk hv hne) hm
      · obtain ⟨h1, h2⟩ := off_capKeys hok hb hk
        rw [capture_apply, h1, h2]; rfl
  · simp only [hj, if_false]

/-! ## 3. the invariants of an environment and of a snapshot -/

/-- **the invariant of a shadow-mode environment along a run**: well-formed (`ShadowWF`, here in
    lookup form), all application DBIs byte-ordered, no live shadow version and no application
    value empty (the D7 exclusions) -/
structure EnvInv (e : Env) : Prop where
  sorted : SortedNames e.dbis
  ok : ShOk e.dbis
  nodup : NoDupApp e.dbis
  bytes : ByteOrd e.dbis
  live : NoEmptyLive (absShadow e)
  appne : ∀ key v, appView e key = some v → v ≠ []

/-- **the invariant of a snapshot in the bucket**: `SnapOk`, messages for application DBIs
    announce byte order, no live entry with an empty value -/
structure SnapInv (s : Snap) : Prop where
  ok : SnapOk s
  bytes : ∀ m ∈ s.dbs, isPrivate m.name = false → isIntKey m.flags = false
  live : NoEmptyLive (absSnap s)

/-- decidable form of `ByteOrd` -/
def ByteOrdD (e : Env) : Prop := ∀ d ∈ e.dbis, isPrivate d.name = false → isIntKey d.flags = false

instance (e : Env) : Decidable (ByteOrdD e) := by unfold ByteOrdD; exact inferInstance

theorem appNonEmpty_of_abs {e : Env} (hs : SortedNames e.dbis) (hok : ShOk e.dbis)
    (h : ∀ key v, appView e key = some v → v ≠ []) : AppNonEmpty e := by
  intro d hd hp p hpm
  obtain ⟨pk, pv⟩ := p
  have hf := findDbi_of_mem hs hd
  apply h (d.name, pk) pv
  rw [appView, appVD_of_find hp hf]
  exact get_of_mem (hok.app _ d hp hf).1 hpm

/-- the invariant from decidable predicates -/
theorem envInv_of_decidable {e : Env} (hwf : ShadowWF e) (hl : LiveNonEmpty e) (ha : AppNonEmpty e)
    (hb : ByteOrdD e) : EnvInv e := by
  obtain ⟨hs, hok, hnd⟩ := (shadowWF_iff e).mp hwf
  refine ⟨hs, hok, hnd, ?_, fun key o ho => shadowAll_abs hok hl key o ho, appNonEmpty_abs ha⟩
  intro n d hp hf
  have hn := findDbi_name hf
  exact hb d (findDbi_mem hf) (by rw [hn]; exact hp)

/-- … and back: the invariant gives the decidable predicates the property theorems assume -/
theorem envInv_decidable {e : Env} (h : EnvInv e) :
    ShadowWF e ∧ LiveNonEmpty e ∧ AppNonEmpty e ∧ ByteOrdD e :=
  ⟨(shadowWF_iff e).mpr ⟨h.sorted, h.ok, h.nodup⟩, shadowAll_of_abs h.ok h.live,
   appNonEmpty_of_abs h.sorted h.ok h.appne,
   fun d hd hp => h.bytes _ d hp (findDbi_of_mem h.sorted hd)⟩

/-- the configured create-flag overrides are byte-ordered (decidable) -/
def CfgByte (c : Cfg) : Prop := ∀ p ∈ c.override, isIntKey (p.2 % 2 ^ 16) = false

instance (c : Cfg) : Decidable (CfgByte c) := by unfold CfgByte; exact inferInstance

theorem isIntKey_mod (x : Nat) : isIntKey (x % 2 ^ 16) = isIntKey x := by
  unfold isIntKey Gen.lmdbIntegerKeyFlag
  rw [← Nat.and_two_pow_sub_one_eq_mod, Nat.and_assoc]
  rfl

theorem createFlags_byte {c : Cfg} {m : DbiMsg} (hc : CfgByte c) (hm : isIntKey m.flags = false) :
    isIntKey (createFlags c m) = false := by
  unfold createFlags ovrOf
  cases hf : c.override.find? (fun x => x.1 = m.name) with
  | none => simp only [Option.map_none, Option.getD_none]; rw [isIntKey_mod]; exact hm
  | some p =>
    simp only [Option.map_some, Option.getD_some]
    exact hc p (List.mem_of_find?_eq_some hf)

/-- in a byte-ordered environment every byte-ordered message has the key order of its targets -/
theorem flagsOkSh_of_bytes {c : Cfg} {dbis : List Dbi} {m : DbiMsg} (hc : CfgByte c)
    (hok : ShOk dbis) (hb : ByteOrd dbis) (hp : isPrivate m.name = false)
    (hm : isIntKey m.flags = false) : FlagsOkSh c dbis m := by
  have hcf := createFlags_byte hc hm
  constructor
  · rw [hm]
    cases hd : findDbi dbis m.name with
    | some d => exact hb _ d hp hd
    | none => exact hcf
  · rw [hm]
    cases hs : findDbi dbis (shadowName m.name) with
    | some sd =>
      obtain ⟨_, d, hd, hik⟩ := hok.sh _ sd hp hs
      simp only [Option.getD_some]
      rw [hik]; exact hb _ d hp hd
    | none =>
      simp only [Option.getD_none, newDbi, shadowCreateFlags]
      rw [isIntKey_mask]; exact hcf

/-! ## 4. byte order is kept by every transaction -/

theorem byteOrd_setKvs {dbis : List Dbi} (h : ByteOrd dbis) (n : Bytes) (kvs : KVs) :
    ByteOrd (setKvs dbis n kvs) := by
  intro n' d' hp hf
  rw [findDbi_setKvs] at hf
  cases hd : findDbi dbis n' with
  | none => rw [hd] at hf; cases hf
  | some d =>
    rw [hd] at hf
    simp only [Option.map_some] at hf
    injection hf with hf
    have := h n' d hp hd
    rw [← hf]
    split <;> exact this

theorem loadDbi_byteOrd {c : Cfg} {snap : Snap} {txnID cutoff : Nat} {w w' : W} {m : DbiMsg}
    (hn : c.native = false) (hm : isPrivate m.name = false → isIntKey (createFlags c m) = false)
    (hb : ByteOrd w.dbis) (h : loadDbi c snap txnID cutoff w m = .ok w') : ByteOrd w'.dbis := by
  cases hp : isPrivate m.name with
  | true => rw [loadDbi_private hp] at h; injection h with h; subst h; exact hb
  | false =>
    obtain ⟨_, w1, h1, h2⟩ := loadDbi_ok hp h
    obtain ⟨_, td, s, _, _, rfl⟩ := mergeDbi_ok h2
    apply byteOrd_setKvs
    intro n d hpn hf
    have hl := createDbis_lookup h1 n
    simp only [hn, Bool.false_eq_true, if_false] at hl
    rw [if_neg (fun he => shadowName_ne_app hpn he.symm)] at hl
    rw [hl] at hf
    split at hf
    · injection hf with hf
      cases hd : findDbi w.dbis m.name with
      | some d0 =>
        rw [hd] at hf; simp only [Option.getD_some] at hf; subst hf
        exact hb _ _ hp hd
      | none =>
        rw [hd] at hf; simp only [Option.getD_none] at hf; subst hf
        exact hm hp
    · exact hb n d hpn hf

theorem s2mStep_byteOrd {c : Cfg} {w w1 : W} {m : Bytes} (hb : ByteOrd w.dbis)
    (h : s2mStep c w m = .ok w1) : ByteOrd w1.dbis := by
  cases hp : isPrivate m with
  | true => rw [s2mStep_private hp] at h; injection h with h; subst h; exact hb
  | false =>
    obtain ⟨kvs, dirty, hw⟩ := s2mStep_shape h hp
    subst hw
    exact byteOrd_setKvs hb _ _

/-- a shadow-mode `loadOnce` keeps all application DBIs byte-ordered when the messages' create
    flags are -/
theorem loadOnce_byteOrd {c : Cfg} {e : Env} {snap : Snap} {lastSynced now cutoff : Nat} {r : LoadRes}
    (hn : c.native = false)
    (hm : ∀ m ∈ snap.dbs, isPrivate m.name = false → isIntKey (createFlags c m) = false)
    (hb : ByteOrd e.dbis) (h : loadOnce c e snap lastSynced now cutoff = .ok r) :
    ByteOrd r.env.dbis := by
  obtain ⟨w1, w2, w3, h1, h2, h3, henv, _, _⟩ := loadOnce_shadow_ok hn h
  have hb1 : ByteOrd w1.dbis := by
    by_cases hl : lastSynced < e.lastTxn
    · rw [if_pos hl] at h1
      intro n d hp hf
      rw [mainToShadow_app_unchanged h1 n hp] at hf
      exact hb n d hp hf
    · rw [if_neg hl] at h1; subst h1; exact hb
  have hb2 : ByteOrd w2.dbis := by
    have : ∀ (dbs : List DbiMsg) (w w' : W), (∀ m ∈ dbs, isPrivate m.name = false →
        isIntKey (createFlags c m) = false) → ByteOrd w.dbis →
        dbs.foldlM (loadDbi c snap (e.lastTxn + 1) cutoff) w = .ok w' → ByteOrd w'.dbis := by
      intro dbs
      induction dbs with
      | nil => intro w w' _ hw hh; cases hh; exact hw
      | cons m rest ih =>
        intro w w' hms hw hh
        obtain ⟨wx, hx, hrest⟩ := foldlM_cons_ok hh
        exact ih wx w' (fun m' hm' => hms m' (List.mem_cons_of_mem _ hm'))
          (loadDbi_byteOrd hn (hms m (List.mem_cons_self ..)) hw hx) hrest
    exact this snap.dbs w1 w2 hm hb1 h2
  have hb3 : ByteOrd w3.dbis := by
    rw [shadowToMain_eq] at h3
    exact foldlM_preserves (s2mStep c) (fun x => ByteOrd x.dbis) _
      (fun a _ b b1 hbb hs => s2mStep_byteOrd hbb hs) w2 w3 hb2 h3
  rw [henv]; exact hb3

/-! ## 5. application transactions: a put of a non-empty value, a delete -/

theorem envInv_congr {e e' : Env} (hd : e'.dbis = e.dbis) (h : EnvInv e) : EnvInv e' := by
  cases e with
  | mk dbis lt =>
    cases e' with
    | mk dbis' lt' =>
      simp only at hd
      subst hd
      exact ⟨h.sorted, h.ok, h.nodup, h.bytes, h.live, h.appne⟩

theorem absShadow_congr {e e' : Env} (hd : e'.dbis = e.dbis) : absShadow e' = absShadow e := by
  unfold absShadow; rw [hd]

/-- replacing the content of one application DBI by a sorted list of valid keys with non-empty
    values keeps the invariant and does not touch the shadows -/
theorem setApp_inv {e : Env} (hinv : EnvInv e) {name : Bytes} {d : Dbi}
    (hp : isPrivate name = false) (hd : findDbi e.dbis name = some d) {kvs' : KVs}
    (hS : Sorted false kvs') (hK : DKeysOK kvs') (hne : ∀ p ∈ kvs', p.2 ≠ []) (lt : Nat) :
    EnvInv { dbis := setKvs e.dbis name kvs', lastTxn := lt } ∧
    absShadow { dbis := setKvs e.dbis name kvs', lastTxn := lt } = absShadow e := by
  have hdn : d.name = name := findDbi_name hd
  have hik : isIntKey d.flags = false := hinv.bytes name d hp hd
  -- lookups after the replacement
  have hsh : ∀ n, findDbi (setKvs e.dbis name kvs') (shadowName n) = findDbi e.dbis (shadowName n) := by
    intro n
    rw [findDbi_setKvs]
    cases hf : findDbi e.dbis (shadowName n) with
    | none => rfl
    | some sd =>
      have : ¬ sd.name = name := by
        rw [findDbi_name hf]; exact shadowName_ne_app hp
      simp [this]
  have happ : ∀ n d', findDbi (setKvs e.dbis name kvs') n = some d' →
      ∃ d0, findDbi e.dbis n = some d0 ∧ d'.flags = d0.flags ∧
        ((n = name ∧ d'.kvs = kvs') ∨ d' = d0) := by
    intro n d' hf
    rw [findDbi_setKvs] at hf
    cases hf0 : findDbi e.dbis n with
    | none => rw [hf0] at hf; cases hf
    | some d0 =>
      rw [hf0] at hf
      simp only [Option.map_some] at hf
      injection hf with hf
      refine ⟨d0, rfl, ?_, ?_⟩
      · rw [← hf]; split <;> rfl
      · by_cases hnm : d0.name = name
        · rw [if_pos hnm] at hf
          left
          exact ⟨by rw [← findDbi_name hf0]; exact hnm, by rw [← hf]⟩
        · rw [if_neg hnm] at hf
          right; exact hf.symm
  have habs : absShadow { dbis := setKvs e.dbis name kvs', lastTxn := lt } = absShadow e := by
    funext key
    show absShD _ key = absShD _ key
    unfold absShD
    simp only [hsh]
  refine ⟨⟨sortedNames_setKvs _ _ hinv.sorted, ⟨?_, ?_⟩, ?_, ?_, ?_, ?_⟩, habs⟩
  · intro n d' hpn hf
    obtain ⟨d0, hf0, hfl, hc⟩ := happ n d' hf
    rcases hc with ⟨hn, hk⟩ | hc
    · subst hn
      rw [hd] at hf0; injection hf0 with hf0; subst hf0
      rw [hfl, hik, hk]; exact ⟨hS, hK⟩
    · subst hc; exact hinv.ok.app n _ hpn hf0
  · intro n sd hpn hf
    simp only at hf
    rw [hsh] at hf
    obtain ⟨hwf, d1, hd1, hik1⟩ := hinv.ok.sh n sd hpn hf
    have : ∃ d', findDbi (setKvs e.dbis name kvs') n = some d' ∧ d'.flags = d1.flags := by
      rw [findDbi_setKvs, hd1]
      simp only [Option.map_some]
      refine ⟨_, rfl, ?_⟩
      split <;> rfl
    obtain ⟨d', hd', hfl⟩ := this
    exact ⟨hwf, d', hd', by rw [hfl]; exact hik1⟩
  · intro n d' hpn hf
    obtain ⟨d0, hf0, hfl, _⟩ := happ n d' hf
    rw [hfl]; exact hinv.nodup n d0 hpn hf0
  · intro n d' hpn hf
    obtain ⟨d0, hf0, hfl, _⟩ := happ n d' hf
    rw [hfl]; exact hinv.bytes n d0 hpn hf0
  · rw [habs]; exact hinv.live
  · intro key v hv
    obtain ⟨n, k⟩ := key
    cases hpn : isPrivate n with
    | true => rw [appView, appVD_private hpn] at hv; cases hv
    | false =>
      cases hf : findDbi (setKvs e.dbis name kvs') n with
      | none => rw [appView, appVD_of_none hf] at hv; cases hv
      | some d' =>
        rw [appView, appVD_of_find hpn hf] at hv
        obtain ⟨d0, hf0, hfl, hc⟩ := happ n d' hf
        rcases hc with ⟨_, hk⟩ | hc
        · rw [hk] at hv
          obtain ⟨k', hm, _⟩ := get_some_mem hv
          exact hne _ hm
        · subst hc
          exact hinv.appne (n, k) v (by rw [appView, appVD_of_find hpn hf0]; exact hv)

/-- **an application put of a non-empty value** into a non-private DBI (if the transaction is
    committed at all) keeps the invariant and leaves the shadow content as it was -/
theorem appPut_env_inv {e e' : Env} (hinv : EnvInv e) {name k v : Bytes}
    (hp : isPrivate name = false) (hv : v ≠ []) (h : appTxn e [.put name k v] = some e') :
    EnvInv e' ∧ absShadow e' = absShadow e := by
  cases hd : findDbi e.dbis name with
  | none =>
    have : e'.dbis = e.dbis := by
      simp [appTxn, appRefused, appStep, hd, commit] at h
      rw [← h]
    exact ⟨envInv_congr this hinv, absShadow_congr this⟩
  | some d =>
    have hdup := hinv.nodup name d hp hd
    have hik := hinv.bytes name d hp hd
    cases hk : badKey k with
    | true => simp [appTxn, appRefused, hd, hk] at h
    | false =>
      have he : e' = { dbis := setKvs e.dbis name (put false d.kvs k v), lastTxn := e.lastTxn + 1 } := by
        simp [appTxn, appRefused, appStep, hd, hk, hdup, hik, commit] at h
        rw [← h]
      rw [he]
      obtain ⟨hA, hAK⟩ := hinv.ok.app name d hp hd
      rw [hik] at hA
      refine setApp_inv hinv hp hd (sorted_put hA k v)
        (put_forall (fun k => badKey k = false) hAK hk) ?_ _
      intro p hpm
      rcases put_mem p hpm with h1 | h1
      · rw [h1]; exact hv
      · have hg : get false d.kvs p.1 = some p.2 := get_of_mem hA (by cases p; exact h1)
        exact hinv.appne (name, p.1) p.2 (by rw [appView, appVD_of_find hp hd, hik]; exact hg)

/-- **an application delete** in a non-private DBI keeps the invariant and leaves the shadow
    content as it was -/
theorem appDel_env_inv {e e' : Env} (hinv : EnvInv e) {name k : Bytes}
    (hp : isPrivate name = false) (h : appTxn e [.del name k] = some e') :
    EnvInv e' ∧ absShadow e' = absShadow e := by
  cases hd : findDbi e.dbis name with
  | none =>
    have : e'.dbis = e.dbis := by
      simp [appTxn, appRefused, appStep, hd, commit] at h
      rw [← h]
    exact ⟨envInv_congr this hinv, absShadow_congr this⟩
  | some d =>
    have hdup := hinv.nodup name d hp hd
    have hik := hinv.bytes name d hp hd
    have he : e'.dbis = setKvs e.dbis name (Lmdb.del false d.kvs k).1 := by
      simp [appTxn, appRefused, appStep, hd, hdup, hik, commit] at h
      rw [← h]
    obtain ⟨hA, hAK⟩ := hinv.ok.app name d hp hd
    rw [hik] at hA
    have := setApp_inv hinv hp hd (kvs' := (Lmdb.del false d.kvs k).1) (sorted_del hA k)
      (fun p hpm => hAK p (del_mem p hpm))
      (fun p hpm => by
        have h1 := del_mem p hpm
        have hg : get false d.kvs p.1 = some p.2 := get_of_mem hA (by cases p; exact h1)
        exact hinv.appne (name, p.1) p.2 (by rw [appView, appVD_of_find hp hd, hik]; exact hg))
      e'.lastTxn
    have he' : e' = { dbis := setKvs e.dbis name (Lmdb.del false d.kvs k).1, lastTxn := e'.lastTxn } := by
      cases e'; simp only at he; rw [he]
    rw [he']
    exact this

/-! ## 6. the two Lightning Stream transactions on an environment satisfying the invariant -/

theorem projVer_ne_nil {o : Option Ver} {v : Bytes} (h : projVer o = some v) : v ≠ [] := by
  cases o with
  | none => cases h
  | some x =>
    simp only [projVer] at h
    split at h
    · cases h
    · rename_i hc
      injection h with h
      rw [← h]
      exact fun h0 => hc (Or.inr h0)

/-- **`sendOnce`** (shadow mode, not receive-only, any cut-off) under the invariant and the clock:
    the shadow content and the snapshot's content are the capture; the invariants hold for the
    new environment and for the snapshot; the new environment is `Mirrored` -/
theorem send_env_inv (c : Cfg) (e : Env) (now cutoff : Nat) (r : SendRes)
    (hn : c.native = false) (hro : c.receiveOnly = false)
    (hT : e.lastTxn + 1 < two64) (hnow : now < two64)
    (hinv : EnvInv e) (hclk : ∀ key x, absShadow e key = some x → x.ts < now)
    (h : sendOnce c e now cutoff = .ok r) :
    EnvInv r.env ∧ SnapInv r.snap ∧ Mirrored r.env ∧
    absShadow r.env = capture (absShadow e) (appView e) now ∧
    absSnap r.snap = capture (absShadow e) (appView e) now := by
  obtain ⟨a1, a2, a3, a4, a5, a6, a7⟩ := sendOnce_abs_sh c e now cutoff r hn hro hT hnow
    hinv.sorted hinv.ok hinv.nodup hinv.appne (fun key o v ho _ _ => hclk key o ho) h
  have hsh : absShadow r.env = capture (absShadow e) (appView e) now := funext a4
  have hsn : absSnap r.snap = capture (absShadow e) (appView e) now := by
    funext key; rw [a5 key]; exact a4 key
  have happ : appView r.env = appView e := appVD_congr a3
  have hlive : NoEmptyLive (absShadow r.env) := by
    rw [hsh]; exact noEmptyLive_capture now hinv.live hinv.appne
  refine ⟨⟨a1, a2, ?_, ?_, hlive, ?_⟩, ⟨a6, ?_, ?_⟩, ⟨?_, hlive⟩, hsh, hsn⟩
  · intro n d hp hf; exact hinv.nodup n d hp (by rw [← a3 n hp]; exact hf)
  · intro n d hp hf; exact hinv.bytes n d hp (by rw [← a3 n hp]; exact hf)
  · intro key v hv; rw [happ] at hv; exact hinv.appne key v hv
  · intro m hm _
    obtain ⟨hp, d, hd, hf⟩ := a7 m hm
    rw [hf]; exact hinv.bytes _ d hp hd
  · rw [hsn, ← hsh]; exact hlive
  · intro key; rw [happ, hsh]; exact app_eq_live_capture _ _ now key

/-- **`loadOnce`** (shadow mode, no dupsort hack, cut-off 0) under the invariants, the clock and
    an honest `lastSynced` (the capture runs, or there is nothing to capture): the shadow content
    afterwards is the join of the snapshot with the captured content; the invariant holds again;
    the new environment is `Mirrored` -/
theorem load_env_inv (c : Cfg) (e : Env) (snap : Snap) (lastSynced now : Nat) (r : LoadRes)
    (hn : c.native = false) (hh : c.hack = false) (hcb : CfgByte c)
    (hT : e.lastTxn + 1 < two64) (hnow : now < two64)
    (hinv : EnvInv e) (hsi : SnapInv snap)
    (hclk : ∀ key x, absShadow e key = some x → x.ts < now)
    (hhon : lastSynced < e.lastTxn ∨ Mirrored e)
    (h : loadOnce c e snap lastSynced now 0 = .ok r) :
    EnvInv r.env ∧ Mirrored r.env ∧
    absShadow r.env = (capture (absShadow e) (appView e) now).join (absSnap snap) := by
  have hfl : ∀ m ∈ snap.dbs, isPrivate m.name = false → FlagsOkSh c e.dbis m :=
    fun m hm hp => flagsOkSh_of_bytes hcb hinv.ok hinv.bytes hp (hsi.bytes m hm hp)
  obtain ⟨b1, b2, b3, b4, b5⟩ := loadOnce_abs_sh c e snap lastSynced now r hn hh hT hnow
    hinv.sorted hinv.ok hinv.nodup hsi.ok hfl (fun _ => hinv.appne)
    (fun _ key o v ho _ _ => hclk key o ho) h
  have heq : absShadow r.env = (capture (absShadow e) (appView e) now).join (absSnap snap) := by
    funext key
    have := b4 key
    by_cases hl : lastSynced < e.lastTxn
    · rw [if_pos hl] at this; exact this
    · rw [if_neg hl] at this
      have hm : Mirrored e := by
        rcases hhon with h0 | h0
        · exact absurd h0 hl
        · exact h0
      rw [capture_of_mirrored now hm.1]; exact this
  have hlive : NoEmptyLive (absShadow r.env) := by
    rw [heq]
    exact noEmptyLive_join (noEmptyLive_capture now hinv.live hinv.appne) hsi.live
  have hbytes : ByteOrd r.env.dbis :=
    loadOnce_byteOrd hn (fun m hm hp => createFlags_byte hcb (hsi.bytes m hm hp)) hinv.bytes h
  refine ⟨⟨b1, b2, b3, hbytes, hlive, ?_⟩, mirrored_of_proj b2 b5 hlive, heq⟩
  intro key v hv
  have : appVD r.env.dbis key = projVer (absShD r.env.dbis key) := b5 key
  rw [appView, this] at hv
  exact projVer_ne_nil hv

/-! ## 7. the byte-level fleet in shadow mode -/

/-- a byte-level step of a shadow-mode fleet: an application transaction putting one value or
    deleting one key; `sendOnce` at time `now` (cut-off 0; the snapshot goes to the bucket);
    `loadOnce` of the bucket's snapshot number `idx` at time `now` with the given `lastSynced`
    (cut-off 0) -/
inductive SStep where
  | appWrite (i : Nat) (name key val : Bytes)
  | appDelete (i : Nat) (name key : Bytes)
  | send (i : Nat) (now : Nat)
  | load (i : Nat) (idx : Nat) (lastSynced now : Nat)

/-- one step; a failing (or refused) transaction leaves everything as it was, `done` says
    whether it took place -/
def sstepD (c : Cfg) (f : BFleet) : SStep → BFleet × Bool
  | .appWrite i name key val =>
    match appTxn (f.env i) [.put name key val] with
    | some e' => (setEnv f i e', true)
    | none => (f, false)
  | .appDelete i name key =>
    match appTxn (f.env i) [.del name key] with
    | some e' => (setEnv f i e', true)
    | none => (f, false)
  | .send i now =>
    match sendOnce c (f.env i) now 0 with
    | .ok r => ({ setEnv f i r.env with bucket := f.bucket ++ [(i, r.snap)] }, true)
    | .error _ => (f, false)
  | .load i idx lastSynced now =>
    match f.bucket[idx]? with
    | none => (f, false)
    | some p =>
      match loadOnce c (f.env i) p.2 lastSynced now 0 with
      | .ok r => (setEnv f i r.env, true)
      | .error _ => (f, false)

def sstep (c : Cfg) (f : BFleet) (s : SStep) : BFleet := (sstepD c f s).1

def srun (c : Cfg) (f : BFleet) (steps : List SStep) : BFleet := steps.foldl (sstep c) f

/-- **the abstract fleet a shadow-mode byte-level fleet denotes**: every instance holds the
    logical content of its shadows, the bucket the logical content of the snapshots. The
    application's pending writes are not part of it until a capture detects them. -/
def absShadowFleet (f : BFleet) : Abs.Fleet :=
  { n := f.n, db := fun i => absShadow (f.env i), bucket := f.bucket.map (fun p => (p.1, absSnap p.2)) }

/-- the abstract steps a byte-level step that took place denotes: nothing for an application
    transaction (its writes are materialised when the next capture detects them); for `send` and
    `load` the abstract writes of the capture (`capWrites`: exactly the keys the capture stamps,
    with `(now, live, value)` / `(now, deleted, ∅)`), then the abstract `send` / `load` -/
def absStepsShadow (f : BFleet) : SStep → List Abs.Step
  | .appWrite _ _ _ _ => []
  | .appDelete _ _ _ => []
  | .send i now => capWrites i (f.env i) now ++ [.send i]
  | .load i idx _ now => capWrites i (f.env i) now ++ [.load i idx]

/-- **the abstract schedule of a shadow-mode byte-level run** -/
def absRunShadow (c : Cfg) : BFleet → List SStep → List Abs.Step
  | _, [] => []
  | f, s :: rest =>
    (if (sstepD c f s).2 then absStepsShadow f s else []) ++ absRunShadow c (sstep c f s) rest

/-- side conditions of a step (nothing about its success). An application write puts a NON-EMPTY
    value (D7) into a non-private DBI, a delete concerns a non-private DBI. A Lightning Stream
    transaction happens below transaction id 2^64 at a time `now` below 2^64 that is above every
    timestamp stored in the instance's shadows (shared monotone clock). A load is moreover told
    the truth about local changes: the capture runs (`lastSynced < lastTxn`) or the environment
    is `Mirrored` — this is exactly the discipline finding D9 violates. -/
def SStepOk (f : BFleet) : SStep → Prop
  | .appWrite _ name _ val => isPrivate name = false ∧ val ≠ []
  | .appDelete _ name _ => isPrivate name = false
  | .send i now =>
    (f.env i).lastTxn + 1 < two64 ∧ now < two64 ∧ ClockBelow (f.env i) now
  | .load i _ lastSynced now =>
    (f.env i).lastTxn + 1 < two64 ∧ now < two64 ∧ ClockBelow (f.env i) now ∧
    (lastSynced < (f.env i).lastTxn ∨ Mirrored (f.env i))

def SRunOk (c : Cfg) : BFleet → List SStep → Prop
  | _, [] => True
  | f, s :: rest => SStepOk f s ∧ SRunOk c (sstep c f s) rest

/-- the invariant of a shadow-mode byte-level fleet -/
def SInv (f : BFleet) : Prop := (∀ i, EnvInv (f.env i)) ∧ ∀ p ∈ f.bucket, SnapInv p.2

/-- the instance of a Lightning Stream transaction (`send`, `load`) is `Mirrored` in the fleet `f'`
    (nothing is said for an application transaction) -/
def MirroredAfter (f' : BFleet) : SStep → Prop
  | .send i _ => Mirrored (f'.env i)
  | .load i _ _ _ => Mirrored (f'.env i)
  | _ => True

/-- after every Lightning Stream transaction of the run that took place, its instance is
    `Mirrored` -/
def LsMirrored (c : Cfg) : BFleet → List SStep → Prop
  | _, [] => True
  | f, s :: rest =>
    ((sstepD c f s).2 = true → MirroredAfter (sstep c f s) s) ∧ LsMirrored c (sstep c f s) rest

theorem absShadowFleet_setEnv (f : BFleet) (i : Nat) (e : Env) :
    absShadowFleet (setEnv f i e) =
      { absShadowFleet f with db := fun j => if j = i then absShadow e else (absShadowFleet f).db j } := by
  unfold absShadowFleet setEnv
  simp only [Abs.Fleet.mk.injEq, true_and, and_true]
  funext j
  by_cases hj : j = i <;> simp [hj]

theorem setEnv_inv {f : BFleet} {i : Nat} {e : Env} (hinv : SInv f) (he : EnvInv e) :
    SInv (setEnv f i e) := by
  refine ⟨fun j => ?_, hinv.2⟩
  simp only [setEnv]
  by_cases hj : j = i
  · rw [if_pos hj]; exact he
  · rw [if_neg hj]; exact hinv.1 j

theorem absShadowFleet_wf {f : BFleet} (hinv : SInv f) : Abs.FleetWF (absShadowFleet f) := by
  refine ⟨fun i => absShD_wf (hinv.1 i).ok, ?_⟩
  intro p hp
  simp only [absShadowFleet, List.mem_map] at hp
  obtain ⟨q, _, rfl⟩ := hp
  exact absSnap_wf q.2

/-- **one byte-level step of a shadow-mode fleet refines the abstract steps it denotes** -/
theorem sstep_refines (c : Cfg) (hn : c.native = false) (hh : c.hack = false)
    (hro : c.receiveOnly = false) (hcb : CfgByte c)
    (f : BFleet) (s : SStep) (hinv : SInv f) (hok : SStepOk f s) :
    SInv (sstep c f s) ∧
    ((sstepD c f s).2 = false → sstep c f s = f) ∧
    ((sstepD c f s).2 = true →
      absShadowFleet (sstep c f s) = Abs.run (absShadowFleet f) (absStepsShadow f s) ∧
      Abs.StepsWF (absStepsShadow f s) ∧
      Abs.MonotoneFrom (absShadowFleet f) (absStepsShadow f s) ∧
      MirroredAfter (sstep c f s) s) := by
  cases s with
  | appWrite i name key val =>
    obtain ⟨hp, hv⟩ := hok
    cases ht : appTxn (f.env i) [.put name key val] with
    | none =>
      have hD : sstepD c f (.appWrite i name key val) = (f, false) := by simp only [sstepD, ht]
      unfold sstep; rw [hD]
      exact ⟨hinv, fun _ => rfl, fun h => by cases h⟩
    | some e' =>
      have hD : sstepD c f (.appWrite i name key val) = (setEnv f i e', true) := by
        simp only [sstepD, ht]
      obtain ⟨he, habs⟩ := appPut_env_inv (hinv.1 i) hp hv ht
      unfold sstep; rw [hD]
      refine ⟨setEnv_inv hinv he, fun h => (by cases h), fun _ => ⟨?_, fun _ h => (by cases h), trivial, trivial⟩⟩
      simp only [absStepsShadow, Abs.run, List.foldl_nil]
      rw [absShadowFleet_setEnv, habs]
      cases f with
      | mk n env bucket =>
        simp only [absShadowFleet, Abs.Fleet.mk.injEq, true_and, and_true]
        funext j
        by_cases hj : j = i <;> simp [hj]
  | appDelete i name key =>
    cases ht : appTxn (f.env i) [.del name key] with
    | none =>
      have hD : sstepD c f (.appDelete i name key) = (f, false) := by simp only [sstepD, ht]
      unfold sstep; rw [hD]
      exact ⟨hinv, fun _ => rfl, fun h => by cases h⟩
    | some e' =>
      have hD : sstepD c f (.appDelete i name key) = (setEnv f i e', true) := by
        simp only [sstepD, ht]
      obtain ⟨he, habs⟩ := appDel_env_inv (hinv.1 i) hok ht
      unfold sstep; rw [hD]
      refine ⟨setEnv_inv hinv he, fun h => (by cases h), fun _ => ⟨?_, fun _ h => (by cases h), trivial, trivial⟩⟩
      simp only [absStepsShadow, Abs.run, List.foldl_nil]
      rw [absShadowFleet_setEnv, habs]
      cases f with
      | mk n env bucket =>
        simp only [absShadowFleet, Abs.Fleet.mk.injEq, true_and, and_true]
        funext j
        by_cases hj : j = i <;> simp [hj]
  | send i now =>
    obtain ⟨hT, hnow, hclk⟩ := hok
    have hclk' : ∀ key x, absShadow (f.env i) key = some x → x.ts < now :=
      fun key x hx => shadowAll_abs (hinv.1 i).ok hclk key x hx
    cases hs : sendOnce c (f.env i) now 0 with
    | error err =>
      have hD : sstepD c f (.send i now) = (f, false) := by simp only [sstepD, hs]
      unfold sstep; rw [hD]
      exact ⟨hinv, fun _ => rfl, fun h => by cases h⟩
    | ok r =>
      have hD : sstepD c f (.send i now) =
          ({ setEnv f i r.env with bucket := f.bucket ++ [(i, r.snap)] }, true) := by
        simp only [sstepD, hs]
      obtain ⟨he, hsn, hmir, hsh, hsnap⟩ := send_env_inv c (f.env i) now 0 r hn hro hT hnow
        (hinv.1 i) hclk' hs
      obtain ⟨hrun, hwf, hmono⟩ := capWrites_run (hinv.1 i).ok (hinv.1 i).bytes i now hclk'
        (absShadowFleet f) rfl
      unfold sstep; rw [hD]
      refine ⟨⟨(setEnv_inv hinv he).1, ?_⟩, fun h => (by cases h), fun _ => ⟨?_, ?_, ?_, ?_⟩⟩
      · intro p hp
        simp only [List.mem_append, List.mem_singleton] at hp
        rcases hp with hp | hp
        · exact hinv.2 p hp
        · subst hp; exact hsn
      · simp only [absStepsShadow]
        rw [Abs.run_append, hrun]
        simp only [Abs.run, List.foldl_cons, List.foldl_nil, Abs.step, if_true]
        unfold absShadowFleet setEnv
        simp only [List.map_append, List.map_cons, List.map_nil, Abs.Fleet.mk.injEq, true_and]
        constructor
        · funext j
          by_cases hj : j = i
          · simp only [hj, if_true]; exact hsh
          · simp only [hj, if_false]
        · rw [hsnap]
      · simp only [absStepsShadow]
        rw [Abs.stepsWF_append]
        exact ⟨hwf, fun s hs => by
          simp only [List.mem_singleton] at hs; subst hs; trivial⟩
      · simp only [absStepsShadow]
        rw [Abs.monotoneFrom_append]
        exact ⟨hmono, trivial, trivial⟩
      · simp only [MirroredAfter, setEnv, if_true]; exact hmir
  | load i idx lastSynced now =>
    obtain ⟨hT, hnow, hclk, hhon⟩ := hok
    have hclk' : ∀ key x, absShadow (f.env i) key = some x → x.ts < now :=
      fun key x hx => shadowAll_abs (hinv.1 i).ok hclk key x hx
    cases hb : f.bucket[idx]? with
    | none =>
      have hD : sstepD c f (.load i idx lastSynced now) = (f, false) := by simp only [sstepD, hb]
      unfold sstep; rw [hD]
      exact ⟨hinv, fun _ => rfl, fun h => by cases h⟩
    | some p =>
      cases hl : loadOnce c (f.env i) p.2 lastSynced now 0 with
      | error err =>
        have hD : sstepD c f (.load i idx lastSynced now) = (f, false) := by
          simp only [sstepD, hb, hl]
        unfold sstep; rw [hD]
        exact ⟨hinv, fun _ => rfl, fun h => by cases h⟩
      | ok r =>
        have hD : sstepD c f (.load i idx lastSynced now) = (setEnv f i r.env, true) := by
          simp only [sstepD, hb, hl]
        have hsi : SnapInv p.2 := hinv.2 p (List.mem_of_getElem? hb)
        obtain ⟨he, hmir, heq⟩ := load_env_inv c (f.env i) p.2 lastSynced now r hn hh hcb hT hnow
          (hinv.1 i) hsi hclk' hhon hl
        obtain ⟨hrun, hwf, hmono⟩ := capWrites_run (hinv.1 i).ok (hinv.1 i).bytes i now hclk'
          (absShadowFleet f) rfl
        unfold sstep; rw [hD]
        refine ⟨setEnv_inv hinv he, fun h => (by cases h), fun _ => ⟨?_, ?_, ?_, ?_⟩⟩
        · simp only [absStepsShadow]
          rw [Abs.run_append, hrun, absShadowFleet_setEnv]
          have hb' : (absShadowFleet f).bucket[idx]? = some (p.1, absSnap p.2) := by
            simp [absShadowFleet, hb]
          simp only [Abs.run, List.foldl_cons, List.foldl_nil, Abs.step, hb', if_true]
          simp only [Abs.Fleet.mk.injEq, true_and, and_true]
          funext j
          by_cases hj : j = i
          · simp only [hj, if_true]; exact heq
          · simp only [hj, if_false]
        · simp only [absStepsShadow]
          rw [Abs.stepsWF_append]
          exact ⟨hwf, fun s hs => by
            simp only [List.mem_singleton] at hs; subst hs; trivial⟩
        · simp only [absStepsShadow]
          rw [Abs.monotoneFrom_append]
          exact ⟨hmono, trivial, trivial⟩
        · simp only [MirroredAfter, setEnv, if_true]; exact hmir

/-- **a byte-level run of a shadow-mode fleet refines the abstract run of its abstract schedule** -/
theorem srun_refines (c : Cfg) (hn : c.native = false) (hh : c.hack = false)
    (hro : c.receiveOnly = false) (hcb : CfgByte c) :
    ∀ (steps : List SStep) (f : BFleet), SInv f → SRunOk c f steps →
      absShadowFleet (srun c f steps) = Abs.run (absShadowFleet f) (absRunShadow c f steps) ∧
      SInv (srun c f steps) ∧
      Abs.StepsWF (absRunShadow c f steps) ∧
      Abs.MonotoneFrom (absShadowFleet f) (absRunShadow c f steps) ∧
      LsMirrored c f steps := by
  intro steps
  induction steps with
  | nil => intro f hinv _; exact ⟨rfl, hinv, (fun s hs => by cases hs), trivial, trivial⟩
  | cons s rest ih =>
    intro f hinv hok
    obtain ⟨hs, hrest⟩ := hok
    obtain ⟨hinv', hfalse, htrue⟩ := sstep_refines c hn hh hro hcb f s hinv hs
    obtain ⟨ih1, ih2, ih3, ih4, ih5⟩ := ih (sstep c f s) hinv' hrest
    have hrun : srun c f (s :: rest) = srun c (sstep c f s) rest := rfl
    rw [hrun]
    cases hd : (sstepD c f s).2 with
    | false =>
      have habs : absRunShadow c f (s :: rest) = absRunShadow c (sstep c f s) rest := by
        simp [absRunShadow, hd]
      rw [habs]
      have hf := hfalse hd
      have e : absShadowFleet (sstep c f s) = absShadowFleet f := by rw [hf]
      rw [e] at ih1 ih4
      exact ⟨ih1, ih2, ih3, ih4, fun h => (by rw [hd] at h; cases h), ih5⟩
    | true =>
      obtain ⟨hstep, hwf, hmono, hmir⟩ := htrue hd
      have habs : absRunShadow c f (s :: rest) =
          absStepsShadow f s ++ absRunShadow c (sstep c f s) rest := by
        simp [absRunShadow, hd]
      rw [habs]
      refine ⟨?_, ih2, (Abs.stepsWF_append _ _).mpr ⟨hwf, ih3⟩,
        (Abs.monotoneFrom_append _ _ _).mpr ⟨hmono, by rw [← hstep]; exact ih4⟩, fun _ => hmir, ih5⟩
      rw [Abs.run_append, ← hstep]; exact ih1

/-! ## 8. what the abstract writes of a capture are; decidable forms of the invariants -/

/-- every abstract write of a capture is a write of instance `i` of the captured version of a
    key whose captured version differs from the stored one; and (under the invariant) every such
    key is written -/
theorem capWrites_spec (i : Nat) (e : Env) (now : Nat) :
    (∀ s ∈ capWrites i e now, ∃ key v, s = Abs.Step.write i key v ∧
      capture (absShadow e) (appView e) now key = some v ∧ some v ≠ absShadow e key) ∧
    (EnvInv e → ∀ key, capture (absShadow e) (appView e) now key ≠ absShadow e key →
      ∃ v, capture (absShadow e) (appView e) now key = some v ∧
        Abs.Step.write i key v ∈ capWrites i e now) := by
  constructor
  · intro s hs
    obtain ⟨p, hp, rfl⟩ := List.mem_map.mp hs
    exact ⟨p.1, p.2, rfl, mem_capPairs hp⟩
  · intro hinv key hne
    have hk : key ∈ capKeys e := by
      apply Classical.byContradiction
      intro hk
      obtain ⟨h1, h2⟩ := off_capKeys hinv.ok hinv.bytes hk
      apply hne
      rw [capture_apply, h1, h2]; rfl
    cases hv : capture (absShadow e) (appView e) now key with
    | none => exact absurd (by rw [hv]; exact (captureO_none hv).symm) hne
    | some v =>
      refine ⟨v, rfl, ?_⟩
      have hne' : some v ≠ absShadow e key := by rw [← hv]; exact hne
      obtain ⟨p, hp, hpk⟩ := List.mem_map.mp (mem_capPairs_keys hk hv hne')
      have := (mem_capPairs hp).1
      rw [hpk, hv] at this
      injection this with this
      refine List.mem_map.mpr ⟨p, hp, ?_⟩
      rw [hpk, ← this]

/-- decidable form of the snapshot invariant -/
def SnapInvD (s : Snap) : Prop :=
  SnapOk s ∧ (∀ m ∈ s.dbs, isPrivate m.name = false → isIntKey m.flags = false) ∧ SnapLiveNonEmpty s

instance (s : Snap) : Decidable (SnapInvD s) := by unfold SnapInvD; exact inferInstance

theorem snapInv_of_decidable {s : Snap} (h : SnapInvD s) : SnapInv s :=
  ⟨h.1, h.2.1, snapLiveNonEmpty_abs h.2.2⟩

deriving instance DecidableEq for Abs.Step

end Ls.Txn
