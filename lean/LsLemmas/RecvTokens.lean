import LsLemmas.RecvStep
/-
  Receiver model: token conservation is an inductive invariant. Core Lean only.
-/
namespace Ls.Recv
variable {ι : Type} [DecidableEq ι]

/-- downloaders that hold a download token -/
def dlHeld (s : St ι) : Nat := AL.count (fun x : Dl => x.pc.hasDl) s.dls
/-- downloaders that hold a decompress token not yet attached to an `Update` -/
def dcHeld (s : St ι) : Nat := AL.count (fun x : Dl => x.pc.hasDc) s.dls

@[simp] theorem hasDl_idle : Pc.hasDl .idle = false := rfl
@[simp] theorem hasDl_check : Pc.hasDl .check = false := rfl
@[simp] theorem hasDl_wantDl (t : Nat) : Pc.hasDl (.wantDl t) = false := rfl
@[simp] theorem hasDl_loading (t : Nat) : Pc.hasDl (.loading t) = true := rfl
@[simp] theorem hasDl_wantDc (t : Nat) (b : Bool) : Pc.hasDl (.wantDc t b) = true := rfl
@[simp] theorem hasDl_decoding (t : Nat) (b : Bool) : Pc.hasDl (.decoding t b) = true := rfl
@[simp] theorem hasDl_backoff : Pc.hasDl .backoff = false := rfl
@[simp] theorem hasDc_idle : Pc.hasDc .idle = false := rfl
@[simp] theorem hasDc_check : Pc.hasDc .check = false := rfl
@[simp] theorem hasDc_wantDl (t : Nat) : Pc.hasDc (.wantDl t) = false := rfl
@[simp] theorem hasDc_loading (t : Nat) : Pc.hasDc (.loading t) = false := rfl
@[simp] theorem hasDc_wantDc (t : Nat) (b : Bool) : Pc.hasDc (.wantDc t b) = false := rfl
@[simp] theorem hasDc_decoding (t : Nat) (b : Bool) : Pc.hasDc (.decoding t b) = true := rfl
@[simp] theorem hasDc_backoff : Pc.hasDc .backoff = false := rfl

/-- 1 if the consumer holds an update -/
def held : Option (ι × Nat) → Nat
  | none => 0
  | some _ => 1

structure Inv (s : St ι) : Prop where
  nodup : (s.dls.map Prod.fst).Nodup
  tokDl : s.dlFree + dlHeld s = s.dlLimit
  tokDc : s.dcFree + dcHeld s + s.pending.length + held s.holding = s.dcLimit

theorem cnt_set (p : Pc → Bool) {s : St ι} {d : ι} {x : Dl} (hx : getDl s d = some x) (x' : Dl) :
    AL.count (fun y : Dl => p y.pc) (AL.set s.dls d x') + (if p x.pc then 1 else 0)
      = AL.count (fun y : Dl => p y.pc) s.dls + (if p x'.pc then 1 else 0) :=
  AL.count_set_some (fun y : Dl => p y.pc) x' hx

omit [DecidableEq ι] in
theorem inv_init (own : ι) (a b : Nat) : Inv (init own a b) := by
  constructor <;> simp [init, dlHeld, dcHeld, AL.count, held]

theorem nodup_setDl {s : St ι} (h : (s.dls.map Prod.fst).Nodup) (d : ι) (x : Dl) :
    ((setDl s d x).dls.map Prod.fst).Nodup := AL.nodup_set h _ _

theorem inv_step {s s' : St ι} {x : Step ι} (hi : Inv s) (h : step s x = some s') : Inv s' := by
  obtain ⟨hn, h1, h2⟩ := hi
  unfold dlHeld at h1
  unfold dcHeld at h2
  cases x with
  | runOnce inc ok =>
    have e := step_runOnce h
    cases ok with
    | false => subst e; exact ⟨hn, h1, h2⟩
    | true =>
      simp only [if_true] at e
      subst e
      refine ⟨runOnce_nodup inc s hn, ?_, ?_⟩
      · unfold dlHeld; rw [runOnce_count inc Pc.hasDl rfl, runOnce_frame]; exact h1
      · unfold dcHeld; rw [runOnce_count inc Pc.hasDc rfl, runOnce_frame]; exact h2
  | wake d =>
    obtain ⟨x, hx, hpc, _, rfl⟩ := step_wake h
    have c1 := cnt_set Pc.hasDl hx { x with signal := false, pc := .check }
    have c2 := cnt_set Pc.hasDc hx { x with signal := false, pc := .check }
    simp [hpc] at c1 c2
    refine ⟨nodup_setDl hn _ _, ?_, ?_⟩ <;> simp only [dlHeld, dcHeld, setDl] <;> omega
  | check d =>
    obtain ⟨x, hx, hpc, hc⟩ := step_check h
    rcases hc with ⟨_, rfl⟩ | ⟨t, _, _, rfl⟩
    · have c1 := cnt_set Pc.hasDl hx { x with pc := .idle }
      have c2 := cnt_set Pc.hasDc hx { x with pc := .idle }
      simp [hpc] at c1 c2
      refine ⟨nodup_setDl hn _ _, ?_, ?_⟩ <;> simp only [dlHeld, dcHeld, setDl] <;> omega
    · have c1 := cnt_set Pc.hasDl hx { x with pc := .wantDl t }
      have c2 := cnt_set Pc.hasDc hx { x with pc := .wantDl t }
      simp [hpc] at c1 c2
      refine ⟨nodup_setDl hn _ _, ?_, ?_⟩ <;> simp only [dlHeld, dcHeld, setDl] <;> omega
  | acqDl d =>
    obtain ⟨x, t, hx, hpc, hf, rfl⟩ := step_acqDl h
    have c1 := cnt_set Pc.hasDl hx { x with pc := .loading t }
    have c2 := cnt_set Pc.hasDc hx { x with pc := .loading t }
    simp [hpc] at c1 c2
    refine ⟨nodup_setDl hn _ _, ?_, ?_⟩ <;> simp only [dlHeld, dcHeld, setDl] <;> omega
  | load d r =>
    obtain ⟨x, t, hx, hpc, hc⟩ := step_load h
    rcases hc with ⟨_, b, _, rfl⟩ | ⟨_, rfl⟩
    · have c1 := cnt_set Pc.hasDl hx { x with pc := .wantDc t b.bad }
      have c2 := cnt_set Pc.hasDc hx { x with pc := .wantDc t b.bad }
      simp [hpc] at c1 c2
      refine ⟨nodup_setDl hn _ _, ?_, ?_⟩ <;> simp only [dlHeld, dcHeld, setDl] <;> omega
    · have c1 := cnt_set Pc.hasDl hx { x with pc := .backoff }
      have c2 := cnt_set Pc.hasDc hx { x with pc := .backoff }
      simp [hpc] at c1 c2
      refine ⟨nodup_setDl hn _ _, ?_, ?_⟩ <;> simp only [dlHeld, dcHeld, setDl] <;> omega
  | acqDc d =>
    obtain ⟨x, t, bad, hx, hpc, hf, rfl⟩ := step_acqDc h
    have c1 := cnt_set Pc.hasDl hx { x with pc := .decoding t bad }
    have c2 := cnt_set Pc.hasDc hx { x with pc := .decoding t bad }
    simp [hpc] at c1 c2
    refine ⟨nodup_setDl hn _ _, ?_, ?_⟩ <;> simp only [dlHeld, dcHeld, setDl] <;> omega
  | decode d =>
    obtain ⟨x, t, bad, hx, hpc, hc⟩ := step_decode h
    rcases hc with ⟨_, rfl⟩ | ⟨_, rfl⟩
    · have c1 := cnt_set Pc.hasDl hx { x with last := some t, pc := .backoff }
      have c2 := cnt_set Pc.hasDc hx { x with last := some t, pc := .backoff }
      simp [hpc] at c1 c2
      refine ⟨nodup_setDl hn _ _, ?_, ?_⟩ <;> simp only [dlHeld, dcHeld, setDl] <;> omega
    · have c1 := cnt_set Pc.hasDl hx { x with last := some t, pc := .idle }
      have c2 := cnt_set Pc.hasDc hx { x with last := some t, pc := .idle }
      simp [hpc] at c1 c2
      have hl := AL.length_set s.pending d t
      refine ⟨nodup_setDl hn _ _, ?_, ?_⟩ <;> simp only [dlHeld, dcHeld, setDl]
      · omega
      · rw [hl]; split <;> simp_all <;> omega
  | retry d =>
    obtain ⟨x, hx, hpc, rfl⟩ := step_retry h
    have c1 := cnt_set Pc.hasDl hx { x with pc := .check }
    have c2 := cnt_set Pc.hasDc hx { x with pc := .check }
    simp [hpc] at c1 c2
    refine ⟨nodup_setDl hn _ _, ?_, ?_⟩ <;> simp only [dlHeld, dcHeld, setDl] <;> omega
  | next d =>
    obtain ⟨hh, t, hp, rfl⟩ := step_next h
    have hl := AL.length_erase hp
    refine ⟨hn, h1, ?_⟩
    simp only [dcHeld]
    rw [hh] at h2
    simp [held] at h2 ⊢
    omega
  | close =>
    obtain ⟨n, hh, rfl⟩ := step_close h
    refine ⟨hn, h1, ?_⟩
    simp only [dcHeld]
    rw [hh] at h2
    simp [held] at h2 ⊢
    omega
  | put b => rw [step_put h]; exact ⟨hn, h1, h2⟩
  | rm d t => rw [step_rm h]; exact ⟨hn, h1, h2⟩

theorem inv_run {s s' : St ι} (steps : List (Step ι)) (hi : Inv s) (h : run s steps = some s') : Inv s' :=
  run_induct Inv (fun _ _ => True) (fun _ _ _ hp _ hs => inv_step hp hs) steps s s' hi (allOk_true s steps) h

end Ls.Recv
