import LsLemmas.LoopStep
/-
  Schedules of one sync loop, and ghost bookkeeping around the model's state.

  A schedule is a list of events folded from `init env`:
    go i      – the loop runs from its yield point to the next one (`SyncLoop.go`),
    app ops   – an application transaction commits at the current yield point (`appCommit`),
    list      – the receiver lists the bucket (`listed`),
    others bs – other instances store blobs.
  The ghost state `G` wraps the model's `St` and the bucket; it never influences the model
  (`G.st`/`G.bucket` evolve exactly by `go` / `appCommit` / `listed`, see `step_st`).
-/
namespace Ls.Loop
open Ls Ls.Txn Ls.SyncLoop

inductive Ev where
  | go (i : In)
  | app (ops : List AppOp)
  | list
  | others (bs : List Blob)

/-- ghost bookkeeping (never read by the model) -/
structure Gh where
  /-- ids of recorded application transactions not known to be captured into the shadow DBIs
      (cleared by a `LoadOnce` with `localChanged` and by `SendOnce`'s transaction; the start-up
      capture is deliberately not counted, which only makes the set larger) -/
  uncap : List Nat
  /-- ids of recorded application transactions made after the latest dump (`SendOnce`
      transaction) began — no dump covers them yet -/
  unpub : List Nat
  /-- ids covered by a dump that has not been stored (yet) -/
  inflight : List Nat
  /-- ids covered by a dump that was stored in the bucket -/
  published : List Nat
  /-- all ids of recorded application transactions -/
  allApp : List Nat
  /-- ids of the application transactions recorded since the latest `beforeInfo` step -/
  sinceInfo : List Nat
  /-- an application transaction was recorded since the latest dump began (or since `init`) -/
  appDirty : Bool
  /-- the LMDB was non-empty at start-up and no dump has begun yet in this run -/
  startDirty : Bool
  /-- `appDirty` / `startDirty` at the moment the latest dump began -/
  sendApp : Bool
  sendStart : Bool
  /-- number of blobs this instance stored -/
  stores : Nat
  /-- the waiting set right after start-up -/
  startSet : List InstId
  /-- instances for which a load of one of their snapshots began -/
  merged : List InstId
  /-- instances dropped from the waiting set because the receiver no longer saw them -/
  gone : List InstId

/-- model state, bucket, and ghost bookkeeping -/
structure G where
  st : St
  bucket : Bucket
  gh : Gh

def Gh.init : Gh :=
  { uncap := [], unpub := [], inflight := [], published := [],
    allApp := [], sinceInfo := [], appDirty := false, startDirty := false, sendApp := false,
    sendStart := false, stores := 0, startSet := [], merged := [], gone := [] }

def G.init (env : Env) (b : Bucket) : G := { st := SyncLoop.init env, bucket := b, gh := Gh.init }

/-- did LMDB record this application transaction (it changed something)? -/
def recorded (s : St) (ops : List AppOp) : Bool := (appCommit s ops).env.lastTxn != s.env.lastTxn

/-- ghost effect of the beginning of a dump (`SendOnce`'s transaction committed) -/
def Gh.beginDump (g : Gh) : Gh :=
  { g with uncap := [], inflight := g.inflight ++ g.unpub, unpub := [],
           sendApp := g.appDirty, sendStart := g.startDirty, appDirty := false, startDirty := false }

/-- ghost effect of a recorded application transaction with id `p` -/
def Gh.app (g : Gh) (p : Nat) : Gh :=
  { g with uncap := p :: g.uncap, unpub := p :: g.unpub, allApp := p :: g.allApp,
           sinceInfo := p :: g.sinceInfo, appDirty := true }

/-- the instance whose snapshot `goRaw` starts to load from state `s` with input `i`, if any -/
def pollTarget (b : Bucket) (s : St) (i : In) : Option InstId :=
  let tgt : Option InstId :=
    match i.next with
    | none => none
    | some (inst, ts) => (findBlob b inst ts).map fun _ => inst
  match s.pc with
  | .top => tgt
  | .loadAfterTxn _ lc _ _ n => if lc = true ∧ n > maxConsecutive then none else tgt
  | _ => none

/-- does `goRaw` run `afterLoads` from state `s` with input `i`? -/
def runsAfterLoads (s : St) (i : In) : Bool :=
  match s.pc with
  | .top => i.next.isNone
  | .loadAfterTxn _ lc _ _ n => (lc && decide (n > maxConsecutive)) || i.next.isNone
  | _ => false

/-- ghost effect of a `go` segment from state `s` (bucket `b`, input `i`), read off the old
    program counter, the new one (`pc'`) and the new waiting set (`w'`) -/
def Gh.afterGo (g : Gh) (b : Bucket) (s : St) (i : In) (pc' : Pc) (w' : List InstId) : Gh :=
  let g1 : Gh :=
    { g with merged := match pollTarget b s i with
                       | some x => x :: g.merged
                       | none => g.merged,
             gone := if runsAfterLoads s i then
                       g.gone ++ s.waiting.filter (fun x => !s.seen.contains x)
                     else g.gone }
  match s.pc, pc' with
  | .boot, .sendAfterTxn .. =>
    Gh.beginDump { g1 with startDirty := decide (0 < s.env.lastTxn), startSet := w' }
  | .boot, _ => { g1 with startDirty := decide (0 < s.env.lastTxn), startSet := w' }
  | .beforeSend, .sendAfterTxn .. => Gh.beginDump g1
  | .top, .loadAfterTxn _ true .. => { g1 with uncap := [] }
  | .loadAfterTxn .., .loadAfterTxn _ true .. => { g1 with uncap := [] }
  | .beforeInfo, _ => { g1 with sinceInfo := [] }
  | .sendAfterTxn .., .sendStored .. =>
    { g1 with published := g.published ++ g.inflight, inflight := [], stores := g.stores + 1 }
  | _, _ => g1

def step (c : LoopCfg) (g : G) : Ev → G
  | .go i =>
    let r := go c g.bucket g.st i
    { st := r.1, bucket := r.2, gh := g.gh.afterGo g.bucket g.st i r.1.pc r.1.waiting }
  | .app ops =>
    let s' := appCommit g.st ops
    { g with st := s', gh := if recorded g.st ops then g.gh.app s'.env.lastTxn else g.gh }
  | .list => { g with st := listed g.bucket g.st }
  | .others bs => { g with bucket := g.bucket ++ bs }

def runFrom (c : LoopCfg) (g : G) (evs : List Ev) : G := evs.foldl (step c) g

def run (c : LoopCfg) (env : Env) (b : Bucket) (evs : List Ev) : G := runFrom c (G.init env b) evs

/-- the ghost fields never influence the model: state and bucket evolve by the model's functions -/
theorem step_st (c : LoopCfg) (g : G) (e : Ev) :
    ((step c g e).st, (step c g e).bucket) =
      match e with
      | .go i => go c g.bucket g.st i
      | .app ops => (appCommit g.st ops, g.bucket)
      | .list => (listed g.bucket g.st, g.bucket)
      | .others bs => (g.st, g.bucket ++ bs) := by
  cases e <;> rfl

/-! ## the race window (finding D9) -/

/-- The loop is at the yield point directly after one of Lightning Stream's own write
    transactions that turned out EMPTY (LMDB did not record it: `lastTxn` is still below the id the
    transaction had), and the loop is about to take `lastTxn` for that transaction's id:
    after a `LoadOnce` that saw no local change, or after `SendOnce`'s transaction. -/
def Racy (s : St) : Prop :=
  match s.pc with
  | .loadAfterTxn t lc _ _ _ => lc = false ∧ s.env.lastTxn < t
  | .sendAfterTxn _ t _ _ => s.env.lastTxn < t
  | _ => False

/-- the window as DESIGN.md names it (any `LoadOnce`, with or without local change) -/
def RacyWide (s : St) : Prop :=
  match s.pc with
  | .loadAfterTxn t _ _ _ _ => s.env.lastTxn < t
  | .sendAfterTxn _ t _ _ => s.env.lastTxn < t
  | _ => False

instance (s : St) : Decidable (Racy s) := by
  unfold Racy; split <;> infer_instance

instance (s : St) : Decidable (RacyWide s) := by
  unfold RacyWide; split <;> infer_instance

theorem Racy.wide {s : St} (h : Racy s) : RacyWide s := by
  unfold Racy at h; unfold RacyWide
  split <;> simp_all

/-- a schedule (continued from `g`) in which no recorded application transaction commits inside
    the race window -/
def RaceFreeFrom (c : LoopCfg) (R : St → Prop) : G → List Ev → Prop
  | _, [] => True
  | g, e :: es =>
    (match e with
     | .app ops => ¬ (R g.st ∧ recorded g.st ops = true)
     | _ => True) ∧ RaceFreeFrom c R (step c g e) es

instance decRaceFreeFrom (c : LoopCfg) (R : St → Prop) [DecidablePred R] :
    ∀ (g : G) (evs : List Ev), Decidable (RaceFreeFrom c R g evs)
  | _, [] => isTrue trivial
  | g, e :: es =>
    have := decRaceFreeFrom c R (step c g e) es
    match e with
    | .app ops => inferInstanceAs (Decidable (¬ (R g.st ∧ recorded g.st ops = true) ∧ _))
    | .go _ => inferInstanceAs (Decidable (True ∧ _))
    | .list => inferInstanceAs (Decidable (True ∧ _))
    | .others _ => inferInstanceAs (Decidable (True ∧ _))

def RaceFree (c : LoopCfg) (env : Env) (b : Bucket) (evs : List Ev) : Prop :=
  RaceFreeFrom c Racy (G.init env b) evs

def RaceFreeWide (c : LoopCfg) (env : Env) (b : Bucket) (evs : List Ev) : Prop :=
  RaceFreeFrom c RacyWide (G.init env b) evs

instance (c : LoopCfg) (env : Env) (b : Bucket) (evs : List Ev) : Decidable (RaceFree c env b evs) :=
  decRaceFreeFrom c Racy _ _

instance (c : LoopCfg) (env : Env) (b : Bucket) (evs : List Ev) : Decidable (RaceFreeWide c env b evs) :=
  decRaceFreeFrom c RacyWide _ _

theorem RaceFreeFrom.mono {c : LoopCfg} {R R' : St → Prop} (h : ∀ s, R s → R' s) :
    ∀ {g : G} {evs : List Ev}, RaceFreeFrom c R' g evs → RaceFreeFrom c R g evs := by
  intro g evs
  induction evs generalizing g with
  | nil => intro _; trivial
  | cons e es ih =>
    intro ⟨h1, h2⟩
    refine ⟨?_, ih h2⟩
    cases e with
    | app ops => exact fun hh => h1 ⟨h _ hh.1, hh.2⟩
    | _ => trivial

theorem RaceFreeWide.raceFree {c : LoopCfg} {env : Env} {b : Bucket} {evs : List Ev}
    (h : RaceFreeWide c env b evs) : RaceFree c env b evs :=
  RaceFreeFrom.mono (fun _ => Racy.wide) h

/-- no application transaction is recorded in the schedule continued from `g` -/
def NoAppFrom (c : LoopCfg) : G → List Ev → Prop
  | _, [] => True
  | g, e :: es =>
    (match e with
     | .app ops => recorded g.st ops = false
     | _ => True) ∧ NoAppFrom c (step c g e) es

theorem runFrom_append (c : LoopCfg) (g : G) (l1 l2 : List Ev) :
    runFrom c g (l1 ++ l2) = runFrom c (runFrom c g l1) l2 := List.foldl_append

theorem run_snoc (c : LoopCfg) (env : Env) (b : Bucket) (evs : List Ev) (e : Ev) :
    run c env b (evs ++ [e]) = step c (run c env b evs) e := by
  unfold run runFrom; rw [List.foldl_append]; rfl

/-- reachability: an invariant of `step` holds after every schedule -/
theorem run_induct {c : LoopCfg} {env : Env} {b : Bucket} (P : G → Prop)
    (h0 : P (G.init env b)) (hs : ∀ g e, P g → P (step c g e)) (evs : List Ev) :
    P (run c env b evs) := by
  unfold run runFrom
  generalize G.init env b = g at h0
  induction evs generalizing g with
  | nil => exact h0
  | cons e es ih => exact ih _ (hs g e h0)

/-- reachability along race-free schedules -/
theorem run_induct_rf {c : LoopCfg} {R : St → Prop} (P : G → Prop)
    (hs : ∀ g e, P g → (∀ ops, e = .app ops → ¬ (R g.st ∧ recorded g.st ops = true)) → P (step c g e)) :
    ∀ (g : G) (evs : List Ev), P g → RaceFreeFrom c R g evs → P (runFrom c g evs) := by
  intro g evs
  induction evs generalizing g with
  | nil => intro h0 _; exact h0
  | cons e es ih =>
    intro h0 ⟨h1, h2⟩
    refine ih _ (hs g e h0 ?_) h2
    intro ops he; subst he; exact h1

/-! ## the force flag along schedules

  The event language has no arming event (`armForce` is applied by the test harness only,
  `LsModel/DriverLoop.lean` "loop.overdue") and `go` never arms (`go_force`): along every schedule
  from an unarmed state — in particular from `init` — no snapshot is ever overdue. -/

theorem step_unarmed {c : LoopCfg} {g : G} (h : g.st.forceArmed = false) (e : Ev) :
    (step c g e).st.forceArmed = false := by
  cases e with
  | go i => exact go_unarmed h
  | app ops => exact (appCommit_force g.st ops).trans h
  | list => exact h
  | others bs => exact h

theorem forceArmed_runFrom {c : LoopCfg} (g : G) (evs : List Ev) (h : g.st.forceArmed = false) :
    (runFrom c g evs).st.forceArmed = false := by
  induction evs generalizing g with
  | nil => exact h
  | cons e es ih => exact ih (step c g e) (step_unarmed h e)

/-- **no schedule from `init` ever arms the force flag** -/
theorem forceArmed_run (c : LoopCfg) (env : Env) (b : Bucket) (evs : List Ev) :
    (run c env b evs).st.forceArmed = false :=
  forceArmed_runFrom _ evs rfl

end Ls.Loop
