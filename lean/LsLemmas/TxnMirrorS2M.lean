import LsLemmas.TxnMirrorFold
/-
  `shadowToMain` as a whole: which DBIs it changes, and what it leaves in an application DBI.
-/
namespace Ls.Txn
open Ls Ls.Lmdb Ls.Strategy Ls.Merge

theorem s2mStep_shape {c : Cfg} {w w1 : W} {m : Bytes} (h : s2mStep c w m = .ok w1)
    (hp : isPrivate m = false) : ∃ kvs dirty, w1 = ⟨setKvs w.dbis m kvs, dirty⟩ := by
  unfold s2mStep at h
  simp only [hp, Bool.false_eq_true, if_false] at h
  cases hd : findDbi w.dbis m with
  | none => simp [hd, throw, throwThe, MonadExceptOf.throw] at h
  | some d =>
    simp only [hd] at h
    by_cases hdup : isDupSort d.flags = true ∧ ¬ c.hack = true
    · simp [hdup, bind, Except.bind, throw, throwThe, MonadExceptOf.throw] at h
    · simp only [hdup, if_false, bind, Except.bind] at h
      cases hr : readDBI c w (shadowName m) m false with
      | error e => simp [hr] at h
      | ok msg =>
        simp only [hr] at h
        cases hds : isDupSort d.flags with
        | true =>
          simp only [hds, if_true] at h
          cases hda : DupSort.decodeAll msg.entries with
          | error e => simp [hda, throw, throwThe, MonadExceptOf.throw] at h
          | ok es =>
            simp only [hda, pure, Except.pure] at h
            obtain ⟨_, s, _, _, hw⟩ := runOn_ok h
            exact ⟨s.db, s.dirty, hw⟩
        | false =>
          simp only [hds, Bool.false_eq_true, if_false, pure, Except.pure] at h
          obtain ⟨_, s, _, _, hw⟩ := runOn_ok h
          exact ⟨s.db, s.dirty, hw⟩

theorem s2mStep_frame {c : Cfg} {w w1 : W} {m : Bytes} (h : s2mStep c w m = .ok w1) (x : Bytes)
    (hx : ¬ (isPrivate m = false ∧ x = m)) : findDbi w1.dbis x = findDbi w.dbis x := by
  cases hp : isPrivate m with
  | true => rw [s2mStep_private hp] at h; injection h with h; subst h; rfl
  | false =>
    obtain ⟨kvs, dirty, hw⟩ := s2mStep_shape h hp
    subst hw
    have hne : x ≠ m := fun he => hx ⟨hp, he⟩
    simp only [findDbi_setKvsMirror, if_neg hne]

theorem s2mStep_names {c : Cfg} {w w1 : W} {m : Bytes} (h : s2mStep c w m = .ok w1) :
    dbiNames w1 = dbiNames w := by
  cases hp : isPrivate m with
  | true => rw [s2mStep_private hp] at h; injection h with h; subst h; rfl
  | false =>
    obtain ⟨kvs, dirty, hw⟩ := s2mStep_shape h hp
    subst hw
    exact setKvs_names _ _ _

theorem s2mStep_distinct {c : Cfg} {w w1 : W} {m : Bytes} (h : s2mStep c w m = .ok w1)
    (hd : DistinctNames w.dbis) : DistinctNames w1.dbis := by
  cases hp : isPrivate m with
  | true => rw [s2mStep_private hp] at h; injection h with h; subst h; exact hd
  | false =>
    obtain ⟨kvs, dirty, hw⟩ := s2mStep_shape h hp
    subst hw
    exact distinct_setKvs hd _ _

/-- `shadowToMain` keeps the set of DBIs, and never writes a private DBI (in particular no shadow) -/
theorem shadowToMain_frame {c : Cfg} {w w' : W} (h : shadowToMain c w = .ok w') :
    dbiNames w' = dbiNames w ∧ (DistinctNames w.dbis → DistinctNames w'.dbis) ∧
    ∀ p, isPrivate p = true → findDbi w'.dbis p = findDbi w.dbis p := by
  rw [shadowToMain_eq] at h
  refine ⟨?_, ?_, ?_⟩
  · exact foldlM_preserves (s2mStep c) (fun x => dbiNames x = dbiNames w) _
      (fun a _ b b1 hb hs => by rw [s2mStep_names hs]; exact hb) w w' rfl h
  · intro hd
    exact foldlM_preserves (s2mStep c) (fun x => DistinctNames x.dbis) _
      (fun a _ b b1 hb hs => s2mStep_distinct hs hb) w w' hd h
  · intro p hp
    refine fold_frame (s2mStep c) (fun m x => isPrivate m = false ∧ x = m)
      (fun w m w1 hs x hx => s2mStep_frame hs x hx) _ w w' h p ?_
    rintro m _ ⟨hm, rfl⟩
    rw [hp] at hm; cases hm

/-- the DBI of one application name after `shadowToMain` is what that name's own step made of it,
    and that step saw the DBI and its shadow as they were at the start -/
theorem shadowToMain_dbi {c : Cfg} {w w' : W} (hdist : DistinctNames w.dbis)
    (h : shadowToMain c w = .ok w') {n : Bytes} {d : Dbi} (_hp : isPrivate n = false)
    (hd : findDbi w.dbis n = some d) :
    ∃ w1 w2, s2mStep c w1 n = .ok w2 ∧ findDbi w1.dbis n = some d ∧
      findDbi w1.dbis (shadowName n) = findDbi w.dbis (shadowName n) ∧
      findDbi w'.dbis n = findDbi w2.dbis n := by
  rw [shadowToMain_eq] at h
  have hmem : n ∈ dbiNames w := by
    unfold dbiNames
    rw [← findDbi_isSome_iff, hd]; rfl
  obtain ⟨pre, post, hl, hpre, hpost⟩ := nodup_split (distinct_nodup hdist) hmem
  unfold dbiNames at h
  rw [hl] at h
  obtain ⟨w1, w2, h1, h2, h3⟩ := foldlM_split_ok _ _ _ _ _ _ h
  have hfr := fun l a b hh x hx => fold_frame (s2mStep c) (fun m x => isPrivate m = false ∧ x = m)
      (fun w m w1 hs x hx => s2mStep_frame hs x hx) l a b hh x hx
  refine ⟨w1, w2, h2, ?_, ?_, ?_⟩
  · rw [hfr pre w w1 h1 n (by rintro m hm ⟨_, rfl⟩; exact hpre hm)]; exact hd
  · exact hfr pre w w1 h1 _ (by
      rintro m _ ⟨hm, he⟩
      rw [← he, isPrivate_shadowName] at hm; cases hm)
  · exact hfr post w2 w' h3 n (by rintro m hm ⟨_, rfl⟩; exact hpost hm)

/-- an ordinary application DBI after `shadowToMain`: exactly the non-empty application values
    behind the headers of its shadow -/
theorem shadowToMain_nondup {c : Cfg} {w w' : W} (hdist : DistinctNames w.dbis)
    (h : shadowToMain c w = .ok w') {n : Bytes} {d : Dbi} (hp : isPrivate n = false)
    (hd : findDbi w.dbis n = some d) (hnd : isDupSort d.flags = false) :
    ∃ sd kvs', findDbi w.dbis (shadowName n) = some sd ∧
      findDbi w'.dbis n = some { d with kvs := kvs' } ∧
      (∀ p ∈ sd.kvs, ∃ hd v, Header.parse p.2 = .ok (hd, v)) ∧
      (Sorted (isIntKey d.flags) d.kvs → DKeysOK d.kvs →
       Sorted (isIntKey d.flags) sd.kvs → DKeysOK sd.kvs →
        Sorted (isIntKey d.flags) kvs' ∧ DKeysOK kvs' ∧
        ∀ k, get (isIntKey d.flags) kvs' k = (get (isIntKey d.flags) sd.kvs k).bind projVal) := by
  obtain ⟨w1, w2, hs, hd1, hsd1, hfin⟩ := shadowToMain_dbi hdist h hp hd
  obtain ⟨sd, es, s, hsd, hm, hiu, hw2⟩ := s2mStep_nondup_ok hp hd1 hnd hs
  refine ⟨sd, s.db, by rw [← hsd1]; exact hsd, ?_, ?_, ?_⟩
  · rw [hfin, hw2]
    simp only [findDbi_setKvsMirror, if_true, hd1, Option.map_some]
  · intro p hp'
    obtain ⟨e, _, _, hd', hpr, _⟩ := (keyRel_read hm).mem' p hp'
    exact ⟨hd', e.val, hpr⟩
  · intro hA hAK hS hSK
    exact project_get (keyRel_read hm) hA hAK hS hSK hiu

end Ls.Txn
