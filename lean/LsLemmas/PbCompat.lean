import LsLemmas.PbRecord
/-
  Compatibility: on a message of the published schema (PbSpec), the hand-written decoders compute
  the value the declarative semantics assigns — step by step: one loop iteration consumes exactly
  one record and applies exactly the record's field update.
-/
namespace Ls.CodecS
open Ls Ls.Wire Ls.Codec Ls.PbSpec

/-! ### KV level -/

theorem kvStepS_record (p : Bytes) (kv kv' : KV) (r : Rec) (rest : Bytes)
    (h : record p = some (r, rest)) (hf : kvField kv r = some kv') :
    kvStepS p kv = .ok (kv', rest) := by
  obtain ⟨key, n, hd, hn1, hn2, hk64, hfield, hf0, hf29, sh⟩ := record_cases p r rest h
  unfold kvStepS
  simp only [hd, bind_ok]
  unfold kvField at hf
  rw [hfield] at hf
  cases sh with
  | varint v n2 hwt hd2 hn hp hr =>
    simp only [hp] at hf
    by_cases h1 : key / 8 = 1
    · simp [h1] at hf
    by_cases h2 : key / 8 = 2
    · simp [h2] at hf
    by_cases h3 : key / 8 = 3
    · simp [h3] at hf
    by_cases h4 : key / 8 = 4
    · simp [h4] at hf
      subst hf
      simp [h4, hwt, Gen.fieldKVKey, Gen.fieldKVValue, Gen.fieldKVFlags, wtVarint, hd2, hr, two32]
    · simp [h1, h2, h3, h4] at hf
      subst hf
      simp [h1, h2, h3, h4, Gen.fieldKVKey, Gen.fieldKVValue, Gen.fieldKVFlags, Gen.fieldKVTimestampNano,
        skipS_of_shape _ _ _ _ (RecShape.varint v n2 hwt hd2 hn hp hr)]
  | i64 hwt hl hp hr =>
    simp only [hp] at hf
    by_cases h1 : key / 8 = 1
    · simp [h1] at hf
    by_cases h2 : key / 8 = 2
    · simp [h2] at hf
    by_cases h3 : key / 8 = 3
    · simp [h3] at hf
      subst hf
      have : ¬ (p.drop n).length < 8 := by omega
      simp [h3, hwt, Gen.fieldKVKey, Gen.fieldKVValue, Gen.fieldKVFlags, Gen.fieldKVTimestampNano, wtFixed64, hr]
      simp only [List.length_drop] at this
      omega
    by_cases h4 : key / 8 = 4
    · simp [h4] at hf
    · simp [h1, h2, h3, h4] at hf
      subst hf
      simp [h1, h2, h3, h4, Gen.fieldKVKey, Gen.fieldKVValue, Gen.fieldKVFlags, Gen.fieldKVTimestampNano,
        skipS_of_shape _ _ _ _ (RecShape.i64 hwt hl hp hr)]
  | len l n2 hwt hd2 hn hl hp hr =>
    simp only [hp] at hf
    have hnl : ¬ ((p.drop n).drop n2).length < l := by omega
    by_cases h1 : key / 8 = 1
    · simp [h1] at hf
      subst hf
      simp only [h1, hwt, Gen.fieldKVKey, Gen.fieldKVValue, wtLen, true_or, if_true, ne_eq, not_true_eq_false,
        if_false, hd2, bind_ok, hnl, hr]
      simp
    by_cases h2 : key / 8 = 2
    · simp [h2] at hf
      subst hf
      simp only [h2, hwt, Gen.fieldKVKey, Gen.fieldKVValue, wtLen, or_true, if_true, ne_eq, not_true_eq_false,
        if_false, hd2, bind_ok, hnl, hr]
      simp
    by_cases h3 : key / 8 = 3
    · simp [h3] at hf
    by_cases h4 : key / 8 = 4
    · simp [h4] at hf
    · simp [h1, h2, h3, h4] at hf
      subst hf
      simp [h1, h2, h3, h4, Gen.fieldKVKey, Gen.fieldKVValue, Gen.fieldKVFlags, Gen.fieldKVTimestampNano,
        skipS_of_shape _ _ _ _ (RecShape.len l n2 hwt hd2 hn hl hp hr)]
  | i32 hwt hl hp hr =>
    simp only [hp] at hf
    by_cases h1 : key / 8 = 1
    · simp [h1] at hf
    by_cases h2 : key / 8 = 2
    · simp [h2] at hf
    by_cases h3 : key / 8 = 3
    · simp [h3] at hf
    by_cases h4 : key / 8 = 4
    · simp [h4] at hf
    · simp [h1, h2, h3, h4] at hf
      subst hf
      simp [h1, h2, h3, h4, Gen.fieldKVKey, Gen.fieldKVValue, Gen.fieldKVFlags, Gen.fieldKVTimestampNano,
        skipS_of_shape _ _ _ _ (RecShape.i32 hwt hl hp hr)]

theorem foldRecs_cons {α : Type} (f : α → Rec → Option α) (a : α) (r : Rec) (rs : List Rec) :
    foldRecs f a (r :: rs) = match f a r with
      | none => none
      | some a' => foldRecs f a' rs := by
  unfold foldRecs
  simp only [List.foldlM_cons]
  cases f a r <;> rfl

theorem foldRecs_nil {α : Type} (f : α → Rec → Option α) (a : α) : foldRecs f a [] = some a := rfl

/-- the loop of KV.Unmarshal computes the fold of the record semantics -/
theorem kvLoopS_records : ∀ (f : Nat) (p : Bytes) (rs : List Rec) (kv kv' : KV) (fuel : Nat),
    recordsN f p = some rs → foldRecs kvField kv rs = some kv' → p ≠ [] → p.length < fuel →
    kvLoopS fuel p kv = .ok kv' := by
  intro f
  induction f with
  | zero =>
    intro p rs kv kv' fuel hr _ hne _
    cases p with
    | nil => exact absurd rfl hne
    | cons b tl => simp [recordsN] at hr
  | succ f ih =>
    intro p rs kv kv' fuel hr hfold hne hfuel
    cases p with
    | nil => exact absurd rfl hne
    | cons b tl =>
      rw [recordsN_cons] at hr
      rcases hrec : record (b :: tl) with _ | ⟨r, rest⟩
      · simp [hrec] at hr
      simp only [hrec] at hr
      rcases hrs : recordsN f rest with _ | rs'
      · simp [hrs] at hr
      simp only [hrs] at hr
      injection hr with hr; subst hr
      rw [foldRecs_cons] at hfold
      rcases hk : kvField kv r with _ | kv1
      · simp [hk] at hfold
      simp only [hk] at hfold
      cases fuel with
      | zero => omega
      | succ fuel =>
        unfold kvLoopS
        rw [kvStepS_record _ _ _ _ _ hrec hk]
        dsimp only
        split
        · rename_i hnil
          subst hnil
          rw [recordsN_nil] at hrs
          injection hrs with hrs; subst hrs
          rw [foldRecs_nil] at hfold
          injection hfold with hfold; subst hfold; rfl
        · rename_i hnn
          have := adv_length (record_adv _ _ _ hrec)
          exact ih rest rs' kv1 kv' fuel hrs hfold hnn (by omega)

theorem kvUnmarshalS_parseKV (b : Bytes) (kv : KV) (h : parseKV b = some kv) (hne : b ≠ []) :
    kvUnmarshalS b = .ok kv := by
  unfold parseKV records at h
  rcases hr : recordsN b.length b with _ | rs
  · simp [hr] at h
  simp only [hr] at h
  exact kvLoopS_records _ b rs kvZero kv _ hr h hne (Nat.lt_succ_self _)

/-- an entry with a non-empty key is a non-empty message -/
theorem parseKV_nonempty (b : Bytes) (kv : KV) (h : parseKV b = some kv) (hk : kv.key ≠ []) : b ≠ [] := by
  intro hb
  subst hb
  simp [parseKV, records, recordsN, foldRecs, kvZero] at h
  subst h
  exact hk rfl


/-! ### DBI level -/

def hdrOf (d : DBI') : DBIHdr := { name := d.name, flags := d.flags, transform := d.transform }

theorem idxStepS_record (p : Bytes) (d d' : DBI') (r : Rec) (rest : Bytes)
    (h : record p = some (r, rest)) (hf : dbiField d r = some d') :
    idxStepS p (hdrOf d) = .ok (hdrOf d', rest) := by
  obtain ⟨key, n, hd, hn1, hn2, hk64, hfield, hf0, hf29, sh⟩ := record_cases p r rest h
  unfold idxStepS
  simp only [hd, bind_ok]
  unfold dbiField at hf
  rw [hfield] at hf
  cases sh with
  | varint v n2 hwt hd2 hn hp hr =>
    simp only [hp] at hf
    by_cases h1 : key / 8 = 1
    · simp [h1] at hf
    by_cases h2 : key / 8 = 2
    · simp [h2] at hf
    by_cases h3 : key / 8 = 3
    · simp [h3] at hf
      subst hf
      simp [h3, hwt, Gen.fieldDBIEntries, Gen.fieldDBIName, Gen.fieldDBITransform, Gen.fieldDBIFlags, wtVarint, hd2, hr, hdrOf]
    by_cases h4 : key / 8 = 4
    · simp [h4] at hf
    · simp [h1, h2, h3, h4] at hf
      subst hf
      simp [h1, h2, h3, h4, Gen.fieldDBIEntries, Gen.fieldDBIName, Gen.fieldDBITransform, Gen.fieldDBIFlags,
        skipS_of_shape _ _ _ _ (RecShape.varint v n2 hwt hd2 hn hp hr)]
  | i64 hwt hl hp hr =>
    simp only [hp] at hf
    by_cases h1 : key / 8 = 1
    · simp [h1] at hf
    by_cases h2 : key / 8 = 2
    · simp [h2] at hf
    by_cases h3 : key / 8 = 3
    · simp [h3] at hf
    by_cases h4 : key / 8 = 4
    · simp [h4] at hf
    · simp [h1, h2, h3, h4] at hf
      subst hf
      simp [h1, h2, h3, h4, Gen.fieldDBIEntries, Gen.fieldDBIName, Gen.fieldDBITransform, Gen.fieldDBIFlags,
        skipS_of_shape _ _ _ _ (RecShape.i64 hwt hl hp hr)]
  | len l n2 hwt hd2 hn hl hp hr =>
    simp only [hp] at hf
    have hnl : ¬ ((p.drop n).drop n2).length < l := by omega
    by_cases h1 : key / 8 = 1
    · simp [h1] at hf
      subst hf
      simp only [h1, hwt, Gen.fieldDBIEntries, Gen.fieldDBIName, Gen.fieldDBITransform, wtLen, true_or, or_true, if_true, ne_eq,
        not_true_eq_false, if_false, hd2, bind_ok, hnl, hr]
      simp [hdrOf]
    by_cases h2 : key / 8 = 2
    · simp only [h2, (by decide : ¬ (2 : Nat) = 1), if_true, if_false] at hf
      split at hf
      · simp at hf
      injection hf with hf
      subst hf
      simp only [h2, hwt, Gen.fieldDBIEntries, Gen.fieldDBIName, Gen.fieldDBITransform, wtLen, true_or, or_true, if_true, ne_eq,
        not_true_eq_false, if_false, hd2, bind_ok, hnl, hr]
      simp [hdrOf]
    by_cases h3 : key / 8 = 3
    · simp [h3] at hf
    by_cases h4 : key / 8 = 4
    · simp [h4] at hf
      subst hf
      simp only [h4, hwt, Gen.fieldDBIEntries, Gen.fieldDBIName, Gen.fieldDBITransform, wtLen, true_or, or_true, if_true, ne_eq,
        not_true_eq_false, if_false, hd2, bind_ok, hnl, hr]
      simp [hdrOf]
    · simp [h1, h2, h3, h4] at hf
      subst hf
      simp [h1, h2, h3, h4, Gen.fieldDBIEntries, Gen.fieldDBIName, Gen.fieldDBITransform, Gen.fieldDBIFlags,
        skipS_of_shape _ _ _ _ (RecShape.len l n2 hwt hd2 hn hl hp hr)]
  | i32 hwt hl hp hr =>
    simp only [hp] at hf
    by_cases h1 : key / 8 = 1
    · simp [h1] at hf
    by_cases h2 : key / 8 = 2
    · simp [h2] at hf
    by_cases h3 : key / 8 = 3
    · simp [h3] at hf
    by_cases h4 : key / 8 = 4
    · simp [h4] at hf
    · simp [h1, h2, h3, h4] at hf
      subst hf
      simp [h1, h2, h3, h4, Gen.fieldDBIEntries, Gen.fieldDBIName, Gen.fieldDBITransform, Gen.fieldDBIFlags,
        skipS_of_shape _ _ _ _ (RecShape.i32 hwt hl hp hr)]

theorem idxLoopS_records : ∀ (f : Nat) (p : Bytes) (rs : List Rec) (d d' : DBI') (fuel : Nat),
    recordsN f p = some rs → foldRecs dbiField d rs = some d' → p.length < fuel →
    idxLoopS fuel p (hdrOf d) = .ok (hdrOf d') := by
  intro f
  induction f with
  | zero =>
    intro p rs d d' fuel hr hfold hfuel
    cases p with
    | nil =>
      rw [recordsN_nil] at hr; injection hr with hr; subst hr
      rw [foldRecs_nil] at hfold; injection hfold with hfold; subst hfold
      cases fuel with
      | zero => omega
      | succ fuel => simp [idxLoopS]
    | cons b tl => simp [recordsN] at hr
  | succ f ih =>
    intro p rs d d' fuel hr hfold hfuel
    cases fuel with
    | zero => omega
    | succ fuel =>
    cases p with
    | nil =>
      rw [recordsN_nil] at hr; injection hr with hr; subst hr
      rw [foldRecs_nil] at hfold; injection hfold with hfold; subst hfold
      simp [idxLoopS]
    | cons b tl =>
      rw [recordsN_cons] at hr
      rcases hrec : record (b :: tl) with _ | ⟨r, rest⟩
      · simp [hrec] at hr
      simp only [hrec] at hr
      rcases hrs : recordsN f rest with _ | rs'
      · simp [hrs] at hr
      simp only [hrs] at hr
      injection hr with hr; subst hr
      rw [foldRecs_cons] at hfold
      rcases hk : dbiField d r with _ | d1
      · simp [hk] at hfold
      simp only [hk] at hfold
      unfold idxLoopS
      rw [if_neg (by simp), idxStepS_record _ _ _ _ _ hrec hk]
      have := adv_length (record_adv _ _ _ hrec)
      exact ih rest rs' d1 d' fuel hrs hfold (by omega)

theorem indexDataS_parseDBI (b : Bytes) (d : DBI') (h : parseDBI b = some d) :
    indexDataS b = .ok (hdrOf d) := by
  unfold parseDBI records at h
  rcases hr : recordsN b.length b with _ | rs
  · simp [hr] at h
  simp only [hr] at h
  exact idxLoopS_records _ b rs dbiZero d _ hr h (Nat.lt_succ_self _)

/-- entries only grow during the fold -/
theorem dbiField_entries (d d' : DBI') (r : Rec) (h : dbiField d r = some d') :
    (r.field = 2 ∧ ∃ x kv, r.payload = .len x ∧ parseKV x = some kv ∧ d' = { d with entries := d.entries ++ [kv] })
    ∨ (r.field ≠ 2 ∧ d'.entries = d.entries) := by
  unfold dbiField at h
  by_cases h1 : r.field = 1
  · right
    simp only [h1, if_true] at h
    refine ⟨by omega, ?_⟩
    rcases hpl : r.payload with v | x | x | x <;> simp [hpl] at h
    subst h; rfl
  by_cases h2 : r.field = 2
  · left
    simp only [h2, if_true] at h
    refine ⟨h2, ?_⟩
    rcases hpl : r.payload with v | x | x | x <;> simp only [hpl] at h
    · simp at h
    · simp at h
    · rcases hpk : parseKV x with _ | kv
      · simp [hpk] at h
      simp [hpk] at h
      exact ⟨x, kv, rfl, hpk, h.symm⟩
    · simp at h
  by_cases h3 : r.field = 3
  · right
    simp only [h1, h2, h3, if_true, if_false] at h
    refine ⟨h2, ?_⟩
    rcases hpl : r.payload with v | x | x | x <;> simp [hpl] at h
    subst h; rfl
  by_cases h4 : r.field = 4
  · right
    simp only [h1, h2, h3, h4, if_true, if_false] at h
    refine ⟨h2, ?_⟩
    rcases hpl : r.payload with v | x | x | x <;> simp [hpl] at h
    subst h; rfl
  · right
    simp only [h1, h2, h3, h4, if_false] at h
    injection h with h; subst h
    exact ⟨h2, rfl⟩

theorem dbiFold_entries : ∀ (rs : List Rec) (d d' : DBI'), foldRecs dbiField d rs = some d' →
    ∃ es, d'.entries = d.entries ++ es := by
  intro rs
  induction rs with
  | nil => intro d d' h; rw [foldRecs_nil] at h; injection h with h; subst h; exact ⟨[], by simp⟩
  | cons r rs ih =>
    intro d d' h
    rw [foldRecs_cons] at h
    rcases hk : dbiField d r with _ | d1
    · simp [hk] at h
    simp only [hk] at h
    obtain ⟨es, hes⟩ := ih d1 d' h
    rcases dbiField_entries d d1 r hk with ⟨_, x, kv, _, _, hd1⟩ | ⟨_, he⟩
    · subst hd1; exact ⟨kv :: es, by simp [hes]⟩
    · exact ⟨es, by rw [hes, he]⟩

theorem nextS_records : ∀ (f : Nat) (p : Bytes) (rs : List Rec) (d d' : DBI') (fuel : Nat),
    recordsN f p = some rs → foldRecs dbiField d rs = some d' → (∀ e ∈ d'.entries, e.key ≠ []) →
    p.length < fuel →
    (d'.entries = d.entries ∧ nextS fuel p = .ok none) ∨
    (∃ kv rest f2 rs2 d1, nextS fuel p = .ok (some (kv, rest)) ∧ recordsN f2 rest = some rs2 ∧
       foldRecs dbiField d1 rs2 = some d' ∧ d1.entries = d.entries ++ [kv] ∧ rest.length < p.length) := by
  intro f
  induction f with
  | zero =>
    intro p rs d d' fuel hr hfold _ hfuel
    cases p with
    | nil =>
      rw [recordsN_nil] at hr; injection hr with hr; subst hr
      rw [foldRecs_nil] at hfold; injection hfold with hfold; subst hfold
      cases fuel with
      | zero => omega
      | succ fuel => left; simp [nextS]
    | cons b tl => simp [recordsN] at hr
  | succ f ih =>
    intro p rs d d' fuel hr hfold hkeys hfuel
    cases fuel with
    | zero => omega
    | succ fuel =>
    cases p with
    | nil =>
      rw [recordsN_nil] at hr; injection hr with hr; subst hr
      rw [foldRecs_nil] at hfold; injection hfold with hfold; subst hfold
      left; simp [nextS]
    | cons b tl =>
      rw [recordsN_cons] at hr
      rcases hrec : record (b :: tl) with _ | ⟨r, rest⟩
      · simp [hrec] at hr
      simp only [hrec] at hr
      rcases hrs : recordsN f rest with _ | rs'
      · simp [hrs] at hr
      simp only [hrs] at hr
      injection hr with hr; subst hr
      rw [foldRecs_cons] at hfold
      rcases hk : dbiField d r with _ | d1
      · simp [hk] at hfold
      simp only [hk] at hfold
      have hadv := adv_length (record_adv _ _ _ hrec)
      obtain ⟨key, n, hd, hn1, hn2, hk64, hfield, hf0, hf29, sh⟩ := record_cases _ r rest hrec
      unfold nextS
      rw [if_neg (by simp)]
      simp only [hd]
      rcases dbiField_entries d d1 r hk with ⟨hf2, x, kv, hx, hpk, hd1⟩ | ⟨hf2, he⟩
      · -- an entries record: delivered
        right
        have hkey2 : key / 8 = 2 := by omega
        obtain ⟨es, hes⟩ := dbiFold_entries rs' d1 d' hfold
        have hkvmem : kv ∈ d'.entries := by rw [hes, hd1]; simp
        have hkne := hkeys kv hkvmem
        cases sh with
        | varint v n2 hwt hd2 hn hp hr' => rw [hp] at hx; cases hx
        | i64 hwt hl hp hr' => rw [hp] at hx; cases hx
        | i32 hwt hl hp hr' => rw [hp] at hx; cases hx
        | len l n2 hwt hd2 hn hl hp hr' =>
          rw [hp] at hx; injection hx with hx
          have hnl : ¬ ((List.drop n (b :: tl)).drop n2).length < l := by omega
          have hku := kvUnmarshalS_parseKV x kv hpk (parseKV_nonempty x kv hpk hkne)
          refine ⟨kv, rest, f, rs', d1, ?_, hrs, hfold, by rw [hd1], hadv.1⟩
          simp only [hkey2, Gen.fieldDBIEntries, ne_eq, not_true_eq_false, if_false, hwt, wtLen, hd2, hnl, hx, hku, hr']
      · -- any other record: skipped
        have hkey2 : key / 8 ≠ Gen.fieldDBIEntries := by simp [Gen.fieldDBIEntries]; omega
        have hsk : skipS (List.drop n (b :: tl)) (key % 8) = .ok rest := skipS_of_shape _ _ _ _ sh
        simp only [if_pos hkey2, hsk]
        rcases ih rest rs' d1 d' fuel hrs hfold hkeys (by omega) with ⟨h1, h2⟩ | ⟨kv, rest2, f2, rs2, d2, h1, h2, h3, h4, h5⟩
        · left; exact ⟨by rw [h1, he], h2⟩
        · right; exact ⟨kv, rest2, f2, rs2, d2, h1, h2, h3, by rw [h4, he], by omega⟩

theorem iterS_records (n : Nat) : ∀ (fuel f : Nat) (p : Bytes) (rs : List Rec) (d d' : DBI') (acc : List KV),
    recordsN f p = some rs → foldRecs dbiField d rs = some d' → (∀ e ∈ d'.entries, e.key ≠ []) →
    p.length < n → p.length < fuel →
    ∃ es, d'.entries = d.entries ++ es ∧ iterS n fuel p acc = (acc ++ es, .ok ()) := by
  intro fuel
  induction fuel with
  | zero => intro f p rs d d' acc _ _ _ _ h; omega
  | succ fuel ih =>
    intro f p rs d d' acc hr hfold hkeys hn hfuel
    unfold iterS
    rcases nextS_records f p rs d d' n hr hfold hkeys hn with ⟨h1, h2⟩ | ⟨kv, rest, f2, rs2, d1, h1, h2, h3, h4, h5⟩
    · rw [h2]; exact ⟨[], by simp [h1], by simp⟩
    · rw [h1]
      dsimp only
      obtain ⟨es, hes, hit⟩ := ih f2 rest rs2 d1 d' (acc ++ [kv]) h2 h3 hkeys (by omega) (by omega)
      exact ⟨kv :: es, by rw [hes, h4]; simp, by rw [hit]; simp⟩

theorem dbiEntriesS_parseDBI (b : Bytes) (d : DBI') (h : parseDBI b = some d)
    (hkeys : ∀ e ∈ d.entries, e.key ≠ []) : dbiEntriesS b = .ok d.entries := by
  unfold parseDBI records at h
  rcases hr : recordsN b.length b with _ | rs
  · simp [hr] at h
  simp only [hr] at h
  obtain ⟨es, hes, hit⟩ := iterS_records (b.length + 1) (b.length + 1) _ b rs dbiZero d [] hr h hkeys
    (Nat.lt_succ_self _) (Nat.lt_succ_self _)
  unfold dbiEntriesS
  rw [hit]
  simp [dbiZero] at hes
  simp [hes]


/-! ### csproto getters on a record -/

theorem shape_nonempty {p1 : Bytes} {wt : Nat} {payload : Payload} {rest : Bytes}
    (sh : RecShape p1 wt payload rest) : p1 ≠ [] := by
  intro h; subst h
  cases sh with
  | varint v n2 hwt hd2 hn hp hr => simp [decodeVarint] at hd2
  | i64 hwt hl hp hr => simp at hl
  | len l n2 hwt hd2 hn hl hp hr => simp [decodeVarint] at hd2
  | i32 hwt hl hp hr => simp at hl

theorem getBytesS_shape (p1 : Bytes) (maxLen wt : Nat) (payload : Payload) (rest x : Bytes)
    (sh : RecShape p1 wt payload rest) (hp : payload = .len x) (hmax : x.length ≤ maxLen) :
    getBytesS p1 maxLen wt = .ok (x, rest) := by
  have hne := shape_nonempty sh
  cases sh with
  | varint v n2 hwt hd2 hn hp' hr => rw [hp'] at hp; cases hp
  | i64 hwt hl hp' hr => rw [hp'] at hp; cases hp
  | i32 hwt hl hp' hr => rw [hp'] at hp; cases hp
  | len l n2 hwt hd2 hn hl hp' hr =>
    rw [hp'] at hp; injection hp with hp
    simp only [List.length_drop] at hl
    have hlm : l ≤ maxLen := by
      rw [← hp] at hmax
      simp only [List.length_take, List.length_drop] at hmax
      omega
    have hn0 : n2 ≠ 0 := by omega
    have h1 : ¬ (maxLen < l) := by omega
    have h2 : ¬ (p1.length < n2 + l) := by omega
    unfold getBytesS
    simp [hne, hwt, wtLen, hd2, hn0, h1, h2, hp, hr, List.drop_drop]

theorem getInt64S_shape (p1 : Bytes) (wt : Nat) (payload : Payload) (rest : Bytes) (v : Nat)
    (sh : RecShape p1 wt payload rest) (hp : payload = .varint v) :
    getInt64S p1 wt = .ok (toInt64 v, rest) := by
  have hne := shape_nonempty sh
  cases sh with
  | i64 hwt hl hp' hr => rw [hp'] at hp; cases hp
  | i32 hwt hl hp' hr => rw [hp'] at hp; cases hp
  | len l n2 hwt hd2 hn hl hp' hr => rw [hp'] at hp; cases hp
  | varint v' n2 hwt hd2 hn hp' hr =>
    rw [hp'] at hp; injection hp with hp; subst hp
    obtain ⟨g1, _, _, _⟩ := decodeVarint_bounds _ _ _ hd2
    have hn0 : n2 ≠ 0 := by omega
    unfold getInt64S decVarintS
    simp [hne, hwt, wtVarint, hd2, hn0, hr]

theorem getUInt32S_shape (p1 : Bytes) (wt : Nat) (payload : Payload) (rest : Bytes) (v : Nat)
    (sh : RecShape p1 wt payload rest) (hp : payload = .varint v) (hv : v < 2 ^ 32) :
    getUInt32S p1 wt = .ok (v, rest) := by
  have hne := shape_nonempty sh
  cases sh with
  | i64 hwt hl hp' hr => rw [hp'] at hp; cases hp
  | i32 hwt hl hp' hr => rw [hp'] at hp; cases hp
  | len l n2 hwt hd2 hn hl hp' hr => rw [hp'] at hp; cases hp
  | varint v' n2 hwt hd2 hn hp' hr =>
    rw [hp'] at hp; injection hp with hp; subst hp
    obtain ⟨g1, _, _, _⟩ := decodeVarint_bounds _ _ _ hd2
    have hn0 : n2 ≠ 0 := by omega
    have hv' : ¬ (4294967295 < v') := by omega
    unfold getUInt32S decVarintS
    simp [hne, hwt, wtVarint, hd2, hn0, hr, hv']

theorem getFixed64S_shape (p1 : Bytes) (wt : Nat) (payload : Payload) (rest x : Bytes)
    (sh : RecShape p1 wt payload rest) (hp : payload = .i64 x) :
    getFixed64S p1 wt = .ok (leNat x, rest) := by
  have hne := shape_nonempty sh
  cases sh with
  | varint v n2 hwt hd2 hn hp' hr => rw [hp'] at hp; cases hp
  | i32 hwt hl hp' hr => rw [hp'] at hp; cases hp
  | len l n2 hwt hd2 hn hl hp' hr => rw [hp'] at hp; cases hp
  | i64 hwt hl hp' hr =>
    rw [hp'] at hp; injection hp with hp
    have : ¬ p1.length < 8 := by omega
    unfold getFixed64S
    simp [hne, hwt, wtFixed64, this, hp, hr]

theorem decTagS_record (p : Bytes) (key n : Nat) (hd : decodeVarint p = .ok (key, n)) (hn1 : 1 ≤ n)
    (hn2 : n ≤ p.length) (hf0 : key / 8 ≠ 0) (hf26 : key / 8 < 67108864) :
    decTagS p = .ok (key / 8, key % 8, p.drop n) := by
  have hne : p ≠ [] := by intro h; subst h; simp at hn2; omega
  have h1 : ¬ (n < 1 ∨ key < 1 ∨ key > maxTagValue) := by
    simp only [maxTagValue]; omega
  unfold decTagS
  simp only [hne, if_false, hd, bind_ok, h1]

/-! ### Meta level -/

theorem metaStepS_record (p : Bytes) (m m' : Meta) (r : Rec) (rest : Bytes)
    (h : record p = some (r, rest)) (hf : metaField m r = some m')
    (hf26 : r.field < 67108864) (hmax : ∀ x, r.payload = .len x → x.length ≤ defaultMaxFieldLen) :
    metaStepS p m = .ok (m', rest) := by
  obtain ⟨key, n, hd, hn1, hn2, hk64, hfield, hf0, hf29, sh⟩ := record_cases p r rest h
  unfold metaStepS
  rw [decTagS_record p key n hd hn1 hn2 (by omega) (by omega)]
  simp only [bind_ok]
  unfold metaField at hf
  rw [hfield] at hf
  simp only [Gen.fieldMetaGenerationID, Gen.fieldMetaInstanceID, Gen.fieldMetaHostname, Gen.fieldMetaLMDBTxnID,
    Gen.fieldMetaTimestampNano, Gen.fieldMetaDatabaseName, Gen.fieldMetaFromLMDBTxnID]
  by_cases h1 : key / 8 = 1
  · simp only [h1, if_true] at hf ⊢
    rcases hpl : r.payload with v | x | x | x <;> simp [hpl] at hf
    subst hf
    rw [getBytesS_shape _ _ _ _ _ x sh hpl (hmax x hpl)]; rfl
  simp only [h1, if_false] at hf ⊢
  by_cases h2 : key / 8 = 2
  · simp only [h2, if_true] at hf ⊢
    rcases hpl : r.payload with v | x | x | x <;> simp [hpl] at hf
    subst hf
    rw [getBytesS_shape _ _ _ _ _ x sh hpl (hmax x hpl)]; rfl
  simp only [h2, if_false] at hf ⊢
  by_cases h3 : key / 8 = 3
  · simp only [h3, if_true] at hf ⊢
    rcases hpl : r.payload with v | x | x | x <;> simp [hpl] at hf
    subst hf
    rw [getBytesS_shape _ _ _ _ _ x sh hpl (hmax x hpl)]; rfl
  simp only [h3, if_false] at hf ⊢
  by_cases h4 : key / 8 = 4
  · simp only [h4, if_true] at hf ⊢
    rcases hpl : r.payload with v | x | x | x <;> simp [hpl] at hf
    subst hf
    rw [getInt64S_shape _ _ _ _ v sh hpl]; rfl
  simp only [h4, if_false] at hf ⊢
  by_cases h5 : key / 8 = 5
  · simp only [h5, if_true] at hf ⊢
    rcases hpl : r.payload with v | x | x | x <;> simp [hpl] at hf
    subst hf
    rw [getFixed64S_shape _ _ _ _ x sh hpl]; rfl
  simp only [h5, if_false] at hf ⊢
  by_cases h7 : key / 8 = 7
  · simp only [h7, if_true] at hf ⊢
    rcases hpl : r.payload with v | x | x | x <;> simp [hpl] at hf
    subst hf
    rw [getBytesS_shape _ _ _ _ _ x sh hpl (hmax x hpl)]; rfl
  simp only [h7, if_false] at hf ⊢
  by_cases h8 : key / 8 = 8
  · simp only [h8, if_true] at hf ⊢
    rcases hpl : r.payload with v | x | x | x <;> simp [hpl] at hf
    subst hf
    rw [getInt64S_shape _ _ _ _ v sh hpl]; rfl
  simp only [h8, if_false] at hf ⊢
  injection hf with hf; subst hf
  rw [decSkipS_of_shape _ _ _ _ _ sh hmax]; rfl

/-- the side conditions under which csproto's Decoder accepts a record of an embedded Meta -/
def MetaRecOK (r : Rec) : Prop :=
  r.field < 67108864 ∧ ∀ x, r.payload = .len x → x.length ≤ defaultMaxFieldLen

theorem metaLoopS_records : ∀ (f : Nat) (p : Bytes) (rs : List Rec) (m m' : Meta) (fuel : Nat),
    recordsN f p = some rs → foldRecs metaField m rs = some m' → (∀ r ∈ rs, MetaRecOK r) →
    p.length < fuel → metaLoopS fuel p m = .ok m' := by
  intro f
  induction f with
  | zero =>
    intro p rs m m' fuel hr hfold _ hfuel
    cases p with
    | nil =>
      rw [recordsN_nil] at hr; injection hr with hr; subst hr
      rw [foldRecs_nil] at hfold; injection hfold with hfold; subst hfold
      cases fuel with
      | zero => omega
      | succ fuel => simp [metaLoopS]
    | cons b tl => simp [recordsN] at hr
  | succ f ih =>
    intro p rs m m' fuel hr hfold hok hfuel
    cases fuel with
    | zero => omega
    | succ fuel =>
    cases p with
    | nil =>
      rw [recordsN_nil] at hr; injection hr with hr; subst hr
      rw [foldRecs_nil] at hfold; injection hfold with hfold; subst hfold
      simp [metaLoopS]
    | cons b tl =>
      rw [recordsN_cons] at hr
      rcases hrec : record (b :: tl) with _ | ⟨r, rest⟩
      · simp [hrec] at hr
      simp only [hrec] at hr
      rcases hrs : recordsN f rest with _ | rs'
      · simp [hrs] at hr
      simp only [hrs] at hr
      injection hr with hr; subst hr
      rw [foldRecs_cons] at hfold
      rcases hk : metaField m r with _ | m1
      · simp [hk] at hfold
      simp only [hk] at hfold
      have hr0 := hok r (by simp)
      unfold metaLoopS
      rw [if_neg (by simp), metaStepS_record _ _ _ _ _ hrec hk hr0.1 hr0.2]
      have := adv_length (record_adv _ _ _ hrec)
      exact ih rest rs' m1 m' fuel hrs hfold (fun r' hr' => hok r' (by simp [hr'])) (by omega)

def MetaOK (b : Bytes) : Prop := ∀ rs, records b = some rs → ∀ r ∈ rs, MetaRecOK r

theorem metaUnmarshalS_mergeMeta (b : Bytes) (m m' : Meta) (h : mergeMeta m b = some m') (hok : MetaOK b) :
    metaUnmarshalS b m = .ok m' := by
  unfold mergeMeta at h
  rcases hr : records b with _ | rs
  · simp [hr] at h
  simp only [hr] at h
  exact metaLoopS_records _ b rs m m' _ hr h (hok rs hr) (Nat.lt_succ_self _)


/-! ### Snapshot level -/

/-- what `Snapshot.Unmarshal` has collected vs. the value of the message so far -/
def RawRel (raw : SnapRaw) (s : Snapshot') : Prop :=
  raw.formatVersion = s.formatVersion ∧ raw.compatVersion = s.compatVersion ∧ raw.info = s.info ∧
  raw.dbs.map (fun x => (x.hdr, parseDBI x.data)) = s.dbis.map (fun d => (hdrOf d, some d))

/-- side conditions under which csproto's Decoder accepts a top-level record: tag value within
    csproto.MaxTagValue, lengths within snapshot.MaxFieldLength, uint32 fields written in range
    (csproto rejects larger varints instead of truncating), embedded Meta likewise -/
def TopRecOK (r : Rec) : Prop :=
  r.field < 67108864 ∧ (∀ x, r.payload = .len x → x.length ≤ snapshotMaxFieldLen) ∧
  ((r.field = 1 ∨ r.field = 4) → ∀ v, r.payload = .varint v → v < 2 ^ 32) ∧
  (r.field = 2 → ∀ x, r.payload = .len x → MetaOK x)

theorem snapStepS_record (p : Bytes) (raw : SnapRaw) (s s' : Snapshot') (r : Rec) (rest : Bytes)
    (h : record p = some (r, rest)) (hf : snapField s r = some s') (hrel : RawRel raw s) (hok : TopRecOK r) :
    ∃ raw', snapStepS p raw = .ok (raw', rest) ∧ RawRel raw' s' := by
  obtain ⟨key, n, hd, hn1, hn2, hk64, hfield, hf0, hf29, sh⟩ := record_cases p r rest h
  obtain ⟨hf26, hmax, hu32, hmeta⟩ := hok
  obtain ⟨r1, r2, r3, r4⟩ := hrel
  unfold snapStepS
  rw [decTagS_record p key n hd hn1 hn2 (by omega) (by omega)]
  simp only [bind_ok]
  unfold snapField at hf
  rw [hfield] at hf hu32 hmeta
  simp only [Gen.fieldSnapshotFormatVersion, Gen.fieldSnapshotCompatVersion, Gen.fieldSnapshotMeta, Gen.fieldSnapshotDBI]
  by_cases h1 : key / 8 = 1
  · simp only [h1, if_true] at hf ⊢
    rcases hpl : r.payload with v | x | x | x <;> simp [hpl] at hf
    subst hf
    have hv := hu32 (Or.inl h1) v hpl
    rw [getUInt32S_shape _ _ _ _ v sh hpl hv]
    refine ⟨_, rfl, ?_⟩
    exact ⟨by simp; omega, r2, r3, r4⟩
  simp only [h1, if_false] at hf ⊢
  by_cases h2 : key / 8 = 2
  · simp only [h2, (by decide : ¬ (2 : Nat) = 4), if_true, if_false] at hf ⊢
    rcases hpl : r.payload with v | x | x | x <;> simp only [hpl] at hf
    · simp at hf
    · simp at hf
    · rcases hmm : mergeMeta s.info x with _ | m
      · simp [hmm] at hf
      simp [hmm] at hf
      subst hf
      rw [getBytesS_shape _ _ _ _ _ x sh hpl (hmax x hpl)]
      simp only [bind_ok]
      rw [r3, metaUnmarshalS_mergeMeta x s.info m hmm (hmeta h2 x hpl)]
      exact ⟨_, rfl, r1, r2, rfl, r4⟩
    · simp at hf
  simp only [h2, if_false] at hf ⊢
  by_cases h3 : key / 8 = 3
  · simp only [h3, (by decide : ¬ (3 : Nat) = 4), if_true, if_false] at hf ⊢
    rcases hpl : r.payload with v | x | x | x <;> simp only [hpl] at hf
    · simp at hf
    · simp at hf
    · rcases hpd : parseDBI x with _ | d
      · simp [hpd] at hf
      simp [hpd] at hf
      subst hf
      rw [getBytesS_shape _ _ _ _ _ x sh hpl (hmax x hpl)]
      simp only [bind_ok]
      rw [indexDataS_parseDBI x d hpd]
      refine ⟨_, rfl, r1, r2, r3, ?_⟩
      simp [r4, hpd]
    · simp at hf
  simp only [h3, if_false] at hf ⊢
  by_cases h4 : key / 8 = 4
  · simp only [h4, if_true] at hf ⊢
    rcases hpl : r.payload with v | x | x | x <;> simp [hpl] at hf
    subst hf
    have hv := hu32 (Or.inr h4) v hpl
    rw [getUInt32S_shape _ _ _ _ v sh hpl hv]
    refine ⟨_, rfl, ?_⟩
    exact ⟨r1, by simp; omega, r3, r4⟩
  simp only [h4, if_false] at hf ⊢
  injection hf with hf; subst hf
  rw [decSkipS_of_shape _ _ _ _ _ sh hmax]
  exact ⟨_, rfl, r1, r2, r3, r4⟩

theorem snapLoopS_records : ∀ (f : Nat) (p : Bytes) (rs : List Rec) (raw : SnapRaw) (s s' : Snapshot') (fuel : Nat),
    recordsN f p = some rs → foldRecs snapField s rs = some s' → RawRel raw s → (∀ r ∈ rs, TopRecOK r) →
    p.length < fuel → ∃ raw', snapLoopS fuel p raw = .ok raw' ∧ RawRel raw' s' := by
  intro f
  induction f with
  | zero =>
    intro p rs raw s s' fuel hr hfold hrel _ hfuel
    cases p with
    | nil =>
      rw [recordsN_nil] at hr; injection hr with hr; subst hr
      rw [foldRecs_nil] at hfold; injection hfold with hfold; subst hfold
      cases fuel with
      | zero => omega
      | succ fuel => exact ⟨raw, by simp [snapLoopS], hrel⟩
    | cons b tl => simp [recordsN] at hr
  | succ f ih =>
    intro p rs raw s s' fuel hr hfold hrel hok hfuel
    cases fuel with
    | zero => omega
    | succ fuel =>
    cases p with
    | nil =>
      rw [recordsN_nil] at hr; injection hr with hr; subst hr
      rw [foldRecs_nil] at hfold; injection hfold with hfold; subst hfold
      exact ⟨raw, by simp [snapLoopS], hrel⟩
    | cons b tl =>
      rw [recordsN_cons] at hr
      rcases hrec : record (b :: tl) with _ | ⟨r, rest⟩
      · simp [hrec] at hr
      simp only [hrec] at hr
      rcases hrs : recordsN f rest with _ | rs'
      · simp [hrs] at hr
      simp only [hrs] at hr
      injection hr with hr; subst hr
      rw [foldRecs_cons] at hfold
      rcases hk : snapField s r with _ | s1
      · simp [hk] at hfold
      simp only [hk] at hfold
      obtain ⟨raw1, hstep, hrel1⟩ := snapStepS_record _ raw s s1 r rest hrec hk hrel (hok r (by simp))
      have := adv_length (record_adv _ _ _ hrec)
      obtain ⟨raw', hl, hrel'⟩ := ih rest rs' raw1 s1 s' fuel hrs hfold hrel1 (fun r' hr' => hok r' (by simp [hr'])) (by omega)
      refine ⟨raw', ?_, hrel'⟩
      unfold snapLoopS
      rw [if_neg (by simp), hstep]
      exact hl

theorem dbisAllS_rel : ∀ (raws : List DBIRaw) (ds : List DBI'),
    raws.map (fun x => (x.hdr, parseDBI x.data)) = ds.map (fun d => (hdrOf d, some d)) →
    (∀ d ∈ ds, ∀ e ∈ d.entries, e.key ≠ []) → dbisAllS raws = .ok ds
  | [], [], _, _ => rfl
  | [], _ :: _, h, _ => by simp at h
  | _ :: _, [], h, _ => by simp at h
  | x :: raws, d :: ds, h, hk => by
    simp only [List.map_cons, List.cons.injEq, Prod.mk.injEq] at h
    obtain ⟨⟨h1, h2⟩, h3⟩ := h
    unfold dbisAllS
    rw [dbiEntriesS_parseDBI x.data d h2 (hk d (by simp)),
      dbisAllS_rel raws ds h3 (fun d' hd' => hk d' (by simp [hd']))]
    simp only [bind_ok, h1, hdrOf]

/-- side conditions on a message for `C07_compat`, see `TopRecOK` -/
def Conforming (b : Bytes) : Prop := ∀ rs, records b = some rs → ∀ r ∈ rs, TopRecOK r

def LmdbContent (s : Snapshot') : Prop := ∀ d ∈ s.dbis, ∀ e ∈ d.entries, e.key ≠ []

/-- compatibility on the level of the remaining-input decoders -/
theorem decodeAllS_parse (b : Bytes) (s : Snapshot') (h : parse b = some s) (hl : LmdbContent s)
    (hc : Conforming b) : decodeAllS b = .ok s := by
  unfold parse at h
  rcases hr : records b with _ | rs
  · simp [hr] at h
  simp only [hr] at h
  have hrel0 : RawRel snapZero snapZero' := ⟨rfl, rfl, rfl, rfl⟩
  obtain ⟨raw, hloop, r1, r2, r3, r4⟩ := snapLoopS_records _ b rs snapZero snapZero' s (b.length + 1) hr h hrel0
    (hc rs hr) (Nat.lt_succ_self _)
  unfold decodeAllS snapshotUnmarshalS
  rw [hloop]
  simp only [bind_ok]
  rw [dbisAllS_rel raw.dbs s.dbis r4 hl]
  simp only [bind_ok, r1, r2, r3]

end Ls.CodecS
