import LsLemmas.ConcUtil
/-
  Invariants of the Token model (LsModel/Conc.lean): any capacity, any number of goroutines.
-/
namespace Ls.Conc.Token

/-- the token whose mutex a goroutine holds -/
def holdsTok : GPc → Option Nat
  | .rCheck t | .rSend t | .rSet t | .rUnlock t => some t
  | _ => none

/-- what the token looks like at each program counter of the goroutine holding its mutex -/
def pcTok : GPc → Tok → Prop
  | .rSend _, tk => tk.nSends = 0 ∧ tk.released = false
  | .rSet _, tk => tk.nSends = 1 ∧ tk.released = false
  | _, tk => tk.nSends = tk.released.toNat

structure Inv (s : St) : Prop where
  cnt : s.free + unsent s.toks = s.limit
  go : ∀ (g : Nat) (pc : GPc), s.gs[g]? = some pc →
    (∀ t, holdsTok pc = some t → ∃ tk, s.toks[t]? = some tk ∧ tk.mu = some g ∧ pcTok pc tk) ∧
    (∀ t, pc = .rLock t → t < s.toks.length)
  tok : ∀ (t : Nat) (tk : Tok), s.toks[t]? = some tk →
    (tk.mu = none → tk.nSends = tk.released.toNat) ∧
    (∀ g, tk.mu = some g → ∃ pc, s.gs[g]? = some pc ∧ holdsTok pc = some t)

theorem inv_init (limit n : Nat) : Inv (init limit n) := by
  refine ⟨by simp [init, unsent], ?_, ?_⟩
  · intro g pc hg
    simp [init, List.getElem?_replicate] at hg
    obtain ⟨_, rfl⟩ := hg
    simp [holdsTok]
  · intro t tk ht; simp [init] at ht

theorem unsent_set {toks : List Tok} {t : Nat} {tk tk' : Tok} (h : toks[t]? = some tk)
    (hn : tk'.nSends = tk.nSends) : unsent (toks.set t tk') = unsent toks := by
  have := countP_set (fun tk : Tok => decide (tk.nSends = 0)) (y := tk') h
  simp only [hn] at this
  unfold unsent; omega

theorem unsent_set_send {toks : List Tok} {t : Nat} {tk : Tok} (h : toks[t]? = some tk)
    (hn : tk.nSends = 0) : unsent (toks.set t { tk with nSends := tk.nSends + 1 }) + 1 = unsent toks := by
  have := countP_set (fun tk : Tok => decide (tk.nSends = 0)) (y := { tk with nSends := tk.nSends + 1 }) h
  simp [hn] at this
  unfold unsent; simp [hn]; omega

/-- a step that only moves goroutine `g`, keeps the mutex it holds and respects the token -/
theorem inv_move {s : St} (h : Inv s) {g : Nat} {pc pc' : GPc} (hg : s.gs[g]? = some pc)
    (a1 : ∀ t, holdsTok pc' = some t → holdsTok pc = some t ∧
      ∀ tk, s.toks[t]? = some tk → pcTok pc tk → pcTok pc' tk)
    (a2 : ∀ t, holdsTok pc = some t → holdsTok pc' = some t)
    (a3 : ∀ t, pc' = .rLock t → t < s.toks.length) :
    Inv { s with gs := s.gs.set g pc' } := by
  have hgl := lt_of_getElem?_some hg
  refine ⟨h.cnt, ?_, ?_⟩
  · intro g' q hq
    rcases getElem?_set_some hg hq with ⟨rfl, rfl⟩ | ⟨_, hq'⟩
    · refine ⟨fun t ht => ?_, a3⟩
      obtain ⟨h1, h2⟩ := a1 t ht
      obtain ⟨tk, htk, hm, hp⟩ := (h.go g' pc hg).1 t h1
      exact ⟨tk, htk, hm, h2 tk htk hp⟩
    · exact h.go g' q hq'
  · intro t tk ht
    refine ⟨(h.tok t tk ht).1, fun g' hm => ?_⟩
    obtain ⟨q, hq, hh⟩ := (h.tok t tk ht).2 g' hm
    show ∃ q', (s.gs.set g pc')[g']? = some q' ∧ holdsTok q' = some t
    by_cases e : g' = g
    · subst e
      rw [hg] at hq; cases hq
      exact ⟨pc', by simp [hgl], a2 t hh⟩
    · exact ⟨q, by rw [List.getElem?_set_ne (fun e' => e e'.symm)]; exact hq, hh⟩

/-- a step of goroutine `g` on token `t` whose mutex nobody else holds -/
theorem inv_tok {s : St} (h : Inv s) {g t : Nat} {pc pc' : GPc} {tk tk' : Tok} {f' : Nat}
    (hg : s.gs[g]? = some pc) (ht : s.toks[t]? = some tk)
    (b0 : f' + unsent (s.toks.set t tk') = s.limit)
    (b1 : tk.mu = none ∨ tk.mu = some g)
    (b2 : (tk'.mu = some g ∧ holdsTok pc' = some t ∧ pcTok pc' tk') ∨
          (tk'.mu = none ∧ holdsTok pc' = none ∧ tk'.nSends = tk'.released.toNat))
    (b3 : holdsTok pc = none ∨ holdsTok pc = some t)
    (b4 : ∀ t', pc' ≠ .rLock t') :
    Inv { s with free := f', toks := s.toks.set t tk', gs := s.gs.set g pc' } := by
  have hgl := lt_of_getElem?_some hg
  have htl := lt_of_getElem?_some ht
  refine ⟨b0, ?_, ?_⟩
  · intro g' q hq
    show (∀ u, holdsTok q = some u → ∃ x, (s.toks.set t tk')[u]? = some x ∧ x.mu = some g' ∧ pcTok q x) ∧
      (∀ u, q = .rLock u → u < (s.toks.set t tk').length)
    rcases getElem?_set_some hg hq with ⟨rfl, rfl⟩ | ⟨hne, hq'⟩
    · refine ⟨fun u hu => ?_, fun u hu => absurd hu (b4 u)⟩
      rcases b2 with ⟨c1, c2, c3⟩ | ⟨_, c2, _⟩
      · rw [c2] at hu; cases hu
        exact ⟨tk', by simp [htl], c1, c3⟩
      · rw [c2] at hu; cases hu
    · obtain ⟨o1, o2⟩ := h.go g' q hq'
      refine ⟨fun u hu => ?_, fun u hu => by rw [List.length_set]; exact o2 u hu⟩
      obtain ⟨x, hx, hm, hp⟩ := o1 u hu
      have hut : u ≠ t := by
        intro e; subst e
        rw [ht] at hx; cases hx
        rcases b1 with b | b
        · rw [b] at hm; cases hm
        · rw [b] at hm; cases hm; exact hne rfl
      exact ⟨x, by rw [List.getElem?_set_ne (fun e => hut e.symm)]; exact hx, hm, hp⟩
  · intro u x hx
    show (x.mu = none → x.nSends = x.released.toNat) ∧
      ∀ g', x.mu = some g' → ∃ q, (s.gs.set g pc')[g']? = some q ∧ holdsTok q = some u
    rcases getElem?_set_some ht hx with ⟨rfl, rfl⟩ | ⟨hne, hx'⟩
    · rcases b2 with ⟨c1, c2, _⟩ | ⟨c1, _, c3⟩
      · refine ⟨fun e => (by rw [c1] at e; cases e), fun g' e => ?_⟩
        rw [c1] at e; cases e
        exact ⟨pc', by simp [hgl], c2⟩
      · exact ⟨fun _ => c3, fun g' e => (by rw [c1] at e; cases e)⟩
    · refine ⟨(h.tok u x hx').1, fun g' hm => ?_⟩
      obtain ⟨q, hq, hh⟩ := (h.tok u x hx').2 g' hm
      have hgg : g' ≠ g := by
        intro e; subst e
        rw [hg] at hq; cases hq
        rcases b3 with b | b
        · rw [b] at hh; cases hh
        · rw [b] at hh; cases hh; exact hne rfl
      exact ⟨q, by rw [List.getElem?_set_ne (fun e => hgg e.symm)]; exact hq, hh⟩

theorem inv_acquire {s : St} (h : Inv s) {g : Nat} (hg : s.gs[g]? = some .acquiring) (hf : 0 < s.free) :
    Inv { s with free := s.free - 1, toks := s.toks ++ [({} : Tok)], gs := s.gs.set g .idle } := by
  have hgl := lt_of_getElem?_some hg
  refine ⟨?_, ?_, ?_⟩
  · have := h.cnt
    simp [unsent, List.countP_append] at this ⊢; omega
  · intro g' q hq
    show (∀ u, holdsTok q = some u → ∃ x, (s.toks ++ [({} : Tok)])[u]? = some x ∧ x.mu = some g' ∧ pcTok q x) ∧
      (∀ u, q = .rLock u → u < (s.toks ++ [({} : Tok)]).length)
    rcases getElem?_set_some hg hq with ⟨rfl, rfl⟩ | ⟨_, hq'⟩
    · simp [holdsTok]
    · obtain ⟨o1, o2⟩ := h.go g' q hq'
      refine ⟨fun u hu => ?_, fun u hu => by have := o2 u hu; simp; omega⟩
      obtain ⟨x, hx, hm, hp⟩ := o1 u hu
      exact ⟨x, by rw [List.getElem?_append_left (lt_of_getElem?_some hx)]; exact hx, hm, hp⟩
  · intro u x hx
    show (x.mu = none → x.nSends = x.released.toNat) ∧
      ∀ g', x.mu = some g' → ∃ q, (s.gs.set g .idle)[g']? = some q ∧ holdsTok q = some u
    rcases getElem?_append_single hx with hx' | ⟨_, rfl⟩
    · refine ⟨(h.tok u x hx').1, fun g' hm => ?_⟩
      obtain ⟨q, hq, hh⟩ := (h.tok u x hx').2 g' hm
      have hgg : g' ≠ g := by
        intro e; subst e
        rw [hg] at hq; cases hq; simp [holdsTok] at hh
      exact ⟨q, by rw [List.getElem?_set_ne (fun e => hgg e.symm)]; exact hq, hh⟩
    · simp

theorem inv_step {s : St} (h : Inv s) (x : Step) (he : enabled s x) : Inv (next s x) := by
  obtain ⟨g, a⟩ := x
  unfold enabled guard at he
  cases hg : s.gs[g]? with
  | none => simp [hg] at he
  | some pc =>
    simp only [hg] at he
    simp only [next, hg]
    cases a with
    | acquireCall =>
      simp [actGuard] at he; subst he
      exact inv_move h hg (by simp [holdsTok]) (by simp [holdsTok]) (by simp)
    | releaseCall t =>
      simp [actGuard] at he; obtain ⟨rfl, hf⟩ := he
      exact inv_move h hg (by simp [holdsTok]) (by simp [holdsTok]) (by intro u e; cases e; exact hf)
    | finish =>
      simp [actGuard] at he; subst he
      exact inv_move h hg (by simp [holdsTok]) (by simp [holdsTok]) (by simp)
    | acquire =>
      simp [actGuard] at he; obtain ⟨rfl, hf⟩ := he
      exact inv_acquire h hg hf
    | check =>
      cases pc <;> simp [actGuard] at he
      rename_i t
      obtain ⟨tk, ht, hm, hp⟩ := (h.go g _ hg).1 t rfl
      simp only [actNext, ht]
      cases hr : tk.released with
      | true =>
        exact inv_move h hg (by intro u hu; simp [holdsTok] at hu ⊢; exact ⟨hu, fun _ _ hp => hp⟩)
          (by simp [holdsTok]) (by simp)
      | false =>
        refine inv_move h hg ?_ (by simp [holdsTok]) (by simp)
        intro u hu; simp [holdsTok] at hu ⊢; subst hu
        refine ⟨rfl, fun tk' ht' hp' => ?_⟩
        rw [ht] at ht'; cases ht'
        simp [pcTok, hr] at hp' ⊢; exact hp'
    | lock =>
      cases pc <;> simp [actGuard] at he
      rename_i t
      simp only [tokMu, Option.map_eq_some_iff] at he
      obtain ⟨tk, ht, hm⟩ := he
      simp only [actNext, modTok, ht]
      refine inv_tok h hg ht ?_ (Or.inl hm) (Or.inl ⟨rfl, rfl, ?_⟩) (Or.inl rfl) (by simp)
      · rw [unsent_set ht]; exact h.cnt; rfl
      · exact (h.tok t tk ht).1 hm
    | send =>
      cases pc <;> simp [actGuard] at he
      rename_i t
      obtain ⟨tk, ht, hm, hp⟩ := (h.go g _ hg).1 t rfl
      simp only [actNext, modTok, ht]
      simp only [pcTok] at hp
      refine inv_tok h hg ht ?_ (Or.inr hm) (Or.inl ⟨hm, rfl, ?_⟩) (Or.inr rfl) (by simp)
      · have h1 := unsent_set_send ht hp.1
        have h2 := h.cnt
        omega
      · simp [pcTok, hp.1, hp.2]
    | setReleased =>
      cases pc <;> simp [actGuard] at he
      rename_i t
      obtain ⟨tk, ht, hm, hp⟩ := (h.go g _ hg).1 t rfl
      simp only [actNext, modTok, ht]
      simp only [pcTok] at hp
      refine inv_tok (f' := s.free) h hg ht ?_ (Or.inr hm) (Or.inl ⟨hm, rfl, ?_⟩) (Or.inr rfl) (by simp)
      · rw [unsent_set ht]; exact h.cnt; rfl
      · simp [pcTok, hp.1]
    | unlock =>
      cases pc <;> simp [actGuard] at he
      rename_i t
      obtain ⟨tk, ht, hm, hp⟩ := (h.go g _ hg).1 t rfl
      simp only [actNext, modTok, ht]
      simp only [pcTok] at hp
      refine inv_tok (f' := s.free) h hg ht ?_ (Or.inr hm) (Or.inr ⟨rfl, rfl, hp⟩) (Or.inr rfl) (by simp)
      rw [unsent_set ht]; exact h.cnt; rfl

theorem inv_reach {limit n : Nat} {s : St} (h : Reach limit n s) : Inv s := by
  induction h with
  | init => exact inv_init limit n
  | step x _ he ih => exact inv_step ih x he

/-! ### consequences -/

/-- at the send inside `Release` the channel has room -/
theorem send_room {s : St} (h : Inv s) {g t : Nat} (hg : s.gs[g]? = some (.rSend t)) :
    s.free < s.limit := by
  obtain ⟨tk, ht, _, hp⟩ := (h.go g _ hg).1 t rfl
  simp only [pcTok] at hp
  have : 0 < unsent s.toks := by
    unfold unsent
    rw [List.countP_pos_iff]
    exact ⟨tk, List.mem_of_getElem? ht, by simp [hp.1]⟩
  have := h.cnt
  omega

/-- per token: at most one send; released implies sent; with the mutex free the two agree -/
theorem tok_counts {s : St} (h : Inv s) {t : Nat} {tk : Tok} (ht : s.toks[t]? = some tk) :
    tk.nSends ≤ 1 ∧ (tk.released = true → tk.nSends = 1) ∧
    (tk.mu = none → tk.nSends = tk.released.toNat) := by
  cases hm : tk.mu with
  | none =>
    have := (h.tok t tk ht).1 hm
    cases hr : tk.released <;> simp [hr] at this <;> simp [this]
  | some g =>
    obtain ⟨pc, hg, hh⟩ := (h.tok t tk ht).2 g hm
    obtain ⟨tk', ht', _, hp⟩ := (h.go g pc hg).1 t hh
    rw [ht] at ht'; cases ht'
    cases pc <;> simp [holdsTok] at hh <;> simp only [pcTok] at hp <;>
      cases hr : tk.released <;> simp [hr] at hp <;> simp [hp]

theorem free_le {s : St} (h : Inv s) : s.free ≤ s.limit := by have := h.cnt; omega

/-- when every token has been released the channel is full again -/
theorem all_released {s : St} (h : Inv s) (hall : ∀ tk ∈ s.toks, tk.released = true) :
    s.free = s.limit := by
  have : unsent s.toks = 0 := by
    unfold unsent
    rw [List.countP_eq_zero]
    intro tk htk
    obtain ⟨t, ht⟩ := List.mem_iff_getElem?.mp htk
    have := (tok_counts h ht).2.1 (hall tk htk)
    simp [this]
  have := h.cnt
  omega

/-- the goroutine that holds a token's mutex can always step -/
theorem holder_progress {s : St} (h : Inv s) {g t : Nat} {pc : GPc} (hg : s.gs[g]? = some pc)
    (hh : holdsTok pc = some t) : ∃ a, guard s ⟨g, a⟩ = true := by
  cases pc <;> simp [holdsTok] at hh
  · exact ⟨.check, by simp [guard, hg, actGuard]⟩
  · exact ⟨.send, by simp [guard, hg, actGuard]; exact send_room h hg⟩
  · exact ⟨.setReleased, by simp [guard, hg, actGuard]⟩
  · exact ⟨.unlock, by simp [guard, hg, actGuard]⟩

/-- a goroutine waiting for a token's mutex: the mutex is free, or its holder can step -/
theorem lock_wait {s : St} (h : Inv s) {g t : Nat} (hg : s.gs[g]? = some (.rLock t)) :
    guard s ⟨g, .lock⟩ = true ∨
    ∃ g' a, tokMu s t = some (some g') ∧ guard s ⟨g', a⟩ = true := by
  have htl := (h.go g _ hg).2 t rfl
  have ht : s.toks[t]? = some s.toks[t] := List.getElem?_eq_getElem htl
  cases hm : s.toks[t].mu with
  | none => exact Or.inl (by simp [guard, hg, actGuard, tokMu, ht, hm])
  | some g' =>
    obtain ⟨pc, hg', hh⟩ := (h.tok t _ ht).2 g' hm
    obtain ⟨a, ha⟩ := holder_progress h hg' hh
    exact Or.inr ⟨g', a, by simp [tokMu, ht, hm], ha⟩

/-- a goroutine that is neither finished nor inside `Acquire` guarantees an enabled step -/
theorem active_progress {s : St} (h : Inv s) {g : Nat} {pc : GPc} (hg : s.gs[g]? = some pc)
    (h1 : pc ≠ .done) (h2 : pc ≠ .acquiring) : ∃ x, guard s x = true := by
  cases hpc : pc with
  | idle => exact ⟨⟨g, .acquireCall⟩, by simp [guard, hg, actGuard, hpc]⟩
  | acquiring => exact absurd hpc h2
  | done => exact absurd hpc h1
  | rLock t =>
    subst hpc
    rcases lock_wait h hg with hl | ⟨g', a, _, ha⟩
    · exact ⟨_, hl⟩
    · exact ⟨_, ha⟩
  | rCheck t => subst hpc; obtain ⟨a, ha⟩ := holder_progress h hg rfl; exact ⟨_, ha⟩
  | rSend t => subst hpc; obtain ⟨a, ha⟩ := holder_progress h hg rfl; exact ⟨_, ha⟩
  | rSet t => subst hpc; obtain ⟨a, ha⟩ := holder_progress h hg rfl; exact ⟨_, ha⟩
  | rUnlock t => subst hpc; obtain ⟨a, ha⟩ := holder_progress h hg rfl; exact ⟨_, ha⟩

/-- all tokens are out and nobody is going to return one: every unfinished goroutine is blocked
    in `Acquire` on the empty channel (the callers broke "a Token MUST be released") -/
def Starved (s : St) : Prop := s.free = 0 ∧ ∀ pc ∈ s.gs, pc = .done ∨ pc = .acquiring

theorem progress {s : St} (h : Inv s) (hnd : ¬ allDone s) : (∃ x, guard s x = true) ∨ Starved s := by
  by_cases hq : ∀ pc ∈ s.gs, pc = .done ∨ pc = .acquiring
  · cases hf : s.free with
    | zero => exact Or.inr ⟨hf, hq⟩
    | succ n =>
      have : ∃ pc ∈ s.gs, pc ≠ .done := by
        apply Classical.byContradiction; intro hno
        apply hnd; intro pc hpc
        apply Classical.byContradiction; intro hne; exact hno ⟨pc, hpc, hne⟩
      obtain ⟨pc, hpc, hne⟩ := this
      obtain ⟨g, hg⟩ := List.mem_iff_getElem?.mp hpc
      have hw : pc = .acquiring := (hq pc hpc).resolve_left hne
      subst hw
      exact Or.inl ⟨⟨g, .acquire⟩, by simp [guard, hg, actGuard, hf]⟩
  · have : ∃ pc ∈ s.gs, pc ≠ .done ∧ pc ≠ .acquiring := by
      apply Classical.byContradiction; intro hno
      apply hq; intro pc hpc
      apply Classical.byContradiction; intro hne
      exact hno ⟨pc, hpc, fun e => hne (Or.inl e), fun e => hne (Or.inr e)⟩
    obtain ⟨pc, hpc, h1, h2⟩ := this
    obtain ⟨g, hg⟩ := List.mem_iff_getElem?.mp hpc
    exact Or.inl (active_progress h hg h1 h2)

/-- the end of a schedule that `run` accepts is reachable -/
theorem reach_run {limit n : Nat} {s s' : St} (h : Reach limit n s) (l : List Step)
    (hr : run s l = some s') : Reach limit n s' := by
  induction l generalizing s with
  | nil => simp [run] at hr; subst hr; exact h
  | cons a rest ih =>
    simp only [run] at hr
    split at hr
    · rename_i hg; exact ih (Reach.step a h hg) hr
    · cases hr

end Ls.Conc.Token
