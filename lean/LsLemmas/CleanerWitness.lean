import LsLemmas.CleanerHist
/-
  A concrete two-snapshot history used by the witnesses of C12 (satisfiability of the hypotheses, and the
  backwards-clock counterexample): helper facts only.
-/
namespace Ls.Cleaner

/-- two snapshots of instance `a`: "S" (timestamp 10) and the newer "N" (timestamp 20) -/
def wparse : Parse := fun n =>
  if n = "S" then some ⟨"snapshot", "a", 10⟩
  else if n = "N" then some ⟨"snapshot", "a", 20⟩ else none

def wcfg : Cfg := { enabled := true, mustKeep := 30, removeOld := 1000000, pfx := "" }

theorem wsort : ([⟨"N", "a", 20⟩, ⟨"S", "a", 10⟩] : List Cand).mergeSort newerEq
    = [⟨"N", "a", 20⟩, ⟨"S", "a", 10⟩] :=
  List.mergeSort_of_pairwise (by simp [newerEq])

theorem wsnap {n : String} {i : Info} (h : IsSnap wparse n i) :
    (n = "S" ∧ i = ⟨"snapshot", "a", 10⟩) ∨ (n = "N" ∧ i = ⟨"snapshot", "a", 20⟩) := by
  have h1 := h.1
  unfold wparse at h1
  by_cases hS : n = "S"
  · rw [if_pos hS] at h1; cases h1; exact Or.inl ⟨hS, rfl⟩
  · rw [if_neg hS] at h1
    by_cases hN : n = "N"
    · rw [if_pos hN] at h1; cases h1; exact Or.inr ⟨hN, rfl⟩
    · rw [if_neg hN] at h1; cases h1

theorem wdistinct : DistinctTimes wparse ["N", "S"] := by
  unfold DistinctTimes
  simp only [List.pairwise_cons, List.mem_cons, List.mem_nil_iff, or_false, forall_eq,
    List.Pairwise.nil, and_true, false_imp_iff, implies_true]
  intro i j hi hj _
  rcases wsnap hi with ⟨h, rfl⟩ | ⟨_, rfl⟩
  · simp at h
  · rcases wsnap hj with ⟨_, rfl⟩ | ⟨h, rfl⟩
    · simp
    · simp at h

theorem wnewest : Newest wparse ["N", "S"] "N" ⟨"snapshot", "a", 20⟩ := by
  refine ⟨⟨by simp [wparse], rfl⟩, ?_⟩
  intro m j _ hne hs _
  rcases wsnap hs with ⟨_, rfl⟩ | ⟨h, rfl⟩
  · simp
  · exact absurd h hne

/-- "S" is listed first, then "N" appears next to it -/
theorem worder (t1 t2 t3 : Int) :
    AppearInOrder wparse ([Ev.run t1 (some ["S"]) (fun _ => false),
      Ev.run t2 (some ["N", "S"]) (fun _ => false)] ++ [Ev.run t3 (some ["N", "S"]) (fun _ => false)]) := by
  have h1 : AppearInOrder wparse ([] ++ [Ev.run t1 (some ["S"]) (fun _ => false)]) := by
    refine AppearInOrder.nil.snoc_run ?_
    intro a b i j _ _ _ _ _ _ hb
    simp [since] at hb
  have h2 : AppearInOrder wparse
      (([] ++ [Ev.run t1 (some ["S"]) (fun _ => false)]) ++ [Ev.run t2 (some ["N", "S"]) (fun _ => false)]) := by
    refine h1.snoc_run ?_
    intro a b i j _ _ hsa hsb _ hna hnb
    rcases wsnap hsa with ⟨rfl, rfl⟩ | ⟨rfl, rfl⟩
    · simp [since, sinceStep] at hna
    · rcases wsnap hsb with ⟨rfl, rfl⟩ | ⟨rfl, rfl⟩
      · simp
      · simp [since, sinceStep] at hnb
  refine h2.snoc_run ?_
  intro a b i j _ _ hsa hsb _ hna _
  rcases wsnap hsa with ⟨rfl, rfl⟩ | ⟨rfl, rfl⟩
  · simp [since, sinceStep] at hna
  · simp [since, sinceStep] at hna


end Ls.Cleaner
