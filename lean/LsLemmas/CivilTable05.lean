import LsLemmas.CivilTableDefs
/- civil-date table, rows 40000 … 47999 (kernel evaluation; see CivilTableDefs) -/
namespace Ls.Civil

theorem chunk05 : chunkOK 40000 8000 = true := by decide +kernel

end Ls.Civil
