import LsLemmas.CivilTableDefs
/- civil-date table, rows 24000 … 31999 (kernel evaluation; see CivilTableDefs) -/
namespace Ls.Civil

theorem chunk03 : chunkOK 24000 8000 = true := by decide +kernel

end Ls.Civil
