import LsLemmas.RecvTokens
/-
  Receiver model: what is delivered was the newest listed name (`InvL`); corrupt names are never
  loaded again (`InvK`); with immutable blobs a corrupt name is never pending (`InvF`).
  Core Lean only.
-/
namespace Ls.Recv
variable {ι : Type} [DecidableEq ι]

/-- `(d, t)` names a blob of `bk`, is not in `ig`, and no blob of `d` in `bk` outside `ig` is newer -/
def NewestIn (bk : List (Blob ι)) (ig : List (ι × Nat)) (d : ι) (t : Nat) : Prop :=
  (∃ b ∈ bk, b.name = (d, t)) ∧ (d, t) ∉ ig ∧ ∀ b ∈ bk, b.inst = d → b.name ∉ ig → b.ts ≤ t

/-- at some successful listing so far `(d, t)` was the newest non-ignored name of `d` -/
def Listed (s : St ι) (d : ι) (t : Nat) : Prop := ∃ e ∈ s.hist, NewestIn e.1 e.2 d t

theorem seenOf_some {s : St ι} {d : ι} {t : Nat} :
    AL.get (seenOf s) d = some t ↔ NewestIn s.bucket (ignoredNow s) d t := by
  unfold seenOf
  rw [mkLastSeen_some]
  unfold MaxOf NewestIn
  simp only [mem_listedNames]
  constructor
  · intro ⟨⟨hb, hi⟩, hmax⟩
    refine ⟨hb, hi, ?_⟩
    intro b hbm hbi hbn
    apply hmax b.ts
    have : b.name = (d, b.ts) := by simp [Blob.name, hbi]
    exact ⟨⟨b, hbm, this⟩, this ▸ hbn⟩
  · intro ⟨hb, hi, hmax⟩
    refine ⟨⟨hb, hi⟩, ?_⟩
    intro t' ⟨⟨b, hbm, hbn⟩, hi'⟩
    have h1 : b.inst = d := by simp [Blob.name] at hbn; exact hbn.1
    have h2 : b.ts = t' := by simp [Blob.name] at hbn; exact hbn.2
    rw [← h2]
    exact hmax b hbm h1 (hbn ▸ hi')

theorem seenOf_none {s : St ι} {d : ι} :
    AL.get (seenOf s) d = none ↔ ∀ b ∈ s.bucket, b.inst = d → b.name ∈ ignoredNow s := by
  unfold seenOf
  rw [mkLastSeen_none]
  simp only [mem_listedNames]
  constructor
  · intro h b hb hbi
    have := h b.ts
    have e : b.name = (d, b.ts) := by simp [Blob.name, hbi]
    rw [← e] at this
    by_cases hm : b.name ∈ ignoredNow s
    · exact hm
    · exact absurd ⟨⟨b, hb, rfl⟩, hm⟩ this
  · intro h t ⟨⟨b, hb, hbn⟩, hi⟩
    have h1 : b.inst = d := by simp [Blob.name] at hbn; exact hbn.1
    exact hi (hbn ▸ h b hb h1)

omit [DecidableEq ι] in
theorem NewestIn.unique {bk : List (Blob ι)} {ig : List (ι × Nat)} {d : ι} {t t' : Nat}
    (h : NewestIn bk ig d t) (h' : NewestIn bk ig d t') : t = t' := by
  obtain ⟨⟨b, hb, hbn⟩, hi, hm⟩ := h
  obtain ⟨⟨b', hb', hbn'⟩, hi', hm'⟩ := h'
  have e1 : b.inst = d ∧ b.ts = t := by simp [Blob.name] at hbn; exact hbn
  have e2 : b'.inst = d ∧ b'.ts = t' := by simp [Blob.name] at hbn'; exact hbn'
  have a := hm b' hb' e2.1 (hbn' ▸ hi')
  have c := hm' b hb e1.1 (hbn ▸ hi)
  omega

/-! ### delivered names were listed as newest -/

structure InvL (s : St ι) : Prop where
  seen : ∀ d t, AL.get s.lastSeen d = some t → Listed s d t
  pc : ∀ d x t, getDl s d = some x → x.pc.ts? = some t → Listed s d t
  pend : ∀ n ∈ s.pending, Listed s n.1 n.2
  hold : ∀ n, s.holding = some n → Listed s n.1 n.2
  deliv : ∀ n ∈ s.delivered, Listed s n.1 n.2

theorem invL_init (own : ι) (a b : Nat) : InvL (init own a b) := by
  constructor <;> simp [init, getDl]

/-- a downloader step that keeps or drops the name the downloader works on -/
theorem invL_dl {s s' : St ι} {d : ι} {x x' : Dl} (hi : InvL s) (hx : getDl s d = some x)
    (hh : s'.hist = s.hist) (hs : s'.lastSeen = s.lastSeen) (hp : s'.pending = s.pending)
    (ho : s'.holding = s.holding) (hd : s'.delivered = s.delivered)
    (hg : ∀ d0, getDl s' d0 = if d0 = d then some x' else getDl s d0)
    (hpc : x'.pc.ts? = x.pc.ts? ∨ x'.pc.ts? = none) : InvL s' := by
  have hL : ∀ d t, Listed s d t → Listed s' d t := by
    intro d t h; unfold Listed; rw [hh]; exact h
  refine ⟨?_, ?_, ?_, ?_, ?_⟩
  · intro d0 t h; rw [hs] at h; exact hL _ _ (hi.seen d0 t h)
  · intro d0 y t hy hyt
    rw [hg] at hy
    by_cases hd0 : d0 = d
    · subst hd0
      simp only [if_true, Option.some.injEq] at hy
      subst hy
      rcases hpc with hpc | hpc
      · rw [hpc] at hyt; exact hL _ _ (hi.pc d0 x t hx hyt)
      · rw [hpc] at hyt; cases hyt
    · simp only [hd0, if_false] at hy
      exact hL _ _ (hi.pc d0 y t hy hyt)
  · intro n hn; rw [hp] at hn; exact hL _ _ (hi.pend n hn)
  · intro n hn; rw [ho] at hn; exact hL _ _ (hi.hold n hn)
  · intro n hn; rw [hd] at hn; exact hL _ _ (hi.deliv n hn)

theorem invL_step {s s' : St ι} {x : Step ι} (hi : InvL s) (h : step s x = some s') : InvL s' := by
  cases x with
  | runOnce inc ok =>
    have e := step_runOnce h
    cases ok with
    | false => subst e; exact hi
    | true =>
      simp only [if_true] at e
      subst e
      have hf := runOnce_frame inc s
      have hL : ∀ d t, Listed s d t → Listed (runOnce inc s) d t := by
        intro d t ⟨e, he, hn⟩
        rw [hf]; exact ⟨e, List.mem_cons_of_mem _ he, hn⟩
      refine ⟨?_, ?_, ?_, ?_, ?_⟩
      · intro d t hs
        rw [hf] at hs
        simp only at hs
        have := seenOf_some.mp hs
        rw [hf]
        exact ⟨(s.bucket, ignoredNow s), List.mem_cons_self, this⟩
      · intro d y t hy hyt
        rcases runOnce_dl inc s d with hd | hd
        · rw [hd] at hy; exact hL _ _ (hi.pc d y t hy hyt)
        · rw [hd] at hy
          cases hg : getDl s d with
          | none => rw [hg] at hy; cases hy; simp [Pc.ts?] at hyt
          | some z =>
            rw [hg] at hy; cases hy
            exact hL _ _ (hi.pc d z t hg hyt)
      · intro n hn; rw [hf] at hn; exact hL _ _ (hi.pend n hn)
      · intro n hn; rw [hf] at hn; exact hL _ _ (hi.hold n hn)
      · intro n hn; rw [hf] at hn; exact hL _ _ (hi.deliv n hn)
  | wake d =>
    obtain ⟨x, hx, hpc, _, rfl⟩ := step_wake h
    exact invL_dl hi hx rfl rfl rfl rfl rfl (fun d0 => getDl_setDl s d d0 _) (Or.inr rfl)
  | check d =>
    obtain ⟨x, hx, hpc, hc⟩ := step_check h
    rcases hc with ⟨_, rfl⟩ | ⟨t, hs, _, rfl⟩
    · exact invL_dl hi hx rfl rfl rfl rfl rfl (fun d0 => getDl_setDl s d d0 _) (Or.inr rfl)
    · refine ⟨hi.seen, ?_, hi.pend, hi.hold, hi.deliv⟩
      intro d0 y t0 hy hyt
      rw [getDl_setDl] at hy
      by_cases hd0 : d0 = d
      · subst hd0
        simp only [if_true, Option.some.injEq] at hy
        subst hy
        simp only [Pc.ts?, Option.some.injEq] at hyt
        subst hyt
        exact hi.seen d0 t hs
      · simp only [hd0, if_false] at hy
        exact hi.pc d0 y t0 hy hyt
  | acqDl d =>
    obtain ⟨x, t, hx, hpc, hf, rfl⟩ := step_acqDl h
    exact invL_dl hi hx rfl rfl rfl rfl rfl (fun d0 => getDl_setDl s d d0 _) (Or.inl (by rw [hpc]; rfl))
  | load d r =>
    obtain ⟨x, t, hx, hpc, hc⟩ := step_load h
    rcases hc with ⟨_, b, _, rfl⟩ | ⟨_, rfl⟩
    · exact invL_dl hi hx rfl rfl rfl rfl rfl (fun d0 => getDl_setDl s d d0 _) (Or.inl (by rw [hpc]; rfl))
    · exact invL_dl hi hx rfl rfl rfl rfl rfl (fun d0 => getDl_setDl s d d0 _) (Or.inr rfl)
  | acqDc d =>
    obtain ⟨x, t, bad, hx, hpc, hf, rfl⟩ := step_acqDc h
    exact invL_dl hi hx rfl rfl rfl rfl rfl (fun d0 => getDl_setDl s d d0 _) (Or.inl (by rw [hpc]; rfl))
  | decode d =>
    obtain ⟨x, t, bad, hx, hpc, hc⟩ := step_decode h
    have hl : Listed s d t := hi.pc d x t hx (by rw [hpc]; rfl)
    rcases hc with ⟨_, rfl⟩ | ⟨_, hs'⟩
    · exact invL_dl hi hx rfl rfl rfl rfl rfl (fun d0 => getDl_setDl s d d0 _) (Or.inr rfl)
    · have hg : ∀ d0, getDl s' d0 = if d0 = d then some { x with last := some t, pc := .idle } else getDl s d0 := by
        intro d0; rw [hs']; exact getDl_setDl s d d0 _
      subst hs'
      refine ⟨hi.seen, ?_, ?_, hi.hold, hi.deliv⟩
      · intro d0 y t0 hy hyt
        rw [hg d0] at hy
        by_cases hd0 : d0 = d
        · subst hd0
          simp only [if_true, Option.some.injEq] at hy
          subst hy
          simp [Pc.ts?] at hyt
        · simp only [hd0, if_false] at hy
          exact hi.pc d0 y t0 hy hyt
      · intro n hn
        rcases AL.mem_set hn with e | hm
        · subst e; exact hl
        · exact hi.pend n hm
  | retry d =>
    obtain ⟨x, hx, hpc, rfl⟩ := step_retry h
    exact invL_dl hi hx rfl rfl rfl rfl rfl (fun d0 => getDl_setDl s d d0 _) (Or.inr rfl)
  | next d =>
    obtain ⟨hh, t, hp, rfl⟩ := step_next h
    have hl : Listed s d t := hi.pend (d, t) (AL.get_some_mem hp)
    refine ⟨hi.seen, hi.pc, ?_, ?_, ?_⟩
    · intro n hn; exact hi.pend n (AL.mem_erase hn)
    · intro n hn; simp only [Option.some.injEq] at hn; subst hn; exact hl
    · intro n hn
      rcases List.mem_cons.mp hn with e | hm
      · subst e; exact hl
      · exact hi.deliv n hm
  | close =>
    obtain ⟨n, hh, rfl⟩ := step_close h
    exact ⟨hi.seen, hi.pc, hi.pend, fun n hn => by simp at hn, hi.deliv⟩
  | put b => rw [step_put h]; exact ⟨hi.seen, hi.pc, hi.pend, hi.hold, hi.deliv⟩
  | rm d t => rw [step_rm h]; exact ⟨hi.seen, hi.pc, hi.pend, hi.hold, hi.deliv⟩

/-! ### corrupt names -/

structure InvK (s : St ι) : Prop where
  /-- an ignored name is not `lastSeen` -/
  k1 : ∀ d t, (d, t) ∈ s.ignored → AL.get s.lastSeen d ≠ some t
  /-- a corrupt name that is still `lastSeen` (no listing since) is the downloader's `last`,
      and the downloader is not working on any name -/
  k2 : ∀ d t, (d, t) ∈ s.corrupt → (d, t) ∉ s.ignored → AL.get s.lastSeen d = some t →
        ∃ x, getDl s d = some x ∧ x.last = some t ∧ x.pc.ts? = none
  /-- no downloader works on a corrupt name -/
  k3 : ∀ d t x, (d, t) ∈ s.corrupt → getDl s d = some x → x.pc.ts? ≠ some t

theorem invK_init (own : ι) (a b : Nat) : InvK (init own a b) := by
  constructor <;> simp [init, getDl]

theorem invK_dl {s s' : St ι} {d : ι} {x x' : Dl} (hi : InvK s) (hx : getDl s d = some x)
    (h1 : s'.ignored = s.ignored) (h2 : s'.corrupt = s.corrupt) (hs : s'.lastSeen = s.lastSeen)
    (hg : ∀ d0, getDl s' d0 = if d0 = d then some x' else getDl s d0)
    (hl : x'.last = x.last)
    (hpc : x'.pc.ts? = x.pc.ts? ∨ (x.pc.ts? = none ∧ x'.pc.ts? = none) ∨
           (x'.pc.ts? = none ∧ ∀ t, (d, t) ∈ s.corrupt → (d, t) ∉ s.ignored → AL.get s.lastSeen d ≠ some t)) :
    InvK s' := by
  refine ⟨?_, ?_, ?_⟩
  · intro d0 t hm; rw [h1] at hm; rw [hs]; exact hi.k1 d0 t hm
  · intro d0 t hc hig hseen
    rw [h2] at hc; rw [h1] at hig; rw [hs] at hseen
    obtain ⟨y, hy, hyl, hyp⟩ := hi.k2 d0 t hc hig hseen
    rw [hg]
    by_cases hd0 : d0 = d
    · subst hd0
      rw [hx] at hy; cases hy
      refine ⟨x', by simp, by rw [hl]; exact hyl, ?_⟩
      rcases hpc with hpc | hpc | hpc
      · rw [hpc]; exact hyp
      · exact hpc.2
      · exact hpc.1
    · exact ⟨y, by simp [hd0, hy], hyl, hyp⟩
  · intro d0 t y hc hy
    rw [h2] at hc; rw [hg] at hy
    by_cases hd0 : d0 = d
    · subst hd0
      simp only [if_true, Option.some.injEq] at hy
      subst hy
      rcases hpc with hpc | hpc | hpc
      · rw [hpc]; exact hi.k3 d0 t x hc hx
      · rw [hpc.2]; simp
      · rw [hpc.1]; simp
    · simp only [hd0, if_false] at hy
      exact hi.k3 d0 t y hc hy

theorem mem_insertName {l : List (ι × Nat)} {n m : ι × Nat} : m ∈ insertName l n ↔ m ∈ l ∨ m = n := by
  unfold insertName
  split
  · rename_i h
    constructor
    · exact Or.inl
    · rintro (h' | h')
      · exact h'
      · exact h' ▸ h
  · simp

theorem invK_step {s s' : St ι} {x : Step ι} (hi : InvK s) (h : step s x = some s') : InvK s' := by
  cases x with
  | runOnce inc ok =>
    have e := step_runOnce h
    cases ok with
    | false => subst e; exact hi
    | true =>
      simp only [if_true] at e
      subst e
      have hf := runOnce_frame inc s
      refine ⟨?_, ?_, ?_⟩
      · intro d t hm hs
        rw [hf] at hm hs
        simp only at hm hs
        exact (seenOf_some.mp hs).2.1 hm
      · intro d t hc hig
        rw [hf] at hc hig
        simp only at hc hig
        exact absurd (mem_ignoredNow.mpr (Or.inr hc)) hig
      · intro d t y hc hy
        have hc' : (d, t) ∈ s.corrupt := by rw [hf] at hc; exact hc
        rcases runOnce_dl inc s d with hd | hd
        · rw [hd] at hy; exact hi.k3 d t y hc' hy
        · rw [hd] at hy
          cases hg : getDl s d with
          | none => rw [hg] at hy; cases hy; simp [Pc.ts?]
          | some z => rw [hg] at hy; cases hy; exact hi.k3 d t z hc' hg
  | wake d =>
    obtain ⟨x, hx, hpc, _, rfl⟩ := step_wake h
    exact invK_dl hi hx rfl rfl rfl (fun d0 => getDl_setDl s d d0 _) rfl (Or.inr (Or.inl ⟨by rw [hpc]; rfl, rfl⟩))
  | check d =>
    obtain ⟨x, hx, hpc, hc⟩ := step_check h
    rcases hc with ⟨_, rfl⟩ | ⟨t, hs, hlast, rfl⟩
    · exact invK_dl hi hx rfl rfl rfl (fun d0 => getDl_setDl s d d0 _) rfl (Or.inr (Or.inl ⟨by rw [hpc]; rfl, rfl⟩))
    · -- the name read from `lastSeen` is not corrupt
      have hnc : (d, t) ∉ s.corrupt := by
        intro hc
        by_cases hig : (d, t) ∈ s.ignored
        · exact hi.k1 d t hig hs
        · obtain ⟨y, hy, hyl, _⟩ := hi.k2 d t hc hig hs
          rw [hx] at hy; cases hy
          exact hlast hyl
      refine ⟨hi.k1, ?_, ?_⟩
      · intro d0 t0 hc hig hseen
        obtain ⟨y, hy, hyl, hyp⟩ := hi.k2 d0 t0 hc hig hseen
        by_cases hd0 : d0 = d
        · subst hd0
          have : t0 = t := by
            have e : some t0 = some t := hseen.symm.trans hs
            exact Option.some.inj e
          subst this
          exact absurd hc hnc
        · exact ⟨y, by rw [getDl_setDl]; simp [hd0, hy], hyl, hyp⟩
      · intro d0 t0 y hc hy
        rw [getDl_setDl] at hy
        by_cases hd0 : d0 = d
        · subst hd0
          simp only [if_true, Option.some.injEq] at hy
          subst hy
          simp only [Pc.ts?, ne_eq, Option.some.injEq]
          intro e; subst e
          exact hnc hc
        · simp only [hd0, if_false] at hy
          exact hi.k3 d0 t0 y hc hy
  | acqDl d =>
    obtain ⟨x, t, hx, hpc, hf, rfl⟩ := step_acqDl h
    exact invK_dl hi hx rfl rfl rfl (fun d0 => getDl_setDl s d d0 _) rfl (Or.inl (by rw [hpc]; rfl))
  | load d r =>
    obtain ⟨x, t, hx, hpc, hc⟩ := step_load h
    rcases hc with ⟨_, b, _, rfl⟩ | ⟨_, rfl⟩
    · exact invK_dl hi hx rfl rfl rfl (fun d0 => getDl_setDl s d d0 _) rfl (Or.inl (by rw [hpc]; rfl))
    · refine invK_dl hi hx rfl rfl rfl (fun d0 => getDl_setDl s d d0 _) rfl (Or.inr (Or.inr ⟨rfl, ?_⟩))
      intro t0 hc hig hseen
      obtain ⟨y, hy, _, hyp⟩ := hi.k2 d t0 hc hig hseen
      rw [hx] at hy; cases hy
      rw [hpc] at hyp; simp [Pc.ts?] at hyp
  | acqDc d =>
    obtain ⟨x, t, bad, hx, hpc, hf, rfl⟩ := step_acqDc h
    exact invK_dl hi hx rfl rfl rfl (fun d0 => getDl_setDl s d d0 _) rfl (Or.inl (by rw [hpc]; rfl))
  | decode d =>
    obtain ⟨x, t, bad, hx, hpc, hc⟩ := step_decode h
    -- while the downloader works on a name, no corrupt non-ignored name of `d` is `lastSeen`
    have hno : ∀ t0, (d, t0) ∈ s.corrupt → (d, t0) ∉ s.ignored → AL.get s.lastSeen d ≠ some t0 := by
      intro t0 hc hig hseen
      obtain ⟨y, hy, _, hyp⟩ := hi.k2 d t0 hc hig hseen
      rw [hx] at hy; cases hy
      rw [hpc] at hyp; simp [Pc.ts?] at hyp
    rcases hc with ⟨_, hs'⟩ | ⟨_, hs'⟩
    · have hg : ∀ d0, getDl s' d0 = if d0 = d then some { x with last := some t, pc := .backoff } else getDl s d0 := by
        intro d0; rw [hs']; exact getDl_setDl s d d0 _
      subst hs'
      refine ⟨hi.k1, ?_, ?_⟩
      · intro d0 t0 hc hig hseen
        rw [hg d0]
        have hc' : (d0, t0) ∈ insertName s.corrupt (d, t) := hc
        rcases mem_insertName.mp hc' with hc1 | hc1
        · by_cases hd0 : d0 = d
          · subst hd0; exact absurd hseen (hno t0 hc1 hig)
          · obtain ⟨y, hy, hyl, hyp⟩ := hi.k2 d0 t0 hc1 hig hseen
            exact ⟨y, by simp [hd0, hy], hyl, hyp⟩
        · cases hc1
          exact ⟨{ x with last := some t, pc := .backoff }, by simp, rfl, rfl⟩
      · intro d0 t0 y hc hy
        rw [hg d0] at hy
        by_cases hd0 : d0 = d
        · subst hd0
          simp only [if_true, Option.some.injEq] at hy
          subst hy; simp [Pc.ts?]
        · simp only [hd0, if_false] at hy
          have hc' : (d0, t0) ∈ insertName s.corrupt (d, t) := hc
          rcases mem_insertName.mp hc' with hc | hc
          · exact hi.k3 d0 t0 y hc hy
          · cases hc; exact absurd rfl hd0
    · have hg : ∀ d0, getDl s' d0 = if d0 = d then some { x with last := some t, pc := .idle } else getDl s d0 := by
        intro d0; rw [hs']; exact getDl_setDl s d d0 _
      subst hs'
      refine ⟨hi.k1, ?_, ?_⟩
      · intro d0 t0 hc hig hseen
        rw [hg d0]
        by_cases hd0 : d0 = d
        · subst hd0; exact absurd hseen (hno t0 hc hig)
        · obtain ⟨y, hy, hyl, hyp⟩ := hi.k2 d0 t0 hc hig hseen
          exact ⟨y, by simp [hd0, hy], hyl, hyp⟩
      · intro d0 t0 y hc hy
        rw [hg d0] at hy
        by_cases hd0 : d0 = d
        · subst hd0
          simp only [if_true, Option.some.injEq] at hy
          subst hy; simp [Pc.ts?]
        · simp only [hd0, if_false] at hy
          exact hi.k3 d0 t0 y hc hy
  | retry d =>
    obtain ⟨x, hx, hpc, rfl⟩ := step_retry h
    exact invK_dl hi hx rfl rfl rfl (fun d0 => getDl_setDl s d d0 _) rfl (Or.inr (Or.inl ⟨by rw [hpc]; rfl, rfl⟩))
  | next d =>
    obtain ⟨hh, t, hp, rfl⟩ := step_next h
    exact ⟨hi.k1, hi.k2, hi.k3⟩
  | close =>
    obtain ⟨n, hh, rfl⟩ := step_close h
    exact ⟨hi.k1, hi.k2, hi.k3⟩
  | put b => rw [step_put h]; exact ⟨hi.k1, hi.k2, hi.k3⟩
  | rm d t => rw [step_rm h]; exact ⟨hi.k1, hi.k2, hi.k3⟩

/-! ### immutable blobs: the decode result is a function of the name -/

structure InvF (f : ι × Nat → Bool) (s : St ι) : Prop where
  bk : ∀ b ∈ s.bucket, b.bad = f b.name
  pc : ∀ d x t bad, getDl s d = some x → (x.pc = .wantDc t bad ∨ x.pc = .decoding t bad) → bad = f (d, t)
  cor : ∀ n ∈ s.corrupt, f n = true
  pend : ∀ n ∈ s.pending, f n = false
  hold : ∀ n, s.holding = some n → f n = false
  deliv : ∀ n ∈ s.delivered, f n = false

/-- every stored blob decodes as `f` says -/
def PutsAgree (f : ι × Nat → Bool) : St ι → Step ι → Prop
  | _, .put b => b.bad = f b.name
  | _, _ => True

theorem invF_init (f : ι × Nat → Bool) (own : ι) (a b : Nat) : InvF f (init own a b) := by
  constructor <;> simp [init, getDl]

theorem hasBlob_some {s : St ι} {d : ι} {t : Nat} {b : Blob ι} (h : hasBlob s d t = some b) :
    b ∈ s.bucket ∧ b.name = (d, t) := by
  unfold hasBlob at h
  exact ⟨List.mem_of_find?_eq_some h, by simpa using List.find?_some h⟩

theorem hasBlob_none {s : St ι} {d : ι} {t : Nat} (h : hasBlob s d t = none) :
    ∀ b ∈ s.bucket, b.name ≠ (d, t) := by
  unfold hasBlob at h
  intro b hb
  have := List.find?_eq_none.mp h b hb
  simpa using this

/-- a downloader step that keeps the downloader's position or leaves `wantDc`/`decoding` -/
theorem invF_dl {f : ι × Nat → Bool} {s s' : St ι} {d : ι} {x' : Dl} (hi : InvF f s)
    (hb : s'.bucket = s.bucket) (hc : s'.corrupt = s.corrupt) (hp : s'.pending = s.pending)
    (ho : s'.holding = s.holding) (hd : s'.delivered = s.delivered)
    (hg : ∀ d0, getDl s' d0 = if d0 = d then some x' else getDl s d0)
    (hpc : ∀ t bad, (x'.pc = .wantDc t bad ∨ x'.pc = .decoding t bad) → bad = f (d, t)) : InvF f s' := by
  refine ⟨?_, ?_, ?_, ?_, ?_, ?_⟩
  · rw [hb]; exact hi.bk
  · intro d0 y t bad hy hyp
    rw [hg] at hy
    by_cases hd0 : d0 = d
    · subst hd0
      simp only [if_true, Option.some.injEq] at hy
      subst hy; exact hpc t bad hyp
    · simp only [hd0, if_false] at hy
      exact hi.pc d0 y t bad hy hyp
  · rw [hc]; exact hi.cor
  · rw [hp]; exact hi.pend
  · rw [ho]; exact hi.hold
  · rw [hd]; exact hi.deliv

theorem invF_step {f : ι × Nat → Bool} {s s' : St ι} {x : Step ι} (hi : InvF f s) (hok : PutsAgree f s x)
    (h : step s x = some s') : InvF f s' := by
  cases x with
  | runOnce inc ok =>
    have e := step_runOnce h
    cases ok with
    | false => subst e; exact hi
    | true =>
      simp only [if_true] at e
      subst e
      have hf := runOnce_frame inc s
      refine ⟨?_, ?_, ?_, ?_, ?_, ?_⟩
      · rw [hf]; exact hi.bk
      · intro d y t bad hy hyp
        rcases runOnce_dl inc s d with hd | hd
        · rw [hd] at hy; exact hi.pc d y t bad hy hyp
        · rw [hd] at hy
          cases hg : getDl s d with
          | none => rw [hg] at hy; cases hy; simp at hyp
          | some z => rw [hg] at hy; cases hy; exact hi.pc d z t bad hg hyp
      · rw [hf]; exact hi.cor
      · rw [hf]; exact hi.pend
      · rw [hf]; exact hi.hold
      · rw [hf]; exact hi.deliv
  | wake d =>
    obtain ⟨x, hx, hpc, _, rfl⟩ := step_wake h
    exact invF_dl hi rfl rfl rfl rfl rfl (fun d0 => getDl_setDl s d d0 _) (by simp)
  | check d =>
    obtain ⟨x, hx, hpc, hc⟩ := step_check h
    rcases hc with ⟨_, rfl⟩ | ⟨t, hs, _, rfl⟩
    · exact invF_dl hi rfl rfl rfl rfl rfl (fun d0 => getDl_setDl s d d0 _) (by simp)
    · exact invF_dl hi rfl rfl rfl rfl rfl (fun d0 => getDl_setDl s d d0 _) (by simp)
  | acqDl d =>
    obtain ⟨x, t, hx, hpc, hf, rfl⟩ := step_acqDl h
    exact invF_dl hi rfl rfl rfl rfl rfl (fun d0 => getDl_setDl s d d0 _) (by simp)
  | load d r =>
    obtain ⟨x, t, hx, hpc, hc⟩ := step_load h
    rcases hc with ⟨_, b, hb, rfl⟩ | ⟨_, rfl⟩
    · obtain ⟨hbm, hbn⟩ := hasBlob_some hb
      refine invF_dl hi rfl rfl rfl rfl rfl (fun d0 => getDl_setDl s d d0 _) ?_
      intro t0 bad hp
      simp only [Pc.wantDc.injEq, reduceCtorEq, or_false] at hp
      rw [← hp.1, ← hp.2, ← hbn]
      exact hi.bk b hbm
    · exact invF_dl hi rfl rfl rfl rfl rfl (fun d0 => getDl_setDl s d d0 _) (by simp)
  | acqDc d =>
    obtain ⟨x, t, bad, hx, hpc, hf, rfl⟩ := step_acqDc h
    refine invF_dl hi rfl rfl rfl rfl rfl (fun d0 => getDl_setDl s d d0 _) ?_
    intro t0 bad0 hp
    simp only [reduceCtorEq, Pc.decoding.injEq, false_or] at hp
    rw [← hp.1, ← hp.2]
    exact hi.pc d x t bad hx (Or.inl hpc)
  | decode d =>
    obtain ⟨x, t, bad, hx, hpc, hc⟩ := step_decode h
    have hbad := hi.pc d x t bad hx (Or.inr hpc)
    rcases hc with ⟨hb, hs'⟩ | ⟨hb, hs'⟩
    · have hg : ∀ d0, getDl s' d0 = if d0 = d then some { x with last := some t, pc := .backoff } else getDl s d0 := by
        intro d0; rw [hs']; exact getDl_setDl s d d0 _
      subst hs'
      refine ⟨hi.bk, ?_, ?_, hi.pend, hi.hold, hi.deliv⟩
      · intro d0 y t0 bad0 hy hyp
        rw [hg d0] at hy
        by_cases hd0 : d0 = d
        · subst hd0
          simp only [if_true, Option.some.injEq] at hy
          subst hy; simp at hyp
        · simp only [hd0, if_false] at hy
          exact hi.pc d0 y t0 bad0 hy hyp
      · intro n hn
        have hn' : n ∈ insertName s.corrupt (d, t) := hn
        rcases mem_insertName.mp hn' with hn | hn
        · exact hi.cor n hn
        · subst hn; rw [← hbad]; exact hb
    · have hg : ∀ d0, getDl s' d0 = if d0 = d then some { x with last := some t, pc := .idle } else getDl s d0 := by
        intro d0; rw [hs']; exact getDl_setDl s d d0 _
      subst hs'
      refine ⟨hi.bk, ?_, hi.cor, ?_, hi.hold, hi.deliv⟩
      · intro d0 y t0 bad0 hy hyp
        rw [hg d0] at hy
        by_cases hd0 : d0 = d
        · subst hd0
          simp only [if_true, Option.some.injEq] at hy
          subst hy; simp at hyp
        · simp only [hd0, if_false] at hy
          exact hi.pc d0 y t0 bad0 hy hyp
      · intro n hn
        rcases AL.mem_set hn with e | hm
        · subst e; rw [← hbad]; exact hb
        · exact hi.pend n hm
  | retry d =>
    obtain ⟨x, hx, hpc, rfl⟩ := step_retry h
    exact invF_dl hi rfl rfl rfl rfl rfl (fun d0 => getDl_setDl s d d0 _) (by simp)
  | next d =>
    obtain ⟨hh, t, hp, rfl⟩ := step_next h
    have hl := hi.pend (d, t) (AL.get_some_mem hp)
    refine ⟨hi.bk, hi.pc, hi.cor, ?_, ?_, ?_⟩
    · intro n hn; exact hi.pend n (AL.mem_erase hn)
    · intro n hn; simp only [Option.some.injEq] at hn; subst hn; exact hl
    · intro n hn
      rcases List.mem_cons.mp hn with e | hm
      · subst e; exact hl
      · exact hi.deliv n hm
  | close =>
    obtain ⟨n, hh, rfl⟩ := step_close h
    exact ⟨hi.bk, hi.pc, hi.cor, hi.pend, fun n hn => by simp at hn, hi.deliv⟩
  | put b =>
    rw [step_put h]
    refine ⟨?_, hi.pc, hi.cor, hi.pend, hi.hold, hi.deliv⟩
    intro b0 hb0
    rcases List.mem_cons.mp hb0 with e | hm
    · subst e; exact hok
    · exact hi.bk b0 (List.mem_filter.mp hm).1
  | rm d t =>
    rw [step_rm h]
    refine ⟨?_, hi.pc, hi.cor, hi.pend, hi.hold, hi.deliv⟩
    intro b0 hb0
    exact hi.bk b0 (List.mem_filter.mp hb0).1

end Ls.Recv
