import LsLemmas.SweeperSlice
/-
  The tomb sweeper, a whole pass on one DBI (`passDbi`): slices with the application committing
  in between.
-/
namespace Ls.Sweeper
open Ls Ls.Lmdb Ls.Txn

/-! ### environments -/

theorem findDbi_setKvs (dbis : List Dbi) (name : Bytes) (kvs : KVs) (name' : Bytes) :
    findDbi (setKvs dbis name kvs) name' =
      (findDbi dbis name').map (fun d => if d.name = name then { d with kvs := kvs } else d) := by
  unfold findDbi setKvs
  induction dbis with
  | nil => rfl
  | cons d rest ih =>
    rw [List.map_cons, List.find?_cons, List.find?_cons]
    have hn : (if d.name = name then { d with kvs := kvs } else d).name = d.name := by split <;> rfl
    rw [hn]
    by_cases h : d.name = name'
    · simp [h]
    · simp only [h, decide_false]; exact ih

theorem findDbi_name {dbis : List Dbi} {name : Bytes} {d : Dbi} (h : findDbi dbis name = some d) :
    d.name = name := by
  have := List.find?_some h
  simpa using this

theorem findDbi_mem {dbis : List Dbi} {name : Bytes} {d : Dbi} (h : findDbi dbis name = some d) :
    d ∈ dbis := List.mem_of_find?_eq_some h

theorem setKvs_setKvs (dbis : List Dbi) (name : Bytes) (a b : KVs) :
    setKvs (setKvs dbis name a) name b = setKvs dbis name b := by
  unfold setKvs
  rw [List.map_map]
  apply List.map_congr_left
  intro d _
  simp only [Function.comp]
  by_cases h : d.name = name <;> simp [h]

theorem dbiKvs_eq {e : Env} {name : Bytes} {d : Dbi} (h : findDbi e.dbis name = some d) :
    dbiKvs e name = some d.kvs := by simp [dbiKvs, h]

theorem dbiKvs_some {e : Env} {name : Bytes} {kvs : KVs} (h : dbiKvs e name = some kvs) :
    ∃ d, findDbi e.dbis name = some d ∧ d.kvs = kvs := by
  unfold dbiKvs at h
  cases hf : findDbi e.dbis name with
  | none => rw [hf] at h; cases h
  | some d => rw [hf] at h; exact ⟨d, rfl, by simpa using h⟩

theorem dbiKvs_set_same {e : Env} {name : Bytes} {d : Dbi} (h : findDbi e.dbis name = some d) (kvs : KVs) (t : Nat) :
    dbiKvs { dbis := setKvs e.dbis name kvs, lastTxn := t } name = some kvs := by
  simp [dbiKvs, findDbi_setKvs, h, findDbi_name h]

theorem dbiKvs_set_other (e : Env) {name name' : Bytes} (hne : name' ≠ name) (kvs : KVs) (t : Nat) :
    dbiKvs { dbis := setKvs e.dbis name kvs, lastTxn := t } name' = dbiKvs e name' := by
  simp only [dbiKvs, findDbi_setKvs]
  cases hf : findDbi e.dbis name' with
  | none => rfl
  | some d =>
    have : d.name ≠ name := by rw [findDbi_name hf]; exact hne
    simp [this]

theorem appPart_setKvs (e : Env) {name : Bytes} (hp : isPrivate name = true) (kvs : KVs) (t : Nat) :
    appPart { dbis := setKvs e.dbis name kvs, lastTxn := t } = appPart e := by
  unfold appPart setKvs
  simp only
  induction e.dbis with
  | nil => rfl
  | cons d rest ih =>
    rw [List.map_cons, List.filter_cons, List.filter_cons, ih]
    by_cases h : d.name = name
    · simp [h, hp]
    · simp [h]

/-! ### unfolding one slice of a pass -/

/-- the environment the sweeper commits after a slice -/
def commitSlice (e : Env) (name : Bytes) (r : SliceRes) : Env :=
  { dbis := setKvs e.dbis name r.db, lastTxn := if r.cleaned > 0 then e.lastTxn + 1 else e.lastTxn }

theorem passDbi_zero (ik : Bool) (cutoff n : Nat) (app : Nat → Env → Env) (name : Bytes) (e : Env)
    (last : Option (Bytes × Bytes)) (bi nt nc : Nat) :
    passDbi ik cutoff n app name 0 e last bi nt nc = .ok (e, bi, nt, nc) := rfl

theorem passDbi_succ {ik : Bool} {cutoff n : Nat} {app : Nat → Env → Env} {name : Bytes} {e : Env}
    {last : Option (Bytes × Bytes)} {d : Dbi} {r : SliceRes}
    (hd : findDbi e.dbis name = some d) (hr : slice ik cutoff d.kvs last (some n) = .ok r) (fuel bi nt nc : Nat) :
    passDbi ik cutoff n app name (fuel + 1) e last bi nt nc =
      if r.limitReached then
        passDbi ik cutoff n app name fuel (app bi (commitSlice e name r)) r.last (bi + 1) (nt + 1) (nc + r.cleaned)
      else .ok (commitSlice e name r, bi, nt + 1, nc + r.cleaned) := by
  simp only [passDbi, hd, hr, commitSlice]

theorem passDbi_succ_inv {ik : Bool} {cutoff n : Nat} {app : Nat → Env → Env} {name : Bytes} {e : Env}
    {last : Option (Bytes × Bytes)} {fuel bi nt nc : Nat} {res : Env × Nat × Nat × Nat}
    (h : passDbi ik cutoff n app name (fuel + 1) e last bi nt nc = .ok res) :
    ∃ d r, findDbi e.dbis name = some d ∧ slice ik cutoff d.kvs last (some n) = .ok r := by
  cases hd : findDbi e.dbis name with
  | none => simp [passDbi, hd] at h
  | some d =>
    cases hr : slice ik cutoff d.kvs last (some n) with
    | error err => simp [passDbi, hd, hr] at h
    | ok r => exact ⟨d, r, rfl, hr⟩

theorem boundaries_succ {ik : Bool} {cutoff n : Nat} {app : Nat → Env → Env} {name : Bytes} {e : Env}
    {last : Option (Bytes × Bytes)} {d : Dbi} {r : SliceRes}
    (hd : findDbi e.dbis name = some d) (hr : slice ik cutoff d.kvs last (some n) = .ok r) (fuel bi : Nat) :
    boundaries ik cutoff n app name (fuel + 1) e last bi =
      if r.limitReached then
        (bi, commitSlice e name r) ::
          boundaries ik cutoff n app name fuel (app bi (commitSlice e name r)) r.last (bi + 1)
      else [] := by
  simp only [boundaries, hd, hr, commitSlice]

/-! ### soundness with an arbitrary application -/

theorem passDbi_sound {ik : Bool} {cutoff n : Nat} {app : Nat → Env → Env} {name k : Bytes} :
    ∀ (fuel : Nat) (e : Env) (last : Option (Bytes × Bytes)) (bi nt nc : Nat) (res : Env × Nat × Nat × Nat)
      (kvs : KVs),
    passDbi ik cutoff n app name fuel e last bi nt nc = .ok res →
    dbiKvs e name = some kvs → Sorted ik kvs →
    Untouched ik name k app (boundaries ik cutoff n app name fuel e last bi) →
    ∀ kf, dbiKvs res.1 name = some kf →
      Sorted ik kf ∧
      (get ik kf k = get ik kvs k ∨ ∃ v, get ik kvs k = some v ∧ IsExpired cutoff v ∧ get ik kf k = none) := by
  intro fuel
  induction fuel with
  | zero =>
    intro e last bi nt nc res kvs h hk hs _ kf hkf
    rw [passDbi_zero] at h; cases h
    rw [hk] at hkf; cases hkf
    exact ⟨hs, Or.inl rfl⟩
  | succ fuel ih =>
    intro e last bi nt nc res kvs h hk hs hu kf hkf
    obtain ⟨d, r, hd, hr⟩ := passDbi_succ_inv h
    have hdk : d.kvs = kvs := by rw [dbiKvs_eq hd] at hk; simpa using hk
    rw [hdk] at hr
    rw [passDbi_succ hd (hdk ▸ hr)] at h
    rw [boundaries_succ hd (hdk ▸ hr)] at hu
    have hsr := slice_sorted hs hr
    have hgr := slice_get hs hr k
    have hce : dbiKvs (commitSlice e name r) name = some r.db := dbiKvs_set_same hd _ _
    by_cases hl : r.limitReached = true
    · rw [if_pos hl] at h hu
      cases hb : dbiKvs (app bi (commitSlice e name r)) name with
      | none =>
        -- the application dropped the DBI: the next slice fails, or the fuel is used up
        cases fuel with
        | zero => rw [passDbi_zero] at h; cases h; rw [hb] at hkf; cases hkf
        | succ f =>
          obtain ⟨d', _, hd', _⟩ := passDbi_succ_inv h
          rw [dbiKvs_eq hd'] at hb; cases hb
      | some b =>
        have ⟨hsb, hgb⟩ := hu bi _ (List.mem_cons_self ..) _ _ hce hb hsr
        have hu' : Untouched ik name k app
            (boundaries ik cutoff n app name fuel (app bi (commitSlice e name r)) r.last (bi + 1)) :=
          fun i e' hm => hu i e' (List.mem_cons_of_mem _ hm)
        have ⟨hsf, hgf⟩ := ih _ _ _ _ _ _ _ h hb hsb hu' kf hkf
        refine ⟨hsf, ?_⟩
        rw [hgb] at hgf
        rcases hgr with hgr | ⟨v, h1, h2, h3⟩
        · rw [hgr] at hgf; exact hgf
        · right
          refine ⟨v, h1, h2, ?_⟩
          rcases hgf with hgf | ⟨v', h1', _⟩
          · rw [hgf, h3]
          · rw [h3] at h1'; cases h1'
    · rw [if_neg hl] at h
      cases h
      rw [hce] at hkf; cases hkf
      exact ⟨hsr, hgr⟩

/-! ### completeness with an arbitrary application -/

theorem passDbi_complete {ik : Bool} {cutoff n : Nat} {app : Nat → Env → Env} {name k v : Bytes}
    (hn : 1 ≤ n) (hv : IsExpired cutoff v) :
    ∀ (fuel : Nat) (e : Env) (last : Option (Bytes × Bytes)) (bi nt nc : Nat) (res : Env × Nat × Nat × Nat)
      (kvs : KVs),
    passDbi ik cutoff n app name fuel e last bi nt nc = .ok res →
    res.2.2.1 < nt + fuel →
    dbiKvs e name = some kvs → Sorted ik kvs →
    (get ik kvs k = none ∨ get ik (startAt ik kvs last) k = some v) →
    Untouched ik name k app (boundaries ik cutoff n app name fuel e last bi) →
    ∃ kf, dbiKvs res.1 name = some kf ∧ get ik kf k = none := by
  intro fuel
  induction fuel with
  | zero =>
    intro e last bi nt nc res kvs h hlt
    rw [passDbi_zero] at h; cases h
    simp at hlt
  | succ fuel ih =>
    intro e last bi nt nc res kvs h hlt hk hs hinv hu
    obtain ⟨d, r, hd, hr⟩ := passDbi_succ_inv h
    have hdk : d.kvs = kvs := by rw [dbiKvs_eq hd] at hk; simpa using hk
    rw [hdk] at hr
    rw [passDbi_succ hd (hdk ▸ hr)] at h
    rw [boundaries_succ hd (hdk ▸ hr)] at hu
    have hsr := slice_sorted hs hr
    have hce : dbiKvs (commitSlice e name r) name = some r.db := dbiKvs_set_same hd _ _
    by_cases hl : r.limitReached = true
    · rw [if_pos hl] at h hu
      cases hb : dbiKvs (app bi (commitSlice e name r)) name with
      | none =>
        cases fuel with
        | zero => rw [passDbi_zero] at h; cases h; simp at hlt
        | succ f =>
          obtain ⟨d', _, hd', _⟩ := passDbi_succ_inv h
          rw [dbiKvs_eq hd'] at hb; cases hb
      | some b =>
        have ⟨hsb, hgb⟩ := hu bi _ (List.mem_cons_self ..) _ _ hce hb hsr
        have hu' : Untouched ik name k app
            (boundaries ik cutoff n app name fuel (app bi (commitSlice e name r)) r.last (bi + 1)) :=
          fun i e' hm => hu i e' (List.mem_cons_of_mem _ hm)
        refine ih _ _ _ _ _ _ _ h (by omega) hb hsb ?_ hu'
        rcases hinv with hnone | hah
        · left; rw [hgb]; exact get_none_of_sublist (slice_sublist hs hr) hnone
        · rcases slice_ahead hs hr hn hv hah with h1 | ⟨_, h2, lk, lv, h3, h4⟩
          · left; rw [hgb]; exact h1
          · right
            rw [h3]
            exact ahead_after_app hsb (by rw [hgb]; exact h2) h4
    · rw [if_neg hl] at h
      cases h
      refine ⟨r.db, hce, ?_⟩
      rcases hinv with hnone | hah
      · exact get_none_of_sublist (slice_sublist hs hr) hnone
      · exact slice_ahead_final hs hr hn hv hah (by simpa using hl)

/-- a pass that ended by itself ended in a slice, which found the DBI -/
theorem passDbi_final_exists {ik : Bool} {cutoff n : Nat} {app : Nat → Env → Env} {name : Bytes} :
    ∀ (fuel : Nat) (e : Env) (last : Option (Bytes × Bytes)) (bi nt nc : Nat) (res : Env × Nat × Nat × Nat),
    passDbi ik cutoff n app name fuel e last bi nt nc = .ok res → res.2.2.1 < nt + fuel →
    ∃ kf, dbiKvs res.1 name = some kf := by
  intro fuel
  induction fuel with
  | zero =>
    intro e last bi nt nc res h hlt
    rw [passDbi_zero] at h; cases h
    simp at hlt
  | succ fuel ih =>
    intro e last bi nt nc res h hlt
    obtain ⟨d, r, hd, hr⟩ := passDbi_succ_inv h
    rw [passDbi_succ hd hr] at h
    by_cases hl : r.limitReached = true
    · rw [if_pos hl] at h
      exact ih _ _ _ _ _ _ h (by omega)
    · rw [if_neg hl] at h
      cases h
      exact ⟨r.db, dbiKvs_set_same hd _ _⟩

/-! ### a pass without interference -/

theorem passDbi_no_app {ik : Bool} {cutoff n : Nat} {name : Bytes} (hn : 1 ≤ n) :
    ∀ (fuel : Nat) (e : Env) (last : Option (Bytes × Bytes)) (bi nt nc : Nat) (d : Dbi) (pre todo : KVs),
    findDbi e.dbis name = some d → d.kvs = pre ++ todo → startAt ik d.kvs last = todo →
    Sorted ik d.kvs → (∀ kv ∈ todo, Parses kv.2) → todo.length < fuel * n →
    ∃ ef, passDbi ik cutoff n (fun _ e => e) name fuel e last bi nt nc =
        .ok (ef, bi + todo.length / n, nt + todo.length / n + 1,
             nc + (todo.filter (fun kv => decide (IsExpired cutoff kv.2))).length) ∧
      ef.dbis = setKvs e.dbis name (pre ++ todo.filter (keep cutoff)) ∧
      e.lastTxn ≤ ef.lastTxn ∧
      (ef.lastTxn = e.lastTxn ↔ (todo.filter (fun kv => decide (IsExpired cutoff kv.2))).length = 0) := by
  intro fuel
  induction fuel with
  | zero => intro e last bi nt nc d pre todo _ _ _ _ _ hf; simp at hf
  | succ fuel ih =>
    intro e last bi nt nc d pre todo hd hpt hst hs hp hf
    have hpT : ∀ kv ∈ (startAt ik d.kvs last).take (covered (some n) (startAt ik d.kvs last)), Parses kv.2 := by
      intro kv hkv; rw [hst] at hkv; exact hp kv (List.mem_of_mem_take hkv)
    obtain ⟨r, hr⟩ : ∃ r, slice ik cutoff d.kvs last (some n) = .ok r := scan_ok _ _ _ _ _ hpT
    obtain ⟨pre', T, D, h0, hst', hT, hD, h1, h2, h3, h4, _⟩ := slice_pieces hs hr
    have hres := slice_resume hs hr
    rw [hst] at hst' hT hD h4 hres
    have hpre : pre' = pre := by
      rw [hpt, hst'] at h0; exact (List.append_cancel_right h0).symm
    subst hpre
    rw [passDbi_succ hd hr]
    have hcnt : (todo.filter (fun kv => decide (IsExpired cutoff kv.2))).length =
        r.cleaned + (D.filter (fun kv => decide (IsExpired cutoff kv.2))).length := by
      rw [hst', List.filter_append, List.length_append, h2]
    have hkeep : todo.filter (keep cutoff) = T.filter (keep cutoff) ++ D.filter (keep cutoff) := by
      rw [hst', List.filter_append]
    by_cases hle : n ≤ todo.length
    · have hl : r.limitReached = true := by rw [h4]; simp [hitLimit, hle]
      rw [if_pos hl]
      have hDlen : D.length = todo.length - n := by rw [hD, List.length_drop]; simp only [covered]; omega
      have hd' : findDbi (commitSlice e name r).dbis name = some { d with kvs := r.db } := by
        simp [commitSlice, findDbi_setKvs, hd, findDbi_name hd]
      have hf' : D.length < fuel * n := by
        rw [hDlen]; rw [Nat.succ_mul] at hf; omega
      obtain ⟨ef, he1, he2, he3, he4⟩ := ih (commitSlice e name r) r.last (bi + 1) (nt + 1) (nc + r.cleaned)
        { d with kvs := r.db } (pre' ++ T.filter (keep cutoff)) D hd'
        (by simp [h1]) (by simpa [covered] using hres.trans hD.symm) (slice_sorted hs hr)
        (fun kv hkv => hp kv (by rw [hst']; exact List.mem_append_right _ hkv)) hf'
      have hdiv : todo.length / n = D.length / n + 1 := by
        have : todo.length = D.length + n := by omega
        rw [this, Nat.add_div_right _ (by omega)]
      refine ⟨ef, ?_, ?_, ?_, ?_⟩
      · rw [he1, hdiv, hcnt]
        congr 1
        simp only [Prod.mk.injEq, true_and]
        omega
      · rw [he2, hkeep]
        simp only [commitSlice, setKvs_setKvs, List.append_assoc]
      · have : e.lastTxn ≤ (commitSlice e name r).lastTxn := by
          simp only [commitSlice]; split <;> omega
        omega
      · have hc : (commitSlice e name r).lastTxn = if r.cleaned > 0 then e.lastTxn + 1 else e.lastTxn := rfl
        rw [hcnt]
        by_cases hz : r.cleaned > 0
        · rw [if_pos hz] at hc; omega
        · rw [if_neg hz] at hc
          rw [hc] at he3 he4
          rw [he4]; omega
    · have hl : ¬ r.limitReached = true := by rw [h4]; simp [hitLimit, hle]
      rw [if_neg hl]
      have hcov : covered (some n) todo = todo.length := by simp only [covered]; omega
      have hDnil : D = [] := by rw [hD, hcov]; simp
      have hTall : T = todo := by rw [hT, hcov]; simp
      have hdiv : todo.length / n = 0 := Nat.div_eq_of_lt (by omega)
      refine ⟨commitSlice e name r, ?_, ?_, ?_, ?_⟩
      · rw [hdiv, hcnt, hDnil]; simp
      · simp only [commitSlice]; rw [h1, hDnil, hTall]; simp
      · simp only [commitSlice]; split <;> omega
      · rw [hcnt, hDnil]
        simp only [commitSlice, List.filter_nil, List.length_nil, Nat.add_zero]
        split <;> omega

/-! ### the application's DBIs under a sweep of a private DBI -/

theorem passDbi_appPart {ik : Bool} {cutoff n : Nat} {app : Nat → Env → Env} {name : Bytes}
    (hp : isPrivate name = true) (g : Nat → List Dbi → List Dbi)
    (happ : ∀ i e, appPart (app i e) = g i (appPart e)) :
    ∀ (fuel : Nat) (e : Env) (last : Option (Bytes × Bytes)) (bi nt nc : Nat) (res : Env × Nat × Nat × Nat),
    passDbi ik cutoff n app name fuel e last bi nt nc = .ok res →
    bi ≤ res.2.1 ∧
      appPart res.1 = (List.range' bi (res.2.1 - bi)).foldl (fun s i => g i s) (appPart e) := by
  intro fuel
  induction fuel with
  | zero =>
    intro e last bi nt nc res h
    rw [passDbi_zero] at h; cases h
    simp
  | succ fuel ih =>
    intro e last bi nt nc res h
    obtain ⟨d, r, hd, hr⟩ := passDbi_succ_inv h
    rw [passDbi_succ hd hr] at h
    have hce : appPart (commitSlice e name r) = appPart e := appPart_setKvs e hp _ _
    by_cases hl : r.limitReached = true
    · rw [if_pos hl] at h
      have ⟨h1, h2⟩ := ih _ _ _ _ _ _ h
      refine ⟨by omega, ?_⟩
      have : res.2.1 - bi = (res.2.1 - (bi + 1)) + 1 := by omega
      rw [this, List.range'_succ, List.foldl_cons, h2, happ, hce]
    · rw [if_neg hl] at h
      cases h
      simp [hce]

end Ls.Sweeper
